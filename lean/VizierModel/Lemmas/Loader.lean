/-
Lemmas for C12 about the loader model (`Model/Loader.lean`): `maxId`, the set operations on
`inc`, the pigeonhole fact behind the `len(inc) == max_trial_id` shortcut, and exactness of
`get_newly_completed_trials` under the lineage invariant.
-/
import VizierModel.Model.Loader
import Mathlib.Data.List.Nodup
import Batteries.Data.List.Perm

namespace VizierModel.Loader

/-! ### `maxId` -/

theorem le_maxId {env : Env} {t : Trial} (h : t ∈ env) : t.id ≤ maxId env := by
  induction env with
  | nil => cases h
  | cons a l ih =>
    simp only [maxId]
    rcases List.mem_cons.mp h with rfl | h
    · exact Nat.le_max_left _ _
    · exact Nat.le_trans (ih h) (Nat.le_max_right _ _)

theorem maxId_le {env : Env} {m : Nat} (h : ∀ t ∈ env, t.id ≤ m) : maxId env ≤ m := by
  induction env with
  | nil => simp [maxId]
  | cons a l ih =>
    simp only [maxId]
    exact Nat.max_le.mpr ⟨h a List.mem_cons_self, ih fun t ht => h t (List.mem_cons_of_mem _ ht)⟩

theorem maxId_attained (env : Env) : maxId env = 0 ∨ ∃ t ∈ env, t.id = maxId env := by
  induction env with
  | nil => left; rfl
  | cons a l ih =>
    simp only [maxId]
    rcases Nat.le_total a.id (maxId l) with h | h
    · rw [Nat.max_eq_right h]
      rcases ih with h0 | ⟨t, ht, e⟩
      · left; exact h0
      · right; exact ⟨t, List.mem_cons_of_mem _ ht, e⟩
    · rw [Nat.max_eq_left h]; right; exact ⟨a, List.mem_cons_self, rfl⟩

theorem maxId_map_id (env : Env) (f : Trial → Trial) (hf : ∀ t, (f t).id = t.id) :
    maxId (env.map f) = maxId env := by
  induction env with
  | nil => rfl
  | cons a l ih => simp only [List.map_cons, maxId, hf, ih]

/-- deleting a trial other than the one holding the largest id keeps the largest id -/
theorem maxId_filter_ne (env : Env) (d : Nat) (h : d ≠ maxId env) :
    maxId env ≤ maxId (env.filter fun t => decide (t.id ≠ d)) := by
  rcases maxId_attained env with h0 | ⟨t, ht, e⟩
  · omega
  · rw [← e]
    apply le_maxId
    rw [List.mem_filter]
    exact ⟨ht, by simpa [e] using fun h' : maxId env = d => h h'.symm⟩

/-! ### the set `inc` -/

theorem mem_insertNew {l : List Nat} {a x : Nat} : x ∈ insertNew l a ↔ x ∈ l ∨ x = a := by
  unfold insertNew
  split
  · constructor
    · exact Or.inl
    · rintro (h | rfl) <;> assumption
  · simp

theorem mem_union {new l : List Nat} {x : Nat} : x ∈ union l new ↔ x ∈ l ∨ x ∈ new := by
  unfold union
  induction new generalizing l with
  | nil => simp
  | cons a t ih =>
    simp only [List.foldl_cons, ih, mem_insertNew, List.mem_cons]
    constructor
    · rintro ((h | h) | h)
      · exact Or.inl h
      · exact Or.inr (Or.inl h)
      · exact Or.inr (Or.inr h)
    · rintro (h | h | h)
      · exact Or.inl (Or.inl h)
      · exact Or.inl (Or.inr h)
      · exact Or.inr h

theorem nodup_insertNew {l : List Nat} {a : Nat} (h : l.Nodup) : (insertNew l a).Nodup := by
  unfold insertNew
  split
  · exact h
  · rename_i hn
    rw [List.nodup_append]
    refine ⟨h, List.nodup_singleton a, ?_⟩
    intro x hx y hy
    rw [List.mem_singleton] at hy
    subst hy
    intro e
    exact hn (e ▸ hx)

theorem nodup_union {new l : List Nat} (h : l.Nodup) : (union l new).Nodup := by
  unfold union
  induction new generalizing l with
  | nil => exact h
  | cons a t ih => exact ih (nodup_insertNew h)

theorem insertNew_perm {l l' : List Nat} (a : Nat) (h : l.Perm l') :
    (insertNew l a).Perm (insertNew l' a) := by
  unfold insertNew
  by_cases ha : a ∈ l
  · rw [if_pos ha, if_pos (h.mem_iff.mp ha)]; exact h
  · rw [if_neg ha, if_neg (fun h' => ha (h.mem_iff.mpr h'))]; exact h.append_right _

theorem union_perm {new l l' : List Nat} (h : l.Perm l') : (union l new).Perm (union l' new) := by
  unfold union
  induction new generalizing l l' with
  | nil => exact h
  | cons a t ih => exact ih (insertNew_perm a h)

theorem foldl_insertNew_fresh (l acc : List Nat) (hl : l.Nodup) (hd : ∀ x ∈ l, x ∉ acc) :
    l.foldl insertNew acc = acc ++ l := by
  induction l generalizing acc with
  | nil => simp
  | cons a t ih =>
    have ha : a ∉ acc := hd a List.mem_cons_self
    have hnd := List.nodup_cons.mp hl
    simp only [List.foldl_cons]
    have e : insertNew acc a = acc ++ [a] := by unfold insertNew; rw [if_neg ha]
    rw [e, ih (acc ++ [a]) hnd.2]
    · simp
    · intro x hx hx'
      rcases List.mem_append.mp hx' with h | h
      · exact hd x (List.mem_cons_of_mem _ hx) h
      · rw [List.mem_singleton] at h
        subst h
        exact hnd.1 hx

/-- `set(json.loads(json.dumps(list(s))))` is `s` again -/
theorem load_of_nodup {l : List Nat} (h : l.Nodup) : load l = l := by
  unfold load union
  rw [foldl_insertNew_fresh l [] h (by simp)]
  simp

/-- a duplicate-free list of `n` numbers from `1..n` contains all of `1..n` -/
theorem full_of_length {l : List Nat} {n : Nat} (hn : l.Nodup)
    (hsub : ∀ i ∈ l, 1 ≤ i ∧ i ≤ n) (hlen : l.length = n) :
    ∀ i, 1 ≤ i → i ≤ n → i ∈ l := by
  have hs : l ⊆ List.range' 1 n := fun i hi => by
    have := hsub i hi
    rw [List.mem_range'_1]; omega
  have hp : l.Perm (List.range' 1 n) :=
    (List.subperm_of_subset hn hs).perm_of_length_le (by simp [hlen])
  intro i h1 h2
  exact hp.mem_iff.mpr (by rw [List.mem_range'_1]; omega)

/-! ### `get_newly_completed_trials` -/

theorem newly_sublist (cfg : Cfg) (env : Env) (inc : List Nat) (m : Nat) :
    (newlyCompleted cfg env inc m).1.Sublist env := by
  unfold newlyCompleted
  split
  · exact List.nil_sublist _
  · exact List.filter_sublist

theorem newly_completed_status (cfg : Cfg) (env : Env) (inc : List Nat) (m : Nat) :
    ∀ t ∈ (newlyCompleted cfg env inc m).1, t.st = .completed := by
  unfold newlyCompleted
  split
  · simp
  · intro t ht
    simp only [getTrials, List.mem_filter, Bool.and_eq_true, decide_eq_true_eq] at ht
    exact ht.2.2

theorem mem_newly_inc (cfg : Cfg) (env : Env) (inc : List Nat) (m : Nat) (i : Nat) :
    i ∈ (newlyCompleted cfg env inc m).2 ↔
      i ∈ inc ∨ i ∈ (newlyCompleted cfg env inc m).1.map (·.id) := by
  unfold newlyCompleted
  split
  · simp
  · simp only [mem_union]

theorem nodup_newly_inc (cfg : Cfg) (env : Env) (inc : List Nat) (m : Nat) (h : inc.Nodup) :
    (newlyCompleted cfg env inc m).2.Nodup := by
  unfold newlyCompleted
  split
  · exact h
  · exact nodup_union h

/-- the loader reads `inc` through `in` and `len` only -/
theorem newly_perm (cfg : Cfg) (env : Env) {inc inc' : List Nat} (m : Nat) (h : inc.Perm inc') :
    (newlyCompleted cfg env inc m).1 = (newlyCompleted cfg env inc' m).1 ∧
      ((newlyCompleted cfg env inc m).2).Perm (newlyCompleted cfg env inc' m).2 := by
  have hmem : ∀ i, (i ∈ inc ↔ i ∈ inc') := fun i => h.mem_iff
  have hfilter : ((List.range' 1 m).filter fun i => decide (i ∉ inc)) =
      ((List.range' 1 m).filter fun i => decide (i ∉ inc')) := by
    apply List.filter_congr
    intro i _
    simp only [hmem i]
  unfold newlyCompleted
  rw [h.length_eq]
  split
  · exact ⟨rfl, h⟩
  · rw [hfilter]
    exact ⟨rfl, union_perm h⟩

/-- EXACTNESS of one loader call.  `G` = what this lineage was given before; `inc` holds
exactly the ids of `G`; a trial of the table carries a given id iff it is that given trial.
Where the shortcut is present it additionally needs `inc ⊆ {1..max}` (pigeonhole). -/
theorem newly_exact (cfg : Cfg) (env : Env) (inc : List Nat) (G : List Trial)
    (hpos : ∀ t ∈ env, 1 ≤ t.id)
    (hf : ∀ i, i ∈ inc ↔ ∃ g ∈ G, g.id = i)
    (hlink : ∀ g ∈ G, ∀ t ∈ env, (t.id = g.id ↔ t.uid = g.uid))
    (hsc : cfg.shortcut = true → inc.Nodup ∧ ∀ i ∈ inc, 1 ≤ i ∧ i ≤ maxId env) :
    (newlyCompleted cfg env inc (maxId env)).1 =
      env.filter fun t => decide (t.st = .completed) && decide (t.uid ∉ G.map (·.uid)) := by
  have key : ∀ t ∈ env, (t.id ∈ inc ↔ t.uid ∈ G.map (·.uid)) := by
    intro t ht
    rw [hf, List.mem_map]
    constructor
    · rintro ⟨g, hg, e⟩; exact ⟨g, hg, ((hlink g hg t ht).mp e.symm).symm⟩
    · rintro ⟨g, hg, e⟩; exact ⟨g, hg, ((hlink g hg t ht).mpr e.symm).symm⟩
  unfold newlyCompleted
  split
  · rename_i h
    obtain ⟨hs, hlen⟩ := h
    obtain ⟨hnd, hsub⟩ := hsc hs
    have full := full_of_length hnd hsub hlen
    symm
    rw [List.filter_eq_nil_iff]
    intro t ht
    have h1 : t.id ∈ inc := full t.id (hpos t ht) (le_maxId ht)
    have h2 := (key t ht).mp h1
    simp [h2]
  · simp only [getTrials]
    apply List.filter_congr
    intro t ht
    have h1 := hpos t ht
    have h2 := le_maxId ht
    have h3 := key t ht
    by_cases hi : t.id ∈ inc
    · have hu := h3.mp hi
      simp [List.mem_filter, hi, hu]
    · have hu : t.uid ∉ G.map (·.uid) := fun h' => hi (h3.mpr h')
      have hr : t.id ∈ List.range' 1 (maxId env) := by rw [List.mem_range'_1]; omega
      simp only [List.mem_filter, hr, hi, hu, not_false_eq_true, decide_true, and_self,
        Bool.true_and, Bool.and_true]

end VizierModel.Loader
