import VizierModel.Lemmas.ServiceOps
namespace VizierModel.Svc

def AllStudies (P : Study → Prop) (db : DB) : Prop := ∀ st ∈ db.studies, P st

theorem onStudy_all {P : Study → Prop} {db : DB} (h : AllStudies P db) (o s : String) (guard : Bool)
    (f : Study → Resp × Study) (hf : ∀ st, P st → P (f st).2) : AllStudies P (onStudy db o s guard f).2 := by
  unfold onStudy
  split
  · exact h
  · rename_i st0 hfind
    split
    · exact h
    · intro st hst
      obtain ⟨x, hx, rfl⟩ := List.mem_map.mp hst
      split
      · exact hf st0 (h st0 (List.mem_of_find?_eq_some hfind))
      · exact h x hx

@[simp] theorem putTrial_sugOps (st : Study) (t : Trial) : (st.putTrial t).sugOps = st.sugOps := rfl
@[simp] theorem putEsOp_sugOps (st : Study) (o : EsOp) : (st.putEsOp o).sugOps = st.sugOps := by
  unfold Study.putEsOp; split <;> rfl
@[simp] theorem applyDecisions_sugOps (st : Study) (ds : List (Nat × Bool)) : (applyDecisions st ds).sugOps = st.sugOps := by
  induction ds generalizing st with
  | nil => rfl
  | cons d ds ih => obtain ⟨i, b⟩ := d; simp [applyDecisions, ih]

theorem completeBody_sugOps (st : Study) (id : Nat) (f : Option Meas) (i : Bool) (r : String) :
    (completeBody st id f i r).2.sugOps = st.sugOps := by
  unfold completeBody; repeat' split
  all_goals rfl
theorem addMeasurementBody_sugOps (st : Study) (id : Nat) (m : Meas) : (addMeasurementBody st id m).2.sugOps = st.sugOps := by
  unfold addMeasurementBody; repeat' split
  all_goals rfl
theorem stopBody_sugOps (st : Study) (id : Nat) : (stopBody st id).2.sugOps = st.sugOps := by
  unfold stopBody; repeat' split
  all_goals rfl
theorem deleteTrialBody_sugOps (st : Study) (id : Nat) : (deleteTrialBody st id).2.sugOps = st.sugOps := by
  unfold deleteTrialBody; repeat' split
  all_goals rfl
theorem esCompute_sugOps (cfg : Cfg) (st : Study) (id : Nat) (es : EsOutcome) :
    (esCompute cfg st id es).2.sugOps = st.sugOps := by
  unfold esCompute
  split
  · split <;> simp
  · simp only
    split
    · split <;> simp [updateMetadata_sugOps]
    · split
      · split <;> simp [updateMetadata_sugOps]
      · simp [updateMetadata_sugOps]
theorem earlyStopBody_sugOps (cfg : Cfg) (st : Study) (id : Nat) (es : EsOutcome) :
    (earlyStopBody cfg st id es).2.sugOps = st.sugOps := by
  unfold earlyStopBody
  repeat' split
  all_goals (try rw [esCompute_sugOps])
  all_goals simp

/-- **No operation is ever left unfinished** — for every history of calls, every algorithm
    behaviour, with the repaired service. -/
theorem step_pendingFree (cfg : Cfg) (hc : cfg.shortDeliveryOk = true) (hc2 : cfg.suggestCatchesAll = true)
    (hc3 : cfg.deleteCascadesOps = true) (db : DB) (r : Req) (h : AllStudies PendingFree db) :
    AllStudies PendingFree (step cfg db r).2 := by
  cases r with
  | createStudy owner display nameSet state spec md =>
    simp only [step]
    repeat' split
    all_goals first
      | exact h
      | (intro st hst
         rcases List.mem_append.mp hst with h' | h'
         · exact h st h'
         · simp only [List.mem_singleton] at h'
           subst h'
           intro o ho
           simp [hc3] at ho)
  | getStudy o s => exact onStudy_all h o s false _ (fun _ hp => hp)
  | listStudies o => simp only [step]; split <;> exact h
  | deleteStudy o s =>
    simp only [step]
    split
    · exact h
    · intro st hst; exact h st (List.mem_filter.mp hst).1
  | setStudyState o s stt => exact onStudy_all h o s false _ (fun _ hp => hp)
  | createTrial o s t => exact onStudy_all h o s true _ (fun _ hp => hp)
  | suggest o s client count alg =>
    exact onStudy_all h o s true _ (fun st hp => suggestBody_pendingFree cfg hc hc2 st client count alg hp)
  | getOperation o s client num =>
    simp only [step]
    split
    · split <;> exact h
    · apply onStudy_all h
      intro st hp; split <;> exact hp
  | getTrial o s id => apply onStudy_all h; intro st hp; split <;> exact hp
  | listTrials o s => exact onStudy_all h o s false _ (fun _ hp => hp)
  | addMeasurement o s id m =>
    exact onStudy_all h o s true _ (fun st hp => by unfold PendingFree; rw [addMeasurementBody_sugOps]; exact hp)
  | complete o s id f i rs =>
    exact onStudy_all h o s true _ (fun st hp => by unfold PendingFree; rw [completeBody_sugOps]; exact hp)
  | stop o s id => exact onStudy_all h o s true _ (fun st hp => by unfold PendingFree; rw [stopBody_sugOps]; exact hp)
  | deleteTrial o s id =>
    exact onStudy_all h o s true _ (fun st hp => by unfold PendingFree; rw [deleteTrialBody_sugOps]; exact hp)
  | checkEarlyStop o s id es =>
    exact onStudy_all h o s true _ (fun st hp => by unfold PendingFree; rw [earlyStopBody_sugOps]; exact hp)
  | updateMetadata o s us =>
    exact onStudy_all h o s true _ (fun st hp => by unfold PendingFree; simp only [updateMetadata_sugOps]; exact hp)
  | listOptimal o s => exact onStudy_all h o s false _ (fun _ hp => hp)

theorem run_pendingFree (cfg : Cfg) (hc : cfg.shortDeliveryOk = true) (hc2 : cfg.suggestCatchesAll = true)
    (hc3 : cfg.deleteCascadesOps = true) (db : DB) (hs : List Req) (h : AllStudies PendingFree db) :
    AllStudies PendingFree (run cfg db hs) := by
  induction hs generalizing db with
  | nil => exact h
  | cons r rs ih => exact ih _ (step_pendingFree cfg hc hc2 hc3 db r h)

end VizierModel.Svc
