import VizierModel.Lemmas.ServiceErrors
namespace VizierModel.Svc

/-! ### lengths -/

theorem assignRequested_length (client : String) (n : Nat) (pool : List Trial) :
    (assignRequested client n pool).length = min n pool.length := by
  induction n generalizing pool with
  | zero => simp [assignRequested]
  | succ n ih =>
    cases pool with
    | nil => simp [assignRequested]
    | cons p ps =>
      unfold assignRequested
      split
      · rename_i h; simp at h
      · simp only [List.length_cons, ih, List.length_dropLast]
        omega

theorem takeFromEnd_length (client : String) (need nextId : Nat) (l : List Sugg) :
    (takeFromEnd client need nextId l).1.length = min need l.length := by
  induction need generalizing nextId l with
  | zero => simp [takeFromEnd]
  | succ n ih =>
    cases l with
    | nil => simp [takeFromEnd]
    | cons a as =>
      unfold takeFromEnd
      split
      · rename_i h; simp at h
      · simp only [List.length_cons, ih, List.length_dropLast]
        omega

theorem takeFromEnd_short (client : String) (need nextId : Nat) (l : List Sugg) :
    (takeFromEnd client need nextId l).2.2 = decide (l.length < need) := by
  induction need generalizing nextId l with
  | zero => simp [takeFromEnd]
  | succ n ih =>
    cases l with
    | nil => simp [takeFromEnd]
    | cons a as =>
      unfold takeFromEnd
      split
      · rename_i h; simp at h
      · simp only [ih, List.length_dropLast, List.length_cons]
        congr 1
        simp only [eq_iff_iff]
        omega

/-- nothing is dropped: the suggestions that were not handed out are exactly the prefix that was
    not popped, and together they are all of Pythia's suggestions -/
theorem takeFromEnd_partition (client : String) (need nextId : Nat) (l : List Sugg) :
    (takeFromEnd client need nextId l).2.1.map (·.params) ++
      ((takeFromEnd client need nextId l).1.map (·.params)).reverse = l.map (·.params) := by
  induction need generalizing nextId l with
  | zero => simp [takeFromEnd]
  | succ n ih =>
    cases l with
    | nil => simp [takeFromEnd]
    | cons a as =>
      unfold takeFromEnd
      split
      · rename_i h; simp at h
      · rename_i s hl
        simp only [List.map_cons, List.reverse_cons, newTrial]
        rw [← List.append_assoc, ih]
        obtain ⟨ys, hys⟩ := List.getLast?_eq_some_iff.mp hl
        rw [hys]
        simp only [List.dropLast_concat]
        have e : (a :: as).map (·.params) = (ys ++ [s]).map (·.params) := by rw [hys]
        simp only [List.map_cons] at e
        rw [e]; simp

theorem surplus_params (nextId : Nat) (l : List Sugg) : (surplus nextId l).map (·.params) = l.map (·.params) := by
  induction l generalizing nextId with
  | nil => rfl
  | cons a as ih => simp [surplus, newTrial, ih]

theorem surplus_requested (nextId : Nat) (l : List Sugg) :
    ∀ t ∈ surplus nextId l, t.state = .requested ∧ t.client = "" := by
  induction l generalizing nextId with
  | nil => simp [surplus]
  | cons a as ih =>
    intro t ht
    simp only [surplus, List.mem_cons] at ht
    rcases ht with rfl | ht
    · exact ⟨rfl, rfl⟩
    · exact ih _ t ht

theorem takeFromEnd_active (client : String) (need nextId : Nat) (l : List Sugg) :
    ∀ t ∈ (takeFromEnd client need nextId l).1, t.state = .active ∧ t.client = client := by
  induction need generalizing nextId l with
  | zero => simp [takeFromEnd]
  | succ n ih =>
    cases l with
    | nil => simp [takeFromEnd]
    | cons a as =>
      unfold takeFromEnd
      split
      · simp
      · intro t ht
        simp only [List.mem_cons] at ht
        rcases ht with rfl | ht
        · exact ⟨rfl, rfl⟩
        · exact ih _ _ t ht

/-! ### sticky: a worker that already holds enough ACTIVE trials gets exactly those, nothing is created -/

def ownActive (st : Study) (client : String) : List Trial :=
  st.trials.filter fun t => t.state == .active && t.client == client

theorem suggest_sticky (cfg : Cfg) (st : Study) (client : String) (count : Nat) (alg : AlgOutcome)
    (hdone : (opsOf st client).find? (fun o => !o.done) = none)
    (hown : (ownActive st client).length ≥ count) :
    (suggestBody cfg st client count alg).2.trials = st.trials ∧
    ∃ o, (suggestBody cfg st client count alg).1 = .op client o ((ownActive st client).take count) ∧
      o.done = true ∧ o.result = .trials (((ownActive st client).take count).map (·.id)) := by
  rw [suggestBody_of_free _ _ _ _ _ (hdone)]
  unfold suggestRest
  simp only []
  have : (st.trials.filter fun t => t.state == .active && t.client == client).length ≥ count := hown
  simp only [this, if_true]
  exact ⟨rfl, _, rfl, rfl, rfl⟩

/-! ### operations: always finished (C06), numbered 1..k (C02) -/

theorem opsOf_append (st : Study) (c : String) (o : SugOp) :
    opsOf { st with sugOps := st.sugOps ++ [o] } c = if o.client == c then opsOf st c ++ [o] else opsOf st c := by
  unfold opsOf
  simp only [List.filter_append, List.filter_cons, List.filter_nil]
  split <;> simp

/-- `Study.putOp` replaces the pending copy of the operation by the finished one -/
theorem putOp_all_done (st : Study) (o : SugOp) (ho : o.done = true)
    (h : ∀ x ∈ st.sugOps, x.done = true ∨ (x.client = o.client ∧ x.num = o.num)) :
    ∀ x ∈ (st.putOp o).sugOps, x.done = true := by
  intro x hx
  unfold Study.putOp at hx
  obtain ⟨y, hy, rfl⟩ := List.mem_map.mp hx
  by_cases hm : (y.client == o.client && y.num == o.num) = true
  · simp [hm, ho]
  · simp only [hm]
    rcases h y hy with h1 | h1
    · simpa using h1
    · simp [h1.1, h1.2] at hm

end VizierModel.Svc
