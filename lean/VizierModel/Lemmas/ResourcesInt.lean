/- `digits` (decimal rendering) and `pyInt` (Python's `int(str)` on ASCII): `pyInt (digits n) = n`, and
`pyInt` accepts exactly the documented shape `wellFormedInt`, with value `value`. -/
import VizierModel.Model.Resources
namespace VizierModel.Res

/-! ## characters -/

theorem digitVal_digitChar : ∀ d, d < 10 → digitVal (digitChar d) = some d := by decide

theorem isDigit_digitChar (d : Nat) : isDigit (digitChar d) = true := by
  by_cases h : d < 10
  · simp [isDigit, digitVal_digitChar d h]
  · have : digitChar d = '9' := by
      unfold digitChar
      split <;> first | rfl | omega
    rw [this]; decide

theorem digitOr0_digitChar (d : Nat) (h : d < 10) : digitOr0 (digitChar d) = d := by
  simp [digitOr0, digitVal_digitChar d h]

theorem digitVal_cases (c : Char) (h : isDigit c = true) :
    c = '0' ∨ c = '1' ∨ c = '2' ∨ c = '3' ∨ c = '4' ∨ c = '5' ∨ c = '6' ∨ c = '7' ∨ c = '8' ∨ c = '9' := by
  unfold isDigit digitVal at h
  by_cases h0 : c = '0'; · simp [h0]
  by_cases h1 : c = '1'; · simp [h1]
  by_cases h2 : c = '2'; · simp [h2]
  by_cases h3 : c = '3'; · simp [h3]
  by_cases h4 : c = '4'; · simp [h4]
  by_cases h5 : c = '5'; · simp [h5]
  by_cases h6 : c = '6'; · simp [h6]
  by_cases h7 : c = '7'; · simp [h7]
  by_cases h8 : c = '8'; · simp [h8]
  by_cases h9 : c = '9'; · simp [h9]
  simp [h0, h1, h2, h3, h4, h5, h6, h7, h8, h9] at h

theorem isDigit_props (c : Char) (h : isDigit c = true) :
    c ≠ '/' ∧ c ≠ '_' ∧ c ≠ '+' ∧ c ≠ '-' ∧ isWs c = false := by
  rcases digitVal_cases c h with rfl | rfl | rfl | rfl | rfl | rfl | rfl | rfl | rfl | rfl <;> decide

theorem isWs_cases (c : Char) (h : isWs c = true) :
    c = ' ' ∨ c = '\t' ∨ c = '\n' ∨ c = '\r' ∨ c = '\x0b' ∨ c = '\x0c' := by
  simpa [isWs, or_assoc] using h

theorem isWs_props (c : Char) (h : isWs c = true) :
    c ≠ '/' ∧ c ≠ '_' ∧ c ≠ '+' ∧ c ≠ '-' ∧ isDigit c = false := by
  rcases isWs_cases c h with rfl | rfl | rfl | rfl | rfl | rfl <;> decide

theorem isDigit_iff (c : Char) : isDigit c = true ↔ ∃ d, digitVal c = some d := by
  simp [isDigit, Option.isSome_iff_exists]

theorem digitOr0_of (c : Char) (d : Nat) (h : digitVal c = some d) : digitOr0 c = d := by
  simp [digitOr0, h]

/-! ## `digits` -/

theorem digitsAux_append (f : Nat) : ∀ (n : Nat) (acc : List Char),
    digitsAux f n acc = digitsAux f n [] ++ acc := by
  induction f with
  | zero => intro n acc; simp [digitsAux]
  | succ f ih =>
    intro n acc
    unfold digitsAux
    split
    · simp
    · rw [ih (n / 10) (digitChar (n % 10) :: acc), ih (n / 10) [digitChar (n % 10)]]; simp

theorem digitsAux_fuel (f : Nat) : ∀ (f' n : Nat), n < f → n < f' →
    digitsAux f n [] = digitsAux f' n [] := by
  induction f with
  | zero => intro f' n h; omega
  | succ f ih =>
    intro f' n h h'
    cases f' with
    | zero => omega
    | succ f' =>
      unfold digitsAux
      split
      · rfl
      · rw [digitsAux_append f, digitsAux_append f']
        rw [ih f' (n / 10) (by omega) (by omega)]

theorem digits_lt (n : Nat) (h : n < 10) : digits n = [digitChar n] := by
  simp [digits, digitsAux, h]

theorem digits_ge (n : Nat) (h : 10 ≤ n) : digits n = digits (n / 10) ++ [digitChar (n % 10)] := by
  have hn : ¬ n < 10 := by omega
  unfold digits
  rw [digitsAux]
  simp only [hn, if_false]
  rw [digitsAux_append, digitsAux_fuel n (n / 10 + 1) (n / 10) (by omega) (by omega)]

theorem digits_ne_nil (n : Nat) : digits n ≠ [] := by
  by_cases h : n < 10
  · simp [digits_lt n h]
  · rw [digits_ge n (by omega)]; simp

theorem digits_allDigit (n : Nat) : ∀ c ∈ digits n, isDigit c = true := by
  induction n using Nat.strongRecOn with
  | _ n ih =>
    by_cases h : n < 10
    · rw [digits_lt n h]; intro c hc; simp at hc; subst hc; exact isDigit_digitChar n
    · rw [digits_ge n (by omega)]
      intro c hc
      rcases List.mem_append.mp hc with hc | hc
      · exact ih (n / 10) (by omega) c hc
      · simp at hc; subst hc; exact isDigit_digitChar _

theorem natCont_append (a : Nat) (l : List Char) (c : Char) :
    natCont a (l ++ [c]) = natCont a l * 10 + digitOr0 c := by
  simp [natCont, List.foldl_append]

theorem natCont_digits (n : Nat) : natCont 0 (digits n) = n := by
  induction n using Nat.strongRecOn with
  | _ n ih =>
    by_cases h : n < 10
    · rw [digits_lt n h]; simp [natCont, digitOr0_digitChar n h]
    · rw [digits_ge n (by omega), natCont_append, ih (n / 10) (by omega),
        digitOr0_digitChar _ (Nat.mod_lt _ (by omega))]
      omega

/-- `digits` is injective (it has a left inverse) -/
theorem digits_inj (a b : Nat) (h : digits a = digits b) : a = b := by
  rw [← natCont_digits a, ← natCont_digits b, h]

theorem digits_slashFree (n : Nat) : ∀ c ∈ digits n, c ≠ '/' :=
  fun c hc => (isDigit_props c (digits_allDigit n c hc)).1

/-! ## the digit loop -/

theorem scan_allDigits (l : List Char) : ∀ (acc : Nat), (∀ c ∈ l, isDigit c = true) →
    scan false acc l = some (natCont acc l, []) := by
  induction l with
  | nil => intro acc _; simp [scan, natCont]
  | cons c cs ih =>
    intro acc h
    obtain ⟨d, hd⟩ := (isDigit_iff c).mp (h c (by simp))
    rw [scan]
    simp only [hd]
    rw [ih _ (fun x hx => h x (by simp [hx]))]
    simp [natCont, digitOr0_of c d hd]

/-- `int(str(n)) == n` for `n ≥ 0` -/
theorem pyInt_digits' (n : Nat) : pyInt (digits n) = some (n : Int) := by
  have hall := digits_allDigit n
  have hval := natCont_digits n
  cases hl : digits n with
  | nil => exact absurd hl (digits_ne_nil n)
  | cons c cs =>
    rw [hl] at hall hval
    have hc := hall c (by simp)
    obtain ⟨_, _, hp, hm, hws⟩ := isDigit_props c hc
    obtain ⟨d, hd⟩ := (isDigit_iff c).mp hc
    have h1 : (c :: cs).dropWhile isWs = c :: cs := by simp [List.dropWhile, hws]
    have h2 : sign (c :: cs) = (false, c :: cs) := by simp [sign, hp, hm]
    have h3 := scan_allDigits cs d (fun x hx => hall x (by simp [hx]))
    have h4 : natCont d cs = n := by
      rw [← hval]; simp [natCont, digitOr0_of c d hd]
    unfold pyInt
    simp only [h1, h2, parseBody, hd, h3, h4]
    simp [applySign]

/-! ## `pyInt` accepts exactly the documented shape -/

/-- what the rest of the digit loop requires of the remaining body `B` when the previous character was
(`p = true`) or was not (`p = false`) an underscore -/
def tailOK (p : Bool) (B : List Char) : Bool :=
  (!p || (B ≠ [] && B.head? ≠ some '_')) && noDoubleUS B && B.getLast? ≠ some '_'

theorem tailOK_nil (p : Bool) : tailOK p [] = !p := by
  cases p <;> simp [tailOK, noDoubleUS]

theorem noDoubleUS_cons_ne (c : Char) (B : List Char) (h : c ≠ '_') :
    noDoubleUS (c :: B) = noDoubleUS B := by
  cases B with
  | nil => simp [noDoubleUS]
  | cons b r => simp [noDoubleUS, h]

theorem getLast?_cons_ne (c : Char) (B : List Char) (h : c ≠ '_') :
    (decide ((c :: B).getLast? ≠ some '_')) = decide (B.getLast? ≠ some '_') := by
  cases B with
  | nil => simp [h]
  | cons b r => simp [List.getLast?_cons_cons]

theorem tailOK_digit (p : Bool) (c : Char) (B : List Char) (h : c ≠ '_') :
    tailOK p (c :: B) = tailOK false B := by
  unfold tailOK
  rw [noDoubleUS_cons_ne c B h, getLast?_cons_ne c B h]
  cases p <;> simp [h]

theorem tailOK_us_true (B : List Char) : tailOK true ('_' :: B) = false := by
  simp [tailOK]

theorem tailOK_us_false (B : List Char) : tailOK false ('_' :: B) = tailOK true B := by
  cases B with
  | nil => simp [tailOK, noDoubleUS]
  | cons b r =>
    simp only [tailOK, noDoubleUS, List.getLast?_cons_cons]
    by_cases hb : b = '_' <;> simp [hb]

theorem filter_isDigit_us (B : List Char) : ('_' :: B).filter isDigit = B.filter isDigit := by
  have : isDigit '_' = false := by decide
  simp [List.filter, this]

theorem natCont_cons (acc : Nat) (c : Char) (l : List Char) :
    natCont acc (c :: l) = natCont (acc * 10 + digitOr0 c) l := by
  simp [natCont]

/-- The loop over a run `B` of digits / underscores followed by `R` that does not start with one. -/
theorem scan_spec (R : List Char) (hR : ∀ c, R.head? = some c → isBodyChar c = false) (B : List Char) :
    ∀ (p : Bool) (acc : Nat), (∀ c ∈ B, isBodyChar c = true) →
      scan p acc (B ++ R) =
        if tailOK p B = true then some (natCont acc (B.filter isDigit), R) else none := by
  induction B with
  | nil =>
    intro p acc _
    simp only [List.nil_append, tailOK_nil, List.filter_nil, natCont, List.foldl_nil]
    cases R with
    | nil => cases p <;> simp [scan]
    | cons c cs =>
      have hc := hR c rfl
      have hd : digitVal c = none := by
        simp only [isBodyChar, Bool.or_eq_false_iff, isDigit] at hc
        simpa using hc.1
      have hu : c ≠ '_' := by
        simp only [isBodyChar, Bool.or_eq_false_iff] at hc
        simpa using hc.2
      rw [scan]
      simp only [hd, hu, if_false]
      cases p <;> simp
  | cons c B ih =>
    intro p acc hB
    have hB' : ∀ x ∈ B, isBodyChar x = true := fun x hx => hB x (by simp [hx])
    have hc := hB c (by simp)
    simp only [List.cons_append]
    rw [scan]
    by_cases hd : isDigit c = true
    · obtain ⟨d, hdv⟩ := (isDigit_iff c).mp hd
      have hu : c ≠ '_' := (isDigit_props c hd).2.1
      simp only [hdv]
      rw [ih false _ hB', tailOK_digit p c B hu]
      have : (c :: B).filter isDigit = c :: B.filter isDigit := by simp [List.filter, hd]
      rw [this, natCont_cons, digitOr0_of c d hdv]
    · have hu : c = '_' := by
        simp only [isBodyChar, Bool.or_eq_true] at hc
        rcases hc with hc | hc
        · exact absurd hc hd
        · simpa using hc
      subst hu
      have hdv : digitVal '_' = none := by decide
      simp only [hdv, if_true]
      cases p with
      | true => simp [tailOK_us_true]
      | false =>
        simp only [Bool.false_eq_true, if_false]
        rw [ih true acc hB', tailOK_us_false, filter_isDigit_us]

theorem head?_dropWhile_isBodyChar (u : List Char) :
    ∀ c, (u.dropWhile isBodyChar).head? = some c → isBodyChar c = false := by
  induction u with
  | nil => simp
  | cons x xs ih =>
    intro c hc
    by_cases hx : isBodyChar x = true
    · rw [List.dropWhile_cons_of_pos hx] at hc; exact ih c hc
    · rw [List.dropWhile_cons_of_neg hx] at hc
      simp at hc; subst hc; simpa using hx

/-- `pyInt` is "well-formed literal ↦ its value". -/
theorem pyInt_eq (t : List Char) : pyInt t = if wellFormedInt t = true then some (value t) else none := by
  unfold pyInt wellFormedInt value intBody intTail
  generalize (sign (t.dropWhile isWs)).1 = neg
  generalize (sign (t.dropWhile isWs)).2 = u
  cases u with
  | nil => simp [parseBody, bodyOK]
  | cons c cs =>
    by_cases hd : isDigit c = true
    · obtain ⟨d, hdv⟩ := (isDigit_iff c).mp hd
      have hu : c ≠ '_' := (isDigit_props c hd).2.1
      have hb : isBodyChar c = true := by simp [isBodyChar, hd]
      simp only [parseBody, hdv, List.takeWhile_cons_of_pos hb, List.dropWhile_cons_of_pos hb]
      have hsplit : cs = cs.takeWhile isBodyChar ++ cs.dropWhile isBodyChar :=
        (List.takeWhile_append_dropWhile).symm
      have hs := scan_spec (cs.dropWhile isBodyChar) (head?_dropWhile_isBodyChar cs)
        (cs.takeWhile isBodyChar) false d (List.all_eq_true.mp List.all_takeWhile)
      rw [← hsplit] at hs
      rw [hs]
      have hbody : bodyOK (c :: cs.takeWhile isBodyChar) = tailOK false (cs.takeWhile isBodyChar) := by
        unfold bodyOK tailOK
        rw [noDoubleUS_cons_ne c _ hu, getLast?_cons_ne c _ hu]
        simp [hu, Bool.and_comm]
      rw [hbody]
      have hf : (c :: cs.takeWhile isBodyChar).filter isDigit = c :: (cs.takeWhile isBodyChar).filter isDigit := by
        simp [List.filter, hd]
      rw [hf, natCont_cons, digitOr0_of c d hdv]
      cases tailOK false (cs.takeWhile isBodyChar) <;> simp
    · have hdv : digitVal c = none := by
        simpa [isDigit] using hd
      simp only [parseBody, hdv]
      have : bodyOK ((c :: cs).takeWhile isBodyChar) = false := by
        by_cases hu : c = '_'
        · subst hu
          have hb : isBodyChar '_' = true := by decide
          rw [List.takeWhile_cons_of_pos hb]
          simp [bodyOK]
        · have hb : ¬ isBodyChar c = true := by simp [isBodyChar, hd, hu]
          rw [List.takeWhile_cons_of_neg hb]
          simp [bodyOK]
      simp [this]

theorem pyInt_iff (t : List Char) (v : Int) :
    pyInt t = some v ↔ wellFormedInt t = true ∧ value t = v := by
  rw [pyInt_eq]
  by_cases h : wellFormedInt t = true <;> simp [h]

/-! ## a string that `int()` accepts is a valid component -/

theorem mem_sign (t : List Char) (c : Char) (h : c ∈ t) : c = '+' ∨ c = '-' ∨ c ∈ (sign t).2 := by
  cases t with
  | nil => simp at h
  | cons x xs =>
    unfold sign
    by_cases hp : x = '+'
    · subst hp
      rcases List.mem_cons.mp h with rfl | h
      · exact Or.inl rfl
      · simp [h]
    · by_cases hm : x = '-'
      · subst hm
        rcases List.mem_cons.mp h with rfl | h
        · exact Or.inr (Or.inl rfl)
        · simp [h]
      · simp only [hp, hm, if_false]; exact Or.inr (Or.inr h)

theorem wellFormedInt_chars (t : List Char) (h : wellFormedInt t = true) (c : Char) (hc : c ∈ t) :
    isWs c = true ∨ c = '+' ∨ c = '-' ∨ isBodyChar c = true := by
  simp only [wellFormedInt, intBody, intTail, Bool.and_eq_true] at h
  rw [← List.takeWhile_append_dropWhile (p := isWs) (l := t)] at hc
  rcases List.mem_append.mp hc with hc | hc
  · exact Or.inl (List.all_eq_true.mp List.all_takeWhile c hc)
  · rcases mem_sign _ c hc with rfl | rfl | hc
    · exact Or.inr (Or.inl rfl)
    · exact Or.inr (Or.inr (Or.inl rfl))
    · rw [← List.takeWhile_append_dropWhile (p := isBodyChar) (l := (sign (t.dropWhile isWs)).2)] at hc
      rcases List.mem_append.mp hc with hc | hc
      · exact Or.inr (Or.inr (Or.inr (List.all_eq_true.mp List.all_takeWhile c hc)))
      · exact Or.inl (List.all_eq_true.mp h.2 c hc)

theorem pyInt_nil : pyInt [] = none := by decide

/-- whatever `int()` accepts is non-empty and has no slash -/
theorem pyInt_comp (t : List Char) (v : Int) (h : pyInt t = some v) : t ≠ [] ∧ ∀ c ∈ t, c ≠ '/' := by
  constructor
  · rintro rfl; rw [pyInt_nil] at h; cases h
  · intro c hc
    have hw := ((pyInt_iff t v).mp h).1
    rcases wellFormedInt_chars t hw c hc with h1 | rfl | rfl | h1
    · exact (isWs_props c h1).1
    · decide
    · decide
    · simp only [isBodyChar, Bool.or_eq_true, decide_eq_true_eq] at h1
      rcases h1 with h1 | rfl
      · exact (isDigit_props c h1).1
      · decide

end VizierModel.Res
