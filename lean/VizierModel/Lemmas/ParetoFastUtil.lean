/-
Lemmas for C11, part 5: building blocks of the divide-and-conquer algorithm —
argsort, gather/scatter, the split loop, searchsorted, the 1-D base case and the
decomposition of "optimal against" along a clean split of the first coordinate.
-/
import VizierModel.Lemmas.ParetoAgainst
namespace VizierModel.Pareto

set_option linter.unusedSectionVars false

variable {β : Type}

/-! ### sorting -/

theorem insertBy_perm {γ : Type} (c : Cmp β) (key : γ → β) (x : γ) (l : List γ) :
    (insertBy c key x l).Perm (x :: l) := by
  induction l with
  | nil => exact List.Perm.refl _
  | cons y ys ih =>
    unfold insertBy
    split
    · exact ((List.Perm.cons y ih).trans (List.Perm.swap x y ys))
    · exact List.Perm.refl _

theorem sortBy_perm {γ : Type} (c : Cmp β) (key : γ → β) (xs : List γ) : (sortBy c key xs).Perm xs := by
  induction xs with
  | nil => exact List.Perm.refl _
  | cons x xs ih =>
    exact (insertBy_perm c key x (sortBy c key xs)).trans (List.Perm.cons x ih)

theorem insertBy_sorted {γ : Type} {c : Cmp β} (h : c.Lawful) (key : γ → β) (x : γ) (l : List γ)
    (hs : l.Pairwise fun a b => c.gt (key a) (key b) = false) :
    (insertBy c key x l).Pairwise fun a b => c.gt (key a) (key b) = false := by
  induction l with
  | nil => simp [insertBy]
  | cons y ys ih =>
    rw [List.pairwise_cons] at hs
    unfold insertBy
    split
    · rename_i hg
      rw [List.pairwise_cons]
      refine ⟨?_, ih hs.2⟩
      intro z hz
      rcases List.mem_cons.mp ((insertBy_perm c key x ys).mem_iff.mp hz) with rfl | hz
      · exact h.gt_asymm _ _ hg
      · exact hs.1 z hz
    · rename_i hg
      have hg' : c.gt (key x) (key y) = false := by
        cases hx : c.gt (key x) (key y)
        · rfl
        · exact absurd hx hg
      rw [List.pairwise_cons]
      refine ⟨?_, List.pairwise_cons.mpr hs⟩
      intro z hz
      rcases List.mem_cons.mp hz with rfl | hz
      · exact hg'
      · have h1 : c.le (key x) (key y) = true := (h.le_iff _ _).mpr hg'
        have h2 : c.le (key y) (key z) = true := (h.le_iff _ _).mpr (hs.1 z hz)
        exact (h.le_iff _ _).mp (h.le_trans _ _ _ h1 h2)

theorem sortBy_sorted {γ : Type} {c : Cmp β} (h : c.Lawful) (key : γ → β) (xs : List γ) :
    (sortBy c key xs).Pairwise fun a b => c.gt (key a) (key b) = false := by
  induction xs with
  | nil => simp [sortBy]
  | cons x xs ih => exact insertBy_sorted h key x _ ih

variable [Inhabited β]

/-- `argsort keys` is a permutation of the indices that sorts the keys ascending -/
def IsArgsort (c : Cmp β) (argsort : List β → List Nat) : Prop :=
  ∀ keys : List β, (argsort keys).Perm (List.range keys.length) ∧
    ((argsort keys).map fun i => keys.getD i default).Pairwise (fun a b => c.gt a b = false)

theorem argsortStable_isArgsort {c : Cmp β} (h : c.Lawful) : IsArgsort c (argsortStable c) := by
  intro keys
  constructor
  · unfold argsortStable
    have := (sortBy_perm c (fun x : β × Nat => x.1) keys.zipIdx).map (·.2)
    rw [List.zipIdx_map_snd, ← List.range_eq_range'] at this
    exact this
  · unfold argsortStable
    rw [List.map_map]
    have hmem : ∀ x ∈ sortBy c (fun x : β × Nat => x.1) keys.zipIdx,
        ((fun i => keys.getD i default) ∘ fun x : β × Nat => x.2) x = x.1 := by
      intro x hx
      have := (sortBy_perm c (fun x : β × Nat => x.1) keys.zipIdx).mem_iff.mp hx
      rw [List.mem_zipIdx_iff_getElem?] at this
      simp [List.getD_eq_getElem?_getD, this]
    rw [List.map_congr_left hmem, List.pairwise_map]
    exact sortBy_sorted h _ _

/-! ### gather / scatter -/

theorem range_map_getD (F : List β → Bool) (ps : List (List β)) :
    (List.range ps.length).map (fun i => F (ps.getD i [])) = ps.map F := by
  apply List.ext_getElem
  · simp
  · intro i h1 h2
    simp at h1
    simp [List.getD_eq_getElem?_getD, List.getElem?_eq_getElem h1]

theorem range_map_getD_id (ps : List (List β)) :
    (List.range ps.length).map (fun i => ps.getD i []) = ps := by
  apply List.ext_getElem
  · simp
  · intro i h1 h2
    simp at h1
    simp [List.getD_eq_getElem?_getD, List.getElem?_eq_getElem h1]

theorem gather_perm (ps : List (List β)) (idx : List Nat) (hp : idx.Perm (List.range ps.length)) :
    (gather ps idx).Perm ps := by
  have := hp.map (fun i => ps.getD i [])
  rw [range_map_getD_id] at this
  exact this

theorem lookup_map_self (G : Nat → Bool) (idx : List Nat) (i : Nat) :
    (idx.map fun j => (j, G j)).lookup i = if i ∈ idx then some (G i) else none := by
  induction idx with
  | nil => simp
  | cons j js ih =>
    simp only [List.map_cons, List.lookup_cons, List.mem_cons]
    by_cases hij : i = j
    · subst hij; simp
    · have : (i == j) = false := by simp [hij]
      rw [this]; simp [ih, hij]

theorem zip_map_self (G : Nat → Bool) (idx : List Nat) : idx.zip (idx.map G) = idx.map fun j => (j, G j) := by
  induction idx with
  | nil => rfl
  | cons j js ih => simp [ih]

/-- writing row-wise results back through the sorting permutation -/
theorem scatter_gather (F : List β → Bool) (ps : List (List β)) (idx : List Nat)
    (hp : idx.Perm (List.range ps.length)) :
    scatter ps.length idx ((gather ps idx).map F) = ps.map F := by
  unfold scatter gather
  rw [List.map_map, zip_map_self (F ∘ fun i => ps.getD i []) idx, ← range_map_getD F ps]
  apply List.map_congr_left
  intro i hi
  rw [lookup_map_self]
  have : i ∈ idx := hp.mem_iff.mpr hi
  simp [this]

theorem zipWith_and_map {γ : Type} (f g : γ → Bool) (l : List γ) :
    List.zipWith (· && ·) (l.map f) (l.map g) = l.map fun x => f x && g x := by
  induction l with
  | nil => rfl
  | cons a as ih => simp [ih]

/-! ### the split loop and searchsorted -/

theorem advance_some (c : Cmp β) (h : c.Lawful) (v : β) (rest : List β) (s s' : Nat)
    (ha : advance c v rest s = some s') :
    ∃ k, s' = s + k ∧ (∀ x ∈ rest.take k, x = v) ∧ ∃ y ys, rest.drop k = y :: ys ∧ y ≠ v := by
  induction rest generalizing s with
  | nil => simp [advance] at ha
  | cons x xs ih =>
    unfold advance at ha
    by_cases hx : c.eq x v = true
    · rw [if_pos hx] at ha
      obtain ⟨k, hk, h1, h2⟩ := ih (s + 1) ha
      refine ⟨k + 1, by omega, ?_, ?_⟩
      · intro z hz
        simp only [List.take_succ_cons, List.mem_cons] at hz
        rcases hz with rfl | hz
        · exact (h.eq_def _ _).mp hx
        · exact h1 z hz
      · simpa using h2
    · rw [if_neg hx] at ha
      refine ⟨0, by simp at ha; omega, by simp, x, xs, by simp, ?_⟩
      intro e; exact hx ((h.eq_def _ _).mpr e)

/-- the split found by the loop is clean: everything below is `≤ v`, everything from
the split on is `> v`, and both sides are non-empty -/
theorem advance_keys {c : Cmp β} (h : c.Lawful) (ks : List β)
    (hs : ks.Pairwise fun a b => c.gt a b = false) (s0 s : Nat)
    (ha : advance c (ks.getD s0 default) (ks.drop s0) s0 = some s) :
    (∀ x ∈ ks.take s, c.gt x (ks.getD s0 default) = false) ∧
    (∀ x ∈ ks.drop s, c.gt x (ks.getD s0 default) = true) ∧ 0 < s ∧ s < ks.length := by
  obtain ⟨k, hk, h1, y, ys, h2, hy⟩ := advance_some c h _ _ _ _ ha
  subst hk
  -- the loop starts on `v` itself
  have hne : ks.drop s0 ≠ [] := by
    intro e; rw [e] at ha; simp [advance] at ha
  obtain ⟨v, rest, hv⟩ := List.exists_cons_of_ne_nil hne
  have hvd : ks.getD s0 default = v := by
    have := List.head?_drop (l := ks) (i := s0)
    rw [hv] at this
    simp at this
    rw [List.getD_eq_getElem?_getD, ← this]; rfl
  rw [hvd] at h1 hy ⊢
  have hk0 : 0 < k := by
    rcases Nat.eq_zero_or_pos k with rfl | hpos
    · rw [List.drop_zero, hv] at h2
      injection h2 with e1 _
      exact absurd e1.symm hy
    · exact hpos
  have hsplit : ks = ks.take s0 ++ ks.drop s0 := (List.take_append_drop s0 ks).symm
  have hpw := hs
  rw [hsplit, List.pairwise_append] at hpw
  obtain ⟨_, hpd, hcross⟩ := hpw
  have hvmem : v ∈ ks.drop s0 := by rw [hv]; exact List.mem_cons_self ..
  -- inside the tail: take k are all v, drop k starts with y > v
  have hd2 : ks.drop s0 = (ks.drop s0).take k ++ (ks.drop s0).drop k := (List.take_append_drop k _).symm
  have hpd2 := hpd
  rw [hd2, List.pairwise_append] at hpd2
  obtain ⟨_, hpdd, hcross2⟩ := hpd2
  have hvtake : v ∈ (ks.drop s0).take k := by
    rw [hv]
    obtain ⟨k', rfl⟩ : ∃ k', k = k' + 1 := ⟨k - 1, by omega⟩
    simp
  have hyv : c.gt y v = true := by
    have h3 : c.gt v y = false := hcross2 v hvtake y (by rw [h2]; exact List.mem_cons_self ..)
    cases hx : c.gt y v
    · exact absurd (h.tri y v hx h3) hy
    · rfl
  refine ⟨?_, ?_, by omega, ?_⟩
  · intro x hx
    rw [List.take_add] at hx
    rcases List.mem_append.mp hx with hx | hx
    · exact hcross x hx v hvmem
    · rw [h1 x hx]; exact h.irrefl v
  · intro x hx
    rw [← List.drop_drop, h2] at hx
    rcases List.mem_cons.mp hx with rfl | hx
    · exact hyv
    · rw [h2, List.pairwise_cons] at hpdd
      have : c.le y x = true := (h.le_iff _ _).mpr (hpdd.1 x hx)
      exact h.gt_of_le_of_gt y x v this hyv
  · have hlen : ((ks.drop s0).drop k).length = ys.length + 1 := by rw [h2]; simp
    simp only [List.length_drop] at hlen
    omega

theorem searchRight_spec {c : Cmp β} (h : c.Lawful) (v : β) (ks : List β)
    (hs : ks.Pairwise fun a b => c.gt a b = false) :
    (∀ x ∈ ks.take (searchRight c v ks), c.gt x v = false) ∧
    (∀ x ∈ ks.drop (searchRight c v ks), c.gt x v = true) := by
  induction ks with
  | nil => simp [searchRight]
  | cons x xs ih =>
    rw [List.pairwise_cons] at hs
    unfold searchRight
    by_cases hx : c.gt x v = true
    · rw [if_pos hx]
      refine ⟨by simp, ?_⟩
      intro z hz
      rcases List.mem_cons.mp (by simpa using hz) with rfl | hz
      · exact hx
      · exact h.gt_of_le_of_gt x z v ((h.le_iff _ _).mpr (hs.1 z hz)) hx
    · rw [if_neg hx]
      obtain ⟨i1, i2⟩ := ih hs.2
      refine ⟨?_, by simpa using i2⟩
      intro z hz
      simp only [List.take_succ_cons, List.mem_cons] at hz
      rcases hz with rfl | hz
      · cases hz' : c.gt z v
        · rfl
        · exact absurd hz' hx
      · exact i1 z hz

/-! ### rows as `first :: tail` -/

theorem row_eq (p : List β) (hp : 0 < p.length) : p = first p :: p.tail := by
  cases p with
  | nil => simp at hp
  | cons a as => rfl

theorem allLe_first (c : Cmp β) (p q : List β) (hp : 0 < p.length) (hq : 0 < q.length) :
    allLe c p q = (c.le (first p) (first q) && allLe c p.tail q.tail) := by
  cases p with
  | nil => simp at hp
  | cons a as =>
    cases q with
    | nil => simp at hq
    | cons b bs => rfl

theorem anyGt_first (c : Cmp β) (p q : List β) (hp : 0 < p.length) (hq : 0 < q.length) :
    anyGt c p q = (c.gt (first p) (first q) || anyGt c p.tail q.tail) := by
  cases p with
  | nil => simp at hp
  | cons a as =>
    cases q with
    | nil => simp at hq
    | cons b bs => rfl

/-- points above the split value can only be beaten by dominating points above it -/
theorem isOptAgainst_upper {c : Cmp β} (h : c.Lawful) (v : β) (lowerD upperD : List (List β)) (strict : Bool)
    (p : List β) (hp : 0 < p.length) (hd : ∀ a ∈ lowerD, 0 < a.length)
    (hpv : c.gt (first p) v = true) (hl : ∀ a ∈ lowerD, c.gt (first a) v = false) :
    isOptAgainst c (lowerD ++ upperD) strict p = isOptAgainst c upperD strict p := by
  unfold isOptAgainst
  rw [List.any_append]
  have : lowerD.any (fun q => if strict = true then dominates c q p else allLe c p q) = false := by
    rw [List.any_eq_false]
    intro a ha
    have hle : c.le (first a) v = true := (h.le_iff _ _).mpr (hl a ha)
    have hg : c.gt (first p) (first a) = true := h.gt_of_gt_of_le _ _ _ hpv hle
    have hall : allLe c p a = false := by
      rw [allLe_first c p a hp (hd a ha), h.le_def, hg]; rfl
    cases strict <;> simp [dominates, hall]
  rw [this, Bool.false_or]

/-- points at or below the split value: dominating points above it are strictly better in
the first coordinate, so only the remaining coordinates matter, non-strictly -/
theorem isOptAgainst_lower {c : Cmp β} (h : c.Lawful) (v : β) (lowerD upperD : List (List β)) (strict : Bool)
    (p : List β) (hp : 0 < p.length) (hd : ∀ a ∈ upperD, 0 < a.length)
    (hpv : c.gt (first p) v = false) (hu : ∀ a ∈ upperD, c.gt (first a) v = true) :
    isOptAgainst c (lowerD ++ upperD) strict p =
      (isOptAgainst c lowerD strict p && isOptAgainst c (upperD.map List.tail) false p.tail) := by
  unfold isOptAgainst
  rw [List.any_append, Bool.not_or]
  congr 2
  rw [List.any_map]
  apply any_congr_mem
  intro a ha
  · have hle : c.le (first p) v = true := (h.le_iff _ _).mpr hpv
    have hg : c.gt (first a) (first p) = true := h.gt_of_gt_of_le _ _ _ (hu a ha) hle
    have hle2 : c.le (first p) (first a) = true := (h.le_iff _ _).mpr (h.gt_asymm _ _ hg)
    have hall : allLe c p a = allLe c p.tail a.tail := by
      rw [allLe_first c p a hp (hd a ha), hle2, Bool.true_and]
    have hany : anyGt c a p = true := by
      rw [anyGt_first c a p (hd a ha) hp, hg, Bool.true_or]
    cases strict <;> simp [dominates, hall, hany]

end VizierModel.Pareto
