/-
C09 lemmas: search space, problem statement, study config, Pythia requests and decisions.
-/
import VizierModel.Lemmas.WireTrial
import VizierModel.Lemmas.WireParam

namespace VizierModel.Wire

/-! ### search space -/

structure SpaceOk (cfg : Cfg) (ps : List PC) : Prop where
  names_nodup : (ps.map PC.name).Nodup
  params : ∀ p ∈ ps, p.ok cfg = true

theorem space_roundtrip (cfg : Cfg) (ps : List PC) (h : SpaceOk cfg ps) :
    spaceFromProto cfg (spaceToProto cfg ps) = ps := by
  have h1 : ∀ l : List PSpec, spaceFromProto cfg l
      = (l.map (fromProto cfg)).foldl (fun acc q => insBy PC.name q acc) [] := by
    intro l; unfold spaceFromProto; rw [List.foldl_map]
  have h2 : (ps.map (toProto cfg)).map (fromProto cfg) = ps := by
    rw [List.map_map]
    conv => rhs; rw [← List.map_id ps]
    apply List.map_congr_left
    intro p hp
    exact pc_roundtrip cfg p (h.params p hp)
  rw [spaceToProto, h1, h2, foldl_insBy_nil PC.name ps h.names_nodup]

/-! ### problem statement -/

structure ProblemOk (cfg : Cfg) (p : Problem) : Prop where
  space : SpaceOk cfg p.space
  metrics : ∀ m ∈ p.metrics, MetricWF m
  metadata : MdWF p.metadata

theorem problem_roundtrip (cfg : Cfg) (p : Problem) (h : ProblemOk cfg p) :
    problemFromProto cfg (problemToProto cfg p) = problemNorm p := by
  obtain ⟨space, metrics, md⟩ := p
  simp only [problemFromProto, problemToProto, problemNorm, Problem.mk.injEq]
  exact ⟨space_roundtrip cfg space h.space, metric_list_roundtrip metrics h.metrics,
    mdFromProto_mdToProto md h.metadata⟩

theorem problemToProto_problemNorm (cfg : Cfg) (p : Problem) :
    problemToProto cfg (problemNorm p) = problemToProto cfg p := by
  simp [problemToProto, problemNorm, mdToProto_mdNorm]

/-! ### study config -/

structure StudyOk (cfg : Cfg) (s : Study) : Prop where
  space : SpaceOk cfg s.space
  metrics : ∀ m ∈ s.metrics, MetricWF m
  metadata : MdWF s.metadata

/-- the metrics are listed in name order -/
def MetricsSorted (ms : List MetricInfo) : Prop := ms.Pairwise (fun a b => ltMetricName b a = false)

theorem study_roundtrip (cfg : Cfg) (s : Study) (h : StudyOk cfg s) (hs : MetricsSorted s.metrics) :
    studyFromProto cfg (studyToProto cfg s) = studyNorm s := by
  obtain ⟨space, metrics, md, alg, noise, auto, cached⟩ := s
  simp only [studyFromProto, studyToProto, studyNorm, Study.mk.injEq, and_true]
  refine ⟨space_roundtrip cfg space h.space, ?_, mdFromProto_mdToProto md h.metadata⟩
  rw [metric_list_roundtrip metrics h.metrics]
  exact sortBy_of_sorted ltMetricName metrics hs

theorem studyToProto_studyNorm (cfg : Cfg) (s : Study) :
    studyToProto cfg (studyNorm s) = studyToProto cfg s := by
  obtain ⟨space, metrics, md, alg, noise, auto, cached⟩ := s
  simp only [studyToProto, studyNorm, mdToProto_mdNorm, PStudy.mk.injEq, and_true, true_and]
  cases auto <;> cases cached <;> rfl

/-! ### requests and decisions -/

theorem descriptor_roundtrip (cfg : Cfg) (d : Descriptor) (h : ProblemOk cfg d.config) :
    descriptorFromProto cfg (descriptorToProto cfg d) = descriptorNorm d := by
  simp [descriptorFromProto, descriptorToProto, descriptorNorm, problem_roundtrip cfg d.config h]

theorem descriptorToProto_descriptorNorm (cfg : Cfg) (d : Descriptor) :
    descriptorToProto cfg (descriptorNorm d) = descriptorToProto cfg d := by
  simp [descriptorToProto, descriptorNorm, problemToProto_problemNorm]

theorem suggestRequest_roundtrip (cfg : Cfg) (r : SuggestRequest) (h : ProblemOk cfg r.descriptor.config) :
    suggestRequestFromProto cfg (suggestRequestToProto cfg r) = suggestRequestNorm r := by
  simp [suggestRequestFromProto, suggestRequestToProto, suggestRequestNorm,
    descriptor_roundtrip cfg r.descriptor h]

theorem suggestRequestToProto_norm (cfg : Cfg) (r : SuggestRequest) :
    suggestRequestToProto cfg (suggestRequestNorm r) = suggestRequestToProto cfg r := by
  simp [suggestRequestToProto, suggestRequestNorm, descriptorToProto_descriptorNorm]

theorem earlyStopRequest_roundtrip (cfg : Cfg) (r : EarlyStopRequest) (h : ProblemOk cfg r.descriptor.config) :
    earlyStopRequestFromProto cfg (earlyStopRequestToProto cfg r) = earlyStopRequestNorm r := by
  simp [earlyStopRequestFromProto, earlyStopRequestToProto, earlyStopRequestNorm,
    descriptor_roundtrip cfg r.descriptor h]

theorem earlyStopRequestToProto_norm (cfg : Cfg) (r : EarlyStopRequest) :
    earlyStopRequestToProto cfg (earlyStopRequestNorm r) = earlyStopRequestToProto cfg r := by
  simp [earlyStopRequestToProto, earlyStopRequestNorm, descriptorToProto_descriptorNorm]

structure SuggestDecisionWF (d : SuggestDecision) : Prop where
  suggestions : ∀ s ∈ d.suggestions, SuggestionWF s
  metadata : DeltaWF d.metadata

theorem suggestDecision_roundtrip (d : SuggestDecision) (h : SuggestDecisionWF d) :
    suggestDecisionFromProto (suggestDecisionToProto d) = suggestDecisionNorm d := by
  obtain ⟨ss, md⟩ := d
  simp only [suggestDecisionFromProto, suggestDecisionToProto, suggestDecisionNorm,
    SuggestDecision.mk.injEq, deltaFromProto_deltaToProto md h.metadata, and_true]
  rw [List.map_map]
  apply List.map_congr_left
  intro s hs
  exact suggestion_roundtrip s (h.suggestions s hs)

theorem suggestDecisionToProto_norm (d : SuggestDecision) :
    suggestDecisionToProto (suggestDecisionNorm d) = suggestDecisionToProto d := by
  simp [suggestDecisionToProto, suggestDecisionNorm, deltaToProto_deltaNorm, List.map_map,
    Function.comp_def, suggestionToProto_suggestionNorm]

theorem measFromProto_empty (cfg : Cfg) : measFromProto cfg emptyPMeas = emptyMeas := by
  obtain ⟨a, b, c, d⟩ := cfg
  cases a <;> simp only [measFromProto, emptyPMeas, emptyMeas, List.foldl_nil, Meas.mk.injEq, true_and, and_true,
    Bool.false_eq_true, if_false, if_true, Option.getD_none] <;> decide +kernel

theorem earlyStopDecision_roundtrip (o : Bool) (cfg : Cfg) (d : EarlyStopDecision)
    (hp : d.predicted.isSome = true) (h : ∀ m, d.predicted = some m → MeasOk cfg m) :
    earlyStopDecisionFromProto o cfg (earlyStopDecisionToProto o d) = earlyStopDecisionNorm d := by
  obtain ⟨id, reason, stop, pred⟩ := d
  cases pred with
  | none => simp at hp
  | some m =>
    cases o <;>
      simp [earlyStopDecisionFromProto, earlyStopDecisionToProto, earlyStopDecisionNorm, meas_roundtrip cfg m (h m rfl)]

/-- the repaired converter: no hypothesis about the prediction -/
theorem earlyStopDecision_roundtrip_opt (cfg : Cfg) (d : EarlyStopDecision)
    (h : ∀ m, d.predicted = some m → MeasOk cfg m) :
    earlyStopDecisionFromProto true cfg (earlyStopDecisionToProto true d) = earlyStopDecisionNorm d := by
  obtain ⟨id, reason, stop, pred⟩ := d
  cases pred with
  | none => simp [earlyStopDecisionFromProto, earlyStopDecisionToProto, earlyStopDecisionNorm]
  | some m =>
    simp [earlyStopDecisionFromProto, earlyStopDecisionToProto, earlyStopDecisionNorm, meas_roundtrip cfg m (h m rfl)]

theorem earlyStopDecisionToProto_norm (o : Bool) (d : EarlyStopDecision) :
    earlyStopDecisionToProto o (earlyStopDecisionNorm d) = earlyStopDecisionToProto o d := by
  obtain ⟨id, reason, stop, pred⟩ := d
  cases pred with
  | none => rfl
  | some m => simp [earlyStopDecisionToProto, earlyStopDecisionNorm, measToProto_measNorm]

structure EarlyStopDecisionsOk (cfg : Cfg) (d : EarlyStopDecisions) : Prop where
  decisions : ∀ e ∈ d.decisions, ∀ m, e.predicted = some m → MeasOk cfg m
  /-- every decision carries a prediction (without one, the pinned `to_decisions_proto` sends an empty
  `Measurement()` that `from_decisions_proto` turns into a prediction) -/
  predicted : ∀ e ∈ d.decisions, e.predicted.isSome = true
  metadata : DeltaWF d.metadata

theorem earlyStopDecisions_roundtrip (o : Bool) (cfg : Cfg) (d : EarlyStopDecisions) (h : EarlyStopDecisionsOk cfg d) :
    earlyStopDecisionsFromProto o cfg (earlyStopDecisionsToProto o d) = earlyStopDecisionsNorm d := by
  obtain ⟨ds, md⟩ := d
  simp only [earlyStopDecisionsFromProto, earlyStopDecisionsToProto, earlyStopDecisionsNorm,
    EarlyStopDecisions.mk.injEq, deltaFromProto_deltaToProto md h.metadata, and_true]
  rw [List.map_map]
  apply List.map_congr_left
  intro e he
  exact earlyStopDecision_roundtrip o cfg e (h.predicted e he) (h.decisions e he)

theorem earlyStopDecisions_roundtrip_opt (cfg : Cfg) (d : EarlyStopDecisions) (hw : DeltaWF d.metadata)
    (hm : ∀ e ∈ d.decisions, ∀ m, e.predicted = some m → MeasOk cfg m) :
    earlyStopDecisionsFromProto true cfg (earlyStopDecisionsToProto true d) = earlyStopDecisionsNorm d := by
  obtain ⟨ds, md⟩ := d
  simp only [earlyStopDecisionsFromProto, earlyStopDecisionsToProto, earlyStopDecisionsNorm,
    EarlyStopDecisions.mk.injEq, deltaFromProto_deltaToProto md hw, and_true]
  rw [List.map_map]
  apply List.map_congr_left
  intro e he
  exact earlyStopDecision_roundtrip_opt cfg e (hm e he)

theorem earlyStopDecisionsToProto_norm (o : Bool) (d : EarlyStopDecisions) :
    earlyStopDecisionsToProto o (earlyStopDecisionsNorm d) = earlyStopDecisionsToProto o d := by
  simp [earlyStopDecisionsToProto, earlyStopDecisionsNorm, deltaToProto_deltaNorm, List.map_map,
    Function.comp_def, earlyStopDecisionToProto_norm]

end VizierModel.Wire
