/-
Lemmas for C17: the BFS loop of `_trial_to_external_values` (as written: parent looked up
by name) presents exactly `takenSpace`, up to order, when names are unique in the tree.
-/
import VizierModel.Lemmas.SpaceWalk
import VizierModel.Lemmas.SpaceMember
import VizierModel.Lemmas.Present
namespace VizierModel.Space
set_option linter.unusedSimpArgs false

/-! ### small list / dict facts -/

theorem lookup_append (a b : Assign) (m : String) :
    lookup (a ++ b) m = match lookup a m with | some v => some v | none => lookup b m := by
  unfold lookup
  rw [List.find?_append]
  cases a.find? (fun e => e.1 == m) <;> rfl

theorem lookup_none_of_not_mem {a : Assign} {m : String} (h : m ∉ keys a) : lookup a m = none := by
  cases hl : lookup a m with
  | none => rfl
  | some v => exact absurd (lookup_some_mem hl) h

theorem find?_congr' {α : Type} {l : List α} {p q : α → Bool} (h : ∀ x ∈ l, p x = q x) :
    l.find? p = l.find? q := by
  induction l with
  | nil => rfl
  | cons a as ih =>
    rw [List.find?_cons, List.find?_cons, h a (List.mem_cons_self ..),
      ih (fun x hx => h x (List.mem_cons_of_mem _ hx))]

theorem lookup_eraseKey_ne (a : Assign) (n m : String) (h : m ≠ n) : lookup (eraseKey a n) m = lookup a m := by
  unfold lookup eraseKey
  rw [List.find?_filter]
  congr 1
  apply find?_congr'
  intro e _
  by_cases hm : e.1 = m
  · have : e.1 ≠ n := fun hh => h (hm ▸ hh)
    simp [hm, this, h]
  · simp [hm]

theorem lookup_isEmpty {a : Assign} (h : a.isEmpty = true) (m : String) : lookup a m = none := by
  rw [List.isEmpty_iff] at h; subst h; rfl

theorem keys_append_single (a : Assign) (n : String) (v : PVal) : keys (a ++ [(n, v)]) = keys a ++ [n] := by
  simp [keys]

theorem allSpace_map_snd (kids : List (PVal × PC)) : allSpace (kids.map (·.2)) = allKids kids := by
  induction kids with
  | nil => rfl
  | cons kc rest ih => obtain ⟨k, c⟩ := kc; simp only [List.map_cons, allSpace, allKids, ih]

theorem sizeSpace_map_snd (kids : List (PVal × PC)) : sizeSpace (kids.map (·.2)) = sizeKids kids := by
  induction kids with
  | nil => rfl
  | cons kc rest ih => obtain ⟨k, c⟩ := kc; simp only [List.map_cons, sizeSpace, sizeKids, ih]

theorem childEntries_pcs (p : PC) (v : Option PVal) : (childEntries p v).map QE.pc = p.kids.map (·.2) := by
  simp [childEntries, List.map_map, Function.comp_def]

theorem flatMap_congr' {α β : Type} {l : List α} {f g : α → List β} (h : ∀ x ∈ l, f x = g x) :
    l.flatMap f = l.flatMap g := by
  induction l with
  | nil => rfl
  | cons a as ih =>
    simp only [List.flatMap_cons, h a (List.mem_cons_self ..)]
    rw [ih (fun x hx => h x (List.mem_cons_of_mem _ hx))]

theorem flatMap_nil' {α β : Type} {l : List α} {f : α → List β} (h : ∀ x ∈ l, f x = []) : l.flatMap f = [] := by
  induction l with
  | nil => rfl
  | cons a as ih =>
    simp only [List.flatMap_cons, h a (List.mem_cons_self ..), List.nil_append]
    exact ih (fun x hx => h x (List.mem_cons_of_mem _ hx))

/-! ### `takenOf` -/

theorem takenOf_absent (t : Assign) (g : Bool) (p : PC) (h : lookup t p.name = none) : takenOf t g p = [] := by
  cases p with
  | mk hd kids =>
    unfold takenOf
    have : lookup t hd.name = none := h
    cases g <;> simp [this]

theorem takenOf_false (t : Assign) (p : PC) : takenOf t false p = [] := by
  cases p; unfold takenOf; simp

theorem takenOf_true (t : Assign) (p : PC) (v : PVal) (h : lookup t p.name = some v) :
    takenOf t true p = (p.name, castV p.h.ext v) :: takenKids t v p.kids := by
  cases p with
  | mk hd kids =>
    unfold takenOf
    have : lookup t hd.name = some v := h
    simp only [this, if_true]
    rfl

/-- the children entries, once the parent's value is known to be `v` -/
theorem children_taken (t : Assign) (pvals : Assign) (p : PC) (v : PVal) (pv : Option PVal)
    (h : lookup pvals p.name = some v) :
    (childEntries p pv).flatMap (fun e => takenOf t (parentOK pvals e.parent) e.pc) = takenKids t v p.kids := by
  unfold childEntries
  induction p.kids with
  | nil => rfl
  | cons kc rest ih =>
    obtain ⟨k, c⟩ := kc
    simp only [List.map_cons, List.flatMap_cons, takenKids]
    rw [ih]
    have : parentOK pvals (some (p.name, k)) = pyEq v k := by simp [parentOK, h]
    rw [this]

theorem children_not_taken (t : Assign) (pvals : Assign) (p : PC) (pv : Option PVal)
    (h : lookup pvals p.name = none) :
    (childEntries p pv).flatMap (fun e => takenOf t (parentOK pvals e.parent) e.pc) = [] := by
  apply flatMap_nil'
  intro e he
  unfold childEntries at he
  rw [List.mem_map] at he
  obtain ⟨kc, _, rfl⟩ := he
  simp only [parentOK, h, takenOf_false]

/-! ### the loop invariant -/

structure LInv (t : Assign) (q : List QE) (st : LoopSt) (done : List String) : Prop where
  nodup : (done ++ names (allSpace (q.map QE.pc))).Nodup
  pv_done : ∀ n ∈ keys st.pvals, n ∈ done
  par_done : ∀ e ∈ q, ∀ pn k, e.parent = some (pn, k) → pn ∈ done
  rem : ∀ n, n ∉ keys st.pvals → lookup st.remaining n = lookup t n
  castok : ∀ p ∈ allSpace (q.map QE.pc), ∀ v, lookup t p.name = some v → ∃ x, cast p.h.ext v = .ok x

theorem name_mem_of_mem {p : PC} {l : List PC} (h : p ∈ l) : p.name ∈ names l :=
  List.mem_map_of_mem h

/-- names of pending configs have not been processed -/
theorem LInv.fresh {t : Assign} {q : List QE} {st : LoopSt} {done : List String} (inv : LInv t q st done)
    {p : PC} (hp : p ∈ allSpace (q.map QE.pc)) : p.name ∉ done ∧ p.name ∉ keys st.pvals := by
  have hd : p.name ∉ done := by
    intro hin
    have := (List.nodup_append.mp inv.nodup).2.2 p.name hin p.name (name_mem_of_mem hp)
    exact this rfl
  exact ⟨hd, fun hk => hd (inv.pv_done _ hk)⟩

theorem queue_step_perm (done : List String) (p : PC) (q0 : List QE) (pv : Option PVal) :
    ((done ++ [p.name]) ++ names (allSpace ((q0 ++ childEntries p pv).map QE.pc))).Perm
      (done ++ names (allSpace ((⟨none, none, p⟩ :: q0).map QE.pc))) := by
  simp only [List.map_append, childEntries_pcs, allSpace_append, allSpace_map_snd, List.map_cons, allSpace,
    allOf_eq, names, List.cons_append, List.map_append, List.append_assoc, List.singleton_append]
  refine List.Perm.append_left _ (List.Perm.cons _ ?_)
  simp only [List.nil_append]
  exact List.perm_append_comm

theorem loop_spec (t : Assign) : ∀ (n : Nat) (q : List QE) (st : LoopSt) (done : List String),
    sizeSpace (q.map QE.pc) ≤ n → LInv t q st done →
    ∃ st', extLoopByName n q st = .ok st' ∧ ∃ L, st'.ext = st.ext ++ L ∧
      L.Perm (q.flatMap fun e => takenOf t (parentOK st.pvals e.parent) e.pc) := by
  intro n
  induction n with
  | zero =>
    intro q st done hsz _
    cases q with
    | nil => exact ⟨st, rfl, [], by simp, List.Perm.refl _⟩
    | cons e q0 => simp only [List.map_cons, sizeSpace, size_eq] at hsz; omega
  | succ n ih =>
    intro q st done hsz inv
    cases q with
    | nil => exact ⟨st, rfl, [], by simp, List.Perm.refl _⟩
    | cons e q0 =>
      obtain ⟨par, epv, p⟩ := e
      simp only [List.map_cons, sizeSpace, size_eq] at hsz
      have hp_mem : p ∈ allSpace ((⟨par, epv, p⟩ :: q0).map QE.pc) := by
        simp [allSpace, allOf_eq]
      obtain ⟨hnd, hnp⟩ := inv.fresh hp_mem
      have hrem : lookup st.remaining p.name = lookup t p.name := inv.rem _ hnp
      have hpv_none : lookup st.pvals p.name = none := lookup_none_of_not_mem hnp
      unfold extLoopByName
      by_cases hemp : st.remaining.isEmpty = true
      · rw [if_pos hemp]
        refine ⟨st, rfl, [], by simp, ?_⟩
        rw [flatMap_nil']
        intro e' he'
        apply takenOf_absent
        have hm : e'.pc ∈ allSpace ((⟨par, epv, p⟩ :: q0).map QE.pc) :=
          (roots_sublist _).subset (List.mem_map_of_mem he')
        rw [← inv.rem _ (inv.fresh hm).2]
        exact lookup_isEmpty hemp _
      · rw [if_neg hemp]
        -- facts about the next queue
        have hsz' : sizeSpace ((q0 ++ childEntries p none).map QE.pc) ≤ n := by
          rw [List.map_append, sizeSpace_append, childEntries_pcs, sizeSpace_map_snd]; omega
        have hnodup' : ((done ++ [p.name]) ++ names (allSpace ((q0 ++ childEntries p none).map QE.pc))).Nodup := by
          have h1 := queue_step_perm done p q0 none
          have h2 : (done ++ names (allSpace ((⟨none, none, p⟩ :: q0).map QE.pc))).Nodup := inv.nodup
          exact h1.nodup_iff.mpr h2
        have hsub : ∀ p' ∈ allSpace ((q0 ++ childEntries p none).map QE.pc),
            p' ∈ allSpace ((⟨par, epv, p⟩ :: q0).map QE.pc) := by
          intro p' hp'
          simp only [List.map_append, childEntries_pcs, allSpace_append, allSpace_map_snd, List.mem_append] at hp'
          simp only [List.map_cons, allSpace, allOf_eq, List.cons_append, List.mem_cons, List.mem_append]
          rcases hp' with h | h
          · exact Or.inr (Or.inr h)
          · exact Or.inr (Or.inl h)
        have hpar' : ∀ e' ∈ q0 ++ childEntries p none, ∀ pn k, e'.parent = some (pn, k) → pn ∈ done ++ [p.name] := by
          intro e' he' pn k hpk
          rcases List.mem_append.mp he' with h | h
          · exact List.mem_append_left _ (inv.par_done e' (List.mem_cons_of_mem _ h) pn k hpk)
          · unfold childEntries at h
            rw [List.mem_map] at h
            obtain ⟨kc, _, rfl⟩ := h
            simp only [Option.some.injEq, Prod.mk.injEq] at hpk
            rw [← hpk.1]; simp
        -- the case where nothing is taken at this entry
        have skip : (lookup t p.name = none ∨ parentOK st.pvals par = false) →
            ∃ st', extLoopByName n (q0 ++ childEntries p none) st = .ok st' ∧ ∃ L, st'.ext = st.ext ++ L ∧
              L.Perm ((⟨par, epv, p⟩ :: q0 : List QE).flatMap fun e => takenOf t (parentOK st.pvals e.parent) e.pc) := by
          intro hcase
          have inv' : LInv t (q0 ++ childEntries p none) st (done ++ [p.name]) :=
            { nodup := hnodup'
              pv_done := fun m hm => List.mem_append_left _ (inv.pv_done m hm)
              par_done := hpar'
              rem := inv.rem
              castok := fun p' hp' => inv.castok p' (hsub p' hp') }
          obtain ⟨st', hst', L, hL, hperm⟩ := ih _ st _ hsz' inv'
          refine ⟨st', hst', L, hL, ?_⟩
          rw [List.flatMap_append, children_not_taken t st.pvals p none hpv_none, List.append_nil] at hperm
          rw [List.flatMap_cons]
          have : takenOf t (parentOK st.pvals par) p = [] := by
            rcases hcase with h | h
            · exact takenOf_absent t _ p h
            · show takenOf t (parentOK st.pvals par) p = []
              rw [h]; exact takenOf_false t p
          simp only [this, List.nil_append]
          exact hperm
        rw [hrem]
        cases hl : lookup t p.name with
        | none => exact skip (Or.inl hl)
        | some v =>
          simp only
          by_cases hok : parentOK st.pvals par = true
          · rw [if_pos hok]
            obtain ⟨x, hx⟩ := inv.castok p hp_mem v hl
            rw [hx]
            simp only
            have hkeys : keys (takeParam st p.name v x).pvals = keys st.pvals ++ [p.name] := by
              simp [takeParam, keys]
            have inv' : LInv t (q0 ++ childEntries p none) (takeParam st p.name v x) (done ++ [p.name]) :=
              { nodup := hnodup'
                pv_done := by
                  intro m hm
                  rw [hkeys] at hm
                  rcases List.mem_append.mp hm with h | h
                  · exact List.mem_append_left _ (inv.pv_done m h)
                  · exact List.mem_append_right _ h
                par_done := hpar'
                rem := by
                  intro m hm
                  rw [hkeys] at hm
                  have h1 : m ∉ keys st.pvals := fun hh => hm (List.mem_append_left _ hh)
                  have h2 : m ≠ p.name := fun hh => hm (List.mem_append_right _ (by simp [hh]))
                  show lookup (eraseKey st.remaining p.name) m = lookup t m
                  rw [lookup_eraseKey_ne _ _ _ h2]
                  exact inv.rem m h1
                castok := fun p' hp' => inv.castok p' (hsub p' hp') }
            obtain ⟨st', hst', L, hL, hperm⟩ := ih _ (takeParam st p.name v x) _ hsz' inv'
            refine ⟨st', hst', (p.name, x) :: L, by rw [hL]; simp [takeParam], ?_⟩
            have hlk : lookup (takeParam st p.name v x).pvals p.name = some v := by
              show lookup (st.pvals ++ [(p.name, v)]) p.name = some v
              rw [lookup_append, hpv_none]
              simp [lookup]
            -- flags of the old entries are unchanged
            have hstable : q0.flatMap (fun e => takenOf t (parentOK (takeParam st p.name v x).pvals e.parent) e.pc) =
                q0.flatMap (fun e => takenOf t (parentOK st.pvals e.parent) e.pc) := by
              apply flatMap_congr'
              intro e' he'
              cases hpar : e'.parent with
              | none => rfl
              | some pk =>
                obtain ⟨pn, k⟩ := pk
                have hpn : pn ∈ done := inv.par_done e' (List.mem_cons_of_mem _ he') pn k hpar
                have hne : pn ≠ p.name := fun hh => hnd (hh ▸ hpn)
                have : lookup (st.pvals ++ [(p.name, v)]) pn = lookup st.pvals pn := by
                  rw [lookup_append]
                  cases lookup st.pvals pn with
                  | some w => rfl
                  | none =>
                    simp only [lookup, List.find?_cons, List.find?_nil]
                    have : (p.name == pn) = false := by simp; exact fun hh => hne hh.symm
                    simp [this]
                show takenOf t (parentOK (st.pvals ++ [(p.name, v)]) (some (pn, k))) e'.pc = _
                simp only [parentOK, this]
            rw [List.flatMap_append, hstable, children_taken t _ p v none hlk] at hperm
            rw [List.flatMap_cons]
            have htk : takenOf t (parentOK st.pvals par) p = (p.name, x) :: takenKids t v p.kids := by
              rw [hok, takenOf_true t p v hl]
              simp [castV, hx]
            rw [htk]
            simp only [List.cons_append]
            exact List.Perm.cons _ (hperm.trans List.perm_append_comm)
          · rw [if_neg hok]
            exact skip (Or.inr (by simpa using hok))

/-! ### from `takenSpace` to the active parameters of C16 -/

theorem str_beq' (s t : String) : (PVal.str s == PVal.str t) = (s == t) := by
  by_cases h : s = t <;> simp [h]

/-- for a stored value that is not a Python bool, "the key belongs to the chosen value" is
plain equality -/
theorem matchesChoice_eq (k v : PVal) (hv : isBool v = false) : matchesChoice k v = pyEq v k := by
  unfold matchesChoice
  rw [pyEq_comm k v]
  cases v with
  | bool b => simp [isBool] at hv
  | int i => simp [strForm]
  | flt x => simp [strForm]
  | str s =>
    cases k with
    | str t => simp [strForm, pyEq, str_beq', Bool.beq_comm]
    | int i => simp [strForm, pyEq]
    | flt x => simp [strForm, pyEq]
    | bool b => simp [strForm, pyEq]

/-- what the specification presents for a list of configs -/
def presentOf (t : Assign) (l : List PC) : List (String × Option PVal) :=
  l.filterMap fun q => (lookup t q.name).map fun v => (q.name, castV q.h.ext v)

theorem presentOf_append (t : Assign) (a b : List PC) : presentOf t (a ++ b) = presentOf t a ++ presentOf t b := by
  simp [presentOf, List.filterMap_append]

mutual
theorem takenOf_active (t : Assign) (hb : ∀ n v, lookup t n = some v → isBool v = false) :
    ∀ p : PC, takenOf t true p = presentOf t (activeOf (chooseOf t) p)
  | .mk h kids => by
    unfold takenOf activeOf
    simp only [if_true, chooseOf, PC.name, PC.h]
    cases hl : lookup t h.name with
    | none => simp [presentOf, PC.name, PC.h, hl]
    | some v =>
      simp only [presentOf, List.filterMap_cons, PC.name, PC.h, hl, Option.map_some]
      rw [takenKids_active t hb v (hb _ _ hl) kids]
      rfl
theorem takenKids_active (t : Assign) (hb : ∀ n v, lookup t n = some v → isBool v = false)
    (v : PVal) (hv : isBool v = false) :
    ∀ kids : List (PVal × PC), takenKids t v kids = presentOf t (activeKids (chooseOf t) v kids)
  | [] => rfl
  | (k, c) :: rest => by
    unfold takenKids activeKids
    rw [presentOf_append, matchesChoice_eq k v hv, takenKids_active t hb v hv rest]
    cases hm : pyEq v k with
    | true => simp only [if_true]; rw [takenOf_active t hb c]
    | false => simp [takenOf_false, presentOf]
end

theorem takenSpace_active (t : Assign) (hb : ∀ n v, lookup t n = some v → isBool v = false) (ss : List PC) :
    takenSpace t ss = presentOf t (activeSpace (chooseOf t) ss) := by
  induction ss with
  | nil => rfl
  | cons p ps ih => simp only [takenSpace, activeSpace, presentOf_append, takenOf_active t hb p, ih]

theorem presentOf_eq_map (t : Assign) (ss : List PC) :
    presentOf t (activeSpace (chooseOf t) ss) =
      (activePresent ss t).map fun pv => (pv.1.name, castV pv.1.h.ext pv.2) := by
  unfold presentOf activePresent
  rw [List.map_filterMap]
  congr 1
  funext q
  cases lookup t q.name <;> rfl

theorem rootEntries_taken (t : Assign) (ss : List PC) :
    (rootEntries ss).flatMap (fun e => takenOf t (parentOK [] e.parent) e.pc) = takenSpace t ss := by
  unfold rootEntries
  induction ss with
  | nil => rfl
  | cons p ps ih =>
    simp only [List.map_cons, List.flatMap_cons, takenSpace]
    rw [ih]
    rfl

/-- the loop as written, started on a space whose names are unique -/
theorem extLoopByName_presents (ss : List PC) (t : Assign) (hU : (names (allSpace ss)).Nodup)
    (hb : ∀ n v, lookup t n = some v → isBool v = false)
    (hc : ∀ p ∈ allSpace ss, ∀ v, lookup t p.name = some v → ∃ x, cast p.h.ext v = .ok x) :
    ∃ st, extLoopByName (sizeSpace ss) (rootEntries ss) ⟨t, [], []⟩ = .ok st ∧
      st.ext.Perm ((activePresent ss t).map fun pv => (pv.1.name, castV pv.1.h.ext pv.2)) := by
  have hpcs : (rootEntries ss).map QE.pc = ss := by
    simp [rootEntries, List.map_map, Function.comp_def]
  have inv : LInv t (rootEntries ss) ⟨t, [], []⟩ [] :=
    { nodup := by rw [hpcs]; simpa using hU
      pv_done := by intro n hn; simp [keys] at hn
      par_done := by
        intro e he pn k hpk
        unfold rootEntries at he
        rw [List.mem_map] at he
        obtain ⟨p, _, rfl⟩ := he
        cases hpk
      rem := fun _ _ => rfl
      castok := by rw [hpcs]; exact hc }
  obtain ⟨st, hst, L, hL, hperm⟩ := loop_spec t (sizeSpace ss) (rootEntries ss) ⟨t, [], []⟩ [] (by rw [hpcs]) inv
  refine ⟨st, hst, ?_⟩
  rw [hL, List.nil_append]
  rw [rootEntries_taken, takenSpace_active t hb, presentOf_eq_map] at hperm
  exact hperm

/-! ### the variant that carries the parent's value (`parentByName = false`) -/

structure LInvId (t : Assign) (q : List QE) (st : LoopSt) (done : List String) : Prop where
  nodup : (done ++ names (allSpace (q.map QE.pc))).Nodup
  pv_done : ∀ n ∈ keys st.pvals, n ∈ done
  rem : ∀ n, n ∉ keys st.pvals → lookup st.remaining n = lookup t n
  castok : ∀ p ∈ allSpace (q.map QE.pc), ∀ v, lookup t p.name = some v → ∃ x, cast p.h.ext v = .ok x

theorem children_taken_id (t : Assign) (p : PC) (v : PVal) :
    (childEntries p (some v)).flatMap (fun e => takenOf t (flagId e) e.pc) = takenKids t v p.kids := by
  unfold childEntries
  induction p.kids with
  | nil => rfl
  | cons kc rest ih =>
    obtain ⟨k, c⟩ := kc
    simp only [List.map_cons, List.flatMap_cons, takenKids]
    rw [ih]
    rfl

theorem loop_spec_id (t : Assign) : ∀ (n : Nat) (q : List QE) (st : LoopSt) (done : List String),
    sizeSpace (q.map QE.pc) ≤ n → LInvId t q st done →
    ∃ st', extLoopById n q st = .ok st' ∧ ∃ L, st'.ext = st.ext ++ L ∧
      L.Perm (q.flatMap fun e => takenOf t (flagId e) e.pc) := by
  intro n
  induction n with
  | zero =>
    intro q st done hsz _
    cases q with
    | nil => exact ⟨st, rfl, [], by simp, List.Perm.refl _⟩
    | cons e q0 => simp only [List.map_cons, sizeSpace, size_eq] at hsz; omega
  | succ n ih =>
    intro q st done hsz inv
    cases q with
    | nil => exact ⟨st, rfl, [], by simp, List.Perm.refl _⟩
    | cons e q0 =>
      obtain ⟨par, epv, p⟩ := e
      simp only [List.map_cons, sizeSpace, size_eq] at hsz
      have hp_mem : p ∈ allSpace ((⟨par, epv, p⟩ :: q0).map QE.pc) := by simp [allSpace, allOf_eq]
      have fresh : ∀ p' ∈ allSpace ((⟨par, epv, p⟩ :: q0).map QE.pc), p'.name ∉ done ∧ p'.name ∉ keys st.pvals := by
        intro p' hp'
        have hd : p'.name ∉ done := by
          intro hin
          exact (List.nodup_append.mp inv.nodup).2.2 p'.name hin p'.name (name_mem_of_mem hp') rfl
        exact ⟨hd, fun hk => hd (inv.pv_done _ hk)⟩
      obtain ⟨hnd, hnp⟩ := fresh p hp_mem
      have hrem : lookup st.remaining p.name = lookup t p.name := inv.rem _ hnp
      unfold extLoopById
      by_cases hemp : st.remaining.isEmpty = true
      · rw [if_pos hemp]
        refine ⟨st, rfl, [], by simp, ?_⟩
        rw [flatMap_nil']
        intro e' he'
        apply takenOf_absent
        have hm : e'.pc ∈ allSpace ((⟨par, epv, p⟩ :: q0).map QE.pc) :=
          (roots_sublist _).subset (List.mem_map_of_mem he')
        rw [← inv.rem _ (fresh _ hm).2]
        exact lookup_isEmpty hemp _
      · rw [if_neg hemp]
        have hsub0 : ∀ p' ∈ allSpace (q0.map QE.pc), p' ∈ allSpace ((⟨par, epv, p⟩ :: q0).map QE.pc) := by
          intro p' hp'
          simp only [List.map_cons, allSpace, List.mem_append]
          exact Or.inr hp'
        have hnodup0 : (done ++ names (allSpace (q0.map QE.pc))).Nodup := by
          refine List.Nodup.sublist ?_ inv.nodup
          refine List.Sublist.append (List.Sublist.refl _) ?_
          simp only [List.map_cons, allSpace, names, List.map_append]
          exact List.sublist_append_right _ _
        have skip : (lookup t p.name = none ∨ flagId ⟨par, epv, p⟩ = false) →
            ∃ st', extLoopById n q0 st = .ok st' ∧ ∃ L, st'.ext = st.ext ++ L ∧
              L.Perm ((⟨par, epv, p⟩ :: q0 : List QE).flatMap fun e => takenOf t (flagId e) e.pc) := by
          intro hcase
          have inv' : LInvId t q0 st done :=
            { nodup := hnodup0, pv_done := inv.pv_done, rem := inv.rem
              castok := fun p' hp' => inv.castok p' (hsub0 p' hp') }
          obtain ⟨st', hst', L, hL, hperm⟩ := ih _ st _ (by omega) inv'
          refine ⟨st', hst', L, hL, ?_⟩
          rw [List.flatMap_cons]
          have : takenOf t (flagId ⟨par, epv, p⟩) p = [] := by
            rcases hcase with h | h
            · exact takenOf_absent t _ p h
            · rw [h]; exact takenOf_false t p
          simp only [this, List.nil_append]
          exact hperm
        rw [hrem]
        cases hl : lookup t p.name with
        | none => exact skip (Or.inl hl)
        | some v =>
          simp only
          by_cases hok : flagId ⟨par, epv, p⟩ = true
          · rw [if_pos hok]
            obtain ⟨x, hx⟩ := inv.castok p hp_mem v hl
            rw [hx]
            simp only
            have hsz' : sizeSpace ((q0 ++ childEntries p (some v)).map QE.pc) ≤ n := by
              rw [List.map_append, sizeSpace_append, childEntries_pcs, sizeSpace_map_snd]; omega
            have hnodup' : ((done ++ [p.name]) ++ names (allSpace ((q0 ++ childEntries p (some v)).map QE.pc))).Nodup := by
              have h1 := queue_step_perm done p q0 (some v)
              have h2 : (done ++ names (allSpace ((⟨none, none, p⟩ :: q0).map QE.pc))).Nodup := inv.nodup
              exact h1.nodup_iff.mpr h2
            have hsub : ∀ p' ∈ allSpace ((q0 ++ childEntries p (some v)).map QE.pc),
                p' ∈ allSpace ((⟨par, epv, p⟩ :: q0).map QE.pc) := by
              intro p' hp'
              simp only [List.map_append, childEntries_pcs, allSpace_append, allSpace_map_snd, List.mem_append] at hp'
              simp only [List.map_cons, allSpace, allOf_eq, List.cons_append, List.mem_cons, List.mem_append]
              rcases hp' with h | h
              · exact Or.inr (Or.inr h)
              · exact Or.inr (Or.inl h)
            have hkeys : keys (takeParam st p.name v x).pvals = keys st.pvals ++ [p.name] := by
              simp [takeParam, keys]
            have inv' : LInvId t (q0 ++ childEntries p (some v)) (takeParam st p.name v x) (done ++ [p.name]) :=
              { nodup := hnodup'
                pv_done := by
                  intro m hm
                  rw [hkeys] at hm
                  rcases List.mem_append.mp hm with h | h
                  · exact List.mem_append_left _ (inv.pv_done m h)
                  · exact List.mem_append_right _ h
                rem := by
                  intro m hm
                  rw [hkeys] at hm
                  have h1 : m ∉ keys st.pvals := fun hh => hm (List.mem_append_left _ hh)
                  have h2 : m ≠ p.name := fun hh => hm (List.mem_append_right _ (by simp [hh]))
                  show lookup (eraseKey st.remaining p.name) m = lookup t m
                  rw [lookup_eraseKey_ne _ _ _ h2]
                  exact inv.rem m h1
                castok := fun p' hp' => inv.castok p' (hsub p' hp') }
            obtain ⟨st', hst', L, hL, hperm⟩ := ih _ (takeParam st p.name v x) _ hsz' inv'
            refine ⟨st', hst', (p.name, x) :: L, by rw [hL]; simp [takeParam], ?_⟩
            rw [List.flatMap_append, children_taken_id t p v] at hperm
            rw [List.flatMap_cons]
            have htk : takenOf t (flagId ⟨par, epv, p⟩) p = (p.name, x) :: takenKids t v p.kids := by
              rw [hok, takenOf_true t p v hl]
              simp [castV, hx]
            rw [htk]
            simp only [List.cons_append]
            exact List.Perm.cons _ (hperm.trans List.perm_append_comm)
          · rw [if_neg hok]
            exact skip (Or.inr (by simpa using hok))

theorem rootEntries_taken_id (t : Assign) (ss : List PC) :
    (rootEntries ss).flatMap (fun e => takenOf t (flagId e) e.pc) = takenSpace t ss := by
  unfold rootEntries
  induction ss with
  | nil => rfl
  | cons p ps ih =>
    simp only [List.map_cons, List.flatMap_cons, takenSpace]
    rw [ih]
    rfl

theorem extLoopById_presents (ss : List PC) (t : Assign) (hU : (names (allSpace ss)).Nodup)
    (hb : ∀ n v, lookup t n = some v → isBool v = false)
    (hc : ∀ p ∈ allSpace ss, ∀ v, lookup t p.name = some v → ∃ x, cast p.h.ext v = .ok x) :
    ∃ st, extLoopById (sizeSpace ss) (rootEntries ss) ⟨t, [], []⟩ = .ok st ∧
      st.ext.Perm ((activePresent ss t).map fun pv => (pv.1.name, castV pv.1.h.ext pv.2)) := by
  have hpcs : (rootEntries ss).map QE.pc = ss := by
    simp [rootEntries, List.map_map, Function.comp_def]
  have inv : LInvId t (rootEntries ss) ⟨t, [], []⟩ [] :=
    { nodup := by rw [hpcs]; simpa using hU
      pv_done := by intro n hn; simp [keys] at hn
      rem := fun _ _ => rfl
      castok := by rw [hpcs]; exact hc }
  obtain ⟨st, hst, L, hL, hperm⟩ := loop_spec_id t (sizeSpace ss) (rootEntries ss) ⟨t, [], []⟩ [] (by rw [hpcs]) inv
  refine ⟨st, hst, ?_⟩
  rw [hL, List.nil_append]
  rw [rootEntries_taken_id, takenSpace_active t hb, presentOf_eq_map] at hperm
  exact hperm

theorem cast_total_of_finite (e : ExtType) (v : PVal) (h : v ≠ .flt .pinf ∧ v ≠ .flt .ninf) :
    ∃ x, Space.cast e v = .ok x := by
  cases e with
  | internal => exact ⟨_, rfl⟩
  | boolean => exact ⟨_, rfl⟩
  | float => exact ⟨_, rfl⟩
  | integer =>
    cases v with
    | str s => exact ⟨_, rfl⟩
    | int i => exact ⟨_, rfl⟩
    | bool b => exact ⟨_, rfl⟩
    | flt x =>
      cases x with
      | fin q => exact ⟨_, rfl⟩
      | nan => exact ⟨_, rfl⟩
      | pinf => exact absurd rfl h.1
      | ninf => exact absurd rfl h.2


theorem names_activePresent_sublist (ss : List PC) (t : Assign) :
    ((activePresent ss t).map fun pv => pv.1.name).Sublist ((activeSpace (chooseOf t) ss).map PC.name) := by
  unfold activePresent
  induction activeSpace (chooseOf t) ss with
  | nil => exact List.Sublist.refl _
  | cons p ps ih =>
    rw [List.filterMap_cons]
    cases lookup t p.name with
    | none => exact List.Sublist.cons _ ih
    | some v => exact List.Sublist.cons_cons _ ih


end VizierModel.Space
