import VizierModel.Model.Stores
namespace VizierModel.Stores
open VizierModel.Svc

/-- clients in first-seen order (a Python dict keeps insertion order) -/
def firstSeen (l : List String) : List String :=
  l.foldl (fun acc c => if acc.contains c then acc else acc ++ [c]) []

/-- the per-client operation dictionaries of study `k`: clients in the order of their first operation
    row, each with its rows in row order -/
def clientsOf (ops : List (SKey × SugOp)) (k : SKey) : List (String × List SugOp) :=
  let rows := (ops.filter (·.1 == k)).map (·.2)
  (firstSeen (rows.map (·.client))).map fun c => (c, rows.filter (·.client == c))

/-- the nested-dictionary view of the SQL tables: owners in first-seen order, each owner's studies in
    row order, each study's trials in row order, its operations grouped by client -/
def nodeOf (q : Sql) (k : SKey) (h : Head) : RNode :=
  { head := h, trials := (q.trials.filter (·.1 == k)).map (·.2), clients := clientsOf q.ops k }

def studiesOf (q : Sql) (o : String) : List (String × RNode) :=
  (q.studies.filter (·.1.1 == o)).map fun row => (row.1.2, nodeOf q row.1 row.2)

def absQ (q : Sql) : Ram := { owners := q.owners.map fun o => (o, studiesOf q o) }

/-- well-formedness of the tables (an invariant of the SQL datastore) -/
structure WF (q : Sql) : Prop where
  ownersNodup : q.owners.Nodup
  studyKeys : (q.studies.map (·.1)).Nodup
  studyOwner : ∀ row ∈ q.studies, row.1.1 ∈ q.owners
  noOrphan : ∀ row ∈ q.trials, q.hasStudy row.1 = true
  noOrphanOps : ∀ row ∈ q.ops, q.hasStudy row.1 = true

theorem clientsOf_congr (O O' : List (SKey × SugOp)) (k : SKey)
    (h : (O'.filter (·.1 == k)).map (·.2) = (O.filter (·.1 == k)).map (·.2)) : clientsOf O' k = clientsOf O k := by
  unfold clientsOf
  simp only [h]

theorem clientsOf_no_rows (O : List (SKey × SugOp)) (k : SKey) (h : O.filter (·.1 == k) = []) : clientsOf O k = [] := by
  unfold clientsOf firstSeen
  simp [h]

theorem wf_empty : WF Sql.empty :=
  ⟨by simp [Sql.empty], by simp [Sql.empty], by simp [Sql.empty], by simp [Sql.empty], by simp [Sql.empty]⟩

theorem absQ_empty : absQ Sql.empty = Ram.empty := rfl

/-! ### lookups through the abstraction -/

theorem studiesOfOwner_absQ (q : Sql) (hw : WF q) (o : String) :
    (absQ q).studiesOfOwner o = if q.owners.contains o then some (studiesOf q o) else none := by
  unfold Ram.studiesOfOwner absQ
  simp only
  induction q.owners with
  | nil => simp
  | cons x xs ih =>
    simp only [List.map_cons, List.find?_cons, List.contains_cons]
    by_cases hx : x = o
    · subst hx; simp
    · have h1 : (x == o) = false := by simpa using hx
      have h2 : (o == x) = false := by simpa using fun e : o = x => hx e.symm
      simp only [h1, h2, Bool.false_or]
      exact ih

theorem find_studiesOf (q : Sql) (k : SKey) (rows : List (SKey × Head)) :
    (((rows.filter (·.1.1 == k.1)).map fun row => (row.1.2, nodeOf q row.1 row.2)).find? (·.1 == k.2)).map (·.2) =
      (rows.find? (·.1 == k)).map fun row => nodeOf q row.1 row.2 := by
  induction rows with
  | nil => rfl
  | cons row rows ih =>
    by_cases hk : row.1 = k
    · have ho : (row.1.1 == k.1) = true := by rw [hk]; exact beq_self_eq_true _
      have hs : (row.1.2 == k.2) = true := by rw [hk]; exact beq_self_eq_true _
      have hk' : (row.1 == k) = true := beq_iff_eq.mpr hk
      simp only [List.filter_cons, ho, if_true, List.map_cons, List.find?_cons, hs, hk', Option.map_some]
    · have hne : (row.1 == k) = false := by
        cases h : row.1 == k with
        | true => exact absurd (beq_iff_eq.mp h) hk
        | false => rfl
      by_cases ho : (row.1.1 == k.1) = true
      · have hs : (row.1.2 == k.2) = false := by
          cases h : row.1.2 == k.2 with
          | true => exact absurd (Prod.ext (beq_iff_eq.mp ho) (beq_iff_eq.mp h)) hk
          | false => rfl
        simp only [List.filter_cons, ho, if_true, List.map_cons, List.find?_cons, hs, hne]
        exact ih
      · have ho' : (row.1.1 == k.1) = false := by
          cases h : row.1.1 == k.1 with
          | true => exact absurd h ho
          | false => rfl
        simp only [List.filter_cons, ho', Bool.false_eq_true, if_false, List.find?_cons, hne]
        exact ih

theorem node_absQ (q : Sql) (hw : WF q) (k : SKey) :
    (absQ q).node k = (q.studies.find? (·.1 == k)).map fun row => nodeOf q row.1 row.2 := by
  unfold Ram.node
  rw [studiesOfOwner_absQ q hw]
  by_cases hc : q.owners.contains k.1 = true
  · simp only [hc, if_true]
    exact find_studiesOf q k q.studies
  · simp only [hc]
    -- no study of an unknown owner
    have : q.studies.find? (·.1 == k) = none := by
      rw [List.find?_eq_none]
      intro row hrow he
      have hk : row.1 = k := by simpa using he
      have := hw.studyOwner row hrow
      rw [hk] at this
      exact hc (by simpa using this)
    simp [this]

theorem hasStudy_iff_find (q : Sql) (k : SKey) : q.hasStudy k = (q.studies.find? (·.1 == k)).isSome := by
  unfold Sql.hasStudy
  induction q.studies with
  | nil => rfl
  | cons row rows ih =>
    simp only [List.any_cons, List.find?_cons]
    by_cases h : (row.1 == k) = true
    · simp [h]
    · simp only [h, Bool.false_or, ih]

/-! ### reads agree -/

theorem loadStudy_sim (q : Sql) (hw : WF q) (k : SKey) : (absQ q).loadStudy k = q.loadStudy k := by
  unfold Ram.loadStudy Sql.loadStudy
  rw [node_absQ q hw]
  cases h : q.studies.find? (·.1 == k) <;> simp [nodeOf]

theorem listTrials_sim (q : Sql) (hw : WF q) (k : SKey) : (absQ q).listTrials k = q.listTrials k := by
  unfold Ram.listTrials Sql.listTrials
  rw [node_absQ q hw, hasStudy_iff_find]
  cases h : q.studies.find? (·.1 == k) with
  | none => simp
  | some row =>
    have hk : row.1 = k := by simpa using List.find?_some h
    simp [nodeOf, hk]

theorem maxTrialId_sim (q : Sql) (hw : WF q) (k : SKey) : (absQ q).maxTrialId k = q.maxTrialId k := by
  unfold Ram.maxTrialId Sql.maxTrialId
  rw [node_absQ q hw, hasStudy_iff_find]
  cases h : q.studies.find? (·.1 == k) with
  | none => simp
  | some row =>
    have hk : row.1 = k := by simpa using List.find?_some h
    simp [nodeOf, hk]

theorem listStudies_sim (q : Sql) (hw : WF q) (o : String) : (absQ q).listStudies o = q.listStudies o := by
  unfold Ram.listStudies Sql.listStudies
  rw [studiesOfOwner_absQ q hw]
  by_cases hc : q.owners.contains o = true
  · simp only [hc, if_true]
    unfold studiesOf
    simp [List.map_map, Function.comp, nodeOf]
  · have hc' : q.owners.contains o = false := by
      cases h : q.owners.contains o with
      | true => exact absurd h hc
      | false => rfl
    simp only [hc', Bool.false_eq_true, if_false]

theorem find_trial_filter (rows : List (SKey × Trial)) (k : SKey) (id : Nat) :
    ((rows.filter (·.1 == k)).map (·.2)).find? (·.id == id) =
      (rows.find? (fun row => row.1 == k && row.2.id == id)).map (·.2) := by
  induction rows with
  | nil => rfl
  | cons row rest ih =>
    simp only [List.filter_cons, List.find?_cons]
    by_cases hk : (row.1 == k) = true
    · simp only [hk, if_true, List.map_cons, List.find?_cons, Bool.true_and]
      by_cases hi : (row.2.id == id) = true
      · simp [hi]
      · simp only [hi]; exact ih
    · simp only [hk, Bool.false_and]; exact ih

theorem getTrial_sim (q : Sql) (hw : WF q) (k : SKey) (id : Nat) : (absQ q).getTrial k id = q.getTrial k id := by
  unfold Ram.getTrial Sql.getTrial
  rw [node_absQ q hw]
  cases h : q.studies.find? (·.1 == k) with
  | none =>
    -- no study: no trial rows either (no orphans)
    have : q.trials.find? (fun row => row.1 == k && row.2.id == id) = none := by
      rw [List.find?_eq_none]
      intro row hrow he
      have hk : row.1 = k := by
        simp only [Bool.and_eq_true, beq_iff_eq] at he; exact he.1
      have := hw.noOrphan row hrow
      rw [hk, hasStudy_iff_find, h] at this
      cases this
    simp [this]
  | some row =>
    have hk : row.1 = k := by simpa using List.find?_some h
    simp only [Option.map_some, nodeOf, hk]
    rw [find_trial_filter]
    cases q.trials.find? (fun row => row.1 == k && row.2.id == id) <;> rfl

end VizierModel.Stores
