/-
C09 lemmas: metadata ↔ KeyValue list, metadata delta ↔ UnitMetadataUpdate list, parameter
values, measurement metrics.
-/
import VizierModel.Lemmas.WireDict
import VizierModel.Lemmas.Namespace

namespace VizierModel.Wire
open VizierModel

/-! ### Metadata -/

/-- distinct namespaces, distinct keys inside a namespace, and no namespace component ending in a
backslash (the class for which `Namespace.decode ∘ encode` is not the identity: C10's finding) -/
structure MdWF (md : Md) : Prop where
  ns_nodup : (md.map Prod.fst).Nodup
  keys_nodup : ∀ g ∈ md, (g.2.map Prod.fst).Nodup
  no_trailing_bs : ∀ g ∈ md, NS.trailingBS g.1 = false

theorem decode_encode_of_trailingBS {ns : Ns} (h : NS.trailingBS ns = false) :
    NS.decode (NS.encode ns) = ns := by
  apply NS.decode_encode
  intro c hc
  have := List.any_eq_false.mp h c hc
  simpa using this

theorem readValue_assignValue (v : MdVal) : readValue (assignValue v) = mdValNorm v := by
  cases v <;> rfl

theorem mdToProto_cons (g : Ns × List (String × MdVal)) (md : Md) :
    mdToProto (g :: md) =
      (g.2.map fun e => ({ ns := NS.encode g.1, key := e.1, val := assignValue e.2 } : KV)) ++ mdToProto md := by
  simp [mdToProto]

theorem mdNorm_cons (g : Ns × List (String × MdVal)) (md : Md) :
    mdNorm (g :: md) =
      (if g.2.isEmpty then [] else [(g.1, g.2.map fun e => (e.1, mdValNorm e.2))]) ++ mdNorm md := by
  unfold mdNorm
  by_cases h : g.2.isEmpty <;> simp [h]

/-- reading the entries of one namespace back, into a dict that does not have it yet -/
theorem mdIns_group (ns : Ns) (es : List (String × MdVal)) (acc : Md)
    (hb : NS.trailingBS ns = false) (hfresh : ∀ e ∈ acc, e.1 ≠ ns) (hk : (es.map Prod.fst).Nodup) :
    (es.map fun e => ({ ns := NS.encode ns, key := e.1, val := assignValue e.2 } : KV)).foldl
        (fun acc kv => mdIns kv acc) acc
      = acc ++ (if es.isEmpty then [] else [(ns, es.map fun e => (e.1, mdValNorm e.2))]) := by
  rw [List.foldl_map]
  simp only [mdIns, groupIns, decode_encode_of_trailingBS hb, readValue_assignValue]
  by_cases he : es = []
  · subst he; simp
  · have hne : es.isEmpty = false := by cases es <;> simp_all
    rw [hne]
    have := foldl_modifyD_fresh (κ := Ns) (σ := List (String × MdVal)) ns
      (fun s (e : String × MdVal) => insBy Prod.fst (e.1, mdValNorm e.2) s) [] acc es hfresh he
    rw [this]
    have h2 : es.foldl (fun s (e : String × MdVal) => insBy Prod.fst (e.1, mdValNorm e.2) s) []
        = (es.map fun e => (e.1, mdValNorm e.2)).foldl (fun s e => insBy Prod.fst e s) [] := by
      rw [List.foldl_map]
    simp only [Bool.false_eq_true, if_false]
    rw [h2, foldl_insBy_nil]
    simpa [List.map_map, Function.comp_def] using hk

theorem mdFold (md acc : Md) (hk : ((acc ++ md).map Prod.fst).Nodup)
    (hi : ∀ g ∈ md, (g.2.map Prod.fst).Nodup) (hb : ∀ g ∈ md, NS.trailingBS g.1 = false) :
    (mdToProto md).foldl (fun acc kv => mdIns kv acc) acc = acc ++ mdNorm md := by
  induction md generalizing acc with
  | nil => simp [mdToProto, mdNorm]
  | cons g rest ih =>
    rw [mdToProto_cons, List.foldl_append, mdNorm_cons]
    have hfresh : ∀ e ∈ acc, e.1 ≠ g.1 := by
      intro e he heq
      rw [List.map_append, List.map_cons] at hk
      exact (List.nodup_append.mp hk).2.2 e.1 (List.mem_map_of_mem he) g.1 (by simp) heq
    rw [mdIns_group g.1 g.2 acc (hb g (by simp)) hfresh (hi g (by simp))]
    have hk' : ((acc ++ (if g.2.isEmpty then [] else [(g.1, g.2.map fun e => (e.1, mdValNorm e.2))]) ++ rest).map Prod.fst).Nodup := by
      by_cases h : g.2.isEmpty
      · simp only [h, if_true, List.append_nil]
        rw [List.map_append] at hk ⊢
        rw [List.map_cons] at hk
        have := List.nodup_append.mp hk
        refine List.nodup_append.mpr ⟨this.1, (List.nodup_cons.mp this.2.1).2, ?_⟩
        intro a ha b hb'
        exact this.2.2 a ha b (by simp [hb'])
      · simp only [h, Bool.false_eq_true, if_false]
        simpa [List.map_append] using hk
    rw [ih _ hk' (fun x hx => hi x (by simp [hx])) (fun x hx => hb x (by simp [hx]))]
    simp [List.append_assoc]

/-- `from_key_value_list(make_key_value_list(md))` is what a reader of `md` sees -/
theorem mdFromProto_mdToProto (md : Md) (h : MdWF md) : mdFromProto (mdToProto md) = mdNorm md := by
  have := mdFold md [] (by simpa using h.ns_nodup) h.keys_nodup h.no_trailing_bs
  simpa [mdFromProto] using this

theorem mdValNorm_idem (v : MdVal) : mdValNorm (mdValNorm v) = mdValNorm v := by cases v <;> rfl

theorem assignValue_norm (v : MdVal) : assignValue (mdValNorm v) = assignValue v := by cases v <;> rfl

/-- the wire form only depends on what a reader sees -/
theorem mdToProto_mdNorm (md : Md) : mdToProto (mdNorm md) = mdToProto md := by
  induction md with
  | nil => rfl
  | cons g rest ih =>
    rw [mdNorm_cons, mdToProto_cons]
    by_cases h : g.2.isEmpty
    · have : g.2 = [] := by cases hg : g.2 <;> simp_all
      simp [ih, this]
    · simp only [h, Bool.false_eq_true, if_false, List.singleton_append, mdToProto_cons, ih]
      simp [List.map_map, Function.comp_def, assignValue_norm]

/-! ### parameter values -/

theorem valFromProto_valToProto (v : PyVal) : valFromProto (valToProto v) = some (valNorm v) := by
  cases v <;> rfl

theorem valToProto_valNorm (v : PyVal) : valToProto (valNorm v) = valToProto v := by
  cases v <;> rfl

theorem paramsFromProto_paramsToProto (ps : Params) (h : (ps.map Prod.fst).Nodup) :
    paramsFromProto (paramsToProto ps) = paramsNorm ps := by
  unfold paramsFromProto paramsToProto
  rw [List.foldl_map]
  simp only [valFromProto_valToProto]
  have : ps.foldl (fun acc (e : String × PyVal) => insBy Prod.fst (e.1, valNorm e.2) acc) []
      = (paramsNorm ps).foldl (fun acc e => insBy Prod.fst e acc) [] := by
    unfold paramsNorm; rw [List.foldl_map]
  rw [this, foldl_insBy_nil]
  simpa [paramsNorm, List.map_map, Function.comp_def] using h

theorem paramsToProto_paramsNorm (ps : Params) : paramsToProto (paramsNorm ps) = paramsToProto ps := by
  simp [paramsToProto, paramsNorm, List.map_map, Function.comp_def, valToProto_valNorm]

/-! ### measurement metrics -/

theorem metrics_roundtrip (ms : List (String × Metric)) (h : (ms.map Prod.fst).Nodup) :
    (ms.map fun e => (e.1, e.2.value)).foldl
        (fun acc (e : String × Rat) => insBy Prod.fst (e.1, (⟨e.2, none⟩ : Metric)) acc) []
      = ms.map fun e => (e.1, { e.2 with std := none }) := by
  rw [List.foldl_map]
  have : ms.foldl (fun acc (e : String × Metric) => insBy Prod.fst (e.1, (⟨e.2.value, none⟩ : Metric)) acc) []
      = (ms.map fun e => (e.1, ({ e.2 with std := none } : Metric))).foldl (fun acc e => insBy Prod.fst e acc) [] := by
    rw [List.foldl_map]
  rw [this, foldl_insBy_nil]
  simpa [List.map_map, Function.comp_def] using h

/-! ### MetadataDelta -/

structure DeltaWF (d : Delta) : Prop where
  study : MdWF d.onStudy
  ids_nodup : (d.onTrials.map Prod.fst).Nodup
  trials : ∀ t ∈ d.onTrials, MdWF t.2

theorem deltaFold_study (md : Md) (h : MdWF md) (ts : List (Int × Md)) :
    ((mdToProto md).map fun kv => (⟨none, kv⟩ : UMU)).foldl deltaStep (⟨[], ts⟩ : Delta)
      = ⟨mdNorm md, ts⟩ := by
  rw [List.foldl_map]
  show (mdToProto md).foldl (fun (acc : Delta) kv => { acc with onStudy := mdIns kv acc.onStudy }) (⟨[], ts⟩ : Delta) = _
  have key : ∀ (kvs : List KV) (s : Md),
      kvs.foldl (fun (acc : Delta) kv => { acc with onStudy := mdIns kv acc.onStudy }) (⟨s, ts⟩ : Delta)
        = ⟨kvs.foldl (fun acc kv => mdIns kv acc) s, ts⟩ := by
    intro kvs
    induction kvs with
    | nil => intro s; rfl
    | cons kv kvs ih => intro s; rw [List.foldl_cons, List.foldl_cons, ih]
  rw [key]
  have := mdFromProto_mdToProto md h
  unfold mdFromProto at this
  rw [this]

theorem deltaFold_trials (ts acc : List (Int × Md)) (s : Md)
    (hk : ((acc ++ ts).map Prod.fst).Nodup) (hw : ∀ t ∈ ts, MdWF t.2) :
    (ts.flatMap fun t => (mdToProto t.2).map fun kv => (⟨some t.1, kv⟩ : UMU)).foldl deltaStep (⟨s, acc⟩ : Delta)
      = ⟨s, acc ++ (ts.map fun t => (t.1, mdNorm t.2)).filter fun t => !t.2.isEmpty⟩ := by
  induction ts generalizing acc with
  | nil => simp
  | cons t rest ih =>
    rw [List.flatMap_cons, List.foldl_append, List.foldl_map]
    show List.foldl deltaStep ((mdToProto t.2).foldl (fun (acc : Delta) kv => { acc with onTrials := modifyD t.1 (mdIns kv) [] acc.onTrials }) (⟨s, acc⟩ : Delta)) _ = _
    have key : ∀ (kvs : List KV) (a : List (Int × Md)),
        kvs.foldl (fun (acc : Delta) kv => { acc with onTrials := modifyD t.1 (mdIns kv) [] acc.onTrials }) (⟨s, a⟩ : Delta)
          = ⟨s, kvs.foldl (fun a kv => modifyD t.1 (fun m => mdIns kv m) [] a) a⟩ := by
      intro kvs
      induction kvs with
      | nil => intro a; rfl
      | cons kv kvs ih2 => intro a; rw [List.foldl_cons, List.foldl_cons, ih2]
    rw [key]
    have hfresh : ∀ e ∈ acc, e.1 ≠ t.1 := by
      intro e he heq
      rw [List.map_append, List.map_cons] at hk
      exact (List.nodup_append.mp hk).2.2 e.1 (List.mem_map_of_mem he) t.1 (by simp) heq
    have hmd := mdFromProto_mdToProto t.2 (hw t (by simp))
    unfold mdFromProto at hmd
    by_cases he : mdToProto t.2 = []
    · -- nothing is sent for this trial id: it is not created
      rw [he] at hmd ⊢
      simp only [List.foldl_nil] at hmd ⊢
      have hk' : ((acc ++ rest).map Prod.fst).Nodup := by
        rw [List.map_append] at hk ⊢
        rw [List.map_cons] at hk
        have := List.nodup_append.mp hk
        refine List.nodup_append.mpr ⟨this.1, (List.nodup_cons.mp this.2.1).2, ?_⟩
        intro a ha b hb'
        exact this.2.2 a ha b (by simp [hb'])
      rw [ih acc hk' (fun x hx => hw x (by simp [hx]))]
      simp [← hmd]
    · have := foldl_modifyD_fresh (κ := Int) (σ := Md) t.1 (fun m kv => mdIns kv m) [] acc (mdToProto t.2) hfresh he
      rw [this, hmd]
      have hne : (mdNorm t.2).isEmpty = false := by
        cases hm : mdNorm t.2 with
        | nil =>
          exfalso; apply he
          rw [← mdToProto_mdNorm, hm]; rfl
        | cons _ _ => rfl
      have hk' : ((acc ++ [(t.1, mdNorm t.2)] ++ rest).map Prod.fst).Nodup := by
        simpa [List.map_append] using hk
      rw [ih _ hk' (fun x hx => hw x (by simp [hx]))]
      simp [hne, List.append_assoc]

theorem deltaFromProto_deltaToProto (d : Delta) (h : DeltaWF d) :
    deltaFromProto (deltaToProto d) = deltaNorm d := by
  unfold deltaFromProto deltaToProto
  rw [List.foldl_append, deltaFold_study d.onStudy h.study []]
  have := deltaFold_trials d.onTrials [] (mdNorm d.onStudy) (by simpa using h.ids_nodup) h.trials
  rw [this]
  simp [deltaNorm]

theorem mdNorm_idem (md : Md) : mdNorm (mdNorm md) = mdNorm md := by
  induction md with
  | nil => rfl
  | cons g rest ih =>
    rw [mdNorm_cons]
    by_cases h : g.2.isEmpty
    · simp [h, ih]
    · have hne : (g.2.map fun e => (e.1, mdValNorm e.2)).isEmpty = false := by
        cases hg : g.2 <;> simp_all
      simp only [h, Bool.false_eq_true, if_false, List.singleton_append, mdNorm_cons, hne, ih]
      simp [List.map_map, Function.comp_def, mdValNorm_idem]

theorem deltaToProto_deltaNorm (d : Delta) : deltaToProto (deltaNorm d) = deltaToProto d := by
  unfold deltaToProto deltaNorm
  simp only [mdToProto_mdNorm]
  congr 1
  induction d.onTrials with
  | nil => rfl
  | cons t rest ih =>
    rw [List.map_cons, List.filter_cons]
    by_cases h : (mdNorm t.2).isEmpty
    · have h0 : mdToProto t.2 = [] := by
        have : mdNorm t.2 = [] := by cases hm : mdNorm t.2 <;> simp_all
        rw [← mdToProto_mdNorm, this]; rfl
      simp [h, ih, h0]
    · simp [h, ih, mdToProto_mdNorm]

end VizierModel.Wire
