import VizierModel.Lemmas.ServiceStep
namespace VizierModel.Svc

@[simp] theorem keyOf_putTrial (st : Study) (t : Trial) : keyOf (st.putTrial t) = keyOf st := rfl
@[simp] theorem keyOf_addTrial (st : Study) (t : Trial) : keyOf (st.addTrial t) = keyOf st := rfl
@[simp] theorem keyOf_putOp (st : Study) (o : SugOp) : keyOf (st.putOp o) = keyOf st := rfl
@[simp] theorem keyOf_putEsOp (st : Study) (o : EsOp) : keyOf (st.putEsOp o) = keyOf st := by
  unfold Study.putEsOp; split <;> rfl
@[simp] theorem keyOf_ofStore (st : Study) (s : Meta.Store K String) : keyOf (st.ofStore s) = keyOf st := rfl
@[simp] theorem keyOf_applyDecisions (st : Study) (ds : List (Nat × Bool)) : keyOf (applyDecisions st ds) = keyOf st := by
  induction ds generalizing st with
  | nil => rfl
  | cons d ds ih => obtain ⟨i, b⟩ := d; simp [applyDecisions, ih]
@[simp] theorem keyOf_updateMetadata (cfg : Cfg) (st : Study) (us : List (Meta.Upd K String)) :
    keyOf (st.updateMetadata cfg us).2 = keyOf st := by
  unfold Study.updateMetadata
  split
  · split <;> simp
  · simp
@[simp] theorem keyOf_foldl_putTrial (as : List Trial) (st : Study) : keyOf (as.foldl Study.putTrial st) = keyOf st := by
  induction as generalizing st with
  | nil => rfl
  | cons a as ih => rw [List.foldl_cons, ih]; rfl
@[simp] theorem keyOf_finishOp (op0 : SugOp) (st : Study) (h : List Trial) : keyOf (finishOp op0 st h).2 = keyOf st := rfl
@[simp] theorem keyOf_failOp (op0 : SugOp) (st : Study) : keyOf (failOp op0 st).2 = keyOf st := rfl

theorem keeps_complete (id : Nat) (f : Option Meas) (i : Bool) (r : String) : KeepsKey fun st => completeBody st id f i r := by
  intro st; simp only [completeBody]; repeat' split
  all_goals simp
theorem keeps_addMeasurement (id : Nat) (m : Meas) : KeepsKey fun st => addMeasurementBody st id m := by
  intro st; simp only [addMeasurementBody]; repeat' split
  all_goals simp
theorem keeps_stop (id : Nat) : KeepsKey fun st => stopBody st id := by
  intro st; simp only [stopBody]; repeat' split
  all_goals simp
theorem keeps_createTrial (keepInf : Bool) (t : Trial) : KeepsKey fun st => createTrialBody keepInf st t := by
  intro st; simp [createTrialBody]
theorem keeps_deleteTrial (id : Nat) : KeepsKey fun st => deleteTrialBody st id := by
  intro st; simp only [deleteTrialBody]; split <;> rfl
theorem keeps_createStage (cfg : Cfg) (op0 : SugOp) (need : Nat) (out : List Trial) (sugg : List Sugg) (st : Study) :
    keyOf (createStage cfg op0 st need out sugg).2 = keyOf st := by
  simp only [createStage]; split <;> rfl
theorem keeps_pythiaStage (cfg : Cfg) (op0 : SugOp) (need : Nat) (out : List Trial) (alg : AlgOutcome) (st : Study) :
    keyOf (pythiaStage cfg op0 st need out alg).2 = keyOf st := by
  simp only [pythiaStage]
  split
  · simp
  · split <;> simp
  · split
    · simp
    · rw [keeps_createStage]; simp
theorem keeps_suggestRest (cfg : Cfg) (op0 : SugOp) (c : String) (n : Nat) (alg : AlgOutcome) (st : Study) :
    keyOf (suggestRest cfg op0 st c n alg).2 = keyOf st := by
  simp only [suggestRest]
  split
  · simp
  · split
    · simp
    · rw [keeps_pythiaStage]; simp
theorem keeps_suggest (cfg : Cfg) (c : String) (n : Nat) (alg : AlgOutcome) : KeepsKey fun st => suggestBody cfg st c n alg := by
  intro st; simp only [suggestBody]
  split
  · split
    · exact keeps_suggestRest cfg _ c n alg st
    · rfl
  · rw [keeps_suggestRest]; rfl
theorem keeps_esCompute (cfg : Cfg) (id : Nat) (es : EsOutcome) (st : Study) :
    keyOf (esCompute cfg st id es).2 = keyOf st := by
  simp only [esCompute]
  repeat' split
  all_goals simp
theorem keeps_earlyStop (cfg : Cfg) (id : Nat) (es : EsOutcome) : KeepsKey fun st => earlyStopBody cfg st id es := by
  intro st; simp only [earlyStopBody]
  repeat' split
  all_goals (try rw [keeps_esCompute])
  all_goals simp

end VizierModel.Svc
