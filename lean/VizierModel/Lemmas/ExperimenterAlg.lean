/-
C20 helper lemmas, part 5: the arithmetic of the wrappers over an ordered field (restricted
bounds of the shifting wrapper, monotone normalisation, sign flip involution) and the
permutation dictionaries (inverse dictionary, bijection of the feasible values).
-/
import VizierModel.Lemmas.ExperimenterDone
import Mathlib.Algebra.Order.Field.Basic
import Mathlib.Tactic.Linarith

set_option linter.unusedSimpArgs false
set_option linter.unusedVariables false
set_option linter.unusedSectionVars false

namespace VizierModel.Exp

/-! ### permutation dictionaries (any carrier with a lawful equality test) -/

section Perm
variable {α : Type}

/-- `ops.beq` decides equality -/
def LawfulBeq (ops : Ops α) : Prop := ∀ a b, ops.beq a b = true ↔ a = b

theorem PVal.beq_iff {ops : Ops α} (h : LawfulBeq ops) (a b : PVal α) : PVal.beq ops a b = true ↔ a = b := by
  cases a <;> cases b <;> simp [PVal.beq, h _ _]

def invDict (d : List (PVal α × PVal α)) : List (PVal α × PVal α) := d.map (fun kv => (kv.2, kv.1))

def invPerm (perm : List (String × List (PVal α × PVal α))) : List (String × List (PVal α × PVal α)) :=
  perm.map (fun e => (e.1, invDict e.2))

theorem lookupV_of_mem {ops : Ops α} (h : LawfulBeq ops) : ∀ (d : List (PVal α × PVal α)) (k w : PVal α),
    (d.map (·.1)).Nodup → (k, w) ∈ d → lookupV ops k d = some w
  | [], _, _, _, hm => by simp at hm
  | (k', w') :: d, k, w, hnd, hm => by
    simp only [List.map_cons, List.nodup_cons] at hnd
    simp only [List.mem_cons, Prod.mk.injEq] at hm
    by_cases hk : k' = k
    · subst hk
      rcases hm with hm | hm
      · simp [lookupV, (PVal.beq_iff h _ _).mpr rfl, hm.2]
      · exact absurd (List.mem_map_of_mem (f := (·.1)) hm) hnd.1
    · have hb : PVal.beq ops k' k = false := by
        cases hbb : PVal.beq ops k' k
        · rfl
        · exact absurd ((PVal.beq_iff h _ _).mp hbb) hk
      rcases hm with hm | hm
      · exact absurd hm.1.symm hk
      · simp [lookupV, hb, lookupV_of_mem h d k w hnd.2 hm]

theorem lookupV_some_mem {ops : Ops α} (h : LawfulBeq ops) : ∀ (d : List (PVal α × PVal α)) (k w : PVal α),
    lookupV ops k d = some w → (k, w) ∈ d
  | [], _, _, hl => by simp [lookupV] at hl
  | (k', w') :: d, k, w, hl => by
    simp only [lookupV] at hl
    by_cases hb : PVal.beq ops k' k = true
    · simp only [hb, if_true, Option.some.injEq] at hl
      have := (PVal.beq_iff h _ _).mp hb
      simp [this, hl]
    · simp only [hb] at hl
      exact List.mem_cons_of_mem _ (lookupV_some_mem h d k w hl)

theorem lookupS_invPerm (perm : List (String × List (PVal α × PVal α))) (n : String) :
    lookupS n (invPerm perm) = (lookupS n perm).map invDict := by
  induction perm with
  | nil => rfl
  | cons e perm ih =>
    obtain ⟨k, d⟩ := e
    by_cases hk : k = n <;> simp [invPerm, lookupS, hk] <;> exact ih

/-- the values of the permuted parameters of `x` are keys of their dictionaries (feasible values) -/
def KeysIn (perm : List (String × List (PVal α × PVal α))) (x : Params α) : Prop :=
  ∀ kv ∈ x, ∀ d, lookupS kv.1 perm = some d → kv.2 ∈ d.map (·.1)

/-- every dictionary is one-to-one: no repeated key, no repeated value -/
def Injective (perm : List (String × List (PVal α × PVal α))) : Prop :=
  ∀ n d, lookupS n perm = some d → (d.map (·.1)).Nodup ∧ (d.map (·.2)).Nodup

theorem permute_left_inverse {ops : Ops α} (h : LawfulBeq ops) (perm : List (String × List (PVal α × PVal α)))
    (hinj : Injective perm) (x : Params α) (hx : KeysIn perm x) :
    permuteParams ops (invPerm perm) (permuteParams ops perm x) = x := by
  unfold permuteParams
  rw [List.map_map]
  conv => rhs; rw [← List.map_id x]
  apply List.map_congr_left
  intro kv hkv
  obtain ⟨n, v⟩ := kv
  simp only [Function.comp, id]
  cases hd : lookupS n perm with
  | none => simp [hd, lookupS_invPerm]
  | some d =>
    have hmem := hx (n, v) hkv d hd
    obtain ⟨⟨k, w⟩, hkw, hk⟩ := List.mem_map.mp hmem
    simp only at hk
    subst hk
    obtain ⟨hnk, hnv⟩ := hinj n d hd
    have h1 := lookupV_of_mem h d k w hnk hkw
    have h2 : lookupV ops w (invDict d) = some k := by
      apply lookupV_of_mem h
      · simpa [invDict, List.map_map, Function.comp_def] using hnv
      · exact List.mem_map.mpr ⟨(k, w), hkw, rfl⟩
    simp [hd, h1, lookupS_invPerm, h2]

theorem invDict_invDict (d : List (PVal α × PVal α)) : invDict (invDict d) = d := by
  simp [invDict, List.map_map, Function.comp_def]

theorem invPerm_invPerm (perm : List (String × List (PVal α × PVal α))) : invPerm (invPerm perm) = perm := by
  simp [invPerm, List.map_map, Function.comp_def, invDict_invDict]

theorem injective_invPerm {perm : List (String × List (PVal α × PVal α))} (hinj : Injective perm) :
    Injective (invPerm perm) := by
  intro n d hd
  rw [lookupS_invPerm] at hd
  cases hd' : lookupS n perm with
  | none => simp [hd'] at hd
  | some d0 =>
    simp only [hd', Option.map_some, Option.some.injEq] at hd
    subst hd
    obtain ⟨h1, h2⟩ := hinj n d0 hd'
    constructor
    · simpa [invDict, List.map_map, Function.comp_def] using h2
    · simpa [invDict, List.map_map, Function.comp_def] using h1

/-- the image of a feasible point is feasible for the inverse permutation -/
theorem permute_maps_keys {ops : Ops α} (h : LawfulBeq ops) (perm : List (String × List (PVal α × PVal α)))
    (hinj : Injective perm) (x : Params α) (hx : KeysIn perm x) :
    KeysIn (invPerm perm) (permuteParams ops perm x) := by
  intro kv hkv d hd
  unfold permuteParams at hkv
  obtain ⟨⟨n, v⟩, hnv, heq⟩ := List.mem_map.mp hkv
  rw [lookupS_invPerm] at hd
  cases hd0 : lookupS n perm with
  | none =>
    simp only [hd0] at heq
    subst heq
    simp [hd0] at hd
  | some d0 =>
    simp only [hd0] at heq
    subst heq
    simp only [hd0, Option.map_some, Option.some.injEq] at hd
    subst hd
    have hmem := hx (n, v) hnv d0 hd0
    obtain ⟨⟨k, w⟩, hkw, hk⟩ := List.mem_map.mp hmem
    simp only at hk
    subst hk
    have h1 := lookupV_of_mem h d0 k w (hinj n d0 hd0).1 hkw
    simp only [h1, Option.getD_some, invDict, List.map_map, Function.comp_def]
    exact List.mem_map.mpr ⟨(k, w), hkw, rfl⟩

end Perm

/-- integer operations, used for kernel-checked witnesses -/
def intOps : Ops Int :=
  { zero := 0, one := 1, add := (· + ·), sub := (· - ·), neg := fun x => -x, div := (· / ·),
    le := fun a b => decide (a ≤ b), beq := fun a b => a == b, ofNat := fun n => (n : Int) }

/-- a base with one objective `f` that marks every point infeasible (NaN-like junk value 0) -/
def infBase : Ex Int := .base { params := [], metrics := [("f", .minimize)] } (fun _ => .infeasible [("f", 0)])

/-! ### ordered-field arithmetic -/

section Field
variable {α : Type} [Field α] [LinearOrder α] [IsStrictOrderedRing α]

/-- the operations record of an ordered field -/
def fieldOps : Ops α :=
  { zero := 0, one := 1, add := (· + ·), sub := (· - ·), neg := fun x => -x, div := (· / ·),
    le := fun a b => decide (a ≤ b), beq := fun a b => decide (a = b), ofNat := fun n => (n : α) }

theorem fieldOps_lawful : LawfulBeq (fieldOps : Ops α) := by
  intro a b; simp [fieldOps]

theorem clip_of_mem (lo hi v : α) (h1 : lo ≤ v) (h2 : v ≤ hi) : clip fieldOps lo hi v = v := by
  unfold clip
  simp only [fieldOps, decide_eq_true_eq]
  split
  · rename_i h; exact le_antisymm h1 h
  · split
    · rename_i h; exact le_antisymm h h2
    · rfl

theorem clip_mem (lo hi v : α) (h : lo ≤ hi) : lo ≤ clip fieldOps lo hi v ∧ clip fieldOps lo hi v ≤ hi := by
  unfold clip
  simp only [fieldOps, decide_eq_true_eq]
  split
  · exact ⟨le_refl _, h⟩
  · split
    · exact ⟨h, le_refl _⟩
    · rename_i h1 h2
      exact ⟨le_of_lt (not_le.mp h1), le_of_lt (not_le.mp h2)⟩

/-- membership in a (restricted) DOUBLE domain -/
def inDom : Dom α → α → Prop
  | .double lo hi, v => lo ≤ v ∧ v ≤ hi
  | _, _ => True

/-- a point inside the restricted bounds, shifted back, lies inside the base bounds -/
theorem shift_in_base_bounds (lo hi s v : α) (h : inDom (restrictDom fieldOps s (.double lo hi)) v) :
    lo ≤ v - s ∧ v - s ≤ hi := by
  unfold restrictDom at h
  simp only [fieldOps, decide_eq_true_eq] at h
  by_cases hs : (0 : α) ≤ s
  · simp only [hs, if_true, inDom] at h
    constructor <;> linarith [h.1, h.2]
  · simp only [hs, if_false, inDom] at h
    have : s < 0 := not_le.mp hs
    constructor <;> linarith [h.1, h.2]

/-- every coordinate of `x` lies in the restricted bounds of the shifting wrapper -/
def InRestricted (bp : List (PSpec α)) (s : List α) (x : Params α) : Prop :=
  ∀ p ∈ bp.zip s, inDom (restrictDom fieldOps p.2 p.1.dom) (asNum fieldOps (lookupS p.1.name x))

theorem zipWith_congr_mem {β γ δ : Type} (f g : β → γ → δ) : ∀ (bs : List β) (cs : List γ),
    (∀ p ∈ bs.zip cs, f p.1 p.2 = g p.1 p.2) → List.zipWith f bs cs = List.zipWith g bs cs
  | [], _, _ => by simp
  | _ :: _, [], _ => by simp
  | b :: bs, c :: cs, h => by
    simp only [List.zipWith_cons_cons, List.cons.injEq]
    refine ⟨h (b, c) (by simp), zipWith_congr_mem f g bs cs (fun p hp => h p ?_)⟩
    simp only [List.zip_cons_cons, List.mem_cons]
    exact Or.inr hp

/-- … so the clipping of `should_restrict` never changes anything inside the restricted space -/
theorem offset_no_clipping (bp : List (PSpec α)) (s : List α) (x : Params α) (hx : InRestricted bp s x) :
    offset fieldOps bp s true x = offset fieldOps bp s false x := by
  unfold offset
  apply zipWith_congr_mem
  intro p hp
  have h := hx p hp
  simp only [if_true, Bool.false_eq_true, if_false, Prod.mk.injEq, true_and, PVal.num.injEq]
  cases hd : p.1.dom with
  | double lo hi =>
    rw [hd] at h
    have := shift_in_base_bounds lo hi p.2 _ h
    simp only [clipDom]
    exact clip_of_mem lo hi _ this.1 this.2
  | integer lo hi => rfl
  | discrete vs => rfl
  | categorical cs => rfl

theorem normVal_le_iff (mu sigma y1 y2 : α) (hs : 0 < sigma) :
    normVal fieldOps mu sigma y1 ≤ normVal fieldOps mu sigma y2 ↔ y1 ≤ y2 := by
  simp only [normVal, fieldOps]
  rw [div_le_div_iff_of_pos_right hs]
  constructor <;> intro h <;> linarith

theorem normVal_lt_iff (mu sigma y1 y2 : α) (hs : 0 < sigma) :
    normVal fieldOps mu sigma y1 < normVal fieldOps mu sigma y2 ↔ y1 < y2 := by
  simp only [normVal, fieldOps]
  rw [div_lt_div_iff_of_pos_right hs]
  constructor <;> intro h <;> linarith

theorem flipMetrics_flipMetrics (b : Bool) (orig : List String) (ms : Metrics α) :
    flipMetrics fieldOps b orig (flipMetrics fieldOps b orig ms) = ms := by
  unfold flipMetrics
  rw [List.map_map]
  conv => rhs; rw [← List.map_id ms]
  apply List.map_congr_left
  intro e _
  obtain ⟨n, v⟩ := e
  simp only [Function.comp, id]
  by_cases h : (b = false ∨ n ∈ orig)
  · simp [h, fieldOps]
  · simp [h]

end Field

end VizierModel.Exp
