/-
Lemmas for C11, part 1: lawful comparisons, row comparisons, domination, the naive
sweep, `is_pareto_optimal_against`, the jax routines and the rank functions.
-/
import VizierModel.Model.Pareto
namespace VizierModel.Pareto

variable {β : Type}

theorem any_congr_mem {γ : Type} (f g : γ → Bool) (l : List γ) (hfg : ∀ a ∈ l, f a = g a) :
    l.any f = l.any g := by
  induction l with
  | nil => rfl
  | cons a as ih =>
    simp only [List.any_cons]
    rw [hfg a (List.mem_cons_self ..), ih (fun x hx => hfg x (List.mem_cons_of_mem _ hx))]

/-- a strict total order given as a Boolean relation -/
structure StrictTotal {α : Type} (lt : α → α → Bool) : Prop where
  irrefl : ∀ a, lt a a = false
  trans : ∀ a b c, lt a b = true → lt b c = true → lt a c = true
  tri : ∀ a b, lt a b = false → lt b a = false → a = b

/-- the comparisons behave like those of a strict total order -/
structure Cmp.Lawful (c : Cmp β) : Prop where
  irrefl : ∀ a, c.gt a a = false
  trans : ∀ a b d, c.gt a b = true → c.gt b d = true → c.gt a d = true
  tri : ∀ a b, c.gt a b = false → c.gt b a = false → a = b
  le_def : ∀ a b, c.le a b = !c.gt a b
  eq_def : ∀ a b, c.eq a b = true ↔ a = b

theorem Cmp.ofLt_lawful {α : Type} [DecidableEq α] {lt : α → α → Bool} (h : StrictTotal lt) :
    (Cmp.ofLt lt).Lawful where
  irrefl a := h.irrefl a
  trans a b d h1 h2 := h.trans d b a h2 h1
  tri a b h1 h2 := h.tri a b h2 h1
  le_def a b := rfl
  eq_def a b := by simp [Cmp.ofLt]

namespace Cmp.Lawful
variable {c : Cmp β} (h : c.Lawful)
include h

theorem le_iff (a b : β) : c.le a b = true ↔ c.gt a b = false := by
  rw [h.le_def]; cases c.gt a b <;> simp

theorem le_refl (a : β) : c.le a a = true := by rw [h.le_iff]; exact h.irrefl a

theorem gt_asymm (a b : β) (h1 : c.gt a b = true) : c.gt b a = false := by
  cases h2 : c.gt b a
  · rfl
  · have := h.trans a b a h1 h2
    rw [h.irrefl] at this; cases this

/-- `b ≥ a > d → b > d` -/
theorem gt_of_le_of_gt (a b d : β) (h1 : c.le a b = true) (h2 : c.gt a d = true) : c.gt b d = true := by
  rw [h.le_iff] at h1
  cases h3 : c.gt b a
  · have := h.tri a b h1 h3; subst this; exact h2
  · exact h.trans b a d h3 h2

/-- `a > b ≥ d → a > d` -/
theorem gt_of_gt_of_le (a b d : β) (h1 : c.gt a b = true) (h2 : c.le d b = true) : c.gt a d = true := by
  rw [h.le_iff] at h2
  cases h3 : c.gt b d
  · have := h.tri d b h2 h3; subst this; exact h1
  · exact h.trans a b d h1 h3

theorem le_trans (a b d : β) (h1 : c.le a b = true) (h2 : c.le b d = true) : c.le a d = true := by
  rw [h.le_iff]
  cases h3 : c.gt a d
  · rfl
  · have := h.gt_of_le_of_gt a b d h1 h3
    rw [h.le_iff] at h2; rw [h2] at this; cases this

theorem le_antisymm (a b : β) (h1 : c.le a b = true) (h2 : c.le b a = true) : a = b := by
  rw [h.le_iff] at h1 h2
  exact h.tri a b h1 h2

theorem eq_iff_le_le (a b : β) : c.eq a b = (c.le a b && c.le b a) := by
  apply Bool.eq_iff_iff.mpr
  rw [h.eq_def, Bool.and_eq_true]
  constructor
  · rintro rfl; exact ⟨h.le_refl a, h.le_refl a⟩
  · rintro ⟨h1, h2⟩; exact h.le_antisymm a b h1 h2

/-! ### rows -/

theorem anyGt_eq_not_allLe (p q : List β) : anyGt c p q = !allLe c p q := by
  induction p generalizing q with
  | nil => simp [anyGt, allLe]
  | cons a as ih =>
    cases q with
    | nil => simp [anyGt, allLe]
    | cons b bs => simp [anyGt, allLe, ih, h.le_def]

theorem allEq_eq (p q : List β) : allEq c p q = (allLe c p q && allLe c q p) := by
  induction p generalizing q with
  | nil => cases q <;> simp [allEq, allLe]
  | cons a as ih =>
    cases q with
    | nil => simp [allEq, allLe]
    | cons b bs =>
      simp only [allEq, allLe, ih, h.eq_iff_le_le]
      cases c.le a b <;> cases c.le b a <;> simp

theorem allLe_refl (p : List β) : allLe c p p = true := by
  induction p with
  | nil => rfl
  | cons a as ih => simp [allLe, ih, h.le_refl]

theorem allLe_trans (p q r : List β) (h1 : p.length = q.length) (h2 : q.length = r.length)
    (a1 : allLe c p q = true) (a2 : allLe c q r = true) : allLe c p r = true := by
  induction p generalizing q r with
  | nil => cases r <;> simp [allLe]
  | cons a as ih =>
    cases q with
    | nil => simp at h1
    | cons b bs =>
      cases r with
      | nil => simp at h2
      | cons d ds =>
        simp only [allLe, Bool.and_eq_true, List.length_cons, Nat.add_right_cancel_iff] at *
        exact ⟨h.le_trans a b d a1.1 a2.1, ih bs ds h1 h2 a1.2 a2.2⟩

/-- `∃ i, q_i > p_i` and `r ≥ q` give `∃ i, r_i > p_i` -/
theorem anyGt_of_anyGt_allLe (p q r : List β) (h1 : p.length = q.length) (h2 : q.length = r.length)
    (a1 : anyGt c q p = true) (a2 : allLe c q r = true) : anyGt c r p = true := by
  induction p generalizing q r with
  | nil => cases q <;> simp [anyGt] at a1
  | cons a as ih =>
    cases q with
    | nil => simp at h1
    | cons b bs =>
      cases r with
      | nil => simp at h2
      | cons d ds =>
        simp only [anyGt, allLe, Bool.and_eq_true, Bool.or_eq_true, List.length_cons,
          Nat.add_right_cancel_iff] at *
        rcases a1 with g | g
        · exact Or.inl (h.gt_of_le_of_gt b d a a2.1 g)
        · exact Or.inr (ih bs ds h1 h2 g a2.2)

/-- `∃ i, r_i > q_i` and `q ≥ p` give `∃ i, r_i > p_i` -/
theorem anyGt_of_allLe_anyGt (p q r : List β) (h1 : p.length = q.length) (h2 : q.length = r.length)
    (a1 : allLe c p q = true) (a2 : anyGt c r q = true) : anyGt c r p = true := by
  induction p generalizing q r with
  | nil => cases q <;> cases r <;> simp [anyGt] at a2 h1 h2
  | cons a as ih =>
    cases q with
    | nil => simp at h1
    | cons b bs =>
      cases r with
      | nil => simp at h2
      | cons d ds =>
        simp only [anyGt, allLe, Bool.and_eq_true, Bool.or_eq_true, List.length_cons,
          Nat.add_right_cancel_iff] at *
        rcases a2 with g | g
        · exact Or.inl (h.gt_of_gt_of_le d b a g a1.1)
        · exact Or.inr (ih bs ds h1 h2 a1.2 g)

theorem dominates_trans (p q r : List β) (h1 : p.length = q.length) (h2 : q.length = r.length)
    (d1 : dominates c r q = true) (d2 : dominates c q p = true) : dominates c r p = true := by
  simp only [dominates, Bool.and_eq_true] at *
  exact ⟨h.allLe_trans p q r h1 h2 d2.1 d1.1, h.anyGt_of_anyGt_allLe p q r h1 h2 d2.2 d1.1⟩

/-- what the naive sweep keeps: `any(pk > pt) | all(pk == pt)` is "pt does not dominate pk" -/
theorem keep_eq (pk pt : List β) : (anyGt c pk pt || allEq c pk pt) = !dominates c pt pk := by
  rw [h.allEq_eq, dominates, h.anyGt_eq_not_allLe pk pt, h.anyGt_eq_not_allLe pt pk]
  cases allLe c pk pt <;> cases allLe c pt pk <;> rfl

theorem dominates_irrefl (p : List β) : dominates c p p = false := by
  rw [dominates, h.anyGt_eq_not_allLe, h.allLe_refl]; rfl

end Cmp.Lawful

/-- all rows have dimension `d` (numpy arrays are rectangular) -/
def Rect (d : Nat) (ps : List (List β)) : Prop := ∀ p ∈ ps, p.length = d

end VizierModel.Pareto
