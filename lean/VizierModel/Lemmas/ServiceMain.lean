import VizierModel.Lemmas.ServiceKeys
namespace VizierModel.Svc

/-- the conclusion of the per-step theorem -/
def StepOK (db db' : DB) : Prop :=
  Inv db' ∧ ∀ st ∈ db.studies, ∀ st' ∈ db'.studies, keyOf st = keyOf st' → TrialsOK st.trials st'.trials

theorem StepOK.refl {db : DB} (hi : Inv db) : StepOK db db :=
  ⟨hi, fun st hst st' hst' hkk => by rw [key_unique hi hst hst' hkk]; exact TrialsOK.refl (hi.ids _ hst')⟩

theorem onStudy_readonly {db : DB} (hi : Inv db) (o s : String) (guard : Bool) (f : Study → Resp × Study)
    (hf : ∀ st, (f st).2 = st) : StepOK db (onStudy db o s guard f).2 :=
  onStudy_ok hi o s guard f (fun st => by rw [hf st]) (fun st hn => by rw [hf st]; exact TrialsOK.refl hn)

theorem step_ok (cfg : Cfg) (db : DB) (r : Req) (hi : Inv db) : StepOK db (step cfg db r).2 := by
  cases r with
  | createStudy owner display nameSet state spec md =>
    simp only [step]
    split
    · exact StepOK.refl hi
    · split
      · exact StepOK.refl hi
      · split
        · exact StepOK.refl hi
        · rename_i hnone
          have hfresh : ∀ x ∈ db.studies, keyOf x ≠ (owner, display) := by
            intro x hx e
            have := List.find?_eq_none.mp hnone x hx
            simp only [keyOf, Prod.mk.injEq] at e
            simp [e.1, e.2] at this
          refine ⟨⟨?_, ?_⟩, ?_⟩
          · simp only [List.map_append, List.map_cons, List.map_nil]
            rw [List.nodup_append]
            refine ⟨hi.keys, by simp, ?_⟩
            intro a ha b hb
            obtain ⟨x, hx, rfl⟩ := List.mem_map.mp ha
            simp only [List.mem_singleton] at hb
            subst hb
            exact hfresh x hx
          · intro st hst
            rcases List.mem_append.mp hst with h | h
            · exact hi.ids _ h
            · simp only [List.mem_singleton] at h; subst h; simp [Nodup']
          · intro st hst st' hst' hkk
            rcases List.mem_append.mp hst' with h | h
            · rw [key_unique hi hst h hkk]; exact TrialsOK.refl (hi.ids _ h)
            · simp only [List.mem_singleton] at h; subst h
              exact absurd hkk (hfresh st hst)
  | getStudy o s => exact onStudy_readonly hi o s false _ (fun _ => rfl)
  | listStudies o =>
    simp only [step]; split <;> exact StepOK.refl hi
  | deleteStudy o s =>
    simp only [step]
    split
    · exact StepOK.refl hi
    · have hsub : ∀ x ∈ db.studies.filter (fun x => !isStudy o s x), x ∈ db.studies := fun x hx => (List.mem_filter.mp hx).1
      refine ⟨⟨?_, ?_⟩, ?_⟩
      · exact List.Nodup.sublist (List.Sublist.map _ List.filter_sublist) hi.keys
      · intro st hst; exact hi.ids _ (hsub st hst)
      · intro st hst st' hst' hkk
        rw [key_unique hi hst (hsub st' hst') hkk]; exact TrialsOK.refl (hi.ids _ (hsub st' hst'))
  | setStudyState o s stt =>
    exact onStudy_ok hi o s false _ (fun _ => rfl) (fun st hn => TrialsOK.refl hn)
  | createTrial o s t => exact onStudy_ok hi o s true _ (keeps_createTrial _ t) (fun st hn => createTrialBody_ok _ st t hn)
  | suggest o s client count alg =>
    exact onStudy_ok hi o s true _ (keeps_suggest cfg client count alg) (fun st hn => suggestBody_ok cfg st client count alg hn)
  | getOperation o s client num =>
    simp only [step]
    split
    · split <;> exact StepOK.refl hi
    · apply onStudy_readonly hi
      intro st; split <;> rfl
  | getTrial o s id =>
    apply onStudy_readonly hi; intro st; split <;> rfl
  | listTrials o s => exact onStudy_readonly hi o s false _ (fun _ => rfl)
  | addMeasurement o s id m => exact onStudy_ok hi o s true _ (keeps_addMeasurement id m) (fun st hn => addMeasurementBody_ok st id m hn)
  | complete o s id final inf reason =>
    exact onStudy_ok hi o s true _ (keeps_complete id final inf reason) (fun st hn => completeBody_ok st id final inf reason hn)
  | stop o s id => exact onStudy_ok hi o s true _ (keeps_stop id) (fun st hn => stopBody_ok st id hn)
  | deleteTrial o s id => exact onStudy_ok hi o s true _ (keeps_deleteTrial id) (fun st hn => deleteTrialBody_ok st id hn)
  | checkEarlyStop o s id es =>
    exact onStudy_ok hi o s true _ (keeps_earlyStop cfg id es) (fun st hn => earlyStopBody_ok cfg st id es hn)
  | updateMetadata o s us =>
    apply onStudy_ok hi o s true
    · intro st; simp
    · intro st hn; exact updateMetadata_ok cfg st us hn
  | listOptimal o s => exact onStudy_readonly hi o s false _ (fun _ => rfl)

theorem run_inv (cfg : Cfg) (db : DB) (h : List Req) (hi : Inv db) : Inv (run cfg db h) := by
  induction h generalizing db with
  | nil => exact hi
  | cons r rs ih => exact ih _ (step_ok cfg db r hi).1

end VizierModel.Svc
