/-
C09 lemmas: measurement, trial, suggestion.
-/
import VizierModel.Lemmas.WireMeas

namespace VizierModel.Wire

/-! ### measurement -/

structure MeasWF (m : Meas) : Prop where
  names_nodup : (m.metrics.map Prod.fst).Nodup
  whole_nanos : WholeNanos m.elapsedSecs

/-- valid, and in the class variant `cfg` transmits (a reader that ignores the nanos is only right
for whole seconds) -/
structure MeasOk (cfg : Cfg) (m : Meas) : Prop where
  wf : MeasWF m
  nanos : cfg.readNanos = true ∨ WholeSecs m.elapsedSecs

theorem meas_roundtrip (cfg : Cfg) (m : Meas) (h : MeasOk cfg m) :
    measFromProto cfg (measToProto m) = measNorm m := by
  obtain ⟨metrics, el, steps, cp⟩ := m
  simp only [measFromProto, measToProto, measNorm, Meas.mk.injEq, and_true, Option.getD_some]
  refine ⟨metrics_roundtrip metrics h.wf.names_nodup, ?_⟩
  by_cases hr : cfg.readNanos = true
  · simp only [hr, if_true]
    exact elapsed_roundtrip el h.wf.whole_nanos
  · simp only [hr, Bool.false_eq_true, if_false]
    rcases h.nanos with h' | h'
    · exact absurd h' hr
    · exact elapsed_secs_only el h'

theorem measToProto_measNorm (m : Meas) : measToProto (measNorm m) = measToProto m := by
  simp [measToProto, measNorm, List.map_map, Function.comp_def]

theorem meas_option_roundtrip (cfg : Cfg) (o : Option Meas) (h : ∀ m, o = some m → MeasOk cfg m) :
    (o.map measToProto).map (measFromProto cfg) = o.map measNorm := by
  cases o with
  | none => rfl
  | some m => simp [meas_roundtrip cfg m (h m rfl)]

theorem meas_list_roundtrip (cfg : Cfg) (l : List Meas) (h : ∀ m ∈ l, MeasOk cfg m) :
    (l.map measToProto).map (measFromProto cfg) = l.map measNorm := by
  rw [List.map_map]
  apply List.map_congr_left
  intro m hm
  exact meas_roundtrip cfg m (h m hm)

/-! ### trial -/

structure TrialOk (cfg : Cfg) (t : Trial) : Prop where
  params_nodup : (t.params.map Prod.fst).Nodup
  metadata : MdWF t.metadata
  final : ∀ m, t.final = some m → MeasOk cfg m
  measurements : ∀ m ∈ t.measurements, MeasOk cfg m
  /-- `Trial.__attrs_post_init__`: a completed trial constructed without completion time has its
  creation time as completion time -/
  post_init : (t.final.isSome || t.infeasibilityReason.getD "" != "") = true →
    t.completionTime = none → t.creationTime = none
  /-- only a completed trial has a completion time -/
  pending_no_time : t.status ≠ .completed → t.completionTime = none
  /-- a reader that skips `end_time` of an INFEASIBLE trial is only right when the completion time
  is the one `__attrs_post_init__` would fill in -/
  infeasible_time : cfg.infeasibleEndTime = true ∨ (t.infeasible = true →
    t.completionTime =
      if (t.final.isSome || t.infeasibilityReason.getD "" != "") = true then t.creationTime else none)

theorem option_map_fromTs_toTs (o : Option Nat) : (o.map toTs).map fromTs = o := by
  cases o <;> simp [fromTs_toTs]

theorem trial_roundtrip (cfg : Cfg) (t : Trial) (h : TrialOk cfg t) :
    trialFromProto cfg (trialToProto t) = trialNorm t := by
  obtain ⟨hp, hmd, hf, hms, hpost, hpend, hinf⟩ := h
  obtain ⟨id, desc, req, worker, stop, reason, links, params, final, meass, creation, completion, md⟩ := t
  simp only at hp hmd hf hms hpost hpend hinf
  simp only [trialFromProto, trialToProto, trialNorm, Trial.mk.injEq]
  simp only [paramsFromProto_paramsToProto params hp, mdFromProto_mdToProto md hmd,
    meas_option_roundtrip cfg final hf, meas_list_roundtrip cfg meass hms, option_map_fromTs_toTs]
  refine ⟨trivial, trivial, ?_, ?_, ?_, ?_, trivial, trivial, trivial, trivial, trivial, ?_, trivial⟩
  · -- is_requested
    cases final <;> cases reason <;> cases stop <;> cases req <;>
      simp [Trial.status, Trial.infeasible, stateOf]
  · -- assigned_worker
    cases worker with
    | none => simp
    | some w => by_cases hw : w = "" <;> simp [hw]
  · -- stopping_reason
    cases final <;> cases reason <;> cases stop <;> cases req <;>
      simp [Trial.status, Trial.infeasible, stateOf]
  · -- infeasibility_reason
    cases final <;> cases reason <;> cases stop <;> cases req <;>
      simp [Trial.status, Trial.infeasible, stateOf]
  · -- completion_time
    cases final with
    | some m =>
      cases reason with
      | none =>
        cases completion with
        | some c => simp [Trial.status, Trial.infeasible, stateOf]
        | none =>
          have := hpost (by simp) rfl
          simp [Trial.status, Trial.infeasible, stateOf, this]
      | some r =>
        cases completion with
        | some c =>
          rcases hinf with hi | hi
          · simp [Trial.status, Trial.infeasible, stateOf, hi]
          · have := hi (by simp [Trial.infeasible])
            simp at this
            simp [Trial.status, Trial.infeasible, stateOf, this]
            rw [← this]; cases cfg.infeasibleEndTime <;> simp
        | none =>
          have := hpost (by simp) rfl
          simp [Trial.status, Trial.infeasible, stateOf, this]
    | none =>
      cases reason with
      | none =>
        have := hpend (by cases stop <;> cases req <;> simp [Trial.status, Trial.infeasible])
        cases stop <;> cases req <;> simp [Trial.status, Trial.infeasible, stateOf, this]
      | some r =>
        cases completion with
        | some c =>
          rcases hinf with hi | hi
          · simp [Trial.status, Trial.infeasible, stateOf, hi]
          · have := hi (by simp [Trial.infeasible])
            simp at this
            simp [Trial.status, Trial.infeasible, stateOf, this]
            rw [← this.2]; cases cfg.infeasibleEndTime <;> simp
        | none =>
          by_cases hr : r = ""
          · simp [Trial.status, Trial.infeasible, stateOf, hr]
          · have := hpost (by simp [hr]) rfl
            simp [Trial.status, Trial.infeasible, stateOf, this]

/-- the wire form of a trial only depends on its normal form -/
theorem trialToProto_trialNorm (t : Trial) : trialToProto (trialNorm t) = trialToProto t := by
  obtain ⟨id, desc, req, worker, stop, reason, links, params, final, meass, creation, completion, md⟩ := t
  simp only [trialToProto, trialNorm, PTrial.mk.injEq, paramsToProto_paramsNorm, mdToProto_mdNorm]
  refine ⟨by cases desc <;> rfl, trivial, ?_, trivial, ?_, ?_, trivial, trivial, ?_, trivial, trivial⟩
  · cases final <;> cases reason <;> cases stop <;> cases req <;>
      simp [Trial.status, Trial.infeasible, stateOf]
  · cases final <;> simp [measToProto_measNorm]
  · simp [List.map_map, Function.comp_def, measToProto_measNorm]
  · cases worker with
    | none => rfl
    | some w => by_cases hw : w = "" <;> simp [hw]

/-! ### suggestion -/

structure SuggestionWF (s : Suggestion) : Prop where
  params_nodup : (s.params.map Prod.fst).Nodup
  metadata : MdWF s.metadata

theorem suggestion_roundtrip (s : Suggestion) (h : SuggestionWF s) :
    suggestionFromProto (suggestionToProto s) = suggestionNorm s := by
  simp [suggestionFromProto, suggestionToProto, suggestionNorm,
    paramsFromProto_paramsToProto s.params h.params_nodup, mdFromProto_mdToProto s.metadata h.metadata]

theorem suggestionToProto_suggestionNorm (s : Suggestion) :
    suggestionToProto (suggestionNorm s) = suggestionToProto s := by
  simp [suggestionToProto, suggestionNorm, paramsToProto_paramsNorm, mdToProto_mdNorm]

/-! ### metric information -/

/-- `desired_min_safe_trials_fraction` only exists on a safety metric -/
def MetricWF (m : MetricInfo) : Prop := m.safetyThreshold = none → m.desiredMinSafeFraction = none

theorem metric_roundtrip (m : MetricInfo) (h : MetricWF m) : metricFromProto (metricToProto m) = m := by
  obtain ⟨name, goal, thr, frac⟩ := m
  cases goal <;> cases thr <;> simp_all [metricFromProto, metricToProto, MetricWF]

theorem metric_list_roundtrip (ms : List MetricInfo) (h : ∀ m ∈ ms, MetricWF m) :
    (ms.map metricToProto).map metricFromProto = ms := by
  rw [List.map_map]
  conv => rhs; rw [← List.map_id ms]
  apply List.map_congr_left
  intro m hm
  exact metric_roundtrip m (h m hm)

end VizierModel.Wire
