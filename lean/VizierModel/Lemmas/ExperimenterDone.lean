/-
C20 helper lemmas, part 3: every trial of the batch comes back completed with exactly the
metric names `outNames e` (= the problem's metric names, plus the documented `_before_noise`
copies under a noise wrapper) or infeasible — second induction over the wrapper stack.
-/
import VizierModel.Lemmas.ExperimenterStep

set_option linter.unusedSimpArgs false
set_option linter.unusedVariables false

namespace VizierModel.Exp

variable {α : Type}

/-! ### names of metric dicts -/

@[simp] theorem names_nil {β : Type} : names ([] : List (String × β)) = [] := rfl
@[simp] theorem names_cons {β : Type} (e : String × β) (l : List (String × β)) :
    names (e :: l) = e.1 :: names l := rfl
@[simp] theorem names_append {β : Type} (l l' : List (String × β)) :
    names (l ++ l') = names l ++ names l' := by simp [names]

theorem names_map_val {β γ : Type} (l : List (String × β)) (g : String × β → γ) :
    names (l.map (fun e => (e.1, g e))) = names l := by
  induction l with
  | nil => rfl
  | cons e l ih => simp [ih]

theorem lookupS_of_mem {β : Type} (k : String) : ∀ (l : List (String × β)), k ∈ names l →
    ∃ v, lookupS k l = some v
  | [], h => by simp at h
  | (k', v) :: l, h => by
    by_cases hk : k' = k
    · exact ⟨v, by simp [lookupS, hk]⟩
    · have : k ∈ names l := by
        simp only [names_cons, List.mem_cons] at h
        rcases h with h | h
        · exact absurd h.symm hk
        · exact h
      obtain ⟨w, hw⟩ := lookupS_of_mem k l this
      exact ⟨w, by simp [lookupS, hk, hw]⟩

theorem names_map_same {β : Type} (g : String × β → String × β) (hg : ∀ e, (g e).1 = e.1) :
    ∀ l : List (String × β), names (l.map g) = names l
  | [] => rfl
  | e :: l => by simp [hg e, names_map_same g hg l]

theorem names_insert (ms : Metrics α) (k : String) (v : α) :
    names (ms.insert k v) = insName (names ms) k := by
  unfold Metrics.insert insName
  by_cases h : (names ms).contains k = true
  · rw [if_pos h, if_pos h]
    refine names_map_same _ (fun e => ?_) ms
    by_cases he : e.1 = k
    · simp [he]
    · simp [he]
  · rw [if_neg h, if_neg h]; simp

theorem mem_insName_of_mem {n : String} {l : List String} (k : String) (h : n ∈ l) : n ∈ insName l k := by
  unfold insName
  split
  · exact h
  · exact List.mem_append_left _ h

theorem mem_insName_self (l : List String) (k : String) : k ∈ insName l k := by
  unfold insName
  split
  · rename_i h; simpa using h
  · simp

theorem noisyNames_eq (noise : Nat → α → α) : ∀ (ms : Metrics α) (k : Nat) (acc : Metrics α),
    names (noiseMetrics noise k ms acc).1 = noisyNames (names ms) (names acc)
  | [], _, _ => rfl
  | (n, v) :: rest, k, acc => by
    simp only [noiseMetrics, names_cons, noisyNames]
    rw [noisyNames_eq noise rest (k + 1)]
    simp only [names_insert]

theorem mem_noisyNames_acc (n : String) : ∀ (l acc : List String), n ∈ acc → n ∈ noisyNames l acc
  | [], _, h => h
  | m :: l, acc, h => by
    simp only [noisyNames]
    exact mem_noisyNames_acc n l _ (mem_insName_of_mem _ (mem_insName_of_mem _ h))

theorem mem_noisyNames (n : String) : ∀ (l acc : List String), n ∈ l → n ∈ noisyNames l acc
  | [], _, h => by simp at h
  | m :: l, acc, h => by
    simp only [List.mem_cons] at h
    simp only [noisyNames]
    rcases h with h | h
    · subst h
      exact mem_noisyNames_acc n l _ (mem_insName_of_mem _ (mem_insName_self _ _))
    · exact mem_noisyNames n l _ h

/-! ### the metric names of the problem are among the names a completed trial carries -/

theorem multiMetrics_names (ops : Ops α) : ∀ kids : ExList α, names (multiMetrics ops kids) = kidNames kids
  | .nil => rfl
  | .cons _ _ rest => by simp [multiMetrics, kidNames, multiMetrics_names ops rest]

theorem problem_metrics_shift (ops : Ops α) (s : List α) (r : Bool) (e : Ex α) :
    (problem ops (.shift s r e)).metrics = (problem ops e).metrics := by
  cases r <;> simp [problem]

theorem metricNames_sub_outNames (ops : Ops α) : ∀ (e : Ex α) (n : String),
    n ∈ (problem ops e).metricNames → n ∈ outNames ops e
  | .base _ _, n, h => h
  | .shift s r e, n, h => by
    simp only [Problem.metricNames, problem_metrics_shift] at h
    exact metricNames_sub_outNames ops e n h
  | .signFlip _ e, n, h => by
    simp only [Problem.metricNames, problem] at h
    rw [names_map_val (problem ops e).metrics (fun m => m.2.flip)] at h
    exact metricNames_sub_outNames ops e n h
  | .permute _ e, n, h => metricNames_sub_outNames ops e n h
  | .discretize _ _ e, n, h => metricNames_sub_outNames ops e n h
  | .hypercube _ _ _ e, n, h => metricNames_sub_outNames ops e n h
  | .normalize _ _ e, n, h => metricNames_sub_outNames ops e n h
  | .noisy _ e, n, h => by
    simp only [outNames]
    exact mem_noisyNames n _ _ (metricNames_sub_outNames ops e n h)
  | .sparse _ _ e, n, h => metricNames_sub_outNames ops e n h
  | .switch _ metric _ _ _, n, h => by simpa [Problem.metricNames, problem, outNames] using h
  | .infeasibleIf _ _ e, n, h => metricNames_sub_outNames ops e n h
  | .multi _ kids, n, h => by
    simpa [Problem.metricNames, problem, outNames, multiMetrics_names] using h

theorem objName_mem (ops : Ops α) (e : Ex α) (h : (problem ops e).metrics ≠ []) :
    objName ops e ∈ outNames ops e := by
  apply metricNames_sub_outNames
  unfold objName Problem.metricNames
  cases hm : (problem ops e).metrics with
  | nil => exact absurd hm h
  | cons m ms => simp

/-! ### well-formed stacks, admissible points -/

mutual
/-- base objectives answer with exactly their problem's metric names; the infeasibility-keeping
variants of hyper-cube / switch / multi-objective; children of switch / multi-objective nodes
have an objective; the keys of a multi-objective dict are distinct -/
def WF (ops : Ops α) : Ex α → Prop
  | .base p f => ∀ x ms, f x = .metrics ms → names ms = p.metricNames
  | .shift _ _ e => WF ops e
  | .signFlip _ e => WF ops e
  | .permute _ e => WF ops e
  | .discretize _ _ e => WF ops e
  | .hypercube keep _ _ e => keep = true ∧ WF ops e
  | .normalize _ _ e => WF ops e
  | .noisy _ e => WF ops e
  | .sparse _ _ e => WF ops e
  | .switch _ _ _ keep kids => keep = true ∧ WFKids ops kids
  | .infeasibleIf _ _ e => WF ops e
  | .multi keep kids => keep = true ∧ WFKids ops kids ∧ (kidNames kids).Nodup
def WFKids (ops : Ops α) : ExList α → Prop
  | .nil => True
  | .cons _ e rest => WF ops e ∧ (problem ops e).metrics ≠ [] ∧ WFKids ops rest
end

mutual
/-- the switch parameters met on the way down select existing children (the point lies in
the conditional search space) -/
def Adm (ops : Ops α) : Ex α → Params α → Prop
  | .base _ _, _ => True
  | .shift s r e, x => Adm ops e (offset ops (problem ops e).params s r x)
  | .signFlip _ e, x => Adm ops e x
  | .permute perm e, x => Adm ops e (permuteParams ops perm x)
  | .discretize disc parse e, x => Adm ops e (undiscretize disc parse x)
  | .hypercube _ dim dec e, x => Adm ops e (dec (hfeatures ops dim x))
  | .normalize _ _ e, x => Adm ops e x
  | .noisy _ e, x => Adm ops e x
  | .sparse pre _ e, x => Adm ops e (dropSparse pre x)
  | .switch sw _ toIdx _ kids, x => AdmAt ops kids (toIdx (lookupS sw x)) x
  | .infeasibleIf isInf _ e, x => isInf x = false → Adm ops e x
  | .multi _ kids, x => AdmAll ops kids x
def AdmAt (ops : Ops α) : ExList α → Nat → Params α → Prop
  | .nil, _, _ => False
  | .cons _ e _, 0, x => Adm ops e x
  | .cons _ _ rest, i + 1, x => AdmAt ops rest i x
def AdmAll (ops : Ops α) : ExList α → Params α → Prop
  | .nil, _ => True
  | .cons _ e rest, x => Adm ops e x ∧ AdmAll ops rest x
end

theorem admAt_kidAt (ops : Ops α) : ∀ (kids : ExList α) (i : Nat) (x : Params α),
    AdmAt ops kids i x → ∃ e, kidAt kids i = some e ∧ Adm ops e x
  | .nil, _, _, h => by simp [AdmAt] at h
  | .cons _ e _, 0, x, h => ⟨e, rfl, h⟩
  | .cons _ _ rest, i + 1, x, h => admAt_kidAt ops rest i x h

/-! ### completed trials -/

/-- completed with exactly the names `ns`, or infeasible -/
def Done (ns : List String) (t : Trial α) : Prop :=
  ∃ ms, t.final = some ms ∧ (t.infeasible = false → names ms = ns)

theorem Done.setParams {ns : List String} {u : Trial α} (p : Params α) (h : Done ns u) :
    Done ns { u with params := p } := h

theorem Done.onFinal {ns : List String} {u : Trial α} (g : Metrics α → Metrics α)
    (hg : ∀ ms, names (g ms) = names ms) (h : Done ns u) : Done ns (onFinal g u) := by
  obtain ⟨ms, hf, hn⟩ := h
  refine ⟨g ms, by simp [hf], fun hi => ?_⟩
  rw [hg]; exact hn (by simpa using hi)

theorem names_flipMetrics (ops : Ops α) (b : Bool) (orig : List String) (ms : Metrics α) :
    names (flipMetrics ops b orig ms) = names ms := by
  unfold flipMetrics
  refine names_map_same _ (fun e => ?_) ms
  split <;> rfl

theorem names_normMetrics (ops : Ops α) (mu sigma : List (String × α)) (ms : Metrics α) :
    names (normMetrics ops mu sigma ms) = names ms := by
  unfold normMetrics
  exact names_map_val ms _

theorem Done.noiseTrial {ns : List String} {u : Trial α} (noise : Nat → α → α) (k : Nat)
    (h : Done ns u) : Done (noisyNames ns []) (noiseTrial noise k u).1 := by
  obtain ⟨ms, hf, hn⟩ := h
  unfold Exp.noiseTrial
  simp only [hf]
  refine ⟨_, rfl, fun hi => ?_⟩
  rw [noisyNames_eq, hn hi]; rfl

/-! ### more pointwise plumbing -/

theorem Pw_map_of {β γ δ : Type} {R : β → γ → Prop} {S : β → δ → Prop} (h : γ → δ)
    (hRS : ∀ b c, R b c → S b (h c)) : ∀ {bs : List β} {cs : List γ}, Pw R bs cs → Pw S bs (cs.map h)
  | [], [], _ => trivial
  | _ :: _, _ :: _, hp => ⟨hRS _ _ hp.1, Pw_map_of h hRS hp.2⟩
  | [], _ :: _, hp => by simp at hp
  | _ :: _, [], hp => by simp at hp

theorem Pw_mapSt_of {σ β γ : Type} {R : β → γ → Prop} {S : β → γ → Prop} (f : σ → γ → γ × σ)
    (hRS : ∀ s b c, R b c → S b (f s c).1) : ∀ (s : σ) {bs : List β} {cs : List γ},
      Pw R bs cs → Pw S bs (mapSt f s cs).1
  | _, [], [], _ => trivial
  | s, _ :: _, _ :: _, hp => ⟨hRS s _ _ hp.1, Pw_mapSt_of f hRS _ hp.2⟩
  | _, [], _ :: _, hp => by simp at hp
  | _, _ :: _, [], hp => by simp at hp

/-- `zipUpd f ts r` where `r` is pointwise related to a transform of `ts` -/
theorem Pw_zipUpd_of {β γ : Type} {R : β → γ → Prop} {S : β → β → Prop} (g : β → β) (f : β → γ → β)
    (hRS : ∀ t o, R (g t) o → S t (f t o)) : ∀ (ts : List β) (r : List γ),
      Pw R (ts.map g) r → Pw S ts (zipUpd f ts r)
  | [], [], _ => trivial
  | t :: ts, o :: r, hp => ⟨hRS t o hp.1, Pw_zipUpd_of g f hRS ts r hp.2⟩
  | [], _ :: _, hp => by simp at hp
  | _ :: _, [], hp => by simp at hp

theorem Pw.and {β γ : Type} {R S : β → γ → Prop} : ∀ {bs : List β} {cs : List γ},
    Pw R bs cs → Pw S bs cs → Pw (fun b c => R b c ∧ S b c) bs cs
  | [], [], _, _ => trivial
  | _ :: _, _ :: _, h1, h2 => ⟨⟨h1.1, h2.1⟩, Pw.and h1.2 h2.2⟩
  | [], _ :: _, h1, _ => by simp at h1
  | _ :: _, [], h1, _ => by simp at h1

/-- what "completes all" means for one stacking: pointwise over every batch and state -/
def Good (ops : Ops α) (e : Ex α) : Prop :=
  ∀ (st : St) (ts : List (Trial α)),
    Pw (fun t t' => Adm ops e t.params → Done (outNames ops e) t') ts (evaluate ops e st ts).1

theorem Good.step {ops : Ops α} {e : Ex α} (h : Good ops e) (st : St) (t : Trial α)
    (ha : Adm ops e t.params) : Done (outNames ops e) (step ops e st t).1 := by
  have := h st [t]
  rw [evaluate_singleton] at this
  exact this.1 ha

/-- the restore wrappers: the inner experimenter sees transformed parameters -/
theorem good_restore (ops : Ops α) (e : Ex α) (g : Params α → Params α) (ns : List String)
    (P : Params α → Prop) (st : St) (ts : List (Trial α))
    (h : Pw (fun t t' => P t.params → Done ns t') (setParams g ts) (evaluate ops e st (setParams g ts)).1) :
    Pw (fun t t' => P (g t.params) → Done ns t') ts
      (restore (ts.map (·.params)) (evaluate ops e st (setParams g ts)).1) := by
  -- `restore prev r = zipUpd (fun t p => …) r prev`: go through the lists directly
  generalize evaluate ops e st (setParams g ts) = r at h
  obtain ⟨r1, r2⟩ := r
  simp only at h ⊢
  induction ts generalizing r1 with
  | nil => cases r1 with
    | nil => trivial
    | cons _ _ => simp [setParams] at h
  | cons t ts ih => cases r1 with
    | nil => simp [setParams] at h
    | cons u r1 =>
      have h' : (P (g t.params) → Done ns u) ∧
          Pw (fun t t' => P t.params → Done ns t') (setParams g ts) r1 := h
      exact ⟨fun hp => Done.setParams _ (h'.1 hp), ih r1 h'.2⟩

/-! ### the multi-objective loop -/

theorem evalAll_lengths (ops : Ops α) : ∀ (kids : ExList α) (sts : List St) (cs : List (Trial α))
    (ms : List (Metrics α)),
    (evalAll ops kids sts cs ms).1.length = cs.length ∧ (evalAll ops kids sts cs ms).2.1.length = ms.length
  | .nil, _, _, _ => ⟨rfl, rfl⟩
  | .cons name e rest, sts, cs, ms => by
    simp only [evalAll]
    have h := evalAll_lengths ops rest sts.tail (evaluate ops e (sts.headD St.zero) cs).1
      (zipUpd (multiCollect name (objName ops e)) ms (evaluate ops e (sts.headD St.zero) cs).1)
    exact ⟨h.1.trans (evaluate_length ops e _ cs), h.2.trans (zipUpd_length _ _ _)⟩

theorem Pw_zip_zipUpd {β γ : Type} {P : β → β → Prop} (f : γ → β → γ) :
    ∀ (cs cs1 : List β) (ms : List γ), Pw P cs cs1 → cs.length = ms.length →
      Pw (fun (a : β × γ) (b : β × γ) => P a.1 b.1 ∧ b.2 = f a.2 b.1) (cs.zip ms) (cs1.zip (zipUpd f ms cs1))
  | [], [], ms, _, _ => by cases ms <;> trivial
  | c :: cs, c1 :: cs1, m :: ms, hp, hl => by
    refine ⟨⟨hp.1, rfl⟩, Pw_zip_zipUpd f cs cs1 ms hp.2 (by simpa using hl)⟩
  | _ :: _, _ :: _, [], _, hl => by simp at hl
  | [], _ :: _, _, hp, _ => by simp at hp
  | _ :: _, [], _, hp, _ => by simp at hp

theorem names_multiCollect_feasible (name obj : String) (m : Metrics α) (c : Trial α) (ns : List String)
    (hd : Done ns c) (hobj : obj ∈ ns) (hfeas : c.infeasible = false) (hnew : name ∉ names m) :
    names (multiCollect name obj m c) = names m ++ [name] := by
  obtain ⟨fm, hf, hn⟩ := hd
  obtain ⟨v, hv⟩ := lookupS_of_mem obj fm (by rw [hn hfeas]; exact hobj)
  simp only [multiCollect, hf, hv, names_insert, insName]
  rw [if_neg (by simpa using hnew)]

/-- the relation between a row (copy, measurement) before and after the loop over `kids` -/
def RowRel (ops : Ops α) (kids : ExList α) (pre : List String) (a b : Trial α × Metrics α) : Prop :=
  Ext a.1 b.1 ∧
    (AdmAll ops kids a.1.params → (a.1.infeasible = false → names a.2 = pre) →
      b.1.infeasible = false → names b.2 = pre ++ kidNames kids)

theorem Pw_rowrel_refl (ops : Ops α) (pre : List String) : ∀ (cs : List (Trial α)) (ms : List (Metrics α)),
    Pw (RowRel ops .nil pre) (cs.zip ms) (cs.zip ms)
  | [], _ => by simp
  | _ :: _, [] => by simp
  | c :: cs, m :: ms => by
    refine ⟨⟨Ext.refl _, fun _ h hb => ?_⟩, Pw_rowrel_refl ops pre cs ms⟩
    simpa [kidNames] using h hb

theorem evalAll_rows (ops : Ops α) : ∀ (kids : ExList α)
    (hgood : ∀ i e, kidAt kids i = some e → Good ops e ∧ (problem ops e).metrics ≠ [])
    (pre : List String) (hnodup : (kidNames kids).Nodup) (hdisj : ∀ n ∈ kidNames kids, n ∉ pre)
    (sts : List St) (cs : List (Trial α)) (ms : List (Metrics α)) (hl : cs.length = ms.length),
    Pw (RowRel ops kids pre) (cs.zip ms)
      ((evalAll ops kids sts cs ms).1.zip (evalAll ops kids sts cs ms).2.1)
  | .nil, _, pre, _, _, _, cs, ms, _ => by
    simp only [evalAll]
    exact Pw_rowrel_refl ops pre cs ms
  | .cons name e rest, hgood, pre, hnodup, hdisj, sts, cs, ms, hl => by
    simp only [evalAll]
    obtain ⟨hge, hmet⟩ := hgood 0 e rfl
    have hgood' : ∀ i e', kidAt rest i = some e' → Good ops e' ∧ (problem ops e').metrics ≠ [] :=
      fun i e' h => hgood (i + 1) e' h
    simp only [kidNames, List.nodup_cons] at hnodup
    -- the step of child `e`
    have hstep := Pw_zip_zipUpd (P := fun c c1 => Ext c c1 ∧ (Adm ops e c.params → Done (outNames ops e) c1))
      (multiCollect name (objName ops e)) cs (evaluate ops e (sts.headD St.zero) cs).1 ms
      (Pw.and (evaluate_ext ops e _ cs) (hge _ cs)) hl
    -- the rest of the loop
    have hl' : (evaluate ops e (sts.headD St.zero) cs).1.length =
        (zipUpd (multiCollect name (objName ops e)) ms (evaluate ops e (sts.headD St.zero) cs).1).length := by
      rw [evaluate_length, zipUpd_length]; exact hl
    have hrest := evalAll_rows ops rest hgood' (pre ++ [name]) hnodup.2
      (fun n hn => by
        simp only [List.mem_append, List.mem_singleton, not_or]
        refine ⟨hdisj n (by simp [kidNames, hn]), fun hh => hnodup.1 (hh ▸ hn)⟩)
      sts.tail (evaluate ops e (sts.headD St.zero) cs).1
      (zipUpd (multiCollect name (objName ops e)) ms (evaluate ops e (sts.headD St.zero) cs).1) hl'
    refine Pw.trans (T := RowRel ops (.cons name e rest) pre) ?_ hstep hrest
    rintro ⟨c, m⟩ ⟨c1, m1⟩ ⟨c2, m2⟩ h1 h2
    simp only [RowRel] at h2 ⊢
    dsimp only at h1 h2 ⊢
    obtain ⟨⟨hext, hdone⟩, hm1⟩ := h1
    obtain ⟨hext2, hnames⟩ := h2
    refine ⟨Ext.trans hext hext2, fun hadm hpre hfeas => ?_⟩
    simp only [AdmAll] at hadm
    have hfeas1 : c1.infeasible = false := by
      cases h : c1.infeasible
      · rfl
      · have := hext2.2 h; rw [hfeas] at this; cases this
    have hfeas0 : c.infeasible = false := by
      cases h : c.infeasible
      · rfl
      · have := hext.2 h; rw [hfeas1] at this; cases this
    have hm1' : names m1 = pre ++ [name] := by
      rw [hm1, names_multiCollect_feasible name (objName ops e) m c1 _ (hdone hadm.1) (objName_mem ops e hmet) hfeas1]
      · rw [hpre hfeas0]
      · rw [hpre hfeas0]; exact hdisj name (by simp [kidNames])
    have := hnames (by rw [hext.1]; exact hadm.2) (fun _ => hm1') hfeas
    simpa [kidNames, List.append_assoc] using this

/-- from rows back to the suggestions -/
theorem Pw_zipUpd_rows {S : Trial α → Trial α → Prop} (R : Trial α × Metrics α → Trial α × Metrics α → Prop)
    (f : Trial α → Trial α × Metrics α → Trial α)
    (hRS : ∀ t b, R (t, []) b → S t (f t b)) : ∀ (ts : List (Trial α)) (zs : List (Trial α × Metrics α)),
      Pw R (ts.zip (ts.map (fun _ => ([] : Metrics α)))) zs → Pw S ts (zipUpd f ts zs)
  | [], [], _ => trivial
  | t :: ts, z :: zs, hp => ⟨hRS t z hp.1, Pw_zipUpd_rows R f hRS ts zs hp.2⟩
  | [], _ :: _, hp => by simp at hp
  | _ :: _, [], hp => by simp at hp

/-! ### SECOND INDUCTION OVER THE WRAPPER STACK -/

mutual
theorem good_of_wf (ops : Ops α) : ∀ (e : Ex α), WF ops e → Good ops e
  | .base p f, hwf => by
    intro st ts
    simp only [evaluate]
    refine Pw_map_right _ (fun t _ => ?_) ts
    cases hfx : f t.params with
    | metrics ms =>
      exact ⟨ms, by simp [Trial.completeWith, Trial.complete], fun _ => hwf _ _ hfx⟩
    | infeasible ms =>
      exact ⟨ms, by simp [Trial.completeWith, Trial.complete], fun hi => by simp [Trial.completeWith, Trial.complete] at hi⟩
  | .shift s r e, hwf => by
    intro st ts
    simp only [evaluate, outNames]
    exact good_restore ops e _ _ (Adm ops e) st ts (good_of_wf ops e hwf st _)
  | .signFlip b e, hwf => by
    intro st ts
    simp only [evaluate, outNames]
    exact Pw_map_of _ (fun t u h ha => Done.onFinal _ (names_flipMetrics ops b _) (h ha)) (good_of_wf ops e hwf st ts)
  | .permute perm e, hwf => by
    intro st ts
    simp only [evaluate, outNames]
    exact good_restore ops e _ _ (Adm ops e) st ts (good_of_wf ops e hwf st _)
  | .discretize disc parse e, hwf => by
    intro st ts
    simp only [evaluate, outNames]
    exact good_restore ops e _ _ (Adm ops e) st ts (good_of_wf ops e hwf st _)
  | .hypercube keep dim dec e, hwf => by
    intro st ts
    obtain ⟨hk, hwf'⟩ := hwf
    subst hk
    simp only [evaluate, outNames]
    refine Pw_zipUpd_of (fun t => { t with params := dec (hfeatures ops dim t.params) }) _ ?_ ts _
      (good_of_wf ops e hwf' st _)
    intro t o h ha
    obtain ⟨ms, hf, hn⟩ := h ha
    refine ⟨ms, hf, fun hi => hn ?_⟩
    simp only [Bool.true_and, Bool.or_eq_false_iff] at hi
    exact hi.2
  | .normalize mu sigma e, hwf => by
    intro st ts
    simp only [evaluate, outNames]
    exact Pw_map_of _ (fun t u h ha => Done.onFinal _ (names_normMetrics ops mu sigma) (h ha)) (good_of_wf ops e hwf st ts)
  | .noisy noise e, hwf => by
    intro st ts
    simp only [evaluate, outNames]
    exact Pw_mapSt_of _ (fun k t u h ha => Done.noiseTrial noise k (h ha)) _ (good_of_wf ops e hwf st.kid ts)
  | .sparse pre extra e, hwf => by
    intro st ts
    simp only [evaluate, outNames]
    exact good_restore ops e _ _ (Adm ops e) st ts (good_of_wf ops e hwf st _)
  | .switch sw metric toIdx keep kids, hwf => by
    intro st ts
    obtain ⟨hk, hwf'⟩ := hwf
    subst hk
    simp only [evaluate, outNames]
    refine Pw_mapSt _ (fun sts t ha => ?_) _ _
    simp only [Adm] at ha
    obtain ⟨e, hkid, hadm⟩ := admAt_kidAt ops kids _ _ ha
    obtain ⟨hge, hmet⟩ := goodKids_of_wf ops kids hwf' _ e hkid
    simp only [evalAt_fst, hkid, Option.map_some]
    obtain ⟨ms, hf, hn⟩ := hge.step (sts.getD (toIdx (lookupS sw t.params)) St.zero) t hadm
    simp only [switchComplete, hf]
    cases hl : lookupS (objName ops e) ms with
    | some v =>
      exact ⟨[(metric, v)], by simp [Trial.complete], fun _ => rfl⟩
    | none =>
      refine ⟨[], by simp [Trial.complete], fun hi => ?_⟩
      simp only [Trial.complete, Bool.true_and, Bool.or_eq_false_iff] at hi
      obtain ⟨v, hv⟩ := lookupS_of_mem (objName ops e) ms (by rw [hn hi.2]; exact objName_mem ops e hmet)
      rw [hv] at hl; cases hl
  | .infeasibleIf isInf junk e, hwf => by
    intro st ts
    simp only [evaluate, outNames]
    refine Pw_mapSt _ (fun st t ha => ?_) _ _
    by_cases h : isInf t.params = true
    · simp only [h, if_true]
      refine ⟨(problem ops e).metricNames.map (fun n => (n, junk)), rfl, fun hi => ?_⟩
      simp [Trial.complete] at hi
    · simp only [h]
      have := (good_of_wf ops e hwf).step st t (ha (by simpa using h))
      simpa [step] using this
  | .multi keep kids, hwf => by
    intro st ts
    obtain ⟨hk, hwf', hnd⟩ := hwf
    subst hk
    simp only [evaluate, outNames]
    have hrows := evalAll_rows ops kids (fun i e h => goodKids_of_wf ops kids hwf' i e h) [] hnd
      (fun _ _ => by simp) st.kids ts (ts.map (fun _ => [])) (by simp)
    refine Pw_zipUpd_rows (RowRel ops kids []) _ ?_ ts _ hrows
    intro t b hrel ha
    refine ⟨b.2, by simp [Trial.complete], fun hi => ?_⟩
    simp only [Trial.complete, Bool.true_and, Bool.or_eq_false_iff] at hi
    have := hrel.2 ha (fun _ => rfl) hi.2
    simpa using this
theorem goodKids_of_wf (ops : Ops α) : ∀ (kids : ExList α), WFKids ops kids →
    ∀ i e, kidAt kids i = some e → Good ops e ∧ (problem ops e).metrics ≠ []
  | .nil, _, _, _, h => by simp [kidAt] at h
  | .cons _ e rest, hwf, 0, e', h => by
    simp only [kidAt, Option.some.injEq] at h
    subst h
    exact ⟨good_of_wf ops e hwf.1, hwf.2.1⟩
  | .cons _ _ rest, hwf, i + 1, e', h => goodKids_of_wf ops rest hwf.2.2 i e' h
end

/-! ### without a noise wrapper the names are exactly the problem's metric names -/

/-- no noise wrapper between the top of the stack and the first base / switch / multi node -/
def NoiseFree : Ex α → Prop
  | .base _ _ => True
  | .shift _ _ e => NoiseFree e
  | .signFlip _ e => NoiseFree e
  | .permute _ e => NoiseFree e
  | .discretize _ _ e => NoiseFree e
  | .hypercube _ _ _ e => NoiseFree e
  | .normalize _ _ e => NoiseFree e
  | .noisy _ _ => False
  | .sparse _ _ e => NoiseFree e
  | .switch _ _ _ _ _ => True
  | .infeasibleIf _ _ e => NoiseFree e
  | .multi _ _ => True

theorem outNames_eq_metricNames (ops : Ops α) : ∀ (e : Ex α), NoiseFree e →
    outNames ops e = (problem ops e).metricNames
  | .base _ _, _ => rfl
  | .shift s r e, h => by
    simp only [outNames, Problem.metricNames, problem_metrics_shift]
    exact outNames_eq_metricNames ops e h
  | .signFlip _ e, h => by
    simp only [outNames, Problem.metricNames, problem]
    rw [names_map_val (problem ops e).metrics (fun m => m.2.flip)]
    exact outNames_eq_metricNames ops e h
  | .permute _ e, h => outNames_eq_metricNames ops e h
  | .discretize _ _ e, h => outNames_eq_metricNames ops e h
  | .hypercube _ _ _ e, h => outNames_eq_metricNames ops e h
  | .normalize _ _ e, h => outNames_eq_metricNames ops e h
  | .noisy _ _, h => by simp [NoiseFree] at h
  | .sparse _ _ e, h => outNames_eq_metricNames ops e h
  | .switch _ metric _ _ _, _ => by simp [Problem.metricNames, problem, outNames]
  | .infeasibleIf _ _ e, h => outNames_eq_metricNames ops e h
  | .multi _ kids, _ => by simp [Problem.metricNames, problem, outNames, multiMetrics_names]

theorem Pw_mem_right {β γ : Type} {R : β → γ → Prop} : ∀ {bs : List β} {cs : List γ},
    Pw R bs cs → ∀ c ∈ cs, ∃ b ∈ bs, R b c
  | [], [], _, c, hc => by simp at hc
  | b :: bs, c' :: cs, h, c, hc => by
    simp only [List.mem_cons] at hc
    rcases hc with hc | hc
    · subst hc; exact ⟨b, by simp, h.1⟩
    · obtain ⟨b', hb', hr⟩ := Pw_mem_right h.2 c hc
      exact ⟨b', by simp [hb'], hr⟩
  | [], _ :: _, h, _, _ => by simp at h
  | _ :: _, [], h, _, _ => by simp at h

end VizierModel.Exp
