import VizierModel.Lemmas.Stores
namespace VizierModel.Stores
open VizierModel.Svc

theorem beq_false_of_ne {α : Type} [BEq α] [LawfulBEq α] {a b : α} (h : a ≠ b) : (a == b) = false := by
  cases hb : a == b with
  | true => exact absurd (beq_iff_eq.mp hb) h
  | false => rfl

/-- the row of study `k` is unique -/
theorem row_unique (q : Sql) (hw : WF q) {r1 r2 : SKey × Head} (h1 : r1 ∈ q.studies) (h2 : r2 ∈ q.studies)
    (hk : r1.1 = r2.1) : r1 = r2 := by
  have := hw.studyKeys
  generalize q.studies = l at *
  induction l with
  | nil => cases h1
  | cons x xs ih =>
    simp only [List.map_cons, List.nodup_cons, List.mem_map, not_exists, not_and] at this
    rcases List.mem_cons.mp h1 with rfl | h1' <;> rcases List.mem_cons.mp h2 with rfl | h2'
    · rfl
    · exact absurd hk.symm (this.1 r2 h2')
    · exact absurd hk (this.1 r1 h1')
    · exact ih h1' h2' this.2

/-- GENERIC: replacing the trial rows of study `k` (rows of other studies untouched) is `setNode` on
    the nested view -/
theorem setNode_trials (q : Sql) (hw : WF q) (k : SKey) (row : SKey × Head) (hrow : q.studies.find? (·.1 == k) = some row)
    (T' : List (SKey × Trial))
    (hother : ∀ key : SKey, key ≠ k → (T'.filter (·.1 == key)).map (·.2) = (q.trials.filter (·.1 == key)).map (·.2)) :
    (absQ q).setNode k { nodeOf q row.1 row.2 with trials := (T'.filter (·.1 == k)).map (·.2) } =
      absQ { q with trials := T' } := by
  have hmem : row ∈ q.studies := List.mem_of_find?_eq_some hrow
  have hrk : row.1 = k := by simpa using List.find?_some hrow
  unfold Ram.setNode absQ
  simp only [List.map_map]
  congr 1
  apply List.map_congr_left
  intro o _
  simp only [Function.comp]
  by_cases ho : (o == k.1) = true
  · simp only [ho, if_true]
    congr 1
    unfold studiesOf
    simp only [List.map_map]
    apply List.map_congr_left
    intro r hr
    have hr' : r ∈ q.studies := (List.mem_filter.mp hr).1
    simp only [Function.comp]
    by_cases hs : (r.1.2 == k.2) = true
    · have hro : r.1.1 = k.1 := by
        have := (List.mem_filter.mp hr).2
        rw [beq_iff_eq.mp ho] at this
        exact beq_iff_eq.mp this
      have hrk' : r.1 = k := Prod.ext hro (beq_iff_eq.mp hs)
      have : r = row := row_unique q hw hr' hmem (hrk'.trans hrk.symm)
      subst this
      simp [nodeOf, hrk]
    · have hne : r.1 ≠ k := fun e => hs (by rw [e]; exact beq_self_eq_true _)
      simp only [hs, nodeOf, hother r.1 hne]
      rfl
  · have ho' : (o == k.1) = false := by
      cases h : o == k.1 with
      | true => exact absurd h ho
      | false => rfl
    simp only [ho', Bool.false_eq_true, if_false]
    congr 1
    unfold studiesOf
    apply List.map_congr_left
    intro r hr
    have hro : r.1.1 = o := beq_iff_eq.mp (List.mem_filter.mp hr).2
    have hne : r.1 ≠ k := fun e => ho (by rw [← hro, e]; exact beq_self_eq_true _)
    simp only [nodeOf, hother r.1 hne]

theorem wf_trials (q : Sql) (hw : WF q) (T' : List (SKey × Trial))
    (h : ∀ r ∈ T', q.hasStudy r.1 = true) : WF { q with trials := T' } :=
  ⟨hw.ownersNodup, hw.studyKeys, hw.studyOwner, h, hw.noOrphanOps⟩

theorem filter_append_single (rows : List (SKey × Trial)) (x : SKey × Trial) (key : SKey) :
    ((rows ++ [x]).filter (·.1 == key)).map (·.2) =
      (rows.filter (·.1 == key)).map (·.2) ++ (if x.1 == key then [x.2] else []) := by
  rw [List.filter_append, List.map_append]
  congr 1
  by_cases h : (x.1 == key) = true <;> simp [List.filter_cons, h]

theorem any_trial_filter (rows : List (SKey × Trial)) (k : SKey) (id : Nat) :
    ((rows.filter (·.1 == k)).map (·.2)).any (·.id == id) = rows.any (fun row => row.1 == k && row.2.id == id) := by
  induction rows with
  | nil => rfl
  | cons row rest ih =>
    simp only [List.filter_cons, List.any_cons]
    by_cases hk : (row.1 == k) = true
    · simp only [hk, if_true, List.map_cons, List.any_cons, Bool.true_and, ih]
    · have hk' : (row.1 == k) = false := by
        cases h : row.1 == k with
        | true => exact absurd h hk
        | false => rfl
      simp only [hk', Bool.false_eq_true, if_false, Bool.false_and, Bool.false_or, ih]

/-- `create_trial` (the servicer only calls it for an existing study) -/
theorem createTrial_sim (q : Sql) (hw : WF q) (k : SKey) (t : Trial) (hex : q.hasStudy k = true) :
    (absQ q).createTrial k t = (q.createTrial k t).map absQ ∧
      ∀ q', q.createTrial k t = .ok q' → WF q' := by
  rw [hasStudy_iff_find] at hex
  obtain ⟨row, hrow⟩ := Option.isSome_iff_exists.mp hex
  have hrk : row.1 = k := by simpa using List.find?_some hrow
  constructor
  · unfold Ram.createTrial Sql.createTrial
    rw [node_absQ q hw, hrow]
    simp only [Option.map_some, nodeOf, hrk, any_trial_filter]
    by_cases hany : q.trials.any (fun row => row.1 == k && row.2.id == t.id) = true
    · simp only [hany, if_true]; rfl
    · simp only [hany]
      show Except.ok _ = Except.ok _
      congr 1
      have := setNode_trials q hw k row hrow (q.trials ++ [(k, t)]) (by
        intro key hne
        rw [filter_append_single]
        have : ((k, t).1 == key) = false := beq_false_of_ne (fun e => hne e.symm)
        simp [this])
      rw [filter_append_single] at this
      simpa [nodeOf, hrk] using this
  · intro q' hq'
    unfold Sql.createTrial at hq'
    split at hq'
    · cases hq'
    · injection hq' with hq'
      subst hq'
      apply wf_trials q hw
      intro r hr
      rcases List.mem_append.mp hr with h | h
      · exact hw.noOrphan r h
      · simp only [List.mem_singleton] at h; subst h
        rw [hasStudy_iff_find]; exact hex

theorem no_rows_of_missing (q : Sql) (hw : WF q) (k : SKey) (hm : q.studies.find? (·.1 == k) = none) :
    q.trials.filter (·.1 == k) = [] := by
  rw [List.filter_eq_nil_iff]
  intro row hrow he
  have := hw.noOrphan row hrow
  rw [beq_iff_eq.mp he, hasStudy_iff_find, hm] at this
  cases this

theorem filter_map_update (rows : List (SKey × Trial)) (k : SKey) (t : Trial) (key : SKey) :
    ((rows.map fun row => if row.1 == k && row.2.id == t.id then (k, t) else row).filter (·.1 == key)).map (·.2) =
      if key = k then ((rows.filter (·.1 == k)).map (·.2)).map (fun x => if x.id == t.id then t else x)
      else (rows.filter (·.1 == key)).map (·.2) := by
  induction rows with
  | nil => by_cases h : key = k <;> simp [h]
  | cons row rest ih =>
    simp only [List.map_cons, List.filter_cons]
    by_cases hk : row.1 = k
    · have hk' : (row.1 == k) = true := beq_iff_eq.mpr hk
      by_cases hi : (row.2.id == t.id) = true
      · simp only [hk', hi, Bool.and_self, if_true]
        by_cases hkey : key = k
        · subst hkey
          simp only [beq_self_eq_true, if_true, List.map_cons, hi, ih]
        · have h1 : (k == key) = false := beq_false_of_ne (fun e => hkey e.symm)
          have h2 : (row.1 == key) = false := by rw [hk]; exact h1
          simp only [h1, h2, Bool.false_eq_true, if_false, hkey, ih]
      · have hi' : (row.2.id == t.id) = false := by
          cases h : row.2.id == t.id with
          | true => exact absurd h hi
          | false => rfl
        simp only [hk', hi', Bool.and_false, Bool.false_eq_true, if_false]
        by_cases hkey : key = k
        · subst hkey
          simp only [hk', if_true, List.map_cons, hi', Bool.false_eq_true, if_false, ih]
        · have h2 : (row.1 == key) = false := by rw [hk]; exact beq_false_of_ne (fun e => hkey e.symm)
          simp only [h2, Bool.false_eq_true, if_false, hkey, ih]
    · have hk' : (row.1 == k) = false := beq_false_of_ne hk
      simp only [hk', Bool.false_and, Bool.false_eq_true, if_false]
      by_cases hkey : key = k
      · subst hkey
        simp only [hk', Bool.false_eq_true, if_false, ih]
      · by_cases h2 : (row.1 == key) = true
        · simp only [h2, if_true, List.map_cons, hkey, if_false, ih]
        · have h2' : (row.1 == key) = false := by
            cases h : row.1 == key with
            | true => exact absurd h h2
            | false => rfl
          simp only [h2', Bool.false_eq_true, hkey, if_false, ih]

theorem updateTrial_sim (q : Sql) (hw : WF q) (k : SKey) (t : Trial) :
    (absQ q).updateTrial k t = (q.updateTrial k t).map absQ ∧
      ∀ q', q.updateTrial k t = .ok q' → WF q' := by
  constructor
  · unfold Ram.updateTrial Sql.updateTrial
    rw [node_absQ q hw]
    cases hrow : q.studies.find? (·.1 == k) with
    | none =>
      have hnone := no_rows_of_missing q hw k hrow
      have : q.trials.any (fun row => row.1 == k && row.2.id == t.id) = false := by
        rw [← any_trial_filter, hnone]; rfl
      simp only [Option.map_none, this, Bool.false_eq_true, if_false]
      rfl
    | some row =>
      have hrk : row.1 = k := by simpa using List.find?_some hrow
      simp only [Option.map_some, nodeOf, hrk, any_trial_filter]
      by_cases hany : q.trials.any (fun row => row.1 == k && row.2.id == t.id) = true
      · simp only [hany, if_true]
        show Except.ok _ = Except.ok _
        congr 1
        have := setNode_trials q hw k row hrow
          (q.trials.map fun row => if row.1 == k && row.2.id == t.id then (k, t) else row) (by
            intro key hne
            rw [filter_map_update]; simp [hne])
        rw [filter_map_update] at this
        simpa [nodeOf, hrk] using this
      · simp only [hany]; rfl
  · intro q' hq'
    unfold Sql.updateTrial at hq'
    split at hq'
    · injection hq' with hq'
      subst hq'
      apply wf_trials q hw
      intro r hr
      obtain ⟨r0, hr0, rfl⟩ := List.mem_map.mp hr
      by_cases hc : (r0.1 == k && r0.2.id == t.id) = true
      · simp only [hc, if_true]
        have : r0.1 = k := by
          simp only [Bool.and_eq_true, beq_iff_eq] at hc; exact hc.1
        rw [← this]; exact hw.noOrphan r0 hr0
      · simp only [hc]; exact hw.noOrphan r0 hr0
    · cases hq'

theorem filter_filter_delete (rows : List (SKey × Trial)) (k : SKey) (id : Nat) (key : SKey) :
    ((rows.filter fun row => !(row.1 == k && row.2.id == id)).filter (·.1 == key)).map (·.2) =
      if key = k then ((rows.filter (·.1 == k)).map (·.2)).filter (·.id != id)
      else (rows.filter (·.1 == key)).map (·.2) := by
  induction rows with
  | nil => by_cases h : key = k <;> simp [h]
  | cons row rest ih =>
    simp only [List.filter_cons]
    by_cases hk : row.1 = k
    · have hk' : (row.1 == k) = true := beq_iff_eq.mpr hk
      by_cases hi : (row.2.id == id) = true
      · simp only [hk', hi, Bool.and_self, Bool.not_true, Bool.false_eq_true, if_false]
        by_cases hkey : key = k
        · subst hkey
          have : (row.2.id != id) = false := by simp [bne, hi]
          simp only [if_true, List.map_cons, List.filter_cons, this, Bool.false_eq_true, if_false, ih]
        · have h2 : (row.1 == key) = false := by rw [hk]; exact beq_false_of_ne (fun e => hkey e.symm)
          simp only [h2, Bool.false_eq_true, if_false, hkey, ih]
      · have hi' : (row.2.id == id) = false := by
          cases h : row.2.id == id with
          | true => exact absurd h hi
          | false => rfl
        simp only [hk', hi', Bool.and_false, Bool.not_false, if_true, List.filter_cons]
        by_cases hkey : key = k
        · subst hkey
          have : (row.2.id != id) = true := by simp [bne, hi']
          simp only [hk', if_true, List.map_cons, List.filter_cons, this, ih]
        · have h2 : (row.1 == key) = false := by rw [hk]; exact beq_false_of_ne (fun e => hkey e.symm)
          simp only [h2, Bool.false_eq_true, if_false, hkey, ih]
    · have hk' : (row.1 == k) = false := beq_false_of_ne hk
      simp only [hk', Bool.false_and, Bool.not_false, if_true, List.filter_cons]
      by_cases hkey : key = k
      · subst hkey
        simp only [hk', Bool.false_eq_true, if_false, ih]
      · by_cases h2 : (row.1 == key) = true
        · simp only [h2, if_true, List.map_cons, hkey, if_false, ih]
        · have h2' : (row.1 == key) = false := by
            cases h : row.1 == key with
            | true => exact absurd h h2
            | false => rfl
          simp only [h2', Bool.false_eq_true, hkey, if_false, ih]

theorem deleteTrial_sim (q : Sql) (hw : WF q) (k : SKey) (id : Nat) :
    (absQ q).deleteTrial k id = (q.deleteTrial k id).map absQ ∧
      ∀ q', q.deleteTrial k id = .ok q' → WF q' := by
  constructor
  · unfold Ram.deleteTrial Sql.deleteTrial
    rw [node_absQ q hw]
    cases hrow : q.studies.find? (·.1 == k) with
    | none =>
      have hnone := no_rows_of_missing q hw k hrow
      have : q.trials.any (fun row => row.1 == k && row.2.id == id) = false := by
        rw [← any_trial_filter, hnone]; rfl
      simp only [Option.map_none, this, Bool.false_eq_true, if_false]
      rfl
    | some row =>
      have hrk : row.1 = k := by simpa using List.find?_some hrow
      simp only [Option.map_some, nodeOf, hrk, any_trial_filter]
      by_cases hany : q.trials.any (fun row => row.1 == k && row.2.id == id) = true
      · simp only [hany, if_true]
        show Except.ok _ = Except.ok _
        congr 1
        have := setNode_trials q hw k row hrow
          (q.trials.filter fun row => !(row.1 == k && row.2.id == id)) (by
            intro key hne
            rw [filter_filter_delete]; simp [hne])
        rw [filter_filter_delete] at this
        simpa [nodeOf, hrk] using this
      · simp only [hany]; rfl
  · intro q' hq'
    unfold Sql.deleteTrial at hq'
    split at hq'
    · injection hq' with hq'
      subst hq'
      apply wf_trials q hw
      intro r hr
      exact hw.noOrphan r (List.mem_filter.mp hr).1
    · cases hq'

end VizierModel.Stores
