import VizierModel.Lemmas.ServiceEs
namespace VizierModel.Svc

/-- operation numbers of every (study, worker) are 1, 2, …, k in creation order -/
def OpsNumbered (st : Study) : Prop :=
  ∀ c : String, (opsOf st c).map (·.num) = List.range' 1 (opsOf st c).length

theorem filter_map_nums (g : SugOp → SugOp) (hg : ∀ x, (g x).client = x.client ∧ (g x).num = x.num)
    (c : String) (l : List SugOp) :
    ((l.map g).filter (·.client == c)).map (·.num) = (l.filter (·.client == c)).map (·.num) := by
  induction l with
  | nil => rfl
  | cons x xs ih =>
    simp only [List.map_cons, List.filter_cons, (hg x).1]
    split
    · simp only [List.map_cons, (hg x).2, ih]
    · exact ih

theorem opsOf_putOp (st : Study) (o : SugOp) (c : String) :
    (opsOf (st.putOp o) c).map (·.num) = (opsOf st c).map (·.num) := by
  unfold opsOf Study.putOp
  apply filter_map_nums
  intro x
  by_cases hm : (x.client == o.client && x.num == o.num) = true
  · have h1 : x.client = o.client := by simp at hm; exact hm.1
    have h2 : x.num = o.num := by simp at hm; exact hm.2
    simp [hm, h1, h2]
  · simp [hm]

theorem opsNumbered_putOp (st : Study) (o : SugOp) (h : OpsNumbered st) : OpsNumbered (st.putOp o) := by
  intro c
  have hl : (opsOf (st.putOp o) c).length = (opsOf st c).length := by
    have := congrArg List.length (opsOf_putOp st o c)
    simpa using this
  rw [opsOf_putOp, hl]; exact h c

theorem opsNumbered_of_sugOps_eq {st st' : Study} (h : st'.sugOps = st.sugOps) (hn : OpsNumbered st) : OpsNumbered st' := by
  intro c
  have : opsOf st' c = opsOf st c := by unfold opsOf; rw [h]
  rw [this]; exact hn c

theorem opsNumbered_append_new (st : Study) (client : String) (h : OpsNumbered st) :
    OpsNumbered { st with sugOps := st.sugOps ++ [{ client := client, num := (opsOf st client).length + 1, done := false, result := .none }] } := by
  intro c
  rw [opsOf_append]
  by_cases hc : (client == c) = true
  · have e : client = c := by simpa using hc
    subst e
    simp only [hc, if_true, List.map_append, List.map_cons, List.map_nil, List.length_append, List.length_cons, List.length_nil]
    rw [h client]
    have := List.range'_append (s := 1) (m := (opsOf st client).length) (n := 1) (step := 1)
    simp only [List.range'_one] at this
    rw [← this]
    congr 2
    omega
  · simp only [hc]
    exact h c

theorem finishOp_opsNumbered (op0 : SugOp) (st : Study) (hd : List Trial) (h : OpsNumbered st) :
    OpsNumbered (finishOp op0 st hd).2 := opsNumbered_putOp st _ h

theorem failOp_opsNumbered (op0 : SugOp) (st : Study) (h : OpsNumbered st) : OpsNumbered (failOp op0 st).2 :=
  opsNumbered_putOp st _ h

theorem createStage_opsNumbered (cfg : Cfg) (op0 : SugOp) (st : Study) (need : Nat) (out : List Trial) (sugg : List Sugg)
    (h : OpsNumbered st) : OpsNumbered (createStage cfg op0 st need out sugg).2 := by
  unfold createStage
  simp only
  split
  · exact opsNumbered_of_sugOps_eq rfl h
  · exact finishOp_opsNumbered op0 _ _ (opsNumbered_of_sugOps_eq rfl h)

theorem pythiaStage_opsNumbered (cfg : Cfg) (op0 : SugOp) (st : Study) (need : Nat) (out : List Trial) (alg : AlgOutcome)
    (h : OpsNumbered st) : OpsNumbered (pythiaStage cfg op0 st need out alg).2 := by
  unfold pythiaStage
  split
  · exact failOp_opsNumbered op0 st h
  · split
    · exact failOp_opsNumbered op0 st h
    · exact h
  · rename_i sugg delta
    have h2 : OpsNumbered (st.updateMetadata cfg delta).2 := opsNumbered_of_sugOps_eq (updateMetadata_sugOps cfg st delta) h
    simp only
    split
    · exact failOp_opsNumbered op0 _ h2
    · exact createStage_opsNumbered cfg op0 _ _ _ _ h2

theorem suggestRest_opsNumbered (cfg : Cfg) (op0 : SugOp) (st : Study) (client : String) (count : Nat)
    (alg : AlgOutcome) (h : OpsNumbered st) : OpsNumbered (suggestRest cfg op0 st client count alg).2 := by
  unfold suggestRest
  simp only
  split
  · exact finishOp_opsNumbered _ _ _ h
  · have h2 : ∀ as : List Trial, OpsNumbered (as.foldl Study.putTrial st) :=
      fun as => opsNumbered_of_sugOps_eq (foldl_putTrial_sugOps as _) h
    split
    · exact finishOp_opsNumbered _ _ _ (h2 _)
    · exact pythiaStage_opsNumbered cfg _ _ _ _ alg (h2 _)

theorem suggestBody_opsNumbered (cfg : Cfg) (st : Study) (client : String) (count : Nat) (alg : AlgOutcome)
    (h : OpsNumbered st) : OpsNumbered (suggestBody cfg st client count alg).2 := by
  unfold suggestBody
  simp only
  split
  · split
    · exact suggestRest_opsNumbered cfg _ st client count alg h
    · exact h
  · exact suggestRest_opsNumbered cfg _ _ client count alg (opsNumbered_append_new st client h)

/-- **operation numbering**: for every history (with operation records deleted together with their
    study) the operations of every (study, worker) are numbered 1..k in creation order -/
theorem step_opsNumbered (cfg : Cfg) (hc3 : cfg.deleteCascadesOps = true) (db : DB) (r : Req)
    (h : AllStudies OpsNumbered db) : AllStudies OpsNumbered (step cfg db r).2 := by
  cases r with
  | createStudy owner display nameSet state spec md =>
    simp only [step]
    repeat' split
    all_goals first
      | exact h
      | (intro st hst
         rcases List.mem_append.mp hst with h' | h'
         · exact h st h'
         · simp only [List.mem_singleton] at h'
           subst h'
           intro c
           simp [hc3, opsOf])
  | getStudy o s => exact onStudy_all h o s false _ (fun _ hp => hp)
  | listStudies o => simp only [step]; split <;> exact h
  | deleteStudy o s =>
    simp only [step]
    split
    · exact h
    · intro st hst; exact h st (List.mem_filter.mp hst).1
  | setStudyState o s stt => exact onStudy_all h o s false _ (fun _ hp => opsNumbered_of_sugOps_eq rfl hp)
  | createTrial o s t => exact onStudy_all h o s true _ (fun _ hp => opsNumbered_of_sugOps_eq rfl hp)
  | suggest o s client count alg =>
    exact onStudy_all h o s true _ (fun st hp => suggestBody_opsNumbered cfg st client count alg hp)
  | getOperation o s client num =>
    simp only [step]
    split
    · split <;> exact h
    · apply onStudy_all h
      intro st hp; split <;> exact hp
  | getTrial o s id => apply onStudy_all h; intro st hp; split <;> exact hp
  | listTrials o s => exact onStudy_all h o s false _ (fun _ hp => hp)
  | addMeasurement o s id m =>
    exact onStudy_all h o s true _ (fun st hp => opsNumbered_of_sugOps_eq (addMeasurementBody_sugOps st id m) hp)
  | complete o s id f i rs =>
    exact onStudy_all h o s true _ (fun st hp => opsNumbered_of_sugOps_eq (completeBody_sugOps st id f i rs) hp)
  | stop o s id => exact onStudy_all h o s true _ (fun st hp => opsNumbered_of_sugOps_eq (stopBody_sugOps st id) hp)
  | deleteTrial o s id =>
    exact onStudy_all h o s true _ (fun st hp => opsNumbered_of_sugOps_eq (deleteTrialBody_sugOps st id) hp)
  | checkEarlyStop o s id es =>
    exact onStudy_all h o s true _ (fun st hp => opsNumbered_of_sugOps_eq (earlyStopBody_sugOps cfg st id es) hp)
  | updateMetadata o s us =>
    exact onStudy_all h o s true _ (fun st hp => opsNumbered_of_sugOps_eq (updateMetadata_sugOps cfg st us) hp)
  | listOptimal o s => exact onStudy_all h o s false _ (fun _ hp => hp)

theorem run_opsNumbered (cfg : Cfg) (hc3 : cfg.deleteCascadesOps = true) (db : DB) (hs : List Req)
    (h : AllStudies OpsNumbered db) : AllStudies OpsNumbered (run cfg db hs) := by
  induction hs generalizing db with
  | nil => exact h
  | cons r rs ih => exact ih _ (step_opsNumbered cfg hc3 db r h)

end VizierModel.Svc
