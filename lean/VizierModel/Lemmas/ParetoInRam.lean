/-
Lemmas for C11, part 7: `InRamPolicySupporter.GetBestTrials` (multi-objective branch).
-/
import VizierModel.Lemmas.ParetoNaive
import VizierModel.Lemmas.ParetoService
namespace VizierModel.Pareto

variable {μ β : Type} [DecidableEq μ]

/-! ### NaN-free rows: the IEEE comparisons are the lawful ones -/

theorem anyGt_val_num (c : Cmp β) (p q : List β) :
    anyGt c.val (p.map .num) (q.map .num) = anyGt c p q := by
  induction p generalizing q with
  | nil => rfl
  | cons a as ih => cases q with
    | nil => rfl
    | cons b bs => simp only [List.map_cons, anyGt]; rw [ih]; rfl

theorem allLe_val_num (c : Cmp β) (p q : List β) :
    allLe c.val (p.map .num) (q.map .num) = allLe c p q := by
  induction p generalizing q with
  | nil => rfl
  | cons a as ih => cases q with
    | nil => rfl
    | cons b bs => simp only [List.map_cons, allLe]; rw [ih]; rfl

theorem allEq_val_num (c : Cmp β) (p q : List β) :
    allEq c.val (p.map .num) (q.map .num) = allEq c p q := by
  induction p generalizing q with
  | nil => rfl
  | cons a as ih => cases q with
    | nil => rfl
    | cons b bs => simp only [List.map_cons, allEq]; rw [ih]; rfl

theorem naiveStep_val_num (c : Cmp β) (rows : List (List β)) (mask : List Bool) (i : Nat) :
    naiveStep c.val (rows.map (List.map .num)) mask i = naiveStep c rows mask i := by
  unfold naiveStep
  have hpt : (rows.map (List.map Val.num)).getD i [] = (rows.getD i []).map .num := by
    simp only [List.getD_eq_getElem?_getD, List.getElem?_map]
    cases rows[i]? <;> rfl
  split
  · rw [hpt, List.zipWith_map_right]
    congr 1
    funext m p
    rw [anyGt_val_num, allEq_val_num]
  · rfl

theorem naive_val_num (c : Cmp β) (rows : List (List β)) :
    naive c.val (rows.map (List.map .num)) = naive c rows := by
  unfold naive
  rw [List.length_map, List.map_map]
  have : ((fun _ => true) ∘ List.map (Val.num (β := β))) = fun _ => true := rfl
  rw [this]
  generalize (rows.map fun _ => true) = mask
  induction List.range rows.length generalizing mask with
  | nil => rfl
  | cons i is ih => rw [List.foldl_cons, List.foldl_cons, naiveStep_val_num, ih]

theorem front_val_num (c : Cmp β) (rows : List (List β)) :
    front c.val (rows.map (List.map .num)) = front c rows := by
  unfold front
  rw [List.map_map]
  apply List.map_congr_left
  intro r _
  show isFront c.val (rows.map (List.map .num)) (r.map .num) = isFront c rows r
  unfold isFront
  rw [List.any_map]
  congr 1
  apply List.any_congr rfl
  intro q
  simp only [Function.comp, dominates, allLe_val_num, anyGt_val_num]

def Val.toOpt : Val β → Option β
  | .nan => none
  | .num b => some b

theorem nanfree_row (r : List (Val β)) (h : ∀ v ∈ r, v ≠ .nan) : r = (r.filterMap Val.toOpt).map .num := by
  induction r with
  | nil => rfl
  | cons v vs ih =>
    have hv := h v (List.mem_cons_self ..)
    cases v with
    | nan => exact absurd rfl hv
    | num b =>
      have := ih (fun x hx => h x (List.mem_cons_of_mem _ hx))
      simp only [List.filterMap_cons, Val.toOpt, List.map_cons]
      rw [← this]

/-- on NaN-free label rows the sweep run with IEEE comparisons is the front -/
theorem naive_val_nanfree {c : Cmp β} (h : c.Lawful) {d : Nat} (labels : List (List (Val β)))
    (hr : Rect d labels) (hnf : ∀ r ∈ labels, ∀ v ∈ r, v ≠ .nan) :
    naive c.val labels = front c.val labels := by
  have e : labels = (labels.map fun r => r.filterMap Val.toOpt).map (List.map .num) := by
    rw [List.map_map]
    conv => lhs; rw [← List.map_id labels]
    apply List.map_congr_left
    intro r hr'
    exact nanfree_row r (hnf r hr')
  have hrect : Rect d (labels.map fun r => r.filterMap Val.toOpt) := by
    intro p hp
    obtain ⟨r, hr', rfl⟩ := List.mem_map.mp hp
    have := congrArg List.length (nanfree_row r (hnf r hr'))
    rw [List.length_map] at this
    rw [← this]; exact hr r hr'
  rw [e, naive_val_num, front_val_num]
  exact naive_correct h _ hrect

/-! ### label rows of eligible trials -/

theorem lookupLast_map_val {ν : Type} (g : μ → ν → ν) (ms : List (μ × ν)) (m : μ) :
    lookupLast (ms.map fun kv => (kv.1, g kv.1 kv.2)) m = (lookupLast ms m).map (g m) := by
  unfold lookupLast
  rw [← List.map_reverse]
  generalize ms.reverse = l
  induction l with
  | nil => rfl
  | cons kv rest ih =>
    simp only [List.map_cons, List.find?_cons]
    by_cases hk : kv.1 = m
    · have : decide (kv.1 = m) = true := by simp [hk]
      rw [this]; simp [hk]
    · have : decide (kv.1 = m) = false := by simp [hk]
      rw [this]; exact ih

/-- the view of a pyvizier trial as a stored trial whose measurement is the ranking measurement -/
def asS (o : OrderOps β) (objs : List (μ × Goal)) (safety : List (μ × Goal × β)) (t : PTrial μ β) :
    STrial μ β := { id := t.id, state := .succeeded, final := rankFinal o objs safety t }

theorem labelRow_eq_objVec (o : OrderOps β) (objs : List (μ × Goal)) (safety : List (μ × Goal × β))
    (t : PTrial μ β) : labelRow o objs safety t = objVec o.neg objs (asS o objs safety t) := rfl

/-- an eligible trial still reports a number for every objective after safety warping -/
theorem rankFinal_numOf (o : OrderOps β) (objs : List (μ × Goal)) (safety : List (μ × Goal × β))
    (t : PTrial μ β) (he : eligibleP objs t = true) :
    ∀ mg ∈ objs, (numOf (rankFinal o objs safety t) mg.1).isSome = true := by
  unfold eligibleP at he
  simp only [Bool.and_eq_true, List.all_eq_true] at he
  obtain ⟨⟨_, hsome⟩, hall⟩ := he
  obtain ⟨ms, hms⟩ := Option.isSome_iff_exists.mp hsome
  intro mg hmg
  have h0 := hall mg hmg
  rw [hms] at h0
  simp only [Option.getD_some] at h0
  obtain ⟨b, hb⟩ := Option.isSome_iff_exists.mp h0
  have hb' := (numOf_eq_some _ _ _).mp hb
  unfold rankFinal warp
  split
  · rw [hms]; simpa using h0
  · rw [hms]
    simp only [Option.map_some, Option.getD_some]
    have := lookupLast_map_val (worstVal o objs) ms mg.1
    unfold numOf
    rw [this, hb']
    simp only [Option.map_some, worstVal]
    cases objs.lookup mg.1 with
    | none => rfl
    | some g => cases g <;> rfl

theorem labelRow_nanfree (o : OrderOps β) (objs : List (μ × Goal)) (safety : List (μ × Goal × β))
    (t : PTrial μ β) (he : eligibleP objs t = true) :
    ∀ v ∈ labelRow o objs safety t, v ≠ .nan := by
  intro v hv
  unfold labelRow at hv
  obtain ⟨mg, hmg, rfl⟩ := List.mem_map.mp hv
  have := rankFinal_numOf o objs safety t he mg hmg
  obtain ⟨b, hb⟩ := Option.isSome_iff_exists.mp this
  have hb' := (numOf_eq_some _ _ _).mp hb
  unfold rankFinal at hb'
  simp only [hb', Option.getD_some]
  cases mg.2 <;> simp [negV]

/-! ### GetBestTrials -/

/-- the two operations on a model order used by GetBestTrials behave -/
structure OrderOps.Lawful (o : OrderOps β) : Prop where
  cmp : o.cmp.Lawful
  neg : Antitone o.cmp o.neg

theorem getBest_multi_eq (o : OrderOps β) (objs : List (μ × Goal)) (safety : List (μ × Goal × β))
    (allTied : Bool) (trials : List (PTrial μ β)) (hm : 2 ≤ objs.length) :
    getBest o objs safety false allTied none trials =
      some (((trials.zip (naive o.cmp.val (trials.map (labelRow o objs safety)))).filter (·.2)).map (·.1)) := by
  unfold getBest
  have h1 : objs.isEmpty = false := by cases objs <;> simp_all
  have h2 : ¬ objs.length = 1 := by omega
  simp [h1, h2]

/-- as written, on studies whose trials are all completed, feasible and report a number for
every objective, the multi-objective query returns the optimal trials of the definition -/
theorem getBest_asWritten_correct {o : OrderOps β} (h : o.Lawful) (objs : List (μ × Goal))
    (safety : List (μ × Goal × β)) (allTied : Bool) (trials : List (PTrial μ β)) (hm : 2 ≤ objs.length)
    (hel : ∀ t ∈ trials, eligibleP objs t = true) :
    getBest o objs safety false allTied none trials = some (bestDef o objs safety trials) := by
  rw [getBest_multi_eq o objs safety allTied trials hm]
  congr 1
  have hrect : Rect objs.length (trials.map (labelRow o objs safety)) := by
    intro r hr
    obtain ⟨t, _, rfl⟩ := List.mem_map.mp hr
    simp [labelRow]
  have hnf : ∀ r ∈ trials.map (labelRow o objs safety), ∀ v ∈ r, v ≠ .nan := by
    intro r hr
    obtain ⟨t, ht, rfl⟩ := List.mem_map.mp hr
    exact labelRow_nanfree o objs safety t (hel t ht)
  rw [naive_val_nanfree h.cmp _ hrect hnf, front, List.map_map, zip_map_filter]
  unfold bestDef
  apply List.filter_congr
  intro t ht
  rw [hel t ht, Bool.true_and]
  simp only [Function.comp, isFront, List.any_map]
  congr 1
  apply any_congr_mem
  intro t' ht'
  · rw [hel t' ht', Bool.true_and]
    have hs : ∀ mg ∈ objs, (numOf (asS o objs safety t).final mg.1).isSome = true ∧
        (numOf (asS o objs safety t').final mg.1).isSome = true :=
      fun mg hmg => ⟨rankFinal_numOf o objs safety t (hel t ht) mg hmg,
        rankFinal_numOf o objs safety t' (hel t' ht') mg hmg⟩
    obtain ⟨e1, e2⟩ := objVec_cmp h.cmp h.neg (asS o objs safety t) (asS o objs safety t') objs hs
    simp only [Function.comp]
    rw [labelRow_eq_objVec, labelRow_eq_objVec]
    simp only [dominates, dominatesG]
    rw [e1, e2]
    rfl

/-- trials that are not eligible play no role in the definition -/
theorem bestDef_filter (o : OrderOps β) (objs : List (μ × Goal)) (safety : List (μ × Goal × β))
    (trials : List (PTrial μ β)) :
    bestDef o objs safety (trials.filter (eligibleP objs)) = bestDef o objs safety trials := by
  unfold bestDef
  rw [List.filter_filter]
  apply List.filter_congr
  intro t _
  rw [List.any_filter]
  have : (fun x => eligibleP objs x && (eligibleP objs x &&
      dominatesG o.cmp objs (rankFinal o objs safety x) (rankFinal o objs safety t))) =
      fun t' => eligibleP objs t' &&
        dominatesG o.cmp objs (rankFinal o objs safety t') (rankFinal o objs safety t) := by
    funext x; cases eligibleP objs x <;> rfl
  rw [this]
  cases eligibleP objs t <;> simp

/-- with the eligibility filter (proposed fix) the multi-objective query returns the optimal
trials of the definition for every study history -/
theorem getBest_fixed_correct {o : OrderOps β} (h : o.Lawful) (objs : List (μ × Goal))
    (safety : List (μ × Goal × β)) (allTied : Bool) (trials : List (PTrial μ β)) (hm : 2 ≤ objs.length) :
    getBest o objs safety true allTied none trials = some (bestDef o objs safety trials) := by
  have e : getBest o objs safety true allTied none trials =
      getBest o objs safety false allTied none (trials.filter (eligibleP objs)) := by
    unfold getBest; simp
  rw [e, getBest_asWritten_correct h objs safety allTied _ hm (fun t ht => (List.mem_filter.mp ht).2), bestDef_filter]

end VizierModel.Pareto
