/-
C18 helper lemmas, part 3: `_validate_labels`, the median, the half-rank denominator, the two
pipelines (shortcuts + composition), the inverses.
-/
import VizierModel.Lemmas.WarpComponents

set_option linter.unusedSectionVars false

namespace VizierModel.Warp

variable {α : Type} [Field α] [LinearOrder α] [IsStrictOrderedRing α]

/-! ### `_validate_labels` -/

theorem validate_ok {raw : List (Raw α)} {l : List (Option α)} (h : validate raw = .ok l) :
    l = raw.map Raw.toOpt := by
  unfold validate at h
  split at h
  · cases h
  · cases h; rfl

theorem validate_error_iff (raw : List (Raw α)) :
    (∃ e, validate raw = .error e) ↔ ∃ r ∈ raw, r.isPosInf = true := by
  unfold validate
  by_cases h : raw.any Raw.isPosInf = true
  · simp only [h, if_true]
    constructor
    · intro _; simpa using h
    · intro _; exact ⟨_, rfl⟩
  · simp only [h]
    constructor
    · rintro ⟨e, he⟩; cases he
    · intro h'
      exact absurd (by simpa using h') h

/-! ### sorting and the median -/

theorem mem_insertSorted {a x : α} {l : List α} : x ∈ insertSorted a l ↔ x = a ∨ x ∈ l := by
  induction l with
  | nil => simp [insertSorted]
  | cons b bs ih =>
    unfold insertSorted
    by_cases h : b < a
    · simp only [h, if_true, List.mem_cons, ih]; tauto
    · simp [h]

theorem length_insertSorted (a : α) (l : List α) : (insertSorted a l).length = l.length + 1 := by
  induction l with
  | nil => simp [insertSorted]
  | cons b bs ih =>
    unfold insertSorted
    by_cases h : b < a <;> simp [h, ih]

theorem mem_sort {x : α} {l : List α} : x ∈ sort l ↔ x ∈ l := by
  induction l with
  | nil => simp [sort]
  | cons a t ih =>
    have : sort (a :: t) = insertSorted a (sort t) := rfl
    rw [this, mem_insertSorted, ih, List.mem_cons]

theorem length_sort (l : List α) : (sort l).length = l.length := by
  induction l with
  | nil => simp [sort]
  | cons a t ih =>
    have : sort (a :: t) = insertSorted a (sort t) := rfl
    rw [this, length_insertSorted, ih, List.length_cons]

theorem getD_mem {l : List α} {i : Nat} (h : i < l.length) (d : α) : l.getD i d ∈ l := by
  have : l.getD i d = l[i] := by simp [List.getD, List.getElem?_eq_getElem h]
  rw [this]
  exact List.getElem_mem h

/-- the median of a non-empty list lies between any lower and upper bound of its entries -/
theorem median_bounds {l : List α} (hne : l ≠ []) {lo hi : α} (hlo : ∀ x ∈ l, lo ≤ x)
    (hhi : ∀ x ∈ l, x ≤ hi) : lo ≤ median l ∧ median l ≤ hi := by
  have hlen : 0 < (sort l).length := by
    rw [length_sort]; exact List.length_pos_iff.mpr hne
  have hb : ∀ i, i < (sort l).length → lo ≤ (sort l).getD i zero ∧ (sort l).getD i zero ≤ hi := by
    intro i hi'
    have := mem_sort.mp (getD_mem hi' zero)
    exact ⟨hlo _ this, hhi _ this⟩
  unfold median
  simp only
  split
  · exact hb _ (Nat.div_lt_self hlen (by decide))
  · rename_i hodd
    have h2 : 2 ≤ (sort l).length := by omega
    obtain ⟨a1, a2⟩ := hb ((sort l).length / 2 - 1) (by omega)
    obtain ⟨b1, b2⟩ := hb ((sort l).length / 2) (by omega)
    have e : ((2 : Nat) : α) = 2 := by simp
    rw [e]
    constructor
    · rw [le_div_iff₀ (by norm_num : (0 : α) < 2)]; linarith
    · rw [div_le_iff₀ (by norm_num : (0 : α) < 2)]; linarith

/-! ### `np.unique` is strictly increasing; the denominator is at least ½ -/

theorem insertUniq_sorted {a : α} {l : List α} (h : l.Pairwise (· < ·)) :
    (insertUniq a l).Pairwise (· < ·) := by
  induction l with
  | nil => simp [insertUniq]
  | cons b bs ih =>
    obtain ⟨hb, hbs⟩ := List.pairwise_cons.mp h
    unfold insertUniq
    by_cases h1 : a < b
    · simp only [h1, if_true]
      refine List.pairwise_cons.mpr ⟨?_, h⟩
      intro x hx
      rcases List.mem_cons.mp hx with rfl | hx
      · exact h1
      · exact lt_trans h1 (hb x hx)
    · by_cases h2 : b < a
      · simp only [h1, h2, if_true, if_false]
        refine List.pairwise_cons.mpr ⟨?_, ih hbs⟩
        intro x hx
        rcases mem_insertUniq.mp hx with rfl | hx
        · exact h2
        · exact hb x hx
      · simpa [h1, h2] using h

theorem unique_sorted (l : List α) : (unique l).Pairwise (· < ·) := by
  induction l with
  | nil => simp [unique]
  | cons a t ih => exact insertUniq_sorted ih

theorem countLt_eq_zero {u : List α} {t : α} (h : countLt u t = 0) : ∀ v ∈ u, t ≤ v := by
  intro v hv
  by_contra hc
  have hlt : v < t := not_le.mp hc
  have : v ∈ u.filter (fun w => decide (w < t)) := List.mem_filter.mpr ⟨hv, by simpa using hlt⟩
  unfold countLt at h
  rw [List.length_eq_zero_iff.mp h] at this
  simp at this

/-- `denominator ≥ ½` for every label array with a finite entry -/
theorem hrCtx_den_ge_half {F : Fns α} (flag : Bool) {l : List (Option α)} (hne : fins l ≠ []) :
    (1 : α) / 2 ≤ (hrCtx F flag l).den := by
  simp only [hrCtx]
  by_cases h0 : countLt (unique (fins l)) (median (fins l)) = 0
  · -- no unique label below the median: the median is the smallest label, `u[0]`
    have hall := countLt_eq_zero h0
    rcases lmin_lmax_cases (fins l) with ⟨he, _, _⟩ | ⟨mn, mx, h1, h2⟩
    · exact absurd he hne
    · have hmed := median_bounds hne (lmin_spec h1).2 (lmax_spec h2).2
      have hmn : median (fins l) = mn :=
        le_antisymm (hall mn (mem_unique.mpr (lmin_spec h1).1)) hmed.1
      have hune : unique (fins l) ≠ [] := fun e => hne (unique_eq_nil.mp e)
      obtain ⟨a, t, hat⟩ := List.exists_cons_of_ne_nil hune
      have ha : a = mn := by
        have hmem : mn ∈ a :: t := hat ▸ mem_unique.mpr (lmin_spec h1).1
        have hamem : a ∈ fins l := mem_unique.mp (hat ▸ List.mem_cons_self)
        have hs := unique_sorted (fins l)
        rw [hat] at hs
        rcases List.mem_cons.mp hmem with e | hm
        · exact e.symm
        · have := (List.pairwise_cons.mp hs).1 mn hm
          exact absurd ((lmin_spec h1).2 a hamem) (not_le.mpr this)
      rw [h0, hat]
      simp only [List.getD_cons_zero]
      have : eqb a (median (fins l)) = true := (eqb_iff _ _).mpr (ha.trans hmn.symm)
      simp [this]
  · have : 1 ≤ countLt (unique (fins l)) (median (fins l)) := Nat.one_le_iff_ne_zero.mpr h0
    have h1 : (1 : α) ≤ ((countLt (unique (fins l)) (median (fins l)) : Nat) : α) := by
      exact_mod_cast this
    split
    · rw [half_eq]; linarith
    · rw [zero_eq]; linarith

/-- the "good half" `unique_labels[unique_labels >= median]` is never empty -/
theorem good_half_nonempty {l : List (Option α)} (hne : fins l ≠ []) :
    ∃ v ∈ unique (fins l), ¬ v < median (fins l) := by
  rcases lmin_lmax_cases (fins l) with ⟨he, _, _⟩ | ⟨mn, mx, h1, h2⟩
  · exact absurd he hne
  · have hmed := median_bounds hne (lmin_spec h1).2 (lmax_spec h2).2
    exact ⟨mx, mem_unique.mpr (lmax_spec h2).1, not_lt.mpr hmed.2⟩

/-! ### the pipelines -/

theorem all_eq_of_unique_length_one {f : List α} (h : (unique f).length = 1) :
    ∀ x ∈ f, ∀ y ∈ f, x = y := by
  obtain ⟨c, hc⟩ := List.length_eq_one_iff.mp h
  intro x hx y hy
  have hx' := mem_unique.mpr hx
  have hy' := mem_unique.mpr hy
  rw [hc] at hx' hy'
  simp at hx' hy'
  rw [hx', hy']

theorem pipeline_three (w1 w2 w3 : List (Option α) → List (Option α)) (raw : List (Raw α))
    {l : List (Option α)} (h : validate raw = .ok l) :
    pipeline [w1, w2, w3] raw =
      if allEqualFinite l then .ok (l.map fun _ => some zero)
      else if l.all Option.isNone then .ok (l.map fun _ => some (zero - one))
      else .ok (w3 (w2 (w1 l))) := by
  simp [pipeline, h, List.foldl]

theorem ptMono_const (l : List (Option α)) (c : Option α) : PtMono l (l.map fun _ => c) :=
  ⟨fun _ => c, rfl, fun _ _ _ _ _ => leO_refl c⟩

/-- the default pipeline (either rank variant) is weakly order preserving with NaN at the
bottom and yields finite labels only -/
theorem default_ptMono {F : Fns α} (hF : FnsOK F) {o : α} (ho : OffsetOK F o) (flag : Bool)
    {raw : List (Raw α)} {l : List (Option α)} (h : validate raw = .ok l) :
    ∃ out, defaultWarp F o flag raw = .ok out ∧ PtMono l out ∧ ∀ u ∈ out, u.isSome := by
  unfold defaultWarp defaultWarpers
  rw [pipeline_three _ _ _ raw h]
  by_cases hA : allEqualFinite l = true
  · exact ⟨l.map fun _ => some zero, by rw [if_pos hA], ptMono_const l _, by simp⟩
  · by_cases hB : l.all Option.isNone = true
    · exact ⟨l.map fun _ => some (zero - one), by rw [if_neg hA, if_pos hB], ptMono_const l _,
        by simp⟩
    · refine ⟨_, by rw [if_neg hA, if_neg hB], ?_, infeasible_all_some _⟩
      exact ((halfRank_ptMono hF flag l).comp (log_ptMono hF ho _)).comp
        (infeasible_ptStrict _).ptMono

/-- the outlier pipeline is weakly order preserving with NaN at the bottom -/
theorem outlier_ptMono {F : Fns α} (hF : FnsOK F) (z : α)
    {raw : List (Raw α)} {l : List (Option α)} (h : validate raw = .ok l) :
    ∃ out, outlierWarp F z raw = .ok out ∧ PtMono l out := by
  unfold outlierWarp
  rw [pipeline_three _ _ _ raw h]
  by_cases hA : allEqualFinite l = true
  · exact ⟨l.map fun _ => some zero, by rw [if_pos hA], ptMono_const l _⟩
  · by_cases hB : l.all Option.isNone = true
    · exact ⟨l.map fun _ => some (zero - one), by rw [if_neg hA, if_pos hB], ptMono_const l _⟩
    · refine ⟨_, by rw [if_neg hA, if_neg hB], ?_⟩
      exact ((detectOutliers_ptMono F z l).comp (infeasible_ptStrict _).ptMono).comp
        (transformToGaussian_ptMono hF _)

/-- two distinct finite labels: the default pipeline (documented ranks, or no NaN label) is
strictly order preserving, NaN strictly below every finite label -/
theorem default_ptStrict {F : Fns α} (hF : FnsOK F) {o : α} (ho : OffsetOK F o) (flag : Bool)
    {raw : List (Raw α)} {l : List (Option α)} (h : validate raw = .ok l)
    (hflag : flag = true ∨ ∀ u ∈ l, u ≠ none)
    {x y : α} (hx : some x ∈ l) (hy : some y ∈ l) (hxy : x < y) :
    ∃ out, defaultWarp F o flag raw = .ok out ∧ PtStrict l out := by
  unfold defaultWarp defaultWarpers
  rw [pipeline_three _ _ _ raw h]
  have hA : allEqualFinite l = false := by
    by_contra hc
    have hc' : allEqualFinite l = true := by simpa using hc
    simp only [allEqualFinite, Bool.and_eq_true, beq_iff_eq] at hc'
    exact absurd (all_eq_of_unique_length_one hc'.2 x (mem_fins.mpr hx) y (mem_fins.mpr hy))
      (ne_of_lt hxy)
  have hB : l.all Option.isNone = false := by
    by_contra hc
    have hc' : l.all Option.isNone = true := by simpa using hc
    have := List.all_eq_true.mp hc' _ hx
    simp at this
  refine ⟨_, by rw [if_neg (by simp [hA]), if_neg (by simp [hB])], ?_⟩
  have h1 := halfRank_ptStrict hF flag l hflag
  -- after half-rank there are still two distinct finite labels
  obtain ⟨g1, e1, s1, f1⟩ := h1
  obtain ⟨a, ha⟩ := Option.isSome_iff_exists.mp (f1 x hx)
  obtain ⟨b, hb⟩ := Option.isSome_iff_exists.mp (f1 y hy)
  have hab : a < b := by
    have := s1 _ hx _ hy (by simpa using hxy)
    rw [ha, hb] at this
    simpa using this
  have ha' : a ∈ fins (halfRank F flag l) := by
    rw [e1]; exact mem_fins.mpr (ha ▸ List.mem_map_of_mem hx)
  have hb' : b ∈ fins (halfRank F flag l) := by
    rw [e1]; exact mem_fins.mpr (hb ▸ List.mem_map_of_mem hy)
  rcases lmin_lmax_cases (fins (halfRank F flag l)) with ⟨he, _, _⟩ | ⟨mn, mx, m1, m2⟩
  · rw [he] at ha'; simp at ha'
  · have hmm := lmin_lt_lmax_of_lt m1 m2 ha' hb' hab
    have h2 := log_ptStrict hF ho m1 m2 hmm
    exact (PtStrict.comp ⟨g1, e1, s1, f1⟩ h2).comp (infeasible_ptStrict _)

/-! ### inverses -/

theorem infeasible_unwarp_warp (c : InfCtx α) (x : α) :
    (infPt c (some x)).map (infUnwarpPt c) = some x := by
  simp [infPt, infUnwarpPt]

theorem log_unwarp_warp {F : Fns α} (hF : FnsOK F) {o : α} (ho : OffsetOK F o) {mn mx x : α}
    (hmm : mn < mx) (hx : x ≤ mx) :
    (logPt F o mn mx (some x)).map (logUnwarpPt F o mn mx) = some x := by
  have hr : mx - mn ≠ 0 := ne_of_gt (sub_pos.mpr hmm)
  have ho1 : o - 1 ≠ 0 := ne_of_gt (sub_pos.mpr ho.one_lt)
  have hl : F.log o ≠ 0 := ne_of_gt ho.log_pos
  have h0 : 0 ≤ (mx - x) / (mx - mn) * (o - 1) :=
    mul_nonneg (div_nonneg (sub_nonneg.mpr hx) (le_of_lt (sub_pos.mpr hmm)))
      (le_of_lt (sub_pos.mpr ho.one_lt))
  simp only [logPt, hmm, if_true, Option.map_some, logUnwarpPt, Option.some.injEq, one_eq, half_eq]
  have e1 : F.log o * (1 / 2 - (1 / 2 - F.log1p ((mx - x) / (mx - mn) * (o - 1)) / F.log o))
      = F.log1p ((mx - x) / (mx - mn) * (o - 1)) := by
    field_simp
    ring
  rw [e1, hF.exp_log1p _ h0]
  field_simp
  ring

theorem lin_unwarp_warp {lo hi mn mx : α} (hlh : lo ≠ hi) (hmm : mn ≠ mx) (y : α) :
    linUnwarp lo hi mn mx (linWarp lo hi mn mx y) = y := by
  have h1 : hi - lo ≠ 0 := sub_ne_zero.mpr (Ne.symm hlh)
  have h2 : mx - mn ≠ 0 := sub_ne_zero.mpr (Ne.symm hmm)
  unfold linUnwarp linWarp
  field_simp
  ring

theorem lin_warp_strict {lo hi mn mx : α} (hlh : lo < hi) (hmm : mn < mx) {x y : α} (h : x < y) :
    linWarp lo hi mn mx x < linWarp lo hi mn mx y := by
  unfold linWarp
  have : 0 < (hi - lo) / (mx - mn) := div_pos (sub_pos.mpr hlh) (sub_pos.mpr hmm)
  have := mul_lt_mul_of_pos_right (sub_lt_sub_right h mn) this
  linarith

/-- half-rank: looking a warped observed label up in the stored table returns the label,
when the stored threshold is the median `warp` used -/
theorem hr_unwarp_warp {F : Fns α} (hF : FnsOK F) (flag : Bool) (l : List (Option α))
    (hflag : flag = true ∨ ∀ u ∈ l, u ≠ none) {x : α} (hx : some x ∈ l) :
    (hrPt F (hrCtx F flag l) (some x)).map
      (hrUnwarpPt (hrUnwarpThr true (hrCtx F flag l)) (hrTable F (hrCtx F flag l))) = some x := by
  have hn : (hrCtx F flag l).ranksNan = false := by
    rcases hflag with rfl | h
    · exact hrCtx_ranksNan_fix l
    · exact hrCtx_ranksNan_noNan flag h
  have hc := hrCtx_ok hF flag l
  have hxu := hr_mem_u (F := F) flag l x hx
  -- strictness on the unique labels gives injectivity of the table
  have hstrict : StrictOn ((hrCtx F flag l).u.map some) (hrPt F (hrCtx F flag l)) :=
    hrPt_strictOn hF hc hn (hrCtx_sd_pos hF flag l) (by
      intro z hz
      obtain ⟨w, hw, e⟩ := List.mem_map.mp hz
      cases e; exact hw)
  simp only [hrUnwarpThr, if_true]
  by_cases hlt : x < (hrCtx F flag l).med
  · have hsd := hrCtx_sd_pos hF flag l x hxu hlt
    have hw := hr_below_lt hF hc hsd hxu hlt
    simp only [hrPt, hlt, hn, if_true, Bool.false_eq_true, if_false, Option.map_some,
      Option.some.injEq]
    simp only [hrUnwarpPt, hw, if_true]
    -- the lookup finds an entry whose warped value is ours
    cases hf : (hrTable F (hrCtx F flag l)).find? (fun p => eqb p.1 _) with
    | none =>
      exfalso
      have := List.find?_eq_none.mp hf
      have hmem : (F.ppf (half * (((denseRank (hrCtx F flag l).u x : Nat) : α) - half) /
          (hrCtx F flag l).den) * (hrCtx F flag l).sd + (hrCtx F flag l).med, x) ∈
          hrTable F (hrCtx F flag l) := by
        unfold hrTable
        refine List.mem_filterMap.mpr ⟨x, hxu, ?_⟩
        simp [hrPt, hlt, hn]
      have := this _ hmem
      simp [(eqb_iff _ _).mpr rfl] at this
    | some p =>
      simp only
      have hp := List.find?_some hf
      have hpm := List.mem_of_find?_eq_some hf
      unfold hrTable at hpm
      obtain ⟨x', hx', e⟩ := List.mem_filterMap.mp hpm
      have hp1 : p.1 = _ := (eqb_iff _ _).mp hp
      -- p = (warp x', x') and warp x' = warp x, so x' = x
      cases hwx' : hrPt F (hrCtx F flag l) (some x') with
      | none => simp [hwx'] at e
      | some w' =>
        simp only [hwx', Option.map_some, Option.some.injEq] at e
        subst e
        simp only at hp1 ⊢
        have hwx : hrPt F (hrCtx F flag l) (some x) = some (F.ppf (half *
            (((denseRank (hrCtx F flag l).u x : Nat) : α) - half) / (hrCtx F flag l).den) *
            (hrCtx F flag l).sd + (hrCtx F flag l).med) := by
          simp [hrPt, hlt, hn]
        by_contra hne
        have hm1 : some x' ∈ (hrCtx F flag l).u.map some := List.mem_map_of_mem hx'
        have hm2 : some x ∈ (hrCtx F flag l).u.map some := List.mem_map_of_mem hxu
        rcases lt_or_gt_of_ne hne with hl | hl
        · have := hstrict _ hm1 _ hm2 (by simpa using hl)
          rw [hwx', hwx, hp1] at this
          simp at this
        · have := hstrict _ hm2 _ hm1 (by simpa using hl)
          rw [hwx', hwx, hp1] at this
          simp at this
  · simp [hrPt, hlt, hrUnwarpPt]

/-- the default pipeline as one pointwise map: finite outputs; on finite labels the order is
kept exactly; NaN labels end up no higher than any finite label, strictly lower as soon as two
distinct finite labels exist -/
theorem default_strict_pt {F : Fns α} (hF : FnsOK F) {o : α} (ho : OffsetOK F o) (flag : Bool)
    {raw : List (Raw α)} {l : List (Option α)} (h : validate raw = .ok l)
    (hflag : flag = true ∨ ∀ u ∈ l, u ≠ none) :
    ∃ g : Option α → Option α, defaultWarp F o flag raw = .ok (l.map g) ∧
      (∀ u ∈ l, (g u).isSome) ∧
      (∀ x y, some x ∈ l → some y ∈ l → ∀ a b, g (some x) = some a → g (some y) = some b →
        ((x < y ↔ a < b) ∧ (x = y → a = b))) ∧
      (∀ y, none ∈ l → some y ∈ l → ∀ a b, g none = some a → g (some y) = some b → a ≤ b) ∧
      ((∃ x y, some x ∈ l ∧ some y ∈ l ∧ x < y) →
        ∀ y, none ∈ l → some y ∈ l → ∀ a b, g none = some a → g (some y) = some b → a < b) := by
  obtain ⟨out, e, ⟨g, eg, mg⟩, hsome⟩ := default_ptMono hF ho flag h
  have hsome' : ∀ u ∈ l, (g u).isSome := by
    intro u hu
    exact hsome _ (eg ▸ List.mem_map_of_mem hu)
  by_cases hex : ∃ x y, some x ∈ l ∧ some y ∈ l ∧ x < y
  · obtain ⟨x0, y0, hx0, hy0, hxy0⟩ := hex
    obtain ⟨out', e', g', eg', sg', _⟩ := default_ptStrict hF ho flag h hflag hx0 hy0 hxy0
    have : out' = out := by
      rw [e] at e'; exact (Except.ok.inj e').symm
    subst this
    refine ⟨g', by rw [e, eg'], ?_, ?_, ?_, ?_⟩
    · intro u hu
      exact hsome _ (eg' ▸ List.mem_map_of_mem hu)
    · intro x y hx hy a b ha hb
      have := sg'.iff hx hy
      rw [ha, hb] at this
      refine ⟨by simpa using this.symm, ?_⟩
      rintro rfl
      rw [ha] at hb
      exact Option.some.inj hb
    · intro y hn hy a b ha hb
      have := sg' _ hn _ hy (by simp)
      rw [ha, hb] at this
      exact le_of_lt (by simpa using this)
    · intro _ y hn hy a b ha hb
      have := sg' _ hn _ hy (by simp)
      rw [ha, hb] at this
      simpa using this
  · refine ⟨g, by rw [e, eg], hsome', ?_, ?_, ?_⟩
    · intro x y hx hy a b ha hb
      have hxy : x = y := by
        by_contra hne
        rcases lt_or_gt_of_ne hne with hl | hl
        · exact hex ⟨x, y, hx, hy, hl⟩
        · exact hex ⟨y, x, hy, hx, hl⟩
      subst hxy
      rw [ha] at hb
      have : a = b := Option.some.inj hb
      subst this
      simp
    · intro y hn hy a b ha hb
      have := mg _ hn _ hy (by simp)
      rw [ha, hb] at this
      simpa using this
    · intro hex'
      exact absurd hex' hex

/-- index form of a pointwise order-preserving image -/
theorem PtMono.index {l out : List (Option α)} (h : PtMono l out) :
    out.length = l.length ∧ ∀ (i j : Nat) (u v : Option α), l[i]? = some u → l[j]? = some v → leO u v →
      ∃ u' v', out[i]? = some u' ∧ out[j]? = some v' ∧ leO u' v' := by
  obtain ⟨g, e, m⟩ := h
  subst e
  refine ⟨by simp, ?_⟩
  intro i j u v hi hj huv
  exact ⟨g u, g v, getElem?_map_of hi, getElem?_map_of hj,
    m u (mem_of_getElem? hi) v (mem_of_getElem? hj) huv⟩

end VizierModel.Warp
