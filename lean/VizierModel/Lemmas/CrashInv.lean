import VizierModel.Lemmas.Crash
namespace VizierModel.Svc

/-- `cur` = the trials `ts` legally evolved in place, followed by fresh trials with the next ids -/
def Evolved (ts cur : List Trial) : Prop :=
  ∃ base new, cur = base ++ new ∧ MapOK ts base ∧ new.map (·.id) = List.range' (maxId ts + 1) new.length

theorem Evolved.refl (ts : List Trial) : Evolved ts ts := ⟨ts, [], by simp, MapOK.refl ts, by simp⟩

theorem Evolved.trialsOK {ts cur : List Trial} (h : Evolved ts cur) (hn : Nodup' ts) : TrialsOK ts cur := by
  obtain ⟨base, new, rfl, hm, hids⟩ := h
  exact trialsOK_append (hm.trialsOK hn) hm.ids new hids

theorem Evolved.maxId_eq {ts cur : List Trial} (h : Evolved ts cur) : maxId cur = maxId ts + (cur.length - ts.length) := by
  obtain ⟨base, new, rfl, hm, hids⟩ := h
  have hb : maxId base = maxId ts := maxId_congr hm.ids
  have hl : base.length = ts.length := by
    have := congrArg List.length hm.ids
    simpa using this
  rw [maxId_append_range base new (by rw [hb]; exact hids), hb, List.length_append, hl]
  omega

theorem Evolved.length_le {ts cur : List Trial} (h : Evolved ts cur) : ts.length ≤ cur.length := by
  obtain ⟨base, new, rfl, hm, _⟩ := h
  have := congrArg List.length hm.ids
  simp at this
  rw [List.length_append]; omega

/-- precondition of a write, relative to the trials `ts` at the start of the RPC -/
def WriteOK (ts cur : List Trial) : Write → Prop
  | .putTrial a => ∃ t ∈ ts, a.id = t.id ∧ trialStepOK t a = true
  | .addTrial t => t.id = maxId cur + 1
  | .delTrial _ => False
  | _ => True

theorem apply_evolved (cfg : Cfg) {ts : List Trial} (hn : Nodup' ts) (st : Study) (w : Write)
    (h : Evolved ts st.trials) (hw : WriteOK ts st.trials w) : Evolved ts (w.apply cfg st).trials := by
  cases w with
  | createOp o => exact h
  | putOp o => exact h
  | putEsOp o => simpa [Write.apply] using h
  | setState s => exact h
  | delTrial id => exact absurd hw (by simp [WriteOK])
  | putTrial a =>
    obtain ⟨t, ht, hid, hs⟩ := hw
    obtain ⟨base, new, hcur, hm, hids⟩ := h
    show Evolved ts (st.trials.map fun y => if y.id == a.id then a else y)
    rw [hcur, List.map_append]
    refine ⟨_, _, rfl, hm.put hn ht hid hs, ?_⟩
    have hnew : new.map (fun y => if y.id == a.id then a else y) = new := by
      conv => rhs; rw [← List.map_id new]
      apply List.map_congr_left
      intro n hnm
      have : n.id ∈ new.map (·.id) := List.mem_map.mpr ⟨n, hnm, rfl⟩
      rw [hids, List.mem_range'_1] at this
      have hle := le_maxId ht
      have : ¬ n.id = a.id := by omega
      simp [this]
    rw [hnew]; exact hids
  | metadata us =>
    obtain ⟨f, hf, hmd⟩ := updateMetadata_trials cfg st us
    obtain ⟨base, new, hcur, hm, hids⟩ := h
    show Evolved ts (st.updateMetadata cfg us).2.trials
    rw [hf, hcur, List.map_append]
    refine ⟨_, _, rfl, hm.md f hmd, ?_⟩
    have : (new.map f).map (·.id) = new.map (·.id) := by
      rw [List.map_map]
      apply List.map_congr_left
      intro n _
      obtain ⟨m, hm'⟩ := hmd n
      simp [Function.comp, hm']
    rw [this, List.length_map]; exact hids
  | addTrial t =>
    have hmax := h.maxId_eq
    have hle := h.length_le
    obtain ⟨base, new, hcur, hm, hids⟩ := h
    show Evolved ts (st.trials ++ [t])
    have hbl : base.length = ts.length := by
      have := congrArg List.length hm.ids
      simpa using this
    refine ⟨base, new ++ [t], by rw [hcur, List.append_assoc], hm, ?_⟩
    have htid : t.id = maxId ts + new.length + 1 := by
      have : t.id = maxId st.trials + 1 := hw
      rw [this, hmax, hcur, List.length_append, hbl]; omega
    rw [List.map_append, hids, List.length_append]
    simp only [List.map_cons, List.map_nil, List.length_cons, List.length_nil]
    have e : maxId ts + new.length + 1 = (maxId ts + 1) + 1 * new.length := by omega
    rw [htid, e]
    have := List.range'_append (s := maxId ts + 1) (m := new.length) (n := 1) (step := 1)
    simp only [List.range'_one] at this
    rw [this]

/-- every write of the chain meets its precondition at the point where it is issued -/
def ChainOK (cfg : Cfg) (ts : List Trial) : Study → List Write → Prop
  | _, [] => True
  | st, w :: ws => WriteOK ts st.trials w ∧ ChainOK cfg ts (w.apply cfg st) ws

theorem chain_append (cfg : Cfg) (ts : List Trial) (st : Study) (a b : List Write) :
    ChainOK cfg ts st (a ++ b) ↔ ChainOK cfg ts st a ∧ ChainOK cfg ts (applyWrites cfg st a) b := by
  induction a generalizing st with
  | nil => simp [ChainOK]
  | cons w ws ih =>
    simp only [List.cons_append, ChainOK, applyWrites_cons, ih, and_assoc]

/-- MAIN LEMMA: after ANY prefix of a well-formed chain of writes the trials are a legal evolution -/
theorem chain_prefix (cfg : Cfg) {ts : List Trial} (hn : Nodup' ts) (st : Study) (ws : List Write)
    (h : Evolved ts st.trials) (hc : ChainOK cfg ts st ws) (k : Nat) :
    Evolved ts (applyWrites cfg st (ws.take k)).trials := by
  induction ws generalizing st k with
  | nil => simpa using h
  | cons w ws ih =>
    cases k with
    | zero => simpa using h
    | succ k =>
      rw [List.take_succ_cons, applyWrites_cons]
      exact ih _ (apply_evolved cfg hn st w h hc.1) hc.2 k

theorem chain_puts (cfg : Cfg) (ts : List Trial) (st : Study) (as : List Trial)
    (has : ∀ a ∈ as, ∃ t ∈ ts, a.id = t.id ∧ trialStepOK t a = true) :
    ChainOK cfg ts st (as.map .putTrial) := by
  induction as generalizing st with
  | nil => trivial
  | cons a as ih =>
    exact ⟨has a List.mem_cons_self, ih _ (fun b hb => has b (List.mem_cons_of_mem _ hb))⟩

theorem maxId_concat (l : List Trial) (t : Trial) : maxId (l ++ [t]) = max (maxId l) t.id := by
  simp [maxId, List.foldl_append]

theorem chain_adds (cfg : Cfg) (ts : List Trial) (st : Study) (l : List Trial)
    (hids : l.map (·.id) = List.range' (maxId st.trials + 1) l.length) :
    ChainOK cfg ts st (l.map .addTrial) := by
  induction l generalizing st with
  | nil => trivial
  | cons a as ih =>
    simp only [List.map_cons, List.length_cons, List.range'_succ, List.cons.injEq] at hids
    refine ⟨hids.1, ih _ ?_⟩
    show as.map (·.id) = List.range' (maxId (st.trials ++ [a]) + 1) as.length
    rw [maxId_concat, hids.1]
    have : max (maxId st.trials) (maxId st.trials + 1) = maxId st.trials + 1 := by omega
    rw [this]; exact hids.2

theorem chain_single (cfg : Cfg) (ts : List Trial) (st : Study) (w : Write) (h : WriteOK ts st.trials w) :
    ChainOK cfg ts st [w] := ⟨h, trivial⟩

end VizierModel.Svc

namespace VizierModel.Svc

theorem chain_createWrites (cfg : Cfg) (ts : List Trial) (op0 : SugOp) (st : Study) (need : Nat) (out : List Trial)
    (sugg : List Sugg) : ChainOK cfg ts st (createWrites cfg op0 st need out sugg) := by
  unfold createWrites
  have hc := takeFromEnd_ids op0.client need (st.maxTrialId + 1) sugg
  generalize takeFromEnd op0.client need (st.maxTrialId + 1) sugg = r at *
  obtain ⟨created, rest, short⟩ := r
  simp only at hc ⊢
  split
  · exact chain_adds cfg ts st created hc
  · rw [chain_append, chain_append]
    refine ⟨⟨chain_adds cfg ts st created hc, ?_⟩, chain_single cfg ts _ _ trivial⟩
    apply chain_adds
    rw [applyWrites_addTrials]
    simp only
    rw [maxId_append_range st.trials created hc, surplus_ids, maxTrialId_eq]
    congr 1
    omega

theorem chain_pythiaWrites (cfg : Cfg) (ts : List Trial) (op0 : SugOp) (st : Study) (need : Nat) (out : List Trial)
    (alg : AlgOutcome) : ChainOK cfg ts st (pythiaWrites cfg op0 st need out alg) := by
  unfold pythiaWrites
  split
  · exact chain_single cfg ts st _ trivial
  · split
    · exact chain_single cfg ts st _ trivial
    · trivial
  · simp only
    split
    · exact ⟨trivial, trivial, trivial⟩
    · exact ⟨trivial, chain_createWrites cfg ts op0 _ need out _⟩

theorem chain_suggestRestWrites (cfg : Cfg) (op0 : SugOp) (st : Study) (client : String) (count : Nat)
    (alg : AlgOutcome) : ChainOK cfg st.trials st (suggestRestWrites cfg op0 st client count alg) := by
  unfold suggestRestWrites
  simp only
  split
  · exact ⟨trivial, trivial⟩
  · rw [chain_append]
    constructor
    · apply chain_puts
      intro a ha
      obtain ⟨t, ht, rfl⟩ := assignRequested_spec _ _ _ a ha
      have htm := List.mem_filter.mp ht
      have hreq : t.state = .requested := by simpa using htm.2
      refine ⟨t, htm.1, rfl, ?_⟩
      rw [trialStepOK_iff]
      exact ⟨by simp [hreq, legal], rfl, fun hc => by simp [hreq, TState.completed] at hc, fun hne => absurd hreq hne⟩
    · split
      · exact chain_single cfg _ _ _ trivial
      · rw [applyWrites_putTrials]
        exact chain_pythiaWrites cfg _ _ _ _ _ alg

theorem chain_suggestWrites (cfg : Cfg) (st : Study) (client : String) (count : Nat) (alg : AlgOutcome) :
    ChainOK cfg st.trials st (suggestWrites cfg st client count alg) := by
  unfold suggestWrites
  simp only
  split
  · split
    · exact chain_suggestRestWrites cfg _ st client count alg
    · trivial
  · exact ⟨trivial, chain_suggestRestWrites cfg _ { st with sugOps := st.sugOps ++ [_] } client count alg⟩

/-- **C05 (SuggestTrials)**: whatever prefix of its datastore writes survived the crash, the study's
    trials are a legal evolution of the trials before the call: legal states, unchanged parameters,
    completed trials untouched, unique ids, new ids above all old ones. -/
theorem suggest_crash_ok (cfg : Cfg) (st : Study) (client : String) (count : Nat) (alg : AlgOutcome)
    (hn : Nodup' st.trials) (k : Nat) :
    TrialsOK st.trials (applyWrites cfg st ((suggestWrites cfg st client count alg).take k)).trials :=
  (chain_prefix cfg hn st _ (Evolved.refl _) (chain_suggestWrites cfg st client count alg) k).trialsOK hn

theorem keyOf_apply (cfg : Cfg) (st : Study) (w : Write) : keyOf (w.apply cfg st) = keyOf st := by
  cases w with
  | createOp o => rfl
  | putOp o => rfl
  | putTrial t => rfl
  | addTrial t => rfl
  | delTrial id => rfl
  | metadata us => exact keyOf_updateMetadata cfg st us
  | putEsOp o => exact keyOf_putEsOp st o
  | setState s => rfl

theorem keyOf_applyWrites (cfg : Cfg) (st : Study) (ws : List Write) : keyOf (applyWrites cfg st ws) = keyOf st := by
  induction ws generalizing st with
  | nil => rfl
  | cons y ys ih => rw [applyWrites_cons, ih, keyOf_apply]

end VizierModel.Svc
