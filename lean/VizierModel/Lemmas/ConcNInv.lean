/-
C04, any number of threads — the invariant carried along an interleaved schedule.

After a prefix `pre` of the schedule (configuration `c`), there is a serial order `σ` of the threads that have
run their section or have FAILED their check such that (`Core`)
  * the serial execution of `σ` reaches the same study as the prefix,
  * every thread whose section ran observes the same in both,
  * a thread whose check failed is refused in the serial execution (it sits in `σ` at the place of its check),
and (`Blk`) `σ = P ++ B` where `B` is a `Block` (SetStudyState sections leading to an immutable study, and
refused threads) — so that a state-independent section that runs while the study is immutable although its
check passed can be inserted between `P` and `B` — and, while the study is immutable, either the study was
mutable after `P` or no checking thread with a passed check is waiting (`NoStalePending`; this is the phase
before the study first becomes mutable).
-/
import VizierModel.Lemmas.ConcNSerial

namespace VizierModel.Conc
open VizierModel.Svc

/-! ### the three ways a step changes the configuration -/

def chkState (c : CStateN) (k : Nat) (b : Bool) : CStateN := { c with pass := (k, b) :: c.pass }
def bodyState (c : CStateN) (k : Nat) (r : Resp × Study) : CStateN := { c with st := r.2, resp := (k, r.1) :: c.resp }
def refState (c : CStateN) (k : Nat) : CStateN := { c with resp := (k, refused) :: c.resp }

theorem stepN_chk_some {ts : List Crit} {k : Nat} {t : Crit} (h : ts[k]? = some t) (c : CStateN) :
    stepN ts c (.chk k) = chkState c k (!(t.checks && c.st.immutable)) := by
  simp only [stepN, h, chkState]

theorem stepN_body_pass {ts : List Crit} {k : Nat} {t : Crit} (h : ts[k]? = some t) (c : CStateN)
    (hp : c.passOf k = true) : stepN ts c (.body k) = bodyState c k (t.body c.st) := by
  simp only [stepN, h, hp, bodyState, if_true]

theorem stepN_body_ref {ts : List Crit} {k : Nat} {t : Crit} (h : ts[k]? = some t) (c : CStateN)
    (hp : c.passOf k = false) : stepN ts c (.body k) = refState c k := by
  simp [stepN, h, hp, refState]

theorem stepN_chk_none {ts : List Crit} {k : Nat} (h : ts[k]? = none) (c : CStateN) : stepN ts c (.chk k) = c := by
  simp only [stepN, h]

theorem stepN_body_none {ts : List Crit} {k : Nat} (h : ts[k]? = none) (c : CStateN) : stepN ts c (.body k) = c := by
  simp only [stepN, h]

theorem passOf_chkState (c : CStateN) (k : Nat) (b : Bool) (i : Nat) :
    (chkState c k b).passOf i = if i = k then b else c.passOf i := by
  unfold CStateN.passOf chkState
  by_cases h : i = k
  · subst h; simp
  · have hb : (i == k) = false := by simpa using h
    simp [List.lookup_cons, hb, h]

theorem lt_of_getElem?_some {ts : List Crit} {k : Nat} {t : Crit} (h : ts[k]? = some t) : k < ts.length := by
  obtain ⟨hk, _⟩ := List.getElem?_eq_some_iff.mp h
  exact hk

/-! ### serial execution extended by one thread -/

theorem serRun_snoc_body {ts : List Crit} {k : Nat} {t : Crit} (hj : ts[k]? = some t) (st : Study) (σ : List Nat)
    (hp : (t.checks && (serRun ts st σ).1.immutable) = false) :
    serRun ts st (σ ++ [k]) =
      ((t.body (serRun ts st σ).1).2, (k, (t.body (serRun ts st σ).1).1) :: (serRun ts st σ).2) := by
  rw [serRun_snoc]
  exact serStepN_body hj _ hp _

theorem serRun_snoc_refused {ts : List Crit} {k : Nat} {t : Crit} (hj : ts[k]? = some t) (st : Study) (σ : List Nat)
    (hc : t.checks = true) (hi : (serRun ts st σ).1.immutable = true) :
    serRun ts st (σ ++ [k]) = ((serRun ts st σ).1, (k, refused) :: (serRun ts st σ).2) := by
  rw [serRun_snoc]
  exact serStepN_refused hj hc _ hi _

/-! ### the core invariant -/

structure Core (ts : List Crit) (st : Study) (pre : List EvN) (c : CStateN) (σ : List Nat) : Prop where
  nodup : σ.Nodup
  mem : ∀ i, i ∈ σ ↔ i < ts.length ∧ (EvN.body i ∈ pre ∨ c.passOf i = false)
  st_eq : c.st = (serRun ts st σ).1
  resp_eq : ∀ i, i < ts.length → EvN.body i ∈ pre → obsOf c.resp i = obsOf (serRun ts st σ).2 i
  failed : ∀ i, c.passOf i = false → obsOf (serRun ts st σ).2 i = some (obs refused)
  chked : ∀ i, c.passOf i = false → EvN.chk i ∈ pre

theorem Core.init (ts : List Crit) (st : Study) : Core ts st [] { st := st } [] where
  nodup := List.nodup_nil
  mem := by intro i; simp [CStateN.passOf]
  st_eq := rfl
  resp_eq := by intro i _ h; simp at h
  failed := by intro i h; simp [CStateN.passOf] at h
  chked := by intro i h; simp [CStateN.passOf] at h

/-- a thread that is not yet in the order: its section has not run and its check has not failed -/
theorem Core.not_mem {ts : List Crit} {st : Study} {pre : List EvN} {c : CStateN} {σ : List Nat}
    (h : Core ts st pre c σ) (k : Nat) (hb : EvN.body k ∉ pre) (hp : c.passOf k = false → False) : k ∉ σ := by
  intro hm
  rcases ((h.mem k).mp hm).2 with h1 | h1
  · exact hb h1
  · exact hp h1

/-- an event of a thread number out of range -/
theorem Core.none {ts : List Crit} {st : Study} {pre : List EvN} {c : CStateN} {σ : List Nat}
    (h : Core ts st pre c σ) (e : EvN) (he : ∀ i, i < ts.length → e ≠ .body i) :
    Core ts st (pre ++ [e]) c σ where
  nodup := h.nodup
  mem := by
    intro i
    rw [h.mem i]
    constructor
    · rintro ⟨hi, h1 | h1⟩
      · exact ⟨hi, Or.inl (List.mem_append_left _ h1)⟩
      · exact ⟨hi, Or.inr h1⟩
    · rintro ⟨hi, h1 | h1⟩
      · rcases List.mem_append.mp h1 with h2 | h2
        · exact ⟨hi, Or.inl h2⟩
        · exact absurd (List.mem_singleton.mp h2).symm (he i hi)
      · exact ⟨hi, Or.inr h1⟩
  st_eq := h.st_eq
  resp_eq := by
    intro i hi hb
    rcases List.mem_append.mp hb with h2 | h2
    · exact h.resp_eq i hi h2
    · exact absurd (List.mem_singleton.mp h2).symm (he i hi)
  failed := h.failed
  chked := fun i hp => List.mem_append_left _ (h.chked i hp)

/-- a check that passes -/
theorem Core.chk_pass {ts : List Crit} {st : Study} {pre : List EvN} {c : CStateN} {σ : List Nat}
    (h : Core ts st pre c σ) (k : Nat) (hk1 : EvN.chk k ∉ pre) (hk2 : EvN.body k ∉ pre) :
    Core ts st (pre ++ [.chk k]) (chkState c k true) σ where
  nodup := h.nodup
  mem := by
    intro i
    rw [h.mem i, passOf_chkState]
    by_cases hik : i = k
    · subst hik
      have : c.passOf i ≠ false := fun hp => hk1 (h.chked i hp)
      simp [hk2, this]
    · simp [hik]
  st_eq := h.st_eq
  resp_eq := by
    intro i hi hb
    have : EvN.body i ∈ pre := by simpa using hb
    exact h.resp_eq i hi this
  failed := by
    intro i hp
    rw [passOf_chkState] at hp
    by_cases hik : i = k
    · simp [hik] at hp
    · rw [if_neg hik] at hp; exact h.failed i hp
  chked := by
    intro i hp
    rw [passOf_chkState] at hp
    by_cases hik : i = k
    · simp [hik] at hp
    · rw [if_neg hik] at hp; exact List.mem_append_left _ (h.chked i hp)

/-- a check that fails: the thread enters the order here -/
theorem Core.chk_fail {ts : List Crit} {st : Study} {pre : List EvN} {c : CStateN} {σ : List Nat}
    (h : Core ts st pre c σ) {k : Nat} {t : Crit} (hj : ts[k]? = some t) (hc : t.checks = true)
    (hi : c.st.immutable = true) (hk1 : EvN.chk k ∉ pre) (hk2 : EvN.body k ∉ pre) :
    Core ts st (pre ++ [.chk k]) (chkState c k false) (σ ++ [k]) := by
  have hkσ : k ∉ σ := h.not_mem k hk2 (fun hp => hk1 (h.chked k hp))
  have hrun := serRun_snoc_refused hj st σ hc (by rw [← h.st_eq]; exact hi)
  have hkn := lt_of_getElem?_some hj
  refine ⟨?_, ?_, ?_, ?_, ?_, ?_⟩
  · exact List.nodup_append.mpr ⟨h.nodup, List.nodup_cons.mpr ⟨List.not_mem_nil, List.nodup_nil⟩, by
      intro a ha b hb; rw [List.mem_singleton.mp hb]; intro e; exact hkσ (e ▸ ha)⟩
  · intro i
    rw [List.mem_append, h.mem i, passOf_chkState]
    by_cases hik : i = k
    · subst hik; simp [hkn]
    · simp [hik]
  · rw [hrun]; exact h.st_eq
  · intro i hin hb
    have hb' : EvN.body i ∈ pre := by simpa using hb
    have hik : i ≠ k := fun e => hk2 (e ▸ hb')
    rw [hrun, obsOf_cons_ne _ _ _ _ hik]
    exact h.resp_eq i hin hb'
  · intro i hp
    rw [passOf_chkState] at hp
    rw [hrun]
    by_cases hik : i = k
    · rw [hik, obsOf_cons_self]
    · rw [if_neg hik] at hp
      rw [obsOf_cons_ne _ _ _ _ hik]
      exact h.failed i hp
  · intro i hp
    rw [passOf_chkState] at hp
    by_cases hik : i = k
    · rw [hik]; simp
    · rw [if_neg hik] at hp; exact List.mem_append_left _ (h.chked i hp)

/-- the section of a thread whose check failed: it is already in the order -/
theorem Core.body_ref {ts : List Crit} {st : Study} {pre : List EvN} {c : CStateN} {σ : List Nat}
    (h : Core ts st pre c σ) {k : Nat} (hkn : k < ts.length) (hp : c.passOf k = false) :
    Core ts st (pre ++ [.body k]) (refState c k) σ where
  nodup := h.nodup
  mem := by
    intro i
    rw [h.mem i]
    show _ ↔ i < ts.length ∧ (EvN.body i ∈ pre ++ [EvN.body k] ∨ c.passOf i = false)
    by_cases hik : i = k
    · subst hik; simp [hp]
    · simp [hik]
  st_eq := h.st_eq
  resp_eq := by
    intro i hi hb
    show obsOf ((k, refused) :: c.resp) i = _
    by_cases hik : i = k
    · rw [hik, obsOf_cons_self, h.failed k hp]
    · have hb' : EvN.body i ∈ pre := by simpa [hik] using hb
      rw [obsOf_cons_ne _ _ _ _ hik]
      exact h.resp_eq i hi hb'
  failed := h.failed
  chked := fun i hp' => List.mem_append_left _ (h.chked i hp')

/-- a section that runs where the serial check passes too: the thread is appended to the order -/
theorem Core.body_append {ts : List Crit} {st : Study} {pre : List EvN} {c : CStateN} {σ : List Nat}
    (h : Core ts st pre c σ) {k : Nat} {t : Crit} (hj : ts[k]? = some t) (hp : c.passOf k = true)
    (hser : (t.checks && c.st.immutable) = false) (hk2 : EvN.body k ∉ pre) :
    Core ts st (pre ++ [.body k]) (bodyState c k (t.body c.st)) (σ ++ [k]) := by
  have hkσ : k ∉ σ := h.not_mem k hk2 (fun hp' => by rw [hp] at hp'; exact Bool.noConfusion hp')
  have hrun := serRun_snoc_body hj st σ (by rw [← h.st_eq]; exact hser)
  rw [← h.st_eq] at hrun
  have hkn := lt_of_getElem?_some hj
  refine ⟨?_, ?_, ?_, ?_, ?_, ?_⟩
  · exact List.nodup_append.mpr ⟨h.nodup, List.nodup_cons.mpr ⟨List.not_mem_nil, List.nodup_nil⟩, by
      intro a ha b hb; rw [List.mem_singleton.mp hb]; intro e; exact hkσ (e ▸ ha)⟩
  · intro i
    rw [List.mem_append, h.mem i]
    show _ ↔ i < ts.length ∧ (EvN.body i ∈ pre ++ [EvN.body k] ∨ c.passOf i = false)
    by_cases hik : i = k
    · subst hik; simp [hkn]
    · simp [hik]
  · rw [hrun]; rfl
  · intro i hin hb
    rw [hrun]
    show obsOf ((k, (t.body c.st).1) :: c.resp) i = _
    by_cases hik : i = k
    · rw [hik, obsOf_cons_self, obsOf_cons_self]
    · have hb' : EvN.body i ∈ pre := by simpa [hik] using hb
      rw [obsOf_cons_ne _ _ _ _ hik, obsOf_cons_ne _ _ _ _ hik]
      exact h.resp_eq i hin hb'
  · intro i hp'
    have hp'' : c.passOf i = false := hp'
    have hik : i ≠ k := fun e => by rw [e, hp] at hp''; exact Bool.noConfusion hp''
    rw [hrun, obsOf_cons_ne _ _ _ _ hik]
    exact h.failed i hp''
  · exact fun i hp' => List.mem_append_left _ (h.chked i hp')

/-- a state-independent section that runs behind a block: the thread is inserted in front of the block -/
theorem Core.insert {ts : List Crit} {st : Study} {pre : List EvN} {c : CStateN} {P B : List Nat}
    (h : Core ts st pre c (P ++ B)) (hblock : Block ts (serRun ts st P).1.state B c.st.state)
    {k : Nat} {t : Crit} (hj : ts[k]? = some t) (hsi : StateIndep t) (hp : c.passOf k = true)
    (hser : (t.checks && (serRun ts st P).1.immutable) = false) (hk2 : EvN.body k ∉ pre) :
    Core ts st (pre ++ [.body k]) (bodyState c k (t.body c.st)) ((P ++ [k]) ++ B) := by
  have hkσ : k ∉ P ++ B := h.not_mem k hk2 (fun hp' => by rw [hp] at hp'; exact Bool.noConfusion hp')
  have hkP : k ∉ P := fun hm => hkσ (List.mem_append_left _ hm)
  have hkB : k ∉ B := fun hm => hkσ (List.mem_append_right _ hm)
  have hkn := lt_of_getElem?_some hj
  -- the study behind `P ++ B` is the study behind `P` with the state overwritten
  have hcst : c.st = { (serRun ts st P).1 with state := c.st.state } := by
    have hrunB : (serRun ts st (P ++ B)).1 = { (serRun ts st P).1 with state := c.st.state } := by
      rw [serRun_append]
      exact hblock.run _ _ rfl
    exact h.st_eq.trans hrunB
  have hP := serRun_snoc_body hj st P hser
  have hstate : (t.body (serRun ts st P).1).2.state = (serRun ts st P).1.state := hsi.state_eq _
  have hbody : t.body c.st = ((t.body (serRun ts st P).1).1,
      { (t.body (serRun ts st P).1).2 with state := c.st.state }) := by
    conv => lhs; rw [hcst]
    exact hsi _ _
  -- the new serial run
  have hnew1 : (serRun ts st ((P ++ [k]) ++ B)).1 = { (t.body (serRun ts st P).1).2 with state := c.st.state } := by
    rw [serRun_append ts st (P ++ [k]) B, hP]
    exact hblock.run _ _ hstate
  have hsim : ∀ j, j ≠ k → obsOf (serRun ts st ((P ++ [k]) ++ B)).2 j = obsOf (serRun ts st (P ++ B)).2 j := by
    intro j hjk
    rw [serRun_append ts st (P ++ [k]) B, serRun_append ts st P B, hP]
    exact hblock.obs_sim k _ _ _ _ hstate rfl (fun j hjk => obsOf_cons_ne _ _ _ _ hjk) j hjk
  have hnewk : obsOf (serRun ts st ((P ++ [k]) ++ B)).2 k = some (obs (t.body (serRun ts st P).1).1) := by
    rw [serRun_append ts st (P ++ [k]) B, hP, obsOf_foldl_notMem ts B k hkB, obsOf_cons_self]
  refine ⟨?_, ?_, ?_, ?_, ?_, ?_⟩
  · have hnd := List.nodup_append.mp h.nodup
    refine List.nodup_append.mpr ⟨List.nodup_append.mpr ⟨hnd.1, List.nodup_cons.mpr ⟨List.not_mem_nil, List.nodup_nil⟩, ?_⟩, hnd.2.1, ?_⟩
    · intro a ha b hb; rw [List.mem_singleton.mp hb]; intro e; exact hkP (e ▸ ha)
    · intro a ha b hb
      rcases List.mem_append.mp ha with ha | ha
      · exact hnd.2.2 a ha b hb
      · rw [List.mem_singleton.mp ha]; intro e; exact hkB (e ▸ hb)
  · intro i
    have hm := h.mem i
    show _ ↔ i < ts.length ∧ (EvN.body i ∈ pre ++ [EvN.body k] ∨ c.passOf i = false)
    have e1 : i ∈ (P ++ [k]) ++ B ↔ (i ∈ P ++ B ∨ i = k) := by
      simp only [List.mem_append, List.mem_singleton]
      constructor
      · rintro ((h1 | h1) | h1)
        · exact Or.inl (Or.inl h1)
        · exact Or.inr h1
        · exact Or.inl (Or.inr h1)
      · rintro ((h1 | h1) | h1)
        · exact Or.inl (Or.inl h1)
        · exact Or.inr h1
        · exact Or.inl (Or.inr h1)
    rw [e1, hm]
    by_cases hik : i = k
    · subst hik; simp [hkn]
    · simp [hik]
  · show (t.body c.st).2 = _
    rw [hnew1, hbody]
  · intro i hin hb
    show obsOf ((k, (t.body c.st).1) :: c.resp) i = _
    by_cases hik : i = k
    · rw [hik, obsOf_cons_self, hnewk, hbody]
    · have hb' : EvN.body i ∈ pre := by simpa [hik] using hb
      rw [obsOf_cons_ne _ _ _ _ hik, hsim i hik]
      exact h.resp_eq i hin hb'
  · intro i hp'
    have hp'' : c.passOf i = false := hp'
    have hik : i ≠ k := fun e => by rw [e, hp] at hp''; exact Bool.noConfusion hp''
    rw [hsim i hik]
    exact h.failed i hp''
  · exact fun i hp' => List.mem_append_left _ (h.chked i hp')

end VizierModel.Conc
