/-
Fine-grained lock semantics ⇒ atomic critical sections (C04).

`Model/Conc.lean` treats the body of a study-lock RPC as ONE atomic event "by mutual exclusion".
This file proves that step for the fine-grained semantics: two threads, each
`acquire L; op₁; …; opₙ; release L` with arbitrary operations on the shared state and on thread-local
state, scheduled step by step in ANY order the lock allows, end in the state of one of the two serial
orders.  Core Lean only.
-/
namespace VizierModel.ConcLock

inductive Act (σ κ : Type) where
  | acq
  | rel
  | op (f : σ → κ → σ × κ)

structure Th (κ : Type) where
  pc : Nat
  loc : κ

structure G (σ κ : Type) where
  sh : σ
  holder : Option Bool       -- `some true` = thread A holds the lock
  a : Th κ
  b : Th κ

variable {σ κ : Type}

/-- `acquire; ops…; release` -/
def section_ (ops : List (σ → κ → σ × κ)) : List (Act σ κ) := Act.acq :: (ops.map Act.op ++ [Act.rel])

/-- one scheduling step of thread `t`; `none` = not enabled (finished, or waiting for the lock) -/
def stepT (pA pB : List (Act σ κ)) (g : G σ κ) (t : Bool) : Option (G σ κ) :=
  if t then
    match pA[g.a.pc]? with
    | none => none
    | some .acq => if g.holder.isNone then some { g with holder := some true, a := { g.a with pc := g.a.pc + 1 } } else none
    | some .rel => if g.holder == some true then some { g with holder := none, a := { g.a with pc := g.a.pc + 1 } } else none
    | some (.op f) => let r := f g.sh g.a.loc; some { g with sh := r.1, a := { pc := g.a.pc + 1, loc := r.2 } }
  else
    match pB[g.b.pc]? with
    | none => none
    | some .acq => if g.holder.isNone then some { g with holder := some false, b := { g.b with pc := g.b.pc + 1 } } else none
    | some .rel => if g.holder == some false then some { g with holder := none, b := { g.b with pc := g.b.pc + 1 } } else none
    | some (.op f) => let r := f g.sh g.b.loc; some { g with sh := r.1, b := { pc := g.b.pc + 1, loc := r.2 } }

/-- run a schedule; `none` as soon as a scheduled thread is not enabled -/
def run (pA pB : List (Act σ κ)) : G σ κ → List Bool → Option (G σ κ)
  | g, [] => some g
  | g, t :: ts => match stepT pA pB g t with
    | none => none
    | some g' => run pA pB g' ts

/-- sequential execution of the operations of a section -/
def exec (ops : List (σ → κ → σ × κ)) (s : σ) (k : κ) : σ × κ :=
  ops.foldl (fun x f => f x.1 x.2) (s, k)

theorem exec_cons (f : σ → κ → σ × κ) (ops : List (σ → κ → σ × κ)) (s : σ) (k : κ) :
    exec (f :: ops) s k = exec ops (f s k).1 (f s k).2 := rfl

/-! ### a single thread running alone from inside / before its section -/

theorem get_section_zero (ops : List (σ → κ → σ × κ)) : (section_ ops)[0]? = some (Act.acq : Act σ κ) := rfl

theorem get_section_succ (ops : List (σ → κ → σ × κ)) (i : Nat) :
    (section_ ops)[i + 1]? = (ops.map Act.op ++ [Act.rel])[i]? := rfl

theorem get_body (ops : List (σ → κ → σ × κ)) (i : Nat) :
    (ops.map (Act.op (σ := σ) (κ := κ)) ++ [Act.rel])[i]? =
      if h : i < ops.length then some (Act.op ops[i]) else if i = ops.length then some Act.rel else none := by
  by_cases h : i < ops.length
  · simp [h, List.getElem?_append_left]
  · simp only [h, dif_neg, not_false_eq_true]
    have hl : (ops.map (Act.op (σ := σ) (κ := κ))).length ≤ i := by simpa using Nat.le_of_not_lt h
    rw [List.getElem?_append_right hl]
    simp only [List.length_map]
    by_cases he : i = ops.length
    · simp [he]
    · have : i - ops.length ≠ 0 := by omega
      simp only [he, if_false]
      cases hd : i - ops.length with
      | zero => exact absurd hd this
      | succ n => rfl

theorem get_section (ops : List (σ → κ → σ × κ)) (i : Nat) :
    (section_ ops)[i + 1]? =
      if h : i < ops.length then some (Act.op ops[i]) else if i = ops.length then some Act.rel else none := by
  rw [get_section_succ, get_body]

theorem get_section_done (ops : List (σ → κ → σ × κ)) : (section_ ops)[ops.length + 2]? = (none : Option (Act σ κ)) := by
  have := get_section ops (ops.length + 1)
  rw [this]
  have h1 : ¬ (ops.length + 1 < ops.length) := by omega
  have h2 : ¬ (ops.length + 1 = ops.length) := by omega
  simp only [h1, dif_neg, not_false_eq_true, h2, if_false]

theorem exec_drop (ops : List (σ → κ → σ × κ)) (i : Nat) (h : i < ops.length) (s : σ) (k : κ) :
    exec (ops.drop i) s k = exec (ops.drop (i + 1)) (ops[i] s k).1 (ops[i] s k).2 := by
  rw [List.drop_eq_getElem_cons h, exec_cons]

/-- B cannot move: it is finished, or it waits for the lock -/
def BStuck (pB : List (Act σ κ)) (b : Th κ) : Prop := pB[b.pc]? = none ∨ pB[b.pc]? = some Act.acq

theorem stepB_stuck (pA pB : List (Act σ κ)) (g : G σ κ) (hb : BStuck pB g.b) (hh : g.holder = some true) :
    stepT pA pB g false = none := by
  unfold stepT
  rcases hb with h | h <;> simp [h, hh]

def AStuck (pA : List (Act σ κ)) (a : Th κ) : Prop := pA[a.pc]? = none ∨ pA[a.pc]? = some Act.acq

theorem stepA_stuck (pA pB : List (Act σ κ)) (g : G σ κ) (ha : AStuck pA g.a) (hh : g.holder = some false) :
    stepT pA pB g true = none := by
  unfold stepT
  rcases ha with h | h <;> simp [h, hh]

/-- A is inside its section (it has done `i` operations), B cannot move: whatever the schedule, if A
    ends finished then the run passes through the state "A's section executed, lock free" -/
theorem runA_inside (opsA : List (σ → κ → σ × κ)) (pB : List (Act σ κ)) (sched : List Bool) :
    ∀ (g g' : G σ κ) (i : Nat), g.a.pc = i + 1 → i ≤ opsA.length → g.holder = some true → BStuck pB g.b →
      run (section_ opsA) pB g sched = some g' → g'.a.pc = opsA.length + 2 →
      ∃ ts', run (section_ opsA) pB
        { sh := (exec (opsA.drop i) g.sh g.a.loc).1, holder := none,
          a := { pc := opsA.length + 2, loc := (exec (opsA.drop i) g.sh g.a.loc).2 }, b := g.b } ts' = some g' := by
  induction sched with
  | nil =>
    intro g g' i hpc hi _ _ hrun hfin
    simp only [run, Option.some.injEq] at hrun
    subst hrun
    omega
  | cons t ts ih =>
    intro g g' i hpc hi hh hb hrun hfin
    cases t with
    | false =>
      simp only [run, stepB_stuck _ pB g hb hh] at hrun
      cases hrun
    | true =>
      simp only [run] at hrun
      by_cases hlt : i < opsA.length
      · -- an operation of A
        have hget : (section_ opsA)[g.a.pc]? = some (Act.op opsA[i]) := by
          rw [hpc, get_section]; simp [hlt]
        have hstep : stepT (section_ opsA) pB g true =
            some { g with sh := (opsA[i] g.sh g.a.loc).1, a := { pc := g.a.pc + 1, loc := (opsA[i] g.sh g.a.loc).2 } } := by
          unfold stepT; simp [hget]
        rw [hstep] at hrun
        simp only at hrun
        have := ih { g with sh := (opsA[i] g.sh g.a.loc).1, a := { pc := g.a.pc + 1, loc := (opsA[i] g.sh g.a.loc).2 } }
          g' (i + 1) (by simp [hpc]) (by omega) hh hb hrun hfin
        rw [exec_drop opsA i hlt]
        exact this
      · -- the release
        have hi' : i = opsA.length := by omega
        have hget : (section_ opsA)[g.a.pc]? = some Act.rel := by
          rw [hpc, get_section]; simp [hi']
        have hstep : stepT (section_ opsA) pB g true =
            some { g with holder := none, a := { g.a with pc := g.a.pc + 1 } } := by
          unfold stepT; simp [hget, hh]
        rw [hstep] at hrun
        refine ⟨ts, ?_⟩
        have hd : opsA.drop i = [] := by rw [hi']; exact List.drop_length
        rw [hd]
        simp only [exec, List.foldl_nil]
        have : ({ g with holder := none, a := { g.a with pc := g.a.pc + 1 } } : G σ κ) =
            { sh := g.sh, holder := none, a := { pc := opsA.length + 2, loc := g.a.loc }, b := g.b } := by
          rw [hpc, hi']
        rw [← this]; exact hrun

theorem runB_inside (pA : List (Act σ κ)) (opsB : List (σ → κ → σ × κ)) (sched : List Bool) :
    ∀ (g g' : G σ κ) (i : Nat), g.b.pc = i + 1 → i ≤ opsB.length → g.holder = some false → AStuck pA g.a →
      run pA (section_ opsB) g sched = some g' → g'.b.pc = opsB.length + 2 →
      ∃ ts', run pA (section_ opsB)
        { sh := (exec (opsB.drop i) g.sh g.b.loc).1, holder := none, a := g.a,
          b := { pc := opsB.length + 2, loc := (exec (opsB.drop i) g.sh g.b.loc).2 } } ts' = some g' := by
  induction sched with
  | nil =>
    intro g g' i hpc hi _ _ hrun hfin
    simp only [run, Option.some.injEq] at hrun
    subst hrun
    omega
  | cons t ts ih =>
    intro g g' i hpc hi hh ha hrun hfin
    cases t with
    | true =>
      simp only [run, stepA_stuck pA _ g ha hh] at hrun
      cases hrun
    | false =>
      simp only [run] at hrun
      by_cases hlt : i < opsB.length
      · have hget : (section_ opsB)[g.b.pc]? = some (Act.op opsB[i]) := by
          rw [hpc, get_section]; simp [hlt]
        have hstep : stepT pA (section_ opsB) g false =
            some { g with sh := (opsB[i] g.sh g.b.loc).1, b := { pc := g.b.pc + 1, loc := (opsB[i] g.sh g.b.loc).2 } } := by
          unfold stepT; simp [hget]
        rw [hstep] at hrun
        simp only at hrun
        have := ih { g with sh := (opsB[i] g.sh g.b.loc).1, b := { pc := g.b.pc + 1, loc := (opsB[i] g.sh g.b.loc).2 } }
          g' (i + 1) (by simp [hpc]) (by omega) hh ha hrun hfin
        rw [exec_drop opsB i hlt]
        exact this
      · have hi' : i = opsB.length := by omega
        have hget : (section_ opsB)[g.b.pc]? = some Act.rel := by
          rw [hpc, get_section]; simp [hi']
        have hstep : stepT pA (section_ opsB) g false =
            some { g with holder := none, b := { g.b with pc := g.b.pc + 1 } } := by
          unfold stepT; simp [hget, hh]
        rw [hstep] at hrun
        refine ⟨ts, ?_⟩
        have hd : opsB.drop i = [] := by rw [hi']; exact List.drop_length
        rw [hd]
        simp only [exec, List.foldl_nil]
        have : ({ g with holder := none, b := { g.b with pc := g.b.pc + 1 } } : G σ κ) =
            { sh := g.sh, holder := none, a := g.a, b := { pc := opsB.length + 2, loc := g.b.loc } } := by
          rw [hpc, hi']
        rw [← this]; exact hrun

/-- pcs never decrease along a run (so a finished thread stays finished, unchanged) -/
theorem run_a_finished (pA pB : List (Act σ κ)) (sched : List Bool) :
    ∀ (g g' : G σ κ), pA[g.a.pc]? = none → run pA pB g sched = some g' → g'.a = g.a := by
  induction sched with
  | nil => intro g g' _ h; simp only [run, Option.some.injEq] at h; rw [h]
  | cons t ts ih =>
    intro g g' hfin h
    simp only [run] at h
    cases t with
    | true => unfold stepT at h; simp [hfin] at h
    | false =>
      cases hs : stepT pA pB g false with
      | none => rw [hs] at h; cases h
      | some g1 =>
        rw [hs] at h
        have ha : g1.a = g.a := by
          unfold stepT at hs
          simp only [Bool.false_eq_true, if_false] at hs
          split at hs
          · cases hs
          · split at hs <;> simp at hs <;> (try (rw [← hs]))
          · split at hs <;> simp at hs <;> (try (rw [← hs]))
          · simp at hs; rw [← hs]
        have := ih g1 g' (by rw [ha]; exact hfin) h
        rw [this, ha]

theorem run_b_finished (pA pB : List (Act σ κ)) (sched : List Bool) :
    ∀ (g g' : G σ κ), pB[g.b.pc]? = none → run pA pB g sched = some g' → g'.b = g.b := by
  induction sched with
  | nil => intro g g' _ h; simp only [run, Option.some.injEq] at h; rw [h]
  | cons t ts ih =>
    intro g g' hfin h
    simp only [run] at h
    cases t with
    | false => unfold stepT at h; simp [hfin] at h
    | true =>
      cases hs : stepT pA pB g true with
      | none => rw [hs] at h; cases h
      | some g1 =>
        rw [hs] at h
        have hb : g1.b = g.b := by
          unfold stepT at hs
          simp only [if_true] at hs
          split at hs
          · cases hs
          · split at hs <;> simp at hs <;> (try (rw [← hs]))
          · split at hs <;> simp at hs <;> (try (rw [← hs]))
          · simp at hs; rw [← hs]
        have := ih g1 g' (by rw [hb]; exact hfin) h
        rw [this, hb]

theorem run_both_finished (pA pB : List (Act σ κ)) (g g' : G σ κ) (ts : List Bool)
    (ha : pA[g.a.pc]? = none) (hb : pB[g.b.pc]? = none) (h : run pA pB g ts = some g') : g' = g := by
  cases ts with
  | nil => simp only [run, Option.some.injEq] at h; exact h.symm
  | cons t ts =>
    simp only [run] at h
    cases t <;> (unfold stepT at h; simp [ha, hb] at h)

/-- B runs its whole section from the state where A is finished and the lock is free -/
theorem startB (pA : List (Act σ κ)) (opsB : List (σ → κ → σ × κ)) (g g' : G σ κ) (ts : List Bool)
    (ha : pA[g.a.pc]? = none) (hb : g.b.pc = 0) (hh : g.holder = none)
    (h : run pA (section_ opsB) g ts = some g') (hfin : g'.b.pc = opsB.length + 2) :
    g'.sh = (exec opsB g.sh g.b.loc).1 ∧ g'.b.loc = (exec opsB g.sh g.b.loc).2 ∧ g'.a = g.a := by
  cases ts with
  | nil =>
    simp only [run, Option.some.injEq] at h
    subst h; omega
  | cons t ts =>
    simp only [run] at h
    cases t with
    | true => unfold stepT at h; simp [ha] at h
    | false =>
      have hget : (section_ opsB)[g.b.pc]? = some Act.acq := by rw [hb]; rfl
      have hstep : stepT pA (section_ opsB) g false =
          some { g with holder := some false, b := { g.b with pc := g.b.pc + 1 } } := by
        unfold stepT; simp [hget, hh]
      rw [hstep] at h
      simp only at h
      obtain ⟨ts', h'⟩ := runB_inside pA opsB ts
        { g with holder := some false, b := { g.b with pc := g.b.pc + 1 } } g' 0 (by simp [hb]) (Nat.zero_le _) rfl
        (Or.inl ha) h hfin
      simp only [List.drop_zero] at h'
      have := run_both_finished pA (section_ opsB)
        { sh := (exec opsB g.sh g.b.loc).1, holder := none, a := g.a,
          b := { pc := opsB.length + 2, loc := (exec opsB g.sh g.b.loc).2 } } g' ts' ha (get_section_done opsB) h'
      rw [this]
      exact ⟨rfl, rfl, rfl⟩

theorem startA (opsA : List (σ → κ → σ × κ)) (pB : List (Act σ κ)) (g g' : G σ κ) (ts : List Bool)
    (hb : pB[g.b.pc]? = none) (ha : g.a.pc = 0) (hh : g.holder = none)
    (h : run (section_ opsA) pB g ts = some g') (hfin : g'.a.pc = opsA.length + 2) :
    g'.sh = (exec opsA g.sh g.a.loc).1 ∧ g'.a.loc = (exec opsA g.sh g.a.loc).2 ∧ g'.b = g.b := by
  cases ts with
  | nil =>
    simp only [run, Option.some.injEq] at h
    subst h; omega
  | cons t ts =>
    simp only [run] at h
    cases t with
    | false => unfold stepT at h; simp [hb] at h
    | true =>
      have hget : (section_ opsA)[g.a.pc]? = some Act.acq := by rw [ha]; rfl
      have hstep : stepT (section_ opsA) pB g true =
          some { g with holder := some true, a := { g.a with pc := g.a.pc + 1 } } := by
        unfold stepT; simp [hget, hh]
      rw [hstep] at h
      simp only at h
      obtain ⟨ts', h'⟩ := runA_inside opsA pB ts
        { g with holder := some true, a := { g.a with pc := g.a.pc + 1 } } g' 0 (by simp [ha]) (Nat.zero_le _) rfl
        (Or.inl hb) h hfin
      simp only [List.drop_zero] at h'
      have := run_both_finished (section_ opsA) pB
        { sh := (exec opsA g.sh g.a.loc).1, holder := none,
          a := { pc := opsA.length + 2, loc := (exec opsA g.sh g.a.loc).2 }, b := g.b } g' ts' (get_section_done opsA) hb h'
      rw [this]
      exact ⟨rfl, rfl, rfl⟩

/-- the two serial results -/
def serialAB (opsA opsB : List (σ → κ → σ × κ)) (s0 : σ) (kA kB : κ) : σ × κ × κ :=
  let a := exec opsA s0 kA
  let b := exec opsB a.1 kB
  (b.1, a.2, b.2)

def serialBA (opsA opsB : List (σ → κ → σ × κ)) (s0 : σ) (kA kB : κ) : σ × κ × κ :=
  let b := exec opsB s0 kB
  let a := exec opsA b.1 kA
  (a.1, a.2, b.2)

/-- MUTUAL EXCLUSION ⇒ ATOMICITY.  Two threads `acquire L; ops; release L` (arbitrary operations on
    the shared and on their local state), scheduled step by step in any order the lock allows: every
    schedule that runs both to completion ends in the result of one of the two serial orders. -/
theorem critical_sections_atomic (opsA opsB : List (σ → κ → σ × κ)) (s0 : σ) (kA kB : κ)
    (sched : List Bool) (g' : G σ κ)
    (h : run (section_ opsA) (section_ opsB) { sh := s0, holder := none, a := ⟨0, kA⟩, b := ⟨0, kB⟩ } sched = some g')
    (hA : g'.a.pc = opsA.length + 2) (hB : g'.b.pc = opsB.length + 2) :
    (g'.sh, g'.a.loc, g'.b.loc) = serialAB opsA opsB s0 kA kB ∨
    (g'.sh, g'.a.loc, g'.b.loc) = serialBA opsA opsB s0 kA kB := by
  cases sched with
  | nil =>
    simp only [run, Option.some.injEq] at h
    subst h; simp at hA
  | cons t ts =>
    simp only [run] at h
    cases t with
    | true =>
      left
      have hstep : stepT (section_ opsA) (section_ opsB) ({ sh := s0, holder := none, a := ⟨0, kA⟩, b := ⟨0, kB⟩ } : G σ κ) true =
          some { sh := s0, holder := some true, a := ⟨1, kA⟩, b := ⟨0, kB⟩ } := by
        unfold stepT; simp [get_section_zero]
      rw [hstep] at h
      simp only at h
      obtain ⟨ts', h'⟩ := runA_inside opsA (section_ opsB) ts _ g' 0 rfl (Nat.zero_le _) rfl (Or.inr (get_section_zero opsB)) h hA
      simp only [List.drop_zero] at h'
      have := startB (section_ opsA) opsB _ g' ts' (get_section_done opsA) rfl rfl h' hB
      obtain ⟨h1, h2, h3⟩ := this
      simp only [serialAB, h1, h2, h3]
    | false =>
      right
      have hstep : stepT (section_ opsA) (section_ opsB) ({ sh := s0, holder := none, a := ⟨0, kA⟩, b := ⟨0, kB⟩ } : G σ κ) false =
          some { sh := s0, holder := some false, a := ⟨0, kA⟩, b := ⟨1, kB⟩ } := by
        unfold stepT; simp [get_section_zero]
      rw [hstep] at h
      simp only at h
      obtain ⟨ts', h'⟩ := runB_inside (section_ opsA) opsB ts _ g' 0 rfl (Nat.zero_le _) rfl (Or.inr (get_section_zero opsA)) h hB
      simp only [List.drop_zero] at h'
      have := startA opsA (section_ opsB) _ g' ts' (get_section_done opsB) rfl rfl h' hA
      obtain ⟨h1, h2, h3⟩ := this
      simp only [serialBA, h1, h2, h3]

/-- non-vacuity: a schedule that interleaves as far as the lock allows does complete -/
example :
    let inc : Nat → Nat → Nat × Nat := fun s k => (s + 1, k + s)
    let dbl : Nat → Nat → Nat × Nat := fun s k => (2 * s, k + s)
    (run (section_ [inc, inc]) (section_ [dbl]) { sh := 1, holder := none, a := ⟨0, 0⟩, b := ⟨0, 0⟩ }
      [true, true, true, true, false, false, false]).map (fun g => (g.sh, g.a.loc, g.b.loc, g.a.pc, g.b.pc)) =
      some (6, 3, 3, 4, 3) := by decide

/-- … and a schedule the lock forbids does not run -/
example :
    let inc : Nat → Nat → Nat × Nat := fun s k => (s + 1, k + s)
    (run (section_ [inc]) (section_ [inc]) { sh := 0, holder := none, a := ⟨0, 0⟩, b := ⟨0, 0⟩ }
      [true, false]).isNone = true := by decide

end VizierModel.ConcLock
