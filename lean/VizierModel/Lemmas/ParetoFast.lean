/-
Lemmas for C11, part 6: the divide-and-conquer algorithm.
-/
import VizierModel.Lemmas.ParetoFastUtil
import VizierModel.Lemmas.ParetoNaive
namespace VizierModel.Pareto

set_option linter.unusedSectionVars false
variable {β : Type} [Inhabited β]

/-! ### 1-D base case -/

theorem maxOf_cons (c : Cmp β) (a x : β) (xs : List β) :
    maxOf c a (x :: xs) = maxOf c (if c.gt x a then x else a) xs := rfl

theorem maxOf_mem (c : Cmp β) (a : β) (as : List β) : maxOf c a as ∈ a :: as := by
  induction as generalizing a with
  | nil => simp [maxOf]
  | cons x xs ih =>
    rw [maxOf_cons]
    have := ih (if c.gt x a then x else a)
    rcases List.mem_cons.mp this with e | e
    · rw [e]; split <;> simp
    · exact List.mem_cons_of_mem _ (List.mem_cons_of_mem _ e)

theorem maxOf_ge {c : Cmp β} (h : c.Lawful) (a : β) (as : List β) :
    ∀ y ∈ a :: as, c.gt y (maxOf c a as) = false := by
  induction as generalizing a with
  | nil => intro y hy; simp at hy; subst hy; exact h.irrefl _
  | cons x xs ih =>
    rw [maxOf_cons]
    intro y hy
    have ih' := ih (if c.gt x a then x else a)
    by_cases hg : c.gt x a = true
    · rw [if_pos hg] at ih' ⊢
      rcases List.mem_cons.mp hy with rfl | hy
      · -- y = a < x ≤ max
        cases hx : c.gt y (maxOf c x xs)
        · rfl
        · have hle : c.le x (maxOf c x xs) = true := (h.le_iff _ _).mpr (ih' x (List.mem_cons_self ..))
          have := h.gt_of_le_of_gt x _ y hle hg
          rw [h.gt_asymm _ _ hx] at this; cases this
      · exact ih' y hy
    · rw [if_neg hg] at ih' ⊢
      have hg' : c.gt x a = false := by cases hx : c.gt x a <;> simp_all
      rcases List.mem_cons.mp hy with rfl | hy
      · exact ih' y (List.mem_cons_self ..)
      · rcases List.mem_cons.mp hy with rfl | hy
        · have h1 : c.le y a = true := (h.le_iff _ _).mpr hg'
          have h2 : c.le a (maxOf c a xs) = true := (h.le_iff _ _).mpr (ih' a (List.mem_cons_self ..))
          exact (h.le_iff _ _).mp (h.le_trans _ _ _ h1 h2)
        · exact ih' y (List.mem_cons_of_mem _ hy)

theorem row_one (p : List β) (hp : p.length = 1) : p = [first p] := by
  cases p with
  | nil => simp at hp
  | cons a as => cases as with
    | nil => rfl
    | cons b bs => simp at hp

theorem flatten_rows_one (rows : List (List β)) (hr : Rect 1 rows) : rows.flatten = rows.map first := by
  induction rows with
  | nil => rfl
  | cons r rs ih =>
    have e := row_one r (hr r (List.mem_cons_self ..))
    rw [List.flatten_cons, ih (fun p hp => hr p (List.mem_cons_of_mem _ hp)), List.map_cons]
    conv => lhs; rw [e]
    rfl

theorem oneDim_correct {c : Cmp β} (h : c.Lawful) (against : List (List β)) (hr : Rect 1 against)
    (a : β) (as : List β) (hf : against.flatten = a :: as) (strict : Bool) (p : List β) (hp : p.length = 1) :
    (if strict = true then c.le (maxOf c a as) (first p) else c.gt (first p) (maxOf c a as)) =
      isOptAgainst c against strict p := by
  have hmem := maxOf_mem c a as
  have hge := maxOf_ge h a as
  rw [flatten_rows_one against hr] at hf
  have hany : ∀ P : β → Bool, against.any (fun q => P (first q)) = (a :: as).any P := by
    intro P; rw [← hf, List.any_map]; rfl
  unfold isOptAgainst
  have hpred : ∀ q ∈ against, (if strict = true then dominates c q p else allLe c p q) =
      (fun y => if strict = true then c.gt y (first p) else c.le (first p) y) (first q) := by
    intro q hq
    have eq := row_one q (hr q hq)
    have ep := row_one p hp
    generalize first q = y at eq
    generalize first p = x at ep
    subst eq ep
    cases strict
    · simp [allLe]
    · simp only [dominates, allLe, anyGt, Bool.and_true, Bool.or_false, ↓reduceIte]
      cases hg : c.gt y x
      · simp
      · rw [(h.le_iff _ _).mpr (h.gt_asymm _ _ hg)]; rfl
  rw [any_congr_mem _ _ _ hpred, hany (fun y => if strict = true then c.gt y (first p) else c.le (first p) y)]
  cases strict
  · -- non-strict: optimal iff p > max
    simp only [Bool.false_eq_true, ↓reduceIte]
    apply Bool.eq_iff_iff.mpr
    rw [Bool.not_eq_true', ← Bool.not_eq_true, List.any_eq_true]
    constructor
    · rintro hg ⟨y, hy, hle⟩
      have hle2 : c.le y (maxOf c a as) = true := (h.le_iff _ _).mpr (hge y hy)
      have := h.gt_of_gt_of_le _ _ _ hg hle2
      rw [(h.le_iff _ _).mp hle] at this; cases this
    · intro hno
      cases hx : c.gt (first p) (maxOf c a as)
      · exact absurd ⟨_, hmem, (h.le_iff _ _).mpr hx⟩ hno
      · rfl
  · simp only [↓reduceIte]
    apply Bool.eq_iff_iff.mpr
    rw [Bool.not_eq_true', ← Bool.not_eq_true, List.any_eq_true, h.le_iff]
    constructor
    · rintro hg ⟨y, hy, hgy⟩
      have hle2 : c.le y (maxOf c a as) = true := (h.le_iff _ _).mpr (hge y hy)
      have := h.gt_of_le_of_gt _ _ _ hle2 hgy
      rw [hg] at this; cases this
    · intro hno
      cases hx : c.gt (maxOf c a as) (first p)
      · rfl
      · exact absurd ⟨_, hmem, hx⟩ hno

/-! ### sorted gather -/

theorem gather_sorted {c : Cmp β} {argsort : List β → List Nat} (hs : IsArgsort c argsort)
    (rows : List (List β)) :
    (gather rows (argsort (rows.map first))).Perm rows ∧
    ((gather rows (argsort (rows.map first))).map first).Pairwise (fun a b => c.gt a b = false) ∧
    (argsort (rows.map first)).Perm (List.range rows.length) := by
  obtain ⟨hp, hsorted⟩ := hs (rows.map first)
  rw [List.length_map] at hp
  refine ⟨gather_perm rows _ hp, ?_, hp⟩
  have : (gather rows (argsort (rows.map first))).map first =
      (argsort (rows.map first)).map fun i => (rows.map first).getD i default := by
    unfold gather
    rw [List.map_map]
    apply List.map_congr_left
    intro i hi
    have hi' : i < rows.length := List.mem_range.mp (hp.mem_iff.mp hi)
    simp [List.getD_eq_getElem?_getD, List.getElem?_eq_getElem hi', first]
  rw [this]
  exact hsorted

theorem rect_of_perm {d : Nat} {l₁ l₂ : List (List β)} (hp : l₁.Perm l₂) (hr : Rect d l₂) : Rect d l₁ :=
  fun p hp' => hr p (hp.mem_iff.mp hp')

theorem rect_take {d : Nat} {l : List (List β)} (hr : Rect d l) (k : Nat) : Rect d (l.take k) :=
  fun p hp => hr p (List.mem_of_mem_take hp)

theorem rect_drop {d : Nat} {l : List (List β)} (hr : Rect d l) (k : Nat) : Rect d (l.drop k) :=
  fun p hp => hr p (List.mem_of_mem_drop hp)

theorem rect_tail {d : Nat} {l : List (List β)} (hr : Rect d l) : Rect (d - 1) (l.map List.tail) := by
  intro p hp
  obtain ⟨q, hq, rfl⟩ := List.mem_map.mp hp
  rw [List.length_tail, hr q hq]

/-! ### `is_pareto_optimal_against` -/

/-- MAIN (against): for every threshold, every argsort, both strict modes, any dimension
`d ≥ 1`, the recursion terminates within `points.length + 1` levels and returns, for each
point, whether it is optimal against `against`. -/
theorem fastAgainst_correct {c : Cmp β} (h : c.Lawful) {argsort : List β → List Nat}
    (hs : IsArgsort c argsort) (thr : Nat) :
    ∀ (fuel d : Nat) (points against : List (List β)) (strict : Bool), 1 ≤ d → Rect d points →
      Rect d against → points.length < fuel →
      fastAgainst c argsort thr fuel points against strict =
        some (points.map (isOptAgainst c against strict)) := by
  intro fuel
  induction fuel with
  | zero => intro d points against strict _ _ _ hl; omega
  | succ fuel ih =>
    intro d points against strict hd hrp hra hlen
    unfold fastAgainst
    split
    · rename_i he
      have : points = [] := by simpa using he
      subst this; rfl
    split
    · rename_i he
      have : against = [] := by simpa using he
      subst this
      simp [isOptAgainst]
    split
    · rw [naiveAgainst_correct h]
    rename_i hpne hane _
    have hane' : against ≠ [] := by simpa using hane
    obtain ⟨a0, arest, rfl⟩ := List.exists_cons_of_ne_nil hane'
    have hd0 : (a0 :: arest).headD [] = a0 := rfl
    have ha0 : a0.length = d := hra a0 (List.mem_cons_self ..)
    split
    · -- one dimension
      rename_i hdim
      rw [hd0, ha0] at hdim
      have hd1 : d = 1 := by omega
      subst hd1
      split
      · rename_i hfl
        -- the flattened array is not empty
        have := flatten_rows_one (a0 :: arest) hra
        rw [hfl] at this; simp at this
      · rename_i a as hfl
        dsimp only
        congr 1
        apply List.map_congr_left
        intro p hp
        exact oneDim_correct h (a0 :: arest) hra a as hfl strict p (hrp p hp)
    · rename_i hdim
      rw [hd0, ha0] at hdim
      have hd2 : 2 ≤ d := by omega
      obtain ⟨hperm, hsorted, hidx⟩ := gather_sorted hs points
      obtain ⟨hpermD, hsortedD, _⟩ := gather_sorted hs (a0 :: arest)
      dsimp only
      generalize hA : a0 :: arest = against at *
      generalize hsp : gather points (argsort (points.map first)) = sortedPoints at *
      generalize hsd : gather against (argsort (against.map first)) = sortedDom at *
      have hspl : sortedPoints.length = points.length := hperm.length_eq
      have hrsp : Rect d sortedPoints := rect_of_perm hperm hrp
      have hrsd : Rect d sortedDom := rect_of_perm hpermD hra
      split
      · rw [naiveAgainst_correct h]
      · rename_i s hadv
        obtain ⟨k1, k2, hs0, hsn⟩ := advance_keys h (sortedPoints.map first) hsorted _ s hadv
        rw [List.length_map] at hsn
        generalize hv : (sortedPoints.map first).getD (pyRoundHalf points.length) default = v at *
        obtain ⟨d1, d2⟩ := searchRight_spec h v (sortedDom.map first) hsortedD
        generalize hds : searchRight c v (sortedDom.map first) = ds at *
        have hpos : ∀ {l : List (List β)}, Rect d l → ∀ p ∈ l, 0 < p.length := by
          intro l hr p hp; rw [hr p hp]; omega
        -- the three recursive calls
        have e1 := ih d (sortedPoints.drop s) (sortedDom.drop ds) strict hd (rect_drop hrsp s)
          (rect_drop hrsd ds) (by rw [List.length_drop]; omega)
        have e2 := ih d (sortedPoints.take s) (sortedDom.take ds) strict hd (rect_take hrsp s)
          (rect_take hrsd ds) (by rw [List.length_take]; omega)
        have e3 := ih (d - 1) ((sortedPoints.take s).map List.tail) ((sortedDom.drop ds).map List.tail) false
          (by omega) (rect_tail (rect_take hrsp s)) (rect_tail (rect_drop hrsd ds))
          (by rw [List.length_map, List.length_take]; omega)
        rw [e1, e2, e3]
        simp only
        congr 1
        rw [List.map_map, zipWith_and_map]
        -- row-wise, the combination is "optimal against `against`"
        have hF : ∀ p, isOptAgainst c against strict p =
            isOptAgainst c (sortedDom.take ds ++ sortedDom.drop ds) strict p := by
          intro p
          rw [List.take_append_drop]
          unfold isOptAgainst
          rw [hpermD.any_eq]
        have hlow : (sortedPoints.take s).map (fun p => isOptAgainst c (sortedDom.take ds) strict p &&
            (isOptAgainst c ((sortedDom.drop ds).map List.tail) false ∘ List.tail) p) =
            (sortedPoints.take s).map (isOptAgainst c against strict) := by
          apply List.map_congr_left
          intro p hp
          have hfp : first p ∈ (sortedPoints.map first).take s := by
            rw [← List.map_take]; exact List.mem_map_of_mem hp
          rw [hF p, isOptAgainst_lower h v _ _ strict p (hpos (rect_take hrsp s) p hp)
            (hpos (rect_drop hrsd ds)) (k1 _ hfp)]
          · rfl
          · intro a ha
            exact d2 _ (by rw [← List.map_drop]; exact List.mem_map_of_mem ha)
        have hup : (sortedPoints.drop s).map (isOptAgainst c (sortedDom.drop ds) strict) =
            (sortedPoints.drop s).map (isOptAgainst c against strict) := by
          apply List.map_congr_left
          intro p hp
          have hfp : first p ∈ (sortedPoints.map first).drop s := by
            rw [← List.map_drop]; exact List.mem_map_of_mem hp
          rw [hF p, isOptAgainst_upper h v _ _ strict p (hpos (rect_drop hrsp s) p hp)
            (hpos (rect_take hrsd ds)) (k2 _ hfp)]
          intro a ha
          exact d1 _ (by rw [← List.map_take]; exact List.mem_map_of_mem ha)
        rw [hlow, hup, ← List.map_append, List.take_append_drop, ← hsp]
        exact scatter_gather _ points _ hidx

/-! ### `is_pareto_optimal` -/

theorem pyRoundHalf_bounds (n : Nat) (hn : 2 ≤ n) : 0 < pyRoundHalf n ∧ pyRoundHalf n < n := by
  unfold pyRoundHalf
  split
  · omega
  · split <;> omega

/-- the front of `lower ++ higher` when every `higher` point beats every `lower` point in
the first coordinate -/
theorem front_split {c : Cmp β} (h : c.Lawful) (lower higher : List (List β))
    (hposL : ∀ p ∈ lower, 0 < p.length) (hposH : ∀ p ∈ higher, 0 < p.length)
    (X : ∀ l ∈ lower, ∀ hh ∈ higher, c.gt (first hh) (first l) = true) :
    (∀ p, isFront c (lower ++ higher) p = (isFront c lower p && isOptAgainst c higher true p)) ∧
    (∀ p ∈ higher, isFront c (lower ++ higher) p = isFront c higher p) := by
  constructor
  · intro p
    simp [isFront, isOptAgainst, List.any_append, Bool.not_or]
  · intro p hp
    unfold isFront
    rw [List.any_append]
    have : lower.any (fun q => dominates c q p) = false := by
      rw [List.any_eq_false]
      intro l hl
      have hg := X l hl p hp
      have : allLe c p l = false := by
        rw [allLe_first c p l (hposH p hp) (hposL l hl), h.le_def, hg]; rfl
      simp [dominates, this]
    rw [this, Bool.false_or]

/-- all first coordinates are different -/
def DistinctFirst (ps : List (List β)) : Prop := (ps.map first).Nodup

/-- MAIN (is_pareto_optimal): the divide-and-conquer front equals the definitional front
* for the variant with a clean split (proposed fix): always, any threshold;
* for the code as written: when `thr ≥ 1` and all first coordinates are distinct. -/
theorem fast_correct {c : Cmp β} (h : c.Lawful) {argsort : List β → List Nat}
    (hs : IsArgsort c argsort) (cleanSplit : Bool) (thr : Nat) :
    ∀ (fuel d : Nat) (points : List (List β)), 1 ≤ d → Rect d points →
      (cleanSplit = true ∨ (1 ≤ thr ∧ DistinctFirst points)) → points.length < fuel →
      fast c argsort cleanSplit thr fuel points = some (front c points) := by
  intro fuel
  induction fuel with
  | zero => intro d points _ _ _ hl; omega
  | succ fuel ih =>
    intro d points hd hrp hok hlen
    unfold fast
    split
    · rw [naive_correct h points hrp]
    rename_i hthr
    obtain ⟨hperm, hsorted, hidx⟩ := gather_sorted hs points
    dsimp only
    generalize hsp : gather points (argsort (points.map first)) = sortedPoints at *
    have hspl : sortedPoints.length = points.length := hperm.length_eq
    have hrsp : Rect d sortedPoints := rect_of_perm hperm hrp
    have hpos : ∀ {l : List (List β)}, Rect d l → ∀ p ∈ l, 0 < p.length := by
      intro l hr p hp; rw [hr p hp]; omega
    -- what is needed of the split, whichever way it was chosen
    have key : ∀ s, 0 < s → s < points.length →
        (∀ l ∈ sortedPoints.take s, ∀ hh ∈ sortedPoints.drop s, c.gt (first hh) (first l) = true) →
        (match fast c argsort cleanSplit thr fuel (sortedPoints.drop s),
              fast c argsort cleanSplit thr fuel (sortedPoints.take s),
              fastAgainstTop c argsort thr (sortedPoints.take s) (sortedPoints.drop s) true with
          | some higherPareto, some lowerPareto, some crossCheck =>
            some (scatter points.length (argsort (points.map first))
              (List.zipWith (· && ·) lowerPareto crossCheck ++ higherPareto))
          | _, _, _ => none) = some (front c points) := by
      intro s hs0 hsn X
      have hokSub : ∀ l : List (List β), l.Sublist sortedPoints →
          (cleanSplit = true ∨ (1 ≤ thr ∧ DistinctFirst l)) := by
        intro l hsub
        rcases hok with hc | ⟨ht, hdist⟩
        · exact Or.inl hc
        · refine Or.inr ⟨ht, ?_⟩
          unfold DistinctFirst at *
          have : (sortedPoints.map first).Nodup := ((hperm.map first).nodup_iff).mpr hdist
          exact List.Nodup.sublist (hsub.map first) this
      have e1 := ih d (sortedPoints.drop s) hd (rect_drop hrsp s) (hokSub _ (List.drop_sublist s _))
        (by rw [List.length_drop]; omega)
      have e2 := ih d (sortedPoints.take s) hd (rect_take hrsp s) (hokSub _ (List.take_sublist s _))
        (by rw [List.length_take]; omega)
      have e3 : fastAgainstTop c argsort thr (sortedPoints.take s) (sortedPoints.drop s) true =
          some ((sortedPoints.take s).map (isOptAgainst c (sortedPoints.drop s) true)) :=
        fastAgainst_correct h hs thr _ d _ _ true hd (rect_take hrsp s) (rect_drop hrsp s) (Nat.lt_succ_self _)
      rw [e1, e2, e3]
      simp only
      congr 1
      unfold front
      rw [zipWith_and_map]
      obtain ⟨f1, f2⟩ := front_split h (sortedPoints.take s) (sortedPoints.drop s)
        (hpos (rect_take hrsp s)) (hpos (rect_drop hrsp s)) X
      have hF : ∀ p, isFront c points p = isFront c (sortedPoints.take s ++ sortedPoints.drop s) p := by
        intro p
        rw [List.take_append_drop]
        unfold isFront
        rw [hperm.any_eq]
      have hlow : (sortedPoints.take s).map (fun p => isFront c (sortedPoints.take s) p &&
          isOptAgainst c (sortedPoints.drop s) true p) = (sortedPoints.take s).map (isFront c points) := by
        apply List.map_congr_left
        intro p _
        rw [hF p, f1 p]
      have hup : (sortedPoints.drop s).map (isFront c (sortedPoints.drop s)) =
          (sortedPoints.drop s).map (isFront c points) := by
        apply List.map_congr_left
        intro p hp
        rw [hF p, f2 p hp]
      rw [hlow, hup, ← List.map_append, List.take_append_drop, ← hsp]
      exact scatter_gather _ points _ hidx
    cases cleanSplit with
    | true =>
      simp only [↓reduceIte]
      split
      · rw [naive_correct h points hrp]
      · rename_i s hadv
        obtain ⟨k1, k2, hs0, hsn⟩ := advance_keys h (sortedPoints.map first) hsorted _ s hadv
        rw [List.length_map] at hsn
        apply key s hs0 (by omega)
        intro l hl hh hhh
        have h1 := k1 (first l) (by rw [← List.map_take]; exact List.mem_map_of_mem hl)
        have h2 := k2 (first hh) (by rw [← List.map_drop]; exact List.mem_map_of_mem hhh)
        exact h.gt_of_gt_of_le _ _ _ h2 ((h.le_iff _ _).mpr h1)
    | false =>
      simp only [Bool.false_eq_true, ↓reduceIte]
      rcases hok with hc | ⟨ht, hdist⟩
      · cases hc
      · have hn2 : 2 ≤ points.length := by omega
        obtain ⟨b1, b2⟩ := pyRoundHalf_bounds points.length hn2
        apply key _ b1 b2
        intro l hl hh hhh
        generalize pyRoundHalf points.length = s at *
        have hnd : (sortedPoints.map first).Nodup := ((hperm.map first).nodup_iff).mpr hdist
        have hsplit : sortedPoints.map first = (sortedPoints.take s).map first ++ (sortedPoints.drop s).map first := by
          rw [← List.map_append, List.take_append_drop]
        rw [hsplit] at hnd hsorted
        have hne := (List.nodup_append.mp hnd).2.2 _ (List.mem_map_of_mem hl) _ (List.mem_map_of_mem hhh)
        have hng := (List.pairwise_append.mp hsorted).2.2 _ (List.mem_map_of_mem hl) _ (List.mem_map_of_mem hhh)
        cases hx : c.gt (first hh) (first l)
        · exact absurd (h.tri _ _ hng hx) hne
        · rfl

end VizierModel.Pareto
