import VizierModel.Model.Namespace
namespace VizierModel.NS

def pre (acc : List Char) : List (List Char) → List (List Char)
  | [] => [acc]
  | f :: fs => (acc ++ f) :: fs

theorem split_ne_nil (s : List Char) : split s ≠ [] := by
  induction s with
  | nil => simp [split]
  | cons c cs ih =>
    unfold split
    split
    · simp
    · cases split cs <;> simp [consHead]

theorem pre_nil (l : List (List Char)) (h : l ≠ []) : pre [] l = l := by
  cases l with
  | nil => exact absurd rfl h
  | cons f fs => simp [pre]

theorem split_cons_ne (x : Char) (hx : x ≠ ':') (acc : List Char) (s : List Char) :
    pre acc (split (x :: s)) = pre (acc ++ [x]) (split s) := by
  have h := split_ne_nil s
  have e : split (x :: s) = consHead x (split s) := by
    rw [split]; simp [hx]
  rw [e]
  cases hs : split s with
  | nil => exact absurd hs h
  | cons f fs => simp [pre, consHead]

theorem endsBS_append_bs (acc : List Char) : endsBS (acc ++ ['\\']) = true := by
  simp [endsBS]

def tailOf : List Char → List (List Char)
  | [] => []
  | _ :: t' => go none (split t')

theorem go_comp (c : List Char) : ∀ (cur : Option (List Char)) (acc t : List Char),
    endsBS (acc ++ c) = false → (t = [] ∨ ∃ t', t = ':' :: t') →
    go cur (pre acc (split (esc c ++ t))) = close cur (acc ++ c) :: tailOf t := by
  induction c with
  | nil =>
    intro cur acc t hbs ht
    simp only [esc, List.nil_append, List.append_nil] at *
    rcases ht with rfl | ⟨t', rfl⟩
    · simp [split, pre, go, hbs, tailOf]
    · simp [split, pre, go, hbs, tailOf]
  | cons x cs ih =>
    intro cur acc t hbs ht
    by_cases hx : x = ':'
    · subst hx
      have : esc (':' :: cs) ++ t = '\\' :: ':' :: (esc cs ++ t) := by simp [esc]
      rw [this]
      have hs : split ('\\' :: ':' :: (esc cs ++ t)) = ['\\'] :: split (esc cs ++ t) := by
        have h := split_ne_nil (esc cs ++ t)
        simp [split, consHead]
      rw [hs]
      simp only [pre]
      rw [go]
      simp only [endsBS_append_bs, if_true, List.dropLast_concat]
      have hcs : endsBS ([] ++ cs) = false := by
        simp [endsBS] at hbs ⊢
        intro h
        apply hbs
        cases cs with
        | nil => simp at h
        | cons y ys => simp [List.getLast?_append, h] at *
      have := ih (some (close cur acc)) [] t hcs ht
      rw [pre_nil _ (split_ne_nil _)] at this
      rw [this]
      cases cur <;> simp [close]
    · have : esc (x :: cs) ++ t = x :: (esc cs ++ t) := by simp [esc, hx]
      rw [this, split_cons_ne x hx]
      have hbs' : endsBS ((acc ++ [x]) ++ cs) = false := by simpa using hbs
      have := ih cur (acc ++ [x]) t hbs' ht
      rw [this]; simp

theorem encode_tail (ns : List (List Char)) : encode ns = [] ∨ ∃ t', encode ns = ':' :: t' := by
  cases ns with
  | nil => left; rfl
  | cons c cs => right; exact ⟨esc c ++ encode cs, by simp [encode]⟩

theorem decode_encode (ns : List (List Char)) (h : ∀ c ∈ ns, endsBS c = false) :
    decode (encode ns) = ns := by
  induction ns with
  | nil => rfl
  | cons c cs ih =>
    have hc := h c (by simp)
    have hcs : ∀ c ∈ cs, endsBS c = false := fun c hc => h c (by simp [hc])
    have e : encode (c :: cs) = ':' :: (esc c ++ encode cs) := by simp [encode]
    rw [e]; simp only [decode, if_true]
    have := go_comp c none [] (encode cs) (by simpa using hc) (encode_tail cs)
    rw [pre_nil _ (split_ne_nil _)] at this
    rw [this]
    simp only [close, List.nil_append]
    congr 1
    have ih' := ih hcs
    cases hcs' : encode cs with
    | nil =>
      cases cs with
      | nil => rfl
      | cons d ds => simp [encode] at hcs'
    | cons y ys =>
      simp only [tailOf]
      rw [hcs'] at ih'
      have hy : y = ':' := by
        cases cs with
        | nil => simp [encode] at hcs'
        | cons d ds => simp [encode] at hcs'; exact hcs'.1.symm
      subst hy
      simpa [decode] using ih'

end VizierModel.NS
