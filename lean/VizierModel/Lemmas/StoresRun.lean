import VizierModel.Lemmas.StoresOps
namespace VizierModel.Stores
open VizierModel.Svc

/-! ### whole write histories: the nested-dict store is the abstraction of the table store -/

/-- the datastore write calls the service issues (studies, trials, suggestion operations) -/
inductive WOp where
  | createStudy (k : SKey) (h : Head)
  | updateStudy (k : SKey) (h : Head)
  | deleteStudy (k : SKey)
  | createTrial (k : SKey) (t : Trial)
  | updateTrial (k : SKey) (t : Trial)
  | deleteTrial (k : SKey) (id : Nat)
  /-- SuggestTrials: `max_suggestion_operation_number` (NotFound → 0), then create operation number + 1 -/
  | createNextOp (k : SKey) (client : String) (done : Bool) (res : OpResult)
  /-- update of an operation the RPC holds (it was created or fetched by the same RPC) -/
  | updateOp (k : SKey) (op : SugOp)
  /-- `update_metadata` (UpdateMetadata RPC and the metadata delta of every suggestion / early-stopping call) -/
  | updateMetadata (k : SKey) (d : MdDelta)
  deriving Repr

def Ram.exec (r : Ram) : WOp → Except DsErr Ram
  | .createStudy k h => r.createStudy k h
  | .updateStudy k h => r.updateStudy k h
  | .deleteStudy k => r.deleteStudy k
  | .createTrial k t => r.createTrial k t
  | .updateTrial k t => r.updateTrial k t
  | .deleteTrial k id => r.deleteTrial k id
  | .createNextOp k c d res =>
    match r.loadStudy k with
    | .error e => .error e
    | .ok _ =>
      let n := orZero (r.maxOpNumber k c)     -- `len(ops)`
      r.createOp k { client := c, num := n + 1, done := d, result := res }
  | .updateOp k op =>
    match r.getOp k op.client op.num with
    | .error e => .error e
    | .ok _ => r.updateOp k op
  | .updateMetadata k d => r.updateMetadata k d

/-- `create_trial` is only ever issued by the service after `max_trial_id` / `load_study` of the same
    study succeeded under the study lock (vizier_service.py CreateTrial, SuggestTrials): the guard is
    that call.  Without it the two stores differ (`createTrial_orphan_counterexample`). -/
def Sql.exec (q : Sql) : WOp → Except DsErr Sql
  | .createStudy k h => q.createStudy k h
  | .updateStudy k h => q.updateStudy k h
  | .deleteStudy k => q.deleteStudy k
  | .createTrial k t => if q.hasStudy k then q.createTrial k t else .error .notFound
  | .updateTrial k t => q.updateTrial k t
  | .deleteTrial k id => q.deleteTrial k id
  | .createNextOp k c d res =>
    match q.loadStudy k with
    | .error e => .error e
    | .ok _ =>
      let n := orZero (q.maxOpNumber k c)     -- `max(operation_number)`
      q.createOp k { client := c, num := n + 1, done := d, result := res }
  | .updateOp k op =>
    match q.getOp k op.client op.num with
    | .error e => .error e
    | .ok _ => q.updateOp k op
  | .updateMetadata k d => q.updateMetadata k d

theorem loadStudy_ok_hasStudy (q : Sql) (k : SKey) (h : Head) (hl : q.loadStudy k = .ok h) : q.hasStudy k = true := by
  unfold Sql.loadStudy at hl
  rw [hasStudy_iff_find]
  cases hf : q.studies.find? (·.1 == k) with
  | none => rw [hf] at hl; cases hl
  | some r => rfl

theorem updateTrial_simN (q : Sql) (hw : WF q) (hn : Numbered q) (k : SKey) (t : Trial) :
    (absQ q).updateTrial k t = (q.updateTrial k t).map absQ ∧
      ∀ q', q.updateTrial k t = .ok q' → WF q' ∧ Numbered q' := by
  have h := updateTrial_sim q hw k t
  refine ⟨h.1, fun q' hq' => ⟨h.2 q' hq', ?_⟩⟩
  unfold Sql.updateTrial at hq'
  split at hq'
  · injection hq' with hq'
    subst hq'
    exact numbered_of_ops_eq q _ rfl hn
  · cases hq'

theorem updateStudy_simN (q : Sql) (hw : WF q) (hn : Numbered q) (k : SKey) (h : Head) :
    (absQ q).updateStudy k h = (q.updateStudy k h).map absQ ∧
      ∀ q', q.updateStudy k h = .ok q' → WF q' ∧ Numbered q' := by
  have hs := updateStudy_sim q hw k h
  refine ⟨hs.1, fun q' hq' => ⟨hs.2 q' hq', ?_⟩⟩
  unfold Sql.updateStudy at hq'
  split at hq'
  · injection hq' with hq'
    subst hq'
    exact numbered_of_ops_eq q _ rfl hn
  · cases hq'

theorem updMdTrials_sim (k : SKey) (l : List (Nat × MD)) : ∀ (q : Sql), WF q → Numbered q →
    ((absQ q).updMdTrials k l = (q.updMdTrials k l).map absQ ∧
      ∀ q', q.updMdTrials k l = .ok q' → WF q' ∧ Numbered q') := by
  induction l with
  | nil => intro q hw hn; exact ⟨rfl, fun q' hq' => by cases hq'; exact ⟨hw, hn⟩⟩
  | cons e rest ih =>
    intro q hw hn
    obtain ⟨id, m⟩ := e
    simp only [Ram.updMdTrials, Sql.updMdTrials]
    rw [getTrial_sim q hw]
    cases hg : q.getTrial k id with
    | error e => exact ⟨rfl, fun q' hq' => by cases hq'⟩
    | ok t =>
      simp only
      have hu := updateTrial_simN q hw hn k { t with md := mergeMd t.md m }
      rw [hu.1]
      cases hq1 : q.updateTrial k { t with md := mergeMd t.md m } with
      | error e => exact ⟨rfl, fun q' hq' => by cases hq'⟩
      | ok q1 =>
        have := hu.2 q1 hq1
        exact ih q1 this.1 this.2

theorem updateMetadata_sim (q : Sql) (hw : WF q) (hn : Numbered q) (k : SKey) (d : MdDelta) :
    (absQ q).updateMetadata k d = (q.updateMetadata k d).map absQ ∧
      ∀ q', q.updateMetadata k d = .ok q' → WF q' ∧ Numbered q' := by
  unfold Ram.updateMetadata Sql.updateMetadata
  rw [loadStudy_sim q hw]
  cases hl : q.loadStudy k with
  | error e => exact ⟨rfl, fun q' hq' => by cases hq'⟩
  | ok h =>
    simp only
    have hall : (d.trials.all fun e => isOk ((absQ q).getTrial k e.1)) = (d.trials.all fun e => isOk (q.getTrial k e.1)) := by
      congr 1; funext e; rw [getTrial_sim q hw]
    rw [hall]
    cases hc : (d.trials.all fun e => isOk (q.getTrial k e.1)) with
    | false => exact ⟨rfl, fun q' hq' => by simp at hq'⟩
    | true =>
      simp only [if_true]
      have hu := updateStudy_simN q hw hn k { h with md := mergeMd h.md d.study }
      rw [hu.1]
      cases hq1 : q.updateStudy k { h with md := mergeMd h.md d.study } with
      | error e => exact ⟨rfl, fun q' hq' => by cases hq'⟩
      | ok q1 =>
        have := hu.2 q1 hq1
        exact updMdTrials_sim k d.trials q1 this.1 this.2

theorem exec_sim (q : Sql) (hw : WF q) (hn : Numbered q) (op : WOp) :
    (absQ q).exec op = (q.exec op).map absQ ∧ (∀ q', q.exec op = .ok q' → WF q' ∧ Numbered q') := by
  have lift : ∀ {R : Except DsErr Ram} {Q : Except DsErr Sql},
      (R = Q.map absQ ∧ ∀ q', Q = .ok q' → WF q') → (∀ q', Q = .ok q' → Numbered q') →
      (R = Q.map absQ ∧ ∀ q', Q = .ok q' → WF q' ∧ Numbered q') :=
    fun h1 h2 => ⟨h1.1, fun q' hq' => ⟨h1.2 q' hq', h2 q' hq'⟩⟩
  cases op with
  | createNextOp k c d res =>
    simp only [Ram.exec, Sql.exec]
    rw [loadStudy_sim q hw]
    cases hl : q.loadStudy k with
    | error e => exact ⟨rfl, by intro q' hq'; cases hq'⟩
    | ok h =>
      have hex := loadStudy_ok_hasStudy q k h hl
      simp only
      rw [maxOpNumber_sim q hw k c (hn k c), sql_maxOp_numbered q hn k c]
      have hs := createOp_sim q hw k { client := c, num := (q.opsOf k c).length + 1, done := d, result := res } hex
      refine ⟨hs.1, ?_⟩
      intro q' hq'
      refine ⟨hs.2 q' hq', ?_⟩
      unfold Sql.createOp at hq'
      split at hq'
      · cases hq'
      · injection hq' with hq'
        subst hq'
        exact numbered_append q hn k _ rfl
  | updateOp k op =>
    simp only [Ram.exec, Sql.exec]
    rw [getOp_sim q hw]
    cases hg : q.getOp k op.client op.num with
    | error e => exact ⟨rfl, by intro q' hq'; cases hq'⟩
    | ok o =>
      simp only
      have hop := getOp_ok_any q k op.client op.num o hg
      have hne : q.opsOf k op.client ≠ [] := by intro e; rw [e] at hop; simp at hop
      have hex := hasStudy_of_op q hw k op.client hne
      have hs := updateOp_sim q hw k op hex hop
      refine ⟨hs.1, ?_⟩
      intro q' hq'
      refine ⟨hs.2 q' hq', ?_⟩
      unfold Sql.updateOp at hq'
      simp only [hop, if_true, Except.ok.injEq] at hq'
      subst hq'
      exact numbered_update q hn k op
  | updateMetadata k d => exact updateMetadata_sim q hw hn k d
  | createStudy k h =>
    refine lift (createStudy_sim q hw k h) ?_
    intro q' hq'
    change q.createStudy k h = _ at hq'
    unfold Sql.createStudy at hq'
    split at hq'
    · cases hq'
    · injection hq' with hq'
      subst hq'
      exact numbered_of_ops_eq q _ rfl hn
  | updateStudy k h =>
    refine lift (updateStudy_sim q hw k h) ?_
    intro q' hq'
    change q.updateStudy k h = _ at hq'
    unfold Sql.updateStudy at hq'
    split at hq'
    · injection hq' with hq'
      subst hq'
      exact numbered_of_ops_eq q _ rfl hn
    · cases hq'
  | deleteStudy k =>
    refine lift (deleteStudy_sim q hw k) ?_
    intro q' hq'
    change q.deleteStudy k = _ at hq'
    unfold Sql.deleteStudy at hq'
    split at hq'
    · injection hq' with hq'
      subst hq'
      exact numbered_delete q hn k _ _
    · cases hq'
  | updateTrial k t =>
    refine lift (updateTrial_sim q hw k t) ?_
    intro q' hq'
    change q.updateTrial k t = _ at hq'
    unfold Sql.updateTrial at hq'
    split at hq'
    · injection hq' with hq'
      subst hq'
      exact numbered_of_ops_eq q _ rfl hn
    · cases hq'
  | deleteTrial k id =>
    refine lift (deleteTrial_sim q hw k id) ?_
    intro q' hq'
    change q.deleteTrial k id = _ at hq'
    unfold Sql.deleteTrial at hq'
    split at hq'
    · injection hq' with hq'
      subst hq'
      exact numbered_of_ops_eq q _ rfl hn
    · cases hq'
  | createTrial k t =>
    simp only [Ram.exec, Sql.exec]
    by_cases hs : q.hasStudy k = true
    · simp only [hs, if_true]
      refine lift (createTrial_sim q hw k t hs) ?_
      intro q' hq'
      unfold Sql.createTrial at hq'
      split at hq'
      · cases hq'
      · injection hq' with hq'
        subst hq'
        exact numbered_of_ops_eq q _ rfl hn
    · have hs' : q.hasStudy k = false := by
        cases hh : q.hasStudy k with
        | true => exact absurd hh hs
        | false => rfl
      refine ⟨?_, ?_⟩
      · simp only [hs', Bool.false_eq_true, if_false]
        unfold Ram.createTrial
        rw [node_absQ q hw, hasStudy_false_find q k hs']
        rfl
      · intro q' hq'; simp [hs'] at hq'

/-- a failing call leaves the store unchanged; the outcome (ok / error kind) is recorded -/
def Ram.runW (r : Ram) : List WOp → Ram × List (Option DsErr)
  | [] => (r, [])
  | op :: ops =>
    match r.exec op with
    | .ok r' => let x := Ram.runW r' ops; (x.1, none :: x.2)
    | .error e => let x := Ram.runW r ops; (x.1, some e :: x.2)

def Sql.runW (q : Sql) : List WOp → Sql × List (Option DsErr)
  | [] => (q, [])
  | op :: ops =>
    match q.exec op with
    | .ok q' => let x := Sql.runW q' ops; (x.1, none :: x.2)
    | .error e => let x := Sql.runW q ops; (x.1, some e :: x.2)

theorem runW_sim (q : Sql) (hw : WF q) (hn : Numbered q) (ops : List WOp) :
    (absQ q).runW ops = (absQ (q.runW ops).1, (q.runW ops).2) ∧ WF (q.runW ops).1 ∧ Numbered (q.runW ops).1 := by
  induction ops generalizing q with
  | nil => exact ⟨rfl, hw, hn⟩
  | cons op ops ih =>
    have hs := exec_sim q hw hn op
    unfold Ram.runW Sql.runW
    cases hq : q.exec op with
    | ok q' =>
      have hr : (absQ q).exec op = .ok (absQ q') := by rw [hs.1, hq]; rfl
      have := ih q' (hs.2 q' hq).1 (hs.2 q' hq).2
      simp only [hr, this.1]
      exact ⟨trivial, this.2⟩
    | error e =>
      have hr : (absQ q).exec op = .error e := by rw [hs.1, hq]; rfl
      have := ih q hw hn
      simp only [hr, this.1]
      exact ⟨trivial, this.2⟩

/-- the read calls -/
inductive ROp where
  | loadStudy (k : SKey)
  | listStudies (o : String)
  | getTrial (k : SKey) (id : Nat)
  | listTrials (k : SKey)
  | maxTrialId (k : SKey)
  | getOp (k : SKey) (client : String) (num : Nat)
  | listOps (k : SKey) (client : String)
  | maxOpNumber (k : SKey) (client : String)

inductive RVal where
  | head (h : Except DsErr Head)
  | heads (l : Except DsErr (List (String × Head)))
  | trial (t : Except DsErr Trial)
  | trials (l : Except DsErr (List Trial))
  | num (n : Except DsErr Nat)
  | sop (o : Except DsErr SugOp)
  | sops (l : Except DsErr (List SugOp))

def Ram.read (r : Ram) : ROp → RVal
  | .loadStudy k => .head (r.loadStudy k)
  | .listStudies o => .heads (r.listStudies o)
  | .getTrial k id => .trial (r.getTrial k id)
  | .listTrials k => .trials (r.listTrials k)
  | .maxTrialId k => .num (r.maxTrialId k)
  | .getOp k c n => .sop (r.getOp k c n)
  | .listOps k c => .sops (r.listOps k c)
  | .maxOpNumber k c => .num (r.maxOpNumber k c)

def Sql.read (q : Sql) : ROp → RVal
  | .loadStudy k => .head (q.loadStudy k)
  | .listStudies o => .heads (q.listStudies o)
  | .getTrial k id => .trial (q.getTrial k id)
  | .listTrials k => .trials (q.listTrials k)
  | .maxTrialId k => .num (q.maxTrialId k)
  | .getOp k c n => .sop (q.getOp k c n)
  | .listOps k c => .sops (q.listOps k c)
  | .maxOpNumber k c => .num (q.maxOpNumber k c)

theorem read_sim (q : Sql) (hw : WF q) (hn : Numbered q) (rd : ROp) : (absQ q).read rd = q.read rd := by
  cases rd with
  | loadStudy k => simp only [Ram.read, Sql.read, loadStudy_sim q hw]
  | listStudies o => simp only [Ram.read, Sql.read, listStudies_sim q hw]
  | getTrial k id => simp only [Ram.read, Sql.read, getTrial_sim q hw]
  | listTrials k => simp only [Ram.read, Sql.read, listTrials_sim q hw]
  | maxTrialId k => simp only [Ram.read, Sql.read, maxTrialId_sim q hw]
  | getOp k c n => simp only [Ram.read, Sql.read, getOp_sim q hw]
  | listOps k c => simp only [Ram.read, Sql.read, listOps_sim q hw]
  | maxOpNumber k c => simp only [Ram.read, Sql.read, maxOpNumber_sim q hw k c (hn k c)]

end VizierModel.Stores
