import VizierModel.Lemmas.StoresStudy
namespace VizierModel.Stores
open VizierModel.Svc

/-! ### whole write histories: the nested-dict store is the abstraction of the table store -/

/-- the datastore write calls the service issues (studies and trials) -/
inductive WOp where
  | createStudy (k : SKey) (h : Head)
  | updateStudy (k : SKey) (h : Head)
  | deleteStudy (k : SKey)
  | createTrial (k : SKey) (t : Trial)
  | updateTrial (k : SKey) (t : Trial)
  | deleteTrial (k : SKey) (id : Nat)
  deriving Repr

def Ram.exec (r : Ram) : WOp → Except DsErr Ram
  | .createStudy k h => r.createStudy k h
  | .updateStudy k h => r.updateStudy k h
  | .deleteStudy k => r.deleteStudy k
  | .createTrial k t => r.createTrial k t
  | .updateTrial k t => r.updateTrial k t
  | .deleteTrial k id => r.deleteTrial k id

/-- `create_trial` is only ever issued by the service after `max_trial_id` / `load_study` of the same
    study succeeded under the study lock (vizier_service.py CreateTrial, SuggestTrials): the guard is
    that call.  Without it the two stores differ (`createTrial_orphan_counterexample`). -/
def Sql.exec (q : Sql) : WOp → Except DsErr Sql
  | .createStudy k h => q.createStudy k h
  | .updateStudy k h => q.updateStudy k h
  | .deleteStudy k => q.deleteStudy k
  | .createTrial k t => if q.hasStudy k then q.createTrial k t else .error .notFound
  | .updateTrial k t => q.updateTrial k t
  | .deleteTrial k id => q.deleteTrial k id

theorem exec_sim (q : Sql) (hw : WF q) (op : WOp) :
    (absQ q).exec op = (q.exec op).map absQ ∧ (∀ q', q.exec op = .ok q' → WF q') := by
  cases op with
  | createStudy k h => exact createStudy_sim q hw k h
  | updateStudy k h => exact updateStudy_sim q hw k h
  | deleteStudy k => exact deleteStudy_sim q hw k
  | createTrial k t =>
    unfold Ram.exec Sql.exec
    by_cases hs : q.hasStudy k = true
    · simp only [hs, if_true]; exact createTrial_sim q hw k t hs
    · have hs' : q.hasStudy k = false := by
        cases hh : q.hasStudy k with
        | true => exact absurd hh hs
        | false => rfl
      refine ⟨?_, ?_⟩
      · simp only [hs', Bool.false_eq_true, if_false]
        unfold Ram.createTrial
        rw [node_absQ q hw, hasStudy_false_find q k hs']
        rfl
      · intro q' hq'; simp [hs'] at hq'
  | updateTrial k t => exact updateTrial_sim q hw k t
  | deleteTrial k id => exact deleteTrial_sim q hw k id

/-- a failing call leaves the store unchanged; the outcome (ok / error kind) is recorded -/
def Ram.runW (r : Ram) : List WOp → Ram × List (Option DsErr)
  | [] => (r, [])
  | op :: ops =>
    match r.exec op with
    | .ok r' => let x := Ram.runW r' ops; (x.1, none :: x.2)
    | .error e => let x := Ram.runW r ops; (x.1, some e :: x.2)

def Sql.runW (q : Sql) : List WOp → Sql × List (Option DsErr)
  | [] => (q, [])
  | op :: ops =>
    match q.exec op with
    | .ok q' => let x := Sql.runW q' ops; (x.1, none :: x.2)
    | .error e => let x := Sql.runW q ops; (x.1, some e :: x.2)

theorem runW_sim (q : Sql) (hw : WF q) (ops : List WOp) :
    (absQ q).runW ops = (absQ (q.runW ops).1, (q.runW ops).2) ∧ WF (q.runW ops).1 := by
  induction ops generalizing q with
  | nil => exact ⟨rfl, hw⟩
  | cons op ops ih =>
    have hs := exec_sim q hw op
    unfold Ram.runW Sql.runW
    cases hq : q.exec op with
    | ok q' =>
      have hr : (absQ q).exec op = .ok (absQ q') := by rw [hs.1, hq]; rfl
      have := ih q' (hs.2 q' hq)
      simp only [hr, this.1]
      exact ⟨trivial, this.2⟩
    | error e =>
      have hr : (absQ q).exec op = .error e := by rw [hs.1, hq]; rfl
      have := ih q hw
      simp only [hr, this.1]
      exact ⟨trivial, this.2⟩

/-- the read calls -/
inductive ROp where
  | loadStudy (k : SKey)
  | listStudies (o : String)
  | getTrial (k : SKey) (id : Nat)
  | listTrials (k : SKey)
  | maxTrialId (k : SKey)

inductive RVal where
  | head (h : Except DsErr Head)
  | heads (l : Except DsErr (List (String × Head)))
  | trial (t : Except DsErr Trial)
  | trials (l : Except DsErr (List Trial))
  | num (n : Except DsErr Nat)

def Ram.read (r : Ram) : ROp → RVal
  | .loadStudy k => .head (r.loadStudy k)
  | .listStudies o => .heads (r.listStudies o)
  | .getTrial k id => .trial (r.getTrial k id)
  | .listTrials k => .trials (r.listTrials k)
  | .maxTrialId k => .num (r.maxTrialId k)

def Sql.read (q : Sql) : ROp → RVal
  | .loadStudy k => .head (q.loadStudy k)
  | .listStudies o => .heads (q.listStudies o)
  | .getTrial k id => .trial (q.getTrial k id)
  | .listTrials k => .trials (q.listTrials k)
  | .maxTrialId k => .num (q.maxTrialId k)

theorem read_sim (q : Sql) (hw : WF q) (rd : ROp) : (absQ q).read rd = q.read rd := by
  cases rd with
  | loadStudy k => simp only [Ram.read, Sql.read, loadStudy_sim q hw]
  | listStudies o => simp only [Ram.read, Sql.read, listStudies_sim q hw]
  | getTrial k id => simp only [Ram.read, Sql.read, getTrial_sim q hw]
  | listTrials k => simp only [Ram.read, Sql.read, listTrials_sim q hw]
  | maxTrialId k => simp only [Ram.read, Sql.read, maxTrialId_sim q hw]

end VizierModel.Stores
