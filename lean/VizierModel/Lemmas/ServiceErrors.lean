import VizierModel.Lemmas.ServiceMain
namespace VizierModel.Svc

def Resp.isError : Resp → Bool
  | .err _ _ => true
  | .mdError => true
  | _ => false

theorem putStudy_self {db : DB} (hi : Inv db) {o s : String} {st : Study} (hf : findStudy db o s = some st) :
    putStudy db st = db := by
  obtain ⟨hm, hk⟩ := findStudy_some hf
  unfold putStudy
  have : (db.studies.map fun x => if isStudy st.owner st.sid x then st else x) = db.studies := by
    conv => rhs; rw [← List.map_id db.studies]
    apply List.map_congr_left
    intro x hx
    by_cases h : isStudy st.owner st.sid x = true
    · have : keyOf x = keyOf st := (isStudy_iff _ _ x).mp h
      simp [h, key_unique hi hx hm this]
    · simp [h]
  rw [this]

/-- `onStudy` with a body that returns its study unchanged whenever it answers with an error -/
theorem onStudy_err_keeps {db : DB} (hi : Inv db) (o s : String) (guard : Bool) (f : Study → Resp × Study)
    (hf : ∀ st, (f st).1.isError = true → (f st).2 = st)
    (h : (onStudy db o s guard f).1.isError = true) : (onStudy db o s guard f).2 = db := by
  unfold onStudy at *
  split
  · rfl
  · rename_i st hfind
    split
    · rfl
    · rename_i hg
      simp only [hfind, hg] at h
      simp only
      rw [hf st h]
      exact putStudy_self hi hfind

theorem completeBody_err (st : Study) (id : Nat) (f : Option Meas) (i : Bool) (r : String)
    (h : (completeBody st id f i r).1.isError = true) : (completeBody st id f i r).2 = st := by
  unfold completeBody at *
  repeat' split
  all_goals simp_all [Resp.isError]

theorem addMeasurementBody_err (st : Study) (id : Nat) (m : Meas)
    (h : (addMeasurementBody st id m).1.isError = true) : (addMeasurementBody st id m).2 = st := by
  unfold addMeasurementBody at *
  repeat' split
  all_goals simp_all [Resp.isError]

theorem stopBody_err (st : Study) (id : Nat) (h : (stopBody st id).1.isError = true) : (stopBody st id).2 = st := by
  unfold stopBody at *
  repeat' split
  all_goals simp_all [Resp.isError]

theorem deleteTrialBody_err (st : Study) (id : Nat) (h : (deleteTrialBody st id).1.isError = true) :
    (deleteTrialBody st id).2 = st := by
  unfold deleteTrialBody at *
  repeat' split
  all_goals simp_all [Resp.isError]

theorem updateMetadata_err (cfg : Cfg) (hc : cfg.metadataAtomic = true) (st : Study) (us : List (Meta.Upd K String))
    (h : (st.updateMetadata cfg us).1 = false) : (st.updateMetadata cfg us).2 = st := by
  unfold Study.updateMetadata at *
  simp only [hc, if_true] at *
  split
  · rename_i h1; simp [h1] at h
  · rfl

theorem createStage_noerr (cfg : Cfg) (hc : cfg.shortDeliveryOk = true) (op0 : SugOp) (st : Study) (need : Nat)
    (out : List Trial) (sugg : List Sugg) : (createStage cfg op0 st need out sugg).1.isError = false := by
  unfold createStage
  simp only [hc, Bool.not_true, Bool.and_false]
  rfl

theorem pythiaStage_noerr (cfg : Cfg) (hc : cfg.shortDeliveryOk = true) (hc2 : cfg.suggestCatchesAll = true)
    (op0 : SugOp) (st : Study) (need : Nat) (out : List Trial) (alg : AlgOutcome) :
    (pythiaStage cfg op0 st need out alg).1.isError = false := by
  unfold pythiaStage
  split
  · rfl
  · simp only [hc2, if_true]; rfl
  · simp only
    split
    · rfl
    · exact createStage_noerr cfg hc _ _ _ _ _

theorem suggestRest_noerr (cfg : Cfg) (hc : cfg.shortDeliveryOk = true) (hc2 : cfg.suggestCatchesAll = true)
    (op0 : SugOp) (st : Study) (client : String) (count : Nat) (alg : AlgOutcome) :
    (suggestRest cfg op0 st client count alg).1.isError = false := by
  unfold suggestRest
  simp only
  split
  · rfl
  · split
    · rfl
    · exact pythiaStage_noerr cfg hc hc2 _ _ _ _ _

/-- with the repaired service `SuggestTrials` never answers with an error once the study checks passed:
    every algorithm failure is reported inside a finished operation -/
theorem suggestBody_noerr (cfg : Cfg) (hc : cfg.shortDeliveryOk = true) (hc2 : cfg.suggestCatchesAll = true)
    (st : Study) (client : String) (count : Nat) (alg : AlgOutcome) :
    (suggestBody cfg st client count alg).1.isError = false := by
  unfold suggestBody
  simp only
  split
  · split
    · exact suggestRest_noerr cfg hc hc2 _ _ _ _ _
    · rfl
  · exact suggestRest_noerr cfg hc hc2 _ _ _ _ _

def Req.isEarlyStop : Req → Bool
  | .checkEarlyStop .. => true
  | _ => false

/-- **An RPC that fails leaves all stored data unchanged** (every RPC except the early-stopping
    check, whose bookkeeping record is treated separately). -/
theorem err_keeps_db (cfg : Cfg) (hm : cfg.metadataAtomic = true) (hs : cfg.shortDeliveryOk = true)
    (hc : cfg.suggestCatchesAll = true) (db : DB) (hi : Inv db) (r : Req) (hr : r.isEarlyStop = false)
    (h : (step cfg db r).1.isError = true) : (step cfg db r).2 = db := by
  cases r with
  | createStudy owner display nameSet state spec md =>
    simp only [step] at *
    repeat' split
    all_goals simp_all [Resp.isError]
  | getStudy o s => exact onStudy_err_keeps hi o s false _ (fun _ _ => rfl) h
  | listStudies o => simp only [step] at *; split <;> rfl
  | deleteStudy o s =>
    simp only [step] at *
    repeat' split
    all_goals simp_all [Resp.isError]
  | setStudyState o s stt => exact onStudy_err_keeps hi o s false _ (fun _ h => by simp [Resp.isError] at h) h
  | createTrial o s t => exact onStudy_err_keeps hi o s true _ (fun _ h => by simp [createTrialBody, Resp.isError] at h) h
  | suggest o s client count alg =>
    exact onStudy_err_keeps hi o s true _ (fun st h => by rw [suggestBody_noerr cfg hs hc] at h; cases h) h
  | getOperation o s client num =>
    simp only [step] at *
    split
    · split <;> rfl
    · rename_i h1
      simp only [h1] at h
      apply onStudy_err_keeps hi o s false _ _ h
      intro st _; split <;> rfl
  | getTrial o s id =>
    apply onStudy_err_keeps hi o s false _ _ h
    intro st _; split <;> rfl
  | listTrials o s => exact onStudy_err_keeps hi o s false _ (fun _ _ => rfl) h
  | addMeasurement o s id m => exact onStudy_err_keeps hi o s true _ (fun st h => addMeasurementBody_err st id m h) h
  | complete o s id f i rs => exact onStudy_err_keeps hi o s true _ (fun st h => completeBody_err st id f i rs h) h
  | stop o s id => exact onStudy_err_keeps hi o s true _ (fun st h => stopBody_err st id h) h
  | deleteTrial o s id => exact onStudy_err_keeps hi o s true _ (fun st h => deleteTrialBody_err st id h) h
  | checkEarlyStop o s id es => simp [Req.isEarlyStop] at hr
  | updateMetadata o s us =>
    apply onStudy_err_keeps hi o s true _ _ h
    intro st h
    apply updateMetadata_err cfg hm
    cases hb : (st.updateMetadata cfg us).1 with
    | false => rfl
    | true => simp [hb, Resp.isError] at h
  | listOptimal o s => exact onStudy_err_keeps hi o s false _ (fun _ _ => rfl) h

end VizierModel.Svc
