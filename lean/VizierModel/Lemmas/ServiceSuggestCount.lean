import VizierModel.Lemmas.ServiceSuggestProps
namespace VizierModel.Svc

def Resp.handed : Resp → List Trial
  | .op _ _ h => h
  | _ => []

def Resp.opOf : Resp → Option SugOp
  | .op _ o _ => some o
  | _ => none

def pool (st : Study) : List Trial := st.trials.filter (·.state == .requested)

theorem createStage_handed (cfg : Cfg) (hc : cfg.shortDeliveryOk = true) (op0 : SugOp) (st : Study) (need : Nat)
    (out : List Trial) (sugg : List Sugg) :
    (createStage cfg op0 st need out sugg).1.handed =
      out ++ (takeFromEnd op0.client need (st.maxTrialId + 1) sugg).1 := by
  unfold createStage
  simp only [hc, Bool.not_true, Bool.and_false]
  rfl

/-- **Exactly N** (fewer only if the algorithm delivers fewer): with no unfinished operation of this
    worker and an algorithm that answers with `sugg` (its metadata delta being accepted), the
    operation hands out `min N (own + queued + delivered)` trials. -/
theorem suggest_count (cfg : Cfg) (hc : cfg.shortDeliveryOk = true) (st : Study) (client : String) (count : Nat)
    (sugg : List Sugg)
    (hdone : (opsOf st client).find? (fun o => !o.done) = none) :
    (suggestBody cfg st client count (.suggestions sugg [])).1.handed.length =
      min count ((ownActive st client).length + (pool st).length + sugg.length) := by
  rw [suggestBody_of_free _ _ _ _ _ (hdone)]
  unfold suggestRest
  simp only []
  have hown : (List.filter (fun t => t.state == TState.active && t.client == client) st.trials) = ownActive st client := rfl
  have hpool : (List.filter (fun x => x.state == TState.requested) st.trials) = pool st := rfl
  simp only [hown, hpool]
  by_cases h1 : (ownActive st client).length ≥ count
  · simp only [h1, if_true, finishOp, Resp.handed, List.length_take]
    omega
  · simp only [h1, if_false]
    have hlen : (ownActive st client ++ assignRequested client (count - (ownActive st client).length) (pool st)).length =
        (ownActive st client).length + min (count - (ownActive st client).length) (pool st).length := by
      rw [List.length_append, assignRequested_length]
    by_cases h2 : ((ownActive st client ++ assignRequested client (count - (ownActive st client).length) (pool st)).length == count) = true
    · simp only [h2, if_true, finishOp, Resp.handed]
      have := beq_iff_eq.mp h2
      rw [hlen] at this
      rw [hlen]
      omega
    · simp only [h2]
      have h2' : ¬ ((ownActive st client).length + min (count - (ownActive st client).length) (pool st).length = count) := by
        intro e; apply h2; rw [hlen]; exact beq_iff_eq.mpr e
      unfold pythiaStage
      simp only
      -- an empty delta is always accepted
      have hmd : ∀ s : Study, (s.updateMetadata cfg []).1 = true := by
        intro s
        unfold Study.updateMetadata
        split
        · simp [Meta.updateAtomic, Meta.namedIds]
        · simp [Meta.updateRamLegacy, Meta.namedIds, Meta.updateRamLegacy.go]
      simp only [hmd, Bool.not_true, Bool.false_eq_true, if_false]
      rw [createStage_handed cfg hc, List.length_append, takeFromEnd_length, hlen]
      omega

end VizierModel.Svc
