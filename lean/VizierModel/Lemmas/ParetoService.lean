/-
Lemmas for C11, part 4: `ListOptimalTrials` returns the optimal trials of the definition.
-/
import VizierModel.Lemmas.Pareto
import VizierModel.Model.ParetoService
namespace VizierModel.Pareto

variable {μ β : Type} [DecidableEq μ]

/-- `neg` reverses the order (what `-1.0 * v` does) -/
def Antitone (c : Cmp β) (neg : β → β) : Prop := ∀ a b, c.gt (neg a) (neg b) = c.gt b a

theorem zip_map_filter {γ : Type} (F : γ → Bool) (l : List γ) :
    ((l.zip (l.map F)).filter (·.2)).map (·.1) = l.filter F := by
  induction l with
  | nil => rfl
  | cons a as ih =>
    simp only [List.map_cons, List.zip_cons_cons, List.filter_cons]
    cases F a <;> simp [ih]

theorem numOf_eq_some (f : List (μ × Val β)) (m : μ) (b : β) :
    numOf f m = some b ↔ lookupLast f m = some (.num b) := by
  unfold numOf
  cases hl : lookupLast f m with
  | none => simp
  | some v => cases v <;> simp

theorem numOf_isSome (f : List (μ × Val β)) (m : μ) :
    (numOf f m).isSome = ((lookupLast f m).isSome && !((lookupLast f m).getD .nan).isNaN) := by
  unfold numOf
  cases hl : lookupLast f m with
  | none => rfl
  | some v => cases v <;> rfl

theorem all_and_all {γ : Type} (f g : γ → Bool) (l : List γ) :
    (l.all f && l.all g) = l.all fun x => f x && g x := by
  induction l with
  | nil => rfl
  | cons a as ih =>
    simp only [List.all_cons, ← ih]
    cases f a <;> cases g a <;> cases as.all f <;> cases as.all g <;> rfl

theorem considered_true_eq (spec : List (μ × Goal)) (t : STrial μ β) :
    considered true spec t = eligible spec t := by
  unfold considered eligible
  simp only [Bool.not_true, Bool.false_or, Bool.and_assoc]
  rw [all_and_all]
  have : (fun x : μ × Goal => (lookupLast t.final x.1).isSome && !((lookupLast t.final x.1).getD .nan).isNaN) =
      fun mg => (numOf t.final mg.1).isSome := by
    funext mg; rw [numOf_isSome]
  rw [this]

/-- on trials that report numbers, the flipped-vector comparisons are the goal-aware ones -/
theorem objVec_cmp {c : Cmp β} (h : c.Lawful) {neg : β → β} (ha : Antitone c neg) (t t' : STrial μ β)
    (s : List (μ × Goal))
    (hs : ∀ mg ∈ s, (numOf t.final mg.1).isSome = true ∧ (numOf t'.final mg.1).isSome = true) :
    allLe c.val (objVec neg s t) (objVec neg s t') =
        (s.all fun mg => match numOf t'.final mg.1, numOf t.final mg.1 with
          | some a, some b => betterEq c mg.2 a b | _, _ => false) ∧
    anyGt c.val (objVec neg s t') (objVec neg s t) =
        (s.any fun mg => match numOf t'.final mg.1, numOf t.final mg.1 with
          | some a, some b => better c mg.2 a b | _, _ => false) := by
  induction s with
  | nil => exact ⟨rfl, rfl⟩
  | cons mg rest ih =>
    obtain ⟨h1, h2⟩ := hs mg (List.mem_cons_self ..)
    obtain ⟨ih1, ih2⟩ := ih (fun x hx => hs x (List.mem_cons_of_mem _ hx))
    obtain ⟨b, hb⟩ := Option.isSome_iff_exists.mp h1
    obtain ⟨a, ha'⟩ := Option.isSome_iff_exists.mp h2
    have lb := (numOf_eq_some _ _ _).mp hb
    have la := (numOf_eq_some _ _ _).mp ha'
    obtain ⟨m, g⟩ := mg
    simp only [objVec, List.map_cons, allLe, anyGt, List.all_cons, List.any_cons] at *
    rw [ih1, ih2, hb, ha', lb, la]
    cases g
    · simp [Cmp.val, betterEq, better, Option.getD]
    · simp [Cmp.val, betterEq, better, Option.getD, negV, h.le_def, ha a b, ha b a]

theorem eligible_numOf (spec : List (μ × Goal)) (t : STrial μ β) (he : eligible spec t = true) :
    ∀ mg ∈ spec, (numOf t.final mg.1).isSome = true := by
  unfold eligible at he
  rw [Bool.and_eq_true, List.all_eq_true] at he
  exact he.2

/-- `ListOptimalTrials` with the NaN filter = the definition -/
theorem listOptimal_fixed_correct {c : Cmp β} (h : c.Lawful) {neg : β → β} (ha : Antitone c neg)
    (spec : List (μ × Goal)) (trials : List (STrial μ β)) :
    listOptimal c neg true spec trials = optimalDef c spec trials := by
  unfold listOptimal optimalDef
  cases trials with
  | nil => rfl
  | cons t0 ts =>
    simp only [List.isEmpty_cons, Bool.false_eq_true, ↓reduceIte]
    rw [List.map_map, zip_map_filter, List.filter_filter]
    apply List.filter_congr
    intro t _
    rw [considered_true_eq, Bool.and_comm]
    simp only [Function.comp]
    rw [List.any_map, List.any_filter]
    cases he : eligible spec t
    · simp
    · simp only [Bool.true_and]
      congr 1
      apply List.any_congr rfl
      intro t'
      rw [considered_true_eq]
      cases he' : eligible spec t'
      · simp
      · have hs : ∀ mg ∈ spec, (numOf t.final mg.1).isSome = true ∧ (numOf t'.final mg.1).isSome = true :=
          fun mg hmg => ⟨eligible_numOf spec t he mg hmg, eligible_numOf spec t' he' mg hmg⟩
        obtain ⟨e1, e2⟩ := objVec_cmp h ha t t' spec hs
        simp only [Function.comp, Bool.true_and, dominatesG]
        rw [e1, e2]
        rfl

/-- no considered trial reports NaN for a configured metric -/
def NoNaNObjective (spec : List (μ × Goal)) (trials : List (STrial μ β)) : Prop :=
  ∀ t ∈ trials, ∀ mg ∈ spec, lookupLast t.final mg.1 ≠ some .nan

theorem listOptimal_asWritten_eq_fixed (c : Cmp β) (neg : β → β) (spec : List (μ × Goal))
    (trials : List (STrial μ β)) (hn : NoNaNObjective spec trials) :
    listOptimal c neg false spec trials = listOptimal c neg true spec trials := by
  have hc : trials.filter (considered false spec) = trials.filter (considered true spec) := by
    apply List.filter_congr
    intro t ht
    unfold considered
    simp only [Bool.not_false, Bool.true_or, Bool.and_true, Bool.not_true, Bool.false_or]
    cases hx : (decide (t.state = .succeeded) && spec.all fun mg => (lookupLast t.final mg.1).isSome)
    · rfl
    · simp only [Bool.true_and]
      symm
      rw [List.all_eq_true]
      intro mg hmg
      have := hn t ht mg hmg
      rw [Bool.and_eq_true, List.all_eq_true] at hx
      have hsome := hx.2 mg hmg
      cases hl : lookupLast t.final mg.1 with
      | none => rw [hl] at hsome; cases hsome
      | some v =>
        cases v with
        | nan => rw [hl] at this; exact absurd rfl this
        | num b => rfl
  unfold listOptimal
  rw [hc]

end VizierModel.Pareto
