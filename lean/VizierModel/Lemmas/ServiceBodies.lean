import VizierModel.Lemmas.ServiceBasic
namespace VizierModel.Svc

/-- what every RPC body guarantees about the trials of its study -/
structure TrialsOK (ts ts' : List Trial) : Prop where
  nodup : Nodup' ts'
  step : trialsStepOK ts ts' = true
  fresh : freshIdsOK ts ts' = true

theorem TrialsOK.refl {ts : List Trial} (h : Nodup' ts) : TrialsOK ts ts := by
  refine ⟨h, ?_, ?_⟩
  · rw [trialsStepOK_iff]
    intro t ht t' ht' hid
    rw [nodup_mem_eq h ht ht' hid]; exact trialStepOK_refl _
  · simp only [freshIdsOK, newTrials, List.all_eq_true, List.mem_filter, Bool.not_eq_true', and_imp]
    intro t' ht' hnone
    have : ts.any (fun x => x.id == t'.id) = true := List.any_eq_true.mpr ⟨t', ht', by simp⟩
    rw [this] at hnone; cases hnone

theorem findTrial_some {st : Study} {id : Nat} {t : Trial} (h : st.findTrial id = some t) :
    t ∈ st.trials ∧ t.id = id := by
  unfold Study.findTrial at h
  exact ⟨List.mem_of_find?_eq_some h, by simpa using List.find?_some h⟩

theorem freshIdsOK_map (ts : List Trial) (g : Trial → Trial) (hg : ∀ x ∈ ts, (g x).id = x.id) :
    freshIdsOK ts (ts.map g) = true := by
  simp only [freshIdsOK, newTrials, List.all_eq_true, List.mem_filter, Bool.not_eq_true', and_imp]
  intro t' ht' hnone
  obtain ⟨x, hx, rfl⟩ := List.mem_map.mp ht'
  have : ts.any (fun y => y.id == (g x).id) = true :=
    List.any_eq_true.mpr ⟨x, hx, by simp [hg x hx]⟩
  rw [this] at hnone; cases hnone

theorem trialsOK_map {ts : List Trial} (hn : Nodup' ts) (g : Trial → Trial)
    (hg : ∀ x ∈ ts, (g x).id = x.id ∧ trialStepOK x (g x) = true) : TrialsOK ts (ts.map g) :=
  ⟨nodup_map hn g (fun x hx => (hg x hx).1), trialsStepOK_map hn g hg, freshIdsOK_map ts g (fun x hx => (hg x hx).1)⟩

/-- replacing the stored copy of a trial by a legally evolved one -/
theorem putTrial_ok {st : Study} (hn : Nodup' st.trials) {id : Nat} {t0 t : Trial}
    (hf : st.findTrial id = some t0) (hid : t.id = id) (hs : trialStepOK t0 t = true) :
    TrialsOK st.trials (st.putTrial t).trials := by
  obtain ⟨hm, h0⟩ := findTrial_some hf
  show TrialsOK st.trials (st.trials.map fun x => if x.id == t.id then t else x)
  apply trialsOK_map hn
  intro x hx
  by_cases hxi : x.id = t.id
  · have : x = t0 := nodup_mem_eq hn hx hm (hxi.trans (hid.trans h0.symm))
    subst this
    simp [hxi, hs]
  · simp [hxi, trialStepOK_refl]

/-! ### single-trial bodies -/

theorem mutable_cases {s : TState} (h : s.mutable = true) : s = .active ∨ s = .stopping := by
  cases s <;> simp_all [TState.mutable]

theorem chooseFinal_some {t t1 : Trial} {final : Option Meas} {inf : Bool}
    (h : chooseFinal t final inf = some t1) : t1 = { t with final := t1.final } := by
  unfold chooseFinal at h
  simp only at h
  split at h
  · cases h; rfl
  · split at h
    · cases h; rfl
    · split at h
      · cases h; rfl
      · cases h

theorem completeBody_ok (st : Study) (id : Nat) (final : Option Meas) (inf : Bool) (reason : String)
    (hn : Nodup' st.trials) : TrialsOK st.trials (completeBody st id final inf reason).2.trials := by
  unfold completeBody
  split
  · exact TrialsOK.refl hn
  · rename_i t hf
    split
    · exact TrialsOK.refl hn
    · rename_i hmut
      have hmut' : t.state = .active ∨ t.state = .stopping := by
        apply mutable_cases
        cases h : t.state.mutable with
        | true => rfl
        | false => simp [h] at hmut
      split
      · exact TrialsOK.refl hn
      · rename_i t1 hw
        have ht1 := chooseFinal_some hw
        have hidt := (findTrial_some hf).2
        apply putTrial_ok hn hf
        · unfold markCompleted; rw [ht1]; split <;> exact hidt
        · rw [trialStepOK_iff]
          refine ⟨?_, ?_, ?_, ?_⟩
          · unfold markCompleted; split <;> rcases hmut' with h | h <;> simp [h, legal]
          · unfold markCompleted; rw [ht1]; split <;> rfl
          · intro hc
            rcases hmut' with h | h <;> simp [h, TState.completed] at hc
          · intro _; unfold markCompleted; rw [ht1]; split <;> rfl

theorem not_mutable_false {s : TState} (h : ¬ ((!s.mutable) = true)) : s.mutable = true := by
  cases h' : s.mutable with
  | true => rfl
  | false => simp [h'] at h

theorem addMeasurementBody_ok (st : Study) (id : Nat) (m : Meas) (hn : Nodup' st.trials) :
    TrialsOK st.trials (addMeasurementBody st id m).2.trials := by
  unfold addMeasurementBody
  split
  · exact TrialsOK.refl hn
  · rename_i t hf
    split
    · exact TrialsOK.refl hn
    · split
      · exact TrialsOK.refl hn
      · rename_i _ hmut
        have hmut' := mutable_cases (not_mutable_false hmut)
        refine putTrial_ok hn hf (t := { t with meas := t.meas ++ [m] }) (findTrial_some hf).2 ?_
        rw [trialStepOK_iff]
        refine ⟨legal_refl _, rfl, fun hc => ?_, fun _ => rfl⟩
        rcases hmut' with h | h <;> simp [h, TState.completed] at hc

theorem stopBody_ok (st : Study) (id : Nat) (hn : Nodup' st.trials) :
    TrialsOK st.trials (stopBody st id).2.trials := by
  unfold stopBody
  split
  · exact TrialsOK.refl hn
  · rename_i t hf
    split
    · rename_i hact
      have hact' : t.state = .active := by simpa using hact
      refine putTrial_ok hn hf (t := { t with state := .stopping }) (findTrial_some hf).2 ?_
      rw [trialStepOK_iff]
      refine ⟨by simp [hact', legal], rfl, fun hc => ?_, fun _ => rfl⟩
      simp [hact', TState.completed] at hc
    · split <;> exact TrialsOK.refl hn

theorem maxId_lt_of_new {ts : List Trial} {t : Trial} (h : maxId ts < t.id) : ∀ x ∈ ts, x.id ≠ t.id := by
  intro x hx e
  have := le_maxId hx
  omega

/-- appending trials whose ids are `maxId+1, maxId+2, …` -/
theorem trialsOK_append {ts ts' : List Trial} (h : TrialsOK ts ts') (hsame : ts'.map (·.id) = ts.map (·.id))
    (new : List Trial) (hids : new.map (·.id) = List.range' (maxId ts + 1) new.length) :
    TrialsOK ts (ts' ++ new) := by
  have hnew_gt : ∀ n ∈ new, maxId ts < n.id := by
    intro n hn
    have : n.id ∈ new.map (·.id) := List.mem_map.mpr ⟨n, hn, rfl⟩
    rw [hids, List.mem_range'_1] at this
    omega
  refine ⟨?_, ?_, ?_⟩
  · unfold Nodup'
    rw [List.map_append, List.nodup_append]
    refine ⟨h.nodup, ?_, ?_⟩
    · rw [hids]; exact List.nodup_range'
    · intro a ha b hb
      rw [hsame] at ha
      obtain ⟨x, hx, rfl⟩ := List.mem_map.mp ha
      obtain ⟨n, hn, rfl⟩ := List.mem_map.mp hb
      have := le_maxId hx
      have := hnew_gt n hn
      omega
  · apply trialsStepOK_append h.step
    intro n hn t ht
    exact maxId_lt_of_new (hnew_gt n hn) t ht
  · simp only [freshIdsOK, newTrials, List.all_eq_true, List.mem_filter, Bool.not_eq_true', and_imp,
      decide_eq_true_eq, List.mem_append]
    intro t' ht' hnone
    rcases ht' with ht' | ht'
    · have : t'.id ∈ ts.map (·.id) := by rw [← hsame]; exact List.mem_map.mpr ⟨t', ht', rfl⟩
      obtain ⟨x, hx, hxe⟩ := List.mem_map.mp this
      have : ts.any (fun y => y.id == t'.id) = true := List.any_eq_true.mpr ⟨x, hx, by simp [hxe]⟩
      rw [this] at hnone; cases hnone
    · exact hnew_gt t' ht'

theorem createTrialBody_ok (keepInf : Bool) (st : Study) (t : Trial) (hn : Nodup' st.trials) :
    TrialsOK st.trials (createTrialBody keepInf st t).2.trials := by
  unfold createTrialBody Study.addTrial
  apply trialsOK_append (TrialsOK.refl hn) rfl
  simp [maxTrialId_eq, List.range']

theorem deleteTrialBody_ok (st : Study) (id : Nat) (hn : Nodup' st.trials) :
    TrialsOK st.trials (deleteTrialBody st id).2.trials := by
  unfold deleteTrialBody
  split
  · exact TrialsOK.refl hn
  · have hsub : ∀ x ∈ st.trials.filter (fun x => x.id != id), x ∈ st.trials := fun x hx => (List.mem_filter.mp hx).1
    refine ⟨?_, ?_, ?_⟩
    · unfold Nodup' at *
      exact List.Nodup.sublist (List.Sublist.map _ (List.filter_sublist)) hn
    · rw [trialsStepOK_iff]
      intro t ht t' ht' hid
      rw [nodup_mem_eq hn ht (hsub t' ht') hid]; exact trialStepOK_refl _
    · simp only [freshIdsOK, newTrials, List.all_eq_true, List.mem_filter, Bool.not_eq_true', and_imp]
      intro t' ht' _ hnone
      have : st.trials.any (fun y => y.id == t'.id) = true := List.any_eq_true.mpr ⟨t', ht', by simp⟩
      rw [this] at hnone; cases hnone

end VizierModel.Svc
