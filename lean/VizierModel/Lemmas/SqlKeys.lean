/-
Helper lemmas for Props/SqlKeys.lean: the row semantics of keyed queries, and filters on the row lists of the
`Sql` model.
-/
import VizierModel.Model.SqlKeys

namespace VizierModel.SqlKeys
open VizierModel.Generated.SqlWhere VizierModel.Stores VizierModel.Svc

/-! ### a conjunct `col == src` of a query that selects a row pins the column to the value of the source -/

theorem hasEq_selects {env : Env} {colOf : String → Option Val} {q : Query} {col : String} {src : Source}
    (h : hasEq q col src = true) (hs : selects env colOf q = true) :
    ∃ a, colOf col = some a ∧ env src = some a := by
  unfold hasEq at h
  rw [List.any_eq_true] at h
  obtain ⟨c, hc, h⟩ := h
  simp only [Bool.and_eq_true, beq_iff_eq] at h
  obtain ⟨⟨h1, _⟩, h3⟩ := h
  unfold selects at hs
  rw [List.all_eq_true] at hs
  have h4 := hs c hc
  unfold conjHolds at h4
  rw [h1, h3] at h4
  simp only [Bool.and_eq_true] at h4
  obtain ⟨_, h5⟩ := h4
  cases ha : colOf col with
  | none => simp [ha] at h5
  | some a =>
    cases hb : env src with
    | none => simp [ha, hb] at h5
    | some b =>
      simp only [ha, hb, beq_iff_eq] at h5
      exact ⟨a, rfl, by rw [h5]⟩

/-- both `owner_id` and `study_id` pinned to the parsed study name: the row's key is the study addressed -/
theorem ownerStudy_selects {env : Env} {colOf : String → Option Val} {q : Query} {o : Source} {k : SKey} {a b : String}
    (he : StudyEnv env o k) (h : hasOwnerStudy q o = true) (hs : selects env colOf q = true)
    (ho : colOf "owner_id" = some (.str a)) (hst : colOf "study_id" = some (.str b)) : (a, b) = k := by
  unfold hasOwnerStudy at h
  rw [Bool.and_eq_true] at h
  obtain ⟨x, hx1, hx2⟩ := hasEq_selects h.1 hs
  obtain ⟨y, hy1, hy2⟩ := hasEq_selects h.2 hs
  rw [ho] at hx1
  rw [hst] at hy1
  rw [he.owner] at hx2
  rw [he.study] at hy2
  cases hx1
  cases hy1
  cases hx2
  cases hy2
  rfl

theorem trialsCol_owner (row : SKey × Trial) : trialsCol row "owner_id" = some (.str row.1.1) := by
  simp [trialsCol]

theorem trialsCol_study (row : SKey × Trial) : trialsCol row "study_id" = some (.str row.1.2) := by
  simp [trialsCol]

theorem trialsCol_name (row : SKey × Trial) : trialsCol row "trial_name" = some (.trialName row.1 row.2.id) := by
  simp [trialsCol]

theorem opsCol_owner (row : SKey × SugOp) : opsCol row "owner_id" = some (.str row.1.1) := by
  simp [opsCol]

theorem opsCol_study (row : SKey × SugOp) : opsCol row "study_id" = some (.str row.1.2) := by
  simp [opsCol]

theorem studiesCol_name (row : SKey × Head) : studiesCol row "study_name" = some (.studyName row.1) := by
  simp [studiesCol]

/-! ### the two shapes used by `list_trials` / `max_trial_id`, evaluated -/

theorem selects_by1_studyName (env : Env) (o : Source) (k : SKey) (he : env o = some (.studyName k))
    (row : SKey × Head) (t : Table) (kd : Kind) (vs : List (String × Source)) :
    selects env (studiesCol row) ⟨t, kd, by1 "study_name" o, vs⟩ = (row.1 == k) := by
  simp only [selects, by1, List.all_cons, List.all_nil, Bool.and_true, conjHolds, studiesCol_name, he]
  rw [Bool.eq_iff_iff]
  simp

theorem selects_byStudy_trials (env : Env) (o : Source) (k : SKey) (he : StudyEnv env o k)
    (row : SKey × Trial) (t : Table) (kd : Kind) (vs : List (String × Source)) :
    selects env (trialsCol row) ⟨t, kd, byStudy o, vs⟩ = (row.1 == k) := by
  simp only [selects, byStudy, List.all_cons, List.all_nil, Bool.and_true, conjHolds, trialsCol_owner, trialsCol_study,
    he.owner, he.study]
  rcases row with ⟨⟨a, b⟩, tr⟩
  rcases k with ⟨c, d⟩
  rw [Bool.eq_iff_iff]
  simp

/-! ### filters on row lists -/

theorem any_of_filter_eq {α : Type} (p : α → Bool) (l l' : List α) (h : l'.filter p = l.filter p) :
    l'.any p = l.any p := by
  have e : ∀ m : List α, m.any p = (m.filter p).any p := by
    intro m
    rw [List.any_filter]
    congr 1
    funext a
    cases p a <;> rfl
  rw [e l', e l, h]

theorem find?_of_filter_eq {α : Type} (p : α → Bool) (l l' : List α) (h : l'.filter p = l.filter p) :
    l'.find? p = l.find? p := by
  have e : ∀ m : List α, m.find? p = (m.filter p).head? := by
    intro m
    induction m with
    | nil => rfl
    | cons x xs ih =>
      by_cases hx : p x = true
      · rw [List.find?_cons_of_pos hx, List.filter_cons_of_pos hx]
        rfl
      · rw [List.find?_cons_of_neg hx, List.filter_cons_of_neg hx]
        exact ih
  rw [e l', e l, h]

theorem filter_key_of_filter_ne {α : Type} (l : List (SKey × α)) (k k' : SKey) (h : k' ≠ k) :
    (l.filter (·.1 != k)).filter (·.1 == k') = l.filter (·.1 == k') := by
  rw [List.filter_filter]
  apply List.filter_congr
  intro row _
  by_cases e : row.1 = k'
  · have : (row.1 != k) = true := by
      rw [e]
      simpa using h
    simp [e]
    simpa [e] using this
  · have : (row.1 == k') = false := by simpa using e
    simp [this]

theorem filter_key_of_filter_self {α : Type} (l : List (SKey × α)) (k : SKey) :
    (l.filter (·.1 != k)).filter (·.1 == k) = [] := by
  rw [List.filter_filter, List.filter_eq_nil_iff]
  intro row _
  by_cases e : row.1 = k <;> simp [e]

end VizierModel.SqlKeys
