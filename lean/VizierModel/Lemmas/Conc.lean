import VizierModel.Model.Conc
import VizierModel.Lemmas.ServiceEs
namespace VizierModel.Conc
open VizierModel.Svc

/-- the critical section never changes whether the study is immutable -/
def PresMut (c : Crit) : Prop := ∀ st, (c.body st).2.immutable = st.immutable

/-- critical sections that commute (responses and final state) -/
def Commute (a b : Crit) : Prop :=
  ∀ st, obs (b.body (a.body st).2).1 = obs (b.body st).1 ∧ obs (a.body (b.body st).2).1 = obs (a.body st).1 ∧
    (b.body (a.body st).2).2 = (a.body (b.body st).2).2

theorem serialisable_presMut (a b : Crit) (ha : PresMut a) (hb : PresMut b) (st : Study) :
    ∀ evs ∈ interleavings,
      outcome (runEvs a b st evs) = outcome (runEvs a b st serialAB) ∨
      outcome (runEvs a b st evs) = outcome (runEvs a b st serialBA) := by
  intro evs hevs
  simp only [interleavings, List.mem_cons, List.mem_nil_iff, or_false] at hevs
  have hA := ha st
  have hB := hb st
  rcases hevs with rfl | rfl | rfl | rfl | rfl | rfl
  · exact Or.inl rfl
  · left
    simp only [runEvs, serialAB, List.foldl_cons, List.foldl_nil, stepEv, outcome]
    cases hi : st.immutable <;> cases hac : a.checks <;> cases hbc : b.checks <;> simp_all
  · right
    simp only [runEvs, serialBA, List.foldl_cons, List.foldl_nil, stepEv, outcome]
    cases hi : st.immutable <;> cases hac : a.checks <;> cases hbc : b.checks <;> simp_all
  · left
    simp only [runEvs, serialAB, List.foldl_cons, List.foldl_nil, stepEv, outcome]
    cases hi : st.immutable <;> cases hac : a.checks <;> cases hbc : b.checks <;> simp_all
  · right
    simp only [runEvs, serialBA, List.foldl_cons, List.foldl_nil, stepEv, outcome]
    cases hi : st.immutable <;> cases hac : a.checks <;> cases hbc : b.checks <;> simp_all
  · exact Or.inr rfl

/-- `a` has no study check (SetStudyState), `b` checks and keeps immutability; their critical
    sections commute -/
theorem serialisable_nocheck_commute (a b : Crit) (ha : a.checks = false) (hb : PresMut b) (hc : Commute a b)
    (st : Study) :
    ∀ evs ∈ interleavings,
      outcome (runEvs a b st evs) = outcome (runEvs a b st serialAB) ∨
      outcome (runEvs a b st evs) = outcome (runEvs a b st serialBA) := by
  intro evs hevs
  simp only [interleavings, List.mem_cons, List.mem_nil_iff, or_false] at hevs
  have hB := hb st
  obtain ⟨c1, c2, c3⟩ := hc st
  rcases hevs with rfl | rfl | rfl | rfl | rfl | rfl
  · exact Or.inl rfl
  · right
    simp only [runEvs, serialBA, List.foldl_cons, List.foldl_nil, stepEv, outcome, ha]
    cases hi : st.immutable <;> cases hbc : b.checks <;> simp_all
  · right
    simp only [runEvs, serialBA, List.foldl_cons, List.foldl_nil, stepEv, outcome, ha]
    cases hi : st.immutable <;> cases hbc : b.checks <;> simp_all
  · right
    simp only [runEvs, serialBA, List.foldl_cons, List.foldl_nil, stepEv, outcome, ha]
    cases hi : st.immutable <;> cases hbc : b.checks <;> simp_all
  · right
    simp only [runEvs, serialBA, List.foldl_cons, List.foldl_nil, stepEv, outcome, ha]
    cases hi : st.immutable <;> cases hbc : b.checks <;> simp_all
  · exact Or.inr rfl

/-- neither has a study check: the interleaving is the order of the two critical sections -/
theorem serialisable_nochecks (a b : Crit) (ha : a.checks = false) (hb : b.checks = false) (st : Study) :
    ∀ evs ∈ interleavings,
      outcome (runEvs a b st evs) = outcome (runEvs a b st serialAB) ∨
      outcome (runEvs a b st evs) = outcome (runEvs a b st serialBA) := by
  intro evs hevs
  simp only [interleavings, List.mem_cons, List.mem_nil_iff, or_false] at hevs
  rcases hevs with rfl | rfl | rfl | rfl | rfl | rfl
  · exact Or.inl rfl
  · left; simp [runEvs, serialAB, stepEv, outcome, ha, hb]
  · right; simp [runEvs, serialBA, stepEv, outcome, ha, hb]
  · left; simp [runEvs, serialAB, stepEv, outcome, ha, hb]
  · right; simp [runEvs, serialBA, stepEv, outcome, ha, hb]
  · exact Or.inr rfl

end VizierModel.Conc
