/-
Mixed-radix arithmetic of the grid designer (C13): `digits` is a bijection between `{0..N-1}` and
the box of index tuples, `pointAt` enumerates every grid point exactly once and has period `N`;
soundness of the executable judge `eachOnceB`.
-/
import VizierModel.Lemmas.Restart
import Mathlib.Data.List.Nodup
import Mathlib.Data.List.Perm.Subperm
import Mathlib.Data.List.Perm.Basic
import Mathlib.Algebra.BigOperators.Group.List.Basic

namespace VizierModel.Restart

/-! ## digits -/

/-- the box `∏ [0, lᵢ)` of index tuples -/
def InBox (ls ds : List Nat) : Prop := List.Forall₂ (fun l d => d < l) ls ds

theorem digits_inBox (ls : List Nat) (hpos : ∀ l ∈ ls, 0 < l) : ∀ i, InBox ls (digits ls i) := by
  induction ls with
  | nil => intro i; exact List.Forall₂.nil
  | cons l ls ih =>
    intro i
    refine List.Forall₂.cons (Nat.mod_lt _ (hpos l (by simp))) (ih (fun x hx => hpos x (by simp [hx])) _)

theorem undigits_digits (ls : List Nat) : ∀ i, i < ls.prod → undigits ls (digits ls i) = i := by
  induction ls with
  | nil => intro i hi; simp at hi; simp [undigits, hi]
  | cons l ls ih =>
    intro i hi
    rw [List.prod_cons] at hi
    simp only [digits, undigits]
    rw [ih _ (Nat.div_lt_of_lt_mul hi)]
    exact Nat.mod_add_div i l

theorem digits_undigits (ls : List Nat) :
    ∀ ds, InBox ls ds → digits ls (undigits ls ds) = ds := by
  induction ls with
  | nil => intro ds h; cases h; rfl
  | cons l ls ih =>
    intro ds h
    cases h with
    | cons hd htl =>
      rename_i d ds'
      have hl : 0 < l := Nat.lt_of_le_of_lt (Nat.zero_le _) hd
      simp only [digits, undigits]
      rw [Nat.add_mul_mod_self_left, Nat.mod_eq_of_lt hd, Nat.add_mul_div_left _ _ hl,
        Nat.div_eq_of_lt hd, Nat.zero_add, ih _ htl]

theorem undigits_lt (ls : List Nat) : ∀ ds, InBox ls ds → undigits ls ds < ls.prod := by
  induction ls with
  | nil => intro ds h; cases h; simp [undigits]
  | cons l ls ih =>
    intro ds h
    cases h with
    | cons hd htl =>
      rename_i d ds'
      simp only [undigits, List.prod_cons]
      have hu := ih _ htl
      calc d + l * undigits ls ds' < l + l * undigits ls ds' := Nat.add_lt_add_right hd _
        _ = l * (undigits ls ds' + 1) := by rw [Nat.mul_add, Nat.mul_one, Nat.add_comm]
        _ ≤ l * ls.prod := Nat.mul_le_mul_left _ hu

theorem digits_period (ls : List Nat) : ∀ i, digits ls (i + ls.prod) = digits ls i := by
  induction ls with
  | nil => intro i; rfl
  | cons l ls ih =>
    intro i
    rcases Nat.eq_zero_or_pos l with h0 | hl
    · subst h0; simp
    · simp only [digits, List.prod_cons]
      rw [Nat.add_mul_mod_self_left, Nat.add_mul_div_left _ _ hl, ih]

/-! ## points -/

section Points
variable {V : Type} [Inhabited V]

/-- `p` assigns to every parameter (in grid order) one of its grid values -/
def IsGridPoint (gv : GridValues V) (p : List (String × V)) : Prop :=
  List.Forall₂ (fun g e => e.1 = g.1 ∧ e.2 ∈ g.2) gv p

/-- all grids non-empty -/
def GridPos (gv : GridValues V) : Prop := ∀ g ∈ gv, 0 < g.2.length

/-- no parameter lists a grid value twice -/
def GridNodup (gv : GridValues V) : Prop := ∀ g ∈ gv, g.2.Nodup

omit [Inhabited V] in
theorem getD_of_lt (l : List V) (i : Nat) (d : V) (h : i < l.length) : l.getD i d = l[i] := by
  simp [List.getD, h]

omit [Inhabited V] in
theorem gridSize_cons (g : String × List V) (gv : GridValues V) :
    gridSize (g :: gv) = g.2.length * gridSize gv := by
  simp [gridSize, lengths]

theorem pointAt_isGridPoint (gv : GridValues V) (hpos : GridPos gv) :
    ∀ i, IsGridPoint gv (pointAt gv i) := by
  induction gv with
  | nil => intro i; exact List.Forall₂.nil
  | cons g gv ih =>
    intro i
    have hl : 0 < g.2.length := hpos g (by simp)
    refine List.Forall₂.cons ⟨rfl, ?_⟩ (ih (fun x hx => hpos x (by simp [hx])) _)
    show g.2.getD (i % g.2.length) default ∈ g.2
    rw [getD_of_lt _ _ _ (Nat.mod_lt _ hl)]
    exact List.getElem_mem _

theorem pointAt_period (gv : GridValues V) : ∀ i, pointAt gv (i + gridSize gv) = pointAt gv i := by
  induction gv with
  | nil => intro i; rfl
  | cons g gv ih =>
    intro i
    rw [gridSize_cons]
    rcases Nat.eq_zero_or_pos g.2.length with h0 | hl
    · rw [h0]; simp
    · simp only [pointAt]
      rw [Nat.add_mul_mod_self_left, Nat.add_mul_div_left _ _ hl, ih]

theorem pointAt_inj (gv : GridValues V) (hpos : GridPos gv) (hnd : GridNodup gv) :
    ∀ i j, i < gridSize gv → j < gridSize gv → pointAt gv i = pointAt gv j → i = j := by
  induction gv with
  | nil =>
    intro i j hi hj _
    simp [gridSize, lengths] at hi hj
    omega
  | cons g gv ih =>
    intro i j hi hj h
    have hl : 0 < g.2.length := hpos g (by simp)
    rw [gridSize_cons] at hi hj
    simp only [pointAt, List.cons.injEq, Prod.mk.injEq, true_and] at h
    obtain ⟨hh, ht⟩ := h
    rw [getD_of_lt _ _ _ (Nat.mod_lt _ hl), getD_of_lt _ _ _ (Nat.mod_lt _ hl)] at hh
    have hm : i % g.2.length = j % g.2.length := (hnd g (by simp)).getElem_inj_iff.mp hh
    have hd : i / g.2.length = j / g.2.length :=
      ih (fun x hx => hpos x (by simp [hx])) (fun x hx => hnd x (by simp [hx])) _ _
        (Nat.div_lt_of_lt_mul hi) (Nat.div_lt_of_lt_mul hj) ht
    rw [← Nat.mod_add_div i g.2.length, ← Nat.mod_add_div j g.2.length, hm, hd]

theorem pointAt_surj (gv : GridValues V) :
    ∀ p, IsGridPoint gv p → ∃ i, i < gridSize gv ∧ pointAt gv i = p := by
  induction gv with
  | nil => intro p h; cases h; exact ⟨0, by simp [gridSize, lengths], rfl⟩
  | cons g gv ih =>
    intro p h
    cases h with
    | cons hd htl =>
      rename_i e p'
      obtain ⟨hname, hmem⟩ := hd
      obtain ⟨d, hdlt, hdv⟩ := List.mem_iff_getElem.mp hmem
      obtain ⟨i', hi', hp'⟩ := ih _ htl
      have hl : 0 < g.2.length := Nat.lt_of_le_of_lt (Nat.zero_le _) hdlt
      refine ⟨d + g.2.length * i', ?_, ?_⟩
      · rw [gridSize_cons]
        calc d + g.2.length * i' < g.2.length + g.2.length * i' := Nat.add_lt_add_right hdlt _
          _ = g.2.length * (i' + 1) := by rw [Nat.mul_add, Nat.mul_one, Nat.add_comm]
          _ ≤ g.2.length * gridSize gv := Nat.mul_le_mul_left _ hi'
      · simp only [pointAt]
        rw [Nat.add_mul_mod_self_left, Nat.mod_eq_of_lt hdlt, Nat.add_mul_div_left _ _ hl,
          Nat.div_eq_of_lt hdlt, Nat.zero_add, hp', getD_of_lt _ _ _ hdlt, hdv]
        cases e
        simp_all

/-- the first `N` suggestions: no repetition, exactly the grid points -/
theorem gridEnum_nodup (gv : GridValues V) (hpos : GridPos gv) (hnd : GridNodup gv) :
    (gridEnum gv).Nodup := by
  unfold gridEnum
  refine List.Nodup.map_on ?_ List.nodup_range
  intro x hx y hy h
  exact pointAt_inj gv hpos hnd x y (List.mem_range.mp hx) (List.mem_range.mp hy) h

theorem mem_gridEnum (gv : GridValues V) (hpos : GridPos gv) (p : List (String × V)) :
    p ∈ gridEnum gv ↔ IsGridPoint gv p := by
  unfold gridEnum
  constructor
  · intro h
    obtain ⟨i, _, rfl⟩ := List.mem_map.mp h
    exact pointAt_isGridPoint gv hpos i
  · intro h
    obtain ⟨i, hi, rfl⟩ := pointAt_surj gv p h
    exact List.mem_map.mpr ⟨i, List.mem_range.mpr hi, rfl⟩

/-- the block of `N` suggestions starting at any multiple of `N` is the first block again -/
theorem map_pointAt_shift (gv : GridValues V) (a n : Nat) :
    (List.range' (a + gridSize gv) n).map (pointAt gv) = (List.range' a n).map (pointAt gv) := by
  induction n generalizing a with
  | zero => rfl
  | succ n ih =>
    simp only [List.range'_succ, List.map_cons]
    rw [pointAt_period]
    have : a + gridSize gv + 1 = (a + 1) + gridSize gv := by omega
    rw [this, ih]

end Points


/-! ## every prefix of the suggestion stream is balanced -/

section Balanced
variable {V : Type} [Inhabited V]

/-- the first `T` suggestions -/
def cyc (gv : GridValues V) (T : Nat) : List (List (String × V)) := (List.range T).map (pointAt gv)

omit [Inhabited V] in
theorem gridSize_pos (gv : GridValues V) (hpos : GridPos gv) : 0 < gridSize gv := by
  induction gv with
  | nil => simp [gridSize, lengths]
  | cons g gv ih =>
    rw [gridSize_cons]
    exact Nat.mul_pos (hpos g (by simp)) (ih (fun x hx => hpos x (by simp [hx])))

theorem cyc_add_size (gv : GridValues V) (T : Nat) :
    cyc gv (gridSize gv + T) = gridEnum gv ++ cyc gv T := by
  unfold cyc gridEnum
  rw [List.range_eq_range', ← List.range'_append_1, List.map_append, map_pointAt_shift]
  simp only [List.range_eq_range']

theorem cyc_eq_take (gv : GridValues V) (T : Nat) (h : T ≤ gridSize gv) :
    cyc gv T = (gridEnum gv).take T := by
  unfold cyc gridEnum
  rw [← List.map_take, List.take_range, Nat.min_eq_left h]

theorem count_cyc [BEq (List (String × V))] [LawfulBEq (List (String × V))] (gv : GridValues V) (hpos : GridPos gv) (hnd : GridNodup gv)
    (p : List (String × V)) (hp : IsGridPoint gv p) (q r : Nat) (hr : r < gridSize gv) :
    (cyc gv (q * gridSize gv + r)).count p = q + ((gridEnum gv).take r).count p := by
  induction q with
  | zero => simp [cyc_eq_take gv r (Nat.le_of_lt hr)]
  | succ q ih =>
    have e : (q + 1) * gridSize gv + r = gridSize gv + (q * gridSize gv + r) := by
      rw [Nat.succ_mul]; omega
    rw [e, cyc_add_size, List.count_append, ih,
      List.count_eq_one_of_mem (gridEnum_nodup gv hpos hnd) ((mem_gridEnum gv hpos p).mpr hp)]
    omega

/-- a grid point occurs `T / N` or `T / N + 1` times among the first `T` suggestions -/
theorem count_cyc_bounds [BEq (List (String × V))] [LawfulBEq (List (String × V))] (gv : GridValues V) (hpos : GridPos gv) (hnd : GridNodup gv)
    (p : List (String × V)) (hp : IsGridPoint gv p) (T : Nat) :
    T / gridSize gv ≤ (cyc gv T).count p ∧ (cyc gv T).count p ≤ T / gridSize gv + 1 := by
  have hN := gridSize_pos gv hpos
  have h := count_cyc gv hpos hnd p hp (T / gridSize gv) (T % gridSize gv) (Nat.mod_lt _ hN)
  rw [Nat.div_add_mod' T (gridSize gv)] at h
  have hle : ((gridEnum gv).take (T % gridSize gv)).count p ≤ 1 :=
    List.nodup_iff_count_le_one.mp
      ((List.take_sublist _ _).nodup (gridEnum_nodup gv hpos hnd)) p
  omega

theorem cyc_balanced [BEq (List (String × V))] [LawfulBEq (List (String × V))] (gv : GridValues V) (hpos : GridPos gv) (hnd : GridNodup gv)
    (T : Nat) : countsBalanced (gridEnum gv) (cyc gv T) = true := by
  simp only [countsBalanced, Bool.and_eq_true, List.all_eq_true, List.contains_iff_mem,
    decide_eq_true_eq]
  refine ⟨?_, ?_⟩
  · intro x hx
    obtain ⟨i, _, rfl⟩ := List.mem_map.mp hx
    exact (mem_gridEnum gv hpos _).mpr (pointAt_isGridPoint gv hpos i)
  · intro p hp q hq
    have h1 := (count_cyc_bounds gv hpos hnd p ((mem_gridEnum gv hpos p).mp hp) T).2
    have h2 := (count_cyc_bounds gv hpos hnd q ((mem_gridEnum gv hpos q).mp hq) T).1
    omega

end Balanced

/-! ## the shuffle is a permutation: same grid, other order -/

section Shuffle
variable {V : Type}

/-- `gv'` is `gv` with every value list permuted and then the parameters permuted
(`rng.shuffle(items)`; `rng.shuffle(values)` for every parameter) -/
def ShuffleOf (gv gv' : GridValues V) : Prop :=
  ∃ mid : GridValues V,
    List.Forall₂ (fun g m => m.1 = g.1 ∧ m.2.Perm g.2) gv mid ∧ gv'.Perm mid

theorem ShuffleOf.refl (gv : GridValues V) : ShuffleOf gv gv :=
  ⟨gv, List.forall₂_same.mpr (fun _ _ => ⟨rfl, List.Perm.refl _⟩), List.Perm.refl _⟩

theorem ShuffleOf.exists_of_mem {gv gv' : GridValues V} (h : ShuffleOf gv gv') (g' : String × List V)
    (hg : g' ∈ gv') : ∃ g ∈ gv, g'.1 = g.1 ∧ g'.2.Perm g.2 := by
  obtain ⟨mid, hf, hp⟩ := h
  have hm : g' ∈ mid := hp.mem_iff.mp hg
  clear hp hg
  induction hf with
  | nil => cases hm
  | cons hd _ ih =>
    rcases List.mem_cons.mp hm with rfl | hm'
    · exact ⟨_, by simp, hd⟩
    · obtain ⟨g, hg, hh⟩ := ih hm'
      exact ⟨g, by simp [hg], hh⟩

theorem ShuffleOf.gridPos {gv gv' : GridValues V} (h : ShuffleOf gv gv') (hpos : GridPos gv) :
    GridPos gv' := by
  intro g' hg'
  obtain ⟨g, hg, _, hperm⟩ := h.exists_of_mem g' hg'
  rw [hperm.length_eq]; exact hpos g hg

theorem ShuffleOf.gridNodup {gv gv' : GridValues V} (h : ShuffleOf gv gv') (hnd : GridNodup gv) :
    GridNodup gv' := by
  intro g' hg'
  obtain ⟨g, hg, _, hperm⟩ := h.exists_of_mem g' hg'
  exact hperm.nodup_iff.mpr (hnd g hg)

theorem ShuffleOf.gridSize_eq {gv gv' : GridValues V} (h : ShuffleOf gv gv') :
    gridSize gv' = gridSize gv := by
  obtain ⟨mid, hf, hp⟩ := h
  have h2 : lengths mid = lengths gv := by
    clear hp
    unfold lengths
    induction hf with
    | nil => rfl
    | cons hd _ ih => simp [hd.2.length_eq, ih]
  have h1 : gridSize gv' = gridSize mid := by
    unfold gridSize lengths
    exact (hp.map _).prod_eq
  rw [h1]; unfold gridSize; rw [h2]

/-- a point of the shuffled grid is, read as a dictionary (order of the entries forgotten), a
point of the unshuffled grid — and conversely -/
theorem ShuffleOf.point_iff {gv gv' : GridValues V} (h : ShuffleOf gv gv') :
    (∀ p', IsGridPoint gv' p' → ∃ p, p.Perm p' ∧ IsGridPoint gv p) ∧
    (∀ p, IsGridPoint gv p → ∃ p', p'.Perm p ∧ IsGridPoint gv' p') := by
  obtain ⟨mid, hf, hp⟩ := h
  -- value lists permuted: same points
  have key : ∀ p, IsGridPoint mid p ↔ IsGridPoint gv p := by
    intro p
    unfold IsGridPoint
    clear hp
    induction hf generalizing p with
    | nil => exact Iff.rfl
    | cons hd _ ih =>
      constructor
      · intro hh
        cases hh with
        | cons a b => exact List.Forall₂.cons ⟨a.1.trans hd.1, hd.2.mem_iff.mp a.2⟩ ((ih _).mp b)
      · intro hh
        cases hh with
        | cons a b => exact List.Forall₂.cons ⟨a.1.trans hd.1.symm, hd.2.mem_iff.mpr a.2⟩ ((ih _).mpr b)
  constructor
  · intro p' hp'
    obtain ⟨w, hw, hperm⟩ := List.perm_comp_forall₂ hp.symm hp'
    exact ⟨w, hperm, (key w).mp hw⟩
  · intro p hpt
    obtain ⟨w, hw, hperm⟩ := List.perm_comp_forall₂ hp ((key p).mpr hpt)
    exact ⟨w, hperm, hw⟩

end Shuffle

/-! ## the executable judge -/

theorem eachOnceB_sound {α : Type} [DecidableEq α] (enum obs : List α)
    (h : eachOnceB enum obs = true) : obs.Perm enum := by
  simp only [eachOnceB, Bool.and_eq_true, decide_eq_true_eq, List.all_eq_true,
    List.contains_iff_mem, beq_iff_eq] at h
  obtain ⟨⟨hnd, hsub⟩, hlen⟩ := h
  exact (List.subperm_of_subset hnd (fun x hx => hsub x hx)).perm_of_length_le (by omega)

theorem eachOnceB_complete {α : Type} [DecidableEq α] (enum obs : List α) (hn : enum.Nodup)
    (h : obs.Perm enum) : eachOnceB enum obs = true := by
  simp only [eachOnceB, Bool.and_eq_true, decide_eq_true_eq, List.all_eq_true,
    List.contains_iff_mem, beq_iff_eq]
  exact ⟨⟨h.nodup_iff.mpr hn, fun x hx => h.mem_iff.mp hx⟩, h.length_eq⟩

end VizierModel.Restart
