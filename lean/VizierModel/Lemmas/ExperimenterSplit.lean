/-
C20 helper lemmas, part 4: a batch is evaluated like its pieces one after the other (third
induction over the wrapper stack), hence like its trials one by one — "batches of any size".
The noise counters make this non-trivial: every noise wrapper owns its counter (the state tree
`St` mirrors the stack), so the order of draws per wrapper is the order of the trials.
-/
import VizierModel.Lemmas.Experimenter

set_option linter.unusedSimpArgs false
set_option linter.unusedVariables false

namespace VizierModel.Exp

variable {α : Type}

@[simp] theorem St.kids_node (n : Nat) (ks : List St) : (St.node n ks).kids = ks := rfl
@[simp] theorem St.n_node (n : Nat) (ks : List St) : (St.node n ks).n = n := rfl
@[simp] theorem St.kid_node (n : Nat) (k : St) (ks : List St) : (St.node n (k :: ks)).kid = k := rfl

/-- evaluating `as` and then `bs`, threading the state -/
def evalSeq (ops : Ops α) (e : Ex α) (st : St) (as bs : List (Trial α)) : List (Trial α) × St :=
  ((evaluate ops e st as).1 ++ (evaluate ops e (evaluate ops e st as).2 bs).1,
    (evaluate ops e (evaluate ops e st as).2 bs).2)

theorem setParams_append (g : Params α → Params α) (as bs : List (Trial α)) :
    setParams g (as ++ bs) = setParams g as ++ setParams g bs := by
  simp [setParams]

theorem restore_append (pa pb : List (Params α)) (ra rb : List (Trial α)) (h : ra.length = pa.length) :
    restore (pa ++ pb) (ra ++ rb) = restore pa ra ++ restore pb rb := by
  unfold restore
  exact zipUpd_append _ ra pa rb pb h

theorem zip_append_eq {β γ : Type} : ∀ (a : List β) (b : List γ) (a' : List β) (b' : List γ),
    a.length = b.length → (a ++ a').zip (b ++ b') = a.zip b ++ a'.zip b'
  | [], [], _, _, _ => rfl
  | x :: a, y :: b, a', b', h => by
    simp only [List.cons_append, List.zip_cons_cons, List.cons.injEq, true_and]
    exact zip_append_eq a b a' b' (by simpa using h)
  | [], _ :: _, _, _, h => by simp at h
  | _ :: _, [], _, _, h => by simp at h

theorem evalAll_lengths' (ops : Ops α) : ∀ (kids : ExList α) (sts : List St) (cs : List (Trial α))
    (ms : List (Metrics α)),
    (evalAll ops kids sts cs ms).1.length = cs.length ∧ (evalAll ops kids sts cs ms).2.1.length = ms.length
  | .nil, _, _, _ => ⟨rfl, rfl⟩
  | .cons name e rest, sts, cs, ms => by
    simp only [evalAll]
    have h := evalAll_lengths' ops rest sts.tail (evaluate ops e (sts.headD St.zero) cs).1
      (zipUpd (multiCollect name (objName ops e)) ms (evaluate ops e (sts.headD St.zero) cs).1)
    exact ⟨h.1.trans (evaluate_length ops e _ cs), h.2.trans (zipUpd_length _ _ _)⟩

mutual
/-- THIRD INDUCTION OVER THE WRAPPER STACK -/
theorem evaluate_append (ops : Ops α) : ∀ (e : Ex α) (st : St) (as bs : List (Trial α)),
    evaluate ops e st (as ++ bs) = evalSeq ops e st as bs
  | .base _ f, st, as, bs => by simp [evalSeq, evaluate]
  | .shift s r e, st, as, bs => by
    simp only [evalSeq, evaluate, setParams_append, evaluate_append ops e, List.map_append]
    rw [restore_append _ _ _ _ (by rw [evaluate_length]; simp [setParams])]
  | .signFlip b e, st, as, bs => by
    simp only [evalSeq, evaluate, evaluate_append ops e, List.map_append]
  | .permute perm e, st, as, bs => by
    simp only [evalSeq, evaluate, setParams_append, evaluate_append ops e, List.map_append]
    rw [restore_append _ _ _ _ (by rw [evaluate_length]; simp [setParams])]
  | .discretize disc parse e, st, as, bs => by
    simp only [evalSeq, evaluate, setParams_append, evaluate_append ops e, List.map_append]
    rw [restore_append _ _ _ _ (by rw [evaluate_length]; simp [setParams])]
  | .hypercube keep dim dec e, st, as, bs => by
    simp only [evalSeq, evaluate, setParams_append, evaluate_append ops e]
    rw [zipUpd_append _ _ _ _ _ (by rw [evaluate_length]; simp [setParams])]
  | .normalize mu sigma e, st, as, bs => by
    simp only [evalSeq, evaluate, evaluate_append ops e, List.map_append]
  | .noisy noise e, st, as, bs => by
    simp only [evalSeq, evaluate, evaluate_append ops e, mapSt_append, St.kid_node, St.n_node]
  | .sparse pre extra e, st, as, bs => by
    simp only [evalSeq, evaluate, setParams_append, evaluate_append ops e, List.map_append]
    rw [restore_append _ _ _ _ (by rw [evaluate_length]; simp [setParams])]
  | .switch sw metric toIdx keep kids, st, as, bs => by
    simp only [evalSeq, evaluate, mapSt_append, St.kids_node, St.n_node]
  | .infeasibleIf isInf junk e, st, as, bs => by
    simp only [evalSeq, evaluate, mapSt_append]
  | .multi keep kids, st, as, bs => by
    have hA := evalAll_lengths' ops kids st.kids as (as.map (fun _ => ([] : Metrics α)))
    simp only [evalSeq, evaluate, List.map_append, St.kids_node, St.n_node]
    rw [evalAll_append ops kids st.kids as bs _ _ (by simp)]
    simp only
    rw [zip_append_eq _ _ _ _ (by rw [hA.1, hA.2]; simp),
      zipUpd_append _ _ _ _ _ (by rw [List.length_zip, hA.1, hA.2]; simp)]
theorem evalAll_append (ops : Ops α) : ∀ (kids : ExList α) (sts : List St) (ca cb : List (Trial α))
    (ma mb : List (Metrics α)), ca.length = ma.length →
    evalAll ops kids sts (ca ++ cb) (ma ++ mb) =
      ((evalAll ops kids sts ca ma).1 ++ (evalAll ops kids (evalAll ops kids sts ca ma).2.2 cb mb).1,
        (evalAll ops kids sts ca ma).2.1 ++ (evalAll ops kids (evalAll ops kids sts ca ma).2.2 cb mb).2.1,
        (evalAll ops kids (evalAll ops kids sts ca ma).2.2 cb mb).2.2)
  | .nil, _, _, _, _, _, _ => rfl
  | .cons name e rest, sts, ca, cb, ma, mb, hl => by
    simp only [evalAll, evaluate_append ops e, evalSeq, List.headD_cons, List.tail_cons]
    rw [zipUpd_append _ _ _ _ _ (by rw [evaluate_length]; exact hl.symm)]
    rw [evalAll_append ops rest sts.tail _ _ _ _ (by rw [evaluate_length, zipUpd_length]; exact hl)]
end

/-- a batch is evaluated like its trials one by one (the trials) -/
theorem evaluate_eq_mapSt_step (ops : Ops α) (e : Ex α) : ∀ (st : St) (ts : List (Trial α)),
    (evaluate ops e st ts).1 = (mapSt (fun st t => step ops e st t) st ts).1
  | st, [] => by
    have h := evaluate_length ops e st []
    exact List.eq_nil_of_length_eq_zero (by simpa using h)
  | st, t :: ts => by
    have h := evaluate_append ops e st [t] ts
    simp only [List.singleton_append, evalSeq] at h
    rw [h]
    simp only [mapSt_cons]
    rw [evaluate_eq_mapSt_step ops e _ ts, evaluate_singleton]
    rfl

/-- … and the state it leaves (for a non-empty batch) -/
theorem evaluate_state_eq_mapSt_step (ops : Ops α) (e : Ex α) : ∀ (st : St) (t : Trial α) (ts : List (Trial α)),
    (evaluate ops e st (t :: ts)).2 = (mapSt (fun st t => step ops e st t) st (t :: ts)).2
  | st, t, [] => rfl
  | st, t, t' :: ts => by
    have h := evaluate_append ops e st [t] (t' :: ts)
    simp only [List.singleton_append, evalSeq] at h
    rw [h]
    simp only [mapSt_cons]
    rw [evaluate_state_eq_mapSt_step ops e _ t' ts]
    rfl

end VizierModel.Exp
