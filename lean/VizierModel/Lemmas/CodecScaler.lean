/-
Lemmas about the scaler (`scaler_from_spec`) over an ordered field with abstract `log`/`exp`:
the backward function inverts the forward function on the domain, scaled values lie in the
unit interval with `low ↦ 0`, `high ↦ 1`, monotonically, and the backward function maps the
output bounds into `[low, high]`.
-/
import VizierModel.Lemmas.Codec

set_option linter.unusedSectionVars false

namespace VizierModel.Codec

variable {α : Type} [Field α] [LinearOrder α] [IsStrictOrderedRing α]
variable (lg ex : α → α) (fin : α → Bool)

/-! ### consequences of the `log`/`exp` laws -/

theorem LogExp.log_le {lg ex : α → α} (L : LogExp lg ex) {x y : α} (hx : 0 < x) (h : x ≤ y) :
    lg x ≤ lg y := by
  rcases lt_or_eq_of_le h with h | h
  · exact le_of_lt (L.log_lt x y hx h)
  · rw [h]

theorem LogExp.exp_le {lg ex : α → α} (L : LogExp lg ex) {a b : α} (h : a ≤ b) : ex a ≤ ex b := by
  by_contra hc
  have hlt : ex b < ex a := not_le.mp hc
  have := L.log_lt (ex b) (ex a) (L.exp_pos b) hlt
  rw [L.log_exp, L.log_exp] at this
  exact absurd h (not_le.mpr this)

/-! ### the branch taken -/

theorem logDenom_ne_zero (low high : α) : logDenom (fieldOps lg ex fin) low high ≠ 0 := by
  unfold logDenom
  simp only [fo_sub, fo_log, fo_beq, fo_zero, fo_one, decide_eq_true_eq]
  split
  · exact one_ne_zero
  · assumption

theorem logDenom_eq (low high : α) (h : lg low ≠ lg high) :
    logDenom (fieldOps lg ex fin) low high = lg high - lg low := by
  unfold logDenom
  simp only [fo_sub, fo_log, fo_beq, fo_zero, fo_one, decide_eq_true_eq]
  rw [if_neg]
  intro h0
  exact h (sub_eq_zero.mp h0).symm

theorem logDenom_pos (L : LogExp lg ex) (low high : α) (h0 : 0 < low) (h : low < high) :
    logDenom (fieldOps lg ex fin) low high = lg high - lg low ∧ 0 < lg high - lg low := by
  have hl := L.log_lt low high h0 h
  exact ⟨logDenom_eq lg ex fin low high (ne_of_lt hl), sub_pos.mpr hl⟩

/-- what the branch tells about the bounds -/
theorem branch_cases (low high : α) (sc : Scale) (on : Bool) :
    (branch (fieldOps lg ex fin) on low high sc = .identity ∧ (on = false ∨ (low = 0 ∧ high = 1 ∧ sc = .linear))) ∨
    (branch (fieldOps lg ex fin) on low high sc = .singleton ∧ on = true ∧ low = high) ∨
    (branch (fieldOps lg ex fin) on low high sc = .linear ∧ on = true ∧ low ≠ high ∧ sc = .linear) ∨
    (branch (fieldOps lg ex fin) on low high sc = .log ∧ on = true ∧ low ≠ high ∧ sc = .log) ∨
    (branch (fieldOps lg ex fin) on low high sc = .reverseLog ∧ on = true ∧ low ≠ high ∧ sc = .reverseLog) ∨
    (branch (fieldOps lg ex fin) on low high sc = .invalid ∧ sc = .log ∧ (low < 0 ∨ high < 0)) := by
  cases on with
  | false => left; exact ⟨by simp [branch], Or.inl rfl⟩
  | true =>
    by_cases hlh : low = high
    · right; left; exact ⟨by simp [branch, hlh], rfl, hlh⟩
    · cases sc with
      | log =>
        by_cases h1 : low < 0
        · right; right; right; right; right
          exact ⟨by simp [branch, hlh, h1], rfl, Or.inl h1⟩
        · by_cases h2 : high < 0
          · right; right; right; right; right
            exact ⟨by simp [branch, hlh, h1, h2], rfl, Or.inr h2⟩
          · right; right; right; left
            exact ⟨by simp [branch, hlh, h1, h2], rfl, hlh, rfl⟩
      | reverseLog =>
        right; right; right; right; left
        exact ⟨by simp [branch, hlh], rfl, hlh, rfl⟩
      | linear =>
        by_cases h1 : high - low = 1
        · by_cases h2 : low = 0
          · left
            have hh : high = 1 := by rw [h2, sub_zero] at h1; exact h1
            exact ⟨by simp [branch, h2, hh], Or.inr ⟨h2, hh, rfl⟩⟩
          · right; right; left
            exact ⟨by simp [branch, hlh, h1, h2], rfl, hlh, rfl⟩
        · right; right; left
          exact ⟨by simp [branch, hlh, h1], rfl, hlh, rfl⟩

/-! ### backward ∘ forward = id -/

/-- Every value is finite in the exact carrier (`hfin`).  `st` is the reverse-log variant flag:
both variants are inverted by the same backward function. -/
theorem bwd_fwd (L : LogExp lg ex) (hfin : ∀ z, fin z = true) (st : Bool) (low high x : α) (sc : Scale)
    (on : Bool) (hpos : sc = .log ∨ sc = .reverseLog → 0 < low) (hlh : low ≤ high)
    (hx1 : low ≤ x) (hx2 : x ≤ high) :
    bwd (fieldOps lg ex fin) (branch (fieldOps lg ex fin) on low high sc) low high
      (fwd (fieldOps lg ex fin) st (branch (fieldOps lg ex fin) on low high sc) low high x) = x := by
  rcases branch_cases lg ex fin low high sc on with ⟨hb, _⟩ | ⟨hb, _, _⟩ | ⟨hb, _, hne, _⟩ | ⟨hb, _, hne, hsc⟩ |
      ⟨hb, _, hne, hsc⟩ | ⟨hb, _, _⟩ <;> rw [hb]
  · simp [fwd, bwd]
  · simp only [fwd, bwd, fo_finite, hfin, if_true, fo_add, fo_sub, fo_half]; ring
  · simp only [fwd, bwd, fo_add, fo_sub, fo_mul, fo_div]
    have : high - low ≠ 0 := sub_ne_zero.mpr (Ne.symm hne)
    field_simp
    ring
  · have h0 : 0 < low := hpos (Or.inl hsc)
    have hxpos : 0 < x := lt_of_lt_of_le h0 hx1
    simp only [fwd, bwd, fo_add, fo_sub, fo_mul, fo_div, fo_log, fo_exp]
    have hd := logDenom_ne_zero lg ex fin low high
    have : (lg x - lg low) / logDenom (fieldOps lg ex fin) low high * logDenom (fieldOps lg ex fin) low high + lg low = lg x := by
      field_simp; ring
    rw [this, L.exp_log x hxpos]
  · have h0 : 0 < low := hpos (Or.inr hsc)
    have hlt : low < high := lt_of_le_of_ne hlh hne
    obtain ⟨hd, _⟩ := logDenom_pos lg ex fin L low high h0 hlt
    have hd0 := logDenom_ne_zero lg ex fin low high
    have harg : 0 < low + high - x := by linarith
    have harg' : (if st = true then low + (high - x) else low + high - x) = low + high - x := by
      split <;> ring
    simp only [fwd, bwd, fo_add, fo_sub, fo_mul, fo_div, fo_log, fo_exp, fo_one, harg']
    have : lg high - logDenom (fieldOps lg ex fin) low high *
        (1 - (lg (low + high - x) - lg low) / logDenom (fieldOps lg ex fin) low high) = lg (low + high - x) := by
      have e : logDenom (fieldOps lg ex fin) low high *
          (1 - (lg (low + high - x) - lg low) / logDenom (fieldOps lg ex fin) low high) =
          logDenom (fieldOps lg ex fin) low high - (lg (low + high - x) - lg low) := by
        field_simp
      rw [e, hd]; ring
    rw [this, L.exp_log _ harg]; ring
  · simp [fwd, bwd]

/-- the two reverse-log variants are the same function over a field -/
theorem fwd_stable_eq (b : Branch) (low high x : α) :
    fwd (fieldOps lg ex fin) true b low high x = fwd (fieldOps lg ex fin) false b low high x := by
  cases b <;> simp only [fwd, fo_add, fo_sub, if_true, Bool.false_eq_true, if_false]
  have : low + (high - x) = low + high - x := by ring
  rw [this]

/-! ### unit interval, orientation, monotonicity -/

/-- with scaling on, a value of the domain is mapped into `[0, 1]` -/
theorem fwd_unit (L : LogExp lg ex) (hfin : ∀ z, fin z = true) (st : Bool) (low high x : α) (sc : Scale)
    (hpos : sc = .log ∨ sc = .reverseLog → 0 < low) (hlh : low ≤ high)
    (hx1 : low ≤ x) (hx2 : x ≤ high) :
    0 ≤ fwd (fieldOps lg ex fin) st (branch (fieldOps lg ex fin) true low high sc) low high x ∧
    fwd (fieldOps lg ex fin) st (branch (fieldOps lg ex fin) true low high sc) low high x ≤ 1 := by
  rcases branch_cases lg ex fin low high sc true with ⟨hb, h⟩ | ⟨hb, _, heq⟩ | ⟨hb, _, hne, _⟩ | ⟨hb, _, hne, hsc⟩ |
      ⟨hb, _, hne, hsc⟩ | ⟨hb, hsc, hneg⟩ <;> rw [hb]
  · rcases h with h | ⟨h0, h1, _⟩
    · cases h
    · simp only [fwd]; rw [h0] at hx1; rw [h1] at hx2; exact ⟨hx1, hx2⟩
  · have : x = low := le_antisymm (heq ▸ hx2) hx1
    simp only [fwd, fo_finite, hfin, if_true, fo_add, fo_sub, fo_half, this, sub_self, zero_add]
    constructor
    · positivity
    · rw [div_le_one (by norm_num : (0 : α) < 2)]; norm_num
  · have hlt : low < high := lt_of_le_of_ne hlh hne
    have hp : 0 < high - low := sub_pos.mpr hlt
    simp only [fwd, fo_sub, fo_div]
    constructor
    · exact div_nonneg (sub_nonneg.mpr hx1) (le_of_lt hp)
    · rw [div_le_one hp]; linarith
  · have h0 : 0 < low := hpos (Or.inl hsc)
    have hlt : low < high := lt_of_le_of_ne hlh hne
    obtain ⟨hd, hdp⟩ := logDenom_pos lg ex fin L low high h0 hlt
    simp only [fwd, fo_sub, fo_div, fo_log, hd]
    have h1 := L.log_le h0 hx1
    have h2 := L.log_le (lt_of_lt_of_le h0 hx1) hx2
    constructor
    · exact div_nonneg (sub_nonneg.mpr h1) (le_of_lt hdp)
    · rw [div_le_one hdp]; linarith
  · have h0 : 0 < low := hpos (Or.inr hsc)
    have hlt : low < high := lt_of_le_of_ne hlh hne
    obtain ⟨hd, hdp⟩ := logDenom_pos lg ex fin L low high h0 hlt
    have harg' : (if st = true then low + (high - x) else low + high - x) = low + high - x := by
      split <;> ring
    simp only [fwd, fo_add, fo_sub, fo_div, fo_log, fo_one, harg', hd]
    have h1 : lg low ≤ lg (low + high - x) := L.log_le h0 (by linarith)
    have h2 : lg (low + high - x) ≤ lg high := L.log_le (by linarith) (by linarith)
    have hq0 : 0 ≤ (lg (low + high - x) - lg low) / (lg high - lg low) :=
      div_nonneg (sub_nonneg.mpr h1) (le_of_lt hdp)
    have hq1 : (lg (low + high - x) - lg low) / (lg high - lg low) ≤ 1 := by
      rw [div_le_one hdp]; linarith
    constructor <;> linarith
  · exfalso
    have h0 : 0 < low := hpos (Or.inl hsc)
    rcases hneg with h | h
    · exact absurd h0 (not_lt.mpr (le_of_lt h))
    · exact absurd (lt_of_lt_of_le h0 hlh) (not_lt.mpr (le_of_lt h))

/-- orientation: for a non-singleton domain the lower bound maps to 0 and the upper bound to 1,
for linear, log and reverse-log scaling alike -/
theorem fwd_ends (L : LogExp lg ex) (st : Bool) (low high : α) (sc : Scale)
    (hpos : sc = .log ∨ sc = .reverseLog → 0 < low) (hlt : low < high) :
    fwd (fieldOps lg ex fin) st (branch (fieldOps lg ex fin) true low high sc) low high low = 0 ∧
    fwd (fieldOps lg ex fin) st (branch (fieldOps lg ex fin) true low high sc) low high high = 1 := by
  have hlh : low ≤ high := le_of_lt hlt
  rcases branch_cases lg ex fin low high sc true with ⟨hb, h⟩ | ⟨hb, _, heq⟩ | ⟨hb, _, hne, _⟩ | ⟨hb, _, hne, hsc⟩ |
      ⟨hb, _, hne, hsc⟩ | ⟨hb, hsc, hneg⟩ <;> rw [hb]
  · rcases h with h | ⟨h0, h1, _⟩
    · cases h
    · simp only [fwd]; exact ⟨h0, h1⟩
  · exact absurd heq (ne_of_lt hlt)
  · have hp : high - low ≠ 0 := ne_of_gt (sub_pos.mpr hlt)
    simp only [fwd, fo_sub, fo_div, sub_self, zero_div, div_self hp, and_self]
  · have h0 : 0 < low := hpos (Or.inl hsc)
    obtain ⟨hd, hdp⟩ := logDenom_pos lg ex fin L low high h0 hlt
    simp only [fwd, fo_sub, fo_div, fo_log, hd, sub_self, zero_div, div_self (ne_of_gt hdp), and_self]
  · have h0 : 0 < low := hpos (Or.inr hsc)
    obtain ⟨hd, hdp⟩ := logDenom_pos lg ex fin L low high h0 hlt
    have e1 : (if st = true then low + (high - low) else low + high - low) = high := by split <;> ring
    have e2 : (if st = true then low + (high - high) else low + high - high) = low := by split <;> ring
    simp only [fwd, fo_add, fo_sub, fo_div, fo_log, fo_one, hd]
    rw [e1, e2]
    simp only [sub_self, zero_div, sub_zero, div_self (ne_of_gt hdp), and_self]
  · exfalso
    have h0 : 0 < low := hpos (Or.inl hsc)
    rcases hneg with h | h
    · exact absurd h0 (not_lt.mpr (le_of_lt h))
    · exact absurd (lt_trans h0 hlt) (not_lt.mpr (le_of_lt h))

/-- scaling is monotone on the domain -/
theorem fwd_mono (L : LogExp lg ex) (hfin : ∀ z, fin z = true) (st : Bool) (low high x y : α) (sc : Scale)
    (on : Bool) (hpos : sc = .log ∨ sc = .reverseLog → 0 < low) (hlh : low ≤ high)
    (hx1 : low ≤ x) (hxy : x ≤ y) (hy2 : y ≤ high) :
    fwd (fieldOps lg ex fin) st (branch (fieldOps lg ex fin) on low high sc) low high x ≤
    fwd (fieldOps lg ex fin) st (branch (fieldOps lg ex fin) on low high sc) low high y := by
  rcases branch_cases lg ex fin low high sc on with ⟨hb, _⟩ | ⟨hb, _, _⟩ | ⟨hb, _, hne, _⟩ | ⟨hb, _, hne, hsc⟩ |
      ⟨hb, _, hne, hsc⟩ | ⟨hb, _, _⟩ <;> rw [hb]
  · simpa [fwd] using hxy
  · simp only [fwd, fo_finite, hfin, if_true, fo_add, fo_sub, fo_half]; linarith
  · have hp : 0 < high - low := sub_pos.mpr (lt_of_le_of_ne hlh hne)
    simp only [fwd, fo_sub, fo_div]
    exact div_le_div_of_nonneg_right (by linarith) (le_of_lt hp)
  · have h0 : 0 < low := hpos (Or.inl hsc)
    obtain ⟨hd, hdp⟩ := logDenom_pos lg ex fin L low high h0 (lt_of_le_of_ne hlh hne)
    simp only [fwd, fo_sub, fo_div, fo_log, hd]
    have := L.log_le (lt_of_lt_of_le h0 hx1) hxy
    exact div_le_div_of_nonneg_right (by linarith) (le_of_lt hdp)
  · have h0 : 0 < low := hpos (Or.inr hsc)
    obtain ⟨hd, hdp⟩ := logDenom_pos lg ex fin L low high h0 (lt_of_le_of_ne hlh hne)
    have ex' : (if st = true then low + (high - x) else low + high - x) = low + high - x := by split <;> ring
    have ey' : (if st = true then low + (high - y) else low + high - y) = low + high - y := by split <;> ring
    simp only [fwd, fo_add, fo_sub, fo_div, fo_log, fo_one, hd, ex', ey']
    have : lg (low + high - y) ≤ lg (low + high - x) := L.log_le (by linarith) (by linarith)
    have := div_le_div_of_nonneg_right (c := lg high - lg low)
      (show lg (low + high - y) - lg low ≤ lg (low + high - x) - lg low by linarith) (le_of_lt hdp)
    linarith
  · simpa [fwd] using hxy

/-! ### the backward function maps the scaler's output bounds into the domain -/

theorem bwd_mem (L : LogExp lg ex) (hhalf : fin (1 / 2) = true) (low high y : α) (sc : Scale) (on : Bool)
    (hpos : sc = .log ∨ sc = .reverseLog → 0 < low) (hlh : low ≤ high)
    (hy1 : (outBounds (fieldOps lg ex fin) (branch (fieldOps lg ex fin) on low high sc) low high).1 ≤ y)
    (hy2 : y ≤ (outBounds (fieldOps lg ex fin) (branch (fieldOps lg ex fin) on low high sc) low high).2) :
    low ≤ bwd (fieldOps lg ex fin) (branch (fieldOps lg ex fin) on low high sc) low high y ∧
    bwd (fieldOps lg ex fin) (branch (fieldOps lg ex fin) on low high sc) low high y ≤ high := by
  rcases branch_cases lg ex fin low high sc on with ⟨hb, _⟩ | ⟨hb, _, heq⟩ | ⟨hb, _, hne, _⟩ | ⟨hb, _, hne, hsc⟩ |
      ⟨hb, _, hne, hsc⟩ | ⟨hb, _, _⟩ <;> rw [hb] at hy1 hy2 ⊢
  · simpa [bwd, outBounds] using And.intro hy1 hy2
  · simp only [outBounds, fo_half] at hy1 hy2
    have hy : y = 1 / 2 := le_antisymm hy2 hy1
    simp only [bwd, fo_finite, hy, hhalf, if_true, fo_add, fo_sub, fo_half]
    constructor <;> linarith
  · simp only [outBounds, fo_zero, fo_one] at hy1 hy2
    have hp : 0 ≤ high - low := sub_nonneg.mpr hlh
    simp only [bwd, fo_add, fo_sub, fo_mul]
    constructor
    · nlinarith [mul_nonneg hy1 hp]
    · nlinarith [mul_le_mul_of_nonneg_right hy2 hp]
  · simp only [outBounds, fo_zero, fo_one] at hy1 hy2
    have h0 : 0 < low := hpos (Or.inl hsc)
    have hlt : low < high := lt_of_le_of_ne hlh hne
    obtain ⟨hd, hdp⟩ := logDenom_pos lg ex fin L low high h0 hlt
    simp only [bwd, fo_add, fo_mul, fo_log, fo_exp, hd]
    have e1 : lg low ≤ y * (lg high - lg low) + lg low := by nlinarith [mul_nonneg hy1 (le_of_lt hdp)]
    have e2 : y * (lg high - lg low) + lg low ≤ lg high := by
      nlinarith [mul_le_mul_of_nonneg_right hy2 (le_of_lt hdp)]
    have := L.exp_le e1
    have := L.exp_le e2
    rw [L.exp_log low h0] at *
    rw [L.exp_log high (lt_trans h0 hlt)] at *
    constructor <;> assumption
  · simp only [outBounds, fo_zero, fo_one] at hy1 hy2
    have h0 : 0 < low := hpos (Or.inr hsc)
    have hlt : low < high := lt_of_le_of_ne hlh hne
    obtain ⟨hd, hdp⟩ := logDenom_pos lg ex fin L low high h0 hlt
    simp only [bwd, fo_add, fo_sub, fo_mul, fo_log, fo_exp, hd]
    have e1 : lg low ≤ lg high - (lg high - lg low) * y := by
      nlinarith [mul_le_mul_of_nonneg_left hy2 (le_of_lt hdp)]
    have e2 : lg high - (lg high - lg low) * y ≤ lg high := by
      nlinarith [mul_nonneg (le_of_lt hdp) hy1]
    have a1 := L.exp_le e1
    have a2 := L.exp_le e2
    rw [L.exp_log low h0] at a1
    rw [L.exp_log high (lt_trans h0 hlt)] at a2
    constructor <;> linarith
  · simpa [bwd, outBounds] using And.intro hy1 hy2

/-- output bounds are ordered -/
theorem outBounds_le (low high : α) (sc : Scale) (on : Bool) (hlh : low ≤ high) :
    (outBounds (fieldOps lg ex fin) (branch (fieldOps lg ex fin) on low high sc) low high).1 ≤
    (outBounds (fieldOps lg ex fin) (branch (fieldOps lg ex fin) on low high sc) low high).2 := by
  rcases branch_cases lg ex fin low high sc on with ⟨hb, _⟩ | ⟨hb, _, _⟩ | ⟨hb, _, _, _⟩ | ⟨hb, _, _, _⟩ |
      ⟨hb, _, _, _⟩ | ⟨hb, _, _⟩ <;> rw [hb] <;> simp [outBounds, hlh]

end VizierModel.Codec
