/-
Whole search space: an assignment built parameter by parameter from in-domain values is
inside the space (`inSpace_of_assignOK`, shared by every mechanism of C03), decoding good
features yields such an assignment (`decode_assignOK`), and the finiteness hypothesis of the
decode theorem follows from "the array entry is finite" once the array is clipped in the
scaled space (`unscale_finite_fixed`, the repaired variant of defect D11).
-/
import VizierModel.Lemmas.CodecDecode

set_option linter.unusedSectionVars false
set_option linter.unusedSimpArgs false

namespace VizierModel.Codec

variable {α : Type}

/-! ### assignments -/

/-- the assignment lists the parameters of the space in order, each with an in-domain value -/
def AssignOK (ops : NumOps α) (ps : List (Param α)) (a : List (String × PVal α)) : Prop :=
  List.Forall₂ (fun p e => e.1 = p.name ∧ inDomain ops p.dom e.2 = true) ps a

theorem assignOK_names (ops : NumOps α) (ps : List (Param α)) (a : List (String × PVal α))
    (h : AssignOK ops ps a) : a.map (·.1) = ps.map (·.name) := by
  induction h with
  | nil => rfl
  | cons hpe _ ih => simp only [List.map_cons, ih, hpe.1]

theorem countName_zero (n : String) (a : List (String × PVal α)) (h : n ∉ a.map (·.1)) :
    countName n a = 0 := by
  induction a with
  | nil => rfl
  | cons e a ih =>
    obtain ⟨k, v⟩ := e
    simp only [List.map_cons, List.mem_cons, not_or] at h
    simp only [countName]
    rw [if_neg (fun hk => h.1 hk.symm), ih h.2]

theorem assignOK_each (ops : NumOps α) (ps : List (Param α)) (a : List (String × PVal α))
    (hnd : (ps.map (·.name)).Nodup) (h : AssignOK ops ps a) :
    ∀ p ∈ ps, countName p.name a = 1 ∧ ∃ v, lookup p.name a = some v ∧ inDomain ops p.dom v = true := by
  induction h with
  | nil => intro p hp; cases hp
  | @cons p e ps a hpe hrest ih =>
    obtain ⟨k, v⟩ := e
    simp only at hpe
    obtain ⟨hk, hin⟩ := hpe
    simp only [List.map_cons, List.nodup_cons] at hnd
    have hnames := assignOK_names ops ps a hrest
    intro q hq
    rcases List.mem_cons.mp hq with rfl | hq
    · constructor
      · simp only [countName, hk, if_true]
        rw [countName_zero q.name a (by rw [hnames]; exact hnd.1)]
      · exact ⟨v, by simp [lookup, hk], hin⟩
    · have hne : k ≠ q.name := by
        intro he
        apply hnd.1
        rw [← hk, he]
        exact List.mem_map_of_mem hq
      obtain ⟨h1, w, h2, h3⟩ := ih hnd.2 q hq
      constructor
      · simp only [countName, if_neg hne, Nat.zero_add]; exact h1
      · exact ⟨w, by simp only [lookup, if_neg hne]; exact h2, h3⟩

/-- every parameter exactly once, inside its domain, and nothing else -/
theorem inSpace_of_assignOK (ops : NumOps α) (ps : List (Param α)) (a : List (String × PVal α))
    (hnd : (ps.map (·.name)).Nodup) (h : AssignOK ops ps a) : inSpace ops ps a = true := by
  unfold inSpace
  rw [Bool.and_eq_true]
  constructor
  · rw [List.all_eq_true]
    intro p hp
    obtain ⟨h1, v, h2, h3⟩ := assignOK_each ops ps a hnd h p hp
    simp [h1, h2, h3]
  · rw [List.all_eq_true]
    intro e he
    rw [List.any_eq_true]
    have hn := assignOK_names ops ps a h
    have : e.1 ∈ ps.map (·.name) := by rw [← hn]; exact List.mem_map_of_mem he
    obtain ⟨p, hp, hpe⟩ := List.mem_map.mp this
    exact ⟨p, hp, by simp [hpe]⟩

/-- the names of the assignment are exactly the names of the space, in order -/
theorem assignOK_each_param_once (ops : NumOps α) (ps : List (Param α)) (a : List (String × PVal α))
    (h : AssignOK ops ps a) : a.map (·.1) = ps.map (·.name) := assignOK_names ops ps a h

/-! ### decoding a whole feature vector -/

/-- the feature vector splits into one good block per parameter -/
def GoodFeats (ops : NumOps α) (cfg : Cfg) : List (Param α) → List (Feat α) → Prop
  | [], fs => fs = []
  | p :: ps, fs =>
    blockWidth ops cfg p ≤ fs.length ∧
    GoodBlock ops cfg p (fs.take (blockWidth ops cfg p)) ∧
    GoodFeats ops cfg ps (fs.drop (blockWidth ops cfg p))

section
variable [Field α] [LinearOrder α] [IsStrictOrderedRing α]
variable (lg ex : α → α) (fin : α → Bool)

theorem decode_assignOK (cfg : Cfg) (ps : List (Param α)) (fs : List (Feat α))
    (hv : ∀ p ∈ ps, ValidParam (fieldOps lg ex fin) cfg p)
    (hg : GoodFeats (fieldOps lg ex fin) cfg ps fs) :
    ∃ a, decode (fieldOps lg ex fin) cfg ps fs = .ok a ∧ AssignOK (fieldOps lg ex fin) ps a := by
  induction ps generalizing fs with
  | nil =>
    simp only [GoodFeats] at hg
    subst hg
    exact ⟨[], by simp [decode], List.Forall₂.nil⟩
  | cons p ps ih =>
    obtain ⟨hw, hb, hrest⟩ := hg
    obtain ⟨v, hv1, hv2⟩ := decodeBlock_inDomain lg ex fin cfg p _ (hv p List.mem_cons_self) hb
    obtain ⟨a, ha1, ha2⟩ := ih _ (fun q hq => hv q (List.mem_cons_of_mem _ hq)) hrest
    refine ⟨(p.name, v) :: a, ?_, List.Forall₂.cons ⟨rfl, hv2⟩ ha2⟩
    simp only [decode]
    rw [if_neg (by omega), hv1, ha1]

/-! ### D11: when is the un-scaled entry finite? -/

/-- REPAIRED VARIANT.  With clipping in the scaled space the un-scaled value lies in
`[low, high]`, so it is finite as soon as every value between the (finite) bounds and every
value of the unit interval is — no hypothesis on `exp` of a far out-of-range entry. -/
theorem unscale_finite_fixed (L : LogExp lg ex) (cfg : Cfg) (low high y : α) (sc : Scale)
    (hcs : cfg.clipScaled = true) (hclip : cfg.shouldClip = true) (hscale : cfg.scale = true)
    (hy : fin y = true) (hpos : sc = .log ∨ sc = .reverseLog → 0 < low) (hlh : low ≤ high)
    (hunit : ∀ z, 0 ≤ z → z ≤ 1 → fin z = true)
    (hrange : ∀ z, low ≤ z → z ≤ high → fin z = true) :
    fin (unscale (fieldOps lg ex fin) cfg (branch (fieldOps lg ex fin) cfg.scale low high sc) low high y) = true := by
  unfold unscale
  simp only [hcs, hclip, hscale, fo_finite, hy, Bool.and_self, if_true]
  have hob := outBounds_le lg ex fin low high sc true hlh
  have hc := clip_bounds lg ex fin y _ _ hob
  have hhalf : fin (1 / 2) = true := hunit _ (by positivity) (by rw [div_le_one (by norm_num : (0 : α) < 2)]; norm_num)
  have hm := bwd_mem lg ex fin L hhalf low high _ sc true hpos hlh hc.1 hc.2
  exact hrange _ hm.1 hm.2

end

end VizierModel.Codec
