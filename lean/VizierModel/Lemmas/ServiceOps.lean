import VizierModel.Lemmas.ServiceSuggestCount
namespace VizierModel.Svc

def PendingFree (st : Study) : Prop := ∀ o ∈ st.sugOps, o.done = true

theorem pendingFree_find (st : Study) (h : PendingFree st) (c : String) :
    (opsOf st c).find? (fun o => !o.done) = none := by
  rw [List.find?_eq_none]
  intro o ho
  have := h o (List.mem_filter.mp ho).1
  simp [this]

theorem finishOp_pendingFree (op0 : SugOp) (st : Study) (handed : List Trial)
    (h : ∀ x ∈ st.sugOps, x.done = true ∨ (x.client = op0.client ∧ x.num = op0.num)) :
    PendingFree (finishOp op0 st handed).2 :=
  putOp_all_done st _ rfl h

theorem failOp_pendingFree (op0 : SugOp) (st : Study)
    (h : ∀ x ∈ st.sugOps, x.done = true ∨ (x.client = op0.client ∧ x.num = op0.num)) :
    PendingFree (failOp op0 st).2 :=
  putOp_all_done st _ rfl h

theorem updateMetadata_sugOps (cfg : Cfg) (st : Study) (us : List (Meta.Upd K String)) :
    (st.updateMetadata cfg us).2.sugOps = st.sugOps := by
  unfold Study.updateMetadata
  split
  · split <;> rfl
  · rfl

theorem createStage_pendingFree (cfg : Cfg) (hc : cfg.shortDeliveryOk = true) (op0 : SugOp) (st : Study) (need : Nat)
    (out : List Trial) (sugg : List Sugg)
    (h : ∀ x ∈ st.sugOps, x.done = true ∨ (x.client = op0.client ∧ x.num = op0.num)) :
    PendingFree (createStage cfg op0 st need out sugg).2 := by
  unfold createStage
  simp only [hc, Bool.not_true, Bool.and_false]
  exact finishOp_pendingFree op0 _ _ h

theorem pythiaStage_pendingFree (cfg : Cfg) (hc : cfg.shortDeliveryOk = true) (hc2 : cfg.suggestCatchesAll = true)
    (op0 : SugOp) (st : Study) (need : Nat) (out : List Trial) (alg : AlgOutcome)
    (h : ∀ x ∈ st.sugOps, x.done = true ∨ (x.client = op0.client ∧ x.num = op0.num)) :
    PendingFree (pythiaStage cfg op0 st need out alg).2 := by
  unfold pythiaStage
  split
  · exact failOp_pendingFree op0 st h
  · simp only [hc2, if_true]; exact failOp_pendingFree op0 st h
  · simp only
    split
    · exact failOp_pendingFree op0 _ (by rw [updateMetadata_sugOps]; exact h)
    · exact createStage_pendingFree cfg hc op0 _ _ _ _ (by rw [updateMetadata_sugOps]; exact h)

/-- **C06 (suggest side)**: with the repaired service, whatever the algorithm does — raises any
    exception, delivers nothing, too few, too many — no unfinished operation is left behind. -/
theorem suggestBody_pendingFree (cfg : Cfg) (hc : cfg.shortDeliveryOk = true) (hc2 : cfg.suggestCatchesAll = true)
    (st : Study) (client : String) (count : Nat) (alg : AlgOutcome) (h : PendingFree st) :
    PendingFree (suggestBody cfg st client count alg).2 := by
  unfold suggestBody
  simp only [pendingFree_find st h client]
  have hnew : ∀ x ∈ st.sugOps ++ [({ client := client, num := (opsOf st client).length + 1, done := false, result := .none } : SugOp)],
      x.done = true ∨ (x.client = client ∧ x.num = (opsOf st client).length + 1) := by
    intro x hx
    rcases List.mem_append.mp hx with hx | hx
    · exact Or.inl (h x hx)
    · simp only [List.mem_singleton] at hx; subst hx; exact Or.inr ⟨rfl, rfl⟩
  split
  · exact finishOp_pendingFree _ _ _ hnew
  · split
    · exact finishOp_pendingFree _ _ _ (by rw [foldl_putTrial_sugOps]; exact hnew)
    · exact pythiaStage_pendingFree cfg hc hc2 _ _ _ _ _ (by rw [foldl_putTrial_sugOps]; exact hnew)

/-- … and the operation it returns is a NEW one (number = previous count + 1) that is finished: the
    caller is never answered from an abandoned operation. -/
theorem suggestBody_fresh_done (cfg : Cfg) (hc : cfg.shortDeliveryOk = true) (hc2 : cfg.suggestCatchesAll = true)
    (st : Study) (client : String) (count : Nat) (alg : AlgOutcome) (h : PendingFree st) :
    ∃ o, (suggestBody cfg st client count alg).1.opOf = some o ∧ o.done = true ∧ o.client = client ∧
      o.num = (opsOf st client).length + 1 := by
  unfold suggestBody
  simp only [pendingFree_find st h client]
  split
  · exact ⟨_, rfl, rfl, rfl, rfl⟩
  · split
    · exact ⟨_, rfl, rfl, rfl, rfl⟩
    · unfold pythiaStage
      split
      · exact ⟨_, rfl, rfl, rfl, rfl⟩
      · simp only [hc2, if_true]; exact ⟨_, rfl, rfl, rfl, rfl⟩
      · simp only
        split
        · exact ⟨_, rfl, rfl, rfl, rfl⟩
        · unfold createStage
          simp only [hc, Bool.not_true, Bool.and_false]
          exact ⟨_, rfl, rfl, rfl, rfl⟩

/-- the algorithm's failure is what the caller sees: a finished operation carrying an error -/
theorem suggestBody_reports_failure (cfg : Cfg) (hc2 : cfg.suggestCatchesAll = true)
    (st : Study) (client : String) (count : Nat) (alg : AlgOutcome) (h : PendingFree st)
    (halg : alg = .raisesRpc ∨ alg = .raisesOther)
    (hneed : (ownActive st client).length + (pool st).length < count) :
    ∃ o, (suggestBody cfg st client count alg).1.opOf = some o ∧ o.done = true ∧ o.result = .error := by
  unfold suggestBody
  simp only [pendingFree_find st h client]
  have hown : (List.filter (fun t => t.state == TState.active && t.client == client) st.trials) = ownActive st client := rfl
  have hpool : (List.filter (fun x => x.state == TState.requested) st.trials) = pool st := rfl
  simp only [hown, hpool]
  have h1 : ¬ (ownActive st client).length ≥ count := by omega
  simp only [h1, if_false]
  have hlen : (ownActive st client ++ assignRequested client (count - (ownActive st client).length) (pool st)).length =
      (ownActive st client).length + min (count - (ownActive st client).length) (pool st).length := by
    rw [List.length_append, assignRequested_length]
  have h2 : ¬ ((ownActive st client ++ assignRequested client (count - (ownActive st client).length) (pool st)).length == count) = true := by
    intro e
    have := beq_iff_eq.mp e
    rw [hlen] at this
    omega
  simp only [h2]
  unfold pythiaStage
  rcases halg with rfl | rfl
  · exact ⟨_, rfl, rfl, rfl⟩
  · simp only [hc2, if_true]; exact ⟨_, rfl, rfl, rfl⟩

end VizierModel.Svc
