import VizierModel.Lemmas.ServiceSuggestCount
namespace VizierModel.Svc

def PendingFree (st : Study) : Prop := ∀ o ∈ st.sugOps, o.done = true

theorem pendingFree_find (st : Study) (h : PendingFree st) (c : String) :
    (opsOf st c).find? (fun o => !o.done) = none := by
  rw [List.find?_eq_none]
  intro o ho
  have := h o (List.mem_filter.mp ho).1
  simp [this]

theorem finishOp_pendingFree (op0 : SugOp) (st : Study) (handed : List Trial)
    (h : ∀ x ∈ st.sugOps, x.done = true ∨ (x.client = op0.client ∧ x.num = op0.num)) :
    PendingFree (finishOp op0 st handed).2 :=
  putOp_all_done st _ rfl h

theorem failOp_pendingFree (op0 : SugOp) (st : Study)
    (h : ∀ x ∈ st.sugOps, x.done = true ∨ (x.client = op0.client ∧ x.num = op0.num)) :
    PendingFree (failOp op0 st).2 :=
  putOp_all_done st _ rfl h

theorem updateMetadata_sugOps (cfg : Cfg) (st : Study) (us : List (Meta.Upd K String)) :
    (st.updateMetadata cfg us).2.sugOps = st.sugOps := by
  unfold Study.updateMetadata
  split
  · split <;> rfl
  · rfl

theorem createStage_pendingFree (cfg : Cfg) (hc : cfg.shortDeliveryOk = true) (op0 : SugOp) (st : Study) (need : Nat)
    (out : List Trial) (sugg : List Sugg)
    (h : ∀ x ∈ st.sugOps, x.done = true ∨ (x.client = op0.client ∧ x.num = op0.num)) :
    PendingFree (createStage cfg op0 st need out sugg).2 := by
  unfold createStage
  simp only [hc, Bool.not_true, Bool.and_false]
  exact finishOp_pendingFree op0 _ _ h

theorem pythiaStage_pendingFree (cfg : Cfg) (hc : cfg.shortDeliveryOk = true) (hc2 : cfg.suggestCatchesAll = true)
    (op0 : SugOp) (st : Study) (need : Nat) (out : List Trial) (alg : AlgOutcome)
    (h : ∀ x ∈ st.sugOps, x.done = true ∨ (x.client = op0.client ∧ x.num = op0.num)) :
    PendingFree (pythiaStage cfg op0 st need out alg).2 := by
  unfold pythiaStage
  split
  · exact failOp_pendingFree op0 st h
  · simp only [hc2, if_true]; exact failOp_pendingFree op0 st h
  · simp only
    split
    · exact failOp_pendingFree op0 _ (by rw [updateMetadata_sugOps]; exact h)
    · exact createStage_pendingFree cfg hc op0 _ _ _ _ (by rw [updateMetadata_sugOps]; exact h)

/-- **C06 (suggest side)**: with the repaired service, whatever the algorithm does — raises any
    exception, delivers nothing, too few, too many — no unfinished operation is left behind. -/
theorem suggestBody_pendingFree (cfg : Cfg) (hc : cfg.shortDeliveryOk = true) (hc2 : cfg.suggestCatchesAll = true)
    (st : Study) (client : String) (count : Nat) (alg : AlgOutcome) (h : PendingFree st) :
    PendingFree (suggestBody cfg st client count alg).2 := by
  rw [suggestBody_of_free _ _ _ _ _ (pendingFree_find st h client)]
  unfold suggestRest
  simp only []
  have hnew : ∀ x ∈ st.sugOps ++ [({ client := client, num := (opsOf st client).length + 1, done := false, result := .none } : SugOp)],
      x.done = true ∨ (x.client = client ∧ x.num = (opsOf st client).length + 1) := by
    intro x hx
    rcases List.mem_append.mp hx with hx | hx
    · exact Or.inl (h x hx)
    · simp only [List.mem_singleton] at hx; subst hx; exact Or.inr ⟨rfl, rfl⟩
  split
  · exact finishOp_pendingFree _ _ _ hnew
  · split
    · exact finishOp_pendingFree _ _ _ (by rw [foldl_putTrial_sugOps]; exact hnew)
    · exact pythiaStage_pendingFree cfg hc hc2 _ _ _ _ _ (by rw [foldl_putTrial_sugOps]; exact hnew)

/-- … and the operation it returns is a NEW one (number = previous count + 1) that is finished: the
    caller is never answered from an abandoned operation. -/
theorem suggestBody_fresh_done (cfg : Cfg) (hc : cfg.shortDeliveryOk = true) (hc2 : cfg.suggestCatchesAll = true)
    (st : Study) (client : String) (count : Nat) (alg : AlgOutcome) (h : PendingFree st) :
    ∃ o, (suggestBody cfg st client count alg).1.opOf = some o ∧ o.done = true ∧ o.client = client ∧
      o.num = (opsOf st client).length + 1 := by
  rw [suggestBody_of_free _ _ _ _ _ (pendingFree_find st h client)]
  unfold suggestRest
  simp only []
  split
  · exact ⟨_, rfl, rfl, rfl, rfl⟩
  · split
    · exact ⟨_, rfl, rfl, rfl, rfl⟩
    · unfold pythiaStage
      split
      · exact ⟨_, rfl, rfl, rfl, rfl⟩
      · simp only [hc2, if_true]; exact ⟨_, rfl, rfl, rfl, rfl⟩
      · simp only
        split
        · exact ⟨_, rfl, rfl, rfl, rfl⟩
        · unfold createStage
          simp only [hc, Bool.not_true, Bool.and_false]
          exact ⟨_, rfl, rfl, rfl, rfl⟩

/-- the algorithm's failure is what the caller sees: a finished operation carrying an error -/
theorem suggestBody_reports_failure (cfg : Cfg) (hc2 : cfg.suggestCatchesAll = true)
    (st : Study) (client : String) (count : Nat) (alg : AlgOutcome) (h : PendingFree st)
    (halg : alg = .raisesRpc ∨ alg = .raisesOther)
    (hneed : (ownActive st client).length + (pool st).length < count) :
    ∃ o, (suggestBody cfg st client count alg).1.opOf = some o ∧ o.done = true ∧ o.result = .error := by
  rw [suggestBody_of_free _ _ _ _ _ (pendingFree_find st h client)]
  unfold suggestRest
  simp only []
  have hown : (List.filter (fun t => t.state == TState.active && t.client == client) st.trials) = ownActive st client := rfl
  have hpool : (List.filter (fun x => x.state == TState.requested) st.trials) = pool st := rfl
  simp only [hown, hpool]
  have h1 : ¬ (ownActive st client).length ≥ count := by omega
  simp only [h1, if_false]
  have hlen : (ownActive st client ++ assignRequested client (count - (ownActive st client).length) (pool st)).length =
      (ownActive st client).length + min (count - (ownActive st client).length) (pool st).length := by
    rw [List.length_append, assignRequested_length]
  have h2 : ¬ ((ownActive st client ++ assignRequested client (count - (ownActive st client).length) (pool st)).length == count) = true := by
    intro e
    have := beq_iff_eq.mp e
    rw [hlen] at this
    omega
  simp only [h2]
  unfold pythiaStage
  rcases halg with rfl | rfl
  · exact ⟨_, rfl, rfl, rfl⟩
  · simp only [hc2, if_true]; exact ⟨_, rfl, rfl, rfl⟩

/-! ### resuming an abandoned operation (`Cfg.resumesAbandonedOp`) -/

/-- the answer of `suggestRest` is `op0`, finished: same worker, same number -/
theorem suggestRest_answer (cfg : Cfg) (hc : cfg.shortDeliveryOk = true) (hc2 : cfg.suggestCatchesAll = true)
    (op0 : SugOp) (st : Study) (client : String) (count : Nat) (alg : AlgOutcome) :
    ∃ o, (suggestRest cfg op0 st client count alg).1.opOf = some o ∧ o.done = true ∧ o.client = op0.client ∧
      o.num = op0.num := by
  unfold suggestRest
  simp only []
  split
  · exact ⟨_, rfl, rfl, rfl, rfl⟩
  · split
    · exact ⟨_, rfl, rfl, rfl, rfl⟩
    · unfold pythiaStage
      split
      · exact ⟨_, rfl, rfl, rfl, rfl⟩
      · simp only [hc2, if_true]; exact ⟨_, rfl, rfl, rfl, rfl⟩
      · simp only
        split
        · exact ⟨_, rfl, rfl, rfl, rfl⟩
        · unfold createStage
          simp only [hc, Bool.not_true, Bool.and_false]
          exact ⟨_, rfl, rfl, rfl, rfl⟩

/-- every operation of worker `w` is finished -/
def DoneFor (w : String) (st : Study) : Prop := ∀ x ∈ st.sugOps, x.client = w → x.done = true

/-- every unfinished operation of worker `w` is the record `(c, n)` -/
def OnlyPending (w : String) (c : String) (n : Nat) (ops : List SugOp) : Prop :=
  ∀ x ∈ ops, x.client = w → x.done = true ∨ (x.client = c ∧ x.num = n)

theorem putOp_doneFor (w : String) (st : Study) (o : SugOp) (ho : o.done = true)
    (h : OnlyPending w o.client o.num st.sugOps) : DoneFor w (st.putOp o) := by
  intro x hx hxw
  unfold Study.putOp at hx
  obtain ⟨y, hy, rfl⟩ := List.mem_map.mp hx
  by_cases hm : (y.client == o.client && y.num == o.num) = true
  · simp [hm, ho]
  · simp only [hm] at hxw ⊢
    rcases h y hy hxw with h1 | h1
    · simpa using h1
    · simp [h1.1, h1.2] at hm

theorem createStage_doneFor (cfg : Cfg) (hc : cfg.shortDeliveryOk = true) (w : String) (op0 : SugOp) (st : Study)
    (need : Nat) (out : List Trial) (sugg : List Sugg) (h : OnlyPending w op0.client op0.num st.sugOps) :
    DoneFor w (createStage cfg op0 st need out sugg).2 := by
  unfold createStage
  simp only [hc, Bool.not_true, Bool.and_false]
  exact putOp_doneFor w _ _ rfl h

theorem pythiaStage_doneFor (cfg : Cfg) (hc : cfg.shortDeliveryOk = true) (hc2 : cfg.suggestCatchesAll = true)
    (w : String) (op0 : SugOp) (st : Study) (need : Nat) (out : List Trial) (alg : AlgOutcome)
    (h : OnlyPending w op0.client op0.num st.sugOps) :
    DoneFor w (pythiaStage cfg op0 st need out alg).2 := by
  unfold pythiaStage
  split
  · exact putOp_doneFor w st _ rfl h
  · simp only [hc2, if_true]; exact putOp_doneFor w st _ rfl h
  · simp only
    split
    · exact putOp_doneFor w _ _ rfl (by rw [updateMetadata_sugOps]; exact h)
    · exact createStage_doneFor cfg hc w op0 _ _ _ _ (by rw [updateMetadata_sugOps]; exact h)

/-- `suggestRest` finishes `op0`: if `op0` was the only unfinished operation of worker `w`, none is left -/
theorem suggestRest_doneFor (cfg : Cfg) (hc : cfg.shortDeliveryOk = true) (hc2 : cfg.suggestCatchesAll = true)
    (w : String) (op0 : SugOp) (st : Study) (client : String) (count : Nat) (alg : AlgOutcome)
    (h : OnlyPending w op0.client op0.num st.sugOps) :
    DoneFor w (suggestRest cfg op0 st client count alg).2 := by
  unfold suggestRest
  simp only []
  split
  · exact putOp_doneFor w st _ rfl h
  · split
    · exact putOp_doneFor w _ _ rfl (by rw [foldl_putTrial_sugOps]; exact h)
    · exact pythiaStage_doneFor cfg hc hc2 w _ _ _ _ _ (by rw [foldl_putTrial_sugOps]; exact h)

theorem eq_of_mem_length_le_one {α : Type} {l : List α} (hl : l.length ≤ 1) {a b : α} (ha : a ∈ l) (hb : b ∈ l) :
    a = b := by
  match l, hl, ha, hb with
  | [c], _, ha, hb =>
    rw [List.mem_singleton] at ha hb
    rw [ha, hb]
  | _ :: _ :: _, hl, _, _ => simp at hl

/-- **every worker is answered** (repaired service, ANY study state — in particular every state a crash
    can leave): the answer of SuggestTrials is a finished operation of the asking worker; an abandoned
    operation is resumed, not returned as it is -/
theorem suggestBody_answer_done (cfg : Cfg) (hc : cfg.shortDeliveryOk = true) (hc2 : cfg.suggestCatchesAll = true)
    (hr : cfg.resumesAbandonedOp = true) (st : Study) (client : String) (count : Nat) (alg : AlgOutcome) :
    ∃ o, (suggestBody cfg st client count alg).1.opOf = some o ∧ o.done = true ∧ o.client = client ∧
      o.num = (match (opsOf st client).find? (fun o => !o.done) with
               | some o0 => o0.num
               | none => (opsOf st client).length + 1) := by
  cases hfind : (opsOf st client).find? (fun o => !o.done) with
  | none =>
    rw [suggestBody_of_free _ _ _ _ _ hfind]
    exact suggestRest_answer cfg hc hc2 _ _ _ _ _
  | some o0 =>
    rw [suggestBody_of_pending cfg hr _ _ _ _ o0 hfind]
    exact suggestRest_answer cfg hc hc2 { o0 with client := client } _ _ _ _

/-- … and it leaves no unfinished operation of that worker behind, provided the worker had at most one
    (every state reachable by calls and crashes: `crash_at_most_one_pending`) -/
theorem suggestBody_doneFor (cfg : Cfg) (hc : cfg.shortDeliveryOk = true) (hc2 : cfg.suggestCatchesAll = true)
    (hr : cfg.resumesAbandonedOp = true) (st : Study) (client : String) (count : Nat) (alg : AlgOutcome)
    (hone : ((opsOf st client).filter (fun o => !o.done)).length ≤ 1) :
    DoneFor client (suggestBody cfg st client count alg).2 := by
  cases hfind : (opsOf st client).find? (fun o => !o.done) with
  | none =>
    rw [suggestBody_of_free _ _ _ _ _ hfind]
    apply suggestRest_doneFor cfg hc hc2
    intro x hx hxc
    rcases List.mem_append.mp hx with hx | hx
    · left
      have hmem : x ∈ opsOf st client := List.mem_filter.mpr ⟨hx, by simp [hxc]⟩
      have := List.find?_eq_none.mp hfind x hmem
      simpa using this
    · simp only [List.mem_singleton] at hx; subst hx; exact Or.inr ⟨rfl, rfl⟩
  | some o0 =>
    rw [suggestBody_of_pending cfg hr _ _ _ _ o0 hfind]
    apply suggestRest_doneFor cfg hc hc2
    intro x hx hxc
    by_cases hd : x.done = true
    · exact Or.inl hd
    · right
      have hx' : x ∈ (opsOf st client).filter (fun o => !o.done) :=
        List.mem_filter.mpr ⟨List.mem_filter.mpr ⟨hx, by simp [hxc]⟩, by simp [hd]⟩
      have ho' : o0 ∈ (opsOf st client).filter (fun o => !o.done) :=
        List.mem_filter.mpr ⟨List.mem_of_find?_eq_some hfind, List.find?_some (p := fun o : SugOp => !o.done) hfind⟩
      have e : x = o0 := eq_of_mem_length_le_one hone hx' ho'
      subst e
      exact ⟨hxc, rfl⟩

end VizierModel.Svc
