/-
Client layer, part 1: every client call is a short list of M1 requests (refinement), at most one of
which writes; hence one client call evolves the stored data like one RPC (`StepOK`).
-/
import VizierModel.Model.ClientSpec
import VizierModel.Model.Deploy
import VizierModel.Lemmas.ServiceOpNums

namespace VizierModel.Client
open VizierModel VizierModel.Svc

/-! ### `run` -/

theorem run_nil (cfg : Cfg) (db : DB) : run cfg db [] = db := rfl

theorem run_cons (cfg : Cfg) (db : DB) (r : Req) (rs : List Req) :
    run cfg db (r :: rs) = run cfg (step cfg db r).2 rs := rfl

theorem run_append (cfg : Cfg) (db : DB) (a b : List Req) : run cfg db (a ++ b) = run cfg (run cfg db a) b := by
  unfold run; rw [List.foldl_append]

/-! ### refinement: the state after a client call is the state after its requests -/

theorem rpc1_refines (cfg : Cfg) (db : DB) (r : Req) (k : Resp → Obs) :
    (rpc1 cfg db r k).db = run cfg db (rpc1 cfg db r k).reqs := rfl

theorem poll_refines (cfg : Cfg) (h : Handle) (fuel : Nat) (o : SugOp) (handed : List Trial) (db : DB) :
    (poll cfg h fuel o handed db).2.2 = run cfg db (poll cfg h fuel o handed db).2.1 := by
  induction fuel generalizing o handed db with
  | zero => rfl
  | succ n ih =>
    unfold poll
    split
    · rfl
    · simp only
      split
      · rename_i c o' handed' heq
        simp only [run_cons]
        exact ih o' handed' _
      · rfl

theorem getSuggestionsAs_refines (cfg : Cfg) (fuel : Nat) (h : Handle) (count : Nat) (w : String)
    (alg : AlgOutcome) (db : DB) :
    (getSuggestionsAs cfg fuel h count w alg db).db = run cfg db (getSuggestionsAs cfg fuel h count w alg db).reqs := by
  unfold getSuggestionsAs
  simp only
  split
  · simp only [run_cons]
    exact poll_refines cfg h fuel _ _ _
  · rfl

theorem getSuggestions_refines (cfg : Cfg) (fuel : Nat) (h : Handle) (count : Nat) (ov : Option String)
    (alg : AlgOutcome) (db : DB) :
    (getSuggestions cfg fuel h count ov alg db).db = run cfg db (getSuggestions cfg fuel h count ov alg db).reqs :=
  getSuggestionsAs_refines cfg fuel h count _ alg db

/-- **client_refines_rpc, one call** -/
theorem clientExec_refines (cfg : Cfg) (fuel : Nat) (h : Handle) (c : Call) (db : DB) :
    (clientExec cfg fuel h c db).db = run cfg db (clientExec cfg fuel h c db).reqs := by
  cases c with
  | suggest count worker alg => exact getSuggestions_refines cfg fuel h count (some worker) alg db
  | getSuggestions count alg => exact getSuggestions_refines cfg fuel h count none alg db
  | addTrial params final inSpace =>
    simp only [clientExec]
    split
    · rfl
    · split <;> rfl
  | _ => rfl

/-- **client_refines_rpc, histories** -/
theorem clientRun_refines (cfg : Cfg) (fuel : Nat) (db : DB) (hs : History) :
    clientRun cfg fuel db hs = run cfg db (clientTrace cfg fuel db hs) := by
  induction hs generalizing db with
  | nil => rfl
  | cons hc rest ih =>
    show clientRun cfg fuel (clientExec cfg fuel hc.1 hc.2 db).db rest = _
    rw [ih]
    show _ = run cfg db ((clientExec cfg fuel hc.1 hc.2 db).reqs ++ clientTrace cfg fuel (clientExec cfg fuel hc.1 hc.2 db).db rest)
    rw [run_append, ← clientExec_refines]

theorem clientRun_append (cfg : Cfg) (fuel : Nat) (db : DB) (a b : History) :
    clientRun cfg fuel db (a ++ b) = clientRun cfg fuel (clientRun cfg fuel db a) b := by
  unfold clientRun; rw [List.foldl_append]

theorem clientRun_cons (cfg : Cfg) (fuel : Nat) (db : DB) (hc : Handle × Call) (rest : History) :
    clientRun cfg fuel db (hc :: rest) = clientRun cfg fuel (clientExec cfg fuel hc.1 hc.2 db).db rest := rfl

/-! ### reads do not write -/

theorem onStudy_id {db : DB} (hi : Inv db) (o s : String) (guard : Bool) (f : Study → Resp × Study)
    (hf : ∀ st, (f st).2 = st) : (onStudy db o s guard f).2 = db := by
  unfold onStudy
  split
  · rfl
  · rename_i st hfind
    split
    · rfl
    · simp only [hf st]
      exact putStudy_self hi hfind

theorem getStudy_readonly (cfg : Cfg) {db : DB} (hi : Inv db) (o s : String) : (step cfg db (.getStudy o s)).2 = db :=
  onStudy_id hi o s false _ (fun _ => rfl)

theorem getOperation_readonly (cfg : Cfg) {db : DB} (hi : Inv db) (o s c : String) (n : Nat) :
    (step cfg db (.getOperation o s c n)).2 = db := by
  simp only [step]
  split
  · split <;> rfl
  · apply onStudy_id hi
    intro st
    split <;> rfl

theorem poll_readonly (cfg : Cfg) (h : Handle) (fuel : Nat) (o : SugOp) (handed : List Trial) {db : DB} (hi : Inv db) :
    (poll cfg h fuel o handed db).2.2 = db := by
  induction fuel generalizing o handed with
  | zero => rfl
  | succ n ih =>
    unfold poll
    split
    · rfl
    · simp only
      have hro := getOperation_readonly cfg hi h.owner h.sid o.client o.num
      split
      · rename_i c o' handed' heq
        simp only [hro]
        exact ih o' handed'
      · exact hro

/-- a client call leaves the state untouched or is, for the stored data, ONE of its requests -/
theorem clientExec_db (cfg : Cfg) (fuel : Nat) (h : Handle) (c : Call) {db : DB} (hi : Inv db) :
    (clientExec cfg fuel h c db).db = db ∨
      ∃ r ∈ (clientExec cfg fuel h c db).reqs, (clientExec cfg fuel h c db).db = (step cfg db r).2 := by
  have hsug : ∀ count ov alg, (getSuggestions cfg fuel h count ov alg db).db = db ∨
      ∃ r ∈ (getSuggestions cfg fuel h count ov alg db).reqs, (getSuggestions cfg fuel h count ov alg db).db = (step cfg db r).2 := by
    intro count ov alg
    right
    unfold getSuggestions getSuggestionsAs
    simp only
    split
    · refine ⟨_, List.mem_cons_self, ?_⟩
      exact poll_readonly cfg h fuel _ _ (step_ok cfg db _ hi).1
    · exact ⟨_, List.mem_cons_self, rfl⟩
  cases c with
  | suggest count worker alg => exact hsug count (some worker) alg
  | getSuggestions count alg => exact hsug count none alg
  | addTrial params final inSpace =>
    simp only [clientExec]
    have hro := getStudy_readonly cfg hi h.owner h.sid
    split
    · left; exact hro
    · split
      · left; exact hro
      · right
        refine ⟨_, List.mem_cons_of_mem _ List.mem_cons_self, ?_⟩
        simp only [hro]
  | _ => exact Or.inr ⟨_, List.mem_cons_self, rfl⟩

/-- **one client call evolves the stored data like one RPC**: the invariant is kept and every study's
    trials evolve legally (states, parameters, completed trials frozen, worker fixed, fresh unique ids) -/
theorem clientExec_stepOK (cfg : Cfg) (fuel : Nat) (h : Handle) (c : Call) {db : DB} (hi : Inv db) :
    StepOK db (clientExec cfg fuel h c db).db := by
  rcases clientExec_db cfg fuel h c hi with e | ⟨r, _, e⟩
  · rw [e]; exact StepOK.refl hi
  · rw [e]; exact step_ok cfg db r hi

theorem clientRun_inv (cfg : Cfg) (fuel : Nat) {db : DB} (hi : Inv db) (hs : History) : Inv (clientRun cfg fuel db hs) := by
  rw [clientRun_refines]; exact run_inv cfg db _ hi

/-! ### the in-process transport of this file is M4's `serve … .loc` -/

/-- the class of the exception a program sees (this file) is the class M4 (`Model/Deploy.lean`,
    tied by C08) assigns to the in-process transport; `RuntimeError` is M4's `other` -/
theorem raised_classOf (d : Deploy.DCfg) (r : Resp) :
    Deploy.classOf (Deploy.serve d .loc r) =
      (match raised r with
        | none => Deploy.ErrClass.ok
        | some e => (match e.cls with
          | .failedPrecondition => .failedPrecondition
          | .notFound => .notFound
          | .alreadyExists => .alreadyExists
          | _ => .other)) := by
  cases r with
  | err c v => cases c <;> cases v <;> rfl
  | _ => rfl

end VizierModel.Client
