/-
Every value-producing mechanism of `Model/Sampling.lean` lands inside the parameter's domain,
for every variate in the documented range of its source (ordered field carrier).
-/
import VizierModel.Model.Sampling
import VizierModel.Lemmas.CodecSpace
import VizierModel.Lemmas.CodecRoundtrip

set_option linter.unusedSectionVars false
set_option linter.unusedSimpArgs false
set_option linter.unusedVariables false

namespace VizierModel.Sampling
open VizierModel.Codec

variable {α : Type} [Field α] [LinearOrder α] [IsStrictOrderedRing α]
variable (lg ex : α → α) (fin : α → Bool)

/-- Python's `round` on the carrier: all that is used is that it maps a value between two
integers to an integer between them (it is monotone and fixes integers) -/
def RoundLaw (rnd : α → Int) : Prop :=
  ∀ (a b : Int) (x : α), (a : α) ≤ x → x ≤ (b : α) → a ≤ rnd x ∧ rnd x ≤ b

/-- `math.floor` on the carrier -/
def FloorLaw (flr : α → Int) : Prop := ∀ x : α, ((flr x : Int) : α) ≤ x ∧ x < ((flr x : Int) : α) + 1

/-- a domain a valid search space can hold (non-empty) -/
def NonEmptyDom : Domain α → Prop
  | .double lo hi => lo ≤ hi
  | .integer lo hi => lo ≤ hi
  | .discrete vs => vs ≠ []
  | .categorical cs => cs ≠ []

/-! ### random_sample -/

theorem sampleUniform_mem (lo hi u : α) (hlh : lo ≤ hi) (hu0 : 0 ≤ u) (hu1 : u ≤ 1) :
    lo ≤ sampleUniform (fieldOps lg ex fin) lo hi u ∧ sampleUniform (fieldOps lg ex fin) lo hi u ≤ hi := by
  simp only [sampleUniform, fo_add, fo_mul, fo_sub]
  have hp : 0 ≤ hi - lo := sub_nonneg.mpr hlh
  constructor
  · nlinarith [mul_nonneg hp hu0]
  · nlinarith [mul_le_mul_of_nonneg_left hu1 hp]

theorem closestElement_mem (vs : List α) (v x : α) (h : closestElement (fieldOps lg ex fin) vs v = some x) :
    x ∈ vs := by
  have := nearest_mem lg ex fin v _ x h
  simp only [List.map_map, List.mem_map, Function.comp] at this
  obtain ⟨y, hy, rfl⟩ := this
  exact hy

theorem closestElement_isSome (vs : List α) (v : α) (h : vs ≠ []) :
    ∃ x, closestElement (fieldOps lg ex fin) vs v = some x :=
  nearest_isSome lg ex fin v _ (by intro h0; exact h (List.map_eq_nil_iff.mp h0))

/-- `_sample_value` lands in the domain for every uniform variate `u ∈ [0, 1]` and every index
`k` that `rng.choice` can draw -/
theorem sampleValue_inDomain (rnd : α → Int) (hr : RoundLaw rnd) (d : Domain α) (u : α) (k : Nat)
    (hd : NonEmptyDom d) (hu0 : 0 ≤ u) (hu1 : u ≤ 1)
    (hk : ∀ cs, d = .categorical cs → k < cs.length) :
    ∃ v, sampleValue (fieldOps lg ex fin) rnd d u k = some v ∧ inDomain (fieldOps lg ex fin) d v = true := by
  cases d with
  | double lo hi =>
    have := sampleUniform_mem lg ex fin lo hi u hd hu0 hu1
    exact ⟨_, rfl, inDomain_double lg ex fin lo hi _ this.1 this.2⟩
  | integer lo hi =>
    have hlh : (lo : α) ≤ (hi : α) := Int.cast_le.mpr hd
    have := sampleUniform_mem lg ex fin (lo : α) (hi : α) u hlh hu0 hu1
    have hr' := hr lo hi _ this.1 this.2
    exact ⟨_, rfl, inDomain_integer lg ex fin lo hi _ hr'.1 hr'.2⟩
  | discrete vs =>
    obtain ⟨x, hx⟩ := closestElement_isSome lg ex fin vs
      (sampleUniform (fieldOps lg ex fin) (vs.headD 0) (vs.getLastD 0) u) hd
    refine ⟨.dbl x, ?_, inDomain_discrete lg ex fin vs x (closestElement_mem lg ex fin vs _ x hx)⟩
    simp only [sampleValue, fo_zero, hx, Option.map_some]
  | categorical cs =>
    have hk' := hk cs rfl
    refine ⟨.str cs[k], ?_, inDomain_categorical lg ex fin cs _ (List.getElem_mem hk')⟩
    simp [sampleValue, List.getElem?_eq_getElem hk']

/-- `sample_parameters`: every parameter exactly once, inside its domain -/
theorem sampleParameters_assignOK (rnd : α → Int) (hr : RoundLaw rnd) (ps : List (Param α)) (us : List α)
    (ks : List Nat) (hd : ∀ p ∈ ps, NonEmptyDom p.dom)
    (hu : ∀ u ∈ us, 0 ≤ u ∧ u ≤ 1)
    (hk : ∀ (i : Nat) (p : Param α) cs, ps[i]? = some p → p.dom = .categorical cs → (ks.drop i).headD 0 < cs.length) :
    ∃ a, sampleParameters (fieldOps lg ex fin) rnd ps us ks = some a ∧ AssignOK (fieldOps lg ex fin) ps a := by
  induction ps generalizing us ks with
  | nil => exact ⟨[], rfl, List.Forall₂.nil⟩
  | cons p ps ih =>
    have hu' : 0 ≤ us.headD (0 : α) ∧ us.headD (0 : α) ≤ 1 := by
      cases us with
      | nil => simp
      | cons u t => simpa using hu u List.mem_cons_self
    obtain ⟨v, hv1, hv2⟩ := sampleValue_inDomain lg ex fin rnd hr p.dom (us.headD 0) (ks.headD 0)
      (hd p List.mem_cons_self) hu'.1 hu'.2 (fun cs hcs => by simpa using hk 0 p cs (by simp) hcs)
    obtain ⟨a, ha1, ha2⟩ := ih us.tail ks.tail (fun q hq => hd q (List.mem_cons_of_mem _ hq))
      (fun u hu0 => hu u (List.mem_of_mem_tail hu0))
      (fun i q cs hq hcs => by
        have := hk (i + 1) q cs (by simpa using hq) hcs
        simpa [List.drop_succ_cons, List.drop_tail] using this)
    refine ⟨(p.name, v) :: a, ?_, List.Forall₂.cons ⟨rfl, hv2⟩ ha2⟩
    simp only [sampleParameters, fo_zero, hv1, ha1]

/-! ### Halton index -/

/-- `floor(h·n) + lo ∈ [lo, lo + n - 1]` for `0 ≤ h < 1`: never the OOV index, never out of
range -/
theorem haltonIndex_mem (flr : α → Int) (hf : FloorLaw flr) (h : α) (lo hi oov : Int)
    (h0 : 0 ≤ h) (h1 : h < 1) (hn : 0 < hi - lo + 1 - oov) :
    lo ≤ haltonIndex (fieldOps lg ex fin) flr h lo hi oov ∧
    haltonIndex (fieldOps lg ex fin) flr h lo hi oov ≤ hi - oov := by
  simp only [haltonIndex, fo_mul, fo_ofInt]
  set n : Int := hi - lo + 1 - oov with hn_def
  have hnpos : (0 : α) < (n : α) := Int.cast_pos.mpr hn
  obtain ⟨f1, f2⟩ := hf (h * (n : α))
  have hx0 : 0 ≤ h * (n : α) := mul_nonneg h0 (le_of_lt hnpos)
  have hx1 : h * (n : α) < (n : α) := by nlinarith
  have a1 : (-1 : Int) < flr (h * (n : α)) := by
    have : ((-1 : Int) : α) < ((flr (h * (n : α)) : Int) : α) := by
      push_cast; linarith
    exact Int.cast_lt.mp this
  have a2 : flr (h * (n : α)) < n := by
    have : ((flr (h * (n : α)) : Int) : α) < (n : α) := lt_of_le_of_lt f1 hx1
    exact Int.cast_lt.mp this
  constructor <;> omega

/-! ### grid -/

/-- every grid value of a parameter lies in its domain -/
theorem gridValues_inDomain (cfg : Cfg) (res : Nat) (p : Param α)
    (hv : ValidParam (fieldOps lg ex fin) cfg p) :
    ∀ v ∈ gridValues (fieldOps lg ex fin) cfg res p, inDomain (fieldOps lg ex fin) p.dom v = true := by
  intro v hvm
  unfold gridValues at hvm
  cases hd : p.dom with
  | double lo hi =>
    rw [hd] at hvm
    simp only [fo_beq, decide_eq_true_eq] at hvm
    have hdom := hv.1
    rw [hd] at hdom
    split at hvm
    · rename_i heq
      simp only [List.mem_singleton] at hvm
      rw [hvm]
      exact inDomain_double lg ex fin lo hi lo (le_refl _) hdom.1
    · simp only [List.mem_filterMap] at hvm
      obtain ⟨g, _, hg⟩ := hvm
      split at hg
      · rename_i w hw
        simp only [Option.some.injEq] at hg
        rw [← hg, ← hd]
        exact decodeBlock_some_inDomain lg ex fin cfg p _ w hv hw
      · cases hg
  | integer lo hi =>
    rw [hd] at hvm
    simp only [List.mem_map] at hvm
    obtain ⟨i, hi', rfl⟩ := hvm
    have := (mem_intRange lo hi i).mp hi'
    exact inDomain_integer lg ex fin lo hi i this.1 this.2
  | discrete vs =>
    rw [hd] at hvm
    simp only [List.mem_map] at hvm
    obtain ⟨x, hx, rfl⟩ := hvm
    exact inDomain_discrete lg ex fin vs x hx
  | categorical cs =>
    rw [hd] at hvm
    simp only [List.mem_map] at hvm
    obtain ⟨x, hx, rfl⟩ := hvm
    exact inDomain_categorical lg ex fin cs x hx

/-- whatever digits are chosen, a point assembled from in-domain grids is an in-space assignment -/
theorem gridPoint_assignOK (ops : NumOps α) (ps : List (Param α)) (grid : Param α → List (PVal α)) (index : Nat)
    (a : List (String × PVal α))
    (hg : ∀ p ∈ ps, ∀ v ∈ grid p, inDomain ops p.dom v = true)
    (h : gridPoint (ps.map fun p => (p.name, grid p)) index = some a) : AssignOK ops ps a := by
  induction ps generalizing index a with
  | nil =>
    simp only [List.map_nil, gridPoint, Option.some.injEq] at h
    subst h; exact List.Forall₂.nil
  | cons p ps ih =>
    simp only [List.map_cons, gridPoint] at h
    split at h
    · rename_i v tl hv htl
      simp only [Option.some.injEq] at h
      subst h
      have hmem : v ∈ grid p := List.mem_of_getElem? hv
      exact List.Forall₂.cons ⟨rfl, hg p List.mem_cons_self v hmem⟩
        (ih _ tl (fun q hq => hg q (List.mem_cons_of_mem _ hq)) htl)
    · cases h

/-- non-empty grids always produce a point (the code does not raise) -/
theorem gridPoint_isSome (gs : List (String × List (PVal α))) (index : Nat) (hne : ∀ g ∈ gs, g.2 ≠ []) :
    ∃ a, gridPoint gs index = some a := by
  induction gs generalizing index with
  | nil => exact ⟨[], rfl⟩
  | cons g gs ih =>
    obtain ⟨name, l⟩ := g
    have hl : l ≠ [] := hne (name, l) List.mem_cons_self
    have hpos : 0 < l.length := List.length_pos_iff.mpr hl
    have hlt : index % l.length < l.length := Nat.mod_lt _ hpos
    obtain ⟨tl, htl⟩ := ih (index / l.length) (fun g hg => hne g (List.mem_cons_of_mem _ hg))
    exact ⟨(name, l[index % l.length]) :: tl, by simp [gridPoint, List.getElem?_eq_getElem hlt, htl]⟩

/-! ### default / centre seeding -/

theorem defaultValue_inDomain (vd : Bool) (d : Domain α) (dflt : Option (PVal α)) (v : PVal α)
    (hd : NonEmptyDom d)
    (hdbl : vd = true ∨ ∀ lo hi w, d = .double lo hi → dflt = some w → inDomain (fieldOps lg ex fin) d w = true)
    (h : defaultValue (fieldOps lg ex fin) vd d dflt = .ok v) :
    inDomain (fieldOps lg ex fin) d v = true := by
  unfold defaultValue at h
  cases dflt with
  | some w =>
    simp only at h
    cases d with
    | double lo hi =>
      simp only at h
      rcases hdbl with hvd | hin
      · subst hvd
        by_cases hi' : inDomain (fieldOps lg ex fin) (.double lo hi) w = true
        · simp only [hi', Bool.not_true, Bool.and_false, Bool.false_eq_true, if_false, Except.ok.injEq] at h
          rw [← h]; exact hi'
        · simp only [hi', Bool.not_false, Bool.and_self, if_true] at h
          cases h
      · have hi' := hin lo hi w rfl rfl
        split at h
        · cases h
        · simp only [Except.ok.injEq] at h; rw [← h]; exact hi'
    | integer lo hi =>
      simp only at h
      split at h
      · rename_i hi'; simp only [Except.ok.injEq] at h; rw [← h]; exact hi'
      · cases h
    | discrete vs =>
      simp only at h
      split at h
      · rename_i hi'; simp only [Except.ok.injEq] at h; rw [← h]; exact hi'
      · cases h
    | categorical cs =>
      simp only at h
      split at h
      · rename_i hi'; simp only [Except.ok.injEq] at h; rw [← h]; exact hi'
      · cases h
  | none =>
    simp only at h
    cases d with
    | double lo hi =>
      simp only [fo_beq, decide_eq_true_eq, fo_div, fo_add, fo_one] at h
      simp only [NonEmptyDom] at hd
      split at h
      · simp only [Except.ok.injEq] at h; rw [← h]
        exact inDomain_double lg ex fin lo hi lo (le_refl _) hd
      · simp only [Except.ok.injEq] at h; rw [← h]
        have hb := clip_bounds lg ex fin (lo / (1 + 1) + hi / (1 + 1)) lo hi hd
        exact inDomain_double lg ex fin lo hi _ hb.1 hb.2
    | integer lo hi =>
      simp only [Except.ok.injEq] at h
      simp only [NonEmptyDom] at hd
      rw [← h]
      apply inDomain_integer lg ex fin lo hi <;> omega
    | discrete vs =>
      simp only at h
      split at h
      · rename_i x hx
        simp only [Except.ok.injEq] at h; rw [← h]
        exact inDomain_discrete lg ex fin vs x (List.mem_of_getElem? hx)
      · cases h
    | categorical cs =>
      simp only at h
      split at h
      · rename_i x hx
        simp only [Except.ok.injEq] at h; rw [← h]
        exact inDomain_categorical lg ex fin cs x (List.mem_of_getElem? hx)
      · cases h

/-- without a default the centre always exists -/
theorem defaultValue_centre_ok (vd : Bool) (d : Domain α) (hd : NonEmptyDom d) :
    ∃ v, defaultValue (fieldOps lg ex fin) vd d none = .ok v := by
  cases d with
  | double lo hi => simp only [defaultValue]; split <;> exact ⟨_, rfl⟩
  | integer lo hi => exact ⟨_, rfl⟩
  | discrete vs =>
    simp only [NonEmptyDom] at hd
    have hpos : 0 < vs.length := List.length_pos_iff.mpr hd
    have : vs.length / 2 < vs.length := Nat.div_lt_self hpos (by norm_num)
    exact ⟨.dbl vs[vs.length / 2], by simp [defaultValue, List.getElem?_eq_getElem this]⟩
  | categorical cs =>
    simp only [NonEmptyDom] at hd
    have hpos : 0 < cs.length := List.length_pos_iff.mpr hd
    have : cs.length / 2 < cs.length := Nat.div_lt_self hpos (by norm_num)
    exact ⟨.str cs[cs.length / 2], by simp [defaultValue, List.getElem?_eq_getElem this]⟩

theorem defaultParameters_assignOK (vd : Bool) (pds : List (Param α × Option (PVal α)))
    (a : List (String × PVal α))
    (hd : ∀ pd ∈ pds, NonEmptyDom pd.1.dom)
    (hdbl : vd = true ∨ ∀ pd ∈ pds, ∀ lo hi w, pd.1.dom = .double lo hi → pd.2 = some w →
      inDomain (fieldOps lg ex fin) pd.1.dom w = true)
    (h : defaultParameters (fieldOps lg ex fin) vd pds = .ok a) :
    AssignOK (fieldOps lg ex fin) (pds.map (·.1)) a := by
  induction pds generalizing a with
  | nil =>
    simp only [defaultParameters, Except.ok.injEq] at h
    subst h; exact List.Forall₂.nil
  | cons pd pds ih =>
    obtain ⟨p, dflt⟩ := pd
    simp only [defaultParameters] at h
    split at h
    · cases h
    · rename_i v hv
      split at h
      · cases h
      · rename_i tl htl
        simp only [Except.ok.injEq] at h
        subst h
        have hin := defaultValue_inDomain lg ex fin vd p.dom dflt v (hd (p, dflt) List.mem_cons_self)
          (by
            rcases hdbl with h1 | h2
            · exact Or.inl h1
            · exact Or.inr (fun lo hi w h3 h4 => h2 (p, dflt) List.mem_cons_self lo hi w h3 h4)) hv
        exact List.Forall₂.cons ⟨rfl, hin⟩
          (ih tl (fun q hq => hd q (List.mem_cons_of_mem _ hq))
            (by
              rcases hdbl with h1 | h2
              · exact Or.inl h1
              · exact Or.inr (fun q hq => h2 q (List.mem_cons_of_mem _ hq))) htl)

/-! ### eagle clamping -/

theorem clamp_mem (v lo hi : α) (h : lo ≤ hi) :
    lo ≤ clamp (fieldOps lg ex fin) v lo hi ∧ clamp (fieldOps lg ex fin) v lo hi ≤ hi := by
  unfold clamp
  simp only [fo_lt, decide_eq_true_eq]
  by_cases h1 : hi < v
  · simp only [h1, if_true]
    rw [if_neg (not_lt.mpr h)]
    exact ⟨h, le_refl _⟩
  · simp only [h1, if_false]
    by_cases h2 : v < lo
    · simp only [h2, if_true]; exact ⟨le_refl _, h⟩
    · simp only [h2, if_false]; exact ⟨not_lt.mp h2, not_lt.mp h1⟩

/-- the clamp returns its argument or one of the two bounds -/
theorem clamp_cases (v lo hi : α) :
    clamp (fieldOps lg ex fin) v lo hi = v ∨ clamp (fieldOps lg ex fin) v lo hi = lo ∨
      clamp (fieldOps lg ex fin) v lo hi = hi := by
  unfold clamp
  simp only [fo_lt, decide_eq_true_eq]
  split <;> split <;> simp

theorem headD_mem (vs : List α) (d : α) (h : vs ≠ []) : vs.headD d ∈ vs := by
  cases vs with
  | nil => exact absurd rfl h
  | cons a t => simp

theorem getLastD_mem (vs : List α) (d : α) (h : vs ≠ []) : vs.getLastD d ∈ vs := by
  induction vs generalizing d with
  | nil => exact absurd rfl h
  | cons a t ih =>
    rw [List.getLastD_cons]
    cases t with
    | nil => simp [List.getLastD]
    | cons b t' => exact List.mem_cons_of_mem _ (ih a (by simp))

theorem eagleCombine_inDomain (rnd : α → Int) (d : Domain α) (w : α) (v : PVal α) (hd : NonEmptyDom d)
    (h : eagleCombine (fieldOps lg ex fin) rnd d w = some v) : inDomain (fieldOps lg ex fin) d v = true := by
  cases d with
  | double lo hi =>
    simp only [eagleCombine, Option.some.injEq] at h
    rw [← h]
    have := clamp_mem lg ex fin w lo hi hd
    exact inDomain_double lg ex fin lo hi _ this.1 this.2
  | integer lo hi =>
    simp only [eagleCombine, Option.some.injEq] at h
    simp only [NonEmptyDom] at hd
    rw [← h]
    apply inDomain_integer lg ex fin lo hi <;> simp only [clampInt] <;> omega
  | discrete vs =>
    simp only [eagleCombine, fo_zero, Option.map_eq_some_iff] at h
    obtain ⟨x, hx, rfl⟩ := h
    have hxm := closestElement_mem lg ex fin vs w x hx
    rcases clamp_cases lg ex fin x (vs.headD 0) (vs.getLastD 0) with e | e | e <;> rw [e]
    · exact inDomain_discrete lg ex fin vs x hxm
    · exact inDomain_discrete lg ex fin vs _ (headD_mem vs 0 hd)
    · exact inDomain_discrete lg ex fin vs _ (getLastD_mem vs 0 hd)
  | categorical cs => simp [eagleCombine] at h

theorem eaglePerturb_inDomain (rnd : α → Int) (hr : RoundLaw rnd) (d : Domain α) (w : α) (v : PVal α)
    (hd : NonEmptyDom d) (h : eaglePerturb (fieldOps lg ex fin) rnd d w = some v) :
    inDomain (fieldOps lg ex fin) d v = true := by
  cases d with
  | double lo hi =>
    simp only [eaglePerturb, Option.some.injEq] at h
    rw [← h]
    have := clamp_mem lg ex fin w lo hi hd
    exact inDomain_double lg ex fin lo hi _ this.1 this.2
  | integer lo hi =>
    simp only [eaglePerturb, fo_ofInt, Option.some.injEq] at h
    simp only [NonEmptyDom] at hd
    rw [← h]
    have := clamp_mem lg ex fin w (lo : α) (hi : α) (Int.cast_le.mpr hd)
    have hr' := hr lo hi _ this.1 this.2
    exact inDomain_integer lg ex fin lo hi _ hr'.1 hr'.2
  | discrete vs =>
    simp only [eaglePerturb, Option.map_eq_some_iff] at h
    obtain ⟨x, hx, rfl⟩ := h
    exact inDomain_discrete lg ex fin vs x (closestElement_mem lg ex fin vs w x hx)
  | categorical cs => simp [eaglePerturb] at h

/-- `unmap`: a numeric embedded value — whatever the firefly dynamics computed — is either
decoded to a member of the original domain or dropped/refused; a categorical value is passed
through, so it is in the domain iff the dynamics produced a category of the parameter (they
only copy categories of existing trials or draw from the feasible values) -/
theorem unmapValue_inDomain (cfg : Cfg) (p : Param α) (v w : PVal α)
    (hv : ValidParam (fieldOps lg ex fin) cfg p)
    (hcat : ∀ cs s, p.dom = .categorical cs → v = .str s → s ∈ cs)
    (h : unmapValue (fieldOps lg ex fin) cfg p v = .ok (some w)) :
    inDomain (fieldOps lg ex fin) p.dom w = true := by
  obtain ⟨name, dom, sc⟩ := p
  cases dom with
  | categorical cs =>
    cases v with
    | str s =>
      simp only [unmapValue, Except.ok.injEq, Option.some.injEq] at h
      rw [← h]
      exact inDomain_categorical lg ex fin cs s (hcat cs s rfl rfl)
    | dbl y => simp [unmapValue] at h
    | int i => simp [unmapValue] at h
  | double lo hi =>
    cases v with
    | dbl y => exact decodeBlock_some_inDomain lg ex fin cfg _ _ w hv (by simpa [unmapValue] using h)
    | str s => simp [unmapValue] at h
    | int i => simp [unmapValue] at h
  | integer lo hi =>
    cases v with
    | dbl y => exact decodeBlock_some_inDomain lg ex fin cfg _ _ w hv (by simpa [unmapValue] using h)
    | str s => simp [unmapValue] at h
    | int i => simp [unmapValue] at h
  | discrete vs =>
    cases v with
    | dbl y => exact decodeBlock_some_inDomain lg ex fin cfg _ _ w hv (by simpa [unmapValue] using h)
    | str s => simp [unmapValue] at h
    | int i => simp [unmapValue] at h

/-! ### NSGA-II mutation -/

/-- whatever the parent coordinate and the perturbation, the mutated coordinate is in [0, 1] -/
theorem linfMutate_unit (x delta : α) :
    0 ≤ linfMutate (fieldOps lg ex fin) x delta ∧ linfMutate (fieldOps lg ex fin) x delta ≤ 1 := by
  unfold linfMutate
  simp only [fo_add, fo_lt, fo_one, fo_half, fo_neg, fo_zero, fo_sub, decide_eq_true_eq]
  have hh : (0 : α) < 1 / 2 := by positivity
  have hh1 : (1 : α) / 2 < 1 := by rw [div_lt_one (by norm_num : (0 : α) < 2)]; norm_num
  split_ifs <;> constructor <;> linarith

end VizierModel.Sampling
