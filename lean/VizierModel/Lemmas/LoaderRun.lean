/-
Lemmas for C12: one step and whole runs of the history model — the invariant and exactness of
every logged update (i) with the shortcut when the top trial is never deleted, (ii) without the
shortcut when no id is handed out twice; restoring `inc` from a dump in any order simulates the
live policy.
-/
import VizierModel.Lemmas.LoaderHistory

namespace VizierModel.Loader

theorem step_setStatus (cfg : Cfg) (s : State) (id : Nat) (st : Status) :
    step cfg s (.setStatus id st) = { s with env := s.env.map (setSt id st) } := rfl

theorem step_inv (cfg : Cfg) (s : State) (op : Op) (hI : Inv s)
    (hwf : okWF s op = true) (hfr : okFresh s op = true)
    (hsc : cfg.shortcut = true → Top s) :
    Inv (step cfg s op) ∧ (UpdateExact s.log → UpdateExact (step cfg s op).log) := by
  cases op with
  | create st =>
    have hf : maxId s.env + 1 ∉ s.allocated := by simpa [okFresh] using hfr
    exact ⟨⟨envInv_create hI.envInv st, linInv_create hI.linInv st hf, hI.logInv⟩, id⟩
  | setStatus id st =>
    rw [step_setStatus]
    exact ⟨⟨envInv_setStatus hI.envInv id st, linInv_setStatus hI.linInv id st, hI.logInv⟩, fun h => h⟩
  | delete id =>
    exact ⟨⟨envInv_delete hI.envInv _, linInv_delete hI.linInv _, hI.logInv⟩, fun h => h⟩
  | update m =>
    have hinc : cfg.shortcut = true → ∀ i ∈ s.inc, i ≤ maxId s.env := by
      intro hs i hi
      obtain ⟨g, hg, e⟩ := (hI.linInv.incGiven i).mp hi
      exact hsc hs i (e ▸ (hI.linInv.givenOk g hg).1)
    cases m with
    | live => exact policyUpdate_inv cfg s s.inc s.inst hI.envInv hI.linInv hI.logInv hinc
    | restored stored =>
      have hp : stored.Perm s.inc := List.isPerm_iff.mp (by simpa [okWF] using hwf)
      have hnd : stored.Nodup := hp.symm.nodup hI.linInv.incNodup
      show Inv (policyUpdate cfg s (load stored) s.inst) ∧
        (UpdateExact s.log → UpdateExact (policyUpdate cfg s (load stored) s.inst).log)
      rw [load_of_nodup hnd]
      exact policyUpdate_inv cfg s stored s.inst hI.envInv
        ⟨hnd, fun i => (hp.mem_iff).trans (hI.linInv.incGiven i), hI.linInv.givenOk, hI.linInv.link⟩
        hI.logInv (fun hs i hi => hinc hs i (hp.mem_iff.mp hi))
    | lost =>
      have hd : delivered s.nextInst s.log = [] := delivered_fresh hI.logInv.logInst
      exact policyUpdate_inv cfg { s with nextInst := s.nextInst + 1 } [] s.nextInst hI.envInv
        ⟨List.nodup_nil, by simp [hd], by simp [hd], by simp [hd]⟩
        ⟨Nat.lt_succ_self _, fun e he => Nat.lt_succ_of_lt (hI.logInv.logInst e he), hI.logInv.snaps⟩
        (by simp)
    | stateless =>
      have hd : delivered s.nextInst s.log = [] := delivered_fresh hI.logInv.logInst
      have hne : s.nextInst ≠ s.inst := Nat.ne_of_gt hI.logInv.instLt
      refine ⟨⟨hI.envInv, ?_, ?_⟩, ?_⟩
      · show LinInv s.env s.nextUid s.allocated (delivered s.inst (_ :: s.log)) s.inc
        simp only [delivered, if_neg hne, List.nil_append]
        exact hI.linInv
      · refine ⟨Nat.lt_succ_of_lt hI.logInv.instLt, ?_, ?_⟩
        · intro e' he'
          rcases List.mem_cons.mp he' with rfl | he'
          · exact Nat.lt_succ_self _
          · exact Nat.lt_succ_of_lt (hI.logInv.logInst e' he')
        · intro e' he'
          rcases List.mem_cons.mp he' with rfl | he'
          · exact hI.envInv.uidsNodup
          · exact hI.logInv.snaps e' he'
      · intro hx
        refine ⟨?_, hx⟩
        show getTrials s.env none (some .completed) = expected s.log s.nextInst s.env
        simp [expected, hd, getTrials]

theorem step_top (cfg : Cfg) (s : State) (op : Op) (hT : Top s) (hok : okTop s op = true) :
    Top (step cfg s op) := by
  cases op with
  | create st =>
    intro i hi
    have hmem : ({ id := maxId s.env + 1, uid := s.nextUid, st := st } : Trial) ∈
        s.env ++ [{ id := maxId s.env + 1, uid := s.nextUid, st := st }] := by simp
    have hle := le_maxId hmem
    show i ≤ maxId (s.env ++ [{ id := maxId s.env + 1, uid := s.nextUid, st := st }])
    rcases List.mem_cons.mp hi with rfl | hi
    · exact hle
    · have := hT i hi
      simp only at hle
      omega
  | setStatus id st =>
    intro i hi
    rw [step_setStatus]
    show i ≤ maxId (s.env.map (setSt id st))
    rw [maxId_map_id _ _ (setSt_id id st)]
    exact hT i hi
  | delete id =>
    intro i hi
    have hne : id ≠ maxId s.env := by simpa [okTop] using hok
    exact Nat.le_trans (hT i hi) (maxId_filter_ne s.env id hne)
  | update m =>
    cases m <;> exact hT

theorem top_fresh (s : State) (op : Op) (hT : Top s) : okFresh s op = true := by
  cases op with
  | create st =>
    simp only [okFresh, decide_eq_true_eq]
    intro h
    have := hT _ h
    omega
  | _ => rfl

theorem holds_cons (cfg : Cfg) (ok : State → Op → Bool) (s : State) (op : Op) (rest : List Op) :
    holds cfg ok s (op :: rest) = true ↔ ok s op = true ∧ holds cfg ok (step cfg s op) rest = true := by
  simp [holds]

/-- as written (any `cfg`): the top trial is never deleted -/
theorem run_top (cfg : Cfg) : ∀ (h : List Op) (s : State), Inv s → Top s →
    holds cfg okWF s h = true → holds cfg okTop s h = true →
    Inv (run cfg s h) ∧ Top (run cfg s h) ∧ (UpdateExact s.log → UpdateExact (run cfg s h).log)
  | [], s, hI, hT, _, _ => ⟨hI, hT, fun h => h⟩
  | op :: rest, s, hI, hT, hw, ht => by
    rw [holds_cons] at hw ht
    have h1 := step_inv cfg s op hI hw.1 (top_fresh s op hT) (fun _ => hT)
    have h2 := step_top cfg s op hT ht.1
    have ih := run_top cfg rest (step cfg s op) h1.1 h2 hw.2 ht.2
    exact ⟨ih.1, ih.2.1, fun hx => ih.2.2 (h1.2 hx)⟩

/-- without the shortcut: no id is handed out twice -/
theorem run_fresh (cfg : Cfg) (hc : cfg.shortcut = false) : ∀ (h : List Op) (s : State), Inv s →
    holds cfg okWF s h = true → holds cfg okFresh s h = true →
    Inv (run cfg s h) ∧ (UpdateExact s.log → UpdateExact (run cfg s h).log)
  | [], s, hI, _, _ => ⟨hI, fun h => h⟩
  | op :: rest, s, hI, hw, hf => by
    rw [holds_cons] at hw hf
    have h1 := step_inv cfg s op hI hw.1 hf.1 (fun hs => by rw [hc] at hs; cases hs)
    have ih := run_fresh cfg hc rest (step cfg s op) h1.1 hw.2 hf.2
    exact ⟨ih.1, fun hx => ih.2 (h1.2 hx)⟩

/-! ### active trials: unconditional -/

theorem step_active (cfg : Cfg) (s : State) (op : Op) (h : ActiveExact s.log) :
    ActiveExact (step cfg s op).log := by
  have hcons : ∀ (e : Entry), e.active = e.env.filter (fun t => decide (t.st = .active)) →
      ActiveExact (e :: s.log) := by
    intro e he e' he'
    rcases List.mem_cons.mp he' with rfl | he'
    · exact he
    · exact h e' he'
  cases op with
  | create st => exact h
  | setStatus id st => exact h
  | delete id => exact h
  | update m =>
    cases m with
    | live => exact hcons _ (activeTrials_eq s.env)
    | restored stored => exact hcons _ (activeTrials_eq s.env)
    | lost => exact hcons _ (activeTrials_eq s.env)
    | stateless => exact hcons _ (activeTrials_eq s.env)

theorem run_active (cfg : Cfg) : ∀ (h : List Op) (s : State), ActiveExact s.log →
    ActiveExact (run cfg s h).log
  | [], _, hs => hs
  | op :: rest, s, hs => run_active cfg rest (step cfg s op) (step_active cfg s op hs)

/-! ### restored from a dump (any order) ≃ kept alive -/

def toLive : Op → Op
  | .update (.restored _) => .update .live
  | op => op

structure Sim (s s' : State) : Prop where
  env : s.env = s'.env
  nextUid : s.nextUid = s'.nextUid
  allocated : s.allocated = s'.allocated
  inst : s.inst = s'.inst
  nextInst : s.nextInst = s'.nextInst
  log : s.log = s'.log
  inc : s.inc.Perm s'.inc
  nodup : s.inc.Nodup

theorem sim_policyUpdate (cfg : Cfg) {s s' : State} {a b : List Nat} {i i' : Nat}
    (h : Sim s s') (hab : a.Perm b) (ha : a.Nodup) (hi : i = i') :
    Sim (policyUpdate cfg s a i) (policyUpdate cfg s' b i') := by
  subst hi
  have hp := newly_perm cfg s.env (maxId s.env) hab
  refine ⟨h.env, h.nextUid, h.allocated, rfl, h.nextInst, ?_, ?_, ?_⟩
  · show _ :: s.log = _ :: s'.log
    rw [← h.log, ← h.env, hp.1]
  · show ((newlyCompleted cfg s.env a (maxId s.env)).2).Perm (newlyCompleted cfg s'.env b (maxId s'.env)).2
    rw [← h.env]; exact hp.2
  · exact nodup_newly_inc cfg s.env a _ ha

theorem step_sim (cfg : Cfg) (s s' : State) (op : Op) (h : Sim s s') (hwf : okWF s op = true) :
    Sim (step cfg s op) (step cfg s' (toLive op)) := by
  cases op with
  | create st =>
    refine ⟨?_, ?_, ?_, h.inst, h.nextInst, h.log, h.inc, h.nodup⟩
    · show s.env ++ _ = s'.env ++ _
      rw [h.env, h.nextUid]
    · show s.nextUid + 1 = s'.nextUid + 1
      rw [h.nextUid]
    · show _ :: s.allocated = _ :: s'.allocated
      rw [h.env, h.allocated]
  | setStatus id st =>
    refine ⟨?_, h.nextUid, h.allocated, h.inst, h.nextInst, h.log, h.inc, h.nodup⟩
    show s.env.map _ = s'.env.map _
    rw [h.env]
  | delete id =>
    refine ⟨?_, h.nextUid, h.allocated, h.inst, h.nextInst, h.log, h.inc, h.nodup⟩
    show s.env.filter _ = s'.env.filter _
    rw [h.env]
  | update m =>
    cases m with
    | live => exact sim_policyUpdate cfg h h.inc h.nodup h.inst
    | restored stored =>
      have hp : stored.Perm s.inc := List.isPerm_iff.mp (by simpa [okWF] using hwf)
      have hnd : stored.Nodup := hp.symm.nodup h.nodup
      show Sim (policyUpdate cfg s (load stored) s.inst) (policyUpdate cfg s' s'.inc s'.inst)
      rw [load_of_nodup hnd]
      exact sim_policyUpdate cfg h (hp.trans h.inc) hnd h.inst
    | lost =>
      show Sim (policyUpdate cfg { s with nextInst := s.nextInst + 1 } clear s.nextInst)
        (policyUpdate cfg { s' with nextInst := s'.nextInst + 1 } clear s'.nextInst)
      exact sim_policyUpdate cfg
        ⟨h.env, h.nextUid, h.allocated, h.inst, by show s.nextInst + 1 = s'.nextInst + 1; rw [h.nextInst], h.log, h.inc, h.nodup⟩
        (List.Perm.refl _) List.nodup_nil h.nextInst
    | stateless =>
      refine ⟨h.env, h.nextUid, h.allocated, h.inst, ?_, ?_, h.inc, h.nodup⟩
      · show s.nextInst + 1 = s'.nextInst + 1
        rw [h.nextInst]
      · show _ :: s.log = _ :: s'.log
        rw [h.env, h.nextInst, h.log]

theorem run_sim (cfg : Cfg) : ∀ (h : List Op) (s s' : State), Sim s s' →
    holds cfg okWF s h = true → Sim (run cfg s h) (run cfg s' (h.map toLive))
  | [], _, _, hs, _ => hs
  | op :: rest, s, s', hs, hw => by
    rw [holds_cons] at hw
    exact run_sim cfg rest _ _ (step_sim cfg s s' op hs hw.1) hw.2

/-! ### facts that hold over every history (no side condition) -/

structure Basic (s : State) : Prop where
  idsPos : ∀ t ∈ s.env, 1 ≤ t.id
  instLt : s.inst < s.nextInst
  logInst : ∀ e ∈ s.log, e.inst < s.nextInst

theorem basic_init : Basic State.init :=
  ⟨by simp [State.init], by simp [State.init], by simp [State.init]⟩

theorem step_basic (cfg : Cfg) (s : State) (op : Op) (h : Basic s) : Basic (step cfg s op) := by
  have hsame : ∀ (e : Entry), e.inst = s.inst → ∀ e' ∈ e :: s.log, e'.inst < s.nextInst := by
    intro e he e' he'
    rcases List.mem_cons.mp he' with rfl | he'
    · rw [he]; exact h.instLt
    · exact h.logInst e' he'
  have hnew : ∀ (e : Entry), e.inst = s.nextInst → ∀ e' ∈ e :: s.log, e'.inst < s.nextInst + 1 := by
    intro e he e' he'
    rcases List.mem_cons.mp he' with rfl | he'
    · omega
    · exact Nat.lt_succ_of_lt (h.logInst e' he')
  cases op with
  | create st =>
    refine ⟨?_, h.instLt, h.logInst⟩
    intro t ht
    rcases List.mem_append.mp ht with ht | ht
    · exact h.idsPos t ht
    · rw [List.mem_singleton] at ht; subst ht; simp
  | setStatus id st =>
    rw [step_setStatus]
    refine ⟨?_, h.instLt, h.logInst⟩
    intro t ht
    obtain ⟨t0, h0, rfl⟩ := List.mem_map.mp ht
    rw [setSt_id]; exact h.idsPos t0 h0
  | delete id => exact ⟨fun t ht => h.idsPos t (List.mem_of_mem_filter ht), h.instLt, h.logInst⟩
  | update m =>
    cases m with
    | live => exact ⟨h.idsPos, h.instLt, hsame _ rfl⟩
    | restored stored => exact ⟨h.idsPos, h.instLt, hsame _ rfl⟩
    | lost => exact ⟨h.idsPos, Nat.lt_succ_self _, hnew _ rfl⟩
    | stateless => exact ⟨h.idsPos, Nat.lt_succ_of_lt h.instLt, hnew _ rfl⟩

theorem run_basic (cfg : Cfg) : ∀ (h : List Op) (s : State), Basic s → Basic (run cfg s h)
  | [], _, hs => hs
  | op :: rest, s, hs => run_basic cfg rest (step cfg s op) (step_basic cfg s op hs)

/-- after `clear` the loader returns every completed trial of the table (any reachable table) -/
theorem newly_after_clear (cfg : Cfg) (env : Env) (hpos : ∀ t ∈ env, 1 ≤ t.id) :
    (newlyCompleted cfg env clear (maxId env)).1 = env.filter fun t => decide (t.st = .completed) := by
  rw [newly_exact cfg env clear [] hpos (by simp [clear]) (by simp) (by simp [clear])]
  simp

/-- histories in which every request is served by the stateless `DesignerPolicy` -/
def AllStateless (h : List Op) : Prop := ∀ op ∈ h, ∀ m, op = .update m → m = .stateless

def GetsAll (log : List Entry) : Prop :=
  ∀ e ∈ log, e.completed = e.env.filter (fun t => decide (t.st = .completed)) ∧
    e.active = e.env.filter (fun t => decide (t.st = .active))

theorem run_stateless (cfg : Cfg) : ∀ (h : List Op) (s : State), AllStateless h → GetsAll s.log →
    GetsAll (run cfg s h).log
  | [], _, _, hs => hs
  | op :: rest, s, ha, hs => by
    apply run_stateless cfg rest (step cfg s op) (fun op' h' => ha op' (List.mem_cons_of_mem _ h'))
    cases op with
    | create st => exact hs
    | setStatus id st => exact hs
    | delete id => exact hs
    | update m =>
      have hm : m = .stateless := ha _ List.mem_cons_self m rfl
      subst hm
      intro e he
      rcases List.mem_cons.mp he with rfl | he
      · exact ⟨completedAll_eq s.env, by simp [getTrials]⟩
      · exact hs e he

end VizierModel.Loader
