/-
C18 helper lemmas, part 4: the outlier pipeline (detect outliers → infeasible → gaussian)
returns finite labels only: the largest label is never an outlier, so after the infeasible
warper two distinct values exist and the gaussian transform does not divide by zero.
-/
import VizierModel.Lemmas.WarpPipeline

set_option linter.unusedSectionVars false

namespace VizierModel.Warp

variable {α : Type} [Field α] [LinearOrder α] [IsStrictOrderedRing α]

/-- the outlier threshold `median − z·sqrt(variance)` never exceeds the largest label -/
theorem outlierThreshold_le_max {F : Fns α} (hF : FnsOK F) {z : α} (hz : 0 ≤ z) {f : List α}
    {t mx : α} (h : outlierThreshold F z f = some t) (hmx : lmax f = some mx) : t ≤ mx := by
  have hne : f ≠ [] := by
    intro e; rw [e] at hmx; simp [lmax] at hmx
  have hmed : median f ≤ mx := by
    rcases lmin_lmax_cases f with ⟨he, _, _⟩ | ⟨mn, mx', h1, h2⟩
    · exact absurd he hne
    · rw [hmx] at h2; cases h2
      exact (median_bounds hne (lmin_spec h1).2 (lmax_spec hmx).2).2
  unfold outlierThreshold at h
  split at h
  · cases h
  · simp only at h
    split at h
    · cases h
    · rename_i hv
      cases h
      have hs : 0 ≤ F.sqrt (estimateVariance f) := by
        apply hF.sqrt_nonneg
        rw [zero_eq] at hv
        exact not_lt.mp hv
      have : 0 ≤ z * F.sqrt (estimateVariance f) := mul_nonneg hz hs
      linarith

theorem outPt_some {t x : α} {u : Option α} (h : outPt t u = some x) : u = some x := by
  cases u with
  | none => simp [outPt] at h
  | some a =>
    simp only [outPt] at h
    split at h
    · cases h
    · exact h

/-- the detector only turns labels into NaN; the largest label survives -/
theorem detect_facts {F : Fns α} (hF : FnsOK F) {z : α} (hz : 0 ≤ z) (l : List (Option α)) :
    (∀ x, some x ∈ detectOutliers F z l → some x ∈ l) ∧
    (none ∈ l → none ∈ detectOutliers F z l) ∧
    (∀ mx, lmax (fins l) = some mx → some mx ∈ detectOutliers F z l) ∧
    ((∀ u ∈ detectOutliers F z l, u ≠ none) → detectOutliers F z l = l) := by
  unfold detectOutliers
  cases ht : outlierThreshold F z (fins l) with
  | none =>
    simp only
    exact ⟨fun _ h => h, fun h => h, fun mx hmx => mem_fins.mp (lmax_spec hmx).1, fun _ => trivial⟩
  | some t =>
    simp only
    refine ⟨?_, ?_, ?_, ?_⟩
    · intro x hx
      obtain ⟨u, hu, e⟩ := List.mem_map.mp hx
      rw [outPt_some e] at hu
      exact hu
    · intro hn
      exact List.mem_map.mpr ⟨none, hn, rfl⟩
    · intro mx hmx
      have hle := outlierThreshold_le_max hF hz ht hmx
      refine List.mem_map.mpr ⟨some mx, mem_fins.mp (lmax_spec hmx).1, ?_⟩
      simp [outPt, not_lt.mpr hle]
    · intro hall
      have : ∀ u ∈ l, outPt t u = u := by
        intro u hu
        have hne := hall _ (List.mem_map_of_mem (f := outPt t) hu)
        cases u with
        | none => simp [outPt] at hne
        | some a =>
          simp only [outPt] at hne ⊢
          split
          · rename_i hlt; simp [hlt] at hne
          · rfl
      calc l.map (outPt t) = l.map id := List.map_congr_left this
        _ = l := List.map_id l

theorem unique_of_all_eq {f : List α} {c : α} (hne : f ≠ []) (h : ∀ x ∈ f, x = c) :
    unique f = [c] := by
  induction f with
  | nil => exact absurd rfl hne
  | cons a t ih =>
    have ha : a = c := h a List.mem_cons_self
    subst ha
    have hu : unique (a :: t) = insertUniq a (unique t) := rfl
    by_cases ht : t = []
    · subst ht; simp [hu, unique, insertUniq]
    · rw [hu, ih ht (fun x hx => h x (List.mem_cons_of_mem _ hx))]
      simp [insertUniq]

/-- not "all finite and equal" and no NaN: two distinct finite labels exist -/
theorem exists_lt_of_not_allEqualFinite {l : List (Option α)} (hA : allEqualFinite l = false)
    (hnn : ∀ u ∈ l, u ≠ none) (hne : l ≠ []) :
    ∃ x y, some x ∈ l ∧ some y ∈ l ∧ x < y := by
  by_contra hex
  have hall : l.all Option.isSome = true := by
    rw [List.all_eq_true]
    intro u hu
    cases u with
    | none => exact absurd rfl (hnn none hu)
    | some a => rfl
  obtain ⟨u0, t, rfl⟩ := List.exists_cons_of_ne_nil hne
  cases u0 with
  | none => exact absurd rfl (hnn none List.mem_cons_self)
  | some c =>
    have heq : ∀ x ∈ fins (some c :: t), x = c := by
      intro x hx
      by_contra hxc
      rcases lt_or_gt_of_ne hxc with h | h
      · exact hex ⟨x, c, mem_fins.mp hx, List.mem_cons_self, h⟩
      · exact hex ⟨c, x, List.mem_cons_self, mem_fins.mp hx, h⟩
    have hfne : fins (some c :: t) ≠ [] := by
      intro e
      have : c ∈ fins (some c :: t) := mem_fins.mpr List.mem_cons_self
      rw [e] at this; simp at this
    have := unique_of_all_eq hfne heq
    simp [allEqualFinite, hall, this] at hA

/-- the gaussian transform of an all-finite array with two distinct values is all finite -/
theorem gauss_all_some {F : Fns α} {l : List (Option α)} (hall : ∀ u ∈ l, u.isSome)
    {a b : α} (ha : some a ∈ l) (hb : some b ∈ l) (hab : a < b) :
    ∀ u ∈ transformToGaussian F l, u.isSome := by
  rcases lmin_lmax_cases (fins l) with ⟨he, _, _⟩ | ⟨mn, mx, h1, h2⟩
  · have := mem_fins.mpr ha; rw [he] at this; simp at this
  · have hmm := lmin_lt_lmax_of_lt h1 h2 (mem_fins.mpr ha) (mem_fins.mpr hb) hab
    have hany : l.any Option.isNone = false := by
      rw [List.any_eq_false]
      intro u hu
      have := hall u hu
      cases u with
      | none => simp at this
      | some x => simp
    intro u hu
    simp only [transformToGaussian, h1, h2, hany, hmm, if_true, Bool.false_eq_true, if_false,
      List.mem_map] at hu
    obtain ⟨v, hv, rfl⟩ := hu
    have := hall v hv
    cases v with
    | none => simp at this
    | some x => simp [gaussPt]

/-- the outlier pipeline yields finite labels only (`min_zscore ≥ 0`) -/
theorem outlier_all_some {F : Fns α} (hF : FnsOK F) {z : α} (hz : 0 ≤ z)
    {raw : List (Raw α)} {l : List (Option α)} (h : validate raw = .ok l) :
    ∃ out, outlierWarp F z raw = .ok out ∧ ∀ u ∈ out, u.isSome := by
  unfold outlierWarp
  rw [pipeline_three _ _ _ raw h]
  by_cases hA : allEqualFinite l = true
  · exact ⟨l.map fun _ => some zero, by rw [if_pos hA], by simp⟩
  · by_cases hB : l.all Option.isNone = true
    · exact ⟨l.map fun _ => some (zero - one), by rw [if_neg hA, if_pos hB], by simp⟩
    · refine ⟨_, by rw [if_neg hA, if_neg hB], ?_⟩
      have hA' : allEqualFinite l = false := by simpa using hA
      -- a finite label exists
      have hfin : ∃ x0, some x0 ∈ l := by
        by_contra hc
        apply hB
        rw [List.all_eq_true]
        intro u hu
        cases u with
        | none => rfl
        | some a => exact absurd ⟨a, hu⟩ hc
      obtain ⟨x0, hx0⟩ := hfin
      have hlne : l ≠ [] := List.ne_nil_of_mem hx0
      obtain ⟨d1, d2, d3, d4⟩ := detect_facts hF hz l
      rcases lmin_lmax_cases (fins l) with ⟨he, _, _⟩ | ⟨mn, mx, h1, h2⟩
      · have := mem_fins.mpr hx0; rw [he] at this; simp at this
      · have hmxd := d3 mx h2
        obtain ⟨g, e, s, f⟩ := infeasible_ptStrict (detectOutliers F z l)
        have hall2 := infeasible_all_some (detectOutliers F z l)
        -- two distinct values after the infeasible warper
        have htwo : ∃ a b, some a ∈ infeasible (detectOutliers F z l) ∧
            some b ∈ infeasible (detectOutliers F z l) ∧ a < b := by
          by_cases hn : none ∈ detectOutliers F z l
          · have hlt := s _ hn _ hmxd (by simp)
            have m1 : g none ∈ infeasible (detectOutliers F z l) := e ▸ List.mem_map_of_mem hn
            have m2 : g (some mx) ∈ infeasible (detectOutliers F z l) := e ▸ List.mem_map_of_mem hmxd
            obtain ⟨a, ha⟩ := Option.isSome_iff_exists.mp (hall2 _ m1)
            obtain ⟨b, hb⟩ := Option.isSome_iff_exists.mp (hall2 _ m2)
            rw [ha, hb] at hlt
            exact ⟨a, b, ha ▸ m1, hb ▸ m2, by simpa using hlt⟩
          · have hnn : ∀ u ∈ detectOutliers F z l, u ≠ none := fun u hu e => hn (e ▸ hu)
            have hdl := d4 hnn
            have hnn' : ∀ u ∈ l, u ≠ none := hdl ▸ hnn
            obtain ⟨x, y, hx, hy, hxy⟩ := exists_lt_of_not_allEqualFinite hA' hnn' hlne
            rw [hdl] at e s hall2 ⊢
            have hlt := s _ hx _ hy (by simpa using hxy)
            have m1 : g (some x) ∈ infeasible l := e ▸ List.mem_map_of_mem hx
            have m2 : g (some y) ∈ infeasible l := e ▸ List.mem_map_of_mem hy
            obtain ⟨a, ha⟩ := Option.isSome_iff_exists.mp (hall2 _ m1)
            obtain ⟨b, hb⟩ := Option.isSome_iff_exists.mp (hall2 _ m2)
            rw [ha, hb] at hlt
            exact ⟨a, b, ha ▸ m1, hb ▸ m2, by simpa using hlt⟩
        obtain ⟨a, b, ha, hb, hab⟩ := htwo
        exact gauss_all_some hall2 ha hb hab

end VizierModel.Warp
