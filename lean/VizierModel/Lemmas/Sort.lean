/-
Insertion sort (`Model/Space.insSort`): a permutation of its input, sorted whenever the
comparison is total and transitive on the elements present; with no two elements
equivalent the result is strictly increasing.
-/
import VizierModel.Model.SpaceSpec
namespace VizierModel.Space

variable {α : Type}

theorem insertBy_perm (le : α → α → Bool) (x : α) (l : List α) : (insertBy le x l).Perm (x :: l) := by
  induction l with
  | nil => exact List.Perm.refl _
  | cons y ys ih =>
    unfold insertBy
    by_cases h : le x y = true
    · rw [if_pos h]
    · rw [if_neg h]
      exact (List.Perm.cons y ih).trans (List.Perm.swap x y ys)

theorem insSort_perm (le : α → α → Bool) (l : List α) : (insSort le l).Perm l := by
  induction l with
  | nil => exact List.Perm.refl _
  | cons x xs ih =>
    unfold insSort
    exact (insertBy_perm le x (insSort le xs)).trans (List.Perm.cons x ih)

theorem mem_insSort (le : α → α → Bool) (l : List α) (x : α) : x ∈ insSort le l ↔ x ∈ l :=
  (insSort_perm le l).mem_iff

/-- `le` is total and transitive on the elements satisfying `P` -/
structure TotalOn (le : α → α → Bool) (P : α → Prop) : Prop where
  total : ∀ x y, P x → P y → le x y = true ∨ le y x = true
  trans : ∀ x y z, P x → P y → P z → le x y = true → le y z = true → le x z = true

theorem insertBy_sorted {le : α → α → Bool} {P : α → Prop} (T : TotalOn le P) (x : α) (l : List α)
    (hx : P x) (hl : ∀ y ∈ l, P y) (hs : l.Pairwise fun a b => le a b = true) :
    (insertBy le x l).Pairwise fun a b => le a b = true := by
  induction l with
  | nil => simp [insertBy]
  | cons y ys ih =>
    have hy : P y := hl y (List.mem_cons_self ..)
    have hys : ∀ z ∈ ys, P z := fun z hz => hl z (List.mem_cons_of_mem _ hz)
    rw [List.pairwise_cons] at hs
    unfold insertBy
    by_cases h : le x y = true
    · rw [if_pos h]
      refine List.Pairwise.cons ?_ (List.Pairwise.cons hs.1 hs.2)
      intro z hz
      rcases List.mem_cons.mp hz with rfl | hz
      · exact h
      · exact T.trans x y z hx hy (hys z hz) h (hs.1 z hz)
    · rw [if_neg h]
      have hyx : le y x = true := (T.total x y hx hy).resolve_left h
      refine List.Pairwise.cons ?_ (ih hys hs.2)
      intro z hz
      rcases List.mem_cons.mp ((insertBy_perm le x ys).mem_iff.mp hz) with rfl | hz
      · exact hyx
      · exact hs.1 z hz

theorem insSort_sorted {le : α → α → Bool} {P : α → Prop} (T : TotalOn le P) (l : List α)
    (hl : ∀ y ∈ l, P y) : (insSort le l).Pairwise fun a b => le a b = true := by
  induction l with
  | nil => simp [insSort]
  | cons x xs ih =>
    unfold insSort
    have hxs : ∀ y ∈ xs, P y := fun y hy => hl y (List.mem_cons_of_mem _ hy)
    exact insertBy_sorted T x _ (hl x (List.mem_cons_self ..))
      (fun y hy => hxs y ((mem_insSort le xs y).mp hy)) (ih hxs)

/-- pairwise strict ⇒ the adjacent-pairs test of the specification -/
theorem strictAdj_of_pairwise {lt : α → α → Bool} {l : List α} (h : l.Pairwise fun a b => lt a b = true) :
    strictAdj lt l = true := by
  induction l with
  | nil => rfl
  | cons a as ih =>
    rw [List.pairwise_cons] at h
    cases as with
    | nil => rfl
    | cons b bs =>
      simp only [strictAdj, Bool.and_eq_true]
      exact ⟨h.1 b (List.mem_cons_self ..), ih h.2⟩

/-- `hasDup` is "some two positions hold Python-equal values" -/
theorem hasDup_false_iff (l : List PVal) : hasDup l = false ↔ l.Pairwise fun a b => pyEq a b = false := by
  induction l with
  | nil => simp [hasDup]
  | cons v vs ih =>
    simp only [hasDup, Bool.or_eq_false_iff, List.any_eq_false, List.pairwise_cons, ih]
    constructor
    · intro ⟨h1, h2⟩
      exact ⟨fun w hw => by simpa using h1 w hw, h2⟩
    · intro ⟨h1, h2⟩
      exact ⟨fun w hw => by simpa using h1 w hw, h2⟩

end VizierModel.Space
