import VizierModel.Lemmas.Conc
namespace VizierModel.Conc
open VizierModel.Svc

/-- the critical section neither reads nor writes the study's state field -/
def StateIndep (c : Crit) : Prop :=
  ∀ (st : Study) (s : SState), c.body { st with state := s } = ((c.body st).1, { (c.body st).2 with state := s })

theorem StateIndep.state_eq {c : Crit} (h : StateIndep c) (st : Study) : (c.body st).2.state = st.state := by
  have := h st st.state
  have e : ({ st with state := st.state } : Study) = st := rfl
  rw [e] at this
  have := congrArg (fun p => p.2.state) this
  simpa using this

theorem StateIndep.presMut {c : Crit} (h : StateIndep c) : PresMut c := by
  intro st
  unfold Study.immutable
  rw [h.state_eq st]

def critSetState (s : SState) : Crit :=
  { checks := false, body := fun st => (.study { st with state := s }, { st with state := s }) }

theorem StateIndep.commute_setState {c : Crit} (h : StateIndep c) (s : SState) : Commute (critSetState s) c := by
  intro st
  simp only [critSetState]
  rw [h st s]
  exact ⟨rfl, rfl, rfl⟩

def critComplete (id : Nat) (f : Option Meas) (i : Bool) (r : String) : Crit :=
  { checks := true, body := fun st => completeBody st id f i r }
def critMeasure (id : Nat) (m : Meas) : Crit := { checks := true, body := fun st => addMeasurementBody st id m }
def critStop (id : Nat) : Crit := { checks := true, body := fun st => stopBody st id }
def critCreate (keepInf : Bool) (t : Trial) : Crit := { checks := true, body := fun st => createTrialBody keepInf st t }
/-- DeleteTrial: since round g its `delete_trial` call sits inside the study lock like the others -/
def critDelete (id : Nat) : Crit := { checks := true, body := fun st => deleteTrialBody st id }
def critMetadata (cfg : Cfg) (us : List (Meta.Upd K String)) : Crit :=
  { checks := true, body := fun st => let r := st.updateMetadata cfg us; (if r.1 then .mdOk else .mdError, r.2) }

theorem stateIndep_complete (id : Nat) (f : Option Meas) (i : Bool) (r : String) : StateIndep (critComplete id f i r) := by
  intro st s
  simp only [critComplete, completeBody, Study.findTrial]
  repeat' split
  all_goals rfl

theorem stateIndep_measure (id : Nat) (m : Meas) : StateIndep (critMeasure id m) := by
  intro st s
  simp only [critMeasure, addMeasurementBody, Study.findTrial]
  repeat' split
  all_goals rfl

theorem stateIndep_stop (id : Nat) : StateIndep (critStop id) := by
  intro st s
  simp only [critStop, stopBody, Study.findTrial]
  repeat' split
  all_goals rfl

theorem stateIndep_delete (id : Nat) : StateIndep (critDelete id) := by
  intro st s
  simp only [critDelete, deleteTrialBody, Study.findTrial]
  repeat' split
  all_goals rfl

theorem stateIndep_create (keepInf : Bool) (t : Trial) : StateIndep (critCreate keepInf t) := by
  intro st s
  rfl

theorem stateIndep_metadata (cfg : Cfg) (us : List (Meta.Upd K String)) : StateIndep (critMetadata cfg us) := by
  intro st s
  simp only [critMetadata, Study.updateMetadata]
  split
  · have : ({ st with state := s } : Study).toStore = st.toStore := rfl
    rw [this]
    split <;> rfl
  · rfl

end VizierModel.Conc
