import VizierModel.Lemmas.StoresStudy
namespace VizierModel.Stores
open VizierModel.Svc

/-! ### suggestion operations: the per-client dictionaries are the grouping of the operation rows -/

def opRows (q : Sql) (k : SKey) : List SugOp := (q.ops.filter (·.1 == k)).map (·.2)

theorem sql_opsOf_eq (q : Sql) (k : SKey) (c : String) : q.opsOf k c = (opRows q k).filter (·.client == c) := rfl

/-! #### first-seen order -/

def fsStep (acc : List String) (c : String) : List String := if acc.contains c then acc else acc ++ [c]

theorem firstSeen_eq (l : List String) : firstSeen l = l.foldl fsStep [] := rfl

theorem mem_foldl_fsStep (l : List String) : ∀ (acc : List String) (x : String),
    x ∈ l.foldl fsStep acc ↔ x ∈ acc ∨ x ∈ l := by
  induction l with
  | nil => intro acc x; simp
  | cons c cs ih =>
    intro acc x
    rw [List.foldl_cons, ih]
    unfold fsStep
    by_cases hc : acc.contains c = true
    · simp only [hc, if_true, List.mem_cons]
      constructor
      · rintro (h | h)
        · exact Or.inl h
        · exact Or.inr (Or.inr h)
      · rintro (h | h | h)
        · exact Or.inl h
        · subst h; exact Or.inl (by simpa using hc)
        · exact Or.inr h
    · simp only [hc, Bool.false_eq_true, if_false, List.mem_append, List.mem_singleton, List.mem_cons, List.not_mem_nil, or_false]
      constructor
      · rintro ((h | h) | h)
        · exact Or.inl h
        · exact Or.inr (Or.inl h)
        · exact Or.inr (Or.inr h)
      · rintro (h | h | h)
        · exact Or.inl (Or.inl h)
        · exact Or.inl (Or.inr h)
        · exact Or.inr h

theorem mem_firstSeen (l : List String) (x : String) : x ∈ firstSeen l ↔ x ∈ l := by
  rw [firstSeen_eq, mem_foldl_fsStep]; simp

theorem firstSeen_append_single (l : List String) (c : String) :
    firstSeen (l ++ [c]) = if c ∈ l then firstSeen l else firstSeen l ++ [c] := by
  rw [firstSeen_eq, List.foldl_append, ← firstSeen_eq]
  simp only [List.foldl_cons, List.foldl_nil, fsStep]
  by_cases h : c ∈ l
  · have : (firstSeen l).contains c = true := by simpa using (mem_firstSeen l c).mpr h
    simp only [this, if_true, h]
  · have : (firstSeen l).contains c = false := by
      cases hh : (firstSeen l).contains c with
      | true => exact absurd ((mem_firstSeen l c).mp (by simpa using hh)) h
      | false => rfl
    simp only [this, Bool.false_eq_true, if_false, h]

theorem find_beq_self (l : List String) (c : String) : l.find? (· == c) = if c ∈ l then some c else none := by
  induction l with
  | nil => simp
  | cons x xs ih =>
    simp only [List.find?_cons, List.mem_cons]
    by_cases hx : x = c
    · subst hx; simp
    · have h1 : (x == c) = false := beq_false_of_ne hx
      have h2 : ¬ c = x := fun e => hx e.symm
      simp only [h1, ih, h2, false_or]

/-! #### lookups -/

theorem node_clients (q : Sql) (k : SKey) (h : Head) :
    (nodeOf q k h).clients = (firstSeen ((opRows q k).map (·.client))).map fun c => (c, (opRows q k).filter (·.client == c)) := rfl

theorem opsOf_nodeOf (q : Sql) (k : SKey) (h : Head) (c : String) :
    (nodeOf q k h).opsOf c = if c ∈ (opRows q k).map (·.client) then some (q.opsOf k c) else none := by
  unfold RNode.opsOf
  rw [node_clients]
  simp only [List.find?_map]
  have : ((fun (x : String × List SugOp) => x.1 == c) ∘ fun c' => (c', (opRows q k).filter (·.client == c'))) = (· == c) := by
    funext c'; rfl
  rw [this, find_beq_self]
  by_cases hm : c ∈ (opRows q k).map (·.client)
  · have : c ∈ firstSeen ((opRows q k).map (·.client)) := (mem_firstSeen _ c).mpr hm
    simp only [this, if_true, hm, Option.map_some]
    rfl
  · have : ¬ c ∈ firstSeen ((opRows q k).map (·.client)) := fun e => hm ((mem_firstSeen _ c).mp e)
    simp only [this, if_false, hm, Option.map_none]

theorem client_mem_iff (rows : List SugOp) (c : String) : c ∈ rows.map (·.client) ↔ rows.filter (·.client == c) ≠ [] := by
  induction rows with
  | nil => simp
  | cons r rs ih =>
    simp only [List.map_cons, List.mem_cons, List.filter_cons]
    by_cases hr : r.client = c
    · simp [hr]
    · have h1 : (r.client == c) = false := beq_false_of_ne hr
      have h2 : ¬ c = r.client := fun e => hr e.symm
      simp only [h1, Bool.false_eq_true, if_false, h2, false_or, ih]

theorem opRows_of_missing (q : Sql) (hw : WF q) (k : SKey) (hm : q.studies.find? (·.1 == k) = none) : opRows q k = [] := by
  have : q.ops.filter (·.1 == k) = [] := by
    rw [List.filter_eq_nil_iff]
    intro row hrow he
    have hk : row.1 = k := by simpa using he
    have := hw.noOrphanOps row hrow
    rw [hk, hasStudy_iff_find, hm] at this
    cases this
  unfold opRows; rw [this]; rfl

theorem getOp_sim (q : Sql) (hw : WF q) (k : SKey) (c : String) (num : Nat) :
    (absQ q).getOp k c num = q.getOp k c num := by
  unfold Ram.getOp Sql.getOp
  rw [node_absQ q hw]
  cases hf : q.studies.find? (·.1 == k) with
  | none =>
    rw [sql_opsOf_eq, opRows_of_missing q hw k hf]
    rfl
  | some row =>
    have hrk : row.1 = k := by simpa using List.find?_some hf
    simp only [Option.map_some, hrk, opsOf_nodeOf]
    by_cases hm : c ∈ (opRows q k).map (·.client)
    · simp only [hm, if_true, Option.bind_some]
    · have : q.opsOf k c = [] := by
        rw [sql_opsOf_eq]
        by_cases he : (opRows q k).filter (·.client == c) = []
        · exact he
        · exact absurd ((client_mem_iff _ c).mpr he) hm
      simp only [hm, if_false, Option.bind_none, this, List.find?_nil]

theorem listOps_sim (q : Sql) (hw : WF q) (k : SKey) (c : String) :
    (absQ q).listOps k c = q.listOps k c := by
  unfold Ram.listOps Sql.listOps
  rw [node_absQ q hw]
  cases hf : q.studies.find? (·.1 == k) with
  | none =>
    rw [sql_opsOf_eq, opRows_of_missing q hw k hf]
    rfl
  | some row =>
    have hrk : row.1 = k := by simpa using List.find?_some hf
    simp only [Option.map_some, hrk, opsOf_nodeOf]
    by_cases hm : c ∈ (opRows q k).map (·.client)
    · have hne : q.opsOf k c ≠ [] := by rw [sql_opsOf_eq]; exact (client_mem_iff _ c).mp hm
      cases hl : q.opsOf k c with
      | nil => exact absurd hl hne
      | cons x xs => simp only [hm, if_true, hl]
    · have : q.opsOf k c = [] := by
        rw [sql_opsOf_eq]
        by_cases he : (opRows q k).filter (·.client == c) = []
        · exact he
        · exact absurd ((client_mem_iff _ c).mpr he) hm
      simp only [hm, if_false, this]

/-- `len(ops)` vs `max(operation_number)`: equal when the worker's operations are numbered 1, 2, 3, … -/
theorem len_eq_max_of_numbered (l : List SugOp) (h : l.map (·.num) = List.range' 1 l.length) :
    l.foldl (fun m o => max m o.num) 0 = l.length := by
  have key : ∀ (n s m : Nat), (List.range' s n).foldl max m = if n = 0 then m else max m (s + n - 1) := by
    intro n
    induction n with
    | zero => intro s m; simp
    | succ n ih =>
      intro s m
      rw [List.range'_succ, List.foldl_cons, ih]
      by_cases hn : n = 0
      · subst hn; simp
      · simp only [hn, if_false, Nat.succ_ne_zero]
        omega
  have : l.foldl (fun m o => max m o.num) 0 = (l.map (·.num)).foldl max 0 := by
    rw [List.foldl_map]
  rw [this, h, key]
  by_cases hl : l.length = 0
  · simp [hl]
  · simp only [hl, if_false]; omega

theorem maxOpNumber_sim (q : Sql) (hw : WF q) (k : SKey) (c : String)
    (hnum : (q.opsOf k c).map (·.num) = List.range' 1 (q.opsOf k c).length) :
    (absQ q).maxOpNumber k c = q.maxOpNumber k c := by
  unfold Ram.maxOpNumber Sql.maxOpNumber
  rw [node_absQ q hw]
  cases hf : q.studies.find? (·.1 == k) with
  | none =>
    rw [sql_opsOf_eq, opRows_of_missing q hw k hf]
    rfl
  | some row =>
    have hrk : row.1 = k := by simpa using List.find?_some hf
    simp only [Option.map_some, hrk, opsOf_nodeOf]
    by_cases hm : c ∈ (opRows q k).map (·.client)
    · have hne : q.opsOf k c ≠ [] := by rw [sql_opsOf_eq]; exact (client_mem_iff _ c).mp hm
      simp only [hm, if_true]
      have hl := len_eq_max_of_numbered (q.opsOf k c) hnum
      cases hq : q.opsOf k c with
      | nil => exact absurd hq hne
      | cons x xs => rw [hq] at hl; simp only [hl]
    · have : q.opsOf k c = [] := by
        rw [sql_opsOf_eq]
        by_cases he : (opRows q k).filter (·.client == c) = []
        · exact he
        · exact absurd ((client_mem_iff _ c).mpr he) hm
      simp only [hm, if_false, this]

/-! #### writes -/

/-- GENERIC: replacing the operation rows of study `k` (other studies' rows untouched) is `setNode` with
    the regrouped client dictionaries -/
theorem setNode_clients (q : Sql) (hw : WF q) (k : SKey) (row : SKey × Head) (hrow : q.studies.find? (·.1 == k) = some row)
    (O' : List (SKey × SugOp)) (hother : ∀ key : SKey, key ≠ k → clientsOf O' key = clientsOf q.ops key) :
    (absQ q).setNode k { nodeOf q row.1 row.2 with clients := clientsOf O' k } = absQ { q with ops := O' } := by
  have hmem : row ∈ q.studies := List.mem_of_find?_eq_some hrow
  have hrk : row.1 = k := by simpa using List.find?_some hrow
  unfold Ram.setNode absQ
  simp only [List.map_map]
  congr 1
  apply List.map_congr_left
  intro o _
  simp only [Function.comp]
  by_cases ho : (o == k.1) = true
  · simp only [ho, if_true]
    congr 1
    unfold studiesOf
    simp only [List.map_map]
    apply List.map_congr_left
    intro r hr
    have hr' : r ∈ q.studies := (List.mem_filter.mp hr).1
    simp only [Function.comp]
    by_cases hs : (r.1.2 == k.2) = true
    · have hro : r.1.1 = k.1 := by
        have := (List.mem_filter.mp hr).2
        rw [beq_iff_eq.mp ho] at this
        exact beq_iff_eq.mp this
      have hrk' : r.1 = k := Prod.ext hro (beq_iff_eq.mp hs)
      have : r = row := row_unique q hw hr' hmem (hrk'.trans hrk.symm)
      subst this
      simp [nodeOf, hrk]
    · have hne : r.1 ≠ k := fun e => hs (by rw [e]; exact beq_self_eq_true _)
      simp only [hs, nodeOf, hother r.1 hne]
      rfl
  · have ho' : (o == k.1) = false := by
      cases h : o == k.1 with
      | true => exact absurd h ho
      | false => rfl
    simp only [ho', Bool.false_eq_true, if_false]
    congr 1
    unfold studiesOf
    apply List.map_congr_left
    intro r hr
    have hro : r.1.1 = o := beq_iff_eq.mp (List.mem_filter.mp hr).2
    have hne : r.1 ≠ k := fun e => ho (by rw [← hro, e]; exact beq_self_eq_true _)
    simp only [nodeOf, hother r.1 hne]

theorem wf_ops (q : Sql) (hw : WF q) (O' : List (SKey × SugOp))
    (h : ∀ r ∈ O', q.hasStudy r.1 = true) : WF { q with ops := O' } :=
  ⟨hw.ownersNodup, hw.studyKeys, hw.studyOwner, hw.noOrphan, h⟩

theorem opRows_append (q : Sql) (k key : SKey) (op : SugOp) :
    (((q.ops ++ [(k, op)]).filter (·.1 == key)).map (·.2)) = opRows q key ++ (if k == key then [op] else []) := by
  unfold opRows
  simp only [List.filter_append, List.map_append, List.filter_cons, List.filter_nil]
  by_cases h : (k == key) = true <;> simp [h]

/-- grouping after one more row of client `c` -/
theorem clients_append (rows : List SugOp) (op : SugOp) :
    ((firstSeen ((rows ++ [op]).map (·.client))).map fun c => (c, (rows ++ [op]).filter (·.client == c))) =
      if op.client ∈ rows.map (·.client) then
        ((firstSeen (rows.map (·.client))).map fun c => (c, rows.filter (·.client == c))).map
          fun (p : String × List SugOp) => if p.1 == op.client then (p.1, rows.filter (·.client == op.client) ++ [op]) else (p.1, p.2)
      else ((firstSeen (rows.map (·.client))).map fun c => (c, rows.filter (·.client == c))) ++ [(op.client, [op])] := by
  simp only [List.map_append, List.map_cons, List.map_nil, firstSeen_append_single]
  by_cases hm : op.client ∈ rows.map (·.client)
  · simp only [hm, if_true, List.map_map]
    apply List.map_congr_left
    intro c _
    simp only [Function.comp, List.filter_append, List.filter_cons, List.filter_nil]
    by_cases hc : (c == op.client) = true
    · have e : c = op.client := beq_iff_eq.mp hc
      have : (op.client == c) = true := by rw [e]; exact beq_self_eq_true _
      simp [hc, this, e]
    · have hne : c ≠ op.client := fun e => hc (by rw [e]; exact beq_self_eq_true _)
      have : (op.client == c) = false := beq_false_of_ne (fun e => hne e.symm)
      simp [hc, this]
  · simp only [hm, if_false, List.map_append, List.map_cons, List.map_nil]
    congr 1
    · apply List.map_congr_left
      intro c hc
      have hcm : c ∈ rows.map (·.client) := (mem_firstSeen _ c).mp hc
      have hne : op.client ≠ c := fun e => hm (e ▸ hcm)
      simp [List.filter_append, beq_false_of_ne hne]
    · have : rows.filter (·.client == op.client) = [] := by
        by_cases he : rows.filter (·.client == op.client) = []
        · exact he
        · exact absurd ((client_mem_iff rows op.client).mpr he) hm
      simp [List.filter_append, this]

theorem createOp_sim (q : Sql) (hw : WF q) (k : SKey) (op : SugOp) (hex : q.hasStudy k = true) :
    (absQ q).createOp k op = (q.createOp k op).map absQ ∧
      ∀ q', q.createOp k op = .ok q' → WF q' := by
  rw [hasStudy_iff_find] at hex
  obtain ⟨row, hrow⟩ := Option.isSome_iff_exists.mp hex
  have hrk : row.1 = k := by simpa using List.find?_some hrow
  constructor
  · unfold Ram.createOp Sql.createOp
    rw [node_absQ q hw, hrow]
    simp only [Option.map_some, hrk, opsOf_nodeOf]
    have hget : (if op.client ∈ (opRows q k).map (·.client) then some (q.opsOf k op.client) else none).getD [] = q.opsOf k op.client := by
      by_cases hm : op.client ∈ (opRows q k).map (·.client)
      · rw [if_pos hm]; rfl
      · have : q.opsOf k op.client = [] := by
          rw [sql_opsOf_eq]
          by_cases he : (opRows q k).filter (·.client == op.client) = []
          · exact he
          · exact absurd ((client_mem_iff _ op.client).mpr he) hm
        rw [if_neg hm, this]; rfl
    rw [hget]
    by_cases hany : (q.opsOf k op.client).any (·.num == op.num) = true
    · simp only [hany, if_true]; rfl
    · simp only [hany]
      show Except.ok _ = Except.ok _
      congr 1
      have hset := setNode_clients q hw k row hrow (q.ops ++ [(k, op)]) (by
        intro key hne
        apply clientsOf_congr
        rw [opRows_append]
        have : (k == key) = false := beq_false_of_ne (fun e => hne e.symm)
        simp [this, opRows])
      rw [← hset]
      congr 1
      -- the node: setOps on the grouped dictionaries = regrouping after the append
      unfold RNode.setOps
      rw [hrk, opsOf_nodeOf]
      have hcl : clientsOf (q.ops ++ [(k, op)]) k =
          ((firstSeen ((opRows q k ++ [op]).map (·.client))).map fun c => (c, (opRows q k ++ [op]).filter (·.client == c))) := by
        unfold clientsOf
        have := opRows_append q k k op
        simp only [beq_self_eq_true, if_true] at this
        simp only [this]
      rw [hcl, clients_append]
      by_cases hm : op.client ∈ (opRows q k).map (·.client)
      · simp only [hm, if_true, nodeOf, clientsOf]
        rfl
      · simp only [hm, if_false, nodeOf, clientsOf]
        have : q.opsOf k op.client = [] := by
          rw [sql_opsOf_eq]
          by_cases he : (opRows q k).filter (·.client == op.client) = []
          · exact he
          · exact absurd ((client_mem_iff _ op.client).mpr he) hm
        simp [this, opRows]
  · intro q' hq'
    unfold Sql.createOp at hq'
    split at hq'
    · cases hq'
    · injection hq' with hq'
      subst hq'
      apply wf_ops q hw
      intro r hr
      rcases List.mem_append.mp hr with h | h
      · exact hw.noOrphanOps r h
      · simp only [List.mem_singleton] at h; subst h
        rw [hasStudy_iff_find]; exact hex

/-! #### update_suggestion_operation (of an operation that exists) -/

theorem bfalse {b : Bool} (h : ¬ b = true) : b = false := by cases b <;> simp_all

def updC (op : SugOp) (x : SugOp) : SugOp := if x.client == op.client && x.num == op.num then op else x

theorem updC_client (op x : SugOp) : (updC op x).client = x.client := by
  unfold updC
  by_cases h : (x.client == op.client && x.num == op.num) = true
  · simp only [h, if_true]
    simp only [Bool.and_eq_true, beq_iff_eq] at h
    exact h.1.symm
  · simp only [bfalse h, Bool.false_eq_true, if_false]

theorem filter_map_updC (op : SugOp) (c : String) (rows : List SugOp) :
    (rows.map (updC op)).filter (·.client == c) = (rows.filter (·.client == c)).map (updC op) := by
  induction rows with
  | nil => rfl
  | cons x xs ih =>
    simp only [List.map_cons, List.filter_cons, updC_client]
    by_cases h : (x.client == c) = true
    · simp only [h, if_true, List.map_cons, ih]
    · simp only [bfalse h, Bool.false_eq_true, if_false, ih]

/-- the row update of SQL `update_suggestion_operation`, seen on the rows of one study -/
def updRowOp (k : SKey) (op : SugOp) (r : SKey × SugOp) : SKey × SugOp :=
  if r.1 == k && r.2.client == op.client && r.2.num == op.num then (k, op) else r

theorem updRowOp_key (k : SKey) (op : SugOp) (r : SKey × SugOp) : (updRowOp k op r).1 = r.1 := by
  unfold updRowOp
  by_cases h : (r.1 == k && r.2.client == op.client && r.2.num == op.num) = true
  · simp only [h, if_true]
    simp only [Bool.and_eq_true, beq_iff_eq] at h
    exact h.1.1.symm
  · simp only [bfalse h, Bool.false_eq_true, if_false]

theorem updRowOp_snd (k : SKey) (op : SugOp) (r : SKey × SugOp) :
    (updRowOp k op r).2 = if r.1 == k then updC op r.2 else r.2 := by
  unfold updRowOp updC
  by_cases hk : (r.1 == k) = true
  · simp only [hk, Bool.true_and, if_true]
    by_cases h : (r.2.client == op.client && r.2.num == op.num) = true
    · simp only [h, if_true]
    · simp only [bfalse h, Bool.false_eq_true, if_false]
  · simp only [bfalse hk, Bool.false_and, Bool.false_eq_true, if_false]

theorem opRows_update (ops : List (SKey × SugOp)) (k key : SKey) (op : SugOp) :
    ((ops.map (updRowOp k op)).filter (·.1 == key)).map (·.2) =
      if key = k then ((ops.filter (·.1 == k)).map (·.2)).map (updC op) else (ops.filter (·.1 == key)).map (·.2) := by
  induction ops with
  | nil => by_cases h : key = k <;> simp [h]
  | cons r rs ih =>
    simp only [List.map_cons, List.filter_cons, updRowOp_key]
    by_cases hr : (r.1 == key) = true
    · simp only [hr, if_true, List.map_cons, ih, updRowOp_snd]
      by_cases hk : key = k
      · subst hk
        simp only [hr, if_true, List.map_cons]
      · have : (r.1 == k) = false := beq_false_of_ne (fun e => hk ((beq_iff_eq.mp hr).symm.trans e))
        simp only [hk, if_false, this, Bool.false_eq_true]
    · simp only [bfalse hr, Bool.false_eq_true, if_false, ih]
      by_cases hk : key = k
      · subst hk
        simp only [bfalse hr, Bool.false_eq_true, if_false]
      · simp only [hk, if_false]

theorem updateOp_sim (q : Sql) (hw : WF q) (k : SKey) (op : SugOp) (hex : q.hasStudy k = true)
    (hop : (q.opsOf k op.client).any (·.num == op.num) = true) :
    (absQ q).updateOp k op = (q.updateOp k op).map absQ ∧
      ∀ q', q.updateOp k op = .ok q' → WF q' := by
  rw [hasStudy_iff_find] at hex
  obtain ⟨row, hrow⟩ := Option.isSome_iff_exists.mp hex
  have hrk : row.1 = k := by simpa using List.find?_some hrow
  have hne : q.opsOf k op.client ≠ [] := by
    intro e; rw [e] at hop; simp at hop
  have hm : op.client ∈ (opRows q k).map (·.client) := by
    rw [client_mem_iff]; rw [sql_opsOf_eq] at hne; exact hne
  have hO : (q.ops.map fun r => if r.1 == k && r.2.client == op.client && r.2.num == op.num then (k, op) else r) =
      q.ops.map (updRowOp k op) := rfl
  constructor
  · unfold Ram.updateOp Sql.updateOp
    rw [node_absQ q hw, hrow]
    simp only [Option.map_some, hrk, opsOf_nodeOf, hm, if_true, hop]
    show Except.ok _ = Except.ok _
    congr 1
    rw [hO]
    have hset := setNode_clients q hw k row hrow (q.ops.map (updRowOp k op)) (by
        intro key hne'
        apply clientsOf_congr
        have := opRows_update q.ops k key op
        simp only [hne', if_false] at this
        exact this)
    rw [← hset]
    congr 1
    rw [hrk]
    -- node level
    have hcl : clientsOf (q.ops.map (updRowOp k op)) k =
        ((firstSeen (((opRows q k).map (updC op)).map (·.client))).map
          fun c => (c, ((opRows q k).map (updC op)).filter (·.client == c))) := by
      unfold clientsOf
      have := opRows_update q.ops k k op
      simp only [if_true] at this
      simp only [this]
      rfl
    have hcs : ((opRows q k).map (updC op)).map (·.client) = (opRows q k).map (·.client) := by
      rw [List.map_map]
      apply List.map_congr_left
      intro x _
      exact updC_client op x
    rw [hcl, hcs]
    unfold RNode.setOps
    rw [opsOf_nodeOf]
    simp only [hm, if_true]
    show RNode.mk _ _ ((nodeOf q k row.2).clients.map _) = RNode.mk _ _ _
    rw [node_clients, List.map_map]
    congr 1
    apply List.map_congr_left
    intro c _
    simp only [Function.comp, filter_map_updC]
    by_cases hc : (c == op.client) = true
    · have e : c = op.client := beq_iff_eq.mp hc
      rw [e]
      simp only [beq_self_eq_true, if_true, sql_opsOf_eq]
      congr 1
      apply List.map_congr_left
      intro x hx
      have hxc : (x.client == op.client) = true := (List.mem_filter.mp hx).2
      unfold updC
      simp only [hxc, Bool.true_and]
    · simp only [bfalse hc, Bool.false_eq_true, if_false]
      congr 1
      have : ∀ x ∈ (opRows q k).filter (·.client == c), updC op x = x := by
        intro x hx
        have hxc : x.client = c := beq_iff_eq.mp (List.mem_filter.mp hx).2
        unfold updC
        have : (x.client == op.client) = false := by rw [hxc]; exact bfalse hc
        simp only [this, Bool.false_and, Bool.false_eq_true, if_false]
      rw [List.map_congr_left this]; simp
  · intro q' hq'
    unfold Sql.updateOp at hq'
    simp only [hop, if_true, Except.ok.injEq] at hq'
    subst hq'
    rw [hO]
    apply wf_ops q hw
    intro r hr
    obtain ⟨r0, hr0, e⟩ := List.mem_map.mp hr
    rw [← e, updRowOp_key]
    exact hw.noOrphanOps r0 hr0

/-! #### operation numbering: `len(ops)` (RAM) and `max(number)` (SQL) agree along service histories -/

/-- every (study, client) operation list is numbered 1, 2, 3, … in row order -/
def Numbered (q : Sql) : Prop :=
  ∀ (k : SKey) (c : String), (q.opsOf k c).map (·.num) = List.range' 1 (q.opsOf k c).length

theorem numbered_empty : Numbered Sql.empty := by intro k c; rfl

theorem numbered_of_ops_eq (q q' : Sql) (h : q'.ops = q.ops) (hn : Numbered q) : Numbered q' := by
  intro k c
  have : q'.opsOf k c = q.opsOf k c := by unfold Sql.opsOf; rw [h]
  rw [this]; exact hn k c

theorem opsOf_append (q : Sql) (k key : SKey) (op : SugOp) (c : String) :
    Sql.opsOf { q with ops := q.ops ++ [(k, op)] } key c =
      q.opsOf key c ++ (if k == key && op.client == c then [op] else []) := by
  unfold Sql.opsOf
  simp only [List.filter_append, List.map_append, List.filter_cons, List.filter_nil]
  by_cases h1 : (k == key) = true
  · by_cases h2 : (op.client == c) = true
    · simp [h1, h2]
    · simp [h1, bfalse h2]
  · simp [bfalse h1]

theorem numbered_append (q : Sql) (hn : Numbered q) (k : SKey) (op : SugOp)
    (hnum : op.num = (q.opsOf k op.client).length + 1) : Numbered { q with ops := q.ops ++ [(k, op)] } := by
  intro key c
  rw [opsOf_append]
  by_cases h : (k == key && op.client == c) = true
  · simp only [Bool.and_eq_true, beq_iff_eq] at h
    obtain ⟨hk, hc⟩ := h
    subst hk; subst hc
    simp only [beq_self_eq_true, Bool.and_self, if_true, List.map_append, List.map_cons, List.map_nil,
      List.length_append, List.length_cons, List.length_nil, hn k op.client, hnum]
    rw [List.range'_concat]
    simp [Nat.add_comm]
  · simp only [bfalse h, Bool.false_eq_true, if_false, List.append_nil]
    exact hn key c

theorem updC_num (op x : SugOp) : (updC op x).num = x.num := by
  unfold updC
  by_cases h : (x.client == op.client && x.num == op.num) = true
  · simp only [h, if_true]
    simp only [Bool.and_eq_true, beq_iff_eq] at h
    exact h.2.symm
  · simp only [bfalse h, Bool.false_eq_true, if_false]

theorem opsOf_update (q : Sql) (k key : SKey) (op : SugOp) (c : String) :
    Sql.opsOf { q with ops := q.ops.map (updRowOp k op) } key c =
      if key = k then (q.opsOf k c).map (updC op) else q.opsOf key c := by
  unfold Sql.opsOf
  show (((q.ops.map (updRowOp k op)).filter (·.1 == key)).map (·.2)).filter (·.client == c) = _
  rw [opRows_update]
  by_cases hk : key = k
  · simp only [hk, if_true, filter_map_updC]
  · simp only [hk, if_false]

theorem numbered_update (q : Sql) (hn : Numbered q) (k : SKey) (op : SugOp) :
    Numbered { q with ops := q.ops.map (updRowOp k op) } := by
  intro key c
  rw [opsOf_update]
  by_cases hk : key = k
  · simp only [hk, if_true, List.map_map, List.length_map]
    have : ((fun (x : SugOp) => x.num) ∘ updC op) = fun x => x.num := by funext x; exact updC_num op x
    rw [this]; exact hn k c
  · simp only [hk, if_false]; exact hn key c

theorem numbered_delete (q : Sql) (hn : Numbered q) (k : SKey) (S' : List (SKey × Head)) (T' : List (SKey × Trial)) :
    Numbered { q with studies := S', trials := T', ops := q.ops.filter (·.1 != k) } := by
  intro key c
  have : Sql.opsOf { q with studies := S', trials := T', ops := q.ops.filter (·.1 != k) } key c =
      if key = k then [] else q.opsOf key c := by
    unfold Sql.opsOf
    by_cases hk : key = k
    · subst hk
      have : (q.ops.filter (·.1 != key)).filter (·.1 == key) = [] := by
        rw [List.filter_eq_nil_iff]
        intro r hr he
        have h1 := (List.mem_filter.mp hr).2
        have h2 : r.1 = key := beq_iff_eq.mp he
        simp [h2] at h1
      simp [this]
    · simp only [hk, if_false]
      show (((q.ops.filter (·.1 != k)).filter (·.1 == key)).map (·.2)).filter _ = _
      rw [filter_ne_other q.ops k key hk]
  rw [this]
  by_cases hk : key = k
  · simp [hk]
  · simp only [hk, if_false]; exact hn key c

/-- `try: max_suggestion_operation_number(...) except NotFoundError: 0` -/
def orZero : Except DsErr Nat → Nat
  | .ok n => n
  | .error _ => 0

theorem sql_maxOp_numbered (q : Sql) (hn : Numbered q) (k : SKey) (c : String) :
    orZero (q.maxOpNumber k c) = (q.opsOf k c).length := by
  unfold Sql.maxOpNumber orZero
  cases hl : q.opsOf k c with
  | nil => rfl
  | cons x xs =>
    simp only
    have := len_eq_max_of_numbered (q.opsOf k c) (hn k c)
    rw [hl] at this
    exact this

theorem getOp_ok_any (q : Sql) (k : SKey) (c : String) (num : Nat) (o : SugOp) (h : q.getOp k c num = .ok o) :
    (q.opsOf k c).any (·.num == num) = true := by
  unfold Sql.getOp at h
  cases hf : (q.opsOf k c).find? (·.num == num) with
  | none => rw [hf] at h; cases h
  | some x =>
    rw [List.any_eq_true]
    exact ⟨x, List.mem_of_find?_eq_some hf, by have := List.find?_some hf; exact this⟩

theorem hasStudy_of_op (q : Sql) (hw : WF q) (k : SKey) (c : String) (h : q.opsOf k c ≠ []) : q.hasStudy k = true := by
  unfold Sql.opsOf at h
  have : (q.ops.filter (·.1 == k)) ≠ [] := by
    intro e; rw [e] at h; exact h rfl
  obtain ⟨r, hr⟩ := List.exists_mem_of_ne_nil _ this
  have hr' := List.mem_filter.mp hr
  have := hw.noOrphanOps r hr'.1
  rw [beq_iff_eq.mp hr'.2] at this
  exact this

end VizierModel.Stores
