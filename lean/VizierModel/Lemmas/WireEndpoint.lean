/-
C09 lemmas: `StudyConfig.pythia_endpoint` as a view of one metadata entry.
-/
import VizierModel.Model.WireEndpoint
import VizierModel.Lemmas.WireStudy

namespace VizierModel.Wire
open VizierModel

/-! ### insBy / modifyD: lookups, fixed points, key lists -/

theorem find_insBy (k : String) (v : MdVal) (l : List (String × MdVal)) :
    (insBy Prod.fst (k, v) l).find? (fun e => e.1 == k) = some (k, v) := by
  induction l with
  | nil => simp [insBy]
  | cons x xs ih =>
    unfold insBy
    by_cases h : x.1 = k
    · simp [h]
    · simp only [h, if_false]
      rw [List.find?_cons_of_neg (by simpa using h)]
      exact ih

theorem insBy_of_find (k : String) (v : MdVal) (l : List (String × MdVal))
    (h : (l.find? (fun e => e.1 == k)).map Prod.snd = some v) : insBy Prod.fst (k, v) l = l := by
  induction l with
  | nil => simp at h
  | cons x xs ih =>
    unfold insBy
    by_cases hx : x.1 = k
    · rw [List.find?_cons_of_pos (by simpa using hx)] at h
      simp only [Option.map_some, Option.some.injEq] at h
      obtain ⟨a, b⟩ := x
      simp only at hx h
      subst hx; subst h
      simp
    · rw [List.find?_cons_of_neg (by simpa using hx)] at h
      simp only [hx, if_false]
      rw [ih h]

theorem insBy_keys (k : String) (v : MdVal) (l : List (String × MdVal)) :
    (insBy Prod.fst (k, v) l).map Prod.fst = if k ∈ l.map Prod.fst then l.map Prod.fst else l.map Prod.fst ++ [k] := by
  induction l with
  | nil => simp [insBy]
  | cons x xs ih =>
    unfold insBy
    by_cases hx : x.1 = k
    · simp [hx]
    · simp only [hx, if_false, List.map_cons, ih, List.mem_cons]
      have : ¬ k = x.1 := fun h => hx h.symm
      by_cases hm : k ∈ xs.map Prod.fst <;> simp [hm, this]

theorem insBy_keys_nodup (k : String) (v : MdVal) (l : List (String × MdVal)) (h : (l.map Prod.fst).Nodup) :
    ((insBy Prod.fst (k, v) l).map Prod.fst).Nodup := by
  rw [insBy_keys]
  by_cases hm : k ∈ l.map Prod.fst
  · simpa [hm] using h
  · simp only [hm, if_false]
    exact List.nodup_append.mpr ⟨h, by simp, by
      intro a ha b hb
      simp only [List.mem_singleton] at hb
      subst hb
      exact fun e => hm (e ▸ ha)⟩

/-! ### mdLookup / mdSet -/

theorem mdLookup_nil (ns : Ns) (k : String) : mdLookup [] ns k = none := rfl

theorem mdLookup_cons_pos (g : Ns × List (String × MdVal)) (md : Md) (ns : Ns) (k : String) (h : g.1 = ns) :
    mdLookup (g :: md) ns k = (g.2.find? (fun e => e.1 == k)).map Prod.snd := by
  unfold mdLookup
  rw [List.find?_cons_of_pos (by simpa using h)]

theorem mdLookup_cons_neg (g : Ns × List (String × MdVal)) (md : Md) (ns : Ns) (k : String) (h : g.1 ≠ ns) :
    mdLookup (g :: md) ns k = mdLookup md ns k := by
  unfold mdLookup
  rw [List.find?_cons_of_neg (by simpa using h)]

theorem mdLookup_of_not_mem (md : Md) (ns : Ns) (k : String) (h : ns ∉ md.map Prod.fst) :
    mdLookup md ns k = none := by
  induction md with
  | nil => rfl
  | cons g rest ih =>
    have hg : g.1 ≠ ns := fun e => h (by simp [e])
    rw [mdLookup_cons_neg g rest ns k hg]
    exact ih (fun hm => h (by simp [hm]))

theorem mdSet_nil (ns : Ns) (k : String) (v : MdVal) : mdSet [] ns k v = [(ns, [(k, v)])] := rfl

theorem mdSet_cons_pos (g : Ns × List (String × MdVal)) (md : Md) (ns : Ns) (k : String) (v : MdVal) (h : g.1 = ns) :
    mdSet (g :: md) ns k v = (g.1, insBy Prod.fst (k, v) g.2) :: md := by
  obtain ⟨n, es⟩ := g
  simp only at h
  subst h
  simp [mdSet, groupIns, modifyD]

theorem mdSet_cons_neg (g : Ns × List (String × MdVal)) (md : Md) (ns : Ns) (k : String) (v : MdVal) (h : g.1 ≠ ns) :
    mdSet (g :: md) ns k v = g :: mdSet md ns k v := by
  obtain ⟨n, es⟩ := g
  simp only [ne_eq] at h
  simp [mdSet, groupIns, modifyD, h]

/-- reading back what was just stored -/
theorem mdLookup_mdSet (md : Md) (ns : Ns) (k : String) (v : MdVal) :
    mdLookup (mdSet md ns k v) ns k = some v := by
  induction md with
  | nil => simp [mdSet_nil, mdLookup_cons_pos, insBy]
  | cons g rest ih =>
    by_cases h : g.1 = ns
    · rw [mdSet_cons_pos g rest ns k v h, mdLookup_cons_pos _ _ _ _ (by simpa using h), find_insBy]; rfl
    · rw [mdSet_cons_neg g rest ns k v h, mdLookup_cons_neg g _ ns k h]; exact ih

/-- storing the value that is already there changes nothing (position included) -/
theorem mdSet_of_mdLookup (md : Md) (ns : Ns) (k : String) (v : MdVal) (h : mdLookup md ns k = some v) :
    mdSet md ns k v = md := by
  induction md with
  | nil => simp [mdLookup_nil] at h
  | cons g rest ih =>
    by_cases hg : g.1 = ns
    · rw [mdLookup_cons_pos g rest ns k hg] at h
      rw [mdSet_cons_pos g rest ns k v hg, insBy_of_find k v g.2 h]
    · rw [mdLookup_cons_neg g rest ns k hg] at h
      rw [mdSet_cons_neg g rest ns k v hg, ih h]

theorem mdSet_keys (md : Md) (ns : Ns) (k : String) (v : MdVal) :
    (mdSet md ns k v).map Prod.fst = if ns ∈ md.map Prod.fst then md.map Prod.fst else md.map Prod.fst ++ [ns] := by
  induction md with
  | nil => simp [mdSet_nil]
  | cons g rest ih =>
    by_cases hg : g.1 = ns
    · rw [mdSet_cons_pos g rest ns k v hg]; simp [hg]
    · rw [mdSet_cons_neg g rest ns k v hg]
      simp only [List.map_cons, ih, List.mem_cons]
      have : ¬ ns = g.1 := fun e => hg e.symm
      by_cases hm : ns ∈ rest.map Prod.fst <;> simp [hm, this]

theorem mem_mdSet (md : Md) (ns : Ns) (k : String) (v : MdVal) (g : Ns × List (String × MdVal))
    (hg : g ∈ mdSet md ns k v) :
    g ∈ md ∨ (g.1 = ns ∧ ∃ es, ((ns, es) ∈ md ∨ es = []) ∧ g.2 = insBy Prod.fst (k, v) es) := by
  induction md with
  | nil =>
    rw [mdSet_nil] at hg
    simp only [List.mem_singleton] at hg
    subst hg
    exact Or.inr ⟨rfl, [], Or.inr rfl, rfl⟩
  | cons x rest ih =>
    by_cases hx : x.1 = ns
    · rw [mdSet_cons_pos x rest ns k v hx] at hg
      rcases List.mem_cons.mp hg with h | h
      · subst h
        refine Or.inr ⟨hx, x.2, Or.inl ?_, rfl⟩
        obtain ⟨a, b⟩ := x
        simp only at hx
        subst hx
        simp
      · exact Or.inl (List.mem_cons_of_mem _ h)
    · rw [mdSet_cons_neg x rest ns k v hx] at hg
      rcases List.mem_cons.mp hg with h | h
      · exact Or.inl (by simp [h])
      · rcases ih h with h' | ⟨h1, es, h2, h3⟩
        · exact Or.inl (List.mem_cons_of_mem _ h')
        · refine Or.inr ⟨h1, es, ?_, h3⟩
          rcases h2 with h2 | h2
          · exact Or.inl (List.mem_cons_of_mem _ h2)
          · exact Or.inr h2

/-- well-formed metadata stays well formed when an entry is stored under a namespace without a trailing backslash -/
theorem MdWF_mdSet (md : Md) (h : MdWF md) (ns : Ns) (hns : NS.trailingBS ns = false) (k : String) (v : MdVal) :
    MdWF (mdSet md ns k v) := by
  refine ⟨?_, ?_, ?_⟩
  · rw [mdSet_keys]
    by_cases hm : ns ∈ md.map Prod.fst
    · simpa [hm] using h.ns_nodup
    · simp only [hm, if_false]
      exact List.nodup_append.mpr ⟨h.ns_nodup, by simp, by
        intro a ha b hb
        simp only [List.mem_singleton] at hb
        subst hb
        exact fun e => hm (e ▸ ha)⟩
  · intro g hg
    rcases mem_mdSet md ns k v g hg with h' | ⟨_, es, h2, h3⟩
    · exact h.keys_nodup g h'
    · rw [h3]
      apply insBy_keys_nodup
      rcases h2 with h2 | h2
      · exact h.keys_nodup _ h2
      · subst h2; simp
  · intro g hg
    rcases mem_mdSet md ns k v g hg with h' | ⟨h1, _, _, _⟩
    · exact h.no_trailing_bs g h'
    · rw [h1]; exact hns

/-! ### the reader's view commutes with the lookup -/

theorem find_map_norm (k : String) (l : List (String × MdVal)) :
    ((l.map fun e => (e.1, mdValNorm e.2)).find? (fun e => e.1 == k)).map Prod.snd
      = ((l.find? (fun e => e.1 == k)).map Prod.snd).map mdValNorm := by
  induction l with
  | nil => rfl
  | cons x xs ih =>
    by_cases hx : x.1 = k
    · rw [List.map_cons, List.find?_cons_of_pos (by simpa using hx), List.find?_cons_of_pos (by simpa using hx)]; rfl
    · rw [List.map_cons, List.find?_cons_of_neg (by simpa using hx), List.find?_cons_of_neg (by simpa using hx)]
      exact ih

theorem mdLookup_mdNorm (md : Md) (hnd : (md.map Prod.fst).Nodup) (ns : Ns) (k : String) :
    mdLookup (mdNorm md) ns k = (mdLookup md ns k).map mdValNorm := by
  induction md with
  | nil => rfl
  | cons g rest ih =>
    have hnd' : (rest.map Prod.fst).Nodup := (List.nodup_cons.mp (by simpa using hnd)).2
    have hnot : g.1 ∉ rest.map Prod.fst := (List.nodup_cons.mp (by simpa using hnd)).1
    rw [mdNorm_cons]
    by_cases hg : g.1 = ns
    · rw [mdLookup_cons_pos g rest ns k hg]
      by_cases he : g.2.isEmpty
      · simp only [he, if_true, List.nil_append]
        rw [ih hnd', mdLookup_of_not_mem rest ns k (hg ▸ hnot)]
        have : g.2 = [] := by simpa using he
        rw [this]; rfl
      · simp only [he, Bool.false_eq_true, if_false, List.singleton_append]
        rw [mdLookup_cons_pos _ _ ns k (by simpa using hg)]
        exact find_map_norm k g.2
    · rw [mdLookup_cons_neg g rest ns k hg]
      by_cases he : g.2.isEmpty
      · simp only [he, if_true, List.nil_append]; exact ih hnd'
      · simp only [he, Bool.false_eq_true, if_false, List.singleton_append]
        rw [mdLookup_cons_neg _ _ ns k (by simpa using hg)]; exact ih hnd'

theorem endpointNs_no_trailing_bs : NS.trailingBS endpointNs = false := by decide

/-! ### the study config with its endpoint -/

structure StudyEOk (cfg : Cfg) (s : StudyE) : Prop where
  base : StudyOk cfg s.base
  sorted : MetricsSorted s.base.metrics

/-- `from_proto(to_proto(x))` is what a reader of `x` sees (repaired write order) -/
theorem studyE_roundtrip (cfg : Cfg) (s : StudyE) (h : StudyEOk cfg s) :
    studyEFromProto cfg (studyEToProto cfg true s) = studyENorm s := by
  obtain ⟨b, e⟩ := s
  cases e with
  | none =>
    simp only [studyEToProto, studyEFromProto, studyENorm]
    rw [study_roundtrip cfg b h.base h.sorted]
  | some v =>
    simp only [studyEToProto, studyEFromProto, studyENorm, if_true]
    have hok : StudyOk cfg { b with metadata := mdSet b.metadata endpointNs endpointKey v } :=
      ⟨h.base.space, h.base.metrics, MdWF_mdSet _ h.base.metadata _ endpointNs_no_trailing_bs _ _⟩
    rw [study_roundtrip cfg _ hok h.sorted]

/-- a configured endpoint comes back (a protobuf value as the `Any` it was packed into) -/
theorem studyE_endpoint_kept (s : StudyE) (v : MdVal) (hmd : MdWF s.base.metadata) (hv : s.endpoint = some v) :
    (studyENorm s).endpoint = some (mdValNorm v) := by
  obtain ⟨b, e⟩ := s
  simp only at hv
  subst hv
  simp only [studyENorm, studyNorm]
  rw [mdLookup_mdNorm _ (MdWF_mdSet _ hmd _ endpointNs_no_trailing_bs _ _).ns_nodup, mdLookup_mdSet]
  rfl

/-- without a configured endpoint the view shows the metadata entry, if there is one -/
theorem studyE_endpoint_view (s : StudyE) (hmd : MdWF s.base.metadata) (hv : s.endpoint = none) :
    (studyENorm s).endpoint = (mdLookup s.base.metadata endpointNs endpointKey).map mdValNorm := by
  obtain ⟨b, e⟩ := s
  simp only at hv
  subst hv
  simp only [studyENorm, studyNorm]
  rw [mdLookup_mdNorm _ hmd.ns_nodup]

/-- converting what a reader sees gives the same message -/
theorem studyEToProto_studyENorm (cfg : Cfg) (s : StudyE) (hmd : MdWF s.base.metadata) :
    studyEToProto cfg true (studyENorm s) = studyEToProto cfg true s := by
  obtain ⟨b, e⟩ := s
  cases e with
  | none =>
    simp only [studyENorm]
    cases hl : mdLookup (studyNorm b).metadata endpointNs endpointKey with
    | none => simp only [studyEToProto]; exact studyToProto_studyNorm cfg b
    | some w =>
      simp only [studyEToProto, if_true]
      rw [mdSet_of_mdLookup _ _ _ _ hl]
      exact studyToProto_studyNorm cfg b
  | some v =>
    simp only [studyENorm]
    have hl : mdLookup (studyNorm { b with metadata := mdSet b.metadata endpointNs endpointKey v }).metadata endpointNs endpointKey
        = some (mdValNorm v) := by
      simp only [studyNorm]
      rw [mdLookup_mdNorm _ (MdWF_mdSet _ hmd _ endpointNs_no_trailing_bs _ _).ns_nodup, mdLookup_mdSet]; rfl
    rw [hl]
    simp only [studyEToProto, if_true]
    rw [mdSet_of_mdLookup _ _ _ _ hl]
    exact studyToProto_studyNorm cfg { b with metadata := mdSet b.metadata endpointNs endpointKey v }

end VizierModel.Wire
