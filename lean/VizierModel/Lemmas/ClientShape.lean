/-
Lemmas for `Props/ClientShape.lean`: what `admits` / `admitsPrefix` accept, the RPC names of the requests
`clientExec` issues, and the soundness of the "at most one writing RPC" criterion.  Core Lean only.
-/
import VizierModel.Model.ClientShape

namespace VizierModel.ClientShape
open VizierModel VizierModel.Svc VizierModel.Client

/-! ### `loopAdmits`, `admits`, `admitsPrefix` -/

theorem loopAdmits_replicate (r : String) (k : List String → Bool) (hk : k [] = true) :
    ∀ n : Nat, loopAdmits r k (List.replicate n r) = true
  | 0 => by simpa [loopAdmits] using hk
  | n + 1 => by
    simp only [List.replicate_succ, loopAdmits, beq_self_eq_true, Bool.true_and, Bool.or_eq_true]
    exact Or.inr (loopAdmits_replicate r k hk n)

theorem admitsPrefix_nil (sh : Shape) : admitsPrefix sh [] = true := by
  cases sh <;> rfl

/-- the `loop` equation of `admitsPrefix` holds for the empty sequence as well -/
theorem admitsPrefix_loop (r : String) (rest : Shape) (s : List String) :
    admitsPrefix ((r, .loop) :: rest) s = loopAdmits r (admitsPrefix rest) s := by
  cases s with
  | nil => simp [admitsPrefix, loopAdmits, admitsPrefix_nil]
  | cons x xs => rfl

/-- a complete run is in particular a run that may have been cut short -/
theorem loopAdmits_mono (r : String) (k k' : List String → Bool) (hkk : ∀ s, k s = true → k' s = true) :
    ∀ s, loopAdmits r k s = true → loopAdmits r k' s = true
  | [], h => by simp only [loopAdmits] at h ⊢; exact hkk _ h
  | x :: xs, h => by
    simp only [loopAdmits, Bool.or_eq_true, Bool.and_eq_true] at h ⊢
    rcases h with h | ⟨hx, h⟩
    · exact Or.inl (hkk _ h)
    · exact Or.inr ⟨hx, loopAdmits_mono r k k' hkk xs h⟩

theorem admits_admitsPrefix : ∀ (sh : Shape) (s : List String), admits sh s = true → admitsPrefix sh s = true
  | [], [], _ => rfl
  | [], _ :: _, h => by simp [admits] at h
  | (r, .once) :: rest, [], _ => rfl
  | (r, .once) :: rest, x :: xs, h => by
    simp only [admits, admitsPrefix, Bool.and_eq_true] at h ⊢
    exact ⟨h.1, admits_admitsPrefix rest xs h.2⟩
  | (r, .cond) :: rest, [], _ => rfl
  | (r, .cond) :: rest, x :: xs, h => by
    simp only [admits, admitsPrefix, Bool.or_eq_true, Bool.and_eq_true] at h ⊢
    rcases h with h | ⟨hx, h⟩
    · exact Or.inl (admits_admitsPrefix rest _ h)
    · exact Or.inr ⟨hx, admits_admitsPrefix rest xs h⟩
  | (r, .loop) :: rest, s, h => by
    rw [admitsPrefix_loop]
    simp only [admits] at h
    exact loopAdmits_mono r _ _ (admits_admitsPrefix rest) s h

/-! ### the writing RPCs of an admitted sequence -/

theorem writeCount_cons (x : String) (xs : List String) :
    writeCount (x :: xs) = (if isWriting x then 1 else 0) + writeCount xs := by
  unfold writeCount
  rw [List.filter_cons]
  split <;> simp [Nat.add_comm]

theorem writes_length_cons (e : String × Mult) (rest : Shape) :
    (writes (e :: rest)).length = (if isWriting e.1 then 1 else 0) + (writes rest).length := by
  unfold writes
  rw [List.filter_cons]
  split <;> simp [Nat.add_comm]

theorem loopAdmits_writeCount (r : String) (hr : isWriting r = false) (k : List String → Bool) (n : Nat)
    (hk : ∀ s, k s = true → writeCount s ≤ n) : ∀ s, loopAdmits r k s = true → writeCount s ≤ n
  | [], h => hk [] (by simpa [loopAdmits] using h)
  | x :: xs, h => by
    simp only [loopAdmits, Bool.or_eq_true, Bool.and_eq_true, beq_iff_eq] at h
    rcases h with h | ⟨hx, h⟩
    · exact hk _ h
    · have := loopAdmits_writeCount r hr k n hk xs h
      rw [writeCount_cons, hx, hr]
      simpa using this

/-- **Soundness of the criterion**: a (possibly cut short) run of a method whose shape has no writing RPC in a loop
    contains at most as many writing RPCs as the shape has writing places. -/
theorem admitsPrefix_writeCount : ∀ (sh : Shape) (s : List String), noWritingLoop sh = true →
    admitsPrefix sh s = true → writeCount s ≤ (writes sh).length
  | _, [], _, _ => Nat.zero_le _
  | [], _ :: _, _, h => by simp [admitsPrefix] at h
  | (r, .once) :: rest, x :: xs, hn, h => by
    simp only [admitsPrefix, Bool.and_eq_true, beq_iff_eq] at h
    have hn' : noWritingLoop rest = true := by
      simp only [noWritingLoop, List.all_cons, Bool.and_eq_true] at hn ⊢; exact hn.2
    have := admitsPrefix_writeCount rest xs hn' h.2
    rw [writeCount_cons, writes_length_cons, h.1]
    exact Nat.add_le_add_left this _
  | (r, .cond) :: rest, x :: xs, hn, h => by
    simp only [admitsPrefix, Bool.or_eq_true, Bool.and_eq_true, beq_iff_eq] at h
    have hn' : noWritingLoop rest = true := by
      simp only [noWritingLoop, List.all_cons, Bool.and_eq_true] at hn ⊢; exact hn.2
    rw [writes_length_cons]
    rcases h with h | ⟨hx, h⟩
    · exact Nat.le_trans (admitsPrefix_writeCount rest _ hn' h) (Nat.le_add_left _ _)
    · have := admitsPrefix_writeCount rest xs hn' h
      rw [writeCount_cons, hx]
      exact Nat.add_le_add_left this _
  | (r, .loop) :: rest, x :: xs, hn, h => by
    have hn' : noWritingLoop rest = true := by
      simp only [noWritingLoop, List.all_cons, Bool.and_eq_true] at hn ⊢; exact hn.2
    have hr : isWriting r = false := by
      simp only [noWritingLoop, List.all_cons, Bool.and_eq_true] at hn
      have := hn.1
      cases hw : isWriting r with
      | false => rfl
      | true => simp [hw] at this
    rw [writes_length_cons]
    simp only [admitsPrefix] at h
    have := loopAdmits_writeCount r hr (admitsPrefix rest) (writes rest).length
      (fun s hs => admitsPrefix_writeCount rest s hn' hs) (x :: xs) h
    exact Nat.le_trans this (Nat.le_add_left _ _)

theorem oneWrite_writeCount (sh : Shape) (s : List String) (h1 : oneWrite sh = true) (h : admitsPrefix sh s = true) :
    writeCount s ≤ 1 := by
  simp only [oneWrite, Bool.and_eq_true, decide_eq_true_eq] at h1
  exact Nat.le_trans (admitsPrefix_writeCount sh s h1.2 h) h1.1

theorem lookup_mem {tbl : Table} {m : String} {sh : Shape} (h : lookup tbl m = some sh) : ∃ e ∈ tbl, e.2 = sh := by
  unfold lookup at h
  cases hf : tbl.find? (·.1 == m) with
  | none => simp [hf] at h
  | some e =>
    simp only [hf, Option.map_some, Option.some.injEq] at h
    exact ⟨e, List.mem_of_find?_eq_some hf, h⟩

/-- tables that satisfy the two criteria: every run - complete or cut short - of every method they describe, of
    `VizierClient` or of the facade, contains at most ONE writing RPC -/
theorem conformsPrefix_writeCount (cs fs : Table) (hc : atMostOneWrite cs = true)
    (hf : facadeAtMostOneWrite cs fs = true) (m : Method) (s : List String)
    (h : conformsPrefix cs fs m s = true) : writeCount s ≤ 1 := by
  unfold conformsPrefix at h
  cases hs : shapeOf cs fs m with
  | none => simp [hs] at h
  | some sh =>
    simp only [hs] at h
    refine oneWrite_writeCount sh s ?_ h
    cases m with
    | client name =>
      obtain ⟨e, he, rfl⟩ := lookup_mem (show lookup cs name = some sh from hs)
      exact (List.all_eq_true.mp hc) e he
    | facade name =>
      simp only [shapeOf] at hs
      cases hl : lookup fs name with
      | none => simp [hl] at hs
      | some calls =>
        simp only [hl, Option.bind_some] at hs
        obtain ⟨e, he, rfl⟩ := lookup_mem hl
        have := (List.all_eq_true.mp hf) e he
        simp only [hs] at this
        exact this

/-! ### the RPC names of the requests a client call issues -/

theorem poll_names (cfg : Cfg) (h : Handle) : ∀ (fuel : Nat) (o : SugOp) (handed : List Trial) (db : DB),
    ∃ n, rpcNames (poll cfg h fuel o handed db).2.1 = List.replicate n "GetOperation"
  | 0, o, handed, db => ⟨0, rfl⟩
  | fuel + 1, o, handed, db => by
    unfold poll
    split
    · exact ⟨0, rfl⟩
    · simp only
      split
      · rename_i o' handed' _
        obtain ⟨n, hn⟩ := poll_names cfg h fuel o' handed' (step cfg db (Req.getOperation h.owner h.sid o.client o.num)).2
        refine ⟨n + 1, ?_⟩
        simp only [rpcNames, List.map_cons, List.replicate_succ] at hn ⊢
        rw [hn]
        rfl
      · exact ⟨1, rfl⟩

theorem getSuggestionsAs_names (cfg : Cfg) (fuel : Nat) (h : Handle) (count : Nat) (w : String) (alg : AlgOutcome) (db : DB) :
    ∃ n, rpcNames (getSuggestionsAs cfg fuel h count w alg db).reqs = "SuggestTrials" :: List.replicate n "GetOperation" := by
  unfold getSuggestionsAs
  simp only
  split
  · rename_i o handed _
    obtain ⟨n, hn⟩ := poll_names cfg h fuel o handed (step cfg db (Req.suggest h.owner h.sid w count alg)).2
    refine ⟨n, ?_⟩
    simp only [rpcNames, List.map_cons] at hn ⊢
    rw [hn]
    rfl
  · exact ⟨0, rfl⟩

/-- what `SuggestTrials`, then `GetOperation` any number of times, is admitted by -/
theorem suggest_shape_admits (n : Nat) :
    admits [("SuggestTrials", .once), ("GetOperation", .loop)] ("SuggestTrials" :: List.replicate n "GetOperation") = true := by
  simp only [admits, beq_self_eq_true, Bool.true_and]
  exact loopAdmits_replicate _ _ rfl n

/-- the requests of `Study.add_trial`: GetStudy alone (it failed, or the trial is outside the search space), or
    GetStudy and CreateTrial -/
theorem addTrial_names (cfg : Cfg) (fuel : Nat) (h : Handle) (params : Nat) (final : Option Meas) (inSpace : Bool) (db : DB) :
    (rpcNames (clientExec cfg fuel h (.addTrial params final inSpace) db).reqs = ["GetStudy"] ∧
      returned (clientExec cfg fuel h (.addTrial params final inSpace) db).obs = false) ∨
    rpcNames (clientExec cfg fuel h (.addTrial params final inSpace) db).reqs = ["GetStudy", "CreateTrial"] := by
  simp only [clientExec]
  split
  · exact Or.inl ⟨rfl, rfl⟩
  · split
    · exact Or.inl ⟨rfl, rfl⟩
    · exact Or.inr rfl

end VizierModel.ClientShape
