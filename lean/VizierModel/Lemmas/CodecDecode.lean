/-
Decoding one block of array entries always yields a value inside the parameter's domain
(`decodeBlock_inDomain`), over an ordered field with abstract `log`/`exp`/finiteness.
-/
import VizierModel.Lemmas.CodecScaler

set_option linter.unusedSectionVars false
set_option linter.unusedSimpArgs false

namespace VizierModel.Codec

variable {α : Type} [Field α] [LinearOrder α] [IsStrictOrderedRing α]

/-! ### hypotheses -/

/-- Hypotheses on one block of array entries under which membership is claimed: the right
shape and dtype; for a continuous spec the un-scaled entry is finite in the carrier (this is
the hypothesis that fails for floats when `exp` / a huge range overflows — defect D11); for an
index spec the index is a Python list index of a feasible value (`-len ≤ i < len`). -/
def GoodBlock (ops : NumOps α) (cfg : Cfg) (p : Param α) (block : List (Feat α)) : Prop :=
  match specOf ops cfg p with
  | .continuous low high =>
    ∃ y, block = [.num y] ∧
      ops.finite (unscale ops cfg (branch ops cfg.scale low high p.scale) low high y) = true
  | .index n =>
    if cfg.onehot then ∃ xs, nums block = some xs ∧ xs.length = onehotDim cfg n
    else ∃ i : Int, block = [.idx i] ∧ -(n : Int) ≤ i ∧ i < n

/-- a well-formed parameter: non-empty domain, and for a DOUBLE parameter clipping is on
(`should_clip=True`, the default) -/
def ValidDom (cfg : Cfg) : Domain α → Prop
  | .double lo hi => lo ≤ hi ∧ cfg.shouldClip = true
  | .integer lo hi => lo ≤ hi
  | .discrete vs => vs ≠ []
  | .categorical cs => cs ≠ []

/-- … which the scaler accepts (`scaler_from_spec` raises for LOG with a negative bound) -/
def ValidParam (ops : NumOps α) (cfg : Cfg) (p : Param α) : Prop :=
  ValidDom cfg p.dom ∧
  match specOf ops cfg p with
  | .continuous low high => branch ops cfg.scale low high p.scale ≠ .invalid
  | .index _ => True

section
variable (lg ex : α → α) (fin : α → Bool)

/-! ### integer ranges and feasible values -/

theorem mem_intRange (lo hi i : Int) : i ∈ intRange lo hi ↔ lo ≤ i ∧ i ≤ hi := by
  unfold intRange
  simp only [List.mem_map, List.mem_range]
  constructor
  · rintro ⟨k, hk, rfl⟩; omega
  · rintro ⟨h1, h2⟩; exact ⟨(i - lo).toNat, by omega, by omega⟩

theorem intRange_ne_nil (lo hi : Int) (h : lo ≤ hi) : intRange lo hi ≠ [] := by
  intro hnil
  have : lo ∈ intRange lo hi := (mem_intRange lo hi lo).mpr ⟨le_refl _, h⟩
  rw [hnil] at this; cases this

theorem inDomain_integer (lo hi i : Int) (h1 : lo ≤ i) (h2 : i ≤ hi) :
    inDomain (fieldOps lg ex fin) (.integer lo hi) (.int i) = true := by
  simp [inDomain, h1, h2]

theorem inDomain_discrete (vs : List α) (x : α) (h : x ∈ vs) :
    inDomain (fieldOps lg ex fin) (.discrete vs) (.dbl x) = true := by
  simp only [inDomain, List.any_eq_true, fo_beq, decide_eq_true_eq]
  exact ⟨x, h, rfl⟩

theorem inDomain_categorical (cs : List String) (s : String) (h : s ∈ cs) :
    inDomain (fieldOps lg ex fin) (.categorical cs) (.str s) = true := by
  simp only [inDomain, List.any_eq_true, beq_iff_eq]
  exact ⟨s, h, rfl⟩

theorem inDomain_double (lo hi x : α) (h1 : lo ≤ x) (h2 : x ≤ hi) :
    inDomain (fieldOps lg ex fin) (.double lo hi) (.dbl x) = true := by
  simp [inDomain, h1, h2]

/-- a valid position of the feasible values holds a member of the domain -/
theorem feasibleAt_inDomain (d : Domain α) (n k : Nat) (hn : d.numFeasible = some n) (hk : k < n) :
    ∃ v, feasibleAt d k = some v ∧ inDomain (fieldOps lg ex fin) d v = true := by
  cases d with
  | double lo hi => simp [Domain.numFeasible] at hn
  | integer lo hi =>
    simp only [Domain.numFeasible, Option.some.injEq] at hn
    refine ⟨.int (lo + (k : Int)), ?_, ?_⟩
    · simp only [feasibleAt]; rw [if_pos (by omega)]
    · exact inDomain_integer lg ex fin lo hi _ (by omega) (by omega)
  | discrete vs =>
    simp only [Domain.numFeasible, Option.some.injEq] at hn
    have hk' : k < vs.length := by omega
    refine ⟨.dbl vs[k], ?_, inDomain_discrete lg ex fin vs _ (List.getElem_mem hk')⟩
    simp [feasibleAt, List.getElem?_eq_getElem hk']
  | categorical cs =>
    simp only [Domain.numFeasible, Option.some.injEq] at hn
    have hk' : k < cs.length := by omega
    refine ⟨.str cs[k], ?_, inDomain_categorical lg ex fin cs _ (List.getElem_mem hk')⟩
    simp [feasibleAt, List.getElem?_eq_getElem hk']

/-! ### `_to_parameter_value` -/

theorem tpv_double (cfg : Cfg) (lo hi v : α) (hv : fin v = true) :
    toParameterValue (fieldOps lg ex fin) cfg (.double lo hi) v =
      .ok (some (.dbl (if cfg.shouldClip then clip (fieldOps lg ex fin) v lo hi else v))) := by
  simp [toParameterValue, hv]

theorem tpv_integer (cfg : Cfg) (lo hi : Int) (v : α) (hv : fin v = true) (h : lo ≤ hi) :
    ∃ i, toParameterValue (fieldOps lg ex fin) cfg (.integer lo hi) v = .ok (some (.int i)) ∧ lo ≤ i ∧ i ≤ hi := by
  have hne : ((intRange lo hi).map fun i => ((fieldOps lg ex fin).cast ((fieldOps lg ex fin).ofInt i), i)) ≠ [] := by
    intro h0; exact intRange_ne_nil lo hi h (List.map_eq_nil_iff.mp h0)
  obtain ⟨i, hi'⟩ := nearest_isSome lg ex fin v _ hne
  have hmem := nearest_mem lg ex fin v _ i hi'
  simp only [List.map_map, List.mem_map, Function.comp] at hmem
  obtain ⟨j, hj, rfl⟩ := hmem
  refine ⟨j, ?_, (mem_intRange lo hi j).mp hj⟩
  simp only [fo_cast, fo_ofInt] at hi'
  simp [toParameterValue, hv, hi']

theorem tpv_discrete (cfg : Cfg) (vs : List α) (v : α) (hv : fin v = true) (h : vs ≠ []) :
    ∃ x, toParameterValue (fieldOps lg ex fin) cfg (.discrete vs) v = .ok (some (.dbl x)) ∧ x ∈ vs := by
  have hne : (vs.map fun x => ((fieldOps lg ex fin).cast x, x)) ≠ [] := by
    intro h0; exact h (List.map_eq_nil_iff.mp h0)
  obtain ⟨x, hx⟩ := nearest_isSome lg ex fin v _ hne
  have hmem := nearest_mem lg ex fin v _ x hx
  simp only [List.map_map, List.mem_map, Function.comp] at hmem
  obtain ⟨y, hy, rfl⟩ := hmem
  refine ⟨y, ?_, hy⟩
  simp only [fo_cast] at hx
  simp [toParameterValue, hv, hx]

/-! ### one block -/

theorem take_ne_nil {β : Type} (xs : List β) (n : Nat) (hn : 0 < n) (hl : n ≤ xs.length) : xs.take n ≠ [] := by
  intro h
  have := congrArg List.length h
  simp only [List.length_take, List.length_nil] at this
  omega

/-- an index spec (`n` feasible values) always decodes to a member of the domain -/
theorem decodeIndex_inDomain (cfg : Cfg) (p : Param α) (n : Nat) (block : List (Feat α))
    (hspec : specOf (fieldOps lg ex fin) cfg p = .index n) (hn : p.dom.numFeasible = some n) (hpos : 0 < n)
    (hg : GoodBlock (fieldOps lg ex fin) cfg p block) :
    ∃ v, decodeBlock (fieldOps lg ex fin) cfg p block = .ok (some v) ∧
      inDomain (fieldOps lg ex fin) p.dom v = true := by
  unfold GoodBlock at hg
  rw [hspec] at hg
  simp only at hg
  unfold decodeBlock
  rw [hspec]
  simp only
  by_cases hoh : cfg.onehot = true
  · rw [if_pos hoh] at hg ⊢
    obtain ⟨xs, hxs, hlen⟩ := hg
    rw [hxs]
    simp only [hlen, ne_eq, not_true_eq_false, if_false]
    have hle : n ≤ xs.length := by rw [hlen]; unfold onehotDim; omega
    have hk := argmax_lt lg ex fin (xs.take n) (take_ne_nil xs n hpos hle)
    rw [List.length_take, Nat.min_eq_left hle] at hk
    obtain ⟨v, hv1, hv2⟩ := feasibleAt_inDomain lg ex fin p.dom n _ hn hk
    exact ⟨v, by rw [hv1], hv2⟩
  · rw [if_neg hoh] at hg ⊢
    obtain ⟨i, hb, hi1, hi2⟩ := hg
    rw [hb]
    simp only
    rw [if_neg (by omega)]
    by_cases h0 : 0 ≤ i
    · rw [if_pos h0]
      obtain ⟨v, hv1, hv2⟩ := feasibleAt_inDomain lg ex fin p.dom n i.toNat hn (by omega)
      exact ⟨v, by rw [hv1], hv2⟩
    · rw [if_neg h0, if_pos hi1]
      obtain ⟨v, hv1, hv2⟩ := feasibleAt_inDomain lg ex fin p.dom n (i + n).toNat hn (by omega)
      exact ⟨v, by rw [hv1], hv2⟩

/-- a continuous spec decodes to a member of the domain as soon as the un-scaled entry is
finite: DOUBLE values are clipped, continuified INTEGER / DISCRETE values snap to the nearest
feasible value -/
theorem decodeCont_inDomain (cfg : Cfg) (p : Param α) (low high : α) (block : List (Feat α))
    (hspec : specOf (fieldOps lg ex fin) cfg p = .continuous low high)
    (hv : ValidParam (fieldOps lg ex fin) cfg p)
    (hg : GoodBlock (fieldOps lg ex fin) cfg p block) :
    ∃ v, decodeBlock (fieldOps lg ex fin) cfg p block = .ok (some v) ∧
      inDomain (fieldOps lg ex fin) p.dom v = true := by
  unfold GoodBlock at hg
  obtain ⟨hdom, hbr⟩ := hv
  rw [hspec] at hg hbr
  simp only at hg hbr
  obtain ⟨y, hb, hfin⟩ := hg
  unfold decodeBlock
  rw [hspec]
  simp only [hbr, if_false, hb]
  cases hd : p.dom with
  | double lo hi =>
    rw [hd] at hdom
    rw [tpv_double lg ex fin cfg lo hi _ hfin, hdom.2]
    refine ⟨_, rfl, ?_⟩
    have := clip_bounds lg ex fin (unscale (fieldOps lg ex fin) cfg (branch (fieldOps lg ex fin) cfg.scale low high p.scale) low high y) lo hi hdom.1
    exact inDomain_double lg ex fin lo hi _ this.1 this.2
  | integer lo hi =>
    rw [hd] at hdom
    obtain ⟨i, hi1, hi2, hi3⟩ := tpv_integer lg ex fin cfg lo hi _ hfin hdom
    exact ⟨_, hi1, inDomain_integer lg ex fin lo hi i hi2 hi3⟩
  | discrete vs =>
    rw [hd] at hdom
    obtain ⟨x, hx1, hx2⟩ := tpv_discrete lg ex fin cfg vs _ hfin hdom
    exact ⟨_, hx1, inDomain_discrete lg ex fin vs x hx2⟩
  | categorical cs =>
    exfalso
    simp [specOf, hd] at hspec

/-- MAIN per-parameter statement: any good block decodes to a value of the domain -/
theorem decodeBlock_inDomain (cfg : Cfg) (p : Param α) (block : List (Feat α))
    (hv : ValidParam (fieldOps lg ex fin) cfg p) (hg : GoodBlock (fieldOps lg ex fin) cfg p block) :
    ∃ v, decodeBlock (fieldOps lg ex fin) cfg p block = .ok (some v) ∧
      inDomain (fieldOps lg ex fin) p.dom v = true := by
  cases hs : specOf (fieldOps lg ex fin) cfg p with
  | continuous low high => exact decodeCont_inDomain lg ex fin cfg p low high block hs hv hg
  | index n =>
    have hdom := hv.1
    have key : p.dom.numFeasible = some n ∧ 0 < n := by
      cases hd : p.dom with
      | double lo hi => simp [specOf, hd] at hs
      | integer lo hi =>
        rw [hd] at hdom
        simp only [specOf, hd] at hs
        split at hs
        · cases hs
        · simp only [Spec.index.injEq] at hs
          simp only [ValidDom] at hdom
          exact ⟨by simp [Domain.numFeasible, hs], by omega⟩
      | discrete vs =>
        rw [hd] at hdom
        simp only [specOf, hd] at hs
        split at hs
        · cases hs
        · simp only [Spec.index.injEq] at hs
          simp only [ValidDom] at hdom
          exact ⟨by simp [Domain.numFeasible, hs], by rw [← hs]; exact List.length_pos_iff.mpr hdom⟩
      | categorical cs =>
        rw [hd] at hdom
        simp only [specOf, hd, Spec.index.injEq] at hs
        simp only [ValidDom] at hdom
        exact ⟨by simp [Domain.numFeasible, hs], by rw [← hs]; exact List.length_pos_iff.mpr hdom⟩
    exact decodeIndex_inDomain lg ex fin cfg p n block hs key.1 key.2 hg

/-- whenever the decoder returns a value at all, the block satisfied the hypotheses … -/
theorem goodBlock_of_some (cfg : Cfg) (p : Param α) (block : List (Feat α)) (v : PVal α)
    (h : decodeBlock (fieldOps lg ex fin) cfg p block = .ok (some v)) :
    GoodBlock (fieldOps lg ex fin) cfg p block := by
  unfold decodeBlock at h
  unfold GoodBlock
  cases hs : specOf (fieldOps lg ex fin) cfg p with
  | continuous low high =>
    rw [hs] at h
    simp only at h ⊢
    split at h
    · cases h
    · split at h
      · rename_i y
        refine ⟨y, rfl, ?_⟩
        unfold toParameterValue at h
        by_cases hf : fin (unscale (fieldOps lg ex fin) cfg (branch (fieldOps lg ex fin) cfg.scale low high p.scale) low high y) = true
        · exact hf
        · simp only [fo_finite, hf, Bool.not_false, if_true, Except.ok.injEq] at h
          cases h
      · cases h
  | index n =>
    rw [hs] at h
    simp only at h ⊢
    by_cases hoh : cfg.onehot = true
    · rw [if_pos hoh] at h ⊢
      split at h
      · cases h
      · rename_i xs hxs
        split at h
        · cases h
        · rename_i hlen
          exact ⟨xs, hxs, by simpa using hlen⟩
    · rw [if_neg hoh] at h ⊢
      split at h
      · rename_i i
        refine ⟨i, rfl, ?_⟩
        by_cases h1 : (n : Int) ≤ i
        · rw [if_pos h1] at h; cases h
        · rw [if_neg h1] at h
          by_cases h2 : 0 ≤ i
          · omega
          · rw [if_neg h2] at h
            by_cases h3 : -(n : Int) ≤ i
            · omega
            · rw [if_neg h3] at h; cases h
      · cases h

/-- … hence a decoded value is never outside the domain: the decoder either returns a member
of the domain, or drops the parameter / raises (no third outcome) -/
theorem decodeBlock_some_inDomain (cfg : Cfg) (p : Param α) (block : List (Feat α)) (v : PVal α)
    (hv : ValidParam (fieldOps lg ex fin) cfg p)
    (h : decodeBlock (fieldOps lg ex fin) cfg p block = .ok (some v)) :
    inDomain (fieldOps lg ex fin) p.dom v = true := by
  obtain ⟨w, hw1, hw2⟩ := decodeBlock_inDomain lg ex fin cfg p block hv (goodBlock_of_some lg ex fin cfg p block v h)
  rw [h] at hw1
  simp only [Except.ok.injEq, Option.some.injEq] at hw1
  rw [hw1]; exact hw2

end

end VizierModel.Codec
