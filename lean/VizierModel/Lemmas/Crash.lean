import VizierModel.Lemmas.ServiceEs
import VizierModel.Model.Crash
namespace VizierModel.Svc

theorem applyWrites_append (cfg : Cfg) (st : Study) (a b : List Write) :
    applyWrites cfg st (a ++ b) = applyWrites cfg (applyWrites cfg st a) b := by
  simp [applyWrites, List.foldl_append]

theorem applyWrites_cons (cfg : Cfg) (st : Study) (w : Write) (ws : List Write) :
    applyWrites cfg st (w :: ws) = applyWrites cfg (w.apply cfg st) ws := rfl

@[simp] theorem applyWrites_nil (cfg : Cfg) (st : Study) : applyWrites cfg st [] = st := rfl

theorem applyWrites_putTrials (cfg : Cfg) (st : Study) (l : List Trial) :
    applyWrites cfg st (l.map .putTrial) = l.foldl Study.putTrial st := by
  induction l generalizing st with
  | nil => rfl
  | cons a as ih => simp only [List.map_cons, applyWrites_cons, List.foldl_cons]; exact ih _

theorem applyWrites_addTrials (cfg : Cfg) (st : Study) (l : List Trial) :
    applyWrites cfg st (l.map .addTrial) = { st with trials := st.trials ++ l } := by
  induction l generalizing st with
  | nil => simp
  | cons a as ih =>
    simp only [List.map_cons, applyWrites_cons]
    rw [ih]
    simp [Write.apply, Study.addTrial]

/-- the write list of `createStage` replays to `createStage`'s final state -/
theorem applyWrites_createStage (cfg : Cfg) (op0 : SugOp) (st : Study) (need : Nat) (out : List Trial) (sugg : List Sugg) :
    applyWrites cfg st (createWrites cfg op0 st need out sugg) = (createStage cfg op0 st need out sugg).2 := by
  unfold createWrites createStage
  have hc := takeFromEnd_ids op0.client need (st.maxTrialId + 1) sugg
  generalize takeFromEnd op0.client need (st.maxTrialId + 1) sugg = r at *
  obtain ⟨created, rest, short⟩ := r
  simp only at hc ⊢
  split
  · rw [applyWrites_addTrials]
  · have hmax : maxId (st.trials ++ created) = maxId st.trials + created.length :=
      maxId_append_range st.trials created hc
    rw [applyWrites_append, applyWrites_append, applyWrites_addTrials, applyWrites_addTrials]
    simp only [applyWrites_cons, applyWrites_nil, Write.apply, finishOp, maxTrialId_eq, hmax, List.append_assoc]
    have e : maxId st.trials + 1 + created.length = maxId st.trials + created.length + 1 := by omega
    rw [e]

theorem applyWrites_pythiaStage (cfg : Cfg) (op0 : SugOp) (st : Study) (need : Nat) (out : List Trial) (alg : AlgOutcome) :
    applyWrites cfg st (pythiaWrites cfg op0 st need out alg) = (pythiaStage cfg op0 st need out alg).2 := by
  unfold pythiaWrites pythiaStage
  split
  · rfl
  · split <;> rfl
  · simp only
    split
    · rfl
    · rw [applyWrites_cons]
      exact applyWrites_createStage cfg op0 _ need out _

/-- CONSISTENCY: replaying all datastore writes of `SuggestTrials` gives exactly the state M1 computes -/
theorem applyWrites_suggest (cfg : Cfg) (st : Study) (client : String) (count : Nat) (alg : AlgOutcome) :
    applyWrites cfg st (suggestWrites cfg st client count alg) = (suggestBody cfg st client count alg).2 := by
  unfold suggestWrites suggestBody
  simp only
  cases hfind : (opsOf st client).find? (fun o => !o.done) with
  | some o => rfl
  | none =>
    simp only
    by_cases h1 : (List.filter (fun t => t.state == TState.active && t.client == client) st.trials).length ≥ count
    · simp only [h1, if_true]; rfl
    · simp only [h1, if_false]
      rw [applyWrites_append, applyWrites_cons, applyWrites_putTrials]
      simp only [Write.apply]
      split
      · rfl
      · exact applyWrites_pythiaStage cfg _ _ _ _ alg

end VizierModel.Svc
