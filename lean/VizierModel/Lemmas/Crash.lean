import VizierModel.Lemmas.ServiceEs
import VizierModel.Model.Crash
namespace VizierModel.Svc

theorem applyWrites_append (cfg : Cfg) (st : Study) (a b : List Write) :
    applyWrites cfg st (a ++ b) = applyWrites cfg (applyWrites cfg st a) b := by
  simp [applyWrites, List.foldl_append]

theorem applyWrites_cons (cfg : Cfg) (st : Study) (w : Write) (ws : List Write) :
    applyWrites cfg st (w :: ws) = applyWrites cfg (w.apply cfg st) ws := rfl

@[simp] theorem applyWrites_nil (cfg : Cfg) (st : Study) : applyWrites cfg st [] = st := rfl

theorem applyWrites_putTrials (cfg : Cfg) (st : Study) (l : List Trial) :
    applyWrites cfg st (l.map .putTrial) = l.foldl Study.putTrial st := by
  induction l generalizing st with
  | nil => rfl
  | cons a as ih => simp only [List.map_cons, applyWrites_cons, List.foldl_cons]; exact ih _

theorem applyWrites_addTrials (cfg : Cfg) (st : Study) (l : List Trial) :
    applyWrites cfg st (l.map .addTrial) = { st with trials := st.trials ++ l } := by
  induction l generalizing st with
  | nil => simp
  | cons a as ih =>
    simp only [List.map_cons, applyWrites_cons]
    rw [ih]
    simp [Write.apply, Study.addTrial]

/-- the write list of `createStage` replays to `createStage`'s final state -/
theorem applyWrites_createStage (cfg : Cfg) (op0 : SugOp) (st : Study) (need : Nat) (out : List Trial) (sugg : List Sugg) :
    applyWrites cfg st (createWrites cfg op0 st need out sugg) = (createStage cfg op0 st need out sugg).2 := by
  unfold createWrites createStage
  have hc := takeFromEnd_ids op0.client need (st.maxTrialId + 1) sugg
  generalize takeFromEnd op0.client need (st.maxTrialId + 1) sugg = r at *
  obtain ⟨created, rest, short⟩ := r
  simp only at hc ⊢
  split
  · rw [applyWrites_addTrials]
  · have hmax : maxId (st.trials ++ created) = maxId st.trials + created.length :=
      maxId_append_range st.trials created hc
    rw [applyWrites_append, applyWrites_append, applyWrites_addTrials, applyWrites_addTrials]
    simp only [applyWrites_cons, applyWrites_nil, Write.apply, finishOp, maxTrialId_eq, hmax, List.append_assoc]
    have e : maxId st.trials + 1 + created.length = maxId st.trials + created.length + 1 := by omega
    rw [e]

theorem applyWrites_pythiaStage (cfg : Cfg) (op0 : SugOp) (st : Study) (need : Nat) (out : List Trial) (alg : AlgOutcome) :
    applyWrites cfg st (pythiaWrites cfg op0 st need out alg) = (pythiaStage cfg op0 st need out alg).2 := by
  unfold pythiaWrites pythiaStage
  split
  · rfl
  · split <;> rfl
  · simp only
    split
    · rfl
    · rw [applyWrites_cons]
      exact applyWrites_createStage cfg op0 _ need out _

/-- the write list of `suggestRest` replays to `suggestRest`'s final state (any operation record, any study) -/
theorem applyWrites_suggestRest (cfg : Cfg) (op0 : SugOp) (st : Study) (client : String) (count : Nat)
    (alg : AlgOutcome) :
    applyWrites cfg st (suggestRestWrites cfg op0 st client count alg) = (suggestRest cfg op0 st client count alg).2 := by
  unfold suggestRestWrites suggestRest
  simp only
  by_cases h1 : (List.filter (fun t => t.state == TState.active && t.client == client) st.trials).length ≥ count
  · simp only [h1, if_true]; rfl
  · simp only [h1, if_false]
    rw [applyWrites_append, applyWrites_putTrials]
    split
    · rfl
    · exact applyWrites_pythiaStage cfg _ _ _ _ alg

/-- CONSISTENCY: replaying all datastore writes of `SuggestTrials` gives exactly the state M1 computes
    (fresh operation, resumed operation, or the pinned commit's unchanged abandoned operation) -/
theorem applyWrites_suggest (cfg : Cfg) (st : Study) (client : String) (count : Nat) (alg : AlgOutcome) :
    applyWrites cfg st (suggestWrites cfg st client count alg) = (suggestBody cfg st client count alg).2 := by
  unfold suggestWrites suggestBody
  simp only
  cases hfind : (opsOf st client).find? (fun o => !o.done) with
  | some o =>
    simp only
    split
    · exact applyWrites_suggestRest cfg _ st client count alg
    · rfl
  | none =>
    simp only
    rw [applyWrites_cons]
    exact applyWrites_suggestRest cfg _ _ client count alg

/-! ### unfinished operations under a crash -/

/-- number of unfinished operations of worker `c` -/
def pendingOf (st : Study) (c : String) : Nat := ((opsOf st c).filter (fun o => !o.done)).length

theorem pendingOf_congr {st st' : Study} (h : st'.sugOps = st.sugOps) (c : String) : pendingOf st' c = pendingOf st c := by
  unfold pendingOf opsOf; rw [h]

/-- `update_suggestion_operation` with a finished record never adds an unfinished operation -/
theorem pendingOf_putOp_le (st : Study) (o : SugOp) (ho : o.done = true) (c : String) :
    pendingOf (st.putOp o) c ≤ pendingOf st c := by
  unfold pendingOf opsOf Study.putOp
  simp only [List.filter_filter, ← List.countP_eq_length_filter, List.countP_map]
  apply List.countP_mono_left
  intro x _ hx
  simp only [Function.comp] at hx
  by_cases hm : (x.client == o.client && x.num == o.num) = true
  · simp [hm, ho] at hx
  · simpa [hm] using hx

/-- writes that cannot add an unfinished operation: everything except `create_suggestion_operation`
    and `update_suggestion_operation` with an unfinished record -/
def Write.keepsPending : Write → Bool
  | .createOp _ => false
  | .putOp o => o.done
  | _ => true

theorem pendingOf_apply_le (cfg : Cfg) (st : Study) (w : Write) (hw : w.keepsPending = true) (c : String) :
    pendingOf (w.apply cfg st) c ≤ pendingOf st c := by
  cases w with
  | createOp o => cases hw
  | putOp o => exact pendingOf_putOp_le st o hw c
  | putTrial t => exact Nat.le_of_eq (pendingOf_congr rfl c)
  | addTrial t => exact Nat.le_of_eq (pendingOf_congr rfl c)
  | delTrial id => exact Nat.le_of_eq (pendingOf_congr rfl c)
  | metadata us => exact Nat.le_of_eq (pendingOf_congr (updateMetadata_sugOps cfg st us) c)
  | putEsOp o => exact Nat.le_of_eq (pendingOf_congr (putEsOp_sugOps st o) c)
  | setState s => exact Nat.le_of_eq (pendingOf_congr rfl c)

theorem pendingOf_applyWrites_le (cfg : Cfg) (st : Study) (ws : List Write) (hws : ∀ w ∈ ws, w.keepsPending = true)
    (c : String) : pendingOf (applyWrites cfg st ws) c ≤ pendingOf st c := by
  induction ws generalizing st with
  | nil => exact Nat.le_refl _
  | cons w ws ih =>
    rw [applyWrites_cons]
    exact Nat.le_trans (ih _ (fun x hx => hws x (List.mem_cons_of_mem _ hx)))
      (pendingOf_apply_le cfg st w (hws w List.mem_cons_self) c)

theorem keepsPending_createWrites (cfg : Cfg) (op0 : SugOp) (st : Study) (need : Nat) (out : List Trial)
    (sugg : List Sugg) : ∀ w ∈ createWrites cfg op0 st need out sugg, w.keepsPending = true := by
  unfold createWrites
  simp only
  intro w hw
  split at hw
  · obtain ⟨t, _, rfl⟩ := List.mem_map.mp hw; rfl
  · rcases List.mem_append.mp hw with hw | hw
    · rcases List.mem_append.mp hw with hw | hw
      · obtain ⟨t, _, rfl⟩ := List.mem_map.mp hw; rfl
      · obtain ⟨t, _, rfl⟩ := List.mem_map.mp hw; rfl
    · simp only [List.mem_singleton] at hw; subst hw; rfl

theorem keepsPending_pythiaWrites (cfg : Cfg) (op0 : SugOp) (st : Study) (need : Nat) (out : List Trial)
    (alg : AlgOutcome) : ∀ w ∈ pythiaWrites cfg op0 st need out alg, w.keepsPending = true := by
  unfold pythiaWrites
  intro w hw
  split at hw
  · simp only [List.mem_singleton] at hw; subst hw; rfl
  · split at hw
    · simp only [List.mem_singleton] at hw; subst hw; rfl
    · cases hw
  · simp only at hw
    split at hw
    · simp only [List.mem_cons, List.not_mem_nil, or_false] at hw
      rcases hw with rfl | rfl <;> rfl
    · rcases List.mem_cons.mp hw with rfl | hw
      · rfl
      · exact keepsPending_createWrites cfg op0 _ need out _ w hw

theorem keepsPending_suggestRestWrites (cfg : Cfg) (op0 : SugOp) (st : Study) (client : String) (count : Nat)
    (alg : AlgOutcome) : ∀ w ∈ suggestRestWrites cfg op0 st client count alg, w.keepsPending = true := by
  unfold suggestRestWrites
  simp only
  intro w hw
  split at hw
  · simp only [List.mem_singleton] at hw; subst hw; rfl
  · rcases List.mem_append.mp hw with hw | hw
    · obtain ⟨t, _, rfl⟩ := List.mem_map.mp hw; rfl
    · split at hw
      · simp only [List.mem_singleton] at hw; subst hw; rfl
      · exact keepsPending_pythiaWrites cfg op0 _ _ _ alg w hw

theorem pendingOf_createOp (st : Study) (o : SugOp) (c : String) :
    pendingOf { st with sugOps := st.sugOps ++ [o] } c =
      pendingOf st c + (if o.client == c && !o.done then 1 else 0) := by
  unfold pendingOf
  rw [opsOf_append]
  by_cases hc : (o.client == c) = true
  · by_cases hd : o.done = true <;> simp [hc, hd, List.filter_append]
  · simp [hc]

/-- **at most one abandoned operation per worker**: a worker with at most one unfinished operation has at
    most one in every state a crash inside ANY `SuggestTrials` call (of any worker) can leave — a fresh
    call creates one record only when the asking worker has none, a resumed call creates none -/
theorem crash_at_most_one_pending (cfg : Cfg) (st : Study) (client : String) (count : Nat) (alg : AlgOutcome)
    (c : String) (h : pendingOf st c ≤ 1) (k : Nat) :
    pendingOf (applyWrites cfg st ((suggestWrites cfg st client count alg).take k)) c ≤ 1 := by
  unfold suggestWrites
  simp only
  cases hfind : (opsOf st client).find? (fun o => !o.done) with
  | some o =>
    simp only
    refine Nat.le_trans (pendingOf_applyWrites_le cfg st _ ?_ c) h
    intro w hw
    have hw := List.mem_of_mem_take hw
    split at hw
    · exact keepsPending_suggestRestWrites cfg _ st client count alg w hw
    · cases hw
  | none =>
    simp only
    cases k with
    | zero => simpa using h
    | succ k =>
      rw [List.take_succ_cons, applyWrites_cons]
      refine Nat.le_trans (pendingOf_applyWrites_le cfg _ _ ?_ c) ?_
      · intro w hw
        exact keepsPending_suggestRestWrites cfg _ _ client count alg w (List.mem_of_mem_take hw)
      · show pendingOf { st with sugOps := st.sugOps ++ [_] } c ≤ 1
        rw [pendingOf_createOp]
        by_cases hc : (client == c) = true
        · have e : client = c := by simpa using hc
          subst e
          have h0 : pendingOf st client = 0 := by
            unfold pendingOf
            rw [List.length_eq_zero_iff, List.filter_eq_nil_iff]
            intro x hx
            exact List.find?_eq_none.mp hfind x hx
          simp [h0]
        · simp only [hc, Bool.false_and, Bool.false_eq_true, if_false]
          exact h

end VizierModel.Svc
