import VizierModel.Model.ServiceInv
namespace VizierModel.Svc

theorem legal_refl (s : TState) : legal s s = true := by cases s <;> rfl

theorem legal_completed (a b : TState) (h : legal a b = true) (hc : a.completed = true) : b = a := by
  cases a <;> cases b <;> simp_all [legal, TState.completed]

theorem trialStepOK_refl (t : Trial) : trialStepOK t t = true := by
  simp [trialStepOK, legal_refl]

theorem trialStepOK_iff (t t' : Trial) :
    trialStepOK t t' = true ↔
      legal t.state t'.state = true ∧ t'.params = t.params ∧ (t.state.completed = true → t' = { t with md := t'.md }) ∧
        (t.state ≠ .requested → t'.client = t.client) := by
  simp only [trialStepOK, Bool.and_eq_true, Bool.or_eq_true, Bool.not_eq_true', beq_iff_eq, and_assoc]
  constructor
  · rintro ⟨h1, h2, h3, h4⟩
    refine ⟨h1, h2, fun hc => ?_, fun hr => ?_⟩
    · rcases h3 with h3 | h3
      · rw [hc] at h3; cases h3
      · exact h3
    · rcases h4 with h4 | h4
      · exact absurd h4 hr
      · exact h4
  · rintro ⟨h1, h2, h3, h4⟩
    refine ⟨h1, h2, ?_, ?_⟩
    · cases hc : t.state.completed with
      | false => exact Or.inl rfl
      | true => exact Or.inr (h3 hc)
    · by_cases hr : t.state = .requested
      · exact Or.inl hr
      · exact Or.inr (h4 hr)

/-- a legal evolution followed by a change of metadata only -/
theorem trialStepOK_then_md (a b : Trial) (m : MD) (h : trialStepOK a b = true) :
    trialStepOK a { b with md := m } = true := by
  rw [trialStepOK_iff] at *
  obtain ⟨l1, p1, f1, c1⟩ := h
  refine ⟨l1, p1, fun hc => ?_, c1⟩
  have hb := f1 hc
  rw [hb]

/-- a change of metadata only followed by a legal evolution -/
theorem trialStepOK_md_then (a c : Trial) (m : MD) (h : trialStepOK { a with md := m } c = true) :
    trialStepOK a c = true := by
  rw [trialStepOK_iff] at *
  obtain ⟨l1, p1, f1, c1⟩ := h
  refine ⟨l1, p1, fun hc => ?_, c1⟩
  have := f1 hc
  rw [this]

/-- a change of metadata only is always a legal evolution -/
theorem trialStepOK_md (t : Trial) (m : MD) : trialStepOK t { t with md := m } = true := by
  rw [trialStepOK_iff]; exact ⟨legal_refl _, rfl, fun _ => rfl, fun _ => rfl⟩

/-! ### lists of trials -/

def Nodup' (ts : List Trial) : Prop := (ts.map (·.id)).Nodup

theorem nodup_mem_eq {ts : List Trial} (h : Nodup' ts) {a b : Trial} (ha : a ∈ ts) (hb : b ∈ ts)
    (hid : a.id = b.id) : a = b := by
  induction ts with
  | nil => cases ha
  | cons x xs ih =>
    simp only [Nodup', List.map_cons, List.nodup_cons, List.mem_map, not_exists, not_and] at h
    rcases List.mem_cons.mp ha with rfl | ha' <;> rcases List.mem_cons.mp hb with rfl | hb'
    · rfl
    · exact absurd hid.symm (h.1 b hb')
    · exact absurd hid (h.1 a ha')
    · exact ih h.2 ha' hb'

theorem trialsStepOK_iff (ts ts' : List Trial) :
    trialsStepOK ts ts' = true ↔ ∀ t ∈ ts, ∀ t' ∈ ts', t.id = t'.id → trialStepOK t t' = true := by
  simp only [trialsStepOK, List.all_eq_true, Bool.or_eq_true, bne_iff_ne, ne_eq]
  constructor
  · intro h t ht t' ht' hid
    rcases h t ht t' ht' with h | h
    · exact absurd hid h
    · exact h
  · intro h t ht t' ht'
    by_cases hid : t.id = t'.id
    · exact Or.inr (h t ht t' ht' hid)
    · exact Or.inl hid

/-- pointwise evolution by an id-preserving map -/
theorem trialsStepOK_map {ts : List Trial} (hn : Nodup' ts) (g : Trial → Trial)
    (hg : ∀ x ∈ ts, (g x).id = x.id ∧ trialStepOK x (g x) = true) :
    trialsStepOK ts (ts.map g) = true := by
  rw [trialsStepOK_iff]
  intro t ht t' ht' hid
  obtain ⟨x, hx, rfl⟩ := List.mem_map.mp ht'
  have : t = x := nodup_mem_eq hn ht hx (hid.trans (hg x hx).1)
  subst this
  exact (hg t hx).2

theorem nodup_map {ts : List Trial} (hn : Nodup' ts) (g : Trial → Trial) (hg : ∀ x ∈ ts, (g x).id = x.id) :
    Nodup' (ts.map g) := by
  unfold Nodup' at *
  have : (ts.map g).map (·.id) = ts.map (·.id) := by
    rw [List.map_map]
    apply List.map_congr_left
    intro x hx
    exact hg x hx
  rw [this]; exact hn

theorem trialsStepOK_append {ts ts' new : List Trial} (h : trialsStepOK ts ts' = true)
    (hnew : ∀ n ∈ new, ∀ t ∈ ts, t.id ≠ n.id) : trialsStepOK ts (ts' ++ new) = true := by
  rw [trialsStepOK_iff] at *
  intro t ht t' ht' hid
  rcases List.mem_append.mp ht' with h' | h'
  · exact h t ht t' h' hid
  · exact absurd hid (hnew t' h' t ht)

theorem le_maxId_aux (ts : List Trial) (m : Nat) : m ≤ ts.foldl (fun m t => max m t.id) m ∧
    ∀ t ∈ ts, t.id ≤ ts.foldl (fun m t => max m t.id) m := by
  induction ts generalizing m with
  | nil => simp
  | cons x xs ih =>
    simp only [List.foldl_cons]
    have := ih (max m x.id)
    refine ⟨Nat.le_trans (Nat.le_max_left _ _) this.1, ?_⟩
    intro t ht
    rcases List.mem_cons.mp ht with rfl | ht
    · exact Nat.le_trans (Nat.le_max_right _ _) this.1
    · exact this.2 t ht

theorem le_maxId {ts : List Trial} {t : Trial} (h : t ∈ ts) : t.id ≤ maxId ts := (le_maxId_aux ts 0).2 t h

theorem maxTrialId_eq (st : Study) : st.maxTrialId = maxId st.trials := rfl

end VizierModel.Svc
