import VizierModel.Model.Meta
namespace VizierModel.Meta

variable {κ ν : Type} [DecidableEq κ]

/-- first match -/
def get (l : List (κ × ν)) (k : κ) : Option ν := (l.find? (fun e => e.1 = k)).map (·.2)

/-- strict order laws assumed of `lt` (proved for the driver's concrete order in Props) -/
structure StrictTotal (lt : κ → κ → Bool) : Prop where
  irrefl : ∀ a, lt a a = false
  trans : ∀ a b c, lt a b = true → lt b c = true → lt a c = true
  tri : ∀ a b, lt a b = false → lt b a = false → a = b

def Sorted (lt : κ → κ → Bool) (l : List (κ × ν)) : Prop := l.Pairwise (fun a b => lt a.1 b.1 = true)

@[simp] theorem get_nil (k : κ) : get ([] : List (κ × ν)) k = none := rfl

theorem get_cons (x : κ × ν) (xs : List (κ × ν)) (k : κ) :
    get (x :: xs) k = if x.1 = k then some x.2 else get xs k := by
  unfold get
  by_cases h : x.1 = k <;> simp [List.find?, h]

theorem ins_lt (lt : κ → κ → Bool) (kv x : κ × ν) (xs : List (κ × ν)) (h : lt kv.1 x.1 = true) :
    ins lt kv (x :: xs) = kv :: x :: xs := by simp [ins, h]

theorem ins_eq (lt : κ → κ → Bool) (kv x : κ × ν) (xs : List (κ × ν)) (h1 : ¬ lt kv.1 x.1 = true)
    (h2 : kv.1 = x.1) : ins lt kv (x :: xs) = kv :: xs := by
  rw [ins, if_neg h1, if_pos h2]

theorem ins_gt (lt : κ → κ → Bool) (kv x : κ × ν) (xs : List (κ × ν)) (h1 : ¬ lt kv.1 x.1 = true)
    (h2 : ¬ kv.1 = x.1) : ins lt kv (x :: xs) = x :: ins lt kv xs := by
  rw [ins, if_neg h1, if_neg h2]

theorem get_ins (lt : κ → κ → Bool) (kv : κ × ν) (l : List (κ × ν)) (k : κ) :
    get (ins lt kv l) k = if kv.1 = k then some kv.2 else get l k := by
  induction l with
  | nil => simp [ins, get_cons]
  | cons x xs ih =>
    by_cases h1 : lt kv.1 x.1 = true
    · rw [ins_lt lt kv x xs h1, get_cons]
    · by_cases h2 : kv.1 = x.1
      · rw [ins_eq lt kv x xs h1 h2, get_cons, get_cons]
        by_cases h3 : kv.1 = k
        · simp [h3]
        · have : ¬ x.1 = k := fun e => h3 (h2.trans e)
          simp [h3, this]
      · rw [ins_gt lt kv x xs h1 h2, get_cons, get_cons, ih]
        by_cases h3 : x.1 = k
        · have : kv.1 ≠ k := fun e => h2 (e.trans h3.symm)
          simp [h3, this]
        · simp [h3]

theorem lookupLast_nil (k : κ) : lookupLast ([] : List (κ × ν)) k = none := rfl

theorem lookupLast_append_single (l : List (κ × ν)) (x : κ × ν) (k : κ) :
    lookupLast (l ++ [x]) k = if x.1 = k then some x.2 else lookupLast l k := by
  unfold lookupLast
  by_cases h : x.1 = k <;> simp [List.find?, h]

theorem lookupLast_append (l m : List (κ × ν)) (k : κ) :
    lookupLast (l ++ m) k = match lookupLast m k with | some v => some v | none => lookupLast l k := by
  unfold lookupLast
  rw [List.reverse_append, List.find?_append]
  cases h : List.find? (fun e => decide (e.1 = k)) m.reverse <;> simp

theorem lookupLast_cons (x : κ × ν) (l : List (κ × ν)) (k : κ) :
    lookupLast (x :: l) k = match lookupLast l k with
      | some v => some v | none => if x.1 = k then some x.2 else none := by
  have e : x :: l = [x] ++ l := rfl
  rw [e, lookupLast_append]
  cases lookupLast l k with
  | some v => rfl
  | none =>
    by_cases h : x.1 = k <;> simp [lookupLast, List.find?, h]

theorem get_foldl_ins (lt : κ → κ → Bool) (l acc : List (κ × ν)) (k : κ) :
    get (l.foldl (fun acc kv => ins lt kv acc) acc) k =
      match lookupLast l k with | some v => some v | none => get acc k := by
  induction l generalizing acc with
  | nil => simp [lookupLast_nil]
  | cons x xs ih =>
    rw [List.foldl_cons, ih, lookupLast_cons, get_ins]
    cases lookupLast xs k with
    | some v => rfl
    | none => by_cases h : x.1 = k <;> simp [h]

/-- main fact about `merge`: first-match lookup in the merged list is last-writer-wins over `old ++ new` -/
theorem get_merge (lt : κ → κ → Bool) (old new : List (κ × ν)) (k : κ) :
    get (merge lt old new) k = lookupLast (old ++ new) k := by
  unfold merge
  rw [get_foldl_ins]
  cases h : lookupLast (old ++ new) k <;> simp

theorem mem_ins (lt : κ → κ → Bool) (kv : κ × ν) (l : List (κ × ν)) (y : κ × ν) :
    y ∈ ins lt kv l → y = kv ∨ y ∈ l := by
  induction l with
  | nil => simp [ins]
  | cons x xs ih =>
    by_cases h1 : lt kv.1 x.1 = true
    · rw [ins_lt lt kv x xs h1]; intro h
      rcases List.mem_cons.mp h with h | h
      · exact Or.inl h
      · exact Or.inr h
    · by_cases h2 : kv.1 = x.1
      · rw [ins_eq lt kv x xs h1 h2]; intro h
        rcases List.mem_cons.mp h with h | h
        · exact Or.inl h
        · exact Or.inr (List.mem_cons_of_mem _ h)
      · rw [ins_gt lt kv x xs h1 h2]; intro h
        rcases List.mem_cons.mp h with h | h
        · exact Or.inr (h ▸ List.mem_cons_self)
        · rcases ih h with h | h
          · exact Or.inl h
          · exact Or.inr (List.mem_cons_of_mem _ h)

theorem sorted_ins {lt : κ → κ → Bool} (hl : StrictTotal lt) (kv : κ × ν) (l : List (κ × ν))
    (hs : Sorted lt l) : Sorted lt (ins lt kv l) := by
  induction l with
  | nil => simp [ins, Sorted]
  | cons x xs ih =>
    unfold Sorted at hs ⊢
    rw [List.pairwise_cons] at hs
    by_cases h1 : lt kv.1 x.1 = true
    · rw [ins_lt lt kv x xs h1, List.pairwise_cons]
      refine ⟨?_, List.pairwise_cons.mpr hs⟩
      intro y hy
      rcases List.mem_cons.mp hy with rfl | hy
      · exact h1
      · exact hl.trans _ _ _ h1 (hs.1 y hy)
    · by_cases h2 : kv.1 = x.1
      · rw [ins_eq lt kv x xs h1 h2, List.pairwise_cons]
        refine ⟨?_, hs.2⟩
        intro y hy
        rw [h2]; exact hs.1 y hy
      · rw [ins_gt lt kv x xs h1 h2, List.pairwise_cons]
        refine ⟨?_, ih hs.2⟩
        intro y hy
        rcases mem_ins lt kv xs y hy with rfl | hy
        · cases h3 : lt x.1 y.1 with
          | true => rfl
          | false =>
            have h1' : lt y.1 x.1 = false := by simpa using h1
            exact absurd (hl.tri _ _ h1' h3) h2
        · exact hs.1 y hy

theorem sorted_foldl_ins {lt : κ → κ → Bool} (hl : StrictTotal lt) (l acc : List (κ × ν))
    (hs : Sorted lt acc) : Sorted lt (l.foldl (fun acc kv => ins lt kv acc) acc) := by
  induction l generalizing acc with
  | nil => simpa
  | cons x xs ih => exact ih _ (sorted_ins hl x acc hs)

theorem sorted_merge {lt : κ → κ → Bool} (hl : StrictTotal lt) (old new : List (κ × ν)) :
    Sorted lt (merge lt old new) :=
  sorted_foldl_ins hl _ _ (by simp [Sorted])

/-- on a strictly sorted list the reader's view (last match) is the first match -/
theorem lookupLast_eq_get {lt : κ → κ → Bool} (hl : StrictTotal lt) (l : List (κ × ν)) (hs : Sorted lt l) (k : κ) :
    lookupLast l k = get l k := by
  induction l with
  | nil => rfl
  | cons x xs ih =>
    unfold Sorted at hs
    rw [List.pairwise_cons] at hs
    have e : x :: xs = [x] ++ xs := rfl
    rw [e, lookupLast_append, ← e, get_cons, ih hs.2]
    by_cases h : x.1 = k
    · have : get xs k = none := by
        unfold get
        rw [Option.map_eq_none_iff, List.find?_eq_none]
        intro y hy
        have := hs.1 y hy
        simp only [decide_eq_true_eq]
        intro hyk
        have e2 : y.1 = x.1 := hyk.trans h.symm
        rw [e2, hl.irrefl] at this
        exact absurd this (by simp)
      simp [h, this, lookupLast, List.find?]
    · cases hg : get xs k <;> simp [h, lookupLast, List.find?]

/-- **merge is last-writer-wins** as seen by a reader -/
theorem lookupLast_merge {lt : κ → κ → Bool} (hl : StrictTotal lt) (old new : List (κ × ν)) (k : κ) :
    lookupLast (merge lt old new) k =
      match lookupLast new k with | some v => some v | none => lookupLast old k := by
  rw [lookupLast_eq_get hl _ (sorted_merge hl old new), get_merge, lookupLast_append]

/-! ### store level -/

def tview (ts : List (Nat × List (κ × ν))) (id : Nat) (k : κ) : Option ν :=
  match ts.find? (fun t => t.1 = id) with
  | some tr => lookupLast tr.2 k
  | none => none

theorem view_trial (s : Store κ ν) (id : Nat) (k : κ) : view s (.trial id) k = tview s.trials id k := rfl

def lww (new : Option ν) (old : Option ν) : Option ν := match new with | some v => some v | none => old

theorem tview_mergeTrial {lt : κ → κ → Bool} (hl : StrictTotal lt) (ts : List (Nat × List (κ × ν))) (j : Nat)
    (new : List (κ × ν)) (id : Nat) (k : κ) :
    tview (mergeTrial lt ts j new) id k =
      if id = j then (if ts.any (·.1 = id) then lww (lookupLast new k) (tview ts id k) else none)
      else tview ts id k := by
  induction ts with
  | nil => simp [mergeTrial, tview]
  | cons t ts ih =>
    unfold mergeTrial tview at *
    simp only [List.map_cons, List.find?_cons, List.any_cons]
    by_cases hid : id = j
    · subst hid
      by_cases ht : t.1 = id
      · simp [ht, lookupLast_merge hl, lww]
      · simp only [ht, if_false, decide_false, Bool.false_or]
        simpa using ih
    · by_cases ht : t.1 = id
      · have : ¬ t.1 = j := fun e => hid (ht.symm.trans e)
        simp [ht, this, hid]
      · by_cases htj : t.1 = j
        · simp only [htj, if_true, hid, if_false]
          have : ¬ j = id := fun e => hid e.symm
          simp only [this, decide_false]
          simpa [hid] using ih
        · simp only [htj, if_false, ht, decide_false, hid]
          simpa [hid] using ih

theorem any_mergeTrial (lt : κ → κ → Bool) (ts : List (Nat × List (κ × ν))) (j : Nat) (new : List (κ × ν)) (id : Nat) :
    (mergeTrial lt ts j new).any (·.1 = id) = ts.any (·.1 = id) := by
  induction ts with
  | nil => rfl
  | cons t ts ih =>
    unfold mergeTrial at *
    simp only [List.map_cons, List.any_cons, ih]
    by_cases h : t.1 = j <;> simp [h]

theorem map_fst_mergeTrial (lt : κ → κ → Bool) (ts : List (Nat × List (κ × ν))) (j : Nat) (new : List (κ × ν)) :
    (mergeTrial lt ts j new).map (·.1) = ts.map (·.1) := by
  induction ts with
  | nil => rfl
  | cons t ts ih =>
    unfold mergeTrial at *
    simp only [List.map_cons, ih]
    by_cases h : t.1 = j <;> simp [h]

theorem tview_none_of_not_any (ts : List (Nat × List (κ × ν))) (id : Nat) (k : κ)
    (h : ts.any (·.1 = id) = false) : tview ts id k = none := by
  induction ts with
  | nil => rfl
  | cons t ts ih =>
    simp only [List.any_cons, Bool.or_eq_false_iff, decide_eq_false_iff_not] at h
    unfold tview at *
    simp only [List.find?_cons, h.1, decide_false]
    exact ih h.2

theorem tview_foldl {lt : κ → κ → Bool} (hl : StrictTotal lt) (us : List (Upd κ ν)) (ids : List Nat)
    (ts : List (Nat × List (κ × ν))) (id : Nat) (k : κ) :
    tview (ids.foldl (fun ts j => mergeTrial lt ts j (trialPart us j)) ts) id k =
      if id ∈ ids ∧ ts.any (·.1 = id) then lww (lookupLast (trialPart us id) k) (tview ts id k)
      else tview ts id k := by
  induction ids generalizing ts with
  | nil => simp
  | cons j js ih =>
    rw [List.foldl_cons, ih, any_mergeTrial, tview_mergeTrial hl]
    by_cases hj : id = j
    · subst hj
      by_cases hp : ts.any (·.1 = id) = true
      · simp only [hp, if_true, List.mem_cons, true_or, and_self, true_and]
        by_cases hm : id ∈ js
        · simp only [hm, and_true, if_true]
          cases lookupLast (trialPart us id) k <;> simp [lww]
        · simp [hm]
      · have hp' : ts.any (·.1 = id) = false := by
          cases h : ts.any (·.1 = id) with
          | true => exact absurd h hp
          | false => rfl
        rw [hp', tview_none_of_not_any ts id k hp']
        simp
    · simp only [hj, if_false, List.mem_cons, false_or]

theorem map_fst_foldl (lt : κ → κ → Bool) (us : List (Upd κ ν)) (ids : List Nat) (ts : List (Nat × List (κ × ν))) :
    (ids.foldl (fun ts j => mergeTrial lt ts j (trialPart us j)) ts).map (·.1) = ts.map (·.1) := by
  induction ids generalizing ts with
  | nil => rfl
  | cons j js ih => rw [List.foldl_cons, ih, map_fst_mergeTrial]

end VizierModel.Meta
