import VizierModel.Model.FeatureMapper
namespace VizierModel.FeatureMapper

variable {τ : Type}

theorem firstTrue_range' (n : Nat) : ∀ (s i : Nat), s ≤ i → i < s + n →
    firstTrue ((List.range' s n).map (· == i)) = i - s := by
  induction n with
  | zero => intro s i h1 h2; omega
  | succ n ih =>
    intro s i h1 h2
    rw [List.range'_succ, List.map_cons, firstTrue]
    by_cases hs : s = i
    · subst hs; simp
    · have hb : (s == i) = false := by simpa using hs
      simp only [hb, Bool.false_eq_true, if_false]
      rw [ih (s + 1) i (by omega) (by omega)]
      omega

theorem firstTrue_oneHot (n i : Nat) (h : i < n) : firstTrue (oneHot n i) = i := by
  unfold oneHot
  rw [List.range_eq_range']
  have := firstTrue_range' n 0 i (Nat.zero_le _) (by omega)
  simpa using this

/-- `unmap (map row) = row` for every row the converter can produce -/
theorem unmap_map (specs : List Spec) : ∀ (row : List (Cell τ)), WellFormed specs row →
    unmapRow specs (mapRow row) = some row := by
  induction specs with
  | nil =>
    intro row h
    cases row with
    | nil => rfl
    | cons c cs => cases h
  | cons s specs ih =>
    intro row h
    cases s with
    | cont =>
      cases row with
      | nil => cases h
      | cons cell rest =>
        cases cell with
        | c v =>
          have := ih rest h
          simp only [mapRow, unmapRow]
          have e : ({ mapRow rest with cont := v :: (mapRow rest).cont } : Mapped τ).cat = (mapRow rest).cat := rfl
          show ((unmapRow specs { cont := (mapRow rest).cont, cat := (mapRow rest).cat }).map (Cell.c v :: ·)) = _
          have hm : ({ cont := (mapRow rest).cont, cat := (mapRow rest).cat } : Mapped τ) = mapRow rest := rfl
          rw [hm, this]; rfl
        | block bits => cases h
    | onehot n =>
      cases row with
      | nil => cases h
      | cons cell rest =>
        cases cell with
        | c v => cases h
        | block bits =>
          obtain ⟨⟨i, hi, hb⟩, hrest⟩ := h
          have := ih rest hrest
          subst hb
          simp only [mapRow, unmapRow, firstTrue_oneHot n i hi, hi, if_true]
          show ((unmapRow specs { cont := (mapRow rest).cont, cat := (mapRow rest).cat }).map (Cell.block (oneHot n i) :: ·)) = _
          have hm : ({ cont := (mapRow rest).cont, cat := (mapRow rest).cat } : Mapped τ) = mapRow rest := rfl
          rw [hm, this]; rfl

/-- `map (unmap m) = m` for every valid mapped value, and the rebuilt row is well formed: every one-hot
    block has exactly one active entry, at the given index -/
theorem map_unmap (specs : List Spec) : ∀ (m : Mapped τ), ValidMapped specs m →
    ∃ row, unmapRow specs m = some row ∧ mapRow row = m ∧ WellFormed specs row := by
  induction specs with
  | nil =>
    intro m h
    obtain ⟨h1, h2⟩ := h
    refine ⟨[], ?_, ?_, trivial⟩
    · simp [unmapRow, h1, h2]
    · cases m; simp only at h1 h2; subst h1; subst h2; rfl
  | cons s specs ih =>
    intro m h
    cases s with
    | cont =>
      obtain ⟨v, vs, hc, hv⟩ := h
      obtain ⟨row, hr, hm, hw⟩ := ih _ hv
      refine ⟨Cell.c v :: row, ?_, ?_, hw⟩
      · simp only [unmapRow, hc, hr, Option.map_some]
      · simp only [mapRow, hm]
        cases m; simp only at hc; subst hc; rfl
    | onehot n =>
      obtain ⟨i, is, hc, hi, hv⟩ := h
      obtain ⟨row, hr, hm, hw⟩ := ih _ hv
      refine ⟨Cell.block (oneHot n i) :: row, ?_, ?_, ⟨⟨i, hi, rfl⟩, hw⟩⟩
      · simp only [unmapRow, hc, hi, if_true, hr, Option.map_some]
      · simp only [mapRow, hm, firstTrue_oneHot n i hi]
        cases m; simp only at hc; subst hc; rfl

end VizierModel.FeatureMapper
