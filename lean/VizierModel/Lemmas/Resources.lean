/- `from_name` of each kind, characterised exactly: which strings are accepted and as what. -/
import VizierModel.Lemmas.ResourcesSegs
import VizierModel.Lemmas.ResourcesInt
namespace VizierModel.Res

/-! ## the numeric component -/

theorem numComp_ok_iff (t : List Char) (k : Nat) : numComp t = .ok k ↔ pyInt t = some (k : Int) := by
  unfold numComp
  cases h : pyInt t with
  | none => simp
  | some v =>
    by_cases hv : v < 0
    · simp only [hv, if_true]
      constructor
      · intro h'; cases h'
      · intro h'; cases h'; omega
    · simp only [hv, if_false]
      constructor
      · intro h'; cases h'; congr 1; omega
      · intro h'; cases h'; simp

theorem numComp_digits (k : Nat) : numComp (digits k) = .ok k :=
  (numComp_ok_iff _ _).mpr (pyInt_digits' k)

theorem map_numComp_ok {α : Type} (f : Nat → α) (t : List Char) (r : α) :
    (numComp t).map f = .ok r ↔ ∃ k : Nat, pyInt t = some (k : Int) ∧ r = f k := by
  cases h : numComp t with
  | error e =>
    simp only [Except.map]
    constructor
    · intro h'; cases h'
    · rintro ⟨k, hk, _⟩
      rw [(numComp_ok_iff t k).mpr hk] at h; cases h
  | ok k =>
    simp only [Except.map]
    have hk := (numComp_ok_iff t k).mp h
    constructor
    · intro h'; cases h'; exact ⟨k, hk, rfl⟩
    · rintro ⟨k', hk', rfl⟩
      rw [hk] at hk'
      have : k = k' := by cases hk'; rfl
      rw [this]

theorem slashFree_of_valid {c : List Char} (h : validComp c = true) : SlashFree c :=
  ((validComp_iff c).mp h).2

theorem ne_nil_of_valid {c : List Char} (h : validComp c = true) : c ≠ [] :=
  ((validComp_iff c).mp h).1

theorem valid_of_seg {n c : List Char} (hm : c ∈ segs n) (hne : c ≠ []) : validComp c = true :=
  (validComp_iff c).mpr ⟨hne, segs_slashFree n c hm⟩

/-- the segment list of a string, read back -/
theorem eq_join_of_segs {n : List Char} {l : List (List Char)} (h : segs n = l) : n = join l := by
  rw [← h, join_segs]

/-! ## Trial -/

theorem trialFromName_ok_iff (n : List Char) (r : Trial) :
    trialFromName n = .ok r ↔
      r.valid = true ∧ ∃ t, pyInt t = some (r.id : Int) ∧ n = trialNameWith r.owner r.study t := by
  constructor
  · intro h
    unfold trialFromName at h
    split at h
    · next k₁ o k₂ s k₃ t hs =>
      split at h
      · next hc =>
        obtain ⟨rfl, rfl, rfl, ho, hs', _⟩ := hc
        obtain ⟨k, hk, rfl⟩ := (map_numComp_ok _ t r).mp h
        refine ⟨?_, t, hk, eq_join_of_segs hs⟩
        simp only [Trial.valid, Bool.and_eq_true]
        exact ⟨valid_of_seg (n := n) (by simp [hs]) ho, valid_of_seg (n := n) (by simp [hs]) hs'⟩
      · cases h
    · cases h
  · rintro ⟨hv, t, ht, rfl⟩
    simp only [Trial.valid, Bool.and_eq_true] at hv
    obtain ⟨ho, hs⟩ := hv
    obtain ⟨htne, htsf⟩ := pyInt_comp t _ ht
    have hsegs : segs (trialNameWith r.owner r.study t) = [kwOwners, r.owner, kwStudies, r.study, kwTrials, t] := by
      apply segs_join _ (by simp)
      intro c hc
      simp only [List.mem_cons, List.not_mem_nil, or_false] at hc
      rcases hc with rfl | rfl | rfl | rfl | rfl | rfl
      · exact slashFree_kwOwners
      · exact slashFree_of_valid ho
      · exact slashFree_kwStudies
      · exact slashFree_of_valid hs
      · exact slashFree_kwTrials
      · exact htsf
    unfold trialFromName
    rw [hsegs]
    simp only [ne_eq, ne_nil_of_valid ho, ne_nil_of_valid hs, htne, not_false_eq_true, and_self, if_true]
    exact (map_numComp_ok _ t r).mpr ⟨r.id, ht, rfl⟩

/-! ## Owner -/

theorem ownerFromName_ok_iff (n : List Char) (r : Owner) :
    ownerFromName n = .ok r ↔ r.valid = true ∧ n = ownerName r := by
  constructor
  · intro h
    unfold ownerFromName at h
    split at h
    · next k o hs =>
      split at h
      · next hc =>
        obtain ⟨rfl, ho⟩ := hc
        cases h
        exact ⟨valid_of_seg (n := n) (by simp [hs]) ho, eq_join_of_segs hs⟩
      · cases h
    · cases h
  · rintro ⟨hv, rfl⟩
    simp only [Owner.valid] at hv
    have hsegs : segs (ownerName r) = [kwOwners, r.owner] := by
      apply segs_join _ (by simp)
      intro c hc
      simp only [List.mem_cons, List.not_mem_nil, or_false] at hc
      rcases hc with rfl | rfl
      · exact slashFree_kwOwners
      · exact slashFree_of_valid hv
    unfold ownerFromName
    rw [hsegs]
    simp only [ne_eq, ne_nil_of_valid hv, not_false_eq_true, and_self, if_true]

/-! ## Study -/

theorem studyFromName_ok_iff (n : List Char) (r : Study) :
    studyFromName n = .ok r ↔ r.valid = true ∧ n = studyName r := by
  constructor
  · intro h
    unfold studyFromName at h
    split at h
    · next k₁ o k₂ s hs =>
      split at h
      · next hc =>
        obtain ⟨rfl, rfl, ho, hs'⟩ := hc
        cases h
        refine ⟨?_, eq_join_of_segs hs⟩
        simp only [Study.valid, Bool.and_eq_true]
        exact ⟨valid_of_seg (n := n) (by simp [hs]) ho, valid_of_seg (n := n) (by simp [hs]) hs'⟩
      · cases h
    · cases h
  · rintro ⟨hv, rfl⟩
    simp only [Study.valid, Bool.and_eq_true] at hv
    obtain ⟨ho, hs⟩ := hv
    have hsegs : segs (studyName r) = [kwOwners, r.owner, kwStudies, r.study] := by
      apply segs_join _ (by simp)
      intro c hc
      simp only [List.mem_cons, List.not_mem_nil, or_false] at hc
      rcases hc with rfl | rfl | rfl | rfl
      · exact slashFree_kwOwners
      · exact slashFree_of_valid ho
      · exact slashFree_kwStudies
      · exact slashFree_of_valid hs
    unfold studyFromName
    rw [hsegs]
    simp only [ne_eq, ne_nil_of_valid ho, ne_nil_of_valid hs, not_false_eq_true, and_self, if_true]

/-! ## EarlyStoppingOperation -/

theorem esFromName_ok_iff (n : List Char) (r : EsOp) :
    esFromName n = .ok r ↔
      r.valid = true ∧ ∃ t, pyInt t = some (r.id : Int) ∧ n = esNameWith r.owner r.study t := by
  constructor
  · intro h
    unfold esFromName at h
    split at h
    · next k₁ o k₂ k₃ s t hs =>
      split at h
      · next hc =>
        obtain ⟨rfl, rfl, rfl, ho, hs', _⟩ := hc
        obtain ⟨k, hk, rfl⟩ := (map_numComp_ok _ t r).mp h
        refine ⟨?_, t, hk, eq_join_of_segs hs⟩
        simp only [EsOp.valid, Bool.and_eq_true]
        exact ⟨valid_of_seg (n := n) (by simp [hs]) ho, valid_of_seg (n := n) (by simp [hs]) hs'⟩
      · cases h
    · cases h
  · rintro ⟨hv, t, ht, rfl⟩
    simp only [EsOp.valid, Bool.and_eq_true] at hv
    obtain ⟨ho, hs⟩ := hv
    obtain ⟨htne, htsf⟩ := pyInt_comp t _ ht
    have hsegs : segs (esNameWith r.owner r.study t) =
        [kwOwners, r.owner, kwOperations, kwEarlyStopping, r.study, t] := by
      apply segs_join _ (by simp)
      intro c hc
      simp only [List.mem_cons, List.not_mem_nil, or_false] at hc
      rcases hc with rfl | rfl | rfl | rfl | rfl | rfl
      · exact slashFree_kwOwners
      · exact slashFree_of_valid ho
      · exact slashFree_kwOperations
      · exact slashFree_kwEarlyStopping
      · exact slashFree_of_valid hs
      · exact htsf
    unfold esFromName
    rw [hsegs]
    simp only [ne_eq, ne_nil_of_valid ho, ne_nil_of_valid hs, htne, not_false_eq_true, and_self, if_true]
    exact (map_numComp_ok _ t r).mpr ⟨r.id, ht, rfl⟩

/-! ## SuggestionOperation -/

theorem sugFromName_ok_iff (n : List Char) (r : SugOp) :
    sugFromName n = .ok r ↔
      r.valid = true ∧ ∃ t, pyInt t = some (r.num : Int) ∧ n = sugNameWith r.owner r.study r.client t := by
  constructor
  · intro h
    unfold sugFromName at h
    split at h
    · next k₁ o k₂ k₃ s c t hs =>
      split at h
      · next hc =>
        obtain ⟨rfl, rfl, rfl, ho, hs', hc', _⟩ := hc
        obtain ⟨k, hk, rfl⟩ := (map_numComp_ok _ t r).mp h
        refine ⟨?_, t, hk, eq_join_of_segs hs⟩
        simp only [SugOp.valid, Bool.and_eq_true]
        exact ⟨⟨valid_of_seg (n := n) (by simp [hs]) ho, valid_of_seg (n := n) (by simp [hs]) hs'⟩,
          valid_of_seg (n := n) (by simp [hs]) hc'⟩
      · cases h
    · cases h
  · rintro ⟨hv, t, ht, rfl⟩
    simp only [SugOp.valid, Bool.and_eq_true] at hv
    obtain ⟨⟨ho, hs⟩, hc⟩ := hv
    obtain ⟨htne, htsf⟩ := pyInt_comp t _ ht
    have hsegs : segs (sugNameWith r.owner r.study r.client t) =
        [kwOwners, r.owner, kwOperations, kwSuggestion, r.study, r.client, t] := by
      apply segs_join _ (by simp)
      intro c hc'
      simp only [List.mem_cons, List.not_mem_nil, or_false] at hc'
      rcases hc' with rfl | rfl | rfl | rfl | rfl | rfl | rfl
      · exact slashFree_kwOwners
      · exact slashFree_of_valid ho
      · exact slashFree_kwOperations
      · exact slashFree_kwSuggestion
      · exact slashFree_of_valid hs
      · exact slashFree_of_valid hc
      · exact htsf
    unfold sugFromName
    rw [hsegs]
    simp only [ne_eq, ne_nil_of_valid ho, ne_nil_of_valid hs, ne_nil_of_valid hc, htne, not_false_eq_true,
      and_self, if_true]
    exact (map_numComp_ok _ t r).mpr ⟨r.num, ht, rfl⟩

/-! ## `trial_resource` -/

theorem trialResource_ok_iff (st : Study) (t : List Char) (r : Trial) :
    trialResource st t = .ok r ↔
      ∃ v : Int, pyInt t = some v ∧ 0 < v ∧ r = ⟨st.owner, st.study, v.toNat⟩ := by
  unfold trialResource
  cases h : pyInt t with
  | none => simp
  | some v =>
    by_cases hv : v ≤ 0
    · simp only [hv, if_true]
      constructor
      · intro h'; cases h'
      · rintro ⟨v', hv', hpos, _⟩; cases hv'; omega
    · simp only [hv, if_false]
      constructor
      · intro h'; cases h'; exact ⟨v, rfl, by omega, rfl⟩
      · rintro ⟨v', hv', _, rfl⟩; cases hv'; rfl

end VizierModel.Res
