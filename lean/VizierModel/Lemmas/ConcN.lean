/-
C04, any number of threads — the check-then-critical-section theorem.

`serialisable_n`: threads that are SetStudyState sections (no check, the only ones that write `Study.state`) or
state-independent sections (`StateIndep`, with or without a study check).  Every complete schedule of their
checks and sections gives the outcome (what every caller observes through `obs`, and the final study) of the
SERIAL execution of the threads in some order.  Proof: the invariant `Core ∧ Blk` of `Lemmas/ConcNInv.lean`
along the schedule (`inv_step`), no enumeration of schedules.

Where a thread goes in the serial order:
  * check failed                                   → at its check (the study is immutable there);
  * section runs where the serial check would pass → at its section;
  * state-independent section that runs while the study is immutable although the thread's check passed (or
    that has no check) and the study was mutable before the current immutable phase → just in front of the
    SetStudyState section that started the phase, behind the sections moved there earlier.  It crosses only
    SetStudyState sections and refused threads (`Block`).
-/
import VizierModel.Lemmas.ConcNInv

namespace VizierModel.Conc
open VizierModel.Svc

/-- no checking thread whose check passed is waiting for its section -/
def NoStalePending (ts : List Crit) (pre : List EvN) (c : CStateN) : Prop :=
  ∀ i t, ts[i]? = some t → t.checks = true → EvN.chk i ∈ pre → EvN.body i ∉ pre → c.passOf i = false

def Blk (ts : List Crit) (st : Study) (pre : List EvN) (c : CStateN) (σ : List Nat) : Prop :=
  ∃ P B, σ = P ++ B ∧ Block ts (serRun ts st P).1.state B c.st.state ∧
    (c.st.immutable = true → (serRun ts st P).1.immutable = false ∨ NoStalePending ts pre c)

theorem Blk.reset {ts : List Crit} {st : Study} {pre : List EvN} {c : CStateN} {σ : List Nat}
    (hst : (serRun ts st σ).1.state = c.st.state) (hns : c.st.immutable = true → NoStalePending ts pre c) :
    Blk ts st pre c σ :=
  ⟨σ, [], (List.append_nil σ).symm, by rw [hst]; exact Block.nil _, fun hi => Or.inr (hns hi)⟩

theorem Blk.of_same {ts : List Crit} {st : Study} {pre pre' : List EvN} {c c' : CStateN} {σ : List Nat}
    (h : Blk ts st pre c σ) (hst : c'.st = c.st)
    (hns : c.st.immutable = true → NoStalePending ts pre c → NoStalePending ts pre' c') : Blk ts st pre' c' σ := by
  obtain ⟨P, B, e, hb, hs⟩ := h
  refine ⟨P, B, e, by rw [hst]; exact hb, ?_⟩
  intro hi
  rw [hst] at hi
  rcases hs hi with h1 | h1
  · exact Or.inl h1
  · exact Or.inr (hns hi h1)

/-- a section event does not add a waiting thread -/
theorem NoStalePending.body {ts : List Crit} {pre : List EvN} {c c' : CStateN} (h : NoStalePending ts pre c)
    (k : Nat) (hp : ∀ i, c'.passOf i = c.passOf i) : NoStalePending ts (pre ++ [.body k]) c' := by
  intro i t hi hc hchk hbody
  rw [hp i]
  refine h i t hi hc ?_ (fun hm => hbody (List.mem_append_left _ hm))
  simpa using hchk

/-- a check event of a thread number out of range does not add a waiting thread -/
theorem NoStalePending.chk_none {ts : List Crit} {pre : List EvN} {c : CStateN} (h : NoStalePending ts pre c)
    (k : Nat) (hk : ts[k]? = none) : NoStalePending ts (pre ++ [.chk k]) c := by
  intro i t hi hc hchk hbody
  refine h i t hi hc ?_ (fun hm => hbody (List.mem_append_left _ hm))
  rcases List.mem_append.mp hchk with h1 | h1
  · exact h1
  · have hik : i = k := by simpa using h1
    rw [hik, hk] at hi
    exact absurd hi (by simp)

/-- a check event whose thread does not become a waiting checking thread with a passed check -/
theorem NoStalePending.chk {ts : List Crit} {pre : List EvN} {c : CStateN} (h : NoStalePending ts pre c)
    {k : Nat} {t : Crit} (hk : ts[k]? = some t) (b : Bool) (hb : t.checks = true → b = false) :
    NoStalePending ts (pre ++ [.chk k]) (chkState c k b) := by
  intro i t' hi hc hchk hbody
  rw [passOf_chkState]
  by_cases hik : i = k
  · rw [if_pos hik]
    rw [hik, hk] at hi
    have : t = t' := Option.some.inj hi
    exact hb (this ▸ hc)
  · rw [if_neg hik]
    refine h i t' hi hc ?_ (fun hm => hbody (List.mem_append_left _ hm))
    simpa [hik] using hchk

/-- what a complete schedule guarantees about an event given the events before it -/
def Valid (n : Nat) (pre : List EvN) : EvN → Prop
  | .chk k => k < n → EvN.chk k ∉ pre ∧ EvN.body k ∉ pre
  | .body k => k < n → EvN.chk k ∈ pre ∧ EvN.body k ∉ pre

theorem valid_of_complete {n : Nat} {pre post : List EvN} {e : EvN} (hc : Complete n (pre ++ e :: post)) :
    Valid n pre e := by
  cases e with
  | chk k =>
    intro hkn
    obtain ⟨h1, _, h3⟩ := hc k hkn
    have hnm : EvN.chk k ∉ pre := by
      rw [List.count_append, List.count_cons_self] at h1
      exact List.count_eq_zero.mp (by omega)
    refine ⟨hnm, ?_⟩
    intro hm
    rw [List.idxOf_append, List.idxOf_append, if_neg hnm, if_pos hm, List.idxOf_cons_self] at h3
    have := List.idxOf_lt_length_of_mem hm
    omega
  | body k =>
    intro hkn
    obtain ⟨_, h2, h3⟩ := hc k hkn
    have hnm : EvN.body k ∉ pre := by
      rw [List.count_append, List.count_cons_self] at h2
      exact List.count_eq_zero.mp (by omega)
    refine ⟨?_, hnm⟩
    apply Classical.byContradiction
    intro hm
    rw [List.idxOf_append, List.idxOf_append, if_neg hnm, if_neg hm, List.idxOf_cons_self] at h3
    omega

theorem inv_step_chk {ts : List Crit} {st : Study} {pre : List EvN} {c : CStateN} {σ : List Nat}
    (hC : Core ts st pre c σ) (hB : Blk ts st pre c σ) (k : Nat) (hv : Valid ts.length pre (.chk k)) :
    ∃ σ', Core ts st (pre ++ [.chk k]) (stepN ts c (.chk k)) σ' ∧ Blk ts st (pre ++ [.chk k]) (stepN ts c (.chk k)) σ' := by
  cases hj : ts[k]? with
  | none =>
    rw [stepN_chk_none hj]
    exact ⟨σ, hC.none _ (fun i _ => by simp), hB.of_same rfl (fun _ hns => hns.chk_none k hj)⟩
  | some t =>
    have hkn := lt_of_getElem?_some hj
    obtain ⟨hk1, hk2⟩ := hv hkn
    rw [stepN_chk_some hj]
    cases hf : (t.checks && c.st.immutable) with
    | false =>
      refine ⟨σ, hC.chk_pass k hk1 hk2, hB.of_same rfl (fun hi hns => hns.chk hj _ ?_)⟩
      intro hc
      rw [hc, hi] at hf
      exact Bool.noConfusion hf
    | true =>
      obtain ⟨hc, hi⟩ := Bool.and_eq_true_iff.mp hf
      have core := hC.chk_fail hj hc hi hk1 hk2
      refine ⟨σ ++ [k], core, ?_⟩
      obtain ⟨P, B, rfl, hb, hs⟩ := hB
      rcases hs hi with hP | hns
      · exact ⟨P, B ++ [k], List.append_assoc P B [k], hb.append (Block.ref hj hc hi (Block.nil _)),
          fun _ => Or.inl hP⟩
      · exact Blk.reset (congrArg (·.state) core.st_eq).symm (fun _ => hns.chk hj _ (fun _ => rfl))

section step
variable {ts : List Crit} (hts : ∀ c ∈ ts, (∃ s, c = critSetState s) ∨ StateIndep c)
include hts

theorem inv_step_body {st : Study} {pre : List EvN} {c : CStateN} {σ : List Nat}
    (hC : Core ts st pre c σ) (hB : Blk ts st pre c σ) (k : Nat) (hv : Valid ts.length pre (.body k)) :
    ∃ σ', Core ts st (pre ++ [.body k]) (stepN ts c (.body k)) σ' ∧
      Blk ts st (pre ++ [.body k]) (stepN ts c (.body k)) σ' := by
  cases hj : ts[k]? with
  | none =>
    rw [stepN_body_none hj]
    have hk : ¬ k < ts.length := by
      intro hlt
      rw [List.getElem?_eq_getElem hlt] at hj
      exact absurd hj (by simp)
    refine ⟨σ, hC.none _ (fun i hi e => ?_), hB.of_same rfl (fun _ hns => hns.body k (fun _ => rfl))⟩
    have : k = i := by simpa using e
    exact hk (this ▸ hi)
  | some t =>
    have hkn := lt_of_getElem?_some hj
    obtain ⟨hk1, hk2⟩ := hv hkn
    cases hp : c.passOf k with
    | false =>
      rw [stepN_body_ref hj c hp]
      exact ⟨σ, hC.body_ref hkn hp, hB.of_same rfl (fun _ hns => hns.body k (fun _ => rfl))⟩
    | true =>
      rw [stepN_body_pass hj c hp]
      have ht := hts t (List.mem_of_getElem? hj)
      obtain ⟨P, B, rfl, hb, hs⟩ := hB
      by_cases him : c.st.immutable = true
      · rcases hs him with hP | hns
        · rcases ht with ⟨s, rfl⟩ | hsi
          · -- a SetStudyState section while the study is immutable
            have core := hC.body_append hj hp rfl hk2
            by_cases him' : immS s = true
            · exact ⟨_, core, P, B ++ [k], List.append_assoc P B [k],
                hb.append (Block.set hj him' (Block.nil s)), fun _ => Or.inl hP⟩
            · exact ⟨_, core, Blk.reset (congrArg (·.state) core.st_eq).symm (fun hi' => absurd hi' him')⟩
          · -- a state-independent section while the study is immutable: in front of the block
            have hser : (t.checks && (serRun ts st P).1.immutable) = false := by rw [hP]; exact Bool.and_false _
            have core := hC.insert hb hj hsi hp hser hk2
            have hrunP := serRun_snoc_body hj st P hser
            refine ⟨_, core, P ++ [k], B, rfl, ?_, fun _ => Or.inl ?_⟩
            · have e1 : (serRun ts st (P ++ [k])).1.state = (serRun ts st P).1.state := by
                rw [hrunP]; exact hsi.state_eq _
              have e2 : (bodyState c k (t.body c.st)).st.state = c.st.state := hsi.state_eq _
              rw [e1, e2]
              exact hb
            · rw [hrunP]
              exact (hsi.presMut _).trans hP
        · -- before the study first became mutable: no checking thread can have passed
          have hc : t.checks = false := by
            cases hc : t.checks with
            | false => rfl
            | true =>
              have := hns k t hj hc hk1 hk2
              rw [hp] at this
              exact Bool.noConfusion this
          have core := hC.body_append hj hp (by rw [hc]; rfl) hk2
          exact ⟨_, core, Blk.reset (congrArg (·.state) core.st_eq).symm
            (fun _ => hns.body k (fun _ => rfl))⟩
      · have him0 : c.st.immutable = false := by simpa using him
        have core := hC.body_append hj hp (by rw [him0]; exact Bool.and_false _) hk2
        by_cases him' : (t.body c.st).2.immutable = true
        · rcases ht with ⟨s, rfl⟩ | hsi
          · -- the study becomes immutable: a new block starts
            refine ⟨_, core, P ++ B, [k], rfl, ?_, fun _ => Or.inl ?_⟩
            · rw [← hC.st_eq]
              exact Block.set hj him' (Block.nil s)
            · rw [← hC.st_eq]
              exact him0
          · exfalso
            rw [hsi.presMut c.st, him0] at him'
            exact Bool.noConfusion him'
        · exact ⟨_, core, Blk.reset (congrArg (·.state) core.st_eq).symm (fun hi' => absurd hi' him')⟩

theorem inv_step {st : Study} {pre : List EvN} {c : CStateN} {σ : List Nat}
    (hC : Core ts st pre c σ) (hB : Blk ts st pre c σ) (e : EvN) (hv : Valid ts.length pre e) :
    ∃ σ', Core ts st (pre ++ [e]) (stepN ts c e) σ' ∧ Blk ts st (pre ++ [e]) (stepN ts c e) σ' := by
  cases e with
  | chk k => exact inv_step_chk hC hB k hv
  | body k => exact inv_step_body hts hC hB k hv

theorem inv_run (st : Study) : ∀ (post pre : List EvN), Complete ts.length (pre ++ post) →
    ∀ σ, Core ts st pre (runN ts st pre) σ → Blk ts st pre (runN ts st pre) σ →
    ∃ σ', Core ts st (pre ++ post) (runN ts st (pre ++ post)) σ' := by
  intro post
  induction post with
  | nil =>
    intro pre _ σ hC _
    rw [List.append_nil]
    exact ⟨σ, hC⟩
  | cons e post ih =>
    intro pre hc σ hC hB
    obtain ⟨σ', hC', hB'⟩ := inv_step hts hC hB e (valid_of_complete hc)
    have hrun : runN ts st (pre ++ [e]) = stepN ts (runN ts st pre) e := by
      unfold runN
      rw [List.foldl_append]
      rfl
    rw [← hrun] at hC' hB'
    rw [List.append_cons] at hc ⊢
    exact ih (pre ++ [e]) hc σ' hC' hB'

end step

/-- MAIN LEMMA: every complete schedule of the study checks and critical sections of any number of threads —
    each a SetStudyState section or a state-independent section — gives what every caller observes and the
    final study of the serial execution of the threads in some order `π` (each thread exactly once). -/
theorem serialisable_n (ts : List Crit)
    (h : ∀ c ∈ ts, (∃ s, c = critSetState s) ∨ StateIndep c) (st : Study)
    (evs : List EvN) (hc : Complete ts.length evs) :
    ∃ π : List Nat, π.Perm (List.range ts.length) ∧
      outcomeN ts.length (runN ts st evs) = outcomeN ts.length (runN ts st (serialN π)) := by
  have h0 : Blk ts st [] (runN ts st []) [] :=
    Blk.reset rfl (fun _ i t _ _ hchk _ => absurd hchk List.not_mem_nil)
  obtain ⟨σ, hC⟩ := inv_run h st evs [] hc [] (Core.init ts st) h0
  rw [List.nil_append] at hC
  have hbody : ∀ i, i < ts.length → EvN.body i ∈ evs := by
    intro i hi
    have := (hc i hi).2.1
    apply Classical.byContradiction
    intro hm
    rw [List.count_eq_zero.mpr hm] at this
    exact Nat.zero_ne_one this
  refine ⟨σ, ?_, ?_⟩
  · refine (List.perm_ext_iff_of_nodup hC.nodup List.nodup_range).mpr (fun i => ?_)
    rw [hC.mem i, List.mem_range]
    exact ⟨fun hi => hi.1, fun hi => ⟨hi, Or.inl (hbody i hi)⟩⟩
  · obtain ⟨hs1, hs2⟩ := runN_serialN ts st σ
    unfold outcomeN
    rw [hs1, hs2, ← hC.st_eq]
    congr 1
    apply List.map_congr_left
    intro i hi
    exact hC.resp_eq i (List.mem_range.mp hi) (hbody i (List.mem_range.mp hi))

end VizierModel.Conc
