import VizierModel.Lemmas.ServiceSuggest
namespace VizierModel.Svc

@[simp] theorem putEsOp_trials (st : Study) (o : EsOp) : (st.putEsOp o).trials = st.trials := by
  unfold Study.putEsOp; split <;> rfl

@[simp] theorem applyDecisions_trials (st : Study) (ds : List (Nat × Bool)) : (applyDecisions st ds).trials = st.trials := by
  induction ds generalizing st with
  | nil => rfl
  | cons d ds ih => obtain ⟨i, b⟩ := d; simp [applyDecisions, ih]

theorem esCompute_ok (cfg : Cfg) (st : Study) (id : Nat) (es : EsOutcome) {ts : List Trial} (hn : Nodup' ts)
    (h1 : st.trials = ts) : TrialsOK ts (esCompute cfg st id es).2.trials := by
  unfold esCompute
  split
  · split
    · simpa [h1] using TrialsOK.refl hn
    · simpa [h1] using TrialsOK.refl hn
  · rename_i ds delta
    have hu := updateMetadata_ok cfg st delta (h1 ▸ hn)
    rw [h1] at hu
    simp only
    split
    · split <;> simpa using hu
    · split
      · split <;> simpa using hu
      · simpa using hu

theorem earlyStopBody_ok (cfg : Cfg) (st : Study) (id : Nat) (es : EsOutcome) (hn : Nodup' st.trials) :
    TrialsOK st.trials (earlyStopBody cfg st id es).2.trials := by
  unfold earlyStopBody
  split
  · exact TrialsOK.refl hn
  · split
    · exact TrialsOK.refl hn
    · split
      · exact esCompute_ok cfg _ id es hn (by simp)
      · split
        · exact TrialsOK.refl hn
        · exact esCompute_ok cfg _ id es hn (by simp)

/-! ### lifting to the database -/

def keyOf (st : Study) : String × String := (st.owner, st.sid)

/-- database invariant: study keys pairwise distinct, trial ids distinct within each study -/
structure Inv (db : DB) : Prop where
  keys : (db.studies.map keyOf).Nodup
  ids : ∀ st ∈ db.studies, Nodup' st.trials

theorem inv_empty : Inv DB.empty := ⟨by simp [DB.empty], by simp [DB.empty]⟩

theorem isStudy_iff (o s : String) (st : Study) : isStudy o s st = true ↔ keyOf st = (o, s) := by
  simp [isStudy, keyOf, Prod.ext_iff]

theorem findStudy_some {db : DB} {o s : String} {st : Study} (h : findStudy db o s = some st) :
    st ∈ db.studies ∧ keyOf st = (o, s) :=
  ⟨List.mem_of_find?_eq_some h, (isStudy_iff o s st).mp (List.find?_some h)⟩

theorem key_unique {db : DB} (hi : Inv db) {a b : Study} (ha : a ∈ db.studies) (hb : b ∈ db.studies)
    (hk : keyOf a = keyOf b) : a = b := by
  have := hi.keys
  generalize db.studies = l at *
  induction l with
  | nil => cases ha
  | cons x xs ih =>
    simp only [List.map_cons, List.nodup_cons, List.mem_map, not_exists, not_and] at this
    rcases List.mem_cons.mp ha with rfl | ha' <;> rcases List.mem_cons.mp hb with rfl | hb'
    · rfl
    · exact absurd hk.symm (this.1 b hb')
    · exact absurd hk (this.1 a ha')
    · exact ih ha' hb' this.2

/-- the per-study relation established by one RPC -/
def StudyOK (st st' : Study) : Prop := TrialsOK st.trials st'.trials

/-- a body that keeps the key of its study -/
def KeepsKey (f : Study → Resp × Study) : Prop := ∀ st, keyOf (f st).2 = keyOf st

theorem putStudy_studies (db : DB) (st' : Study) :
    (putStudy db st').studies = db.studies.map fun x => if isStudy st'.owner st'.sid x then st' else x := rfl

/-- `onStudy` with a well-behaved body preserves the invariant and evolves every study legally -/
theorem onStudy_ok {db : DB} (hi : Inv db) (o s : String) (guard : Bool) (f : Study → Resp × Study)
    (hk : KeepsKey f) (hf : ∀ st, Nodup' st.trials → TrialsOK st.trials (f st).2.trials) :
    Inv (onStudy db o s guard f).2 ∧
      ∀ st ∈ db.studies, ∀ st' ∈ (onStudy db o s guard f).2.studies, keyOf st = keyOf st' → StudyOK st st' := by
  have hrefl : Inv db ∧ ∀ st ∈ db.studies, ∀ st' ∈ db.studies, keyOf st = keyOf st' → StudyOK st st' :=
    ⟨hi, fun st hst st' hst' hkk => by rw [key_unique hi hst hst' hkk]; exact TrialsOK.refl (hi.ids _ hst')⟩
  unfold onStudy
  split
  · exact hrefl
  · rename_i st0 hfind
    obtain ⟨hm0, hk0⟩ := findStudy_some hfind
    split
    · exact hrefl
    · have hkey' : keyOf (f st0).2 = (o, s) := (hk st0).trans hk0
      have hos : (f st0).2.owner = o ∧ (f st0).2.sid = s := by
        simpa [keyOf, Prod.ext_iff] using hkey'
      have hstud : (putStudy db (f st0).2).studies = db.studies.map fun x => if isStudy o s x then (f st0).2 else x := by
        rw [putStudy_studies, hos.1, hos.2]
      have hmapkey : ∀ x ∈ db.studies, keyOf (if isStudy o s x then (f st0).2 else x) = keyOf x := by
        intro x hx
        by_cases h : isStudy o s x = true
        · simp only [h, if_true]; rw [hkey']; exact ((isStudy_iff o s x).mp h).symm
        · simp [h]
      refine ⟨⟨?_, ?_⟩, ?_⟩
      · have : (db.studies.map fun x => if isStudy o s x then (f st0).2 else x).map keyOf = db.studies.map keyOf := by
          rw [List.map_map]
          exact List.map_congr_left hmapkey
        show ((putStudy db (f st0).2).studies.map keyOf).Nodup
        rw [hstud, this]; exact hi.keys
      · intro st' hst'
        change st' ∈ (putStudy db (f st0).2).studies at hst'
        rw [hstud] at hst'
        obtain ⟨x, hx, rfl⟩ := List.mem_map.mp hst'
        by_cases h : isStudy o s x = true
        · simp only [h, if_true]
          exact (hf st0 (hi.ids _ hm0)).nodup
        · simp only [h]; exact hi.ids _ hx
      · intro st hst st' hst' hkk
        change st' ∈ (putStudy db (f st0).2).studies at hst'
        rw [hstud] at hst'
        obtain ⟨x, hx, rfl⟩ := List.mem_map.mp hst'
        have hxk : keyOf st = keyOf x := hkk.trans (hmapkey x hx)
        have : st = x := key_unique hi hst hx hxk
        subst this
        by_cases h : isStudy o s st = true
        · simp only [h, if_true]
          have : st = st0 := key_unique hi hst hm0 (((isStudy_iff o s st).mp h).trans hk0.symm)
          subst this
          exact hf st (hi.ids _ hst)
        · simp only [h]
          exact TrialsOK.refl (hi.ids _ hst)

end VizierModel.Svc
