/- `segs` (= `str.split('/')`) and `join` (= `'/'.join`) are mutually inverse on lists of slash-free segments. -/
import VizierModel.Model.Resources
namespace VizierModel.Res

/-- no `'/'` in the string -/
def SlashFree (c : List Char) : Prop := ∀ x ∈ c, x ≠ '/'

theorem validComp_iff (c : List Char) : validComp c = true ↔ c ≠ [] ∧ SlashFree c := by
  simp [validComp, SlashFree]

theorem segs_ne_nil (s : List Char) : segs s ≠ [] := by
  induction s with
  | nil => simp [segs]
  | cons c cs ih =>
    unfold segs
    split
    · simp
    · cases segs cs <;> simp [consHead]

theorem join_cons_cons (a b : List Char) (r : List (List Char)) :
    join (a :: b :: r) = a ++ '/' :: join (b :: r) := rfl

theorem join_cons_of_ne_nil (a : List Char) (l : List (List Char)) (h : l ≠ []) :
    join (a :: l) = a ++ '/' :: join l := by
  cases l with
  | nil => exact absurd rfl h
  | cons b r => rfl

theorem join_consHead (c : Char) (l : List (List Char)) (h : l ≠ []) :
    join (consHead c l) = c :: join l := by
  cases l with
  | nil => exact absurd rfl h
  | cons f fs =>
    cases fs with
    | nil => simp [consHead, join]
    | cons g gs => simp [consHead, join]

/-- `'/'.join(s.split('/')) == s` -/
theorem join_segs (s : List Char) : join (segs s) = s := by
  induction s with
  | nil => simp [segs, join]
  | cons c cs ih =>
    unfold segs
    split
    · next h => rw [join_cons_of_ne_nil _ _ (segs_ne_nil cs), ih, h]; rfl
    · rw [join_consHead _ _ (segs_ne_nil cs), ih]

theorem segs_slashFree (s : List Char) : ∀ c ∈ segs s, SlashFree c := by
  induction s with
  | nil => simp [segs, SlashFree]
  | cons x xs ih =>
    unfold segs
    split
    · intro c hc
      rcases List.mem_cons.mp hc with rfl | hc
      · simp [SlashFree]
      · exact ih c hc
    · next hx =>
      have hne := segs_ne_nil xs
      cases hs : segs xs with
      | nil => exact absurd hs hne
      | cons f fs =>
        rw [hs] at ih
        intro c hc
        simp only [consHead, List.mem_cons] at hc
        rcases hc with rfl | hc
        · intro y hy
          rcases List.mem_cons.mp hy with rfl | hy
          · exact hx
          · exact ih f (by simp) y hy
        · exact ih c (by simp [hc])

theorem segs_append_slash (c : List Char) (hc : SlashFree c) (rest : List Char) :
    segs (c ++ '/' :: rest) = c :: segs rest := by
  induction c with
  | nil => simp [segs]
  | cons x xs ih =>
    have hx : x ≠ '/' := hc x (by simp)
    have hxs : SlashFree xs := fun y hy => hc y (by simp [hy])
    have : segs (x :: xs ++ '/' :: rest) = consHead x (segs (xs ++ '/' :: rest)) := by
      simp [segs, hx]
    rw [this, ih hxs]; rfl

theorem segs_of_slashFree (c : List Char) (hc : SlashFree c) : segs c = [c] := by
  induction c with
  | nil => simp [segs]
  | cons x xs ih =>
    have hx : x ≠ '/' := hc x (by simp)
    have hxs : SlashFree xs := fun y hy => hc y (by simp [hy])
    have : segs (x :: xs) = consHead x (segs xs) := by simp [segs, hx]
    rw [this, ih hxs]; rfl

/-- `'/'.join(l).split('/') == l` for a non-empty list of slash-free strings -/
theorem segs_join (l : List (List Char)) (hne : l ≠ []) (h : ∀ c ∈ l, SlashFree c) :
    segs (join l) = l := by
  induction l with
  | nil => exact absurd rfl hne
  | cons a r ih =>
    cases r with
    | nil => simpa [join] using segs_of_slashFree a (h a (by simp))
    | cons b r' =>
      rw [join_cons_cons, segs_append_slash a (h a (by simp))]
      rw [ih (by simp) (fun c hc => h c (by simp [hc]))]

/-- `join` is injective on non-empty lists of slash-free strings -/
theorem join_inj (l₁ l₂ : List (List Char)) (h₁ : l₁ ≠ []) (h₂ : l₂ ≠ [])
    (s₁ : ∀ c ∈ l₁, SlashFree c) (s₂ : ∀ c ∈ l₂, SlashFree c) (h : join l₁ = join l₂) : l₁ = l₂ := by
  rw [← segs_join l₁ h₁ s₁, ← segs_join l₂ h₂ s₂, h]

theorem slashFree_kwOwners : SlashFree kwOwners := by unfold SlashFree kwOwners; decide
theorem slashFree_kwStudies : SlashFree kwStudies := by unfold SlashFree kwStudies; decide
theorem slashFree_kwTrials : SlashFree kwTrials := by unfold SlashFree kwTrials; decide
theorem slashFree_kwOperations : SlashFree kwOperations := by unfold SlashFree kwOperations; decide
theorem slashFree_kwEarlyStopping : SlashFree kwEarlyStopping := by unfold SlashFree kwEarlyStopping; decide
theorem slashFree_kwSuggestion : SlashFree kwSuggestion := by unfold SlashFree kwSuggestion; decide

end VizierModel.Res
