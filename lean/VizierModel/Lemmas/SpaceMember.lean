/-
Lemmas for C16 (membership, space level): `assert_contains`'s length test plus the
per-parameter loop is "exactly the names of the space" plus the per-parameter test.
-/
import VizierModel.Lemmas.Space
import Mathlib.Data.List.Perm.Subperm
namespace VizierModel.Space
set_option linter.unusedSimpArgs false

/-- the per-parameter verdict, uniformly in the type -/
theorem pcContains_true_iff (cfg : Cfg) (h : Hdr) (v : PVal) (hwf : h.wf = true) :
    pcContains cfg h v = .ok true ↔ (typeOK h v && inDomain h v) = true := by
  cases ht : h.type with
  | double => rw [pcContains_double cfg h v ht hwf]; simp
  | discrete => rw [pcContains_discrete cfg h v ht hwf]; simp
  | categorical => rw [pcContains_categorical cfg h v ht hwf]; simp
  | custom =>
    rw [pcContains_custom cfg h v ht]
    simp [typeOK, ht]
  | integer =>
    rw [pcContains_integer cfg h v ht hwf]
    by_cases hc : (v = .flt .pinf ∨ v = .flt .ninf) ∧ cfg.intInfGuard = false
    · rw [if_pos hc]
      rcases hc.1 with rfl | rfl <;> simp [typeOK, inDomain, ht, ratOf]
    · rw [if_neg hc]; simp

/-- with the guard (`Cfg.fixed`) the verdict is always the specification's, for every declared type -/
theorem pcContains_fixed (h : Hdr) (v : PVal) (hwf : h.wf = true) (hc : h.type ≠ .custom) :
    pcContains Cfg.fixed h v = .ok (typeOK h v && inDomain h v) := by
  cases ht : h.type with
  | double => exact pcContains_double _ h v ht hwf
  | discrete => exact pcContains_discrete _ h v ht hwf
  | categorical => exact pcContains_categorical _ h v ht hwf
  | custom => exact absurd ht hc
  | integer =>
    rw [pcContains_integer _ h v ht hwf, if_neg]
    simp [Cfg.fixed]

theorem lookup_some_mem {a : Assign} {n : String} {v : PVal} (h : lookup a n = some v) : n ∈ keys a := by
  unfold lookup at h
  rw [Option.map_eq_some_iff] at h
  obtain ⟨e, he, _⟩ := h
  have hm := List.mem_of_find?_eq_some he
  have hn := List.find?_some he
  simp only [beq_iff_eq] at hn
  exact hn ▸ List.mem_map_of_mem hm

theorem lookup_isSome_of_mem {a : Assign} {n : String} (h : n ∈ keys a) : ∃ v, lookup a n = some v := by
  unfold keys at h
  rw [List.mem_map] at h
  obtain ⟨e, he, hn⟩ := h
  unfold lookup
  cases hf : a.find? (fun e => e.1 == n) with
  | some x => exact ⟨x.2, rfl⟩
  | none =>
    rw [List.find?_eq_none] at hf
    have := hf e he
    simp [hn] at this

/-- the loop of `assert_contains` succeeds iff every parameter is present and accepted -/
theorem checkAll_ok_iff (cfg : Cfg) (a : Assign) (ss : List PC) :
    checkAll cfg a ss = .ok () ↔ ∀ p ∈ ss, ∃ v, lookup a p.name = some v ∧ pcContains cfg p.h v = .ok true := by
  induction ss with
  | nil => simp [checkAll]
  | cons p ps ih =>
    simp only [List.mem_cons, forall_eq_or_imp]
    unfold checkAll
    cases hl : lookup a p.name with
    | none => simp
    | some v =>
      cases hc : pcContains cfg p.h v with
      | error e => simp [hc]
      | ok b => cases b <;> simp [hc, ih]

/-- … and otherwise it fails with InvalidParameterError or with the error of a parameter test -/
theorem checkAll_error (cfg : Cfg) (a : Assign) (ss : List PC) (e : Err) (h : checkAll cfg a ss = .error e) :
    e = .invalidParam ∨ ∃ p ∈ ss, ∃ v, lookup a p.name = some v ∧ pcContains cfg p.h v = .error e := by
  induction ss with
  | nil => simp [checkAll] at h
  | cons p ps ih =>
    unfold checkAll at h
    cases hl : lookup a p.name with
    | none => simp only [hl] at h; simp at h; exact Or.inl h.symm
    | some v =>
      simp only [hl] at h
      cases hc : pcContains cfg p.h v with
      | error e' =>
        simp only [hc] at h; simp at h; subst h
        exact Or.inr ⟨p, List.mem_cons_self .., v, hl, hc⟩
      | ok b =>
        simp only [hc] at h
        cases b with
        | false => simp at h; exact Or.inl h.symm
        | true =>
          rcases ih h with h1 | ⟨q, hq, w, hw, hcw⟩
          · exact Or.inl h1
          · exact Or.inr ⟨q, List.mem_cons_of_mem _ hq, w, hw, hcw⟩

/-- pigeonhole: two duplicate-free lists of the same length, one inside the other, have the same elements -/
theorem subset_of_nodup_length {α : Type} {l₁ l₂ : List α} (d : l₁.Nodup) (hs : l₁ ⊆ l₂)
    (hl : l₂.length ≤ l₁.length) : l₂ ⊆ l₁ :=
  ((List.subperm_of_subset d hs).perm_of_length_le hl).symm.subset

theorem length_eq_of_nodup_subsets {α : Type} {l₁ l₂ : List α} (d₁ : l₁.Nodup) (d₂ : l₂.Nodup)
    (h₁ : l₁ ⊆ l₂) (h₂ : l₂ ⊆ l₁) : l₁.length = l₂.length :=
  Nat.le_antisymm (List.subperm_of_subset d₁ h₁).length_le (List.subperm_of_subset d₂ h₂).length_le

theorem contains_ok_true_iff (cfg : Cfg) (ss : List PC) (a : Assign) :
    contains cfg ss a = .ok true ↔ assertContains cfg ss a = .ok () := by
  unfold contains
  cases h : assertContains cfg ss a with
  | ok u => simp
  | error e => cases e <;> simp

end VizierModel.Space
