/-
Lemmas for C17: `ParameterValue.cast` on stored values, `auto_cast`, the wire.
-/
import VizierModel.Lemmas.Space
import VizierModel.Model.PresentSpec
namespace VizierModel.Space
set_option linter.unusedSimpArgs false

/-- what comes off the wire: a double or a string -/
def Wired (v : PVal) : Prop := (∃ x, v = .flt x) ∨ (∃ s, v = .str s)

theorem wire_wired (v : PVal) : Wired (wire v) := by
  cases v with
  | str s => exact Or.inr ⟨s, rfl⟩
  | int i => exact Or.inl ⟨_, rfl⟩
  | bool b => exact Or.inl ⟨_, rfl⟩
  | flt x => exact Or.inl ⟨x, rfl⟩

/-- the wire keeps the numeric value (and strings) -/
theorem wire_numOf (v : PVal) : numOf (wire v) = numOf v := by
  cases v <;> rfl

theorem wire_idem (v : PVal) : wire (wire v) = wire v := by
  cases v <;> rfl

theorem Flt.beq_self {x : Flt} (h : x ≠ .nan) : x.beq x = true := by
  cases x <;> simp [Flt.beq] at h ⊢

theorem pyRoundQ_eq_iff (q : Rat) : ((pyRoundQ q : Int) : Rat) = q ↔ q.den = 1 := by
  constructor
  · intro h
    have := congrArg Rat.den h
    rw [Rat.den_intCast] at this
    exact this.symm
  · intro h
    have hf : q.floor = q.num := by unfold Rat.floor; rw [if_pos h]
    have hq : ((q.num : Int) : Rat) = q := by
      apply Rat.ext
      · exact Rat.num_intCast _
      · rw [Rat.den_intCast, h]
    unfold pyRoundQ
    simp only [hf, hq]
    have : q - q = 0 := Rat.sub_self
    rw [this]
    have h12 : (0 : Rat) < 1 / 2 := by decide
    rw [if_pos h12]
    exact hq

/-- `all([v == round(v) ...])` decides "all feasible values are integral" -/
theorem allRoundTrip_eq (fv : List PVal) (b : Bool) (h : allRoundTrip fv = .ok b) : b = allIntegral fv := by
  induction fv generalizing b with
  | nil => unfold allRoundTrip at h; cases h; rfl
  | cons v vs ih =>
    unfold allRoundTrip at h
    cases hr : pyRound v with
    | error e => rw [hr] at h; cases h
    | ok r =>
      rw [hr] at h
      simp only at h
      cases ha : allRoundTrip vs with
      | error e => rw [ha] at h; cases h
      | ok b' =>
        rw [ha] at h
        cases h
        rw [ih b' ha]
        simp only [allIntegral, List.all_cons]
        congr 1
        cases v with
        | str s => simp [pyRound] at hr
        | int i =>
          simp [pyRound] at hr; subst hr
          simp [pyEq, numOf, Flt.beq, ratOf, isIntegralQ, Rat.den_intCast]
        | bool b =>
          simp [pyRound] at hr; subst hr
          simp [pyEq, numOf, Flt.beq, ratOf, isIntegralQ, b2r_den, b2i_cast]
        | flt x =>
          cases x with
          | nan => simp [pyRound] at hr
          | pinf => simp [pyRound] at hr
          | ninf => simp [pyRound] at hr
          | fin q =>
            simp [pyRound] at hr; subst hr
            simp only [pyEq, numOf, Flt.beq, ratOf, isIntegralQ]
            by_cases hd : q.den = 1
            · simp [hd, (pyRoundQ_eq_iff q).mpr hd]
            · have : ¬ (q = ((pyRoundQ q : Int) : Rat)) := fun hh => hd ((pyRoundQ_eq_iff q).mp hh.symm)
              simp [hd, this]

end VizierModel.Space
