/-
Lemmas for C17: `ParameterValue.cast` on stored values, `auto_cast`, the wire.
-/
import VizierModel.Lemmas.Space
import VizierModel.Model.PresentSpec
namespace VizierModel.Space
set_option linter.unusedSimpArgs false

/-- what comes off the wire: a double or a string -/
def Wired (v : PVal) : Prop := (∃ x, v = .flt x) ∨ (∃ s, v = .str s)

theorem wire_wired (v : PVal) : Wired (wire v) := by
  cases v with
  | str s => exact Or.inr ⟨s, rfl⟩
  | int i => exact Or.inl ⟨_, rfl⟩
  | bool b => exact Or.inl ⟨_, rfl⟩
  | flt x => exact Or.inl ⟨x, rfl⟩

/-- the wire keeps the numeric value (and strings) -/
theorem wire_numOf (v : PVal) : numOf (wire v) = numOf v := by
  cases v <;> rfl

theorem wire_idem (v : PVal) : wire (wire v) = wire v := by
  cases v <;> rfl

theorem Flt.beq_self {x : Flt} (h : x ≠ .nan) : x.beq x = true := by
  cases x <;> simp [Flt.beq] at h ⊢

theorem pyRoundQ_eq_iff (q : Rat) : ((pyRoundQ q : Int) : Rat) = q ↔ q.den = 1 := by
  constructor
  · intro h
    have := congrArg Rat.den h
    rw [Rat.den_intCast] at this
    exact this.symm
  · intro h
    have hf : q.floor = q.num := by unfold Rat.floor; rw [if_pos h]
    have hq : ((q.num : Int) : Rat) = q := by
      apply Rat.ext
      · exact Rat.num_intCast _
      · rw [Rat.den_intCast, h]
    unfold pyRoundQ
    simp only [hf, hq]
    have : q - q = 0 := Rat.sub_self
    rw [this]
    have h12 : (0 : Rat) < 1 / 2 := by decide +kernel
    rw [if_pos h12]
    exact hq

/-- `all([v == round(v) ...])` decides "all feasible values are integral" -/
theorem allRoundTrip_eq (fv : List PVal) (b : Bool) (h : allRoundTrip fv = .ok b) : b = allIntegral fv := by
  induction fv generalizing b with
  | nil => unfold allRoundTrip at h; cases h; rfl
  | cons v vs ih =>
    unfold allRoundTrip at h
    cases hr : pyRound v with
    | error e => rw [hr] at h; cases h
    | ok r =>
      rw [hr] at h
      simp only at h
      cases ha : allRoundTrip vs with
      | error e => rw [ha] at h; cases h
      | ok b' =>
        rw [ha] at h
        cases h
        rw [ih b' ha]
        simp only [allIntegral, List.all_cons]
        congr 1
        cases v with
        | str s => simp [pyRound] at hr
        | int i =>
          simp [pyRound] at hr; subst hr
          simp [pyEq, numOf, Flt.beq, ratOf, isIntegralQ, Rat.den_intCast]
        | bool b =>
          simp [pyRound] at hr; subst hr
          simp [pyEq, numOf, Flt.beq, ratOf, isIntegralQ, b2r_den, b2i_cast]
        | flt x =>
          cases x with
          | nan => simp [pyRound] at hr
          | pinf => simp [pyRound] at hr
          | ninf => simp [pyRound] at hr
          | fin q =>
            simp [pyRound] at hr; subst hr
            simp only [pyEq, numOf, Flt.beq, ratOf, isIntegralQ]
            by_cases hd : q.den = 1
            · simp [hd, (pyRoundQ_eq_iff q).mpr hd]
            · have : ¬ (q = ((pyRoundQ q : Int) : Rat)) := fun hh => hd ((pyRoundQ_eq_iff q).mp hh.symm)
              simp [hd, this]

theorem typeOK_numeric_wired {h : Hdr} {v : PVal} (hn : h.type.isNumeric = true) (hw : Wired v)
    (ht : typeOK h v = true) : ∃ x, v = .flt x ∧ x ≠ .nan := by
  rcases hw with ⟨x, rfl⟩ | ⟨s, rfl⟩
  · refine ⟨x, rfl, ?_⟩
    cases hty : h.type <;> rw [hty] at hn <;> simp [PType.isNumeric] at hn <;>
      (simp only [typeOK, hty, isNumber, numOf] at ht; intro hx; subst hx; simp at ht)
  · cases hty : h.type <;> rw [hty] at hn <;> simp [PType.isNumeric] at hn <;>
      simp [typeOK, hty, isNumber, numOf] at ht

/-- MAIN (per value): a stored value that lies in the parameter's domain is presented with
the same value, in the declared type -/
theorem cast_stored (h : Hdr) (v : PVal) (hw : Wired v) (hext : extOK h = true)
    (hin : (typeOK h v && inDomain h v) = true) :
    ∃ r, cast h.ext v = .ok (some r) ∧ valueOK h v (some r) = true := by
  simp only [Bool.and_eq_true] at hin
  obtain ⟨ht, hd⟩ := hin
  cases he : h.ext with
  | internal =>
    refine ⟨v, by simp [cast], ?_⟩
    cases hty : h.type with
    | custom => simp [typeOK, hty] at ht
    | categorical =>
      rcases hw with ⟨x, rfl⟩ | ⟨s, rfl⟩
      · simp [typeOK, hty, isStr, isBool] at ht
      · simp [valueOK, sameValue, pyEq, declaredTag, he, hty, tagOf]
    | double =>
      obtain ⟨x, rfl, hx⟩ := typeOK_numeric_wired (by rw [hty]; rfl) hw ht
      simp [valueOK, sameValue, pyEq, numOf, Flt.beq_self hx, declaredTag, he, hty, tagOf]
    | discrete =>
      obtain ⟨x, rfl, hx⟩ := typeOK_numeric_wired (by rw [hty]; rfl) hw ht
      simp [valueOK, sameValue, pyEq, numOf, Flt.beq_self hx, declaredTag, he, hty, tagOf]
    | integer =>
      obtain ⟨x, rfl, hx⟩ := typeOK_numeric_wired (by rw [hty]; rfl) hw ht
      simp [valueOK, sameValue, pyEq, numOf, Flt.beq_self hx, declaredTag, he, hty]
  | boolean =>
    simp only [extOK, he, Bool.and_eq_true, beq_iff_eq, List.all_eq_true, Bool.or_eq_true, decide_eq_true_eq] at hext
    obtain ⟨hty, hfe⟩ := hext
    rcases hw with ⟨x, rfl⟩ | ⟨s, rfl⟩
    · simp [typeOK, hty, isStr, isBool] at ht
    · simp only [inDomain, hty, strForm, List.any_eq_true, decide_eq_true_eq] at hd
      obtain ⟨f, hf, rfl⟩ := hd
      rcases hfe _ hf with hs | hs
      · have : s = "True" := by injection hs
        subst this
        exact ⟨.bool true, by simp [cast, asBool, TRUE_VALUE], by simp [valueOK, sameValue, pyEq, declaredTag, he, tagOf]⟩
      · have : s = "False" := by injection hs
        subst this
        exact ⟨.bool false, by simp [cast, asBool, TRUE_VALUE, FALSE_VALUE], by simp [valueOK, sameValue, pyEq, declaredTag, he, tagOf]⟩
  | integer =>
    simp only [extOK, he, Bool.or_eq_true, Bool.and_eq_true, beq_iff_eq] at hext
    have hnum : h.type.isNumeric = true := by
      rcases hext with ⟨hty, _⟩ | hty <;> rw [hty] <;> rfl
    obtain ⟨x, rfl, hx⟩ := typeOK_numeric_wired hnum hw ht
    -- the stored value is an integral finite number
    have hq : ∃ q, x = .fin q ∧ q.den = 1 := by
      rcases hext with ⟨hty, hai⟩ | hty
      · simp only [inDomain, hty] at hd
        cases x with
        | fin q =>
          refine ⟨q, rfl, ?_⟩
          have r1 : ratOf (PVal.flt (.fin q)) = some q := rfl
          simp only [r1, List.any_eq_true, decide_eq_true_eq] at hd
          obtain ⟨f, hf, hfq⟩ := hd
          have := List.all_eq_true.mp hai f hf
          simp only [hfq] at this
          exact (isIntegralQ_iff q).mp this
        | nan => simp [ratOf] at hd
        | pinf => simp [ratOf] at hd
        | ninf => simp [ratOf] at hd
      · simp only [inDomain, hty] at hd
        cases x with
        | fin q =>
          simp only [ratOf, Bool.and_eq_true] at hd
          exact ⟨q, rfl, (isIntegralQ_iff q).mp hd.1⟩
        | nan => simp [ratOf] at hd
        | pinf => simp [ratOf] at hd
        | ninf => simp [ratOf] at hd
    obtain ⟨q, rfl, hden⟩ := hq
    refine ⟨.int (truncQ q), by simp [cast, asInt], ?_⟩
    have := (intCast_truncQ_eq_iff q).mpr hden
    simp [valueOK, sameValue, pyEq, numOf, Flt.beq, this, declaredTag, he, tagOf]
  | float =>
    simp only [extOK, he] at hext
    obtain ⟨x, rfl, hx⟩ := typeOK_numeric_wired hext hw ht
    exact ⟨.flt x, by simp [cast, asFloat],
      by simp [valueOK, sameValue, pyEq, numOf, Flt.beq_self hx, declaredTag, he, tagOf]⟩

end VizierModel.Space
