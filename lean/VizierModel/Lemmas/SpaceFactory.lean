/-
Lemmas for C16 (`ParameterConfig.factory`): what a successful call guarantees
(normalisation, type inference) and which argument combinations are refused.
-/
import VizierModel.Lemmas.Space
import VizierModel.Lemmas.Sort
import Mathlib.Data.String.Basic
namespace VizierModel.Space
set_option linter.unusedSimpArgs false

/-! ### the two orders used by `sorted` -/

def FinNum (v : PVal) : Prop := (ratOf v).isSome = true

theorem finNum_of (v : PVal) (h1 : isNumInst v = true) (h2 : isFinitePV v = true) : FinNum v := by
  unfold FinNum
  cases v with
  | str s => simp [isNumInst, isIntInst, isFloatInst] at h1
  | int i => rfl
  | bool b => rfl
  | flt x => cases x <;> simp [isFinitePV, numOf, Flt.isFinite] at h2; rfl

theorem pyLe_totalOn : TotalOn pyLe FinNum where
  total x y hx hy := by
    obtain ⟨a, ha⟩ := Option.isSome_iff_exists.mp hx
    obtain ⟨b, hb⟩ := Option.isSome_iff_exists.mp hy
    rw [pyLe_ratOf ha hb, pyLe_ratOf hb ha]
    simpa using Rat.le_total (a := a) (b := b)
  trans x y z hx hy hz := by
    obtain ⟨a, ha⟩ := Option.isSome_iff_exists.mp hx
    obtain ⟨b, hb⟩ := Option.isSome_iff_exists.mp hy
    obtain ⟨c, hc⟩ := Option.isSome_iff_exists.mp hz
    rw [pyLe_ratOf ha hb, pyLe_ratOf hb hc, pyLe_ratOf ha hc]
    simp only [decide_eq_true_eq]
    exact Rat.le_trans

theorem strLe_totalOn : TotalOn strLe (fun v => isStr v = true) where
  total x y hx hy := by
    cases x <;> simp [isStr] at hx
    cases y <;> simp [isStr] at hy
    simp only [strLe, decide_eq_true_eq]
    exact String.le_total _ _
  trans x y z hx hy hz := by
    cases x <;> simp [isStr] at hx
    cases y <;> simp [isStr] at hy
    cases z <;> simp [isStr] at hz
    simp only [strLe, decide_eq_true_eq]
    exact String.le_trans

theorem Flt.beq_comm (x y : Flt) : x.beq y = y.beq x := by
  cases x <;> cases y <;> simp [Flt.beq, eq_comm]

theorem pyEq_comm (a b : PVal) : pyEq a b = pyEq b a := by
  cases a <;> cases b <;> simp [pyEq, numOf, Flt.beq_comm, eq_comm]

/-- strictly increasing finite numbers after sorting a duplicate-free list -/
theorem sorted_nums_strict (fv : List PVal) (hd : hasDup fv = false) (hf : ∀ v ∈ fv, FinNum v) :
    strictAdj numLt (insSort pyLe fv) = true := by
  apply strictAdj_of_pairwise
  have hs := insSort_sorted pyLe_totalOn fv hf
  have hn : (insSort pyLe fv).Pairwise fun a b => pyEq a b = false :=
    ((insSort_perm pyLe fv).pairwise_iff (fun {x y} h => by rw [pyEq_comm]; exact h)).mpr
      ((hasDup_false_iff fv).mp hd)
  refine (hs.and hn).imp_of_mem ?_
  intro a b ha hb ⟨h1, h2⟩
  obtain ⟨x, hx⟩ := Option.isSome_iff_exists.mp (hf a ((mem_insSort pyLe fv a).mp ha))
  obtain ⟨y, hy⟩ := Option.isSome_iff_exists.mp (hf b ((mem_insSort pyLe fv b).mp hb))
  rw [pyLe_ratOf hx hy] at h1
  rw [pyEq_ratOf hx hy] at h2
  simp only [decide_eq_true_eq, decide_eq_false_iff_not] at h1 h2
  simp only [numLt, hx, hy, decide_eq_true_eq]
  exact Rat.lt_of_le_of_ne h1 h2

theorem sorted_strs_strict (fv : List PVal) (hd : hasDup fv = false) (hf : ∀ v ∈ fv, isStr v = true) :
    strictAdj strLt (insSort strLe fv) = true := by
  apply strictAdj_of_pairwise
  have hs := insSort_sorted strLe_totalOn fv hf
  have hn : (insSort strLe fv).Pairwise fun a b => pyEq a b = false :=
    ((insSort_perm strLe fv).pairwise_iff (fun {x y} h => by rw [pyEq_comm]; exact h)).mpr
      ((hasDup_false_iff fv).mp hd)
  refine (hs.and hn).imp_of_mem ?_
  intro a b ha hb ⟨h1, h2⟩
  have sa := hf a ((mem_insSort strLe fv a).mp ha)
  have sb := hf b ((mem_insSort strLe fv b).mp hb)
  cases a <;> simp [isStr] at sa
  cases b <;> simp [isStr] at sb
  simp only [strLe, decide_eq_true_eq] at h1
  simp only [pyEq, beq_eq_false_iff_ne, ne_eq] at h2
  simp only [strLt, decide_eq_true_eq]
  exact lt_of_le_of_ne h1 h2

/-! ### `inferDomain`: what success means -/

theorem insSort_ne_nil {α : Type} (le : α → α → Bool) {l : List α} (h : l ≠ []) : insSort le l ≠ [] := by
  intro hn
  have := (insSort_perm le l).length_eq
  rw [hn] at this
  exact h (List.eq_nil_of_length_eq_zero this.symm)

theorem nonEmpty_getD {o : Option (List PVal)} (h : nonEmpty o = true) : o.getD [] ≠ [] ∧ o = some (o.getD []) := by
  cases o with
  | none => simp [nonEmpty] at h
  | some l => cases l with
    | nil => simp [nonEmpty] at h
    | cons x xs => simp

theorem validateBounds_ok {b : List PVal} {r : PVal × PVal} (h : validateBounds b = .ok r) :
    b = [r.1, r.2] ∧ isFinitePV r.1 = true ∧ isFinitePV r.2 = true ∧ pyLe r.1 r.2 = true := by
  unfold validateBounds at h
  match b, h with
  | [lo, hi], h =>
    simp only at h
    by_cases hf : (!(isFinitePV lo && isFinitePV hi)) = true
    · rw [if_pos hf] at h; cases h
    · rw [if_neg hf] at h
      by_cases hle : pyLe lo hi = true
      · rw [if_pos hle] at h
        cases h
        simp only [Bool.not_eq_true', Bool.not_eq_false, Bool.and_eq_true] at hf
        exact ⟨rfl, hf.1, hf.2, hle⟩
      · rw [if_neg hle] at h; cases h

/-- result of the domain inference, by case -/
inductive Inferred (a : FArgs) : PType → Option (PVal × PVal) → List PVal → Prop where
  | discrete (fv : List PVal) (hfe : a.feasible = some fv) (hne : fv ≠ []) (hb : nonEmpty a.bounds = false)
      (hd : hasDup fv = false) (hnum : fv.all isNumInst = true) (hfin : fv.all isFinitePV = true) :
      Inferred a .discrete
        (match (insSort pyLe fv).head?, (insSort pyLe fv).getLast? with | some x, some y => some (x, y) | _, _ => none)
        (insSort pyLe fv)
  | categorical (fv : List PVal) (hfe : a.feasible = some fv) (hne : fv ≠ []) (hb : nonEmpty a.bounds = false)
      (hd : hasDup fv = false) (hstr : fv.all isStr = true) :
      Inferred a .categorical none (insSort strLe fv)
  | integer (lo hi : PVal) (hfe : nonEmpty a.feasible = false) (hb : a.bounds = some [lo, hi])
      (hi1 : isIntInst lo = true) (hi2 : isIntInst hi = true) (hf1 : isFinitePV lo = true)
      (hf2 : isFinitePV hi = true) (hle : pyLe lo hi = true) :
      Inferred a .integer (some (lo, hi)) []
  | double (lo hi : PVal) (hfe : nonEmpty a.feasible = false) (hb : a.bounds = some [lo, hi])
      (hi1 : isFloatInst lo = true) (hi2 : isFloatInst hi = true) (hf1 : isFinitePV lo = true)
      (hf2 : isFinitePV hi = true) (hle : pyLe lo hi = true) :
      Inferred a .double (some (lo, hi)) []
  | custom (hfe : nonEmpty a.feasible = false) (hb : nonEmpty a.bounds = false) : Inferred a .custom none []

theorem inferDomain_ok {a : FArgs} {t : PType} {b : Option (PVal × PVal)} {fv : List PVal}
    (h : inferDomain a = .ok (t, b, fv)) : Inferred a t b fv := by
  unfold inferDomain at h
  by_cases h1 : (nonEmpty a.feasible && nonEmpty a.bounds) = true
  · rw [if_pos h1] at h; cases h
  rw [if_neg h1] at h
  by_cases h2 : nonEmpty a.feasible = true
  · rw [if_pos h2] at h
    have hb : nonEmpty a.bounds = false := by
      cases hbb : nonEmpty a.bounds with
      | false => rfl
      | true => simp [h2, hbb] at h1
    obtain ⟨hne, hfe⟩ := nonEmpty_getD h2
    simp only at h
    by_cases h3 : hasDup (a.feasible.getD []) = true
    · rw [if_pos h3] at h; cases h
    rw [if_neg h3] at h
    have hd : hasDup (a.feasible.getD []) = false := by simpa using h3
    by_cases h4 : (a.feasible.getD []).all isNumInst = true
    · rw [if_pos h4] at h
      by_cases h5 : (!(a.feasible.getD []).all isFinitePV) = true
      · rw [if_pos h5] at h; cases h
      rw [if_neg h5] at h
      have hfin : (a.feasible.getD []).all isFinitePV = true := by simpa using h5
      have hsne := insSort_ne_nil pyLe hne
      cases hh : (insSort pyLe (a.feasible.getD [])).head? with
      | none => rw [List.head?_eq_none_iff] at hh; exact absurd hh hsne
      | some x =>
        cases hl : (insSort pyLe (a.feasible.getD [])).getLast? with
        | none => rw [List.getLast?_eq_none_iff] at hl; exact absurd hl hsne
        | some y =>
          simp only [hh, hl] at h
          cases h
          have := Inferred.discrete (a := a) _ hfe hne hb hd h4 hfin
          simpa only [hh, hl] using this
    · rw [if_neg h4] at h
      by_cases h6 : (a.feasible.getD []).all isStr = true
      · rw [if_pos h6] at h; cases h
        exact Inferred.categorical _ hfe hne hb hd h6
      · rw [if_neg h6] at h; cases h
  · rw [if_neg h2] at h
    have hfe : nonEmpty a.feasible = false := by simpa using h2
    by_cases h7 : nonEmpty a.bounds = true
    · rw [if_pos h7] at h
      obtain ⟨_, hbe⟩ := nonEmpty_getD h7
      match hm : a.bounds.getD [], h with
      | b0 :: b1 :: rest, h =>
        simp only at h
        by_cases h8 : (isIntInst b0 && isIntInst b1) = true
        · rw [if_pos h8] at h
          cases hv : validateBounds (b0 :: b1 :: rest) with
          | error e => rw [hv] at h; cases h
          | ok r =>
            rw [hv] at h; cases h
            obtain ⟨e1, f1, f2, hle⟩ := validateBounds_ok hv
            simp only [List.cons.injEq] at e1
            obtain ⟨rfl, rfl, rfl⟩ := e1
            simp only [Bool.and_eq_true] at h8
            exact Inferred.integer _ _ hfe (by rw [hbe, hm]) h8.1 h8.2 f1 f2 hle
        · rw [if_neg h8] at h
          by_cases h9 : (isFloatInst b0 && isFloatInst b1) = true
          · rw [if_pos h9] at h
            cases hv : validateBounds (b0 :: b1 :: rest) with
            | error e => rw [hv] at h; cases h
            | ok r =>
              rw [hv] at h; cases h
              obtain ⟨e1, f1, f2, hle⟩ := validateBounds_ok hv
              simp only [List.cons.injEq] at e1
              obtain ⟨rfl, rfl, rfl⟩ := e1
              simp only [Bool.and_eq_true] at h9
              exact Inferred.double _ _ hfe (by rw [hbe, hm]) h9.1 h9.2 f1 f2 hle
          · rw [if_neg h9] at h; cases h
      | [_], h => cases h
      | [], h => cases h
    · rw [if_neg h7] at h
      cases h
      exact Inferred.custom hfe (by simpa using h7)

theorem ratOf_of_int_fin {v : PVal} (h1 : isIntInst v = true) : ∃ q, ratOf v = some q := by
  cases v <;> simp [isIntInst] at h1 <;> exact ⟨_, rfl⟩

theorem ratOf_of_fin {v : PVal} (h2 : isFinitePV v = true) : ∃ q, ratOf v = some q := by
  cases v with
  | str s => simp [isFinitePV, numOf] at h2
  | int i => exact ⟨_, rfl⟩
  | bool b => exact ⟨_, rfl⟩
  | flt x => cases x <;> simp [isFinitePV, numOf, Flt.isFinite] at h2; exact ⟨_, rfl⟩

/-- a successful inference yields a normalised, well-formed header -/
theorem Inferred.normalised {a : FArgs} {t : PType} {b : Option (PVal × PVal)} {fv : List PVal}
    (h : Inferred a t b fv) (name : String) (dflt : Option PVal) (ext : ExtType) :
    Space.normalised ⟨name, t, b, fv, dflt, ext⟩ = true ∧ Hdr.wf ⟨name, t, b, fv, dflt, ext⟩ = true := by
  cases h with
  | discrete fv0 hfe hne hb hd hnum hfin =>
    have hF : ∀ v ∈ fv0, FinNum v := fun v hv =>
      finNum_of v (List.all_eq_true.mp hnum v hv) (List.all_eq_true.mp hfin v hv)
    have hmem : ∀ f ∈ insSort pyLe fv0, isNumInst f = true ∧ (ratOf f).isSome = true := fun f hf =>
      have hf' := (mem_insSort pyLe fv0 f).mp hf
      ⟨List.all_eq_true.mp hnum f hf', hF f hf'⟩
    have e1 : (insSort pyLe fv0).isEmpty = false := by
      rw [List.isEmpty_eq_false_iff]; exact insSort_ne_nil pyLe hne
    have e2 : ((insSort pyLe fv0).all fun f => isNumInst f && (ratOf f).isSome) = true := by
      rw [List.all_eq_true]; intro f hf; simp [hmem f hf]
    have e3 := sorted_nums_strict fv0 hd hF
    constructor
    · simp [Space.normalised, notNormalised, e1, e2, e3]
      generalize (insSort pyLe fv0).head? = hh
      generalize (insSort pyLe fv0).getLast? = ll
      cases hh <;> cases ll <;> rfl
    · simp only [Hdr.wf, List.all_eq_true]
      exact fun f hf => (hmem f hf).2
  | categorical fv0 hfe hne hb hd hstr =>
    have hS : ∀ v ∈ fv0, isStr v = true := fun v hv => List.all_eq_true.mp hstr v hv
    have hmem : ∀ f ∈ insSort strLe fv0, isStr f = true := fun f hf => hS f ((mem_insSort strLe fv0 f).mp hf)
    have e1 : (insSort strLe fv0).isEmpty = false := by
      rw [List.isEmpty_eq_false_iff]; exact insSort_ne_nil strLe hne
    have e2 : (insSort strLe fv0).all isStr = true := by rw [List.all_eq_true]; exact hmem
    have e3 := sorted_strs_strict fv0 hd hS
    constructor
    · simp [Space.normalised, notNormalised, e1, e2, e3]
    · simp only [Hdr.wf]; exact e2
  | integer lo hi hfe hb hi1 hi2 hf1 hf2 hle =>
    obtain ⟨l, hl⟩ := ratOf_of_fin hf1
    obtain ⟨u, hu⟩ := ratOf_of_fin hf2
    rw [pyLe_ratOf hl hu] at hle
    simp only [decide_eq_true_eq] at hle
    constructor
    · simp [Space.normalised, notNormalised, hi1, hi2, hl, hu, hle]
    · simp [Hdr.wf, hl, hu]
  | double lo hi hfe hb hi1 hi2 hf1 hf2 hle =>
    obtain ⟨l, hl⟩ := ratOf_of_fin hf1
    obtain ⟨u, hu⟩ := ratOf_of_fin hf2
    rw [pyLe_ratOf hl hu] at hle
    simp only [decide_eq_true_eq] at hle
    constructor
    · simp [Space.normalised, notNormalised, hi1, hi2, hl, hu, hle]
    · simp [Hdr.wf, hl, hu]
  | custom hfe hb => exact ⟨rfl, rfl⟩

/-! ### children never touch the header -/

theorem addKid_h {cfg : Cfg} {p p' : PC} {v : PVal} {c : PC} (h : addKid cfg p v c = .ok p') : p'.h = p.h := by
  unfold addKid at h
  cases hk : subspaceKey cfg p.h v with
  | error e => rw [hk] at h; cases h
  | ok k =>
    rw [hk] at h
    simp only at h
    by_cases hd : ((subspaceOf p k).any fun q => q.name == c.name) = true
    · rw [if_pos hd] at h; cases h
    · rw [if_neg hd] at h; cases h; rfl

theorem addKidForValues_h {cfg : Cfg} {c : PC} {vs : List PVal} {p p' : PC}
    (h : addKidForValues cfg c p vs = .ok p') : p'.h = p.h := by
  induction vs generalizing p with
  | nil => unfold addKidForValues at h; cases h; rfl
  | cons v vs ih =>
    unfold addKidForValues at h
    cases hk : addKid cfg p v c with
    | error e => rw [hk] at h; cases h
    | ok p1 => rw [hk] at h; exact (ih h).trans (addKid_h hk)

theorem addChildren_h {cfg : Cfg} {cs : List (List PVal × PC)} {p p' : PC}
    (h : addChildren cfg p cs = .ok p') : p'.h = p.h := by
  induction cs generalizing p with
  | nil => unfold addChildren at h; cases h; rfl
  | cons vc rest ih =>
    obtain ⟨vals, c⟩ := vc
    unfold addChildren at h
    cases hs : pySorted vals with
    | error e => rw [hs] at h; cases h
    | ok sv =>
      rw [hs] at h
      simp only at h
      cases hk : addKidForValues cfg c p sv with
      | error e => rw [hk] at h; cases h
      | ok p1 => rw [hk] at h; exact (ih h).trans (addKidForValues_h hk)

/-- inversion of a successful `factory` call -/
theorem factory_ok {cfg : Cfg} {a : FArgs} {p : PC} (h : factory cfg a = .ok p) :
    a.name.isEmpty = false ∧ ∃ t b fv d, inferDomain a = .ok (t, b, fv) ∧
      (match a.default with | none => d = none | some x => ∃ d', getDefault t x = .ok d' ∧ d = some d') ∧
      p.h = ⟨a.name, t, b, fv, d, a.ext⟩ ∧
      addChildren cfg (.mk ⟨a.name, t, b, fv, d, a.ext⟩ []) a.children = .ok p := by
  unfold factory at h
  by_cases hn : a.name.isEmpty = true
  · rw [if_pos hn] at h; cases h
  rw [if_neg hn] at h
  refine ⟨by simpa using hn, ?_⟩
  cases hi : inferDomain a with
  | error e => rw [hi] at h; cases h
  | ok r =>
    obtain ⟨t, b, fv⟩ := r
    rw [hi] at h
    simp only at h
    cases hd : a.default with
    | none =>
      rw [hd] at h
      simp only at h
      exact ⟨t, b, fv, none, rfl, by simp, addChildren_h h, h⟩
    | some x =>
      rw [hd] at h
      simp only at h
      cases hg : getDefault t x with
      | error e => rw [hg] at h; cases h
      | ok d' =>
        rw [hg] at h
        simp only at h
        exact ⟨t, b, fv, some d', rfl, ⟨d', hg, rfl⟩, addChildren_h h, h⟩

/-! ### rejections -/

theorem factory_of_inferDomain_value {cfg : Cfg} {a : FArgs} (h : inferDomain a = .error .value) :
    factory cfg a = .error .value := by
  unfold factory
  by_cases hn : a.name.isEmpty = true
  · rw [if_pos hn]
  · rw [if_neg hn, h]

theorem inferDomain_both {a : FArgs} (h1 : nonEmpty a.feasible = true) (h2 : nonEmpty a.bounds = true) :
    inferDomain a = .error .value := by
  unfold inferDomain; simp [h1, h2]

/-- the feasible-values branch of `inferDomain`, reached or pre-empted by the both-given error -/
theorem inferDomain_feasible_branch {a : FArgs} (h1 : nonEmpty a.feasible = true)
    (hbad : hasDup (a.feasible.getD []) = true ∨
      ((a.feasible.getD []).all isNumInst = true ∧ (a.feasible.getD []).all isFinitePV = false) ∨
      ((a.feasible.getD []).all isNumInst = false ∧ (a.feasible.getD []).all isStr = false)) :
    inferDomain a = .error .value := by
  by_cases h2 : nonEmpty a.bounds = true
  · exact inferDomain_both h1 h2
  unfold inferDomain
  simp only [h1, h2, Bool.and_false, Bool.false_eq_true, if_false, if_true]
  by_cases hd : hasDup (a.feasible.getD []) = true
  · simp [hd]
  · rcases hbad with h | ⟨hn, hf⟩ | ⟨hn, hs⟩
    · exact absurd h hd
    · simp [hd, hn, hf]
    · simp [hd, hn, hs]

theorem inferDomain_bad_bounds {a : FArgs} {lo hi : PVal} (h1 : nonEmpty a.feasible = false)
    (hb : a.bounds = some [lo, hi])
    (hbad : isFinitePV lo = false ∨ isFinitePV hi = false ∨ pyLe lo hi = false) :
    inferDomain a = .error .value := by
  have hv : validateBounds [lo, hi] = .error .value := by
    unfold validateBounds
    rcases hbad with h | h | h
    · simp [h]
    · simp [h]
    · by_cases hf : (!(isFinitePV lo && isFinitePV hi)) = true
      · simp only [hf, if_true]
      · simp only [hf, if_false, h, Bool.false_eq_true]
  have hb2 : nonEmpty a.bounds = true := by rw [hb]; rfl
  have hb3 : a.bounds.getD [] = [lo, hi] := by rw [hb]; rfl
  unfold inferDomain
  simp only [h1, hb2, hb3, Bool.false_and, Bool.false_eq_true, if_false, if_true, hv]
  by_cases hi' : (isIntInst lo && isIntInst hi) = true
  · simp [hi']
  · by_cases hf' : (isFloatInst lo && isFloatInst hi) = true
    · simp [hi', hf']
    · simp [hi', hf']

theorem subspaceKey_continuous (cfg : Cfg) (h : Hdr) (v : PVal) (ht : h.type = .double ∨ h.type = .custom) :
    subspaceKey cfg h v = .error .type := by
  unfold subspaceKey
  rcases ht with ht | ht <;> simp [ht]

theorem addKidForValues_continuous {cfg : Cfg} {c : PC} {vs : List PVal} {p p' : PC}
    (ht : p.h.type = .double ∨ p.h.type = .custom) (h : addKidForValues cfg c p vs = .ok p') : vs = [] ∧ p' = p := by
  cases vs with
  | nil => unfold addKidForValues at h; cases h; exact ⟨rfl, rfl⟩
  | cons v vs =>
    unfold addKidForValues addKid at h
    rw [subspaceKey_continuous cfg p.h v ht] at h
    cases h

theorem addChildren_continuous {cfg : Cfg} {cs : List (List PVal × PC)} {p p' : PC}
    (ht : p.h.type = .double ∨ p.h.type = .custom) (h : addChildren cfg p cs = .ok p') : p' = p := by
  induction cs generalizing p with
  | nil => unfold addChildren at h; cases h; rfl
  | cons vc rest ih =>
    obtain ⟨vals, c⟩ := vc
    unfold addChildren at h
    cases hs : pySorted vals with
    | error e => rw [hs] at h; cases h
    | ok sv =>
      rw [hs] at h
      simp only at h
      cases hk : addKidForValues cfg c p sv with
      | error e => rw [hk] at h; cases h
      | ok p1 =>
        rw [hk] at h
        obtain ⟨_, rfl⟩ := addKidForValues_continuous ht hk
        exact ih ht h

theorem pySorted_ne_nil {vs sv : List PVal} (h : pySorted vs = .ok sv) (hne : vs ≠ []) : sv ≠ [] := by
  unfold pySorted at h
  by_cases h1 : vs.all isNumInst = true
  · rw [if_pos h1] at h
    by_cases h2 : (vs.all fun v => numOf v != some .nan) = true
    · rw [if_pos h2] at h; cases h; exact insSort_ne_nil _ hne
    · rw [if_neg h2] at h; cases h
  · rw [if_neg h1] at h
    by_cases h3 : vs.all isStr = true
    · rw [if_pos h3] at h; cases h; exact insSort_ne_nil _ hne
    · rw [if_neg h3] at h; cases h

end VizierModel.Space
