/-
"No early-stopping record is ever left ACTIVE": for the repaired service every record that
`get_early_stopping_operation` can return (`esOpOf`) is finished in every reachable database.
Stated over `esOpOf`, so no uniqueness of trial ids inside `esOps` is needed.
-/
import VizierModel.Lemmas.ServiceEs
namespace VizierModel.Svc

/-- what `get_early_stopping_operation` can return for any trial id is a finished record -/
def EsIdle (st : Study) : Prop := ∀ id o, esOpOf st id = some o → o.active = false

/-- … for every trial id except possibly `id` (the trial whose check is in progress) -/
def EsIdleExcept (st : Study) (id : Nat) : Prop := ∀ j o, j ≠ id → esOpOf st j = some o → o.active = false

theorem EsIdle.except {st : Study} (h : EsIdle st) (id : Nat) : EsIdleExcept st id :=
  fun j o _ hj => h j o hj

theorem esOpOf_of_esOps_eq {st st' : Study} (e : st'.esOps = st.esOps) (j : Nat) : esOpOf st' j = esOpOf st j := by
  unfold esOpOf; rw [e]

theorem esIdle_of_esOps_eq {st st' : Study} (e : st'.esOps = st.esOps) (h : EsIdle st) : EsIdle st' := by
  intro j o ho; rw [esOpOf_of_esOps_eq e] at ho; exact h j o ho

theorem esIdleExcept_of_esOps_eq {st st' : Study} (e : st'.esOps = st.esOps) {id : Nat} (h : EsIdleExcept st id) :
    EsIdleExcept st' id := by
  intro j o hj ho; rw [esOpOf_of_esOps_eq e] at ho; exact h j o hj ho

/-! ### 1. `putEsOp` touches only the record of its own trial id -/

theorem esOpOf_putEsOp_ne (st : Study) (o : EsOp) (j : Nat) (hj : j ≠ o.trialId) :
    esOpOf (st.putEsOp o) j = esOpOf st j := by
  have h1 : (o.trialId == j) = false := by
    simp only [beq_eq_false_iff_ne, ne_eq]; exact fun h => hj h.symm
  unfold Study.putEsOp
  split
  · unfold esOpOf
    simp only
    generalize st.esOps = l
    induction l with
    | nil => rfl
    | cons y ys ih =>
      simp only [List.map_cons, List.find?_cons]
      by_cases hy : (y.trialId == o.trialId) = true
      · have e : y.trialId = o.trialId := beq_iff_eq.mp hy
        have h2 : (y.trialId == j) = false := by rw [e]; exact h1
        simp only [hy, if_true, h1, h2]
        exact ih
      · have hy' : (y.trialId == o.trialId) = false := by simpa using hy
        simp only [hy', Bool.false_eq_true, if_false]
        cases (y.trialId == j)
        · exact ih
        · rfl
  · unfold esOpOf
    simp only
    rw [List.find?_append]
    simp [h1]

/-! ### 2. finished records keep the other ids idle -/

theorem putEsOp_esIdleExcept (st : Study) (o : EsOp) (id : Nat) (ho : o.active = false) (h : EsIdleExcept st id) :
    EsIdleExcept (st.putEsOp o) id := by
  intro j x hj hx
  by_cases e : j = o.trialId
  · subst e
    rw [esOpOf_putEsOp] at hx
    cases hx; exact ho
  · rw [esOpOf_putEsOp_ne st o j e] at hx
    exact h j x hj hx

/-- writing a record (finished or not) for trial `o.trialId` does not disturb the other ids -/
theorem putEsOp_esIdleExcept_self (st : Study) (o : EsOp) (h : EsIdleExcept st o.trialId) :
    EsIdleExcept (st.putEsOp o) o.trialId := by
  intro j x hj hx
  rw [esOpOf_putEsOp_ne st o j hj] at hx
  exact h j x hj hx

/-- finishing the record of the one id that might be ACTIVE makes the study idle -/
theorem putEsOp_esIdle (st : Study) (o : EsOp) (ho : o.active = false) (h : EsIdleExcept st o.trialId) :
    EsIdle (st.putEsOp o) := by
  intro j x hx
  by_cases e : j = o.trialId
  · subst e
    rw [esOpOf_putEsOp] at hx
    cases hx; exact ho
  · rw [esOpOf_putEsOp_ne st o j e] at hx
    exact h j x e hx

theorem applyDecisions_esIdleExcept (st : Study) (ds : List (Nat × Bool)) (id : Nat) (h : EsIdleExcept st id) :
    EsIdleExcept (applyDecisions st ds) id := by
  induction ds generalizing st with
  | nil => exact h
  | cons d ds ih =>
    obtain ⟨i, b⟩ := d
    simp only [applyDecisions]
    exact ih _ (putEsOp_esIdleExcept st _ id rfl h)

theorem applyDecisions_esIdle (st : Study) (ds : List (Nat × Bool)) (h : EsIdle st) : EsIdle (applyDecisions st ds) := by
  induction ds generalizing st with
  | nil => exact h
  | cons d ds ih =>
    obtain ⟨i, b⟩ := d
    simp only [applyDecisions]
    exact ih _ (putEsOp_esIdle st _ rfl (h.except _))

/-! ### 3. `esCompute` finishes the checked trial's record in every outcome -/

theorem updateMetadata_esOps (cfg : Cfg) (st : Study) (us : List (Meta.Upd K String)) :
    (st.updateMetadata cfg us).2.esOps = st.esOps := by
  unfold Study.updateMetadata
  split
  · split <;> rfl
  · rfl

theorem esCompute_esIdle (cfg : Cfg) (hc1 : cfg.esFailureFinishesOp = true) (hc2 : cfg.esAnswerFinishesOp = true)
    (st : Study) (id : Nat) (es : EsOutcome) (h : EsIdleExcept st id) : EsIdle (esCompute cfg st id es).2 := by
  unfold esCompute
  split
  · -- the algorithm raises
    simp only [hc1, if_true]
    exact putEsOp_esIdle st _ rfl h
  · rename_i ds delta
    have hr : EsIdleExcept (st.updateMetadata cfg delta).2 id :=
      esIdleExcept_of_esOps_eq (updateMetadata_esOps cfg st delta) h
    simp only [hc2, if_true, Bool.and_true]
    split
    · -- metadata delta refused
      exact putEsOp_esIdle _ (esDone id) rfl hr
    · have h3 : EsIdleExcept (applyDecisions (st.updateMetadata cfg delta).2 ds) id :=
        applyDecisions_esIdleExcept _ ds id hr
      split
      · rename_i o ho
        split
        · -- no decision for the checked trial
          exact putEsOp_esIdle _ (esDone id) rfl h3
        · rename_i hact
          intro j x hx
          by_cases e : j = id
          · subst e
            rw [ho] at hx
            cases hx
            simpa using hact
          · exact h3 j x e hx
      · rename_i ho
        intro j x hx
        by_cases e : j = id
        · subst e; rw [ho] at hx; cases hx
        · exact h3 j x e hx

/-! ### 4. the whole RPC body -/

theorem earlyStopBody_esIdle (cfg : Cfg) (hc1 : cfg.esFailureFinishesOp = true) (hc2 : cfg.esAnswerFinishesOp = true)
    (st : Study) (id : Nat) (es : EsOutcome) (h : EsIdle st) : EsIdle (earlyStopBody cfg st id es).2 := by
  unfold earlyStopBody
  split
  · exact h
  · split
    · exact h
    · split
      · exact esCompute_esIdle cfg hc1 hc2 _ id es
          (putEsOp_esIdleExcept_self st { trialId := id, active := true, shouldStop := false } (h.except id))
      · rename_i o ho
        split
        · exact h
        · have hid : o.trialId = id := by
            unfold esOpOf at ho
            have := List.find?_some ho
            exact beq_iff_eq.mp this
          subst hid
          exact esCompute_esIdle cfg hc1 hc2 _ _ es
            (putEsOp_esIdleExcept_self st { o with active := true, shouldStop := false } (h.except _))

/-- the same from a state in which the checked trial's OWN record may be ACTIVE (what a server that died inside
    an earlier check of that trial leaves behind): the repaired service recomputes such a record, so the check
    of a mutable trial leaves the study idle.  When the stored answer is returned the record is a finished
    one and the state is unchanged, so no proviso is needed. -/
theorem earlyStopBody_esIdle_of_except (cfg : Cfg) (hc1 : cfg.esFailureFinishesOp = true)
    (hc2 : cfg.esAnswerFinishesOp = true) (hra : cfg.esResumesActive = true)
    (st : Study) (id : Nat) (t : Trial) (ht : st.findTrial id = some t) (hm : t.state.mutable = true)
    (es : EsOutcome) (h : EsIdleExcept st id) : EsIdle (earlyStopBody cfg st id es).2 := by
  unfold earlyStopBody
  simp only [ht, hm, Bool.not_true, Bool.false_eq_true, if_false]
  split
  · exact esCompute_esIdle cfg hc1 hc2 _ id es
      (putEsOp_esIdleExcept_self st { trialId := id, active := true, shouldStop := false } h)
  · rename_i o ho
    split
    · rename_i hs
      -- the stored answer is returned: the record is finished, nothing is written
      have hact : o.active = false := by
        unfold esReturnsStored at hs
        rw [hra] at hs
        cases hoa : o.active
        · rfl
        · rw [hoa] at hs; simp at hs
      intro j x hx
      by_cases e : j = id
      · subst e; rw [ho] at hx; cases hx; exact hact
      · exact h j x e hx
    · have hid : o.trialId = id := by
        unfold esOpOf at ho
        have := List.find?_some ho
        exact beq_iff_eq.mp this
      subst hid
      exact esCompute_esIdle cfg hc1 hc2 _ _ es
        (putEsOp_esIdleExcept_self st { o with active := true, shouldStop := false } h)

/-! ### 4b. from ANY state: the check finishes its own record and opens no other

A crash inside `CheckTrialEarlyStoppingState` can also leave the record of ANOTHER trial ACTIVE (a decision for a
trial without a record is stored as "create ACTIVE, then set DONE": `decisionWrites`), so `EsIdleExcept` need not
hold of every crash state.  Without any idleness hypothesis: -/

theorem putEsOp_active_other (st : Study) (o : EsOp) (ho : o.active = false) (j : Nat) (x : EsOp)
    (hx : esOpOf (st.putEsOp o) j = some x) (hact : x.active = true) : esOpOf st j = some x := by
  by_cases e : j = o.trialId
  · subst e
    rw [esOpOf_putEsOp] at hx
    cases hx
    rw [ho] at hact; cases hact
  · rwa [esOpOf_putEsOp_ne st o j e] at hx

theorem applyDecisions_active_other (st : Study) (ds : List (Nat × Bool)) (j : Nat) (x : EsOp)
    (hx : esOpOf (applyDecisions st ds) j = some x) (hact : x.active = true) : esOpOf st j = some x := by
  induction ds generalizing st with
  | nil => exact hx
  | cons d ds ih =>
    obtain ⟨i, b⟩ := d
    simp only [applyDecisions] at hx
    exact putEsOp_active_other st _ rfl j x (ih _ hx) hact

/-- an ACTIVE record of another trial seen after `esCompute` was there, unchanged, before -/
theorem esCompute_active_other (cfg : Cfg) (st : Study) (id : Nat) (es : EsOutcome) (j : Nat) (x : EsOp) (hj : j ≠ id)
    (hx : esOpOf (esCompute cfg st id es).2 j = some x) (hact : x.active = true) : esOpOf st j = some x := by
  unfold esCompute at hx
  split at hx
  · split at hx
    · rwa [esOpOf_putEsOp_ne st _ j hj] at hx
    · exact hx
  · rename_i ds delta
    have e0 : ∀ k, esOpOf (st.updateMetadata cfg delta).2 k = esOpOf st k :=
      fun k => esOpOf_of_esOps_eq (updateMetadata_esOps cfg st delta) k
    simp only at hx
    split at hx
    · split at hx
      · rw [esOpOf_putEsOp_ne _ (esDone id) j hj, e0] at hx; exact hx
      · rw [e0] at hx; exact hx
    · split at hx
      · split at hx
        · rw [esOpOf_putEsOp_ne _ (esDone id) j hj] at hx
          rw [← e0]; exact applyDecisions_active_other _ ds j x hx hact
        · rw [← e0]; exact applyDecisions_active_other _ ds j x hx hact
      · rw [← e0]; exact applyDecisions_active_other _ ds j x hx hact

/-- `esCompute` of the repaired service leaves the checked trial's own record finished, from any state -/
theorem esCompute_own_finished (cfg : Cfg) (hc1 : cfg.esFailureFinishesOp = true) (hc2 : cfg.esAnswerFinishesOp = true)
    (st : Study) (id : Nat) (es : EsOutcome) (o : EsOp) (ho : esOpOf (esCompute cfg st id es).2 id = some o) :
    o.active = false := by
  unfold esCompute at ho
  split at ho
  · simp only [hc1, if_true] at ho
    have := esOpOf_putEsOp st { trialId := id, active := false, shouldStop := false }
    simp only at this
    rw [this] at ho; cases ho; rfl
  · rename_i ds delta
    simp only [hc2, if_true, Bool.and_true] at ho
    have hd : ∀ s : Study, esOpOf (s.putEsOp (esDone id)) id = some (esDone id) := fun s => esOpOf_putEsOp s (esDone id)
    split at ho
    · rw [hd] at ho; cases ho; rfl
    · split at ho
      · rename_i o' ho'
        split at ho
        · rw [hd] at ho; cases ho; rfl
        · rename_i hact
          simp only at ho
          rw [ho'] at ho; cases ho
          simpa using hact
      · rename_i ho'
        simp only at ho
        rw [ho'] at ho; cases ho

/-- **from any study state** (no idleness hypothesis at all) a check of a mutable trial `id` by the repaired
    service leaves `id`'s record finished, and every ACTIVE record of another trial seen afterwards was there,
    unchanged, before: the check opens no record that it does not finish. -/
theorem earlyStopBody_finishes_own_opens_none (cfg : Cfg) (hc1 : cfg.esFailureFinishesOp = true)
    (hc2 : cfg.esAnswerFinishesOp = true) (hra : cfg.esResumesActive = true)
    (st : Study) (id : Nat) (t : Trial) (ht : st.findTrial id = some t) (hm : t.state.mutable = true)
    (es : EsOutcome) :
    (∀ o, esOpOf (earlyStopBody cfg st id es).2 id = some o → o.active = false) ∧
    (∀ j x, j ≠ id → esOpOf (earlyStopBody cfg st id es).2 j = some x → x.active = true → esOpOf st j = some x) := by
  unfold earlyStopBody
  simp only [ht, hm, Bool.not_true, Bool.false_eq_true, if_false]
  split
  · refine ⟨fun o ho => esCompute_own_finished cfg hc1 hc2 _ id es o ho, fun j x hj hx hact => ?_⟩
    have := esCompute_active_other cfg _ id es j x hj hx hact
    rwa [esOpOf_putEsOp_ne st { trialId := id, active := true, shouldStop := false } j hj] at this
  · rename_i o ho
    have hid : o.trialId = id := by
      unfold esOpOf at ho
      have := List.find?_some ho
      exact beq_iff_eq.mp this
    split
    · rename_i hs
      have hact : o.active = false := by
        unfold esReturnsStored at hs
        rw [hra] at hs
        cases hoa : o.active
        · rfl
        · rw [hoa] at hs; simp at hs
      exact ⟨fun o' ho' => by rw [ho] at ho'; cases ho'; exact hact, fun j x _ hx _ => hx⟩
    · subst hid
      refine ⟨fun o' ho' => esCompute_own_finished cfg hc1 hc2 _ _ es o' ho', fun j x hj hx hact => ?_⟩
      have := esCompute_active_other cfg _ _ es j x hj hx hact
      rwa [esOpOf_putEsOp_ne st { o with active := true, shouldStop := false } j hj] at this

/-! ### 5. no other RPC body touches `esOps` -/

@[simp] theorem putTrial_esOps (st : Study) (t : Trial) : (st.putTrial t).esOps = st.esOps := rfl
@[simp] theorem putOp_esOps (st : Study) (o : SugOp) : (st.putOp o).esOps = st.esOps := rfl
@[simp] theorem addTrial_esOps (st : Study) (t : Trial) : (st.addTrial t).esOps = st.esOps := rfl

theorem foldl_putTrial_esOps (as : List Trial) (st : Study) : (as.foldl Study.putTrial st).esOps = st.esOps := by
  induction as generalizing st with
  | nil => rfl
  | cons a as ih => rw [List.foldl_cons, ih]; rfl

theorem finishOp_esOps (op0 : SugOp) (st : Study) (handed : List Trial) : (finishOp op0 st handed).2.esOps = st.esOps := rfl
theorem failOp_esOps (op0 : SugOp) (st : Study) : (failOp op0 st).2.esOps = st.esOps := rfl

theorem createStage_esOps (cfg : Cfg) (op0 : SugOp) (st : Study) (need : Nat) (out : List Trial) (sugg : List Sugg) :
    (createStage cfg op0 st need out sugg).2.esOps = st.esOps := by
  unfold createStage
  simp only
  split <;> rfl

theorem pythiaStage_esOps (cfg : Cfg) (op0 : SugOp) (st : Study) (need : Nat) (out : List Trial) (alg : AlgOutcome) :
    (pythiaStage cfg op0 st need out alg).2.esOps = st.esOps := by
  unfold pythiaStage
  split
  · rfl
  · split <;> rfl
  · simp only
    split
    · rw [failOp_esOps, updateMetadata_esOps]
    · rw [createStage_esOps, updateMetadata_esOps]

theorem suggestRest_esOps (cfg : Cfg) (op0 : SugOp) (st : Study) (client : String) (count : Nat) (alg : AlgOutcome) :
    (suggestRest cfg op0 st client count alg).2.esOps = st.esOps := by
  unfold suggestRest
  simp only
  split
  · rfl
  · split
    · rw [finishOp_esOps, foldl_putTrial_esOps]
    · rw [pythiaStage_esOps, foldl_putTrial_esOps]

theorem suggestBody_esOps (cfg : Cfg) (st : Study) (client : String) (count : Nat) (alg : AlgOutcome) :
    (suggestBody cfg st client count alg).2.esOps = st.esOps := by
  unfold suggestBody
  simp only
  split
  · split
    · exact suggestRest_esOps cfg _ st client count alg
    · rfl
  · rw [suggestRest_esOps]

theorem createTrialBody_esOps (k : Bool) (st : Study) (t : Trial) : (createTrialBody k st t).2.esOps = st.esOps := rfl
theorem completeBody_esOps (st : Study) (id : Nat) (f : Option Meas) (i : Bool) (r : String) :
    (completeBody st id f i r).2.esOps = st.esOps := by
  unfold completeBody; repeat' split
  all_goals rfl
theorem addMeasurementBody_esOps (st : Study) (id : Nat) (m : Meas) : (addMeasurementBody st id m).2.esOps = st.esOps := by
  unfold addMeasurementBody; repeat' split
  all_goals rfl
theorem stopBody_esOps (st : Study) (id : Nat) : (stopBody st id).2.esOps = st.esOps := by
  unfold stopBody; repeat' split
  all_goals rfl
theorem deleteTrialBody_esOps (st : Study) (id : Nat) : (deleteTrialBody st id).2.esOps = st.esOps := by
  unfold deleteTrialBody; repeat' split
  all_goals rfl

/-- **No early-stopping record is ever left ACTIVE** — one call, any request, any algorithm
    behaviour, with the repaired service. -/
theorem step_esIdle (cfg : Cfg) (hc1 : cfg.esFailureFinishesOp = true) (hc2 : cfg.esAnswerFinishesOp = true)
    (hc3 : cfg.deleteCascadesOps = true) (db : DB) (r : Req) (h : AllStudies EsIdle db) :
    AllStudies EsIdle (step cfg db r).2 := by
  cases r with
  | createStudy owner display nameSet state spec md =>
    simp only [step]
    repeat' split
    all_goals first
      | exact h
      | (intro st hst
         rcases List.mem_append.mp hst with h' | h'
         · exact h st h'
         · simp only [List.mem_singleton] at h'
           subst h'
           intro j o ho
           simp [esOpOf] at ho)
  | getStudy o s => exact onStudy_all h o s false _ (fun _ hp => hp)
  | listStudies o => simp only [step]; split <;> exact h
  | deleteStudy o s =>
    simp only [step]
    split
    · exact h
    · intro st hst; exact h st (List.mem_filter.mp hst).1
  | setStudyState o s stt => exact onStudy_all h o s false _ (fun _ hp => hp)
  | createTrial o s t => exact onStudy_all h o s true _ (fun _ hp => hp)
  | suggest o s client count alg =>
    exact onStudy_all h o s true _ (fun st hp => esIdle_of_esOps_eq (suggestBody_esOps cfg st client count alg) hp)
  | getOperation o s client num =>
    simp only [step]
    split
    · split <;> exact h
    · apply onStudy_all h
      intro st hp; split <;> exact hp
  | getTrial o s id => apply onStudy_all h; intro st hp; split <;> exact hp
  | listTrials o s => exact onStudy_all h o s false _ (fun _ hp => hp)
  | addMeasurement o s id m =>
    exact onStudy_all h o s true _ (fun st hp => esIdle_of_esOps_eq (addMeasurementBody_esOps st id m) hp)
  | complete o s id f i rs =>
    exact onStudy_all h o s true _ (fun st hp => esIdle_of_esOps_eq (completeBody_esOps st id f i rs) hp)
  | stop o s id => exact onStudy_all h o s true _ (fun st hp => esIdle_of_esOps_eq (stopBody_esOps st id) hp)
  | deleteTrial o s id =>
    exact onStudy_all h o s true _ (fun st hp => esIdle_of_esOps_eq (deleteTrialBody_esOps st id) hp)
  | checkEarlyStop o s id es =>
    exact onStudy_all h o s true _ (fun st hp => earlyStopBody_esIdle cfg hc1 hc2 st id es hp)
  | updateMetadata o s us =>
    exact onStudy_all h o s true _ (fun st hp => esIdle_of_esOps_eq (updateMetadata_esOps cfg st us) hp)
  | listOptimal o s => exact onStudy_all h o s false _ (fun _ hp => hp)

/-- … hence every history of calls -/
theorem run_esIdle (cfg : Cfg) (hc1 : cfg.esFailureFinishesOp = true) (hc2 : cfg.esAnswerFinishesOp = true)
    (hc3 : cfg.deleteCascadesOps = true) (db : DB) (hs : List Req) (h : AllStudies EsIdle db) :
    AllStudies EsIdle (run cfg db hs) := by
  induction hs generalizing db with
  | nil => exact h
  | cons r rs ih => exact ih _ (step_esIdle cfg hc1 hc2 hc3 db r h)

/-! ### consequence: a check of a mutable trial is always answered by the algorithm -/

/-- in an idle study with recycle period 0, `CheckTrialEarlyStoppingState` of a mutable trial never
    answers from a stored record: it (re)opens the trial's record and consults the algorithm -/
theorem earlyStopBody_reaches_algorithm (cfg : Cfg) (hr : cfg.esRecycle = true) (st : Study) (h : EsIdle st)
    (id : Nat) (t : Trial) (ht : st.findTrial id = some t) (hm : t.state.mutable = true) (es : EsOutcome) :
    (esOpOf st id = none →
      earlyStopBody cfg st id es =
        esCompute cfg (st.putEsOp { trialId := id, active := true, shouldStop := false }) id es) ∧
    (∀ o, esOpOf st id = some o → o.active = false ∧
      earlyStopBody cfg st id es = esCompute cfg (st.putEsOp { o with active := true, shouldStop := false }) id es) := by
  constructor
  · intro ho
    unfold earlyStopBody
    simp [ht, hm, ho]
  · intro o ho
    have hact := h id o ho
    refine ⟨hact, ?_⟩
    unfold earlyStopBody
    simp [ht, hm, ho, hact, hr, esReturnsStored]

end VizierModel.Svc
