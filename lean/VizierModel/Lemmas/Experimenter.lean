/-
C20 helper lemmas, part 1: list helpers (`zipUpd`, `mapSt`, `restore`), the pointwise relation
`Pw`, and the first induction over the wrapper stack: `evaluate` returns the same number of
trials, with the suggested parameters, and never clears an infeasibility mark.
-/
import VizierModel.Model.Experimenter

namespace VizierModel.Exp

variable {α : Type}

/-! ### pointwise relation between two lists -/

def Pw {β γ : Type} (R : β → γ → Prop) : List β → List γ → Prop
  | [], [] => True
  | b :: bs, c :: cs => R b c ∧ Pw R bs cs
  | _, _ => False

@[simp] theorem Pw_nil {β γ : Type} (R : β → γ → Prop) : Pw R [] [] = True := rfl
@[simp] theorem Pw_cons {β γ : Type} (R : β → γ → Prop) (b : β) (bs : List β) (c : γ) (cs : List γ) :
    Pw R (b :: bs) (c :: cs) = (R b c ∧ Pw R bs cs) := rfl
@[simp] theorem Pw_nil_cons {β γ : Type} (R : β → γ → Prop) (c : γ) (cs : List γ) :
    Pw R [] (c :: cs) = False := rfl
@[simp] theorem Pw_cons_nil {β γ : Type} (R : β → γ → Prop) (b : β) (bs : List β) :
    Pw R (b :: bs) [] = False := rfl

theorem Pw.length {β γ : Type} {R : β → γ → Prop} : ∀ {bs : List β} {cs : List γ},
    Pw R bs cs → bs.length = cs.length
  | [], [], _ => rfl
  | _ :: bs, _ :: cs, h => by simp [Pw.length (bs := bs) (cs := cs) h.2]
  | [], _ :: _, h => by simp at h
  | _ :: _, [], h => by simp at h

theorem Pw.mono {β γ : Type} {R S : β → γ → Prop} (hRS : ∀ b c, R b c → S b c) :
    ∀ {bs : List β} {cs : List γ}, Pw R bs cs → Pw S bs cs
  | [], [], _ => trivial
  | _ :: _, _ :: _, h => ⟨hRS _ _ h.1, Pw.mono hRS h.2⟩
  | [], _ :: _, h => by simp at h
  | _ :: _, [], h => by simp at h

theorem Pw.trans {β γ δ : Type} {R : β → γ → Prop} {S : γ → δ → Prop} {T : β → δ → Prop}
    (hT : ∀ b c d, R b c → S c d → T b d) :
    ∀ {bs : List β} {cs : List γ} {ds : List δ}, Pw R bs cs → Pw S cs ds → Pw T bs ds
  | [], [], [], _, _ => trivial
  | _ :: _, _ :: _, _ :: _, h1, h2 => ⟨hT _ _ _ h1.1 h2.1, Pw.trans hT h1.2 h2.2⟩
  | [], [], _ :: _, _, h2 => by simp at h2
  | [], _ :: _, _, h1, _ => by simp at h1
  | _ :: _, [], _, h1, _ => by simp at h1
  | _ :: _, _ :: _, [], _, h2 => by simp at h2

theorem Pw_map_right {β γ : Type} {R : β → γ → Prop} (f : β → γ) (h : ∀ b, R b (f b)) :
    ∀ bs : List β, Pw R bs (bs.map f)
  | [] => trivial
  | b :: bs => ⟨h b, Pw_map_right f h bs⟩

theorem Pw_map_left {β γ : Type} {R : γ → β → Prop} (f : β → γ) (h : ∀ b, R (f b) b) :
    ∀ bs : List β, Pw R (bs.map f) bs
  | [] => trivial
  | b :: bs => ⟨h b, Pw_map_left f h bs⟩

theorem Pw_append {β γ : Type} {R : β → γ → Prop} :
    ∀ {bs : List β} {cs : List γ} {bs' : List β} {cs' : List γ},
      Pw R bs cs → Pw R bs' cs' → Pw R (bs ++ bs') (cs ++ cs')
  | [], [], _, _, _, h2 => h2
  | _ :: _, _ :: _, _, _, h1, h2 => ⟨h1.1, Pw_append h1.2 h2⟩
  | [], _ :: _, _, _, h1, _ => by simp at h1
  | _ :: _, [], _, _, h1, _ => by simp at h1

theorem Pw_singleton_left {β γ : Type} {R : β → γ → Prop} {b : β} {cs : List γ}
    (h : Pw R [b] cs) : ∃ c, cs = [c] ∧ R b c := by
  match cs, h with
  | [c], h => exact ⟨c, rfl, h.1⟩
  | [], h => simp at h
  | _ :: _ :: _, h => simp at h

/-! ### `zipUpd`, `mapSt` -/

@[simp] theorem zipUpd_nil_left {β γ : Type} (f : β → γ → β) (cs : List γ) : zipUpd f [] cs = [] := by
  cases cs <;> rfl
@[simp] theorem zipUpd_nil_right {β γ : Type} (f : β → γ → β) (bs : List β) : zipUpd f bs [] = bs := by
  cases bs <;> rfl
@[simp] theorem zipUpd_cons {β γ : Type} (f : β → γ → β) (b : β) (bs : List β) (c : γ) (cs : List γ) :
    zipUpd f (b :: bs) (c :: cs) = f b c :: zipUpd f bs cs := rfl

theorem zipUpd_length {β γ : Type} (f : β → γ → β) : ∀ (bs : List β) (cs : List γ),
    (zipUpd f bs cs).length = bs.length
  | [], cs => by simp
  | b :: bs, [] => by simp
  | b :: bs, c :: cs => by simp [zipUpd_length f bs cs]

theorem Pw_zipUpd {β γ : Type} {R : β → β → Prop} (f : β → γ → β) (hrefl : ∀ b, R b b)
    (h : ∀ b c, R b (f b c)) : ∀ (bs : List β) (cs : List γ), Pw R bs (zipUpd f bs cs)
  | [], cs => by simp
  | b :: bs, [] => by
    simp only [zipUpd_nil_right]
    exact ⟨hrefl b, by simpa using Pw_map_right id (fun b => hrefl b) bs⟩
  | b :: bs, c :: cs => ⟨h b c, Pw_zipUpd f hrefl h bs cs⟩

theorem zipUpd_append {β γ : Type} (f : β → γ → β) :
    ∀ (bs : List β) (cs : List γ) (bs' : List β) (cs' : List γ), bs.length = cs.length →
      zipUpd f (bs ++ bs') (cs ++ cs') = zipUpd f bs cs ++ zipUpd f bs' cs'
  | [], [], _, _, _ => rfl
  | b :: bs, c :: cs, bs', cs', h => by
    simp only [List.cons_append, zipUpd_cons, List.cons.injEq, true_and]
    exact zipUpd_append f bs cs bs' cs' (by simpa using h)
  | [], _ :: _, _, _, h => by simp at h
  | _ :: _, [], _, _, h => by simp at h

@[simp] theorem mapSt_nil {σ β : Type} (f : σ → β → β × σ) (s : σ) : mapSt f s [] = ([], s) := rfl
@[simp] theorem mapSt_cons {σ β : Type} (f : σ → β → β × σ) (s : σ) (t : β) (ts : List β) :
    mapSt f s (t :: ts) = ((f s t).1 :: (mapSt f (f s t).2 ts).1, (mapSt f (f s t).2 ts).2) := rfl

theorem Pw_mapSt {σ β : Type} {R : β → β → Prop} (f : σ → β → β × σ) (h : ∀ s b, R b (f s b).1) :
    ∀ (s : σ) (bs : List β), Pw R bs (mapSt f s bs).1
  | _, [] => trivial
  | s, b :: bs => ⟨h s b, Pw_mapSt f h _ bs⟩

theorem mapSt_append {σ β : Type} (f : σ → β → β × σ) : ∀ (s : σ) (as bs : List β),
    mapSt f s (as ++ bs) =
      ((mapSt f s as).1 ++ (mapSt f (mapSt f s as).2 bs).1, (mapSt f (mapSt f s as).2 bs).2)
  | s, [], bs => by simp
  | s, a :: as, bs => by
    simp only [List.cons_append, mapSt_cons, mapSt_append f _ as bs]

/-! ### what `evaluate` may change in a trial -/

/-- `t'` is `t` after an evaluation: same parameters, an infeasibility mark is never cleared -/
def Ext (t t' : Trial α) : Prop :=
  t'.params = t.params ∧ (t.infeasible = true → t'.infeasible = true)

theorem Ext.refl (t : Trial α) : Ext t t := ⟨rfl, id⟩

theorem Ext.trans {a b c : Trial α} (h1 : Ext a b) (h2 : Ext b c) : Ext a c :=
  ⟨h2.1.trans h1.1, fun h => h2.2 (h1.2 h)⟩

theorem Ext.complete (t : Trial α) (ms : Metrics α) (inf : Bool) : Ext t (t.complete ms inf) :=
  ⟨rfl, fun h => by simp [Trial.complete, h]⟩

theorem Ext.completeWith (t : Trial α) (o : Outcome α) : Ext t (t.completeWith o) := by
  cases o <;> exact Ext.complete _ _ _

theorem Ext.onFinal (g : Metrics α → Metrics α) (t : Trial α) : Ext t (onFinal g t) := by
  unfold Exp.onFinal
  cases t.final <;> exact ⟨rfl, id⟩

theorem Ext.noiseTrial (noise : Nat → α → α) (k : Nat) (t : Trial α) : Ext t (noiseTrial noise k t).1 := by
  unfold Exp.noiseTrial
  cases t.final <;> exact ⟨rfl, id⟩

theorem Pw_ext_refl : ∀ ts : List (Trial α), Pw Ext ts ts
  | [] => trivial
  | t :: ts => ⟨Ext.refl t, Pw_ext_refl ts⟩

theorem Pw_ext_trans {as bs cs : List (Trial α)} (h1 : Pw Ext as bs) (h2 : Pw Ext bs cs) : Pw Ext as cs :=
  Pw.trans (R := Ext) (S := Ext) (T := Ext) (fun _ _ _ h1 h2 => Ext.trans h1 h2) h1 h2

/-- the save / transform / delegate / restore pattern of the shifting, permuting, discretising
and sparse wrappers -/
theorem restore_ext (g : Params α → Params α) : ∀ (ts r : List (Trial α)),
    Pw Ext (setParams g ts) r → Pw Ext ts (restore (ts.map (·.params)) r)
  | [], [], _ => trivial
  | t :: ts, u :: r, h => by
    have h' : Ext { t with params := g t.params } u ∧ Pw Ext (setParams g ts) r := h
    refine ⟨⟨rfl, fun hi => h'.1.2 hi⟩, restore_ext g ts r h'.2⟩
  | [], _ :: _, h => by simp [setParams] at h
  | _ :: _, [], h => by simp [setParams] at h

theorem Pw_ext_params {ts r : List (Trial α)} (h : Pw Ext ts r) : r.map (·.params) = ts.map (·.params) := by
  induction ts generalizing r with
  | nil => cases r with
    | nil => rfl
    | cons _ _ => simp at h
  | cons t ts ih => cases r with
    | nil => simp at h
    | cons u r =>
      simp only [Pw_cons] at h
      simp [h.1.1, ih h.2]

/-- FIRST INDUCTION OVER THE WRAPPER STACK: for every stacking, every state and every batch,
`evaluate` returns one trial per suggestion, with the suggestion's parameters, and keeps
infeasibility marks. -/
theorem evaluate_ext (ops : Ops α) : ∀ (e : Ex α) (st : St) (ts : List (Trial α)),
    Pw Ext ts (evaluate ops e st ts).1
  | .base _ f, _, ts => by
    simp only [evaluate]
    exact Pw_map_right _ (fun t => Ext.completeWith t _) ts
  | .shift s restrict e, st, ts => by
    simp only [evaluate]
    exact restore_ext _ ts _ (evaluate_ext ops e st _)
  | .signFlip objOnly e, st, ts => by
    simp only [evaluate]
    exact Pw_ext_trans (evaluate_ext ops e st ts) (Pw_map_right _ (fun t => Ext.onFinal _ t) _)
  | .permute perm e, st, ts => by
    simp only [evaluate]
    exact restore_ext _ ts _ (evaluate_ext ops e st _)
  | .discretize disc parse e, st, ts => by
    simp only [evaluate]
    exact restore_ext _ ts _ (evaluate_ext ops e st _)
  | .hypercube keepInf dim dec e, st, ts => by
    simp only [evaluate]
    refine Pw_zipUpd _ Ext.refl (fun t o => ?_) ts _
    exact ⟨rfl, fun h => by simp [h]⟩
  | .normalize mu sigma e, st, ts => by
    simp only [evaluate]
    exact Pw_ext_trans (evaluate_ext ops e st ts) (Pw_map_right _ (fun t => Ext.onFinal _ t) _)
  | .noisy noise e, st, ts => by
    simp only [evaluate]
    exact Pw_ext_trans (evaluate_ext ops e st.kid ts) (Pw_mapSt _ (fun k t => Ext.noiseTrial noise k t) _ _)
  | .sparse pre extra e, st, ts => by
    simp only [evaluate]
    exact restore_ext _ ts _ (evaluate_ext ops e st _)
  | .switch sw metric toIdx keepInf kids, st, ts => by
    simp only [evaluate]
    refine Pw_mapSt _ (fun sts t => ?_) _ _
    simp only
    cases (evalAt ops kids (toIdx (lookupS sw t.params)) sts t).1 with
    | none => exact Ext.refl t
    | some oc =>
      simp only [switchComplete]
      split
      · exact Ext.refl t
      · split <;> exact Ext.complete _ _ _
  | .infeasibleIf isInf junk e, st, ts => by
    simp only [evaluate]
    refine Pw_mapSt _ (fun st t => ?_) _ _
    by_cases h : isInf t.params = true
    · simp only [h, if_true]
      exact Ext.complete _ _ _
    · simp only [h]
      obtain ⟨u, hu, hext⟩ := Pw_singleton_left (evaluate_ext ops e st [t])
      simp [hu, hext]
  | .multi keepInf kids, st, ts => by
    simp only [evaluate]
    refine Pw_zipUpd _ Ext.refl (fun t cm => ?_) ts _
    exact Ext.complete _ _ _

theorem evaluate_length (ops : Ops α) (e : Ex α) (st : St) (ts : List (Trial α)) :
    (evaluate ops e st ts).1.length = ts.length :=
  (evaluate_ext ops e st ts).length.symm

/-- a single suggestion comes back as a single trial -/
theorem evaluate_singleton (ops : Ops α) (e : Ex α) (st : St) (t : Trial α) :
    (evaluate ops e st [t]).1 = [(step ops e st t).1] := by
  obtain ⟨u, hu, _⟩ := Pw_singleton_left (evaluate_ext ops e st [t])
  simp [step, hu]

theorem step_ext (ops : Ops α) (e : Ex α) (st : St) (t : Trial α) : Ext t (step ops e st t).1 := by
  obtain ⟨u, hu, hext⟩ := Pw_singleton_left (evaluate_ext ops e st [t])
  simpa [step, hu] using hext

end VizierModel.Exp
