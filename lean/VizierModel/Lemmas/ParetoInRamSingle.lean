/-
Lemmas for C11, part 8: `InRamPolicySupporter.GetBestTrials`, single-objective branch with
`count = None` and the repair "all tied top trials" (`allTied = true`).

Plan: the order `nanLast c` the sort uses is lawful (NaN is just the largest element), so a
sorted list's `tiedPrefix` is the sub-list of elements with the smallest key, which is a
permutation of the minimal-key elements of the unsorted list; for eligible trials
"`t'` dominates `t`" (one objective) is "key t' < key t".
-/
import VizierModel.Lemmas.ParetoFastUtil
import VizierModel.Lemmas.ParetoInRam
namespace VizierModel.Pareto

set_option linter.unusedSectionVars false

variable {μ β : Type} [DecidableEq μ]

/-! ### the order of `np.argsort` on floats is a strict total order with NaN on top -/

theorem nanLast_lawful {c : Cmp β} (h : c.Lawful) : (nanLast c).Lawful where
  irrefl a := by cases a <;> simp [nanLast, h.irrefl]
  trans a b d h1 h2 := by
    cases a <;> cases b <;> cases d <;> simp_all [nanLast]
    exact h.trans _ _ _ h1 h2
  tri a b h1 h2 := by
    cases a <;> cases b <;> simp_all [nanLast]
    exact h.tri _ _ h1 h2
  le_def a b := by cases a <;> cases b <;> simp [nanLast, h.le_def]
  eq_def a b := by cases a <;> cases b <;> simp [nanLast, h.eq_def]

/-! ### the tied prefix of a sorted list -/

section sorted
variable {γ κ : Type} {c : Cmp κ}

theorem filter_eq_nil_of_all_false (p : γ → Bool) (l : List γ) (hp : ∀ y ∈ l, p y = false) :
    l.filter p = [] := by
  rw [List.filter_eq_nil_iff]
  intro y hy; rw [hp y hy]; simp

/-- in a list sorted ascending whose keys are all ≥ `k0`, the elements with key `k0` are a prefix -/
theorem takeWhile_eq_filter_of_sorted (h : c.Lawful) (key : γ → κ) (k0 : κ) (xs : List γ)
    (hs : xs.Pairwise fun a b => c.gt (key a) (key b) = false)
    (hlo : ∀ y ∈ xs, c.gt k0 (key y) = false) :
    xs.takeWhile (fun y => c.eq (key y) k0) = xs.filter (fun y => c.eq (key y) k0) := by
  induction xs with
  | nil => rfl
  | cons y ys ih =>
    rw [List.pairwise_cons] at hs
    cases he : c.eq (key y) k0 with
    | true =>
      simp only [List.takeWhile_cons, List.filter_cons, he, if_true]
      rw [ih hs.2 (fun z hz => hlo z (List.mem_cons_of_mem _ hz))]
    | false =>
      simp only [List.takeWhile_cons, List.filter_cons, he, Bool.false_eq_true, if_false]
      symm
      apply filter_eq_nil_of_all_false
      intro z hz
      -- key y > k0 and key z ≥ key y
      have hne : key y ≠ k0 := fun e => by rw [(h.eq_def _ _).mpr e] at he; cases he
      have hgt : c.gt (key y) k0 = true := by
        cases hg : c.gt (key y) k0
        · exact absurd (h.tri _ _ hg (hlo y (List.mem_cons_self ..))) hne
        · rfl
      have hle : c.le (key y) (key z) = true := (h.le_iff _ _).mpr (hs.1 z hz)
      have : c.gt (key z) k0 = true := h.gt_of_le_of_gt _ _ _ hle hgt
      cases hz' : c.eq (key z) k0
      · rfl
      · rw [(h.eq_def _ _).mp hz', h.irrefl] at this; cases this

/-- the tied prefix of a sorted list: its elements with a minimal key -/
theorem tiedPrefix_sorted (h : c.Lawful) (key : γ → κ) (l : List γ)
    (hs : l.Pairwise fun a b => c.gt (key a) (key b) = false) :
    tiedPrefix c key l = l.filter fun y => !l.any fun z => c.gt (key y) (key z) := by
  cases l with
  | nil => rfl
  | cons x xs =>
    have hs' := List.pairwise_cons.mp hs
    have hlo : ∀ y ∈ x :: xs, c.gt (key x) (key y) = false := by
      intro y hy
      rcases List.mem_cons.mp hy with rfl | hy
      · exact h.irrefl _
      · exact hs'.1 y hy
    have e : x :: xs.takeWhile (fun y => c.eq (key y) (key x)) =
        (x :: xs).filter (fun y => c.eq (key y) (key x)) := by
      have hx : c.eq (key x) (key x) = true := (h.eq_def _ _).mpr rfl
      simp only [List.filter_cons, hx, if_true]
      rw [takeWhile_eq_filter_of_sorted h key (key x) xs hs'.2
          (fun y hy => hlo y (List.mem_cons_of_mem _ hy))]
    show x :: xs.takeWhile (fun y => c.eq (key y) (key x)) = _
    rw [e]
    apply List.filter_congr
    intro y hy
    cases he : c.eq (key y) (key x) with
    | true =>
      have ek := (h.eq_def _ _).mp he
      symm
      rw [Bool.not_eq_true', List.any_eq_false]
      intro z hz
      rw [ek, hlo z hz]; simp
    | false =>
      symm
      rw [Bool.not_eq_false', List.any_eq_true]
      refine ⟨x, List.mem_cons_self .., ?_⟩
      cases hg : c.gt (key y) (key x)
      · have := h.tri _ _ hg (hlo y hy)
        rw [(h.eq_def _ _).mpr this] at he; cases he
      · rfl

theorem any_perm {l₁ l₂ : List γ} (p : l₁.Perm l₂) (f : γ → Bool) : l₁.any f = l₂.any f := by
  cases h : l₂.any f
  · rw [List.any_eq_false] at h ⊢
    intro x hx; exact h x (p.mem_iff.mp hx)
  · rw [List.any_eq_true] at h ⊢
    obtain ⟨x, hx, hf⟩ := h
    exact ⟨x, p.mem_iff.mpr hx, hf⟩

/-- sort, then keep the tied prefix: a permutation of the elements with a minimal key -/
theorem tiedPrefix_sortBy_perm (h : c.Lawful) (key : γ → κ) (l : List γ) :
    (tiedPrefix c key (sortBy c key l)).Perm
      (l.filter fun y => !l.any fun z => c.gt (key y) (key z)) := by
  rw [tiedPrefix_sorted h key _ (sortBy_sorted h key l)]
  have hp := sortBy_perm c key l
  have e : (fun y => !(sortBy c key l).any fun z => c.gt (key y) (key z)) =
      fun y => !l.any fun z => c.gt (key y) (key z) := by
    funext y; rw [any_perm hp]
  rw [e]
  exact hp.filter _

end sorted

/-! ### one objective: domination is the order of the sort keys -/

/-- the sort key of a trial in the single-objective branch: `-label` -/
def sortKey (o : OrderOps β) (objs : List (μ × Goal)) (safety : List (μ × Goal × β)) (t : PTrial μ β) :
    Val β := negV o.neg ((labelRow o objs safety t).headD .nan)

theorem dominatesG_single {o : OrderOps β} (h : o.Lawful) (mg : μ × Goal) (safety : List (μ × Goal × β))
    (t t' : PTrial μ β) (he : eligibleP [mg] t = true) (he' : eligibleP [mg] t' = true) :
    dominatesG o.cmp [mg] (rankFinal o [mg] safety t') (rankFinal o [mg] safety t) =
      (nanLast o.cmp).gt (sortKey o [mg] safety t) (sortKey o [mg] safety t') := by
  have hs : ∀ x ∈ [mg], (numOf (asS o [mg] safety t).final x.1).isSome = true ∧
      (numOf (asS o [mg] safety t').final x.1).isSome = true :=
    fun x hx => ⟨rankFinal_numOf o [mg] safety t he x hx, rankFinal_numOf o [mg] safety t' he' x hx⟩
  obtain ⟨e1, e2⟩ := objVec_cmp h.cmp h.neg (asS o [mg] safety t) (asS o [mg] safety t') [mg] hs
  have hd : dominatesG o.cmp [mg] (rankFinal o [mg] safety t') (rankFinal o [mg] safety t) =
      (allLe o.cmp.val (labelRow o [mg] safety t) (labelRow o [mg] safety t') &&
        anyGt o.cmp.val (labelRow o [mg] safety t') (labelRow o [mg] safety t)) := by
    rw [labelRow_eq_objVec, labelRow_eq_objVec, e1, e2]
    rfl
  rw [hd]
  -- both label rows are one number
  have hrow : ∀ u : PTrial μ β, eligibleP [mg] u = true → ∃ a, labelRow o [mg] safety u = [.num a] := by
    intro u hu
    have hnf := labelRow_nanfree o [mg] safety u hu
    have hl : ∃ v, labelRow o [mg] safety u = [v] := ⟨_, rfl⟩
    obtain ⟨v, hv⟩ := hl
    rw [hv] at hnf
    cases v with
    | nan => exact absurd rfl (hnf _ (List.mem_cons_self ..))
    | num a => exact ⟨a, hv⟩
  obtain ⟨a, ha⟩ := hrow t he
  obtain ⟨a', ha'⟩ := hrow t' he'
  unfold sortKey
  rw [ha, ha']
  simp only [allLe, anyGt, Cmp.val, List.headD_cons, negV, nanLast, Bool.and_true, Bool.or_false]
  rw [h.neg a a', h.cmp.le_def]
  cases hg : o.cmp.gt a' a
  · simp
  · rw [h.cmp.gt_asymm _ _ hg]; rfl

/-- on eligible trials the definition keeps the trials with a minimal sort key -/
theorem bestDef_single_eligible {o : OrderOps β} (h : o.Lawful) (mg : μ × Goal)
    (safety : List (μ × Goal × β)) (E : List (PTrial μ β)) (hel : ∀ t ∈ E, eligibleP [mg] t = true) :
    bestDef o [mg] safety E =
      E.filter fun t => !E.any fun t' =>
        (nanLast o.cmp).gt (sortKey o [mg] safety t) (sortKey o [mg] safety t') := by
  unfold bestDef
  apply List.filter_congr
  intro t ht
  rw [hel t ht, Bool.true_and]
  congr 1
  apply any_congr_mem
  intro t' ht'
  rw [hel t' ht', Bool.true_and, dominatesG_single h mg safety t t' (hel t ht) (hel t' ht')]

/-! ### GetBestTrials, one objective, `count = None`, all tied -/

theorem zip_map_pair {γ δ : Type} (f : γ → δ) (l : List γ) :
    l.zip (l.map f) = l.map fun t => (t, f t) := by
  induction l with
  | nil => rfl
  | cons t ts ih => simp only [List.map_cons, List.zip_cons_cons, ih]

theorem getBest_single_allTied_eq (o : OrderOps β) (mg : μ × Goal) (safety : List (μ × Goal × β))
    (trials : List (PTrial μ β)) :
    getBest o [mg] safety true true none trials =
      some ((tiedPrefix (nanLast o.cmp) (·.2)
        (sortBy (nanLast o.cmp) (·.2)
          ((trials.filter (eligibleP [mg])).map fun t => (t, sortKey o [mg] safety t)))).map (·.1)) := by
  unfold getBest
  simp only [List.isEmpty_cons, Bool.false_eq_true, if_false, List.length_cons, List.length_nil,
    if_true, Nat.zero_add]
  rw [List.map_map, zip_map_pair]
  rfl

/-- the repaired single-objective query returns a permutation of the best trials of the
definition: every history, any safety list -/
theorem getBest_single_allTied_perm {o : OrderOps β} (h : o.Lawful) (mg : μ × Goal)
    (safety : List (μ × Goal × β)) (trials : List (PTrial μ β)) :
    ∃ r, getBest o [mg] safety true true none trials = some r ∧
      r.Perm (bestDef o [mg] safety trials) := by
  refine ⟨_, getBest_single_allTied_eq o mg safety trials, ?_⟩
  rw [← bestDef_filter]
  generalize hE : trials.filter (eligibleP [mg]) = E
  have hel : ∀ t ∈ E, eligibleP [mg] t = true := by
    intro t ht; rw [← hE] at ht; exact (List.mem_filter.mp ht).2
  rw [bestDef_single_eligible h mg safety E hel]
  have hp := (tiedPrefix_sortBy_perm (nanLast_lawful h.cmp) (fun x : PTrial μ β × Val β => x.2)
    (E.map fun t => (t, sortKey o [mg] safety t))).map (·.1)
  refine hp.trans ?_
  rw [List.filter_map, List.map_map]
  have hid : ((fun x : PTrial μ β × Val β => x.1) ∘ fun t => (t, sortKey o [mg] safety t)) = id := rfl
  rw [hid, List.map_id]
  apply List.Perm.of_eq
  apply List.filter_congr
  intro t _
  simp only [Function.comp_apply, List.any_map]
  rfl

end VizierModel.Pareto
