/-
Whole-space round trip: `decode (encode point)` returns the point (restricted to the
parameters of the space, in space order); index of a feasible value is not the OOV index.
-/
import VizierModel.Lemmas.CodecRoundtrip
import VizierModel.Lemmas.CodecSpace

set_option linter.unusedSectionVars false
set_option linter.unusedSimpArgs false
set_option linter.unusedVariables false

namespace VizierModel.Codec

variable {α : Type} [Field α] [LinearOrder α] [IsStrictOrderedRing α]
variable (lg ex : α → α) (fin : α → Bool)

/-- the point as the converter sees it: the values of the space's parameters, in space order -/
def restrict (ps : List (Param α)) (point : List (String × PVal α)) : List (String × PVal α) :=
  ps.filterMap fun p => (lookup p.name point).map fun v => (p.name, v)

theorem encodeValue_length (cfg : Cfg) (p : Param α) (v : Option (PVal α)) (b : List (Feat α))
    (h : encodeValue (fieldOps lg ex fin) cfg p v = .ok b) :
    b.length = blockWidth (fieldOps lg ex fin) cfg p := by
  unfold encodeValue at h
  unfold blockWidth
  cases hs : specOf (fieldOps lg ex fin) cfg p with
  | continuous low high =>
    rw [hs] at h
    simp only at h
    split at h
    · cases h
    · cases v with
      | none => simp only [Except.ok.injEq] at h; rw [← h]; rfl
      | some w =>
        cases w with
        | dbl x => simp only [Except.ok.injEq] at h; rw [← h]; rfl
        | int i => simp only [Except.ok.injEq] at h; rw [← h]; rfl
        | str s => cases h
  | index n =>
    rw [hs] at h
    simp only at h ⊢
    split at h
    · rename_i hoh
      split at h
      · simp only [Except.ok.injEq] at h
        rw [← h, List.length_map, indic_length, if_pos hoh]
      · cases h
    · rename_i hoh
      simp only [Except.ok.injEq] at h
      rw [← h, if_neg hoh]; rfl

/-- MAIN (whole space): encoding a point whose values are all inside their domains and decoding
the features returns the point -/
theorem roundtrip_space (L : LogExp lg ex) (hfin : ∀ z, fin z = true) (cfg : Cfg)
    (ps : List (Param α)) (point : List (String × PVal α))
    (h : ∀ p ∈ ps, RTValid p ∧ ∃ v, lookup p.name point = some v ∧ inDomain (fieldOps lg ex fin) p.dom v = true) :
    ∃ fs, encode (fieldOps lg ex fin) cfg ps point = .ok fs ∧
      decode (fieldOps lg ex fin) cfg ps fs = .ok (restrict ps point) := by
  induction ps with
  | nil => exact ⟨[], by simp [encode], by simp [decode, restrict]⟩
  | cons p ps ih =>
    obtain ⟨hwf, v, hlk, hin⟩ := h p List.mem_cons_self
    obtain ⟨fs, hfs1, hfs2⟩ := ih (fun q hq => h q (List.mem_cons_of_mem _ hq))
    obtain ⟨b, hb1, hb2⟩ := roundtrip_param lg ex fin L hfin cfg p v hwf hin
    have hlen := encodeValue_length lg ex fin cfg p (some v) b hb1
    refine ⟨b ++ fs, ?_, ?_⟩
    · simp only [encode, hlk, hb1, hfs1]
    · simp only [decode]
      rw [if_neg (by rw [List.length_append]; omega)]
      rw [← hlen, List.take_left', List.drop_left', hb2, hfs2]
      · simp [restrict, hlk]
      · rfl
      · rfl

/-- a feasible value is never encoded as the out-of-vocabulary index -/
theorem indexOfValue_lt (d : Domain α) (n : Nat) (w : PVal α) (hn : d.numFeasible = some n)
    (hin : inDomain (fieldOps lg ex fin) d w = true) :
    indexOfValue (fieldOps lg ex fin) d n (some w) < n := by
  cases d with
  | double lo hi => simp [Domain.numFeasible] at hn
  | integer lo hi =>
    simp only [Domain.numFeasible, Option.some.injEq] at hn
    cases w with
    | dbl x => simp [inDomain] at hin
    | str s => simp [inDomain] at hin
    | int i =>
      simp only [inDomain, Bool.and_eq_true, decide_eq_true_eq] at hin
      simp only [indexOfValue, hin.1, hin.2, and_self, if_true]
      omega
  | discrete vs =>
    simp only [Domain.numFeasible, Option.some.injEq] at hn
    cases w with
    | int i => simp [inDomain] at hin
    | str s => simp [inDomain] at hin
    | dbl x =>
      simp only [inDomain, List.any_eq_true, fo_beq, decide_eq_true_eq] at hin
      obtain ⟨k, hk1, hk2, _⟩ := findIdx_spec (fun y => decide (y = x)) vs 0
        (by obtain ⟨y, hy, rfl⟩ := hin; exact ⟨y, hy, by simp⟩)
      simp only [indexOfValue, fo_beq, hk1, Nat.zero_add, Option.getD_some]
      omega
  | categorical cs =>
    simp only [Domain.numFeasible, Option.some.injEq] at hn
    cases w with
    | int i => simp [inDomain] at hin
    | dbl x => simp [inDomain] at hin
    | str s =>
      simp only [inDomain, List.any_eq_true, beq_iff_eq] at hin
      obtain ⟨k, hk1, hk2, _⟩ := findIdx_spec (fun c => c == s) cs 0
        (by obtain ⟨y, hy, rfl⟩ := hin; exact ⟨y, hy, by simp⟩)
      simp only [indexOfValue, hk1, Nat.zero_add, Option.getD_some]
      omega

end VizierModel.Codec
