/-
Lemmas for C17: grouping of `name[i]` parameters (`_pytrial_parameters`, second half).
-/
import VizierModel.Model.PresentSpec
namespace VizierModel.Space
set_option linter.unusedSimpArgs false

variable {β : Type}

/-- dict lookup (first match; the dicts built here have unique keys) -/
abbrev lk (d : List (String × β)) (k : String) : Option β := dictGet d k

theorem lk_nil (k : String) : lk ([] : List (String × β)) k = none := rfl

theorem lk_cons (e : String × β) (d : List (String × β)) (k : String) :
    lk (e :: d) k = if e.1 = k then some e.2 else lk d k := by
  unfold lk dictGet
  by_cases h : e.1 = k
  · rw [List.find?_cons_of_pos (by simp [h]), if_pos h]; rfl
  · rw [List.find?_cons_of_neg (by simp [h]), if_neg h]

theorem lk_append_single_absent (d : List (String × β)) (k k' : String) (v : β)
    (h : (d.any fun e => e.1 == k) = false) :
    lk (d ++ [(k, v)]) k' = if k' = k then some v else lk d k' := by
  induction d with
  | nil => simp [lk_cons, lk_nil, eq_comm]
  | cons e es ih =>
    simp only [List.any_cons, Bool.or_eq_false_iff, beq_eq_false_iff_ne, ne_eq] at h
    rw [List.cons_append, lk_cons, lk_cons, ih h.2]
    by_cases h1 : e.1 = k'
    · have : k' ≠ k := fun hh => h.1 (h1.trans hh)
      simp [h1, this]
    · simp [h1]

theorem lk_map_replace (d : List (String × β)) (k k' : String) (v : β) :
    lk (d.map fun e => if e.1 == k then (k, v) else e) k' =
      if k' = k then (if (d.any fun e => e.1 == k) then some v else none) else lk d k' := by
  induction d with
  | nil => simp [lk_nil]
  | cons e es ih =>
    rw [List.map_cons, lk_cons, lk_cons, ih]
    by_cases he : e.1 = k
    · have hbe : (e.1 == k) = true := by simp [he]
      by_cases hk : k' = k
      · simp [he, hk, hbe]
      · have : ¬ k = k' := fun hh => hk hh.symm
        have h2 : ¬ e.1 = k' := fun hh => hk (hh.symm.trans he)
        simp [he, hk, this, h2, hbe]
    · have hbe : (e.1 == k) = false := by simp [he]
      by_cases hk : k' = k
      · subst hk
        simp only [he, hbe, if_false, if_true, List.any_cons, Bool.false_or, Bool.false_eq_true]
      · by_cases h1 : e.1 = k' <;> simp [he, hk, h1, hbe]

/-- `d[k] = v` -/
theorem lk_dictSet (d : List (String × β)) (k k' : String) (v : β) :
    lk (dictSet d k v) k' = if k' = k then some v else lk d k' := by
  unfold dictSet
  by_cases h : (d.any fun e => e.1 == k) = true
  · rw [if_pos h, lk_map_replace, h]; simp
  · rw [if_neg h]
    exact lk_append_single_absent d k k' v (by cases hh : (d.any fun e => e.1 == k) <;> simp_all)

/-! ### the two passes -/

/-- the `(index, value)` pairs collected for base name `b`, in order of appearance -/
def idxOf (b : String) (l : List (String × Option PVal)) : List (Nat × Option PVal) :=
  l.filterMap fun e => match parseIndexed e.1 with
    | some (b', i) => if b' = b then some (i, e.2) else none
    | none => none

/-- the value of the last plain (non-indexed) entry named `n` -/
def lastPlain (n : String) (l : List (String × Option PVal)) : Option (Option PVal) :=
  (l.reverse.find? fun e => e.1 == n && (parseIndexed e.1).isNone).map (·.2)

theorem idxOf_cons (b : String) (e : String × Option PVal) (l : List (String × Option PVal)) :
    idxOf b (e :: l) = (match parseIndexed e.1 with
      | some (b', i) => if b' = b then [(i, e.2)] else []
      | none => []) ++ idxOf b l := by
  unfold idxOf
  rw [List.filterMap_cons]
  cases parseIndexed e.1 with
  | none => rfl
  | some bi =>
    obtain ⟨b', i⟩ := bi
    by_cases h : b' = b <;> simp [h]

theorem lastPlain_cons (n : String) (e : String × Option PVal) (l : List (String × Option PVal)) :
    lastPlain n (e :: l) = match lastPlain n l with
      | some v => some v
      | none => if e.1 = n ∧ parseIndexed e.1 = none then some e.2 else none := by
  unfold lastPlain
  rw [List.reverse_cons, List.find?_append]
  cases h : l.reverse.find? (fun e => e.1 == n && (parseIndexed e.1).isNone) with
  | some x => rfl
  | none =>
    simp only [Option.map_none, Option.none_or]
    by_cases h1 : e.1 = n
    · cases h2 : parseIndexed e.1 with
      | none =>
        rw [List.find?_cons_of_pos (by simp [h1, h2]; rw [← h1]; exact h2)]
        simp [h1, h2]
      | some bi =>
        rw [List.find?_cons_of_neg (by simp [h2])]
        simp [h2]
    · rw [List.find?_cons_of_neg (by simp [h1])]
      simp [h1]

/-- first pass, for arbitrary accumulators -/
theorem splitNames_spec (l : List (String × Option PVal)) (fin : List (String × Presented))
    (multi : List (String × List (Nat × Option PVal))) :
    (∀ n, lk (splitNames l (fin, multi)).1 n =
      match lastPlain n l with | some v => some (.one v) | none => lk fin n) ∧
    (∀ b, lk (splitNames l (fin, multi)).2 b =
      if idxOf b l = [] then lk multi b else some ((lk multi b).getD [] ++ idxOf b l)) := by
  induction l generalizing fin multi with
  | nil =>
    constructor
    · intro n; simp [splitNames, lastPlain]
    · intro b; simp [splitNames, idxOf]
  | cons e rest ih =>
    obtain ⟨n0, v0⟩ := e
    unfold splitNames
    cases hp : parseIndexed n0 with
    | none =>
      simp only
      obtain ⟨ih1, ih2⟩ := ih (dictSet fin n0 (.one v0)) multi
      constructor
      · intro n
        rw [ih1 n, lastPlain_cons, lk_dictSet]
        cases lastPlain n rest with
        | some v => rfl
        | none =>
          by_cases hn : n = n0
          · subst hn; simp [hp]
          · have : ¬ n0 = n := fun hh => hn hh.symm
            simp [hn, this]
      · intro b
        rw [ih2 b, idxOf_cons]
        simp [hp]
    | some bi =>
      obtain ⟨b0, i0⟩ := bi
      simp only
      obtain ⟨ih1, ih2⟩ := ih fin (dictSet multi b0 ((lk multi b0).getD [] ++ [(i0, v0)]))
      constructor
      · intro n
        rw [ih1 n, lastPlain_cons]
        cases lastPlain n rest with
        | some v => rfl
        | none => simp [hp]
      · intro b
        rw [ih2 b, idxOf_cons, lk_dictSet]
        simp only [hp]
        by_cases hb : b = b0
        · subst hb
          simp only [if_true, List.singleton_append, Option.getD_some, List.append_assoc]
          by_cases hr : idxOf b rest = []
          · simp [hr]
          · simp [hr]
        · have : ¬ b0 = b := fun hh => hb hh.symm
          simp [hb, this]

/-- second pass: a base name overwrites, later base names win (they are unique anyway) -/
theorem mergeMulti_spec (multi : List (String × List (Nat × Option PVal))) (fin : List (String × Presented)) (n : String) :
    lk (mergeMulti multi fin) n =
      match multi.reverse.find? (fun e => e.1 == n) with
      | some e => some (.many ((sortIdx e.2).map (·.2)))
      | none => lk fin n := by
  induction multi generalizing fin with
  | nil => simp [mergeMulti]
  | cons e rest ih =>
    obtain ⟨b, l⟩ := e
    unfold mergeMulti
    rw [ih, List.reverse_cons, List.find?_append]
    cases rest.reverse.find? (fun e => e.1 == n) with
    | some x => rfl
    | none =>
      simp only [Option.none_or, lk_dictSet]
      by_cases hb : b = n
      · subst hb
        rw [List.find?_cons_of_pos (by simp)]
        simp
      · have : ¬ n = b := fun hh => hb hh.symm
        rw [List.find?_cons_of_neg (by simp [hb])]
        simp [this]

/-- keys of a dict built by `dictSet` stay unique -/
theorem dictSet_keys_nodup (d : List (String × β)) (k : String) (v : β) (h : (d.map (·.1)).Nodup) :
    ((dictSet d k v).map (·.1)).Nodup := by
  unfold dictSet
  by_cases hk : (d.any fun e => e.1 == k) = true
  · rw [if_pos hk]
    have : (d.map fun e => if e.1 == k then (k, v) else e).map (·.1) = d.map (·.1) := by
      rw [List.map_map]
      apply List.map_congr_left
      intro e _
      by_cases he : e.1 = k <;> simp [he]
    rw [this]; exact h
  · rw [if_neg hk]
    rw [List.map_append, List.nodup_append]
    refine ⟨h, by simp, ?_⟩
    intro a ha b hb
    simp only [List.map_cons, List.map_nil, List.mem_singleton] at hb
    subst hb
    intro hab
    apply hk
    rw [List.any_eq_true]
    rw [List.mem_map] at ha
    obtain ⟨e, he, hea⟩ := ha
    exact ⟨e, he, by simp [hea, hab]⟩

theorem splitNames_multi_nodup (l : List (String × Option PVal)) (fin : List (String × Presented))
    (multi : List (String × List (Nat × Option PVal))) (h : (multi.map (·.1)).Nodup) :
    ((splitNames l (fin, multi)).2.map (·.1)).Nodup := by
  induction l generalizing fin multi with
  | nil => exact h
  | cons e rest ih =>
    obtain ⟨n0, v0⟩ := e
    unfold splitNames
    cases parseIndexed n0 with
    | none => exact ih _ _ h
    | some bi => exact ih _ _ (dictSet_keys_nodup _ _ _ h)

/-- with unique keys the last match is the first match -/
theorem find?_reverse_of_nodup (d : List (String × β)) (k : String) (h : (d.map (·.1)).Nodup) :
    d.reverse.find? (fun e => e.1 == k) = d.find? (fun e => e.1 == k) := by
  induction d with
  | nil => rfl
  | cons e es ih =>
    rw [List.map_cons, List.nodup_cons] at h
    rw [List.reverse_cons, List.find?_append, ih h.2]
    by_cases he : e.1 = k
    · have : es.find? (fun e => e.1 == k) = none := by
        rw [List.find?_eq_none]
        intro x hx
        simp only [beq_iff_eq]
        intro hxk
        exact h.1 (by rw [he, ← hxk]; exact List.mem_map_of_mem hx)
      rw [this, List.find?_cons_of_pos (by simp [he]), List.find?_cons_of_pos (by simp [he])]
      rfl
    · rw [List.find?_cons_of_neg (by simp [he]), List.find?_cons_of_neg (by simp [he])]
      cases es.find? (fun e => e.1 == k) <;> rfl

/-- `sortIdx` is a stable insertion sort -/
theorem insertIdx_perm (x : Nat × Option PVal) (l : List (Nat × Option PVal)) : (insertIdx x l).Perm (x :: l) := by
  induction l with
  | nil => exact List.Perm.refl _
  | cons y ys ih =>
    unfold insertIdx
    by_cases h : x.1 ≤ y.1
    · rw [if_pos h]
    · rw [if_neg h]; exact (List.Perm.cons y ih).trans (List.Perm.swap x y ys)

theorem sortIdx_perm (l : List (Nat × Option PVal)) : (sortIdx l).Perm l := by
  induction l with
  | nil => exact List.Perm.refl _
  | cons x xs ih => unfold sortIdx; exact (insertIdx_perm x _).trans (List.Perm.cons x ih)

theorem insertIdx_sorted (x : Nat × Option PVal) (l : List (Nat × Option PVal))
    (h : l.Pairwise fun a b => a.1 ≤ b.1) : (insertIdx x l).Pairwise fun a b => a.1 ≤ b.1 := by
  induction l with
  | nil => simp [insertIdx]
  | cons y ys ih =>
    rw [List.pairwise_cons] at h
    unfold insertIdx
    by_cases hxy : x.1 ≤ y.1
    · rw [if_pos hxy]
      refine List.Pairwise.cons ?_ (List.Pairwise.cons h.1 h.2)
      intro z hz
      rcases List.mem_cons.mp hz with rfl | hz
      · exact hxy
      · exact Nat.le_trans hxy (h.1 z hz)
    · rw [if_neg hxy]
      refine List.Pairwise.cons ?_ (ih h.2)
      intro z hz
      rcases List.mem_cons.mp ((insertIdx_perm x ys).mem_iff.mp hz) with rfl | hz
      · omega
      · exact h.1 z hz

theorem sortIdx_sorted (l : List (Nat × Option PVal)) : (sortIdx l).Pairwise fun a b => a.1 ≤ b.1 := by
  induction l with
  | nil => simp [sortIdx]
  | cons x xs ih => unfold sortIdx; exact insertIdx_sorted x _ ih

end VizierModel.Space
