/-
Client layer, part 4: the documented effect of single calls (`effectsOK` of `Model/ClientSpec.lean`).
-/
import VizierModel.Lemmas.ClientCalls

namespace VizierModel.Client
open VizierModel VizierModel.Svc

theorem openStudy_spec {db : DB} {h : Handle} (ho : openStudy db h = true) :
    ∃ st, findStudy db h.owner h.sid = some st ∧ st.immutable = false := by
  unfold openStudy at ho
  split at ho
  · rename_i st hs
    exact ⟨st, hs, by simpa using ho⟩
  · cases ho

theorem lookup_of_find {db : DB} {h : Handle} {st : Study} (hs : findStudy db h.owner h.sid = some st) (id : Nat) :
    lookup db h id = st.findTrial id := by
  unfold lookup; rw [hs]

/-- `onStudy` without the open-study guard -/
theorem onStudy_any {db : DB} {o s : String} {st : Study} (f : Study → Resp × Study)
    (hf : findStudy db o s = some st) : onStudy db o s false f = ((f st).1, putStudy db (f st).2) := by
  unfold onStudy
  simp [hf]

/-! ### complete: the given measurement is stored and returned -/

theorem complete_finalOK (cfg : Cfg) (fuel : Nat) (h : Handle) (id : Nat) (m : Meas) (reason : Option String) (db : DB) :
    completeFinalOK db (clientExec cfg fuel h (.complete id (some m) reason) db).db h id m
      (clientExec cfg fuel h (.complete id (some m) reason) db).obs = true := by
  unfold completeFinalOK
  cases hc : completable db h id with
  | false => rfl
  | true =>
    cases hmet : m.hasMetrics with
    | false => rfl
    | true =>
      obtain ⟨st, t, hs, hopen, ht, hm⟩ := completable_spec hc
      have hidt := (findTrial_some ht).2
      have hcf : chooseFinal t (some m) reason.isSome = some { t with final := some m } := by
        simp [chooseFinal, hmet]
      have hbody : completeBody st id (some m) reason.isSome (reason.getD "") =
          (.trial (markCompleted { t with final := some m } reason.isSome (reason.getD "")),
           st.putTrial (markCompleted { t with final := some m } reason.isSome (reason.getD ""))) := by
        unfold completeBody
        simp [ht, hm, hcf]
      have hstep : step cfg db (completeReq h id (some m) reason) =
          (.trial (markCompleted { t with final := some m } reason.isSome (reason.getD "")),
           putStudy db (st.putTrial (markCompleted { t with final := some m } reason.isSome (reason.getD "")))) := by
        simp only [completeReq, step]
        rw [onStudy_open _ hs hopen, hbody]
      have hid2 : (markCompleted { t with final := some m } reason.isSome (reason.getD "")).id = id := by
        unfold markCompleted; split <;> exact hidt
      have hfin : (markCompleted { t with final := some m } reason.isSome (reason.getD "")).final = some m := by
        unfold markCompleted; split <;> rfl
      have hl : lookup (clientExec cfg fuel h (.complete id (some m) reason) db).db h id =
          some (markCompleted { t with final := some m } reason.isSome (reason.getD "")) := by
        show lookup (step cfg db (completeReq h id (some m) reason)).2 h id = _
        rw [hstep]
        show lookup (putStudy db (st.putTrial _)) h id = _
        rw [lookup_putStudy (st' := st.putTrial (markCompleted { t with final := some m } reason.isSome (reason.getD ""))) hs
          ⟨(handle_key hs).1, (handle_key hs).2⟩]
        exact findTrial_putTrial ht hid2
      have hobs : (clientExec cfg fuel h (.complete id (some m) reason) db).obs = .measurement (some m) := by
        simp only [clientExec, rpc1]
        rw [hstep]
        show Obs.measurement (markCompleted { t with final := some m } reason.isSome (reason.getD "")).final = _
        rw [hfin]
      rw [hl, hobs]
      simp [isMeasurement, hfin]

/-! ### stop -/

theorem stop_stopOK (cfg : Cfg) (fuel : Nat) (h : Handle) (id : Nat) (db : DB) :
    stopOK db (clientExec cfg fuel h (.stop id) db).db h id = true := by
  unfold stopOK
  cases ha : activeTrial db h id with
  | false => rfl
  | true =>
    unfold activeTrial at ha
    simp only [Bool.and_eq_true] at ha
    obtain ⟨st, hs, hopen⟩ := openStudy_spec ha.1
    have hl := ha.2
    rw [lookup_of_find hs] at hl
    split at hl
    · rename_i t ht
      have hact : t.state = .active := by simpa using hl
      have hidt := (findTrial_some ht).2
      have hbody : stopBody st id = (.trial { t with state := .stopping }, st.putTrial { t with state := .stopping }) := by
        unfold stopBody
        simp [ht, hact]
      have hstep : step cfg db (.stop h.owner h.sid id) =
          (.trial { t with state := .stopping }, putStudy db (st.putTrial { t with state := .stopping })) := by
        simp only [step]
        rw [onStudy_open _ hs hopen, hbody]
      have hlook : lookup (clientExec cfg fuel h (.stop id) db).db h id = some { t with state := .stopping } := by
        show lookup (step cfg db (.stop h.owner h.sid id)).2 h id = _
        rw [hstep]
        show lookup (putStudy db (st.putTrial _)) h id = _
        rw [lookup_putStudy (st' := st.putTrial { t with state := .stopping }) hs ⟨(handle_key hs).1, (handle_key hs).2⟩]
        exact findTrial_putTrial ht hidt
      rw [hlook]
      rfl
    · cases hl

/-! ### set_state -/

theorem setState_setStateOK (cfg : Cfg) (fuel : Nat) (h : Handle) (s : CState) (db : DB) :
    setStateOK db (clientExec cfg fuel h (.setState s) db).db h s = true := by
  unfold setStateOK
  cases hs : findStudy db h.owner h.sid with
  | none => rfl
  | some st =>
    have hstep : step cfg db (.setStudyState h.owner h.sid s.toProto) =
        (.study { st with state := s.toProto }, putStudy db { st with state := s.toProto }) := by
      simp only [step]
      rw [onStudy_any _ hs]
    have : findStudy (clientExec cfg fuel h (.setState s) db).db h.owner h.sid = some { st with state := s.toProto } := by
      show findStudy (step cfg db (.setStudyState h.owner h.sid s.toProto)).2 h.owner h.sid = _
      rw [hstep]
      exact findStudy_putStudy (st' := { st with state := s.toProto }) hs ⟨(handle_key hs).1, (handle_key hs).2⟩
    simp only [this]
    simp

/-! ### delete -/

theorem delete_deleteOK (cfg : Cfg) (fuel : Nat) (h : Handle) (id : Nat) (db : DB) :
    deleteOK db (clientExec cfg fuel h (.deleteTrial id) db).db h id = true := by
  unfold deleteOK
  cases ho : openStudy db h with
  | false => rfl
  | true =>
    obtain ⟨st, hs, hopen⟩ := openStudy_spec ho
    cases hl : lookup db h id with
    | none => rfl
    | some t =>
      rw [lookup_of_find hs] at hl
      have hbody : deleteTrialBody st id = (.empty, { st with trials := st.trials.filter (·.id != id) }) := by
        unfold deleteTrialBody
        simp [hl]
      have hstep : step cfg db (.deleteTrial h.owner h.sid id) =
          (.empty, putStudy db { st with trials := st.trials.filter (·.id != id) }) := by
        simp only [step]
        rw [onStudy_open _ hs hopen, hbody]
      have hlook : lookup (clientExec cfg fuel h (.deleteTrial id) db).db h id = none := by
        show lookup (step cfg db (.deleteTrial h.owner h.sid id)).2 h id = _
        rw [hstep]
        show lookup (putStudy db _) h id = _
        rw [lookup_putStudy (st' := { st with trials := st.trials.filter (·.id != id) }) hs ⟨(handle_key hs).1, (handle_key hs).2⟩]
        unfold Study.findTrial
        rw [List.find?_eq_none]
        intro x hx
        have := (List.mem_filter.mp hx).2
        simpa using this
      rw [hlook]
      rfl

/-! ### update_metadata of a trial that does not exist -/

theorem namedIds_single (id : Nat) (kvs : List (K × String)) (hne : kvs ≠ []) :
    id ∈ Meta.namedIds (kvs.map fun kv => ({ tgt := .trial id, k := kv.1, v := kv.2 } : Meta.Upd K String)) := by
  unfold Meta.namedIds
  rw [List.mem_eraseDups]
  cases kvs with
  | nil => exact absurd rfl hne
  | cons kv rest => simp

theorem hasTrial_toStore (st : Study) (id : Nat) (hmiss : st.findTrial id = none) :
    Meta.hasTrial st.toStore id = false := by
  unfold Meta.hasTrial Study.toStore
  unfold Study.findTrial at hmiss
  rw [List.find?_eq_none] at hmiss
  simp only [List.any_map, List.any_eq_false, Function.comp, decide_eq_true_eq]
  intro x hx e
  have := hmiss x hx
  simp [e] at this

theorem updateMetadata_missing_trial (cfg : Cfg) (hc : cfg.metadataAtomic = true) (st : Study) (id : Nat)
    (kvs : List (K × String)) (hne : kvs ≠ []) (hmiss : st.findTrial id = none) :
    (st.updateMetadata cfg (kvs.map fun kv => ({ tgt := .trial id, k := kv.1, v := kv.2 } : Meta.Upd K String))).1 = false := by
  unfold Study.updateMetadata
  simp only [hc, if_true]
  have hall : (Meta.namedIds (kvs.map fun kv => ({ tgt := .trial id, k := kv.1, v := kv.2 } : Meta.Upd K String))).all
      (Meta.hasTrial st.toStore) = false := by
    rw [List.all_eq_false]
    exact ⟨id, namedIds_single id kvs hne, by rw [hasTrial_toStore st id hmiss]; simp⟩
  unfold Meta.updateAtomic
  simp only [hall]
  rfl

theorem md_mdErrorOK (cfg : Cfg) (hc : cfg.metadataAtomic = true) (fuel : Nat) (h : Handle) (id : Nat)
    (kvs : List (K × String)) (db : DB) :
    mdErrorOK db h id kvs (clientExec cfg fuel h (.updateMetadata (some id) kvs) db).obs = true := by
  unfold mdErrorOK
  cases ho : openStudy db h with
  | false => rfl
  | true =>
    obtain ⟨st, hs, hopen⟩ := openStudy_spec ho
    cases hl : lookup db h id with
    | some t => rfl
    | none =>
      cases hk : kvs.isEmpty with
      | true => rfl
      | false =>
        have hne : kvs ≠ [] := by intro e; rw [e] at hk; cases hk
        rw [lookup_of_find hs] at hl
        have hupd := updateMetadata_missing_trial cfg hc st id kvs hne hl
        have hstep : (step cfg db (metadataReq h (some id) kvs)).1 = .mdError := by
          simp only [metadataReq, step]
          rw [onStudy_open _ hs hopen]
          simp only [hupd]
          rfl
        have : (clientExec cfg fuel h (.updateMetadata (some id) kvs) db).obs = .exc .runtimeError := by
          simp only [clientExec, rpc1, hstep]
          rfl
        rw [this]
        rfl

/-! ### add_trial / request -/

theorem findTrial_fresh (st : Study) (t : Trial) (hid : t.id = st.maxTrialId + 1) :
    st.findTrial t.id = none ∧ (st.addTrial t).findTrial t.id = some t := by
  have hnone : st.trials.find? (fun x => x.id == t.id) = none := by
    rw [List.find?_eq_none]
    intro x hx
    have := le_maxId hx
    rw [← maxTrialId_eq] at this
    simp only [beq_iff_eq]
    omega
  refine ⟨hnone, ?_⟩
  unfold Study.findTrial Study.addTrial
  simp only [List.find?_append, hnone, Option.none_or]
  simp

/-- the trial `CreateTrial` stores for a request trial `p` -/
def created (keepInf : Bool) (st : Study) (p : Trial) : Trial :=
  { p with id := st.maxTrialId + 1,
           state := if p.state == .succeeded then .succeeded
                    else if keepInf && p.state == .infeasible then .infeasible else .requested,
           client := "" }

theorem createTrial_step (cfg : Cfg) {db : DB} {h : Handle} {st : Study} (hs : findStudy db h.owner h.sid = some st)
    (hopen : st.immutable = false) (p : Trial) :
    step cfg db (.createTrial h.owner h.sid p) = (.trial (created cfg.createKeepsInfeasible st p), putStudy db (st.addTrial (created cfg.createKeepsInfeasible st p))) := by
  simp only [step]
  rw [onStudy_open _ hs hopen]
  rfl

theorem added_ok {db db0 : DB} {h : Handle} {st : Study} (hs0 : findStudy db0 h.owner h.sid = some st)
    (hs : findStudy db h.owner h.sid = some st) (hopen : st.immutable = false) (k : Bool) (p : Trial) (completed : Bool)
    (hstate : (created k st p).state = (if completed then TState.succeeded else TState.requested)) :
    addedOK db0 (putStudy db (st.addTrial (created k st p))) h p.params completed (.handle (created k st p).id) = true := by
  have hf := findTrial_fresh st (created k st p) rfl
  have ho : openStudy db0 h = true := by unfold openStudy; rw [hs0]; simp [hopen]
  unfold addedOK
  rw [ho]
  simp only [Bool.not_true, Bool.false_or]
  rw [lookup_putStudy (st' := st.addTrial (created k st p)) hs ⟨(handle_key hs).1, (handle_key hs).2⟩, hf.2,
    lookup_of_find hs0, hf.1]
  have hp : (created k st p).params = p.params := rfl
  simp [hstate, hp]

theorem request_addedOK (cfg : Cfg) (fuel : Nat) (h : Handle) (params : Nat) (md : MD) (db : DB) :
    addedOK db (clientExec cfg fuel h (.request params md) db).db h params false
      (clientExec cfg fuel h (.request params md) db).obs = true := by
  cases ho : openStudy db h with
  | false => unfold addedOK; rw [ho]; rfl
  | true =>
    obtain ⟨st, hs, hopen⟩ := openStudy_spec ho
    have hstep := createTrial_step cfg hs hopen (protoTrial params .requested none md)
    have hdb : (clientExec cfg fuel h (.request params md) db).db =
        putStudy db (st.addTrial (created cfg.createKeepsInfeasible st (protoTrial params .requested none md))) := by
      show (step cfg db (.createTrial h.owner h.sid (protoTrial params .requested none md))).2 = _
      rw [hstep]
    have hobs : (clientExec cfg fuel h (.request params md) db).obs =
        .handle (created cfg.createKeepsInfeasible st (protoTrial params .requested none md)).id := by
      simp only [clientExec, rpc1, hstep]
      rfl
    rw [hdb, hobs]
    exact added_ok hs hs hopen _ (protoTrial params .requested none md) false (by cases cfg.createKeepsInfeasible <;> rfl)

theorem addTrial_addedOK (cfg : Cfg) (fuel : Nat) (h : Handle) (params : Nat) (final : Option Meas) (db : DB) :
    addedOK db (clientExec cfg fuel h (.addTrial params final true) db).db h params final.isSome
      (clientExec cfg fuel h (.addTrial params final true) db).obs = true := by
  cases ho : openStudy db h with
  | false => unfold addedOK; rw [ho]; rfl
  | true =>
    obtain ⟨st, hs, hopen⟩ := openStudy_spec ho
    have hget : step cfg db (.getStudy h.owner h.sid) = (.study st, putStudy db st) := by
      simp only [step]; rw [onStudy_any _ hs]
    have hs1 : findStudy (putStudy db st) h.owner h.sid = some st :=
      findStudy_putStudy hs ⟨(handle_key hs).1, (handle_key hs).2⟩
    let p := protoTrial params (addedState final) final []
    have hstep := createTrial_step cfg hs1 hopen p
    have hexec : clientExec cfg fuel h (.addTrial params final true) db =
        { obs := .handle (created cfg.createKeepsInfeasible st p).id,
          reqs := [Req.getStudy h.owner h.sid, Req.createTrial h.owner h.sid p],
          db := putStudy (putStudy db st) (st.addTrial (created cfg.createKeepsInfeasible st p)) } := by
      simp only [clientExec, hget, raised, Bool.not_true, Bool.false_eq_true, if_false]
      rw [hstep]
      rfl
    rw [hexec]
    apply added_ok hs hs1 hopen cfg.createKeepsInfeasible p final.isSome
    cases final <;> cases cfg.createKeepsInfeasible <;> rfl

theorem addTrial_outOfSpaceOK (cfg : Cfg) (fuel : Nat) (h : Handle) (params : Nat) (final : Option Meas) (db : DB) :
    outOfSpaceOK db h (clientExec cfg fuel h (.addTrial params final false) db).obs = true := by
  unfold outOfSpaceOK
  cases hs : findStudy db h.owner h.sid with
  | none => rfl
  | some st =>
    have hget : step cfg db (.getStudy h.owner h.sid) = (.study st, putStudy db st) := by
      simp only [step]; rw [onStudy_any _ hs]
    have : (clientExec cfg fuel h (.addTrial params final false) db).obs = .exc .valueError := by
      simp only [clientExec, hget, raised]
      rfl
    rw [this]
    rfl

theorem deleteStudy_deleteStudyOK (cfg : Cfg) (fuel : Nat) (h : Handle) (db : DB) :
    deleteStudyOK db (clientExec cfg fuel h .deleteStudy db).db h = true := by
  unfold deleteStudyOK
  cases hs : findStudy db h.owner h.sid with
  | none => rfl
  | some st =>
    have : findStudy (clientExec cfg fuel h .deleteStudy db).db h.owner h.sid = none := by
      show findStudy (step cfg db (.deleteStudy h.owner h.sid)).2 h.owner h.sid = none
      simp only [step, hs]
      unfold findStudy
      rw [List.find?_eq_none]
      intro x hx
      have := (List.mem_filter.mp hx).2
      simpa using this
    rw [this]
    rfl

/-- **the documented effect of the single calls** (the predicate judged on real runs) -/
theorem clientExec_effectsOK (cfg : Cfg) (hc : cfg.metadataAtomic = true) (fuel : Nat) (h : Handle) (c : Call) (db : DB) :
    effectsOK db (clientExec cfg fuel h c db).db h c (clientExec cfg fuel h c db).obs = true := by
  cases c with
  | addTrial params final inSpace =>
    cases inSpace with
    | false => rfl
    | true => exact addTrial_addedOK cfg fuel h params final db
  | request params md => exact request_addedOK cfg fuel h params md db
  | complete id m reason =>
    cases m with
    | none => rfl
    | some m => exact complete_finalOK cfg fuel h id m reason db
  | stop id => exact stop_stopOK cfg fuel h id db
  | setState s => exact setState_setStateOK cfg fuel h s db
  | deleteTrial id => exact delete_deleteOK cfg fuel h id db
  | deleteStudy => exact deleteStudy_deleteStudyOK cfg fuel h db
  | updateMetadata target kvs =>
    cases target with
    | none => rfl
    | some id => exact md_mdErrorOK cfg hc fuel h id kvs db
  | _ => rfl

end VizierModel.Client
