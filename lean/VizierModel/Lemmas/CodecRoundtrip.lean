/-
decode (encode v) = v for one parameter, in every converter configuration, over an ordered
field with lawful `log`/`exp` (every value finite in the exact carrier); the shape of one-hot
blocks.
-/
import VizierModel.Lemmas.CodecDecode
import Mathlib.Algebra.Order.Ring.Cast

set_option linter.unusedSectionVars false
set_option linter.unusedSimpArgs false
set_option linter.unusedVariables false

namespace VizierModel.Codec

variable {α : Type} [Field α] [LinearOrder α] [IsStrictOrderedRing α]

def logScaled (sc : Scale) : Prop := sc = .log ∨ sc = .reverseLog

/-- Well-formed parameter for the round trip: ordered bounds / strictly sorted non-empty
feasible values (as `ParameterConfig.factory` stores them), positive values under LOG /
REVERSE_LOG (documented precondition of the scaler). -/
def RTValid (p : Param α) : Prop :=
  match p.dom with
  | .double lo hi => lo ≤ hi ∧ (logScaled p.scale → 0 < lo)
  | .integer lo hi => lo ≤ hi ∧ (logScaled p.scale → 0 < lo)
  | .discrete vs => vs.Pairwise (· < ·) ∧ vs ≠ [] ∧ (logScaled p.scale → ∀ x ∈ vs, 0 < x)
  | .categorical cs => cs ≠ []

section
variable (lg ex : α → α) (fin : α → Bool)

/-! ### helpers -/

theorem nums_map_num (l : List α) : nums (l.map Feat.num) = some l := by
  induction l with
  | nil => rfl
  | cons x l ih => simp [nums, ih]

theorem findIdx_spec {β : Type} (f : β → Bool) (l : List β) (s : Nat) (h : ∃ x ∈ l, f x = true) :
    ∃ k, findIdx f l s = some (s + k) ∧ ∃ hk : k < l.length, f l[k] = true := by
  induction l generalizing s with
  | nil => obtain ⟨x, hx, _⟩ := h; cases hx
  | cons a l ih =>
    by_cases ha : f a = true
    · exact ⟨0, by simp [findIdx, ha], by simp, by simpa using ha⟩
    · have h' : ∃ x ∈ l, f x = true := by
        obtain ⟨x, hx, hfx⟩ := h
        rcases List.mem_cons.mp hx with rfl | hx
        · exact absurd hfx ha
        · exact ⟨x, hx, hfx⟩
      obtain ⟨k, hk1, hk2, hk3⟩ := ih (s + 1) h'
      refine ⟨k + 1, ?_, by simp; omega, by simpa using hk3⟩
      simp only [findIdx, ha, Bool.false_eq_true, if_false, hk1]
      congr 1; omega

theorem le_getLastD (vs : List α) (d : α) (hs : vs.Pairwise (· < ·)) (x : α) (hx : x ∈ vs) :
    x ≤ vs.getLastD d := by
  induction vs generalizing d x with
  | nil => cases hx
  | cons a t ih =>
    rw [List.pairwise_cons] at hs
    rw [List.getLastD_cons]
    rcases List.mem_cons.mp hx with rfl | hx
    · cases t with
      | nil => simp [List.getLastD]
      | cons b t' =>
        exact le_trans (le_of_lt (hs.1 b List.mem_cons_self)) (ih x hs.2 b List.mem_cons_self)
    · exact ih a hs.2 x hx

theorem sorted_bounds (vs : List α) (d : α) (hs : vs.Pairwise (· < ·)) (x : α) (hx : x ∈ vs) :
    vs.headD d ≤ x ∧ x ≤ vs.getLastD d := by
  refine ⟨?_, le_getLastD vs d hs x hx⟩
  cases vs with
  | nil => cases hx
  | cons a t =>
    rw [List.pairwise_cons] at hs
    rw [List.headD_cons]
    rcases List.mem_cons.mp hx with rfl | hx
    · exact le_refl _
    · exact le_of_lt (hs.1 x hx)

/-! ### the scaled value lies within the scaler's output bounds -/

theorem fwd_mem_outBounds (L : LogExp lg ex) (hfin : ∀ z, fin z = true) (st : Bool) (low high x : α) (sc : Scale)
    (hpos : logScaled sc → 0 < low) (hlh : low ≤ high) (hx1 : low ≤ x) (hx2 : x ≤ high) :
    (outBounds (fieldOps lg ex fin) (branch (fieldOps lg ex fin) true low high sc) low high).1 ≤
      fwd (fieldOps lg ex fin) st (branch (fieldOps lg ex fin) true low high sc) low high x ∧
    fwd (fieldOps lg ex fin) st (branch (fieldOps lg ex fin) true low high sc) low high x ≤
      (outBounds (fieldOps lg ex fin) (branch (fieldOps lg ex fin) true low high sc) low high).2 := by
  have hu := fwd_unit lg ex fin L hfin st low high x sc hpos hlh hx1 hx2
  rcases branch_cases lg ex fin low high sc true with ⟨hb, _⟩ | ⟨hb, _, heq⟩ | ⟨hb, _, _, _⟩ | ⟨hb, _, _, _⟩ |
      ⟨hb, _, _, _⟩ | ⟨hb, _, _⟩ <;> rw [hb] at hu ⊢
  · simpa [fwd, outBounds] using And.intro hx1 hx2
  · have : x = low := le_antisymm (heq ▸ hx2) hx1
    simp only [fwd, outBounds, fo_finite, hfin, if_true, fo_add, fo_sub, fo_half, this, sub_self, zero_add,
      le_refl, and_self]
  · simpa [outBounds] using hu
  · simpa [outBounds] using hu
  · simpa [outBounds] using hu
  · simpa [fwd, outBounds] using And.intro hx1 hx2

/-- un-scaling a scaled value of the domain returns it, in both variants of the decode -/
theorem unscale_fwd (L : LogExp lg ex) (hfin : ∀ z, fin z = true) (cfg : Cfg) (low high x : α) (sc : Scale)
    (hpos : logScaled sc → 0 < low) (hlh : low ≤ high) (hx1 : low ≤ x) (hx2 : x ≤ high) :
    unscale (fieldOps lg ex fin) cfg (branch (fieldOps lg ex fin) cfg.scale low high sc) low high
      (fwd (fieldOps lg ex fin) cfg.stableRlog (branch (fieldOps lg ex fin) cfg.scale low high sc) low high x) = x := by
  unfold unscale
  simp only
  split
  · rename_i hc
    simp only [Bool.and_eq_true] at hc
    have hscale : cfg.scale = true := hc.1.2
    rw [hscale]
    have hm := fwd_mem_outBounds lg ex fin L hfin cfg.stableRlog low high x sc hpos hlh hx1 hx2
    rw [clip_id lg ex fin _ _ _ hm.1 hm.2]
    exact bwd_fwd lg ex fin L hfin cfg.stableRlog low high x sc true hpos hlh hx1 hx2
  · exact bwd_fwd lg ex fin L hfin cfg.stableRlog low high x sc cfg.scale hpos hlh hx1 hx2

theorem branch_valid (low high : α) (sc : Scale) (on : Bool) (hpos : logScaled sc → 0 < low) (hlh : low ≤ high) :
    branch (fieldOps lg ex fin) on low high sc ≠ .invalid := by
  intro hb
  rcases branch_cases lg ex fin low high sc on with ⟨h, _⟩ | ⟨h, _, _⟩ | ⟨h, _, _, _⟩ | ⟨h, _, _, _⟩ |
      ⟨h, _, _, _⟩ | ⟨_, hsc, hneg⟩
  all_goals try (rw [h] at hb; cases hb)
  have h0 : 0 < low := hpos (Or.inl hsc)
  rcases hneg with h | h
  · exact absurd h0 (not_lt.mpr (le_of_lt h))
  · exact absurd (lt_of_lt_of_le h0 hlh) (not_lt.mpr (le_of_lt h))

/-! ### exact nearest-feasible decode of a feasible value -/

theorem tpv_integer_exact (hfin : ∀ z, fin z = true) (cfg : Cfg) (lo hi i : Int) (h1 : lo ≤ i) (h2 : i ≤ hi) :
    toParameterValue (fieldOps lg ex fin) cfg (.integer lo hi) (i : α) = .ok (some (.int i)) := by
  have := nearest_exact lg ex fin (i : α) i ((intRange lo hi).map fun (j : Int) => ((j : α), j))
    (by
      intro c hc hcv
      simp only [List.mem_map] at hc
      obtain ⟨j, _, rfl⟩ := hc
      simp only at hcv ⊢
      exact Int.cast_inj.mp hcv)
    ⟨((i : α), i), by simp only [List.mem_map]; exact ⟨i, (mem_intRange lo hi i).mpr ⟨h1, h2⟩, rfl⟩, rfl⟩
  simp only [toParameterValue, fo_finite, hfin, Bool.not_true, Bool.false_eq_true, if_false, fo_cast, fo_ofInt, this,
    Option.map_some]

theorem tpv_discrete_exact (hfin : ∀ z, fin z = true) (cfg : Cfg) (vs : List α) (x : α) (hx : x ∈ vs) :
    toParameterValue (fieldOps lg ex fin) cfg (.discrete vs) x = .ok (some (.dbl x)) := by
  have := nearest_exact lg ex fin x x (vs.map fun y => (y, y))
    (by
      intro c hc hcv
      simp only [List.mem_map] at hc
      obtain ⟨j, _, rfl⟩ := hc
      exact hcv)
    ⟨(x, x), by simp only [List.mem_map]; exact ⟨x, hx, rfl⟩, rfl⟩
  simp only [toParameterValue, fo_finite, hfin, Bool.not_true, Bool.false_eq_true, if_false, fo_cast, this,
    Option.map_some]

/-! ### round trip through an index spec (plain index or one-hot block) -/

theorem index_roundtrip (cfg : Cfg) (p : Param α) (n k : Nat) (v : PVal α)
    (hspec : specOf (fieldOps lg ex fin) cfg p = .index n) (hk : k < n)
    (hidx : indexOfValue (fieldOps lg ex fin) p.dom n (some v) = k)
    (hfeas : feasibleAt p.dom k = some v) :
    ∃ block, encodeValue (fieldOps lg ex fin) cfg p (some v) = .ok block ∧
      decodeBlock (fieldOps lg ex fin) cfg p block = .ok (some v) := by
  unfold encodeValue decodeBlock
  rw [hspec]
  simp only [hidx]
  by_cases hoh : cfg.onehot = true
  · simp only [hoh, if_true]
    have hdim : k < onehotDim cfg n := by unfold onehotDim; omega
    have hle : n ≤ onehotDim cfg n := by unfold onehotDim; omega
    rw [if_pos hdim]
    refine ⟨_, rfl, ?_⟩
    simp only [nums_map_num, indic_length, ne_eq, not_true_eq_false, if_false]
    rw [indic_take _ _ _ _ _ hle, argmax_indic lg ex fin k n hk, hfeas]
  · simp only [hoh, Bool.false_eq_true, if_false]
    refine ⟨_, rfl, ?_⟩
    simp only
    rw [if_neg (by omega), if_pos (by omega)]
    simp only [Int.toNat_natCast, hfeas]

/-- shape of a one-hot block: entry `j` is 1 iff `j` is the encoded index -/
theorem indic_getElem? (ops : NumOps α) (k s m j : Nat) (hj : j < m) :
    (indic ops k s m)[j]? = some (if s + j = k then ops.one else ops.zero) := by
  induction m generalizing s j with
  | zero => omega
  | succ m ih =>
    cases j with
    | zero => simp [indic]
    | succ j =>
      simp only [indic, List.getElem?_cons_succ]
      rw [ih (s + 1) j (by omega)]
      have : s + 1 + j = s + (j + 1) := by omega
      rw [this]

/-! ### round trip through a continuous spec -/

theorem cont_roundtrip_dbl (L : LogExp lg ex) (hfin : ∀ z, fin z = true) (cfg : Cfg) (p : Param α)
    (low high x : α) (hspec : specOf (fieldOps lg ex fin) cfg p = .continuous low high)
    (hpos : logScaled p.scale → 0 < low) (hlh : low ≤ high) (hx1 : low ≤ x) (hx2 : x ≤ high)
    (htpv : toParameterValue (fieldOps lg ex fin) cfg p.dom x = .ok (some (.dbl x))) :
    ∃ block, encodeValue (fieldOps lg ex fin) cfg p (some (.dbl x)) = .ok block ∧
      decodeBlock (fieldOps lg ex fin) cfg p block = .ok (some (.dbl x)) := by
  have hbr := branch_valid lg ex fin low high p.scale cfg.scale hpos hlh
  unfold encodeValue decodeBlock
  rw [hspec]
  simp only [hbr, if_false, fo_cast]
  refine ⟨_, rfl, ?_⟩
  simp only
  rw [unscale_fwd lg ex fin L hfin cfg low high x p.scale hpos hlh hx1 hx2]
  exact htpv

theorem cont_roundtrip_int (L : LogExp lg ex) (hfin : ∀ z, fin z = true) (cfg : Cfg) (p : Param α)
    (low high : α) (i : Int) (hspec : specOf (fieldOps lg ex fin) cfg p = .continuous low high)
    (hpos : logScaled p.scale → 0 < low) (hlh : low ≤ high) (hx1 : low ≤ (i : α)) (hx2 : (i : α) ≤ high)
    (htpv : toParameterValue (fieldOps lg ex fin) cfg p.dom (i : α) = .ok (some (.int i))) :
    ∃ block, encodeValue (fieldOps lg ex fin) cfg p (some (.int i)) = .ok block ∧
      decodeBlock (fieldOps lg ex fin) cfg p block = .ok (some (.int i)) := by
  have hbr := branch_valid lg ex fin low high p.scale cfg.scale hpos hlh
  unfold encodeValue decodeBlock
  rw [hspec]
  simp only [hbr, if_false, fo_cast, fo_ofInt]
  refine ⟨_, rfl, ?_⟩
  simp only
  rw [unscale_fwd lg ex fin L hfin cfg low high (i : α) p.scale hpos hlh hx1 hx2]
  exact htpv

/-! ### MAIN: decode (encode v) = v for one parameter, every configuration -/

theorem roundtrip_param (L : LogExp lg ex) (hfin : ∀ z, fin z = true) (cfg : Cfg) (p : Param α) (v : PVal α)
    (hwf : RTValid p) (hin : inDomain (fieldOps lg ex fin) p.dom v = true) :
    ∃ block, encodeValue (fieldOps lg ex fin) cfg p (some v) = .ok block ∧
      decodeBlock (fieldOps lg ex fin) cfg p block = .ok (some v) := by
  obtain ⟨name, dom, sc⟩ := p
  cases dom with
  | double lo hi =>
    simp only [RTValid] at hwf
    cases v with
    | dbl x =>
      simp only [inDomain, fo_le, Bool.and_eq_true, decide_eq_true_eq] at hin
      apply cont_roundtrip_dbl lg ex fin L hfin cfg _ lo hi x (by simp [specOf]) hwf.2 hwf.1 hin.1 hin.2
      rw [tpv_double lg ex fin cfg lo hi x (hfin x), clip_id lg ex fin x lo hi hin.1 hin.2]
      simp
    | int i => simp [inDomain] at hin
    | str s => simp [inDomain] at hin
  | integer lo hi =>
    simp only [RTValid] at hwf
    cases v with
    | dbl x => simp [inDomain] at hin
    | str s => simp [inDomain] at hin
    | int i =>
      simp only [inDomain, Bool.and_eq_true, decide_eq_true_eq] at hin
      by_cases hc : continuified cfg (Domain.integer (α := α) lo hi) = true
      · apply cont_roundtrip_int lg ex fin L hfin cfg _ (lo : α) (hi : α) i (by simp [specOf, hc])
        · intro hl; exact Int.cast_pos.mpr (hwf.2 hl)
        · exact Int.cast_le.mpr hwf.1
        · exact Int.cast_le.mpr hin.1
        · exact Int.cast_le.mpr hin.2
        · exact tpv_integer_exact lg ex fin hfin cfg lo hi i hin.1 hin.2
      · apply index_roundtrip lg ex fin cfg _ (hi - lo + 1).toNat (i - lo).toNat (.int i) (by simp [specOf, hc])
        · omega
        · simp [indexOfValue, hin.1, hin.2]
        · simp only [feasibleAt]
          rw [if_pos (by omega)]
          congr 2; omega
  | discrete vs =>
    simp only [RTValid] at hwf
    obtain ⟨hsorted, hne, hposv⟩ := hwf
    cases v with
    | int i => simp [inDomain] at hin
    | str s => simp [inDomain] at hin
    | dbl x =>
      simp only [inDomain, List.any_eq_true, fo_beq, decide_eq_true_eq] at hin
      have hx : x ∈ vs := by obtain ⟨y, hy, rfl⟩ := hin; exact hy
      by_cases hc : continuified cfg (Domain.discrete vs) = true
      · have hb := sorted_bounds vs (0 : α) hsorted x hx
        have hhead : vs.headD 0 ∈ vs := by
          cases vs with
          | nil => exact absurd rfl hne
          | cons a t => simp
        apply cont_roundtrip_dbl lg ex fin L hfin cfg _ (vs.headD 0) (vs.getLastD 0) x (by simp [specOf, hc])
        · intro hl; exact hposv hl _ hhead
        · exact le_trans hb.1 hb.2
        · exact hb.1
        · exact hb.2
        · exact tpv_discrete_exact lg ex fin hfin cfg vs x hx
      · obtain ⟨k, hk1, hk2, hk3⟩ := findIdx_spec (fun y => decide (y = x)) vs 0 ⟨x, hx, by simp⟩
        simp only [decide_eq_true_eq] at hk3
        apply index_roundtrip lg ex fin cfg _ vs.length k (.dbl x) (by simp [specOf, hc]) hk2
        · simp only [indexOfValue, fo_beq, hk1, Nat.zero_add, Option.getD_some]
        · simp [feasibleAt, List.getElem?_eq_getElem hk2, hk3]
  | categorical cs =>
    simp only [RTValid] at hwf
    cases v with
    | int i => simp [inDomain] at hin
    | dbl x => simp [inDomain] at hin
    | str s =>
      simp only [inDomain, List.any_eq_true, beq_iff_eq] at hin
      have hs : s ∈ cs := by obtain ⟨y, hy, rfl⟩ := hin; exact hy
      obtain ⟨k, hk1, hk2, hk3⟩ := findIdx_spec (fun c => c == s) cs 0 ⟨s, hs, by simp⟩
      simp only [beq_iff_eq] at hk3
      apply index_roundtrip lg ex fin cfg _ cs.length k (.str s) (by simp [specOf]) hk2
      · simp only [indexOfValue, hk1, Nat.zero_add, Option.getD_some]
      · simp [feasibleAt, List.getElem?_eq_getElem hk2, hk3]

end

end VizierModel.Codec
