/-
Lemmas for C11, part 2: the naive sweep computes the definitional front.
Invariant after `i` iterations (`mask = M i`), for every index `k`:
  (A) `mask[k] = false` → some processed point `ps[s]`, `s < i`, dominates `ps[k]`;
  (C) `mask[k] = true`  → no processed point `ps[j]`, `j < i`, dominates `ps[k]`.
A skipped iteration (`mask[i] = false`) keeps (C) by transitivity of domination.
-/
import VizierModel.Lemmas.Pareto
namespace VizierModel.Pareto

variable {β : Type}

theorem getD_zipWith_mask (f : Bool → List β → Bool) (mask : List Bool) (ps : List (List β))
    (hlen : mask.length = ps.length) (k : Nat) (hk : k < ps.length) :
    (List.zipWith f mask ps).getD k false = f (mask.getD k false) (ps.getD k []) := by
  have hk' : k < mask.length := hlen ▸ hk
  simp [List.getD_eq_getElem?_getD, List.getElem?_zipWith, List.getElem?_eq_getElem hk,
    List.getElem?_eq_getElem hk']

/-- the mask after `i` iterations -/
def sweep (c : Cmp β) (ps : List (List β)) (i : Nat) : List Bool :=
  (List.range i).foldl (naiveStep c ps) (ps.map fun _ => true)

theorem sweep_succ (c : Cmp β) (ps : List (List β)) (i : Nat) :
    sweep c ps (i + 1) = naiveStep c ps (sweep c ps i) i := by
  simp [sweep, List.range_succ, List.foldl_append]

theorem naiveStep_length (c : Cmp β) (ps : List (List β)) (mask : List Bool) (i : Nat)
    (hlen : mask.length = ps.length) : (naiveStep c ps mask i).length = ps.length := by
  unfold naiveStep
  split
  · simp [List.length_zipWith, hlen]
  · exact hlen

theorem sweep_length (c : Cmp β) (ps : List (List β)) (i : Nat) : (sweep c ps i).length = ps.length := by
  induction i with
  | zero => simp [sweep]
  | succ i ih => rw [sweep_succ]; exact naiveStep_length c ps _ i ih

structure SweepInv (c : Cmp β) (ps : List (List β)) (i : Nat) (mask : List Bool) : Prop where
  len : mask.length = ps.length
  dead : ∀ k, k < ps.length → mask.getD k false = false →
    ∃ s, s < i ∧ s < ps.length ∧ dominates c (ps.getD s []) (ps.getD k []) = true
  alive : ∀ k, k < ps.length → mask.getD k false = true →
    ∀ j, j < i → j < ps.length → dominates c (ps.getD j []) (ps.getD k []) = false

theorem getD_mem (ps : List (List β)) (k : Nat) (hk : k < ps.length) : ps.getD k [] ∈ ps := by
  rw [List.getD_eq_getElem?_getD, List.getElem?_eq_getElem hk]
  exact List.getElem_mem hk

theorem sweep_inv {c : Cmp β} (h : c.Lawful) {d : Nat} (ps : List (List β)) (hr : Rect d ps) (i : Nat)
    (hi : i ≤ ps.length) : SweepInv c ps i (sweep c ps i) := by
  induction i with
  | zero =>
    refine ⟨sweep_length c ps 0, ?_, ?_⟩
    · intro k hk hd
      simp [sweep, List.getD_eq_getElem?_getD, hk] at hd
    · intro k _ _ j hj; omega
  | succ i ih =>
    have ih := ih (by omega)
    have hi' : i < ps.length := by omega
    rw [sweep_succ]
    have hlenEq : ∀ a b, a < ps.length → b < ps.length → (ps.getD a []).length = (ps.getD b []).length := by
      intro a b ha hb
      rw [hr _ (getD_mem ps a ha), hr _ (getD_mem ps b hb)]
    unfold naiveStep
    by_cases hm : (sweep c ps i).getD i false = true
    · -- `ps[i]` is still alive: every survivor it dominates is removed
      rw [if_pos hm]
      have hget : ∀ k, k < ps.length →
          (List.zipWith (fun m p => m && (anyGt c p (ps.getD i []) || allEq c p (ps.getD i [])))
            (sweep c ps i) ps).getD k false =
          ((sweep c ps i).getD k false && !dominates c (ps.getD i []) (ps.getD k [])) := by
        intro k hk
        rw [getD_zipWith_mask _ _ _ ih.len k hk, h.keep_eq]
      refine ⟨by simp [List.length_zipWith, ih.len], ?_, ?_⟩
      · intro k hk hd
        rw [hget k hk] at hd
        cases hmk : (sweep c ps i).getD k false
        · obtain ⟨s, hs, hs', hdom⟩ := ih.dead k hk hmk
          exact ⟨s, by omega, hs', hdom⟩
        · rw [hmk] at hd
          simp only [Bool.true_and, Bool.not_eq_false'] at hd
          exact ⟨i, by omega, hi', hd⟩
      · intro k hk ha j hj hjn
        rw [hget k hk] at ha
        simp only [Bool.and_eq_true, Bool.not_eq_true'] at ha
        by_cases hji : j = i
        · subst hji; exact ha.2
        · exact ih.alive k hk ha.1 j (by omega) hjn
    · -- `ps[i]` was removed by an earlier point, which dominates whatever `ps[i]` dominates
      rw [if_neg hm]
      have hm' : (sweep c ps i).getD i false = false := by
        cases hx : (sweep c ps i).getD i false
        · rfl
        · exact absurd hx hm
      refine ⟨ih.len, ?_, ?_⟩
      · intro k hk hd
        obtain ⟨s, hs, hs', hdom⟩ := ih.dead k hk hd
        exact ⟨s, by omega, hs', hdom⟩
      · intro k hk ha j hj hjn
        by_cases hji : j = i
        · subst hji
          obtain ⟨s, hs, hs', hdom⟩ := ih.dead j hi' hm'
          cases hx : dominates c (ps.getD j []) (ps.getD k [])
          · rfl
          · have := h.dominates_trans (ps.getD k []) (ps.getD j []) (ps.getD s [])
              (hlenEq k j hk hi') (hlenEq j s hi' hs') hdom hx
            rw [ih.alive k hk ha s hs hs'] at this; cases this
        · exact ih.alive k hk ha j (by omega) hjn

theorem naive_eq_sweep (c : Cmp β) (ps : List (List β)) : naive c ps = sweep c ps ps.length := rfl

theorem any_dominates_iff (c : Cmp β) (ps : List (List β)) (p : List β) :
    ps.any (fun q => dominates c q p) = true ↔
      ∃ j, j < ps.length ∧ dominates c (ps.getD j []) p = true := by
  rw [List.any_eq_true]
  constructor
  · rintro ⟨q, hq, hd⟩
    obtain ⟨j, hj, rfl⟩ := List.getElem_of_mem hq
    exact ⟨j, hj, by simpa [List.getD_eq_getElem?_getD, List.getElem?_eq_getElem hj] using hd⟩
  · rintro ⟨j, hj, hd⟩
    exact ⟨ps.getD j [], getD_mem ps j hj, hd⟩

/-- the naive sweep computes the definitional front (any dimension, duplicates, ties) -/
theorem naive_correct {c : Cmp β} (h : c.Lawful) {d : Nat} (ps : List (List β)) (hr : Rect d ps) :
    naive c ps = front c ps := by
  have inv := sweep_inv h ps hr ps.length (Nat.le_refl _)
  rw [naive_eq_sweep]
  apply List.ext_getElem
  · rw [inv.len, front, List.length_map]
  · intro k h1 h2
    have hk : k < ps.length := by rw [inv.len] at h1; exact h1
    have e1 : (sweep c ps ps.length)[k] = (sweep c ps ps.length).getD k false := by
      simp [List.getD_eq_getElem?_getD, List.getElem?_eq_getElem h1]
    have e2 : (front c ps)[k] = isFront c ps (ps.getD k []) := by
      simp [front, List.getD_eq_getElem?_getD, List.getElem?_eq_getElem hk]
    rw [e1, e2]
    apply Bool.eq_iff_iff.mpr
    constructor
    · intro ha
      unfold isFront
      rw [Bool.not_eq_true', ← Bool.not_eq_true, any_dominates_iff]
      rintro ⟨j, hj, hd⟩
      rw [inv.alive k hk ha j hj hj] at hd; cases hd
    · intro hf
      cases hx : (sweep c ps ps.length).getD k false
      · obtain ⟨s, _, hs', hdom⟩ := inv.dead k hk hx
        unfold isFront at hf
        rw [Bool.not_eq_true', ← Bool.not_eq_true, any_dominates_iff] at hf
        exact absurd ⟨s, hs', hdom⟩ hf
      · rfl

end VizierModel.Pareto
