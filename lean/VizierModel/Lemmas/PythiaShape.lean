/-
Lemmas for the Pythia glue (`Model/PythiaShape.lean`): what a shape made of ONE unconditional RPC admits, the members
of a filtered trial table, and the link between the handler table of `PythiaServicer.Suggest` and the way an algorithm
failure reaches SuggestTrials in each deployment (`Deploy.algFailure`).
-/
import VizierModel.Model.PythiaShape
import VizierModel.Model.Deploy

namespace VizierModel.PythiaShape
open VizierModel

/-- a shape that is one unconditional RPC admits exactly the run that issues it once -/
theorem admits_single_once (r : String) (names : List String) :
    admits [(r, .once)] names = true ↔ names = [r] := by
  cases names with
  | nil => simp [admits]
  | cons x xs =>
    cases xs with
    | nil => simp [admits, List.isEmpty]
    | cons y ys => simp [admits, List.isEmpty]

/-- membership in the answer of the full GetTrials filter -/
theorem mem_getTrialsF (env : Loader.Env) (ids : Option (List Nat)) (mn mx : Option Nat) (st : Option Loader.Status)
    (t : Loader.Trial) :
    t ∈ Loader.getTrialsF env ids mn mx st ↔
      t ∈ env ∧ (∀ l, ids = some l → t.id ∈ l) ∧ (∀ m, mn = some m → m ≤ t.id) ∧ (∀ m, mx = some m → t.id ≤ m) ∧
        (∀ s, st = some s → t.st = s) := by
  unfold Loader.getTrialsF
  rw [List.mem_filter]
  cases ids <;> cases mn <;> cases mx <;> cases st <;> simp [and_assoc]

/-- how a failure of `policy.suggest` reaches SuggestTrials, DERIVED from the handler table of `PythiaServicer.Suggest`
    and the transport rule (whatever leaves a servicer behind gRPC arrives as `grpc.RpcError`): in-process the documented
    non-RpcError class when the table wraps everything into it, nothing definite otherwise -/
def suggestFailure (h : Handlers) : Deploy.Transport → Option Svc.AlgOutcome
  | .grpcSplit => some .raisesRpc
  | _ => if methodWraps h "Suggest" then some .raisesOther else none

/-- is the outcome the failure `Deploy.algFailure` assumes for the transport -/
def isAlgFailureOf (t : Deploy.Transport) : Option Svc.AlgOutcome → Bool
  | some .raisesRpc => t == .grpcSplit
  | some .raisesOther => t != .grpcSplit
  | _ => false

end VizierModel.PythiaShape
