/-
Transaction shape of the SQL datastore (C05): what the event sequences regenerated from sql_datastore.py
(`Generated/SqlTxn.lean`, harness/translators/sql_txn.py) mean.  `pathOK` is the decidable safety predicate
of one control-flow path; `all_or_nothing` / `raise_changes_nothing` prove what it buys: under the database
semantics "writes are pending until commit, rollback discards them, a crash discards what is pending", the
durable state after ANY prefix of a safe path (= a crash at that point) is the state before the call or the
state the whole call leaves, and a call that leaves by an exception has made nothing durable.  Core Lean.
-/
import VizierModel.Generated.SqlTxn

namespace VizierModel.SqlTxn
open VizierModel.Generated.SqlTxn

/-- transaction safety of one control-flow path, read off its events: `p` = a write is pending in the open
transaction, `n` = number of commits that made writes durable so far.  A path may leave by `ret` with
nothing pending and at most ONE such commit, or by `raise` with nothing pending and NO such commit. -/
def pathOKAux : Bool → Nat → List TxEv → Bool
  | _, _, [] => false
  | p, n, .r :: es => pathOKAux p n es
  | _, n, .w :: es => pathOKAux true n es
  | _, n, .wrb :: es => pathOKAux true n es
  | _, n, .wrbFail :: es => pathOKAux false n es
  | p, n, .commit :: es => pathOKAux false (if p then n + 1 else n) es
  | _, n, .rollback :: es => pathOKAux false n es
  | p, n, .raise :: es => !p && n == 0 && es.isEmpty
  | p, n, .ret :: es => !p && decide (n ≤ 1) && es.isEmpty

def pathOK (es : List TxEv) : Bool := pathOKAux false 0 es

/-! ### what the shape means: the on-disk effect of every PREFIX of a safe path (= a crash at that point) is
either nothing or the whole effect of the call -/

/-- database state while a path runs: `disk` = durable writes, `pend` = writes of the open transaction;
the k-th write statement of the path writes the token `k` -/
structure Db where
  disk : List Nat
  pend : List Nat
  next : Nat

def stepDb (d : Db) : TxEv → Db
  | .r => d
  | .w | .wrb => { d with pend := d.pend ++ [d.next], next := d.next + 1 }
  | .wrbFail | .rollback => { d with pend := [] }
  | .commit => { d with disk := d.disk ++ d.pend, pend := [] }
  | .raise | .ret => d

def runDb (d : Db) (es : List TxEv) : Db := es.foldl stepDb d

theorem ok_bound : ∀ (es : List TxEv) (p : Bool) (n : Nat), pathOKAux p n es = true → n ≤ 1
  | [], _, _, h => by simp [pathOKAux] at h
  | .r :: es, p, n, h => ok_bound es p n (by simpa [pathOKAux] using h)
  | .w :: es, _, n, h => ok_bound es true n (by simpa [pathOKAux] using h)
  | .wrb :: es, _, n, h => ok_bound es true n (by simpa [pathOKAux] using h)
  | .wrbFail :: es, _, n, h => ok_bound es false n (by simpa [pathOKAux] using h)
  | .rollback :: es, _, n, h => ok_bound es false n (by simpa [pathOKAux] using h)
  | .commit :: es, p, n, h => by
    have := ok_bound es false (if p then n + 1 else n) (by simpa [pathOKAux] using h)
    split at this <;> omega
  | .raise :: es, p, n, h => by
    simp only [pathOKAux, Bool.and_eq_true, beq_iff_eq] at h
    omega
  | .ret :: es, p, n, h => by
    simp only [pathOKAux, Bool.and_eq_true, decide_eq_true_eq] at h
    omega

/-- once writes have been committed (`n = 1`) a safe path never changes the disk again -/
theorem after_commit_stable : ∀ (es : List TxEv) (p : Bool) (d : Db), pathOKAux p 1 es = true →
    (p = false → d.pend = []) → ∀ k, (runDb d (es.take k)).disk = d.disk
  | [], _, _, h, _, _ => by simp [pathOKAux] at h
  | e :: es, p, d, h, hp, k => by
    cases k with
    | zero => rfl
    | succ k =>
      simp only [List.take_succ_cons, runDb, List.foldl_cons]
      cases e with
      | r => exact after_commit_stable es p d (by simpa [pathOKAux] using h) hp k
      | w =>
        have := after_commit_stable es true (stepDb d .w) (by simpa [pathOKAux] using h) (by intro c; cases c) k
        simpa [runDb, stepDb] using this
      | wrb =>
        have := after_commit_stable es true (stepDb d .wrb) (by simpa [pathOKAux] using h) (by intro c; cases c) k
        simpa [runDb, stepDb] using this
      | wrbFail =>
        have := after_commit_stable es false (stepDb d .wrbFail) (by simpa [pathOKAux] using h) (by intro _; rfl) k
        simpa [runDb, stepDb] using this
      | rollback =>
        have := after_commit_stable es false (stepDb d .rollback) (by simpa [pathOKAux] using h) (by intro _; rfl) k
        simpa [runDb, stepDb] using this
      | commit =>
        cases p with
        | true =>
          have h' : pathOKAux false 2 es = true := by simpa [pathOKAux] using h
          have := ok_bound es false 2 h'
          omega
        | false =>
          have h' : pathOKAux false 1 es = true := by simpa [pathOKAux] using h
          have hpe := hp rfl
          have := after_commit_stable es false (stepDb d .commit) h' (by intro _; rfl) k
          simpa [runDb, stepDb, hpe] using this
      | raise =>
        simp [pathOKAux] at h
      | ret =>
        simp only [pathOKAux, Bool.and_eq_true, List.isEmpty_iff] at h
        obtain ⟨_, he⟩ := h
        subst he
        simp [stepDb]

/-- before any durable commit (`n = 0`): every prefix leaves the disk as it was, or at the state the whole
path leaves it in -/
theorem all_or_nothing_aux : ∀ (es : List TxEv) (p : Bool) (d : Db), pathOKAux p 0 es = true →
    (p = false → d.pend = []) →
    ∀ k, (runDb d (es.take k)).disk = d.disk ∨ (runDb d (es.take k)).disk = (runDb d es).disk
  | [], _, _, h, _, _ => by simp [pathOKAux] at h
  | e :: es, p, d, h, hp, k => by
    cases k with
    | zero => exact Or.inl rfl
    | succ k =>
      simp only [List.take_succ_cons, runDb, List.foldl_cons]
      cases e with
      | r => exact all_or_nothing_aux es p d (by simpa [pathOKAux] using h) hp k
      | w =>
        have := all_or_nothing_aux es true (stepDb d .w) (by simpa [pathOKAux] using h) (by intro c; cases c) k
        simpa [runDb, stepDb] using this
      | wrb =>
        have := all_or_nothing_aux es true (stepDb d .wrb) (by simpa [pathOKAux] using h) (by intro c; cases c) k
        simpa [runDb, stepDb] using this
      | wrbFail =>
        have := all_or_nothing_aux es false (stepDb d .wrbFail) (by simpa [pathOKAux] using h) (by intro _; rfl) k
        simpa [runDb, stepDb] using this
      | rollback =>
        have := all_or_nothing_aux es false (stepDb d .rollback) (by simpa [pathOKAux] using h) (by intro _; rfl) k
        simpa [runDb, stepDb] using this
      | commit =>
        cases p with
        | true =>
          -- the one durable commit: from here on the disk is final
          have h' : pathOKAux false 1 es = true := by simpa [pathOKAux] using h
          have hs := after_commit_stable es false (stepDb d .commit) h' (by intro _; rfl)
          right
          have a := hs k
          have b := hs es.length
          rw [List.take_length] at b
          simp only [runDb] at a b
          rw [a, b]
        | false =>
          have h' : pathOKAux false 0 es = true := by simpa [pathOKAux] using h
          have hpe := hp rfl
          have := all_or_nothing_aux es false (stepDb d .commit) h' (by intro _; rfl) k
          simpa [runDb, stepDb, hpe] using this
      | raise =>
        simp only [pathOKAux, Bool.and_eq_true, List.isEmpty_iff] at h
        obtain ⟨_, he⟩ := h
        subst he
        left; simp [stepDb]
      | ret =>
        simp only [pathOKAux, Bool.and_eq_true, List.isEmpty_iff] at h
        obtain ⟨_, he⟩ := h
        subst he
        left; simp [stepDb]

/-- a safe path that leaves by `raise` has made nothing durable -/
theorem raise_changes_nothing : ∀ (es : List TxEv) (p : Bool) (d : Db), pathOKAux p 0 es = true →
    (p = false → d.pend = []) → es.getLast? = some .raise → (runDb d es).disk = d.disk
  | [], _, _, h, _, _ => by simp [pathOKAux] at h
  | e :: es, p, d, h, hp, hl => by
    simp only [runDb, List.foldl_cons]
    have hl' : es ≠ [] → es.getLast? = some .raise := by
      intro hne
      cases es with
      | nil => exact absurd rfl hne
      | cons x xs => simpa [List.getLast?_cons_cons] using hl
    cases e with
    | r =>
      have h' : pathOKAux p 0 es = true := by simpa [pathOKAux] using h
      have hne : es ≠ [] := by intro e; subst e; simp [pathOKAux] at h'
      exact raise_changes_nothing es p d h' hp (hl' hne)
    | w =>
      have h' : pathOKAux true 0 es = true := by simpa [pathOKAux] using h
      have hne : es ≠ [] := by intro e; subst e; simp [pathOKAux] at h'
      have := raise_changes_nothing es true (stepDb d .w) h' (by intro c; cases c) (hl' hne)
      simpa [runDb, stepDb] using this
    | wrb =>
      have h' : pathOKAux true 0 es = true := by simpa [pathOKAux] using h
      have hne : es ≠ [] := by intro e; subst e; simp [pathOKAux] at h'
      have := raise_changes_nothing es true (stepDb d .wrb) h' (by intro c; cases c) (hl' hne)
      simpa [runDb, stepDb] using this
    | wrbFail =>
      have h' : pathOKAux false 0 es = true := by simpa [pathOKAux] using h
      have hne : es ≠ [] := by intro e; subst e; simp [pathOKAux] at h'
      have := raise_changes_nothing es false (stepDb d .wrbFail) h' (by intro _; rfl) (hl' hne)
      simpa [runDb, stepDb] using this
    | rollback =>
      have h' : pathOKAux false 0 es = true := by simpa [pathOKAux] using h
      have hne : es ≠ [] := by intro e; subst e; simp [pathOKAux] at h'
      have := raise_changes_nothing es false (stepDb d .rollback) h' (by intro _; rfl) (hl' hne)
      simpa [runDb, stepDb] using this
    | commit =>
      cases p with
      | true =>
        -- a durable commit followed by `raise` is not a safe path
        have h' : pathOKAux false 1 es = true := by simpa [pathOKAux] using h
        exfalso
        clear hp hl'
        -- the path ends with raise, which needs n = 0
        have : ∀ (es : List TxEv) (q : Bool), pathOKAux q 1 es = true → es.getLast? = some .raise → False := by
          intro es
          induction es with
          | nil => intro q hq; simp [pathOKAux] at hq
          | cons x xs ih =>
            intro q hq hlast
            have hl2 : xs ≠ [] → xs.getLast? = some .raise := by
              intro hne
              cases xs with
              | nil => exact absurd rfl hne
              | cons y ys => simpa [List.getLast?_cons_cons] using hlast
            cases x with
            | raise => simp [pathOKAux] at hq
            | ret =>
              simp only [pathOKAux, Bool.and_eq_true, List.isEmpty_iff] at hq
              obtain ⟨_, he⟩ := hq
              subst he
              simp at hlast
            | r =>
              have hq' : pathOKAux q 1 xs = true := by simpa [pathOKAux] using hq
              have hne : xs ≠ [] := by intro e; subst e; simp [pathOKAux] at hq'
              exact ih q hq' (hl2 hne)
            | w =>
              have hq' : pathOKAux true 1 xs = true := by simpa [pathOKAux] using hq
              have hne : xs ≠ [] := by intro e; subst e; simp [pathOKAux] at hq'
              exact ih true hq' (hl2 hne)
            | wrb =>
              have hq' : pathOKAux true 1 xs = true := by simpa [pathOKAux] using hq
              have hne : xs ≠ [] := by intro e; subst e; simp [pathOKAux] at hq'
              exact ih true hq' (hl2 hne)
            | wrbFail =>
              have hq' : pathOKAux false 1 xs = true := by simpa [pathOKAux] using hq
              have hne : xs ≠ [] := by intro e; subst e; simp [pathOKAux] at hq'
              exact ih false hq' (hl2 hne)
            | rollback =>
              have hq' : pathOKAux false 1 xs = true := by simpa [pathOKAux] using hq
              have hne : xs ≠ [] := by intro e; subst e; simp [pathOKAux] at hq'
              exact ih false hq' (hl2 hne)
            | commit =>
              cases q with
              | true =>
                have hq' : pathOKAux false 2 xs = true := by simpa [pathOKAux] using hq
                have := ok_bound xs false 2 hq'
                omega
              | false =>
                have hq' : pathOKAux false 1 xs = true := by simpa [pathOKAux] using hq
                have hne : xs ≠ [] := by intro e; subst e; simp [pathOKAux] at hq'
                exact ih false hq' (hl2 hne)
        have hne : es ≠ [] := by intro e; subst e; simp [pathOKAux] at h'
        cases es with
        | nil => exact hne rfl
        | cons x xs => exact this (x :: xs) false h' (by simpa [List.getLast?_cons_cons] using hl)
      | false =>
        have h' : pathOKAux false 0 es = true := by simpa [pathOKAux] using h
        have hne : es ≠ [] := by intro e; subst e; simp [pathOKAux] at h'
        have hpe := hp rfl
        have := raise_changes_nothing es false (stepDb d .commit) h' (by intro _; rfl) (hl' hne)
        simpa [runDb, stepDb, hpe] using this
    | raise =>
      simp only [pathOKAux, Bool.and_eq_true, List.isEmpty_iff] at h
      obtain ⟨_, he⟩ := h
      subst he
      simp [stepDb]
    | ret =>
      simp only [pathOKAux, Bool.and_eq_true, List.isEmpty_iff] at h
      obtain ⟨_, he⟩ := h
      subst he
      simp at hl

end VizierModel.SqlTxn
