/-
C09 lemmas: ParameterConfig tree ↔ ParameterSpec tree, any nesting depth.
-/
import VizierModel.Lemmas.WireDict

namespace VizierModel.Wire

theorem sortedBy_iff {α : Type} (lt : α → α → Bool) (l : List α) :
    sortedBy lt l = true ↔ l.Pairwise (fun a b => lt b a = false) := by
  simp [sortedBy]

theorem scale_roundtrip (s : Option Scale) (h : s ≠ some .uniformDiscrete) :
    scaleFromProto (scaleToProto s) = s := by
  cases s with
  | none => rfl
  | some v => cases v <;> first | rfl | exact absurd rfl h

theorem readDflt_ok {α : Type} (cfg : Cfg) (truthy : α → Bool) (d : Option α)
    (hz : ∀ x, truthy x = false → d = some x → (cfg.defaultHasField = true)) :
    readDflt cfg truthy d = d := by
  unfold readDflt
  by_cases hc : cfg.defaultHasField = true
  · simp [hc]
  · simp only [hc, Bool.false_eq_true, if_false]
    cases d with
    | none => rfl
    | some x =>
      cases ht : truthy x with
      | true => simp [Option.filter, ht]
      | false => exact absurd (hz x ht rfl) hc

/-- the header (everything but the children) survives -/
theorem hdr_roundtrip (cfg : Cfg) (h : Hdr) (hw : h.wf = true) (hd : h.dom.dfltOk cfg = true) :
    hdrFromProto cfg (hdrToProto h) = h := by
  obtain ⟨name, dom, scale, ext⟩ := h
  simp only [Hdr.wf, Bool.and_eq_true, bne_iff_ne, ne_eq] at hw
  obtain ⟨⟨_, hs⟩, hdom⟩ := hw
  simp only [hdrFromProto, hdrToProto, scale_roundtrip scale hs]
  congr 1
  cases dom with
  | double lo hi d =>
    simp only [Dom.dfltOk, Bool.or_eq_true, bne_iff_ne, ne_eq] at hd
    simp only
    congr 1
    apply readDflt_ok cfg
    intro x hx hdx
    rcases hd with hd | hd
    · exact hd
    · subst hdx; simp at hx; exact absurd (by rw [hx]) hd
  | integer lo hi d =>
    simp only [Dom.dfltOk, Bool.or_eq_true, bne_iff_ne, ne_eq] at hd
    simp only
    congr 1
    apply readDflt_ok cfg
    intro x hx hdx
    rcases hd with hd | hd
    · exact hd
    · subst hdx; simp at hx; exact absurd (by rw [hx]) hd
  | discrete vs d =>
    simp only [Dom.dfltOk, Bool.or_eq_true, bne_iff_ne, ne_eq] at hd
    simp only [Bool.and_eq_true, sortedBy_iff] at hdom
    simp only
    rw [sortBy_of_sorted ltRat vs hdom.2, sortBy_of_sorted ltRat vs hdom.2]
    congr 1
    apply readDflt_ok cfg
    intro x hx hdx
    rcases hd with hd | hd
    · exact hd
    · subst hdx; simp at hx; exact absurd (by rw [hx]) hd
  | categorical vs d =>
    simp only [Dom.dfltOk, Bool.or_eq_true, bne_iff_ne, ne_eq] at hd
    simp only [Bool.and_eq_true, sortedBy_iff] at hdom
    simp only
    rw [sortBy_of_sorted ltStr vs hdom.2]
    congr 1
    apply readDflt_ok cfg
    intro x hx hdx
    rcases hd with hd | hd
    · exact hd
    · subst hdx; simp at hx; exact absurd (by rw [hx]) hd

theorem parentValues_parentOf (dom : Dom) (v : Val) (h : keyOk dom v = true) :
    parentValues (parentOf dom v) = [v] := by
  cases dom <;> cases v <;> simp_all [keyOk, parentOf, parentValues, sortBy, insSorted]

theorem childrenOf_append (cfg : Cfg) (a b : List (PParent × PSpec)) :
    childrenOf cfg (a ++ b) = childrenOf cfg a ++ childrenOf cfg b := by
  induction a with
  | nil => simp [childrenOf]
  | cons x xs ih =>
    obtain ⟨par, sp⟩ := x
    simp [childrenOf, ih]

theorem addChildren_singletons (cs : List (Val × List PC)) :
    addChildren ((flat cs).map fun e => ([e.1], e.2)) = unflat PC.name (flat cs) := by
  unfold addChildren unflat
  rw [List.foldl_map]
  rfl

theorem okSubs_inner (cfg : Cfg) (cs : List (Val × List PC)) (h : okSubs cfg cs = true) :
    (∀ g ∈ cs, (g.2.map PC.name).Nodup) ∧ (∀ g ∈ cs, g.2 ≠ []) := by
  induction cs with
  | nil => simp
  | cons g rest ih =>
    obtain ⟨v, ps⟩ := g
    simp only [okSubs, Bool.and_eq_true, Bool.not_eq_true', decide_eq_true_eq] at h
    obtain ⟨⟨⟨hne, hnd⟩, _⟩, hrest⟩ := h
    have := ih hrest
    refine ⟨?_, ?_⟩
    · intro g hg
      rcases List.mem_cons.mp hg with rfl | hg
      · exact hnd
      · exact this.1 g hg
    · intro g hg
      rcases List.mem_cons.mp hg with rfl | hg
      · intro he; simp at hne; exact hne he
      · exact this.2 g hg

mutual
/-- MAIN LEMMA, by structural induction on the conditional tree (any depth) -/
theorem pc_roundtrip (cfg : Cfg) : (p : PC) → p.ok cfg = true → fromProto cfg (toProto cfg p) = p
  | .mk h cs, hok => by
    simp only [PC.ok, Bool.and_eq_true, decide_eq_true_eq, List.all_eq_true] at hok
    obtain ⟨⟨⟨⟨hw, hd⟩, hkeys⟩, hnd⟩, hsubs⟩ := hok
    simp only [toProto, fromProto]
    rw [hdr_roundtrip cfg h hw hd, subs_roundtrip cfg h.dom cs hkeys hsubs, addChildren_singletons]
    have := okSubs_inner cfg cs hsubs
    rw [unflat_flat PC.name cs hnd this.1 this.2]
theorem subs_roundtrip (cfg : Cfg) (dom : Dom) :
    (cs : List (Val × List PC)) → (∀ g ∈ cs, keyOk dom g.1 = true) → okSubs cfg cs = true →
      childrenOf cfg (condsOfSubs cfg dom cs) = (flat cs).map fun e => ([e.1], e.2)
  | [], _, _ => by simp [condsOfSubs, childrenOf, flat]
  | (v, ps) :: rest, hkeys, hok => by
    simp only [okSubs, Bool.and_eq_true] at hok
    obtain ⟨⟨⟨_, _⟩, hl⟩, hrest⟩ := hok
    simp only [condsOfSubs]
    rw [childrenOf_append, list_roundtrip cfg dom v (hkeys (v, ps) (by simp)) ps hl,
      subs_roundtrip cfg dom rest (fun g hg => hkeys g (by simp [hg])) hrest, flat_cons]
    simp [List.map_map, Function.comp_def]
theorem list_roundtrip (cfg : Cfg) (dom : Dom) (v : Val) (hv : keyOk dom v = true) :
    (ps : List PC) → okList cfg ps = true →
      childrenOf cfg (condsOfList cfg dom v ps) = ps.map fun p => ([v], p)
  | [], _ => by simp [condsOfList, childrenOf]
  | .mk h cs :: ps, hok => by
    simp only [okList, Bool.and_eq_true, Bool.or_eq_true] at hok
    obtain ⟨⟨hp, hdepth⟩, hps⟩ := hok
    simp only [condsOfList, childrenOf, List.map_cons, parentValues_parentOf dom v hv]
    rw [list_roundtrip cfg dom v hv ps hps]
    congr 2
    by_cases hr : cfg.recurseBeforeCopy = true
    · simp only [hr, if_true]
      have := pc_roundtrip cfg (.mk h cs) hp
      simpa only [toProto] using this
    · have hcs : cs = [] := by
        rcases hdepth with hd | hd
        · exact absurd hd hr
        · cases cs <;> simp_all
      subst hcs
      simp only [hr, Bool.false_eq_true, if_false]
      have := pc_roundtrip cfg (.mk h []) hp
      simpa only [toProto, condsOfSubs] using this
end

end VizierModel.Wire
