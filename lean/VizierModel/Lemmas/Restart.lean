/-
Helper lemmas for C13: the generic restart-transparency induction, the state invariants of the
grid and quasi-random designers, and the run-enumeration lemma of the grid designer.
-/
import VizierModel.Model.Restart

namespace VizierModel.Restart

variable {σ τ ο μ κ : Type}

namespace Designer

theorem ObsEq.refl (D : Designer σ τ ο μ κ) (s : σ) : D.ObsEq s s := fun _ => rfl

theorem ObsEq.symm {D : Designer σ τ ο μ κ} {s s' : σ} (h : D.ObsEq s s') : D.ObsEq s' s :=
  fun st => (h st).symm

theorem ObsEq.trans {D : Designer σ τ ο μ κ} {a b c : σ} (h1 : D.ObsEq a b) (h2 : D.ObsEq b c) :
    D.ObsEq a c := fun st => (h1 st).trans (h2 st)

theorem ObsEq.of_eq {D : Designer σ τ ο μ κ} {a b : σ} (h : a = b) : D.ObsEq a b := h ▸ ObsEq.refl D a

/-- equivalent states give the same batch and equivalent successor states -/
theorem ObsEq.step {D : Designer σ τ ο μ κ} {a b : σ} (h : D.ObsEq a b) (st : Step τ) :
    (D.step a st).1 = (D.step b st).1 ∧ D.ObsEq (D.step a st).2 (D.step b st).2 := by
  refine ⟨?_, ?_⟩
  · have := h [st]
    simp only [runLive] at this
    exact (List.cons.inj this).1
  · intro rest
    have := h (st :: rest)
    simp only [runLive] at this
    exact (List.cons.inj this).2

theorem Reach.step {D : Designer σ τ ο μ κ} {s : σ} (h : D.Reach s) (st : Step τ) :
    D.Reach (D.step s st).2 := Reach.suggest st.2 (Reach.update st.1 h)

theorem Reach.maybeRestart {D : Designer σ τ ο μ κ} {s : σ} (h : D.Reach s) (r : Option κ) :
    D.Reach (D.maybeRestart r s) := by
  cases r with
  | none => exact h
  | some k => exact Reach.restart k h

/-- the simulation behind `c13_restart_transparent` -/
theorem runRestart_eq_runLive (D : Designer σ τ ο μ κ) (h : D.LoadDumpIdentity) :
    ∀ (steps : List (Step τ)) (rs : List (Option κ)) (sA sB : σ),
      D.Reach sB → D.ObsEq sB sA → D.runRestart sB steps rs = D.runLive sA steps := by
  intro steps
  induction steps with
  | nil => intro rs sA sB _ _; rfl
  | cons st rest ih =>
    intro rs sA sB hR hE
    have hR' : D.Reach (D.maybeRestart (rs.head?.getD none) sB) := hR.maybeRestart _
    have hE' : D.ObsEq (D.maybeRestart (rs.head?.getD none) sB) sA := by
      cases hr : rs.head?.getD none with
      | none => simpa [Designer.maybeRestart] using hE
      | some k =>
        simp only [Designer.maybeRestart]
        exact (h sB hR k).trans hE
    obtain ⟨h1, h2⟩ := hE'.step st
    simp only [runRestart, runLive]
    rw [h1, ih rs.tail _ _ (hR'.step st) h2]

/-- restarts leave the final state observationally unchanged as well -/
theorem endRestart_obsEq_endLive (D : Designer σ τ ο μ κ) (h : D.LoadDumpIdentity) :
    ∀ (steps : List (Step τ)) (rs : List (Option κ)) (sA sB : σ),
      D.Reach sB → D.ObsEq sB sA →
        D.Reach (D.endRestart sB steps rs) ∧ D.ObsEq (D.endRestart sB steps rs) (D.endLive sA steps) := by
  intro steps
  induction steps with
  | nil => intro rs sA sB hR hE; exact ⟨hR, hE⟩
  | cons st rest ih =>
    intro rs sA sB hR hE
    have hR' : D.Reach (D.maybeRestart (rs.head?.getD none) sB) := hR.maybeRestart _
    have hE' : D.ObsEq (D.maybeRestart (rs.head?.getD none) sB) sA := by
      cases hr : rs.head?.getD none with
      | none => simpa [Designer.maybeRestart] using hE
      | some k =>
        simp only [Designer.maybeRestart]
        exact (h sB hR k).trans hE
    simp only [endRestart, endLive]
    exact ih rs.tail _ _ (hR'.step st) (hE'.step st).2

/-- if `restart` is literally the identity on states satisfying an invariant that every
constructor/operation establishes or keeps, the contract holds -/
theorem loadDumpIdentity_of_invariant (D : Designer σ τ ο μ κ) (Inv : σ → Prop)
    (hfresh : ∀ k, Inv (D.fresh k)) (hupd : ∀ s t, Inv s → Inv (D.update s t))
    (hsug : ∀ s n, Inv s → Inv (D.suggest s n).2)
    (hrt : ∀ s k, Inv s → D.restart k s = s) :
    (∀ s, D.Reach s → Inv s) ∧ D.LoadDumpIdentity := by
  have hinv : ∀ s, D.Reach s → Inv s := by
    intro s hs
    induction hs with
    | fresh k => exact hfresh k
    | update t _ ih => exact hupd _ t ih
    | suggest n _ ih => exact hsug _ n ih
    | restart k _ ih => rw [hrt _ k ih]; exact ih
  exact ⟨hinv, fun s hs k => ObsEq.of_eq (hrt s k (hinv s hs))⟩

end Designer

/-! ## Grid: invariant and enumeration -/

section Grid
variable {V : Type} [Inhabited V]

/-- `_grid_values` is the (shuffled) grid of `_shuffle_seed` -/
def GridInv (c : GridCfg V) (s : GridState V) : Prop := s.values = c.effective s.seed

theorem grid_restart_id (τ : Type) (c : GridCfg V) (s : GridState V) (k : Option Int)
    (h : GridInv c s) : (gridDesigner τ c).restart k s = s := by
  cases s with
  | mk cur seed vals =>
    simp only [GridInv] at h
    simp [Designer.restart, gridDesigner, h]

theorem grid_inv_and_contract (τ : Type) (c : GridCfg V) :
    (∀ s, (gridDesigner τ c).Reach s → GridInv c s) ∧ (gridDesigner τ c).LoadDumpIdentity :=
  Designer.loadDumpIdentity_of_invariant (gridDesigner τ c) (GridInv c)
    (fun _ => rfl) (fun _ _ h => h) (fun _ _ h => h) (fun s k h => grid_restart_id τ c s k h)

/-- total number of suggestions of a step list -/
def totalCount (steps : List (Step τ)) : Nat := (steps.map (fun st => effCount st.2)).sum

/-- a live grid run hands out the points with indices `current, current+1, …` in order -/
theorem grid_runLive_flatten (τ : Type) (c : GridCfg V) (steps : List (Step τ)) :
    ∀ s : GridState V,
      ((gridDesigner τ c).runLive s steps).flatten =
        (List.range' s.current (totalCount steps)).map (pointAt s.values) := by
  induction steps with
  | nil => intro s; simp [Designer.runLive, totalCount]
  | cons st rest ih =>
    intro s
    simp only [Designer.runLive, List.flatten_cons]
    rw [ih]
    simp only [Designer.step, gridDesigner, totalCount, List.map_cons, List.sum_cons]
    rw [← List.map_append]
    congr 1
    rw [List.range'_append_1]

end Grid

/-! ## Halton: invariant -/

/-- the engine was built from `_seed` and stands at `_skip_points` -/
def HaltonInv (s : HaltonState) : Prop := s.engSeed = s.seed ∧ s.engPos = s.skip

theorem halton_restart_id {P ο : Type} (τ : Type) (c : HaltonCfg P ο) (s : HaltonState) (k : Int)
    (h : HaltonInv s) : (haltonDesigner τ c).restart k s = s := by
  cases s with
  | mk seed skip es ep =>
    simp only [HaltonInv] at h
    obtain ⟨h1, h2⟩ := h
    subst h1; subst h2
    simp [Designer.restart, haltonDesigner]

theorem halton_inv_and_contract {P ο : Type} (τ : Type) (c : HaltonCfg P ο) :
    (∀ s, (haltonDesigner τ c).Reach s → HaltonInv s) ∧ (haltonDesigner τ c).LoadDumpIdentity :=
  Designer.loadDumpIdentity_of_invariant (haltonDesigner τ c) HaltonInv
    (fun _ => ⟨rfl, rfl⟩) (fun _ _ h => h)
    (fun s n h => by
      obtain ⟨h1, h2⟩ := h
      exact ⟨h1, by simp [haltonDesigner, h2]⟩)
    (fun s k h => halton_restart_id τ c s k h)

/-- a live quasi-random run hands out `H seed skip, H seed (skip+1), …` -/
theorem halton_runLive_flatten {P ο : Type} (τ : Type) (c : HaltonCfg P ο) (steps : List (Step τ)) :
    ∀ s : HaltonState,
      ((haltonDesigner τ c).runLive s steps).flatten =
        (List.range' s.engPos (totalCount steps)).map (fun k => c.toSuggestion (c.H s.engSeed k)) := by
  induction steps with
  | nil => intro s; simp [Designer.runLive, totalCount]
  | cons st rest ih =>
    intro s
    simp only [Designer.runLive, List.flatten_cons]
    rw [ih]
    simp only [Designer.step, haltonDesigner, totalCount, List.map_cons, List.sum_cons]
    rw [← List.map_append]
    congr 1
    rw [List.range'_append_1]

end VizierModel.Restart
