/-
Lemmas about the top-`count` merge of `Model/TopK.lean`: the incremental merge equals the
global stable sort of everything seen, truncated (`foldl_updateBest`); the sort is a sorted
permutation; the abstract "is a top-k selection" specification and what follows from it.
-/
import VizierModel.Model.TopK
namespace VizierModel.TopK

variable {φ α : Type}

/-- what is assumed of the reward comparison: a total preorder (ties allowed) -/
structure TotalLe (le : α → α → Bool) : Prop where
  total : ∀ a b, le a b = true ∨ le b a = true
  trans : ∀ a b c, le a b = true → le b c = true → le a c = true

theorem TotalLe.refl {le : α → α → Bool} (T : TotalLe le) (a : α) : le a a = true := by
  rcases T.total a a with h | h <;> exact h

/-- descending by reward -/
def Sorted (le : α → α → Bool) (l : List (Entry φ α)) : Prop :=
  l.Pairwise (fun a b => le b.reward a.reward = true)

/-! ### `ins` / `sortDesc` are a sorted permutation -/

theorem ins_cons_le (le : α → α → Bool) (x y : Entry φ α) (ys : List (Entry φ α))
    (h : le y.reward x.reward = true) : ins le x (y :: ys) = x :: y :: ys := by simp [ins, h]

theorem ins_cons_gt (le : α → α → Bool) (x y : Entry φ α) (ys : List (Entry φ α))
    (h : ¬ le y.reward x.reward = true) : ins le x (y :: ys) = y :: ins le x ys := by simp [ins, h]

theorem perm_ins (le : α → α → Bool) (x : Entry φ α) (l : List (Entry φ α)) : (ins le x l).Perm (x :: l) := by
  induction l with
  | nil => exact List.Perm.refl _
  | cons y ys ih =>
    by_cases h : le y.reward x.reward = true
    · rw [ins_cons_le le x y ys h]
    · rw [ins_cons_gt le x y ys h]
      exact (List.Perm.cons y ih).trans (List.Perm.swap x y ys)

theorem sortDesc_cons (le : α → α → Bool) (x : Entry φ α) (l : List (Entry φ α)) :
    sortDesc le (x :: l) = ins le x (sortDesc le l) := rfl

theorem perm_sortDesc (le : α → α → Bool) (l : List (Entry φ α)) : (sortDesc le l).Perm l := by
  induction l with
  | nil => exact List.Perm.refl _
  | cons x xs ih =>
    rw [sortDesc_cons]
    exact (perm_ins le x _).trans (List.Perm.cons x ih)

theorem mem_sortDesc (le : α → α → Bool) (l : List (Entry φ α)) (x : Entry φ α) :
    x ∈ sortDesc le l ↔ x ∈ l := (perm_sortDesc le l).mem_iff

theorem length_sortDesc (le : α → α → Bool) (l : List (Entry φ α)) : (sortDesc le l).length = l.length :=
  (perm_sortDesc le l).length_eq

theorem sorted_ins {le : α → α → Bool} (T : TotalLe le) (x : Entry φ α) (l : List (Entry φ α))
    (hs : Sorted le l) : Sorted le (ins le x l) := by
  induction l with
  | nil => simp [ins, Sorted]
  | cons y ys ih =>
    have hy := List.pairwise_cons.mp hs
    by_cases h : le y.reward x.reward = true
    · rw [ins_cons_le le x y ys h]
      refine List.Pairwise.cons ?_ hs
      intro z hz
      rcases List.mem_cons.mp hz with rfl | hz
      · exact h
      · exact T.trans _ _ _ (hy.1 z hz) h
    · rw [ins_cons_gt le x y ys h]
      refine List.Pairwise.cons ?_ (ih hy.2)
      intro z hz
      rcases List.mem_cons.mp ((perm_ins le x ys).mem_iff.mp hz) with rfl | hz
      · exact (T.total y.reward z.reward).resolve_left h
      · exact hy.1 z hz

theorem sorted_sortDesc {le : α → α → Bool} (T : TotalLe le) (l : List (Entry φ α)) :
    Sorted le (sortDesc le l) := by
  induction l with
  | nil => simp [sortDesc, Sorted]
  | cons x xs ih => rw [sortDesc_cons]; exact sorted_ins T x _ ih

/-- sorting a list that is already in descending order changes nothing (stability) -/
theorem sortDesc_of_sorted (le : α → α → Bool) (l : List (Entry φ α)) (h : Sorted le l) :
    sortDesc le l = l := by
  induction l with
  | nil => rfl
  | cons x xs ih =>
    have hx := List.pairwise_cons.mp h
    rw [sortDesc_cons, ih hx.2]
    cases xs with
    | nil => rfl
    | cons y ys => exact ins_cons_le le x y ys (hx.1 y List.mem_cons_self)

theorem sortDesc_append (le : α → α → Bool) (a b : List (Entry φ α)) :
    sortDesc le (a ++ b) = a.foldr (ins le) (sortDesc le b) := by
  unfold sortDesc; rw [List.foldr_append]

/-! ### truncation commutes with insertion -/

theorem take_cons_take (y : Entry φ α) (ys : List (Entry φ α)) (k : Nat) :
    (y :: ys.take k).take k = (y :: ys).take k := by
  cases k with
  | zero => rfl
  | succ j =>
    simp only [List.take_succ_cons, List.take_take]
    congr 2
    omega

theorem take_ins_take (le : α → α → Bool) (x : Entry φ α) (l : List (Entry φ α)) (k : Nat) :
    (ins le x (l.take k)).take k = (ins le x l).take k := by
  induction l generalizing k with
  | nil => simp
  | cons y ys ih =>
    cases k with
    | zero => simp
    | succ k =>
      rw [List.take_succ_cons]
      by_cases h : le y.reward x.reward = true
      · rw [ins_cons_le le x y _ h, ins_cons_le le x y _ h, List.take_succ_cons, List.take_succ_cons,
          take_cons_take]
      · rw [ins_cons_gt le x y _ h, ins_cons_gt le x y _ h, List.take_succ_cons, List.take_succ_cons, ih]

theorem take_foldr_ins_take (le : α → α → Bool) (a s : List (Entry φ α)) (k : Nat) :
    (a.foldr (ins le) (s.take k)).take k = (a.foldr (ins le) s).take k := by
  induction a with
  | nil => simp [List.take_take]
  | cons x a ih =>
    simp only [List.foldr_cons]
    rw [← take_ins_take le x (List.foldr (ins le) (s.take k) a) k, ih, take_ins_take]

/-! ### the incremental merge is the global top-`k` -/

theorem updateBest_take_sort {le : α → α → Bool} (T : TotalLe le) (k : Nat) (s batch : List (Entry φ α)) :
    updateBest le k ((sortDesc le s).take k) batch = (sortDesc le (batch ++ s)).take k := by
  unfold updateBest
  have hs : Sorted le ((sortDesc le s).take k) :=
    List.Pairwise.sublist (List.take_sublist _ _) (sorted_sortDesc T s)
  rw [sortDesc_append, sortDesc_of_sorted le _ hs, take_foldr_ins_take, ← sortDesc_append]

theorem seen_cons (init b : List (Entry φ α)) (bs : List (List (Entry φ α))) :
    seen init (b :: bs) = seen (b ++ init) bs := rfl

theorem foldl_updateBest {le : α → α → Bool} (T : TotalLe le) (k : Nat) (batches : List (List (Entry φ α)))
    (s : List (Entry φ α)) :
    batches.foldl (updateBest le k) ((sortDesc le s).take k) = (sortDesc le (seen s batches)).take k := by
  induction batches generalizing s with
  | nil => rfl
  | cons b bs ih =>
    rw [List.foldl_cons, updateBest_take_sort T, seen_cons]
    exact ih (b ++ s)

theorem seen_eq_append (init : List (Entry φ α)) (bs : List (List (Entry φ α))) :
    seen init bs = evaluated bs ++ init := by
  unfold evaluated
  induction bs generalizing init with
  | nil => rfl
  | cons b bs ih =>
    rw [seen_cons, seen_cons, ih (b ++ init), ih (b ++ [])]
    simp

theorem evaluated_cons (b : List (Entry φ α)) (bs : List (List (Entry φ α))) :
    evaluated (b :: bs) = evaluated bs ++ b := by
  show seen [] (b :: bs) = evaluated bs ++ b
  rw [seen_cons, seen_eq_append]; simp

theorem mem_evaluated (bs : List (List (Entry φ α))) (x : Entry φ α) :
    x ∈ evaluated bs ↔ ∃ b ∈ bs, x ∈ b := by
  induction bs with
  | nil => simp [evaluated, seen]
  | cons b bs ih =>
    rw [evaluated_cons, List.mem_append, ih]
    constructor
    · rintro (⟨c, hc, hx⟩ | hx)
      · exact ⟨c, List.mem_cons_of_mem _ hc, hx⟩
      · exact ⟨b, List.mem_cons_self, hx⟩
    · rintro ⟨c, hc, hx⟩
      rcases List.mem_cons.mp hc with rfl | hc
      · exact Or.inr hx
      · exact Or.inl ⟨c, hc, hx⟩

theorem length_evaluated (bs : List (List (Entry φ α))) :
    (evaluated bs).length = (bs.map List.length).sum := by
  induction bs with
  | nil => rfl
  | cons b bs ih =>
    rw [evaluated_cons, List.length_append, ih]; simp; omega

theorem sorted_placeholders {le : α → α → Bool} (T : TotalLe le) (k : Nat) (z : φ) (ph : α) :
    Sorted le (placeholders k z ph) := by
  unfold placeholders Sorted
  rw [List.pairwise_replicate]
  exact Or.inr (T.refl ph)

theorem placeholders_eq_take_sort {le : α → α → Bool} (T : TotalLe le) (k : Nat) (z : φ) (ph : α) :
    placeholders k z ph = (sortDesc le (placeholders k z ph)).take k := by
  rw [sortDesc_of_sorted le _ (sorted_placeholders T k z ph)]
  simp [placeholders]

/-- the loop's best results are the first `k` of the stable descending sort of everything evaluated
followed by the placeholders -/
theorem runTopK_eq {le : α → α → Bool} (T : TotalLe le) (k : Nat) (z : φ) (ph : α)
    (batches : List (List (Entry φ α))) :
    runTopK le k z ph batches = (sortDesc le (evaluated batches ++ placeholders k z ph)).take k := by
  unfold runTopK
  rw [placeholders_eq_take_sort T k z ph, foldl_updateBest T, seen_eq_append,
    ← placeholders_eq_take_sort T k z ph]

theorem runTopKSeeded_eq {le : α → α → Bool} (T : TotalLe le) (k : Nat) (z : φ) (ph : α)
    (priors : List (Entry φ α)) (batches : List (List (Entry φ α))) :
    runTopKSeeded le k z ph priors batches =
      (sortDesc le (evaluated batches ++ (priors ++ placeholders k z ph))).take k := by
  unfold runTopKSeeded
  rw [placeholders_eq_take_sort T k z ph, updateBest_take_sort T, foldl_updateBest T, seen_eq_append,
    ← placeholders_eq_take_sort T k z ph]

/-! ### the specification "a top-`k` selection" (independent of how ties are resolved) -/

/-- `res` consists of `k` members of `all` (with multiplicity) and nothing left out beats a member -/
def IsTopK (le : α → α → Bool) (k : Nat) (all res : List (Entry φ α)) : Prop :=
  res.length = k ∧ ∃ rest, (res ++ rest).Perm all ∧
    ∀ x ∈ res, ∀ y ∈ rest, le y.reward x.reward = true

theorem isTopK_take_sort {le : α → α → Bool} (T : TotalLe le) (k : Nat) (all : List (Entry φ α))
    (hk : k ≤ all.length) : IsTopK le k all ((sortDesc le all).take k) := by
  refine ⟨?_, (sortDesc le all).drop k, ?_, ?_⟩
  · rw [List.length_take, length_sortDesc]; omega
  · rw [List.take_append_drop]; exact perm_sortDesc le all
  · have hs := sorted_sortDesc T all
    rw [← List.take_append_drop k (sortDesc le all)] at hs
    exact fun x hx y hy => (List.pairwise_append.mp hs).2.2 x hx y hy

theorem IsTopK.mem {le : α → α → Bool} {k : Nat} {all res : List (Entry φ α)} (h : IsTopK le k all res)
    (x : Entry φ α) (hx : x ∈ res) : x ∈ all := by
  obtain ⟨_, rest, hp, _⟩ := h
  exact hp.mem_iff.mp (List.mem_append_left _ hx)

/-- every member of `all` is matched or beaten by every member of `res`, or is itself in `res` -/
theorem IsTopK.dominates {le : α → α → Bool} {k : Nat} {all res : List (Entry φ α)} (h : IsTopK le k all res)
    (y : Entry φ α) (hy : y ∈ all) : y ∈ res ∨ ∀ x ∈ res, le y.reward x.reward = true := by
  obtain ⟨_, rest, hp, hr⟩ := h
  rcases List.mem_append.mp (hp.mem_iff.mpr hy) with h1 | h2
  · exact Or.inl h1
  · exact Or.inr fun x hx => hr x hx y h2

/-! ### the executable predicate `isTopKB` decides `IsTopK` -/

theorem subtract_perm [DecidableEq φ] [DecidableEq α] (all res rest : List (Entry φ α))
    (h : subtract all res = some rest) : (res ++ rest).Perm all := by
  induction res generalizing all with
  | nil =>
    simp only [subtract, Option.some.injEq] at h
    subst h; exact List.Perm.refl _
  | cons x xs ih =>
    simp only [subtract] at h
    by_cases hx : x ∈ all
    · rw [if_pos hx] at h
      exact (List.Perm.cons x (ih _ h)).trans (List.perm_cons_erase hx).symm
    · rw [if_neg hx] at h; cases h

theorem subtract_of_perm [DecidableEq φ] [DecidableEq α] (all res r : List (Entry φ α))
    (h : (res ++ r).Perm all) : ∃ rest, subtract all res = some rest ∧ rest.Perm r := by
  induction res generalizing all with
  | nil => exact ⟨all, rfl, h.symm⟩
  | cons x xs ih =>
    have hx : x ∈ all := h.mem_iff.mp List.mem_cons_self
    have h2 : (xs ++ r).Perm (all.erase x) :=
      List.Perm.cons_inv (h.trans (List.perm_cons_erase hx))
    obtain ⟨rest, h3, h4⟩ := ih _ h2
    exact ⟨rest, by simp only [subtract, if_pos hx, h3], h4⟩

theorem isTopKB_iff [DecidableEq φ] [DecidableEq α] (le : α → α → Bool) (k : Nat) (all res : List (Entry φ α)) :
    isTopKB le k all res = true ↔ IsTopK le k all res := by
  unfold isTopKB IsTopK
  constructor
  · intro h
    simp only [Bool.and_eq_true, decide_eq_true_eq] at h
    obtain ⟨hlen, h⟩ := h
    cases hs : subtract all res with
    | none => rw [hs] at h; cases h
    | some rest =>
      rw [hs] at h
      refine ⟨hlen, rest, subtract_perm all res rest hs, ?_⟩
      intro x hx y hy
      exact List.all_eq_true.mp (List.all_eq_true.mp h x hx) y hy
  · rintro ⟨hlen, r, hp, hd⟩
    obtain ⟨rest, hs, hr⟩ := subtract_of_perm all res r hp
    simp only [Bool.and_eq_true, decide_eq_true_eq, hs]
    refine ⟨hlen, ?_⟩
    rw [List.all_eq_true]
    intro x hx
    rw [List.all_eq_true]
    intro y hy
    exact hd x hx y (hr.mem_iff.mp hy)

theorem countP_lt_length_of_mem {β : Type} (q : β → Bool) (l : List β) (x : β) (hx : x ∈ l) (hq : q x = false) :
    l.countP q < l.length := by
  induction l with
  | nil => cases hx
  | cons y ys ih =>
    rcases List.mem_cons.mp hx with rfl | hx
    · rw [List.countP_cons_of_neg (by simp [hq])]
      exact Nat.lt_succ_of_le (List.countP_le_length)
    · have := ih hx
      by_cases hy : q y = true
      · rw [List.countP_cons_of_pos hy]; simp; omega
      · rw [List.countP_cons_of_neg hy]; simp; omega

/-- if at least `k` members of `all` rank strictly above `p`, a top-`k` selection contains only
entries ranking strictly above `p` (whatever the tie rule) -/
theorem IsTopK.above {le : α → α → Bool} (T : TotalLe le) (p : α) {k : Nat} {all res : List (Entry φ α)}
    (h : IsTopK le k all res) (hc : k ≤ all.countP (fun e => !le e.reward p)) :
    ∀ x ∈ res, le x.reward p = false := by
  intro x hx
  cases hxp : le x.reward p with
  | false => rfl
  | true =>
  exfalso
  obtain ⟨hlen, rest, hp, hr⟩ := h
  have hrest : rest.countP (fun e => !le e.reward p) = 0 := by
    rw [List.countP_eq_zero]
    intro y hy
    have := T.trans _ _ _ (hr x hx y hy) hxp
    simp [this]
  have hres : res.countP (fun e => !le e.reward p) < res.length :=
    countP_lt_length_of_mem _ res x hx (by simp [hxp])
  have := hp.countP_eq (fun e => !le e.reward p)
  rw [List.countP_append, hrest] at this
  omega

/-! ### when the placeholder reward is least, placeholders stay behind everything (stability) -/

theorem ins_append_replicate (le : α → α → Bool) (x p : Entry φ α) (hp : le p.reward x.reward = true)
    (l : List (Entry φ α)) (n : Nat) :
    ins le x (l ++ List.replicate n p) = ins le x l ++ List.replicate n p := by
  induction l with
  | nil =>
    cases n with
    | zero => rfl
    | succ n => rw [List.nil_append, List.replicate_succ, ins_cons_le le x p _ hp]; rfl
  | cons y ys ih =>
    by_cases h : le y.reward x.reward = true
    · rw [List.cons_append, ins_cons_le le x y _ h, ins_cons_le le x y _ h]; rfl
    · rw [List.cons_append, ins_cons_gt le x y _ h, ins_cons_gt le x y _ h, ih]; rfl

theorem sortDesc_append_placeholders {le : α → α → Bool} (T : TotalLe le) (z : φ) (ph : α)
    (hbot : ∀ a, le ph a = true) (l : List (Entry φ α)) (n : Nat) :
    sortDesc le (l ++ placeholders n z ph) = sortDesc le l ++ placeholders n z ph := by
  induction l with
  | nil =>
    rw [List.nil_append, sortDesc_of_sorted le _ (sorted_placeholders T n z ph)]; rfl
  | cons x xs ih =>
    rw [List.cons_append, sortDesc_cons, ih, sortDesc_cons]
    exact ins_append_replicate le x ⟨z, ph⟩ (hbot _) _ n

end VizierModel.TopK
