/-
Lemmas about the optimiser loop of `Model/TopK.lean`: the padding mask, bounds of what is
scored, the loop as a fold over its own trace, the eagle strategy's clip / category sampling.
-/
import VizierModel.Lemmas.TopK
namespace VizierModel.TopK

variable {α ρ : Type}

/-! ### padding mask -/

theorem length_maskFrom {β : Type} (n : Nat) (z : β) (l : List β) : (maskFrom n z l).length = l.length := by
  induction l generalizing n with
  | nil => cases n <;> rfl
  | cons x xs ih => cases n <;> simp [maskFrom, ih]

theorem zeroFrom_maskFrom {β : Type} [DecidableEq β] (n : Nat) (z : β) (l : List β) :
    zeroFrom n z (maskFrom n z l) = true := by
  induction l generalizing n with
  | nil => cases n <;> rfl
  | cons x xs ih => cases n <;> simp [maskFrom, zeroFrom, ih]

theorem firstAll_maskFrom {β : Type} (p : β → Bool) (n : Nat) (z : β) (l : List β) :
    firstAll p n (maskFrom n z l) = firstAll p n l := by
  induction l generalizing n with
  | nil => cases n <;> rfl
  | cons x xs ih => cases n <;> simp [maskFrom, firstAll, ih]

theorem catsOk_maskFrom (as cs : List Nat) : catsOk as (maskFrom as.length 0 cs) = catsOk as cs := by
  induction as generalizing cs with
  | nil => cases cs <;> rfl
  | cons a as ih => cases cs <;> simp [maskFrom, catsOk, ih]

/-- masking is idempotent: a masked candidate is a fixed point -/
theorem maskFrom_idem {β : Type} (n : Nat) (z : β) (l : List β) :
    maskFrom n z (maskFrom n z l) = maskFrom n z l := by
  induction l generalizing n with
  | nil => cases n <;> rfl
  | cons x xs ih => cases n <;> simp [maskFrom, ih]

theorem inBounds_maskFeat [DecidableEq ρ] (leR : ρ → ρ → Bool) (zero one : ρ) (L : Layout) (f : Feat ρ)
    (h : rawOk leR zero one L f = true) : inBounds leR zero one L (maskFeat zero L f) = true := by
  simp only [rawOk, Bool.and_eq_true, decide_eq_true_eq] at h
  obtain ⟨⟨⟨h1, h2⟩, h3⟩, h4⟩ := h
  simp only [inBounds, rawOk, maskFeat, Bool.and_eq_true, decide_eq_true_eq, length_maskFrom,
    zeroFrom_maskFrom, firstAll_maskFrom, catsOk_maskFrom]
  exact ⟨⟨⟨⟨⟨h1, h2⟩, h3⟩, h4⟩, trivial⟩, trivial⟩

theorem firstAll_replicate {β : Type} (p : β → Bool) (z : β) (hz : p z = true) (n m : Nat) :
    firstAll p n (List.replicate m z) = true := by
  induction m generalizing n with
  | zero => cases n <;> rfl
  | succ m ih => cases n <;> simp [List.replicate_succ, firstAll, hz, ih]

theorem zeroFrom_replicate {β : Type} [DecidableEq β] (z : β) (n m : Nat) :
    zeroFrom n z (List.replicate m z) = true := by
  induction m generalizing n with
  | zero => cases n <;> rfl
  | succ m ih => cases n <;> simp [List.replicate_succ, zeroFrom, ih]

theorem catsOk_replicate (as : List Nat) (m : Nat) (hpos : ∀ a ∈ as, 0 < a) (hlen : as.length ≤ m) :
    catsOk as (List.replicate m 0) = true := by
  induction as generalizing m with
  | nil => rfl
  | cons a as ih =>
    cases m with
    | zero => simp at hlen
    | succ m =>
      simp only [List.replicate_succ, catsOk, Bool.and_eq_true, decide_eq_true_eq]
      exact ⟨hpos a List.mem_cons_self,
        ih m (fun b hb => hpos b (List.mem_cons_of_mem _ hb)) (by simpa using hlen)⟩

/-- the placeholder's features (all zeros) are in bounds when 0 ≤ 0 ≤ 1 and every arity is positive -/
theorem inBounds_zerosFeat [DecidableEq ρ] (leR : ρ → ρ → Bool) (zero one : ρ) (L : Layout)
    (h00 : leR zero zero = true) (h01 : leR zero one = true) (hpos : ∀ a ∈ L.arities, 0 < a)
    (hlen : L.arities.length ≤ L.nCatPad) : inBounds leR zero one L (zerosFeat zero L) = true := by
  simp only [inBounds, rawOk, zerosFeat, Bool.and_eq_true, decide_eq_true_eq, List.length_replicate,
    zeroFrom_replicate]
  refine ⟨⟨⟨⟨⟨trivial, ?_⟩, trivial⟩, catsOk_replicate _ _ hpos hlen⟩, trivial⟩, trivial⟩
  exact firstAll_replicate _ zero (by simp [h00, h01]) _ _

/-! ### what is scored -/

theorem mem_scoreBatch (zero : ρ) (L : Layout) (score : Feat ρ → α) (raw : List (Feat ρ))
    (e : Entry (Feat ρ) α) (he : e ∈ scoreBatch zero L score raw) :
    ∃ f ∈ raw, e.feat = maskFeat zero L f ∧ e.reward = score e.feat := by
  simp only [scoreBatch, List.mem_map] at he
  obtain ⟨f, hf, rfl⟩ := he
  exact ⟨f, hf, rfl, rfl⟩

theorem length_scoreBatch (zero : ρ) (L : Layout) (score : Feat ρ → α) (raw : List (Feat ρ)) :
    (scoreBatch zero L score raw).length = raw.length := by simp [scoreBatch]

theorem mem_scorePriorsAux (zero : ρ) (L : Layout) (score : Feat ρ → α) (ph : α) (vc vk i : Nat)
    (ps : List (Feat ρ)) (e : Entry (Feat ρ) α) (he : e ∈ scorePriorsAux zero L score ph vc vk i ps) :
    ∃ f ∈ ps, e.feat = maskFeat zero L f ∧ (e.reward = score e.feat ∨ e.reward = ph) := by
  induction ps generalizing i with
  | nil => simp [scorePriorsAux] at he
  | cons f fs ih =>
    simp only [scorePriorsAux, List.mem_cons] at he
    rcases he with rfl | he
    · refine ⟨f, List.mem_cons_self, rfl, ?_⟩
      by_cases hv : (decide (i < vc) && decide (i < vk)) = true
      · left; simp [hv]
      · right; simp [hv]
    · obtain ⟨g, hg, h1, h2⟩ := ih (i + 1) he
      exact ⟨g, List.mem_cons_of_mem _ hg, h1, h2⟩

/-- a valid prior row (index below both row counts) is scored with the score function at its masked features -/
theorem scorePriorsAux_valid (zero : ρ) (L : Layout) (score : Feat ρ → α) (ph : α) (vc vk i : Nat)
    (ps : List (Feat ρ)) (j : Nat) (hj : j < ps.length) (hc : i + j < vc) (hk : i + j < vk) :
    (⟨maskFeat zero L ps[j], score (maskFeat zero L ps[j])⟩ : Entry (Feat ρ) α) ∈
      scorePriorsAux zero L score ph vc vk i ps := by
  induction ps generalizing i j with
  | nil => simp at hj
  | cons f fs ih =>
    cases j with
    | zero =>
      have h1 : i < vc := by omega
      have h2 : i < vk := by omega
      simp [scorePriorsAux, h1, h2]
    | succ j =>
      simp only [scorePriorsAux, List.getElem_cons_succ]
      exact List.mem_cons_of_mem _ (ih (i + 1) j (by simpa using hj) (by omega) (by omega))

/-! ### the loop is a fold over its own trace -/

section loop
variable {κ σ : Type} (K : Keys κ) (S : Strategy κ σ ρ α) (le : α → α → Bool) (zero : ρ) (L : Layout)
  (score : Feat ρ → α) (count : Nat)

theorem loop_fold (n : Nat) (st : σ) (best : List (Entry (Feat ρ) α)) (key : κ) :
    (loop K S le zero L score count n st best key).1 =
      (loop K S le zero L score count n st best key).2.foldl (updateBest le count) best := by
  induction n generalizing st best key with
  | zero => rfl
  | succ n ih => simp only [loop, List.foldl_cons]; exact ih _ _ _

theorem loop_trace_length (n : Nat) (st : σ) (best : List (Entry (Feat ρ) α)) (key : κ) :
    (loop K S le zero L score count n st best key).2.length = n := by
  induction n generalizing st best key with
  | zero => rfl
  | succ n ih => simp only [loop, List.length_cons]; rw [ih]

/-- every scored batch comes from some `suggest` call, masked -/
theorem loop_trace_mem (n : Nat) (st : σ) (best : List (Entry (Feat ρ) α)) (key : κ)
    (b : List (Entry (Feat ρ) α)) (hb : b ∈ (loop K S le zero L score count n st best key).2) :
    ∃ k st', b = scoreBatch zero L score (S.suggest k st') := by
  induction n generalizing st best key with
  | zero => simp [loop] at hb
  | succ n ih =>
    simp only [loop, List.mem_cons] at hb
    rcases hb with rfl | hb
    · exact ⟨_, _, rfl⟩
    · exact ih _ _ _ hb

/-- the trace does not depend on the best results (the strategy never sees them) -/
theorem loop_trace_indep (n : Nat) (st : σ) (best best' : List (Entry (Feat ρ) α)) (key : κ) :
    (loop K S le zero L score count n st best key).2 = (loop K S le zero L score count n st best' key).2 := by
  induction n generalizing st best best' key with
  | zero => rfl
  | succ n ih => simp only [loop]; rw [ih]

end loop

/-! ### eagle: clip and category sampling -/

theorem clip01_bounds (leR : ρ → ρ → Bool) (zero one : ρ)
    (total : ∀ a b, leR a b = true ∨ leR b a = true) (h01 : leR zero one = true) (x : ρ) :
    leR zero (clip01 leR zero one x) = true ∧ leR (clip01 leR zero one x) one = true := by
  have r0 : leR zero zero = true := by rcases total zero zero with h | h <;> exact h
  have r1 : leR one one = true := by rcases total one one with h | h <;> exact h
  unfold clip01
  by_cases hx : leR zero x = true
  · simp only [hx, if_true]
    by_cases h1 : leR x one = true
    · simp [h1, hx]
    · simp [h1, h01, r1]
  · simp only [hx]
    simp [h01, r0]

/-- values already in [0,1] are not moved (clip is the identity on the cube) -/
theorem clip01_id (leR : ρ → ρ → Bool) (zero one x : ρ) (h0 : leR zero x = true) (h1 : leR x one = true) :
    clip01 leR zero one x = x := by simp [clip01, h0, h1]

theorem firstAll_map_of_forall {β γ : Type} (p : γ → Bool) (g : β → γ) (hp : ∀ x, p (g x) = true) (n : Nat)
    (l : List β) : firstAll p n (l.map g) = true := by
  induction l generalizing n with
  | nil => cases n <;> rfl
  | cons x xs ih => cases n <;> simp [firstAll, hp, ih]

theorem nthTrue_lt (m : List Bool) (r : Nat) (hr : r < countTrue m) :
    nthTrue m r < m.length ∧ m[nthTrue m r]? = some true := by
  induction m generalizing r with
  | nil => simp [countTrue] at hr
  | cons b bs ih =>
    cases b with
    | true =>
      cases r with
      | zero => simp [nthTrue]
      | succ r =>
        have : r < countTrue bs := by simp [countTrue] at hr ⊢; omega
        obtain ⟨h1, h2⟩ := ih r this
        simp only [nthTrue, List.length_cons, List.getElem?_cons_succ]
        exact ⟨by omega, h2⟩
    | false =>
      have : r < countTrue bs := by simpa [countTrue] using hr
      obtain ⟨h1, h2⟩ := ih r this
      simp only [nthTrue, List.length_cons, List.getElem?_cons_succ]
      exact ⟨by omega, h2⟩

theorem countTrue_mask_pos (maxCat arity : Nat) (ha : 0 < arity) (hm : arity ≤ maxCat) :
    0 < countTrue ((List.range maxCat).map (fun c => decide (c < arity))) := by
  unfold countTrue
  apply List.length_pos_of_mem (a := true)
  simp only [List.mem_filter, List.mem_map, List.mem_range, id, and_true, decide_eq_true_eq]
  exact ⟨0, by omega, ha⟩

/-- a sampled category is a valid index of its feature -/
theorem sampleCat_lt (maxCat arity r : Nat) (ha : 0 < arity) (hm : arity ≤ maxCat) :
    sampleCat maxCat arity r < arity := by
  unfold sampleCat
  have hpos := countTrue_mask_pos maxCat arity ha hm
  obtain ⟨h1, h2⟩ := nthTrue_lt ((List.range maxCat).map (fun c => decide (c < arity)))
    (r % countTrue ((List.range maxCat).map (fun c => decide (c < arity)))) (Nat.mod_lt _ hpos)
  simp only [List.length_map, List.length_range] at h1
  rw [List.getElem?_map, List.getElem?_range h1] at h2
  simpa using h2

theorem length_sampleCats (maxCat : Nat) (as rs : List Nat) : (sampleCats maxCat as rs).length = as.length := by
  induction as generalizing rs with
  | nil => rfl
  | cons a as ih => cases rs <;> simp [sampleCats, ih]

theorem catsOk_sampleCats (maxCat : Nat) (as rs tail : List Nat) (hpos : ∀ a ∈ as, 0 < a)
    (hmax : ∀ a ∈ as, a ≤ maxCat) : catsOk as (sampleCats maxCat as rs ++ tail) = true := by
  induction as generalizing rs with
  | nil => rfl
  | cons a as ih =>
    have h1 := hpos a List.mem_cons_self
    have h2 := hmax a List.mem_cons_self
    have hp' : ∀ b ∈ as, 0 < b := fun b hb => hpos b (List.mem_cons_of_mem _ hb)
    have hm' : ∀ b ∈ as, b ≤ maxCat := fun b hb => hmax b (List.mem_cons_of_mem _ hb)
    cases rs with
    | nil =>
      simp only [sampleCats, List.cons_append, catsOk, Bool.and_eq_true, decide_eq_true_eq]
      exact ⟨sampleCat_lt maxCat a 0 h1 h2, ih [] hp' hm'⟩
    | cons r rs =>
      simp only [sampleCats, List.cons_append, catsOk, Bool.and_eq_true, decide_eq_true_eq]
      exact ⟨sampleCat_lt maxCat a r h1 h2, ih rs hp' hm'⟩

/-! ### `optimize` = global top-`count` of (its own trace ++ what the best results started from) -/

/-- what the best results are seeded with: the placeholders, preceded by the scored priors in the
variant that merges them -/
def initPool (cfg : Cfg) (zero : ρ) (ph : α) (L : Layout) (count : Nat) (scored : List (Entry (Feat ρ) α)) :
    List (Entry (Feat ρ) α) :=
  (if cfg.priorsEnterBest then scored else []) ++ placeholders count (zerosFeat zero L) ph

theorem initBest_eq {le : α → α → Bool} (T : TotalLe le) (cfg : Cfg) (zero : ρ) (ph : α) (L : Layout)
    (count : Nat) (scored : List (Entry (Feat ρ) α)) :
    initBest cfg le zero ph L count scored = (sortDesc le (initPool cfg zero ph L count scored)).take count := by
  unfold initBest initPool
  cases cfg.priorsEnterBest with
  | false => simpa using placeholders_eq_take_sort T count (zerosFeat zero L) ph
  | true =>
    simp only [if_true]
    rw [placeholders_eq_take_sort T count (zerosFeat zero L) ph, updateBest_take_sort T,
      ← placeholders_eq_take_sort T count (zerosFeat zero L) ph]

section optimize
variable {κ σ : Type} (cfg : Cfg) (K : Keys κ) (S : Strategy κ σ ρ α) (le : α → α → Bool) (zero : ρ) (ph : α)
  (L : Layout) (scoreOf : κ → Feat ρ → α) (count nIter : Nat) (priors : Option (List (Feat ρ) × Nat × Nat))
  (seed : κ)

/-- the acquisition key and the score function used for the whole call -/
def acqScore : Feat ρ → α := scoreOf (K.split2 seed).2

/-- the scored priors of a call -/
def callScored : List (Entry (Feat ρ) α) := scoredPriors zero ph L (acqScore K scoreOf seed) priors

theorem optimize_fst_eq (T : TotalLe le) :
    (optimize cfg K S le zero ph L scoreOf count nIter priors seed).1 =
      (sortDesc le (evaluated (optimize cfg K S le zero ph L scoreOf count nIter priors seed).2 ++
        initPool cfg zero ph L count (callScored K zero ph L scoreOf priors seed))).take count := by
  unfold optimize
  simp only []
  rw [loop_fold, initBest_eq T, foldl_updateBest T, seen_eq_append]
  rfl

theorem optimize_trace_mem (b : List (Entry (Feat ρ) α))
    (hb : b ∈ (optimize cfg K S le zero ph L scoreOf count nIter priors seed).2) :
    ∃ k st, b = scoreBatch zero L (acqScore K scoreOf seed) (S.suggest k st) := by
  unfold optimize at hb
  exact loop_trace_mem K S le zero L _ count nIter _ _ _ b hb

theorem optimize_trace_length :
    (optimize cfg K S le zero ph L scoreOf count nIter priors seed).2.length = nIter := by
  unfold optimize
  exact loop_trace_length K S le zero L _ count nIter _ _ _

end optimize

end VizierModel.TopK
