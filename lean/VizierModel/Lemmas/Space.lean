/-
Lemmas for C16 (membership): the coercion pipeline of `_assert_feasible`
(`float(v) != v`, `int(v) != v`, `as_float`, `as_int`, `as_str`, chained comparisons)
decides exactly `typeOK ∧ inDomain`.
-/
import VizierModel.Model.SpaceSpec
namespace VizierModel.Space

theorem intCast_truncQ_eq_iff (q : Rat) : ((truncQ q : Int) : Rat) = q ↔ q.den = 1 := by
  constructor
  · intro h
    have := congrArg Rat.den h
    rw [Rat.den_intCast] at this
    exact this.symm
  · intro h
    unfold truncQ
    rw [h]
    apply Rat.ext
    · rw [Rat.num_intCast]; exact Int.tdiv_one _
    · rw [Rat.den_intCast, h]

theorem isIntegralQ_iff (q : Rat) : isIntegralQ q = true ↔ q.den = 1 := by
  simp [isIntegralQ]

theorem numOf_of_ratOf {v : PVal} {q : Rat} (h : ratOf v = some q) : numOf v = some (.fin q) := by
  cases v with
  | str s => simp [ratOf] at h
  | int i => simp [ratOf] at h; simp [numOf, h]
  | flt x => cases x <;> simp [ratOf] at h <;> simp [numOf, h]
  | bool b => simp [ratOf] at h; simp [numOf, h]

theorem ratOf_intCast_den {v : PVal} {q : Rat} (h : ratOf v = some q) (hi : isIntInst v = true) : q.den = 1 := by
  cases v with
  | str s => simp [ratOf] at h
  | int i => simp [ratOf] at h; rw [← h]; exact Rat.den_intCast i
  | flt x => simp [isIntInst] at hi
  | bool b =>
    simp [ratOf] at h; rw [← h]; cases b <;> simp [b2r] <;> rfl

set_option linter.unusedSimpArgs false

theorem pyLe_ratOf {a b : PVal} {x y : Rat} (ha : ratOf a = some x) (hb : ratOf b = some y) :
    pyLe a b = decide (x ≤ y) := by
  unfold pyLe; rw [numOf_of_ratOf ha, numOf_of_ratOf hb]; rfl

theorem pyEq_ratOf {a b : PVal} {x y : Rat} (ha : ratOf a = some x) (hb : ratOf b = some y) :
    pyEq a b = decide (x = y) := by
  have na := numOf_of_ratOf ha
  have nb := numOf_of_ratOf hb
  cases a <;> cases b <;> simp [ratOf] at ha hb <;> simp only [pyEq, na, nb, Flt.beq]

/-- the type check on a numeric, non-integer type -/
theorem act_num (cfg : Cfg) (t : PType) (ht : t = .double ∨ t = .discrete) (v : PVal) :
    assertCorrectType cfg t v =
      match v with
      | .str _ => .error .typeOrValue
      | .flt .nan => .error .type
      | _ => .ok () := by
  rcases ht with rfl | rfl <;> cases v with
  | str s => simp [assertCorrectType, PType.isNumeric, pyFloat]
  | int i => simp [assertCorrectType, PType.isNumeric, pyFloat, pyEq, numOf, Flt.beq]
  | bool b => simp [assertCorrectType, PType.isNumeric, pyFloat, pyEq, numOf, Flt.beq]
  | flt x => cases x <;> simp [assertCorrectType, PType.isNumeric, pyFloat, pyEq, numOf, Flt.beq]

theorem act_int (cfg : Cfg) (v : PVal) :
    assertCorrectType cfg .integer v =
      match v with
      | .str _ => .error .typeOrValue
      | .flt .nan => .error .type
      | .flt .pinf => if cfg.intInfGuard then .error .type else .error .overflow
      | .flt .ninf => if cfg.intInfGuard then .error .type else .error .overflow
      | .flt (.fin q) => if q.den = 1 then .ok () else .error .type
      | _ => .ok () := by
  cases v with
  | str s => simp [assertCorrectType, PType.isNumeric, pyFloat]
  | int i => simp [assertCorrectType, PType.isNumeric, pyFloat, pyEq, numOf, Flt.beq, pyInt]
  | bool b => cases b <;> simp [assertCorrectType, PType.isNumeric, pyFloat, pyEq, numOf, Flt.beq, pyInt, b2i, b2r]
  | flt x =>
    cases x with
    | nan => simp [assertCorrectType, PType.isNumeric, pyFloat, pyEq, numOf, Flt.beq]
    | pinf => cases h : cfg.intInfGuard <;> simp [assertCorrectType, PType.isNumeric, pyFloat, pyEq, numOf, Flt.beq, pyInt, h]
    | ninf => cases h : cfg.intInfGuard <;> simp [assertCorrectType, PType.isNumeric, pyFloat, pyEq, numOf, Flt.beq, pyInt, h]
    | fin q =>
      simp [assertCorrectType, PType.isNumeric, pyFloat, pyEq, numOf, Flt.beq, pyInt, intCast_truncQ_eq_iff]

theorem act_cat (cfg : Cfg) (v : PVal) :
    assertCorrectType cfg .categorical v =
      match v with
      | .str _ => .ok ()
      | .bool _ => .ok ()
      | _ => .error .type := by
  cases v <;> simp [assertCorrectType, PType.isNumeric, isStr, isBool]

theorem assertBounds_fin {h : Hdr} {lo hi x : PVal} {l u q : Rat} (hb : h.bounds = some (lo, hi))
    (hl : ratOf lo = some l) (hu : ratOf hi = some u) (hx : ratOf x = some q) :
    assertBounds h x = if (decide (l ≤ q) && decide (q ≤ u)) = true then .ok () else .error .value := by
  unfold assertBounds; rw [hb]; simp only [pyLe_ratOf hl hx, pyLe_ratOf hx hu]

theorem assertBounds_inf {h : Hdr} {lo hi : PVal} {l u : Rat} (hb : h.bounds = some (lo, hi))
    (hl : ratOf lo = some l) (hu : ratOf hi = some u) (x : Flt) (hx : x = .pinf ∨ x = .ninf) :
    assertBounds h (.flt x) = .error .value := by
  simp only [assertBounds, hb]
  have nl := numOf_of_ratOf hl
  have nu := numOf_of_ratOf hu
  rcases hx with rfl | rfl <;> (unfold pyLe; rw [nl, nu]; simp [numOf, Flt.le])

theorem withinBounds_eq {h : Hdr} {lo hi : PVal} {l u : Rat} (hb : h.bounds = some (lo, hi))
    (hl : ratOf lo = some l) (hu : ratOf hi = some u) (q : Rat) :
    withinBounds h q = (decide (l ≤ q) && decide (q ≤ u)) := by
  unfold withinBounds; rw [hb]; simp only [hl, hu]

theorem wf_bounds {h : Hdr} (ht : h.type = .double ∨ h.type = .integer) (hwf : h.wf = true) :
    ∃ lo hi l u, h.bounds = some (lo, hi) ∧ ratOf lo = some l ∧ ratOf hi = some u := by
  unfold Hdr.wf at hwf
  rcases ht with ht | ht <;> rw [ht] at hwf <;> simp only at hwf
  all_goals
    match hb : h.bounds, hwf with
    | some (lo, hi), hwf =>
      simp only [Bool.and_eq_true, Option.isSome_iff_exists] at hwf
      obtain ⟨⟨l, hl⟩, ⟨u, hu⟩⟩ := hwf
      exact ⟨lo, hi, l, u, rfl, hl, hu⟩

theorem pcContains_double (cfg : Cfg) (h : Hdr) (v : PVal) (ht : h.type = .double) (hwf : h.wf = true) :
    pcContains cfg h v = .ok (typeOK h v && inDomain h v) := by
  obtain ⟨lo, hi, l, u, hb, hl, hu⟩ := wf_bounds (Or.inl ht) hwf
  unfold pcContains assertFeasible typeOK inDomain
  rw [ht, act_num cfg .double (Or.inl rfl)]
  cases v with
  | str s => simp [isNumber, numOf]
  | int i =>
    have hx : ratOf (.flt (.fin (i : Rat))) = some (i : Rat) := rfl
    simp only [asFloat, assertBounds_fin hb hl hu hx, isNumber, numOf, ratOf, withinBounds_eq hb hl hu]
    by_cases hc : (decide (l ≤ (i : Rat)) && decide ((i : Rat) ≤ u)) = true <;> simp [hc]
  | bool b =>
    have hx : ratOf (.flt (.fin (b2r b))) = some (b2r b) := rfl
    simp only [asFloat, assertBounds_fin hb hl hu hx, isNumber, numOf, ratOf, withinBounds_eq hb hl hu]
    by_cases hc : (decide (l ≤ b2r b) && decide (b2r b ≤ u)) = true <;> simp [hc]
  | flt x =>
    cases x with
    | nan => simp [isNumber, numOf]
    | pinf => simp [asFloat, assertBounds_inf hb hl hu .pinf (Or.inl rfl), isNumber, numOf, ratOf]
    | ninf => simp [asFloat, assertBounds_inf hb hl hu .ninf (Or.inr rfl), isNumber, numOf, ratOf]
    | fin q =>
      have hx : ratOf (.flt (.fin q)) = some q := rfl
      simp only [asFloat, assertBounds_fin hb hl hu hx, isNumber, numOf, ratOf, withinBounds_eq hb hl hu]
      by_cases hc : (decide (l ≤ q) && decide (q ≤ u)) = true <;> simp [hc]

theorem b2i_cast (b : Bool) : ((b2i b : Int) : Rat) = b2r b := by cases b <;> simp [b2i, b2r] <;> rfl

theorem b2r_den (b : Bool) : (b2r b).den = 1 := by cases b <;> simp [b2r] <;> rfl

theorem pcContains_integer (cfg : Cfg) (h : Hdr) (v : PVal) (ht : h.type = .integer) (hwf : h.wf = true) :
    pcContains cfg h v =
      if (v = .flt .pinf ∨ v = .flt .ninf) ∧ cfg.intInfGuard = false then .error .overflow
      else .ok (typeOK h v && inDomain h v) := by
  obtain ⟨lo, hi, l, u, hb, hl, hu⟩ := wf_bounds (Or.inr ht) hwf
  unfold pcContains assertFeasible typeOK inDomain
  rw [ht, act_int cfg]
  cases v with
  | str s => simp [isNumber, numOf]
  | int i =>
    have hx : ratOf (.int i) = some (i : Rat) := rfl
    simp only [asInt, assertBounds_fin hb hl hu hx, isNumber, numOf, ratOf, withinBounds_eq hb hl hu,
      isIntegralQ, Rat.den_intCast]
    by_cases hc : (decide (l ≤ (i : Rat)) && decide ((i : Rat) ≤ u)) = true <;> simp [hc]
  | bool b =>
    have hx : ratOf (.int (b2i b)) = some (b2r b) := by simp [ratOf, b2i_cast]
    simp only [asInt, assertBounds_fin hb hl hu hx, isNumber, numOf, ratOf, withinBounds_eq hb hl hu,
      isIntegralQ, b2r_den]
    by_cases hc : (decide (l ≤ b2r b) && decide (b2r b ≤ u)) = true <;> simp [hc]
  | flt x =>
    cases x with
    | nan => simp [isNumber, numOf]
    | pinf => cases hg : cfg.intInfGuard <;> simp [isNumber, numOf, ratOf, hg]
    | ninf => cases hg : cfg.intInfGuard <;> simp [isNumber, numOf, ratOf, hg]
    | fin q =>
      by_cases hd : q.den = 1
      · have hx : ratOf (.int (truncQ q)) = some q := by simp [ratOf, (intCast_truncQ_eq_iff q).mpr hd]
        simp only [hd, if_true, asInt, assertBounds_fin hb hl hu hx, isNumber, numOf, ratOf,
          withinBounds_eq hb hl hu, isIntegralQ]
        by_cases hc : (decide (l ≤ q) && decide (q ≤ u)) = true <;> simp [hc]
      · simp [hd, isNumber, numOf, ratOf, isIntegralQ]

theorem any_congr' {α : Type} {l : List α} {p q : α → Bool} (h : ∀ x ∈ l, p x = q x) : l.any p = l.any q := by
  induction l with
  | nil => rfl
  | cons a as ih =>
    simp only [List.any_cons, h a (List.mem_cons_self ..)]
    rw [ih (fun x hx => h x (List.mem_cons_of_mem _ hx))]

theorem pcContains_discrete (cfg : Cfg) (h : Hdr) (v : PVal) (ht : h.type = .discrete) (hwf : h.wf = true) :
    pcContains cfg h v = .ok (typeOK h v && inDomain h v) := by
  unfold Hdr.wf at hwf; rw [ht] at hwf; simp only [List.all_eq_true, Option.isSome_iff_exists] at hwf
  have key : ∀ q : Rat, (h.feasible.any fun f => pyEq f (.flt (.fin q))) =
      (h.feasible.any fun f => decide (ratOf f = some q)) := by
    intro q
    apply any_congr'
    intro f hf
    obtain ⟨x, hx⟩ := hwf f hf
    have hq : ratOf (.flt (.fin q)) = some q := rfl
    rw [pyEq_ratOf hx hq, hx]
    simp
  have keyInf : ∀ x : Flt, (x = .pinf ∨ x = .ninf) → (h.feasible.any fun f => pyEq f (.flt x)) = false := by
    intro x hx
    rw [List.any_eq_false]
    intro f hf
    obtain ⟨y, hy⟩ := hwf f hf
    have ny := numOf_of_ratOf hy
    rcases hx with rfl | rfl <;> cases f with
    | str s => simp [ratOf] at hy
    | int i => simp [pyEq, numOf, Flt.beq]
    | bool b => simp [pyEq, numOf, Flt.beq]
    | flt x => (simp only [numOf, Option.some.injEq] at ny; subst ny; simp [pyEq, numOf, Flt.beq])
  unfold pcContains assertFeasible typeOK inDomain
  rw [ht, act_num cfg .discrete (Or.inr rfl)]
  cases v with
  | str s => simp [isNumber, numOf]
  | int i =>
    have r1 : ratOf (PVal.int i) = some (i : Rat) := rfl
    simp only [asFloat, assertInFeasible, key, isNumber, numOf, r1]
    generalize (h.feasible.any fun f => decide (ratOf f = some (i : Rat))) = bb
    cases bb <;> simp
  | bool b =>
    have r1 : ratOf (PVal.bool b) = some (b2r b) := rfl
    simp only [asFloat, assertInFeasible, key, isNumber, numOf, r1]
    generalize (h.feasible.any fun f => decide (ratOf f = some (b2r b))) = bb
    cases bb <;> simp
  | flt x =>
    cases x with
    | nan => simp [isNumber, numOf]
    | pinf => simp [asFloat, assertInFeasible, keyInf .pinf (Or.inl rfl), isNumber, numOf, ratOf]
    | ninf => simp [asFloat, assertInFeasible, keyInf .ninf (Or.inr rfl), isNumber, numOf, ratOf]
    | fin q =>
      have r1 : ratOf (PVal.flt (.fin q)) = some q := rfl
      simp only [asFloat, assertInFeasible, key, isNumber, numOf, r1]
      generalize (h.feasible.any fun f => decide (ratOf f = some q)) = bb
      cases bb <;> simp

theorem pcContains_categorical (cfg : Cfg) (h : Hdr) (v : PVal) (ht : h.type = .categorical) (hwf : h.wf = true) :
    pcContains cfg h v = .ok (typeOK h v && inDomain h v) := by
  unfold Hdr.wf at hwf; rw [ht] at hwf; simp only [List.all_eq_true] at hwf
  have key : ∀ s : String, (h.feasible.any fun f => pyEq f (.str s)) =
      (h.feasible.any fun f => decide (f = .str s)) := by
    intro s
    apply any_congr'
    intro f hf
    have := hwf f hf
    cases f with
    | str t => simp only [pyEq]; by_cases hts : t = s <;> simp [hts]
    | _ => simp [isStr] at this
  unfold pcContains assertFeasible typeOK inDomain
  rw [ht, act_cat cfg]
  cases v with
  | str s =>
    simp only [asStr, assertInFeasible, key, isStr, isBool, strForm]
    generalize (h.feasible.any fun f => decide (f = .str s)) = bb
    cases bb <;> simp
  | bool b =>
    cases b <;> simp only [asStr, assertInFeasible, key, isStr, isBool, strForm, TRUE_VALUE, FALSE_VALUE]
    · by_cases hc : (h.feasible.any fun f => decide (f = .str "False")) = true <;> simp [hc]
    · by_cases hc : (h.feasible.any fun f => decide (f = .str "True")) = true <;> simp [hc]
  | int i => simp [isStr, isBool]
  | flt x => simp [isStr, isBool]

theorem pcContains_custom (cfg : Cfg) (h : Hdr) (v : PVal) (ht : h.type = .custom) :
    pcContains cfg h v = .error .runtime := by
  unfold pcContains assertFeasible
  rw [ht]
  simp [assertCorrectType, PType.isNumeric]

end VizierModel.Space
