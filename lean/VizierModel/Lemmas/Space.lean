/-
Lemmas for C16 (membership): the coercion pipeline of `_assert_feasible`
(`float(v) != v`, `int(v) != v`, `as_float`, `as_int`, `as_str`, chained comparisons)
decides exactly `typeOK ∧ inDomain`.
-/
import VizierModel.Model.SpaceSpec
namespace VizierModel.Space

theorem intCast_truncQ_eq_iff (q : Rat) : ((truncQ q : Int) : Rat) = q ↔ q.den = 1 := by
  constructor
  · intro h
    have := congrArg Rat.den h
    rw [Rat.den_intCast] at this
    exact this.symm
  · intro h
    unfold truncQ
    rw [h]
    apply Rat.ext
    · rw [Rat.num_intCast]; exact Int.tdiv_one _
    · rw [Rat.den_intCast, h]

theorem isIntegralQ_iff (q : Rat) : isIntegralQ q = true ↔ q.den = 1 := by
  simp [isIntegralQ]

theorem numOf_of_ratOf {v : PVal} {q : Rat} (h : ratOf v = some q) : numOf v = some (.fin q) := by
  cases v with
  | str s => simp [ratOf] at h
  | int i => simp [ratOf] at h; simp [numOf, h]
  | flt x => cases x <;> simp [ratOf] at h <;> simp [numOf, h]
  | bool b => simp [ratOf] at h; simp [numOf, h]

theorem ratOf_intCast_den {v : PVal} {q : Rat} (h : ratOf v = some q) (hi : isIntInst v = true) : q.den = 1 := by
  cases v with
  | str s => simp [ratOf] at h
  | int i => simp [ratOf] at h; rw [← h]; exact Rat.den_intCast i
  | flt x => simp [isIntInst] at hi
  | bool b =>
    simp [ratOf] at h; rw [← h]; cases b <;> simp [b2r] <;> rfl

set_option linter.unusedSimpArgs false

theorem pyLe_ratOf {a b : PVal} {x y : Rat} (ha : ratOf a = some x) (hb : ratOf b = some y) :
    pyLe a b = decide (x ≤ y) := by
  unfold pyLe; rw [numOf_of_ratOf ha, numOf_of_ratOf hb]; rfl

theorem pyEq_ratOf {a b : PVal} {x y : Rat} (ha : ratOf a = some x) (hb : ratOf b = some y) :
    pyEq a b = decide (x = y) := by
  have na := numOf_of_ratOf ha
  have nb := numOf_of_ratOf hb
  cases a <;> cases b <;> simp [ratOf] at ha hb <;> simp only [pyEq, na, nb, Flt.beq]

/-- the type check on a numeric, non-integer type -/
theorem act_num (cfg : Cfg) (t : PType) (ht : t = .double ∨ t = .discrete) (v : PVal) :
    assertCorrectType cfg t v =
      match v with
      | .str _ => .error .typeOrValue
      | .flt .nan => .error .type
      | _ => .ok () := by
  rcases ht with rfl | rfl <;> cases v with
  | str s => simp [assertCorrectType, PType.isNumeric, pyFloat]
  | int i => simp [assertCorrectType, PType.isNumeric, pyFloat, pyEq, numOf, Flt.beq]
  | bool b => simp [assertCorrectType, PType.isNumeric, pyFloat, pyEq, numOf, Flt.beq]
  | flt x => cases x <;> simp [assertCorrectType, PType.isNumeric, pyFloat, pyEq, numOf, Flt.beq]

theorem act_int (cfg : Cfg) (v : PVal) :
    assertCorrectType cfg .integer v =
      match v with
      | .str _ => .error .typeOrValue
      | .flt .nan => .error .type
      | .flt .pinf => if cfg.intInfGuard then .error .type else .error .overflow
      | .flt .ninf => if cfg.intInfGuard then .error .type else .error .overflow
      | .flt (.fin q) => if q.den = 1 then .ok () else .error .type
      | _ => .ok () := by
  cases v with
  | str s => simp [assertCorrectType, PType.isNumeric, pyFloat]
  | int i => simp [assertCorrectType, PType.isNumeric, pyFloat, pyEq, numOf, Flt.beq, pyInt]
  | bool b => cases b <;> simp [assertCorrectType, PType.isNumeric, pyFloat, pyEq, numOf, Flt.beq, pyInt, b2i, b2r]
  | flt x =>
    cases x with
    | nan => simp [assertCorrectType, PType.isNumeric, pyFloat, pyEq, numOf, Flt.beq]
    | pinf => cases h : cfg.intInfGuard <;> simp [assertCorrectType, PType.isNumeric, pyFloat, pyEq, numOf, Flt.beq, pyInt, h]
    | ninf => cases h : cfg.intInfGuard <;> simp [assertCorrectType, PType.isNumeric, pyFloat, pyEq, numOf, Flt.beq, pyInt, h]
    | fin q =>
      simp [assertCorrectType, PType.isNumeric, pyFloat, pyEq, numOf, Flt.beq, pyInt, intCast_truncQ_eq_iff]

theorem act_cat (cfg : Cfg) (v : PVal) :
    assertCorrectType cfg .categorical v =
      match v with
      | .str _ => .ok ()
      | .bool _ => .ok ()
      | _ => .error .type := by
  cases v <;> simp [assertCorrectType, PType.isNumeric, isStr, isBool]

theorem assertBounds_fin {h : Hdr} {lo hi x : PVal} {l u q : Rat} (hb : h.bounds = some (lo, hi))
    (hl : ratOf lo = some l) (hu : ratOf hi = some u) (hx : ratOf x = some q) :
    assertBounds h x = if (decide (l ≤ q) && decide (q ≤ u)) = true then .ok () else .error .value := by
  unfold assertBounds; rw [hb]; simp only [pyLe_ratOf hl hx, pyLe_ratOf hx hu]

theorem assertBounds_inf {h : Hdr} {lo hi : PVal} {l u : Rat} (hb : h.bounds = some (lo, hi))
    (hl : ratOf lo = some l) (hu : ratOf hi = some u) (x : Flt) (hx : x = .pinf ∨ x = .ninf) :
    assertBounds h (.flt x) = .error .value := by
  simp only [assertBounds, hb]
  have nl := numOf_of_ratOf hl
  have nu := numOf_of_ratOf hu
  rcases hx with rfl | rfl <;> (unfold pyLe; rw [nl, nu]; simp [numOf, Flt.le])

theorem withinBounds_eq {h : Hdr} {lo hi : PVal} {l u : Rat} (hb : h.bounds = some (lo, hi))
    (hl : ratOf lo = some l) (hu : ratOf hi = some u) (q : Rat) :
    withinBounds h q = (decide (l ≤ q) && decide (q ≤ u)) := by
  unfold withinBounds; rw [hb]; simp only [hl, hu]

theorem wf_bounds {h : Hdr} (ht : h.type = .double ∨ h.type = .integer) (hwf : h.wf = true) :
    ∃ lo hi l u, h.bounds = some (lo, hi) ∧ ratOf lo = some l ∧ ratOf hi = some u := by
  unfold Hdr.wf at hwf
  rcases ht with ht | ht <;> rw [ht] at hwf <;> simp only at hwf
  all_goals
    match hb : h.bounds, hwf with
    | some (lo, hi), hwf =>
      simp only [Bool.and_eq_true, Option.isSome_iff_exists] at hwf
      obtain ⟨⟨l, hl⟩, ⟨u, hu⟩⟩ := hwf
      exact ⟨lo, hi, l, u, rfl, hl, hu⟩

theorem pcContains_double (cfg : Cfg) (h : Hdr) (v : PVal) (ht : h.type = .double) (hwf : h.wf = true) :
    pcContains cfg h v = .ok (typeOK h v && inDomain h v) := by
  obtain ⟨lo, hi, l, u, hb, hl, hu⟩ := wf_bounds (Or.inl ht) hwf
  unfold pcContains assertFeasible typeOK inDomain
  rw [ht, act_num cfg .double (Or.inl rfl)]
  cases v with
  | str s => simp [isNumber, numOf]
  | int i =>
    have hx : ratOf (.flt (.fin (i : Rat))) = some (i : Rat) := rfl
    simp only [asFloat, assertBounds_fin hb hl hu hx, isNumber, numOf, ratOf, withinBounds_eq hb hl hu]
    by_cases hc : (decide (l ≤ (i : Rat)) && decide ((i : Rat) ≤ u)) = true <;> simp [hc]
  | bool b =>
    have hx : ratOf (.flt (.fin (b2r b))) = some (b2r b) := rfl
    simp only [asFloat, assertBounds_fin hb hl hu hx, isNumber, numOf, ratOf, withinBounds_eq hb hl hu]
    by_cases hc : (decide (l ≤ b2r b) && decide (b2r b ≤ u)) = true <;> simp [hc]
  | flt x =>
    cases x with
    | nan => simp [isNumber, numOf]
    | pinf => simp [asFloat, assertBounds_inf hb hl hu .pinf (Or.inl rfl), isNumber, numOf, ratOf]
    | ninf => simp [asFloat, assertBounds_inf hb hl hu .ninf (Or.inr rfl), isNumber, numOf, ratOf]
    | fin q =>
      have hx : ratOf (.flt (.fin q)) = some q := rfl
      simp only [asFloat, assertBounds_fin hb hl hu hx, isNumber, numOf, ratOf, withinBounds_eq hb hl hu]
      by_cases hc : (decide (l ≤ q) && decide (q ≤ u)) = true <;> simp [hc]

end VizierModel.Space
