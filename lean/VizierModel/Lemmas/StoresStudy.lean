import VizierModel.Lemmas.StoresWrite
namespace VizierModel.Stores
open VizierModel.Svc

/-! ### study-level writes: create / update / delete study commute with the abstraction -/

theorem hasStudy_false_find (q : Sql) (k : SKey) (h : q.hasStudy k = false) : q.studies.find? (·.1 == k) = none := by
  rw [hasStudy_iff_find] at h
  cases hf : q.studies.find? (·.1 == k) with
  | none => rfl
  | some r => rw [hf] at h; cases h

theorem hasStudy_true_find (q : Sql) (k : SKey) (h : q.hasStudy k = true) : ∃ row, q.studies.find? (·.1 == k) = some row := by
  rw [hasStudy_iff_find] at h
  cases hf : q.studies.find? (·.1 == k) with
  | none => rw [hf] at h; cases h
  | some r => exact ⟨r, rfl⟩

/-- a study that does not exist has no trial rows, so its fresh node is empty -/
theorem nodeOf_fresh (q : Sql) (hw : WF q) (k : SKey) (h : Head) (hm : q.hasStudy k = false) :
    nodeOf q k h = { head := h, trials := [], clients := [] } := by
  unfold nodeOf
  have : q.trials.filter (·.1 == k) = [] := by
    rw [List.filter_eq_nil_iff]
    intro row hrow he
    have hk : row.1 = k := by simpa using he
    have := hw.noOrphan row hrow
    rw [hk, hm] at this
    cases this
  have ho : q.ops.filter (·.1 == k) = [] := by
    rw [List.filter_eq_nil_iff]
    intro row hrow he
    have hk : row.1 = k := by simpa using he
    have := hw.noOrphanOps row hrow
    rw [hk, hm] at this
    cases this
  rw [this, clientsOf_no_rows q.ops k ho]; rfl

theorem studiesOf_any (q : Sql) (k : SKey) :
    (studiesOf q k.1).any (·.1 == k.2) = q.hasStudy k := by
  unfold studiesOf Sql.hasStudy
  induction q.studies with
  | nil => rfl
  | cons row rows ih =>
    simp only [List.filter_cons, List.any_cons]
    by_cases ho : (row.1.1 == k.1) = true
    · simp only [ho, if_true, List.map_cons, List.any_cons, ih]
      congr 1
      by_cases hs : (row.1.2 == k.2) = true
      · have : row.1 = k := Prod.ext (beq_iff_eq.mp ho) (beq_iff_eq.mp hs)
        simp [hs, this]
      · have hne : row.1 ≠ k := fun e => hs (by rw [e]; exact beq_self_eq_true _)
        have hs' : (row.1.2 == k.2) = false := by
          cases h : row.1.2 == k.2 with
          | true => exact absurd h hs
          | false => rfl
        rw [hs', beq_false_of_ne hne]
    · have hne : row.1 ≠ k := fun e => ho (by rw [e]; exact beq_self_eq_true _)
      simp only [ho, Bool.false_eq_true, if_false, ih, beq_false_of_ne hne, Bool.false_or]

/-- adding a study row (trials untouched) extends exactly its owner's list -/
theorem studiesOf_append (q : Sql) (k : SKey) (h : Head) (ow : List String) (o : String) :
    studiesOf { q with owners := ow, studies := q.studies ++ [(k, h)] } o =
      studiesOf q o ++ (if k.1 == o then [(k.2, nodeOf q k h)] else []) := by
  unfold studiesOf nodeOf
  simp only [List.filter_append, List.map_append, List.filter_cons, List.filter_nil]
  by_cases ho : (k.1 == o) = true
  · simp [ho]
  · simp [ho]

theorem createStudy_sim (q : Sql) (hw : WF q) (k : SKey) (h : Head) :
    (absQ q).createStudy k h = (q.createStudy k h).map absQ ∧
    (∀ q', q.createStudy k h = .ok q' → WF q') := by
  unfold Ram.createStudy Sql.createStudy
  rw [studiesOfOwner_absQ q hw]
  by_cases hs : q.hasStudy k = true
  · -- already exists on both sides
    obtain ⟨row, hrow⟩ := hasStudy_true_find q k hs
    have hmem : row ∈ q.studies := List.mem_of_find?_eq_some hrow
    have hrk : row.1 = k := by simpa using List.find?_some hrow
    have hown : q.owners.contains k.1 = true := by
      have := hw.studyOwner row hmem
      rw [hrk] at this
      simpa using this
    refine ⟨?_, ?_⟩
    · simp only [hown, if_true, studiesOf_any, hs]
      rfl
    · intro q' hq'; simp [hs] at hq'
  · have hs' : q.hasStudy k = false := by
      cases hh : q.hasStudy k with
      | true => exact absurd hh hs
      | false => rfl
    have hnode := nodeOf_fresh q hw k h hs'
    by_cases hown : q.owners.contains k.1 = true
    · refine ⟨?_, ?_⟩
      · simp only [hown, if_true, studiesOf_any, hs', Bool.false_eq_true, if_false, Except.map]
        congr 1
        unfold absQ
        simp only [List.map_map]
        congr 1
        apply List.map_congr_left
        intro o _
        simp only [Function.comp]
        rw [studiesOf_append, hnode]
        by_cases ho : (o == k.1) = true
        · have : (k.1 == o) = true := by rw [beq_iff_eq.mp ho]; exact beq_self_eq_true _
          simp [ho, this]
        · have ho' : (o == k.1) = false := by
            cases hh : o == k.1 with
            | true => exact absurd hh ho
            | false => rfl
          have : (k.1 == o) = false := beq_false_of_ne (fun e => ho (by rw [e]; exact beq_self_eq_true _))
          simp [ho', this]
      · intro q' hq'
        simp only [hs', Bool.false_eq_true, if_false, hown, if_true, Except.ok.injEq] at hq'
        subst hq'
        refine ⟨hw.ownersNodup, ?_, ?_, ?_, ?_⟩
        · simp only [List.map_append, List.map_cons, List.map_nil]
          rw [List.nodup_append]
          refine ⟨hw.studyKeys, by simp, ?_⟩
          intro a ha b hb
          simp only [List.mem_singleton] at hb
          subst hb
          intro e
          subst e
          obtain ⟨r, hr, hrk⟩ := List.mem_map.mp ha
          have : q.hasStudy r.1 = true := by
            unfold Sql.hasStudy
            exact List.any_eq_true.mpr ⟨r, hr, beq_self_eq_true _⟩
          rw [hrk, hs'] at this
          cases this
        · intro row hrow
          rcases List.mem_append.mp hrow with h1 | h1
          · exact hw.studyOwner row h1
          · simp only [List.mem_singleton] at h1
            subst h1
            simpa using hown
        · intro row hrow
          have := hw.noOrphan row hrow
          unfold Sql.hasStudy at this ⊢
          simp only [List.any_append, this, Bool.true_or]
        · intro row hrow
          have := hw.noOrphanOps row hrow
          unfold Sql.hasStudy at this ⊢
          simp only [List.any_append, this, Bool.true_or]
    · have hown' : q.owners.contains k.1 = false := by
        cases hh : q.owners.contains k.1 with
        | true => exact absurd hh hown
        | false => rfl
      have hnot : k.1 ∉ q.owners := by simpa using hown'
      refine ⟨?_, ?_⟩
      · simp only [hown', Bool.false_eq_true, if_false, hs', Except.map]
        congr 1
        unfold absQ
        simp only [List.map_append, List.map_cons, List.map_nil]
        congr 1
        congr 1
        · apply List.map_congr_left
          intro o ho
          rw [studiesOf_append]
          have : (k.1 == o) = false := beq_false_of_ne (fun e => hnot (e ▸ ho))
          simp [this]
        · rw [studiesOf_append, hnode]
          have hnone : studiesOf q k.1 = [] := by
            unfold studiesOf
            have : q.studies.filter (·.1.1 == k.1) = [] := by
              rw [List.filter_eq_nil_iff]
              intro row hrow he
              have := hw.studyOwner row hrow
              rw [beq_iff_eq.mp he] at this
              exact hnot this
            rw [this]; rfl
          simp [hnone]
      · intro q' hq'
        simp only [hs', Bool.false_eq_true, if_false, hown', Except.ok.injEq] at hq'
        subst hq'
        refine ⟨?_, ?_, ?_, ?_, ?_⟩
        · rw [List.nodup_append]
          refine ⟨hw.ownersNodup, by simp, ?_⟩
          intro a ha b hb
          simp only [List.mem_singleton] at hb
          subst hb
          intro e; subst e; exact hnot ha
        · simp only [List.map_append, List.map_cons, List.map_nil]
          rw [List.nodup_append]
          refine ⟨hw.studyKeys, by simp, ?_⟩
          intro a ha b hb
          simp only [List.mem_singleton] at hb
          subst hb
          intro e
          subst e
          obtain ⟨r, hr, hrk⟩ := List.mem_map.mp ha
          have : q.hasStudy r.1 = true := by
            unfold Sql.hasStudy
            exact List.any_eq_true.mpr ⟨r, hr, beq_self_eq_true _⟩
          rw [hrk, hs'] at this
          cases this
        · intro row hrow
          rcases List.mem_append.mp hrow with h1 | h1
          · exact List.mem_append_left _ (hw.studyOwner row h1)
          · simp only [List.mem_singleton] at h1
            subst h1
            simp
        · intro row hrow
          have := hw.noOrphan row hrow
          unfold Sql.hasStudy at this ⊢
          simp only [List.any_append, this, Bool.true_or]
        · intro row hrow
          have := hw.noOrphanOps row hrow
          unfold Sql.hasStudy at this ⊢
          simp only [List.any_append, this, Bool.true_or]

/-! #### update_study -/

def updRow (k : SKey) (h : Head) (row : SKey × Head) : SKey × Head := if row.1 == k then (k, h) else row

theorem updRow_key (k : SKey) (h : Head) (row : SKey × Head) : (updRow k h row).1 = row.1 := by
  unfold updRow
  by_cases e : (row.1 == k) = true
  · simp [e, (beq_iff_eq.mp e)]
  · simp [e]

theorem studiesOf_update_aux (q : Sql) (k : SKey) (h : Head) (o : String) (rows : List (SKey × Head)) :
    (((rows.map (updRow k h)).filter (·.1.1 == o)).map fun row => (row.1.2, nodeOf q row.1 row.2)) =
      if o == k.1 then
        (((rows.filter (·.1.1 == o)).map fun row => (row.1.2, nodeOf q row.1 row.2)).map
          fun (p : String × RNode) => if p.1 == k.2 then (p.1, { nodeOf q k h with head := h }) else (p.1, p.2))
      else ((rows.filter (·.1.1 == o)).map fun row => (row.1.2, nodeOf q row.1 row.2)) := by
  induction rows with
  | nil => by_cases ho : (o == k.1) = true <;> simp [ho]
  | cons row rows ih =>
    simp only [List.map_cons, List.filter_cons, updRow_key]
    by_cases hr : (row.1.1 == o) = true
    · simp only [hr, if_true, List.map_cons, ih]
      by_cases ho : (o == k.1) = true
      · simp only [ho, if_true, List.map_cons]
        congr 1
        by_cases hk : (row.1 == k) = true
        · have e := beq_iff_eq.mp hk
          have hs : (row.1.2 == k.2) = true := by rw [e]; exact beq_self_eq_true _
          simp [updRow, e, nodeOf]
        · have hne : row.1 ≠ k := fun e => hk (by rw [e]; exact beq_self_eq_true _)
          have hs : (row.1.2 == k.2) = false := beq_false_of_ne (fun e2 =>
            hne (Prod.ext ((beq_iff_eq.mp hr).trans (beq_iff_eq.mp ho)) e2))
          simp only [updRow, hk, hs, Bool.false_eq_true, if_false]
      · have ho' : (o == k.1) = false := by
          cases hh : o == k.1 with
          | true => exact absurd hh ho
          | false => rfl
        simp only [ho', Bool.false_eq_true, if_false]
        congr 1
        have hk : (row.1 == k) = false := beq_false_of_ne (fun e => ho (by rw [← beq_iff_eq.mp hr, e]; exact beq_self_eq_true _))
        simp only [updRow, hk, Bool.false_eq_true, if_false]
    · simp only [hr, Bool.false_eq_true, if_false, ih]

theorem updateStudy_sim (q : Sql) (hw : WF q) (k : SKey) (h : Head) :
    (absQ q).updateStudy k h = (q.updateStudy k h).map absQ ∧
    (∀ q', q.updateStudy k h = .ok q' → WF q') := by
  unfold Ram.updateStudy Sql.updateStudy
  rw [node_absQ q hw, hasStudy_iff_find]
  cases hf : q.studies.find? (·.1 == k) with
  | none => exact ⟨rfl, by intro q' hq'; simp at hq'⟩
  | some row =>
    have hrk : row.1 = k := by simpa using List.find?_some hf
    refine ⟨?_, ?_⟩
    · simp only [Option.map_some, Option.isSome_some, if_true, Except.map]
      congr 1
      unfold Ram.setNode absQ
      simp only [List.map_map]
      congr 1
      apply List.map_congr_left
      intro o _
      simp only [Function.comp]
      have := studiesOf_update_aux q k h o q.studies
      unfold studiesOf
      show _ = (o, ((q.studies.map fun row => if row.1 == k then (k, h) else row).filter (·.1.1 == o)).map
        fun row => (row.1.2, nodeOf q row.1 row.2))
      have hm : (q.studies.map fun row => if row.1 == k then (k, h) else row) = q.studies.map (updRow k h) := rfl
      rw [hm, this]
      by_cases ho : (o == k.1) = true
      · simp only [ho, if_true]
        congr 1
        apply List.map_congr_left
        intro p _
        by_cases hp : (p.1 == k.2) = true
        · simp [hp, nodeOf, hrk]
        · simp [hp]
      · simp [ho]
    · intro q' hq'
      simp only [Option.isSome_some, if_true, Except.ok.injEq] at hq'
      subst hq'
      have hm : (q.studies.map fun row => if row.1 == k then (k, h) else row) = q.studies.map (updRow k h) := rfl
      have hkeys : (q.studies.map (updRow k h)).map (·.1) = q.studies.map (·.1) := by
        simp only [List.map_map]
        apply List.map_congr_left
        intro r _
        exact updRow_key k h r
      refine ⟨hw.ownersNodup, ?_, ?_, ?_, ?_⟩
      · show ((q.studies.map fun row => if row.1 == k then (k, h) else row).map (·.1)).Nodup
        rw [hm, hkeys]; exact hw.studyKeys
      · intro r hr
        have hr' : r ∈ q.studies.map (updRow k h) := hr
        obtain ⟨r0, hr0, e⟩ := List.mem_map.mp hr'
        rw [← e, updRow_key]
        exact hw.studyOwner r0 hr0
      · intro r hr
        have := hw.noOrphan r hr
        unfold Sql.hasStudy at this ⊢
        show (q.studies.map fun row => if row.1 == k then (k, h) else row).any (·.1 == r.1) = true
        rw [hm, List.any_map]
        rw [List.any_eq_true] at this ⊢
        obtain ⟨x, hx, hxe⟩ := this
        exact ⟨x, hx, by simp only [Function.comp, updRow_key]; exact hxe⟩
      · intro r hr
        have := hw.noOrphanOps r hr
        unfold Sql.hasStudy at this ⊢
        show (q.studies.map fun row => if row.1 == k then (k, h) else row).any (·.1 == r.1) = true
        rw [hm, List.any_map]
        rw [List.any_eq_true] at this ⊢
        obtain ⟨x, hx, hxe⟩ := this
        exact ⟨x, hx, by simp only [Function.comp, updRow_key]; exact hxe⟩

/-! #### delete_study -/

theorem studiesOf_delete_aux (q : Sql) (k : SKey) (o : String) (T' : List (SKey × Trial)) (O' : List (SKey × SugOp))
    (hT : ∀ key : SKey, key ≠ k → (T'.filter (·.1 == key)).map (·.2) = (q.trials.filter (·.1 == key)).map (·.2))
    (hO : ∀ key : SKey, key ≠ k → clientsOf O' key = clientsOf q.ops key)
    (rows : List (SKey × Head)) :
    ((((rows.filter (·.1 != k)).filter (·.1.1 == o)).map fun row =>
        (row.1.2, ({ head := row.2, trials := (T'.filter (·.1 == row.1)).map (·.2), clients := clientsOf O' row.1 } : RNode)))) =
      if o == k.1 then
        (((rows.filter (·.1.1 == o)).map fun row => (row.1.2, nodeOf q row.1 row.2)).filter (·.1 != k.2))
      else ((rows.filter (·.1.1 == o)).map fun row => (row.1.2, nodeOf q row.1 row.2)) := by
  induction rows with
  | nil => by_cases ho : (o == k.1) = true <;> simp [ho]
  | cons row rows ih =>
    by_cases hk : (row.1 == k) = true
    · -- the deleted row
      have e := beq_iff_eq.mp hk
      have hne : (row.1 != k) = false := by simp [e]
      simp only [List.filter_cons, hne, Bool.false_eq_true, if_false, ih]
      by_cases ho : (o == k.1) = true
      · have hr : (row.1.1 == o) = true := by rw [e, beq_iff_eq.mp ho]; exact beq_self_eq_true _
        have hs : (row.1.2 != k.2) = false := by simp [e]
        simp only [ho, if_true, hr, List.map_cons, List.filter_cons, hs, Bool.false_eq_true, if_false]
      · have ho' : (o == k.1) = false := by
          cases hh : o == k.1 with
          | true => exact absurd hh ho
          | false => rfl
        have hr : (row.1.1 == o) = false := beq_false_of_ne (fun e2 => ho (by rw [← e2, e]; exact beq_self_eq_true _))
        simp only [ho', Bool.false_eq_true, if_false, hr]
    · have hne : row.1 ≠ k := fun e => hk (by rw [e]; exact beq_self_eq_true _)
      have hne' : (row.1 != k) = true := by simp [hne]
      simp only [List.filter_cons, hne', if_true]
      by_cases hr : (row.1.1 == o) = true
      · simp only [hr, if_true, List.map_cons, ih]
        by_cases ho : (o == k.1) = true
        · have hs : (row.1.2 != k.2) = true := by
            have : row.1.2 ≠ k.2 := fun e2 => hne (Prod.ext ((beq_iff_eq.mp hr).trans (beq_iff_eq.mp ho)) e2)
            simp [this]
          simp only [ho, if_true, List.filter_cons, hs, nodeOf, hT row.1 hne, hO row.1 hne]
        · have ho' : (o == k.1) = false := by
            cases hh : o == k.1 with
            | true => exact absurd hh ho
            | false => rfl
          simp only [ho', Bool.false_eq_true, if_false, nodeOf, hT row.1 hne, hO row.1 hne]
      · simp only [hr, Bool.false_eq_true, if_false, ih]

theorem filter_ne_other {β : Type} (rows : List (SKey × β)) (k key : SKey) (hne : key ≠ k) :
    ((rows.filter (·.1 != k)).filter (·.1 == key)).map (·.2) = (rows.filter (·.1 == key)).map (·.2) := by
  induction rows with
  | nil => rfl
  | cons r rs ih =>
    simp only [List.filter_cons]
    by_cases hk : (r.1 == key) = true
    · have : (r.1 != k) = true := by
        have : r.1 ≠ k := fun e => hne ((beq_iff_eq.mp hk).symm.trans e)
        simp [this]
      simp only [this, if_true, List.filter_cons, hk, List.map_cons, ih]
    · by_cases hd : (r.1 != k) = true
      · simp only [hd, if_true, List.filter_cons, hk, Bool.false_eq_true, if_false, ih]
      · simp only [hd, Bool.false_eq_true, if_false, hk, ih]

theorem deleteStudy_sim (q : Sql) (hw : WF q) (k : SKey) :
    (absQ q).deleteStudy k = (q.deleteStudy k).map absQ ∧
    (∀ q', q.deleteStudy k = .ok q' → WF q') := by
  unfold Ram.deleteStudy Sql.deleteStudy
  rw [node_absQ q hw, hasStudy_iff_find]
  cases hf : q.studies.find? (·.1 == k) with
  | none => exact ⟨rfl, by intro q' hq'; simp at hq'⟩
  | some row =>
    refine ⟨?_, ?_⟩
    · simp only [Option.map_some, Option.isSome_some, if_true, Except.map]
      congr 1
      unfold absQ
      simp only [List.map_map]
      congr 1
      apply List.map_congr_left
      intro o _
      simp only [Function.comp]
      have := studiesOf_delete_aux q k o (q.trials.filter (·.1 != k)) (q.ops.filter (·.1 != k))
        (fun key hne => filter_ne_other q.trials k key hne)
        (fun key hne => clientsOf_congr q.ops _ key (filter_ne_other q.ops k key hne)) q.studies
      unfold studiesOf nodeOf at *
      simp only at this ⊢
      rw [this]
      by_cases ho : (o == k.1) = true <;> simp [ho]
    · intro q' hq'
      simp only [Option.isSome_some, if_true, Except.ok.injEq] at hq'
      subst hq'
      refine ⟨hw.ownersNodup, ?_, ?_, ?_, ?_⟩
      · exact List.Nodup.sublist (List.Sublist.map _ List.filter_sublist) hw.studyKeys
      · intro r hr
        exact hw.studyOwner r (List.mem_filter.mp hr).1
      · intro r hr
        have hr' := List.mem_filter.mp hr
        have hne : r.1 ≠ k := by simpa using hr'.2
        have := hw.noOrphan r hr'.1
        unfold Sql.hasStudy at this ⊢
        rw [List.any_eq_true] at this ⊢
        obtain ⟨x, hx, hxe⟩ := this
        refine ⟨x, List.mem_filter.mpr ⟨hx, ?_⟩, hxe⟩
        have : x.1 = r.1 := beq_iff_eq.mp hxe
        simp [this, hne]
      · intro r hr
        have hr' := List.mem_filter.mp hr
        have hne : r.1 ≠ k := by simpa using hr'.2
        have := hw.noOrphanOps r hr'.1
        unfold Sql.hasStudy at this ⊢
        rw [List.any_eq_true] at this ⊢
        obtain ⟨x, hx, hxe⟩ := this
        refine ⟨x, List.mem_filter.mpr ⟨hx, ?_⟩, hxe⟩
        have : x.1 = r.1 := beq_iff_eq.mp hxe
        simp [this, hne]

end VizierModel.Stores
