import VizierModel.Lemmas.ServiceBodies
namespace VizierModel.Svc

/-- `cur` is `ts` with every trial legally evolved in place -/
def MapOK (ts cur : List Trial) : Prop :=
  ∃ g : Trial → Trial, cur = ts.map g ∧ ∀ x ∈ ts, (g x).id = x.id ∧ trialStepOK x (g x) = true

theorem MapOK.refl (ts : List Trial) : MapOK ts ts :=
  ⟨id, by simp, fun x _ => ⟨rfl, trialStepOK_refl x⟩⟩

theorem MapOK.ids {ts cur : List Trial} (h : MapOK ts cur) : cur.map (·.id) = ts.map (·.id) := by
  obtain ⟨g, rfl, hg⟩ := h
  rw [List.map_map]
  exact List.map_congr_left fun x hx => (hg x hx).1

theorem MapOK.trialsOK {ts cur : List Trial} (h : MapOK ts cur) (hn : Nodup' ts) : TrialsOK ts cur := by
  obtain ⟨g, rfl, hg⟩ := h
  exact trialsOK_map hn g hg

theorem MapOK.put {ts cur : List Trial} (h : MapOK ts cur) (hn : Nodup' ts) {t a : Trial} (ht : t ∈ ts)
    (hid : a.id = t.id) (hs : trialStepOK t a = true) :
    MapOK ts (cur.map fun y => if y.id == a.id then a else y) := by
  obtain ⟨g, rfl, hg⟩ := h
  refine ⟨fun x => if x.id == a.id then a else g x, ?_, ?_⟩
  · rw [List.map_map]
    apply List.map_congr_left
    intro x hx
    simp only [Function.comp, (hg x hx).1]
  · intro x hx
    by_cases hxa : x.id = a.id
    · have : x = t := nodup_mem_eq hn hx ht (hxa.trans hid)
      subst this
      simp [hxa, hs]
    · simp [hxa, hg x hx]

theorem MapOK.md {ts cur : List Trial} (h : MapOK ts cur) (f : Trial → Trial)
    (hf : ∀ y, ∃ m, f y = { y with md := m }) : MapOK ts (cur.map f) := by
  obtain ⟨g, rfl, hg⟩ := h
  refine ⟨fun x => f (g x), by rw [List.map_map]; rfl, ?_⟩
  intro x hx
  obtain ⟨m, hm⟩ := hf (g x)
  show (f (g x)).id = x.id ∧ trialStepOK x (f (g x)) = true
  rw [hm]
  exact ⟨(hg x hx).1, trialStepOK_then_md _ _ _ (hg x hx).2⟩

theorem maxId_eq_foldl (ts : List Trial) (m : Nat) :
    ts.foldl (fun m t => max m t.id) m = (ts.map (·.id)).foldl max m := by
  induction ts generalizing m with
  | nil => rfl
  | cons x xs ih => simp [List.foldl_cons, ih]

theorem maxId_congr {ts ts' : List Trial} (h : ts'.map (·.id) = ts.map (·.id)) : maxId ts' = maxId ts := by
  unfold maxId
  rw [maxId_eq_foldl, maxId_eq_foldl, h]

/-! ### metadata updates only touch `md` -/

theorem ofStore_trials (st : Study) (s : Meta.Store K String) :
    ∃ f : Trial → Trial, (st.ofStore s).trials = st.trials.map f ∧ ∀ y, ∃ m, f y = { y with md := m } := by
  refine ⟨fun t => match s.trials.find? (·.1 == t.id) with
      | some e => { t with md := e.2 }
      | none => t, rfl, ?_⟩
  intro y
  simp only
  split
  · exact ⟨_, rfl⟩
  · exact ⟨y.md, rfl⟩

theorem updateMetadata_trials (cfg : Cfg) (st : Study) (us : List (Meta.Upd K String)) :
    ∃ f : Trial → Trial, (st.updateMetadata cfg us).2.trials = st.trials.map f ∧
      ∀ y, ∃ m, f y = { y with md := m } := by
  unfold Study.updateMetadata
  split
  · split
    · exact ofStore_trials st _
    · exact ⟨id, by simp, fun y => ⟨y.md, rfl⟩⟩
  · exact ofStore_trials st _

theorem updateMetadata_ok (cfg : Cfg) (st : Study) (us : List (Meta.Upd K String)) (hn : Nodup' st.trials) :
    TrialsOK st.trials (st.updateMetadata cfg us).2.trials := by
  obtain ⟨f, hf, hmd⟩ := updateMetadata_trials cfg st us
  rw [hf]
  exact ((MapOK.refl st.trials).md f hmd).trialsOK hn

/-! ### the stages of `SuggestTrials` -/

@[simp] theorem putOp_trials (st : Study) (o : SugOp) : (st.putOp o).trials = st.trials := rfl

@[simp] theorem finishOp_trials (op0 : SugOp) (st : Study) (h : List Trial) : (finishOp op0 st h).2.trials = st.trials := rfl

@[simp] theorem failOp_trials (op0 : SugOp) (st : Study) : (failOp op0 st).2.trials = st.trials := rfl

theorem takeFromEnd_ids (client : String) (need nextId : Nat) (l : List Sugg) :
    ((takeFromEnd client need nextId l).1).map (·.id) =
      List.range' nextId (takeFromEnd client need nextId l).1.length := by
  induction need generalizing nextId l with
  | zero => simp [takeFromEnd]
  | succ n ih =>
    cases l with
    | nil => simp [takeFromEnd]
    | cons a as =>
      unfold takeFromEnd
      split
      · simp
      · rename_i s _
        simp only [List.map_cons, List.length_cons, newTrial]
        rw [ih (nextId + 1) (a :: as).dropLast]
        simp [List.range'_succ]

theorem surplus_ids (nextId : Nat) (l : List Sugg) :
    (surplus nextId l).map (·.id) = List.range' nextId (surplus nextId l).length := by
  induction l generalizing nextId with
  | nil => simp [surplus]
  | cons a as ih =>
    simp only [surplus, List.map_cons, List.length_cons, newTrial]
    rw [ih (nextId + 1)]
    simp [List.range'_succ]

theorem maxId_append_range (ts new : List Trial) (h : new.map (·.id) = List.range' (maxId ts + 1) new.length) :
    maxId (ts ++ new) = maxId ts + new.length := by
  unfold maxId at *
  rw [List.foldl_append, maxId_eq_foldl new, h]
  generalize ts.foldl (fun m t => max m t.id) 0 = M
  generalize new.length = k
  induction k generalizing M with
  | zero => simp
  | succ k ih =>
    rw [List.range'_succ, List.foldl_cons]
    have : max M (M + 1) = M + 1 := by omega
    rw [this, ih (M + 1)]
    omega

/-- `createStage` only appends trials with the next free ids -/
theorem createStage_trials (cfg : Cfg) (op0 : SugOp) (st : Study) (need : Nat) (out : List Trial) (sugg : List Sugg) :
    ∃ new, (createStage cfg op0 st need out sugg).2.trials = st.trials ++ new ∧
      new.map (·.id) = List.range' (maxId st.trials + 1) new.length := by
  unfold createStage
  have hc := takeFromEnd_ids op0.client need (st.maxTrialId + 1) sugg
  generalize takeFromEnd op0.client need (st.maxTrialId + 1) sugg = r at *
  obtain ⟨created, rest, short⟩ := r
  simp only at hc ⊢
  split
  · exact ⟨created, rfl, hc⟩
  · simp only [finishOp_trials]
    have hs := surplus_ids (maxId (st.trials ++ created) + 1) rest
    refine ⟨created ++ surplus (maxId (st.trials ++ created) + 1) rest, by simp [maxTrialId_eq], ?_⟩
    rw [List.map_append, hc, hs, maxId_append_range st.trials created hc, List.length_append, maxTrialId_eq]
    have e : maxId st.trials + created.length + 1 = (maxId st.trials + 1) + 1 * created.length := by omega
    rw [e, List.range'_append]

theorem trialsOK_md_append {ts cur : List Trial} (hn : Nodup' ts) (f : Trial → Trial)
    (hf : ∀ y, ∃ m, f y = { y with md := m }) (hcur : MapOK ts cur) (new : List Trial)
    (hids : new.map (·.id) = List.range' (maxId (cur.map f) + 1) new.length) :
    TrialsOK ts (cur.map f ++ new) := by
  have hm := hcur.md f hf
  have hid := hm.ids
  apply trialsOK_append (hm.trialsOK hn) hid
  rw [← maxId_congr hid]; exact hids

/-- `pythiaStage`: metadata-only changes of existing trials, then fresh trials appended -/
theorem pythiaStage_ok (cfg : Cfg) (op0 : SugOp) (st : Study) (need : Nat) (out : List Trial) (alg : AlgOutcome)
    {ts : List Trial} (hn : Nodup' ts) (hcur : MapOK ts st.trials) :
    TrialsOK ts (pythiaStage cfg op0 st need out alg).2.trials := by
  unfold pythiaStage
  split
  · simpa using hcur.trialsOK hn
  · split
    · simpa using hcur.trialsOK hn
    · exact hcur.trialsOK hn
  · rename_i sugg delta
    obtain ⟨f, hf, hmd⟩ := updateMetadata_trials cfg st delta
    simp only
    split
    · simp only [failOp_trials, hf]
      exact (hcur.md f hmd).trialsOK hn
    · obtain ⟨new, hnew, hids⟩ := createStage_trials cfg op0 (st.updateMetadata cfg delta).2 need out sugg
      rw [hnew, hf]
      apply trialsOK_md_append hn f hmd hcur
      rw [← hf]; exact hids

theorem assignRequested_spec (client : String) (n : Nat) (pool : List Trial) :
    ∀ a ∈ assignRequested client n pool, ∃ t ∈ pool, a = { t with state := .active, client := client } := by
  induction n generalizing pool with
  | zero => intro a ha; simp [assignRequested] at ha
  | succ n ih =>
    intro a ha
    cases pool with
    | nil => simp [assignRequested] at ha
    | cons p ps =>
      unfold assignRequested at ha
      split at ha
      · cases ha
      · rename_i t hl
        rcases List.mem_cons.mp ha with rfl | ha'
        · exact ⟨t, List.mem_of_getLast? hl, rfl⟩
        · obtain ⟨t', ht', e⟩ := ih _ a ha'
          exact ⟨t', List.dropLast_subset _ ht', e⟩

theorem foldl_putTrial_mapOK {ts : List Trial} (hn : Nodup' ts) (as : List Trial) (st : Study)
    (has : ∀ a ∈ as, ∃ t ∈ ts, a.id = t.id ∧ trialStepOK t a = true) (h : MapOK ts st.trials) :
    MapOK ts (as.foldl Study.putTrial st).trials := by
  induction as generalizing st with
  | nil => exact h
  | cons a as ih =>
    rw [List.foldl_cons]
    apply ih
    · intro b hb; exact has b (List.mem_cons_of_mem _ hb)
    · obtain ⟨t, ht, hid, hs⟩ := has a List.mem_cons_self
      exact h.put hn ht hid hs

theorem foldl_putTrial_sugOps (as : List Trial) (st : Study) :
    (as.foldl Study.putTrial st).sugOps = st.sugOps := by
  induction as generalizing st with
  | nil => rfl
  | cons a as ih => rw [List.foldl_cons, ih]; rfl

/-- a worker without an unfinished operation: a NEW operation record is created, then `suggestRest` -/
theorem suggestBody_of_free (cfg : Cfg) (st : Study) (client : String) (count : Nat) (alg : AlgOutcome)
    (h : (opsOf st client).find? (fun o => !o.done) = none) :
    suggestBody cfg st client count alg =
      suggestRest cfg { client := client, num := (opsOf st client).length + 1, done := false, result := .none }
        { st with sugOps := st.sugOps ++
            [{ client := client, num := (opsOf st client).length + 1, done := false, result := .none }] }
        client count alg := by
  unfold suggestBody
  simp only [h]

/-- a worker with an unfinished operation `o`, repaired service: `o` is RESUMED (no new record) -/
theorem suggestBody_of_pending (cfg : Cfg) (hr : cfg.resumesAbandonedOp = true) (st : Study) (client : String)
    (count : Nat) (alg : AlgOutcome) (o : SugOp) (h : (opsOf st client).find? (fun o => !o.done) = some o) :
    suggestBody cfg st client count alg = suggestRest cfg { o with client := client } st client count alg := by
  unfold suggestBody
  simp only [h, hr, if_true]

/-- the part of SuggestTrials after the operation record exists: existing trials evolve legally
    (REQUESTED → ACTIVE for the assigned ones, metadata for the others), new trials get fresh,
    increasing ids -/
theorem suggestRest_ok (cfg : Cfg) (op0 : SugOp) (st : Study) (client : String) (count : Nat) (alg : AlgOutcome)
    (hn : Nodup' st.trials) : TrialsOK st.trials (suggestRest cfg op0 st client count alg).2.trials := by
  unfold suggestRest
  simp only
  split
  · simpa using TrialsOK.refl hn
  · have hA : MapOK st.trials
        ((assignRequested client (count - (st.trials.filter fun t => t.state == .active && t.client == client).length)
            (st.trials.filter (·.state == .requested))).foldl Study.putTrial st).trials := by
      apply foldl_putTrial_mapOK hn
      · intro a ha
        obtain ⟨t, ht, rfl⟩ := assignRequested_spec _ _ _ a ha
        have htm := List.mem_filter.mp ht
        have hreq : t.state = .requested := by simpa using htm.2
        refine ⟨t, htm.1, rfl, ?_⟩
        rw [trialStepOK_iff]
        exact ⟨by simp [hreq, legal], rfl, fun hc => by simp [hreq, TState.completed] at hc, fun hne => absurd hreq hne⟩
      · exact MapOK.refl _
    split
    · simpa using hA.trialsOK hn
    · exact pythiaStage_ok cfg _ _ _ _ alg hn hA

/-- **SuggestTrials** (any configuration, any algorithm outcome, fresh or resumed operation): existing
    trials evolve legally (REQUESTED → ACTIVE for the assigned ones, metadata for the others), new trials
    get fresh, increasing ids. -/
theorem suggestBody_ok (cfg : Cfg) (st : Study) (client : String) (count : Nat) (alg : AlgOutcome)
    (hn : Nodup' st.trials) : TrialsOK st.trials (suggestBody cfg st client count alg).2.trials := by
  unfold suggestBody
  simp only
  split
  · split
    · exact suggestRest_ok cfg _ st client count alg hn
    · exact TrialsOK.refl hn
  · exact suggestRest_ok cfg _ { st with sugOps := st.sugOps ++ [_] } client count alg hn

end VizierModel.Svc
