import VizierModel.Lemmas.ServiceOpsInv
namespace VizierModel.Svc

theorem esOpOf_putEsOp (st : Study) (o : EsOp) : esOpOf (st.putEsOp o) o.trialId = some o := by
  unfold Study.putEsOp
  split
  · rename_i x hx
    unfold esOpOf at *
    simp only
    generalize st.esOps = l at *
    induction l with
    | nil => simp at hx
    | cons y ys ih =>
      simp only [List.map_cons, List.find?_cons] at *
      by_cases hy : (y.trialId == o.trialId) = true
      · simp [hy]
      · simp only [hy] at hx ⊢
        simp only [Bool.false_eq_true, if_false]
        have hy' : (y.trialId == o.trialId) = false := by simpa using hy
        simp only [hy']
        exact ih hx
  · rename_i hx
    unfold esOpOf at *
    simp only
    rw [List.find?_append, hx]
    simp

/-- **C06 (early-stopping side)**: with the repaired service an exception raised by the
    early-stopping algorithm leaves the trial's operation record finished, not ACTIVE — so a later
    check is not answered forever from the abandoned record. -/
theorem esCompute_raises_finishes (cfg : Cfg) (hc : cfg.esFailureFinishesOp = true) (st : Study) (id : Nat) :
    (esCompute cfg st id .raises).1 = .err .runtimeError .raw ∧
    esOpOf (esCompute cfg st id .raises).2 id = some { trialId := id, active := false, shouldStop := false } := by
  unfold esCompute
  simp only [hc, if_true]
  exact ⟨trivial, esOpOf_putEsOp st _⟩

/-- at the pinned commit the record stays ACTIVE … -/
theorem esCompute_raises_legacy (cfg : Cfg) (hc : cfg.esFailureFinishesOp = false) (st : Study) (id : Nat) :
    (esCompute cfg st id .raises).2 = st := by
  unfold esCompute
  simp [hc]

/-- … and an ACTIVE record answers every later check without consulting the algorithm, whatever
    the algorithm would say (`es` arbitrary): the study's early stopping is wedged. -/
theorem earlyStop_active_record_is_returned (cfg : Cfg) (st : Study) (id : Nat) (t : Trial) (o : EsOp)
    (ht : st.findTrial id = some t) (hm : t.state.mutable = true) (ho : esOpOf st id = some o)
    (hact : o.active = true) (es : EsOutcome) :
    earlyStopBody cfg st id es = (.earlyStop o.shouldStop, st) := by
  unfold earlyStopBody
  simp [ht, hm, ho, hact]

end VizierModel.Svc
