import VizierModel.Lemmas.ServiceOpsInv
namespace VizierModel.Svc

theorem esOpOf_putEsOp (st : Study) (o : EsOp) : esOpOf (st.putEsOp o) o.trialId = some o := by
  unfold Study.putEsOp
  split
  · rename_i x hx
    unfold esOpOf at *
    simp only
    generalize st.esOps = l at *
    induction l with
    | nil => simp at hx
    | cons y ys ih =>
      simp only [List.map_cons, List.find?_cons] at *
      by_cases hy : (y.trialId == o.trialId) = true
      · simp [hy]
      · simp only [hy] at hx ⊢
        simp only [Bool.false_eq_true, if_false]
        have hy' : (y.trialId == o.trialId) = false := by simpa using hy
        simp only [hy']
        exact ih hx
  · rename_i hx
    unfold esOpOf at *
    simp only
    rw [List.find?_append, hx]
    simp

/-- **C06 (early-stopping side)**: with the repaired service an exception raised by the
    early-stopping algorithm leaves the trial's operation record finished, not ACTIVE — so a later
    check is not answered forever from the abandoned record. -/
theorem esCompute_raises_finishes (cfg : Cfg) (hc : cfg.esFailureFinishesOp = true) (st : Study) (id : Nat) :
    (esCompute cfg st id .raises).1 = .err .runtimeError .raw ∧
    esOpOf (esCompute cfg st id .raises).2 id = some { trialId := id, active := false, shouldStop := false } := by
  unfold esCompute
  simp only [hc, if_true]
  exact ⟨trivial, esOpOf_putEsOp st _⟩

/-- at the pinned commit the record stays ACTIVE … -/
theorem esCompute_raises_legacy (cfg : Cfg) (hc : cfg.esFailureFinishesOp = false) (st : Study) (id : Nat) :
    (esCompute cfg st id .raises).2 = st := by
  unfold esCompute
  simp [hc]

/-- … and (pinned commit: `esResumesActive = false`) an ACTIVE record answers every later check without
    consulting the algorithm, whatever the algorithm would say (`es` arbitrary): the study's early stopping
    is wedged. -/
theorem earlyStop_active_record_is_returned (cfg : Cfg) (hra : cfg.esResumesActive = false) (st : Study) (id : Nat)
    (t : Trial) (o : EsOp)
    (ht : st.findTrial id = some t) (hm : t.state.mutable = true) (ho : esOpOf st id = some o)
    (hact : o.active = true) (es : EsOutcome) :
    earlyStopBody cfg st id es = (.earlyStop o.shouldStop, st) := by
  unfold earlyStopBody
  simp [ht, hm, ho, hact, esReturnsStored, hra]

/-- when is the stored answer NOT returned: the repaired service recomputes an ACTIVE record and a stale one -/
theorem esReturnsStored_eq_false_iff (cfg : Cfg) (hra : cfg.esResumesActive = true) (o : EsOp) :
    esReturnsStored cfg o = false ↔ (o.active = true ∨ cfg.esRecycle = true) := by
  unfold esReturnsStored
  rw [hra]
  cases o.active <;> cases cfg.esRecycle <;> simp

/-- the body of a check of a mutable trial with a stored record that is not answered from the record -/
theorem earlyStopBody_recomputes (cfg : Cfg) (st : Study) (id : Nat) (t : Trial) (o : EsOp)
    (ht : st.findTrial id = some t) (hm : t.state.mutable = true) (ho : esOpOf st id = some o)
    (hns : esReturnsStored cfg o = false) (es : EsOutcome) :
    earlyStopBody cfg st id es = esCompute cfg (st.putEsOp { o with active := true, shouldStop := false }) id es := by
  unfold earlyStopBody
  simp [ht, hm, ho, hns]

/-- **the repaired service recomputes an abandoned (ACTIVE) record**, whatever the recycle period -/
theorem earlyStop_active_record_is_recomputed (cfg : Cfg) (hra : cfg.esResumesActive = true) (st : Study) (id : Nat)
    (t : Trial) (o : EsOp)
    (ht : st.findTrial id = some t) (hm : t.state.mutable = true) (ho : esOpOf st id = some o)
    (hact : o.active = true) (es : EsOutcome) :
    earlyStopBody cfg st id es = esCompute cfg (st.putEsOp { o with active := true, shouldStop := false }) id es :=
  earlyStopBody_recomputes cfg st id t o ht hm ho
    ((esReturnsStored_eq_false_iff cfg hra o).mpr (Or.inl hact)) es

end VizierModel.Svc
