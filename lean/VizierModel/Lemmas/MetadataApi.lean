import VizierModel.Model.MetadataApi
namespace VizierModel.MetadataApi

theorem find_map_set (l : List (Key × String)) (key : Key) (v : String) (q : Key) :
    ((l.map fun e => if e.1 == key then (key, v) else e).find? (·.1 == q)).map (·.2) =
      if q = key ∧ l.any (·.1 == key) then some v else (l.find? (·.1 == q)).map (·.2) := by
  induction l with
  | nil => simp
  | cons e es ih =>
    simp only [List.map_cons, List.find?_cons, List.any_cons]
    by_cases he : e.1 = key
    · have hb : (e.1 == key) = true := by simpa using he
      simp only [hb, if_true, Bool.true_or, and_true]
      by_cases hq : q = key
      · subst hq; simp [he]
      · have h1 : (key == q) = false := by simpa using fun e' : key = q => hq e'.symm
        have h2 : (e.1 == q) = false := by rw [he]; exact h1
        simp only [h1, h2, hq, false_and, if_false]
        rw [ih]; simp [hq]
    · have hb : (e.1 == key) = false := by simpa using he
      simp only [hb, Bool.false_eq_true, if_false, Bool.false_or]
      by_cases heq : (e.1 == q) = true
      · have : q ≠ key := by
          intro h; subst h; exact he (by simpa using heq)
        simp [heq, this]
      · simp only [heq]
        exact ih

/-- reading after a write: the written key has the new value, every other (namespace, key) is untouched -/
theorem get_set (t : Tree) (ns : NSp) (k v : String) (ns' : NSp) (k' : String) :
    (t.set ns k v).get ns' k' = if (ns', k') = (ns, k) then some v else t.get ns' k' := by
  unfold Tree.set Tree.get
  by_cases hany : t.items.any (·.1 == (ns, k)) = true
  · simp only [hany, if_true]
    rw [find_map_set]
    by_cases hq : (ns', k') = (ns, k)
    · simp [hq, hany]
    · simp [hq]
  · have hany' : t.items.any (·.1 == (ns, k)) = false := by
      cases h : t.items.any (·.1 == (ns, k)) with
      | true => exact absurd h hany
      | false => rfl
    simp only [hany', Bool.false_eq_true, if_false, List.find?_append]
    by_cases hq : (ns', k') = (ns, k)
    · have hnone : t.items.find? (·.1 == (ns, k)) = none := by
        rw [List.find?_eq_none]
        intro e he hb
        exact hany (List.any_eq_true.mpr ⟨e, he, hb⟩)
      rw [hq, hnone]
      simp [List.find?_cons]
    · have hb : (((ns, k) : Key) == (ns', k')) = false := by
        cases h : (((ns, k) : Key) == (ns', k')) with
        | true => exact absurd (beq_iff_eq.mp h).symm hq
        | false => rfl
      simp only [hq, if_false]
      cases hf : t.items.find? (·.1 == (ns', k')) with
      | some e => rfl
      | none => simp [List.find?_cons, hb]

/-- a whole `update` only touches the keys it lists, in the namespace it is applied to -/
theorem get_update_other (kvs : List (String × String)) : ∀ (t : Tree) (ns ns' : NSp) (k' : String),
    (ns' ≠ ns ∨ ∀ kv ∈ kvs, kv.1 ≠ k') → (t.update ns kvs).get ns' k' = t.get ns' k' := by
  induction kvs with
  | nil => intro t ns ns' k' _; rfl
  | cons kv kvs ih =>
    intro t ns ns' k' h
    unfold Tree.update
    rw [List.foldl_cons]
    have hrest : ns' ≠ ns ∨ ∀ x ∈ kvs, x.1 ≠ k' := by
      rcases h with h | h
      · exact Or.inl h
      · exact Or.inr fun x hx => h x (List.mem_cons_of_mem _ hx)
    have := ih (t.set ns kv.1 kv.2) ns ns' k' hrest
    unfold Tree.update at this
    rw [this, get_set]
    have hne : (ns', k') ≠ (ns, kv.1) := by
      intro e
      rcases h with h | h
      · exact h (congrArg Prod.fst e)
      · exact h kv (List.mem_cons_self) (congrArg Prod.snd e).symm
    simp [hne]

/-- `attach` only writes at or below the destination namespace -/
theorem get_attach_outside (other : Tree) (src dst : NSp) (ns' : NSp) (k' : String)
    (hout : ¬ dst.isPrefixOf ns' = true) (t : Tree) :
    (t.attach dst other src).get ns' k' = t.get ns' k' := by
  unfold Tree.attach
  generalize other.items.filter (src.isPrefixOf ·.1.1) = l
  induction l generalizing t with
  | nil => rfl
  | cons e es ih =>
    rw [List.foldl_cons, ih, get_set]
    have : (ns', k') ≠ (dst ++ e.1.1.drop src.length, e.1.2) := by
      intro h
      have h1 : ns' = dst ++ e.1.1.drop src.length := congrArg Prod.fst h
      apply hout
      rw [h1]
      exact List.isPrefixOf_iff_prefix.mpr (List.prefix_append _ _)
    simp [this]

end VizierModel.MetadataApi
