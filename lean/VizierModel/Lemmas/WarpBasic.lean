/-
C18 helper lemmas, part 1: the NaN-is-bottom order on `Option α`, min/max/sum of lists,
`np.unique`, `searchsorted` counts.  Carrier: any linearly ordered field.
-/
import VizierModel.Model.Warp
import Mathlib.Algebra.Order.Field.Basic
import Mathlib.Tactic.Linarith
import Mathlib.Tactic.Ring
import Mathlib.Tactic.FieldSimp
import Mathlib.Tactic.Positivity

set_option linter.unusedSectionVars false

namespace VizierModel.Warp

variable {α : Type} [Field α] [LinearOrder α] [IsStrictOrderedRing α]

@[simp] theorem zero_eq : (zero : α) = 0 := by simp [zero]
@[simp] theorem one_eq : (one : α) = 1 := by simp [one]
@[simp] theorem half_eq : (half : α) = 1 / 2 := by simp [half]

theorem eqb_iff (a b : α) : eqb a b = true ↔ a = b := by
  simp only [eqb, Bool.and_eq_true, Bool.not_eq_true', decide_eq_false_iff_not, not_lt]
  constructor
  · rintro ⟨h1, h2⟩; exact le_antisymm h2 h1
  · rintro rfl; exact ⟨le_refl _, le_refl _⟩

/-! ### the order in which NaN (an infeasible trial) is below every finite label -/

/-- `u ≤ v` with `none` (NaN) as the bottom element -/
def leO : Option α → Option α → Prop
  | none, _ => True
  | some _, none => False
  | some a, some b => a ≤ b

/-- `u < v` with `none` as the bottom element -/
def ltO : Option α → Option α → Prop
  | _, none => False
  | none, some _ => True
  | some a, some b => a < b

@[simp] theorem leO_none (v : Option α) : leO none v := by cases v <;> trivial
@[simp] theorem leO_some_none (a : α) : ¬ leO (some a) none := by simp [leO]
@[simp] theorem leO_some_some (a b : α) : leO (some a) (some b) ↔ a ≤ b := Iff.rfl
@[simp] theorem ltO_none_right (u : Option α) : ¬ ltO u none := by cases u <;> simp [ltO]
@[simp] theorem ltO_none_some (b : α) : ltO none (some b) := trivial
@[simp] theorem ltO_some_some (a b : α) : ltO (some a) (some b) ↔ a < b := Iff.rfl

theorem leO_refl (u : Option α) : leO u u := by cases u <;> simp

theorem leO_trans {u v w : Option α} (h1 : leO u v) (h2 : leO v w) : leO u w := by
  cases u <;> cases v <;> cases w <;> simp_all
  exact le_trans h1 h2

theorem leO_of_ltO {u v : Option α} (h : ltO u v) : leO u v := by
  cases u <;> cases v <;> simp_all
  exact le_of_lt h

theorem leO_iff_ltO_or_eq {u v : Option α} : leO u v ↔ ltO u v ∨ u = v := by
  cases u <;> cases v <;> simp [le_iff_lt_or_eq]

theorem not_ltO_of_leO {u v : Option α} (h : leO u v) : ¬ ltO v u := by
  cases u <;> cases v <;> simp_all

theorem leO_total (u v : Option α) : leO u v ∨ leO v u := by
  cases u <;> cases v <;> simp [le_total]

/-- a pointwise map is weakly order preserving on the entries `S` -/
def MonoOn (S : List (Option α)) (g : Option α → Option α) : Prop :=
  ∀ u ∈ S, ∀ v ∈ S, leO u v → leO (g u) (g v)

/-- a pointwise map is strictly order preserving on the entries `S` -/
def StrictOn (S : List (Option α)) (g : Option α → Option α) : Prop :=
  ∀ u ∈ S, ∀ v ∈ S, ltO u v → ltO (g u) (g v)

theorem StrictOn.mono {S : List (Option α)} {g : Option α → Option α} (h : StrictOn S g) :
    MonoOn S g := by
  intro u hu v hv huv
  rcases leO_iff_ltO_or_eq.mp huv with h1 | rfl
  · exact leO_of_ltO (h u hu v hv h1)
  · exact leO_refl _

theorem StrictOn.iff {S : List (Option α)} {g : Option α → Option α} (h : StrictOn S g)
    {u v : Option α} (hu : u ∈ S) (hv : v ∈ S) : ltO (g u) (g v) ↔ ltO u v := by
  constructor
  · intro hg
    by_contra hn
    have : leO v u := by
      rcases leO_total u v with h1 | h1
      · rcases leO_iff_ltO_or_eq.mp h1 with h2 | rfl
        · exact absurd h2 hn
        · exact leO_refl _
      · exact h1
    exact not_ltO_of_leO (h.mono v hv u hu this) hg
  · exact h u hu v hv

/-! ### finite entries -/

theorem mem_fins {l : List (Option α)} {x : α} : x ∈ fins l ↔ some x ∈ l := by
  simp [fins, List.mem_filterMap]

theorem fins_map_some_getD (l : List (Option α)) (g : Option α → Option α)
    (hg : ∀ u ∈ l, (g u).isSome = u.isSome) :
    (fins (l.map g)).length = (fins l).length := by
  induction l with
  | nil => rfl
  | cons a t ih =>
    have ht : ∀ u ∈ t, (g u).isSome = u.isSome := fun u hu => hg u (List.mem_cons_of_mem _ hu)
    have ha := hg a List.mem_cons_self
    cases a with
    | none =>
      cases hga : g none with
      | none => simpa [fins, List.filterMap_cons, hga] using ih ht
      | some b => simp [hga] at ha
    | some x =>
      cases hga : g (some x) with
      | none => simp [hga] at ha
      | some b => simpa [fins, List.filterMap_cons, hga] using ih ht

/-! ### `np.nanmin` / `np.nanmax` -/

theorem lmin_eq_none {l : List α} : lmin l = none ↔ l = [] := by
  cases l with
  | nil => simp [lmin]
  | cons x xs => cases h : lmin xs <;> simp [lmin, h]

theorem lmax_eq_none {l : List α} : lmax l = none ↔ l = [] := by
  cases l with
  | nil => simp [lmax]
  | cons x xs => cases h : lmax xs <;> simp [lmax, h]

theorem lmin_spec {l : List α} {m : α} (h : lmin l = some m) : m ∈ l ∧ ∀ x ∈ l, m ≤ x := by
  induction l generalizing m with
  | nil => simp [lmin] at h
  | cons a t ih =>
    cases ht : lmin t with
    | none =>
      have : t = [] := lmin_eq_none.mp ht
      subst this
      simp [lmin] at h
      subst h
      simp
    | some m' =>
      simp only [lmin, ht, Option.some.injEq] at h
      obtain ⟨hm, hle⟩ := ih ht
      by_cases c : a < m'
      · rw [if_pos c] at h; subst h
        refine ⟨List.mem_cons_self, ?_⟩
        intro x hx
        rcases List.mem_cons.mp hx with rfl | hx
        · exact le_refl _
        · exact le_trans (le_of_lt c) (hle x hx)
      · rw [if_neg c] at h; subst h
        refine ⟨List.mem_cons_of_mem _ hm, ?_⟩
        intro x hx
        rcases List.mem_cons.mp hx with rfl | hx
        · exact not_lt.mp c
        · exact hle x hx

theorem lmax_spec {l : List α} {m : α} (h : lmax l = some m) : m ∈ l ∧ ∀ x ∈ l, x ≤ m := by
  induction l generalizing m with
  | nil => simp [lmax] at h
  | cons a t ih =>
    cases ht : lmax t with
    | none =>
      have : t = [] := lmax_eq_none.mp ht
      subst this
      simp [lmax] at h
      subst h
      simp
    | some m' =>
      simp only [lmax, ht, Option.some.injEq] at h
      obtain ⟨hm, hle⟩ := ih ht
      by_cases c : m' < a
      · rw [if_pos c] at h; subst h
        refine ⟨List.mem_cons_self, ?_⟩
        intro x hx
        rcases List.mem_cons.mp hx with rfl | hx
        · exact le_refl _
        · exact le_trans (hle x hx) (le_of_lt c)
      · rw [if_neg c] at h; subst h
        refine ⟨List.mem_cons_of_mem _ hm, ?_⟩
        intro x hx
        rcases List.mem_cons.mp hx with rfl | hx
        · exact not_lt.mp c
        · exact hle x hx

theorem lmin_le_lmax {l : List α} {mn mx : α} (h1 : lmin l = some mn) (h2 : lmax l = some mx) :
    mn ≤ mx := (lmin_spec h1).2 mx (lmax_spec h2).1

theorem lmin_lmax_cases (l : List α) :
    (l = [] ∧ lmin l = none ∧ lmax l = none) ∨ ∃ mn mx, lmin l = some mn ∧ lmax l = some mx := by
  cases l with
  | nil => left; simp [lmin, lmax]
  | cons a t =>
    right
    cases h1 : lmin (a :: t) with
    | none => exact absurd (lmin_eq_none.mp h1) (by simp)
    | some mn =>
      cases h2 : lmax (a :: t) with
      | none => exact absurd (lmax_eq_none.mp h2) (by simp)
      | some mx => exact ⟨mn, mx, rfl, rfl⟩

/-- two distinct finite labels separate min and max -/
theorem lmin_lt_lmax_of_lt {l : List α} {mn mx x y : α} (h1 : lmin l = some mn)
    (h2 : lmax l = some mx) (hx : x ∈ l) (hy : y ∈ l) (hxy : x < y) : mn < mx :=
  lt_of_le_of_lt ((lmin_spec h1).2 x hx) (lt_of_lt_of_le hxy ((lmax_spec h2).2 y hy))

/-- if min and max coincide all labels are equal -/
theorem eq_of_not_lmin_lt_lmax {l : List α} {mn mx x y : α} (h1 : lmin l = some mn)
    (h2 : lmax l = some mx) (h : ¬ mn < mx) (hx : x ∈ l) (hy : y ∈ l) : x = y := by
  have e : mn = mx := le_antisymm (lmin_le_lmax h1 h2) (not_lt.mp h)
  have hx1 := (lmin_spec h1).2 x hx
  have hx2 := (lmax_spec h2).2 x hx
  have hy1 := (lmin_spec h1).2 y hy
  have hy2 := (lmax_spec h2).2 y hy
  subst e
  exact (le_antisymm hx2 hx1).trans (le_antisymm hy1 hy2)

/-! ### sums -/

@[simp] theorem sum_nil : sum ([] : List α) = 0 := by simp [sum]
@[simp] theorem sum_cons (a : α) (t : List α) : sum (a :: t) = a + sum t := by simp [sum]

theorem sum_nonneg {l : List α} (h : ∀ x ∈ l, 0 ≤ x) : 0 ≤ sum l := by
  induction l with
  | nil => simp
  | cons a t ih =>
    rw [sum_cons]
    exact add_nonneg (h a List.mem_cons_self) (ih fun x hx => h x (List.mem_cons_of_mem _ hx))

theorem sum_pos_of_mem {l : List α} (h : ∀ x ∈ l, 0 ≤ x) {y : α} (hy : y ∈ l) (hpos : 0 < y) :
    0 < sum l := by
  induction l with
  | nil => simp at hy
  | cons a t ih =>
    rw [sum_cons]
    have ht : ∀ x ∈ t, 0 ≤ x := fun x hx => h x (List.mem_cons_of_mem _ hx)
    rcases List.mem_cons.mp hy with rfl | hy'
    · exact add_pos_of_pos_of_nonneg hpos (sum_nonneg ht)
    · exact add_pos_of_nonneg_of_pos (h a List.mem_cons_self) (ih ht hy')

theorem sq_nonneg' (x : α) : 0 ≤ sq x := by unfold sq; exact mul_self_nonneg x

theorem sum_sq_pos {u : List α} {t x : α} (hx : x ∈ u) (hne : x ≠ t) :
    0 < sum (u.map fun v => sq (v - t)) := by
  apply sum_pos_of_mem (y := sq (x - t))
  · intro y hy
    obtain ⟨v, _, rfl⟩ := List.mem_map.mp hy
    exact sq_nonneg' _
  · exact List.mem_map.mpr ⟨x, hx, rfl⟩
  · unfold sq
    exact mul_self_pos.mpr (sub_ne_zero.mpr hne)

/-! ### `np.unique` and `searchsorted` -/

theorem mem_insertUniq {a x : α} {l : List α} : x ∈ insertUniq a l ↔ x = a ∨ x ∈ l := by
  induction l with
  | nil => simp [insertUniq]
  | cons b bs ih =>
    unfold insertUniq
    by_cases h1 : a < b
    · simp [h1]
    · by_cases h2 : b < a
      · simp only [h1, h2, if_false, if_true, List.mem_cons, ih]
        tauto
      · have e : a = b := le_antisymm (not_lt.mp h2) (not_lt.mp h1)
        simp only [h1, h2, if_false, List.mem_cons]
        subst e
        tauto

theorem mem_unique {x : α} {l : List α} : x ∈ unique l ↔ x ∈ l := by
  induction l with
  | nil => simp [unique]
  | cons a t ih =>
    have : unique (a :: t) = insertUniq a (unique t) := rfl
    rw [this, mem_insertUniq, ih, List.mem_cons]

theorem unique_eq_nil {l : List α} : unique l = [] ↔ l = [] := by
  constructor
  · intro h
    cases l with
    | nil => rfl
    | cons a t =>
      have : a ∈ unique (a :: t) := mem_unique.mpr List.mem_cons_self
      rw [h] at this
      simp at this
  · rintro rfl; rfl

/-- the number of entries below `x` is monotone in `x` -/
theorem countLt_mono (u : List α) {x y : α} (h : x ≤ y) : countLt u x ≤ countLt u y := by
  unfold countLt
  induction u with
  | nil => simp
  | cons a t ih =>
    simp only [List.filter_cons]
    by_cases h1 : a < x
    · have h2 : a < y := lt_of_lt_of_le h1 h
      simpa [h1, h2] using ih
    · by_cases h2 : a < y
      · simp only [h1, h2, decide_false, decide_true, if_true, List.length_cons]
        exact Nat.le_succ_of_le ih
      · simpa [h1, h2] using ih

/-- … and strictly so across a member of the list: dense ranks of distinct observed labels
are distinct and ordered like the labels -/
theorem countLt_lt (u : List α) {x y : α} (hx : x ∈ u) (h : x < y) :
    countLt u x < countLt u y := by
  unfold countLt
  induction u with
  | nil => simp at hx
  | cons a t ih =>
    simp only [List.filter_cons]
    rcases List.mem_cons.mp hx with rfl | hx'
    · have h1 : ¬ x < x := lt_irrefl x
      have := countLt_mono t (le_of_lt h)
      unfold countLt at this
      simp only [h1, h, decide_false, decide_true, if_true, List.length_cons]
      exact Nat.lt_succ_of_le this
    · by_cases h1 : a < x
      · have h2 : a < y := lt_trans h1 h
        simpa [h1, h2] using ih hx'
      · by_cases h2 : a < y
        · simp only [h1, h2, decide_false, decide_true, if_true, List.length_cons]
          exact Nat.lt_succ_of_lt (ih hx')
        · simpa [h1, h2] using ih hx'

theorem countLt_le_length (u : List α) (x : α) : countLt u x ≤ u.length := by
  unfold countLt; exact List.length_filter_le _ _

/-! ### index access through a pointwise map -/

theorem getElem?_map_of {l : List (Option α)} {g : Option α → Option α} {i : Nat} {u : Option α}
    (h : l[i]? = some u) : (l.map g)[i]? = some (g u) := by
  simp [List.getElem?_map, h]

theorem mem_of_getElem? {β : Type} {l : List β} {i : Nat} {u : β} (h : l[i]? = some u) : u ∈ l :=
  List.mem_of_getElem? h

end VizierModel.Warp
