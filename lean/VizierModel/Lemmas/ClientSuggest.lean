/-
Client layer, part 2: what `SuggestTrials` STORES for the trials it hands out (they are recorded
ACTIVE for the asking worker), and that a worker assignment is stable while the trial exists.
-/
import VizierModel.Lemmas.Client

namespace VizierModel.Client
open VizierModel VizierModel.Svc

/-- in the trial list `cur`, `id` denotes a trial that is ACTIVE for worker `w` -/
def HeldBy (w : String) (cur : List Trial) (id : Nat) : Prop :=
  ∃ t' ∈ cur, t'.id = id ∧ t'.state = .active ∧ t'.client = w

theorem HeldBy.md {w : String} {cur : List Trial} {id : Nat} (h : HeldBy w cur id) (f : Trial → Trial)
    (hf : ∀ y, ∃ m, f y = { y with md := m }) : HeldBy w (cur.map f) id := by
  obtain ⟨t', ht', hid, hs, hc⟩ := h
  obtain ⟨m, hm⟩ := hf t'
  refine ⟨f t', List.mem_map_of_mem ht', ?_, ?_, ?_⟩ <;> rw [hm] <;> assumption

theorem HeldBy.append {w : String} {cur : List Trial} {id : Nat} (h : HeldBy w cur id) (new : List Trial) :
    HeldBy w (cur ++ new) id := by
  obtain ⟨t', ht', hid, hs, hc⟩ := h
  exact ⟨t', List.mem_append_left _ ht', hid, hs, hc⟩

theorem HeldBy.put {w : String} {cur : List Trial} {id : Nat} (h : HeldBy w cur id) {a : Trial}
    (ha : a.state = .active ∧ a.client = w) : HeldBy w (cur.map fun y => if y.id == a.id then a else y) id := by
  obtain ⟨t', ht', hid, hs, hc⟩ := h
  by_cases e : t'.id = a.id
  · exact ⟨a, List.mem_map.mpr ⟨t', ht', by simp [e]⟩, e ▸ hid, ha.1, ha.2⟩
  · exact ⟨t', List.mem_map.mpr ⟨t', ht', by simp [e]⟩, hid, hs, hc⟩

theorem putTrial_trials (st : Study) (a : Trial) :
    (st.putTrial a).trials = st.trials.map fun y => if y.id == a.id then a else y := rfl

theorem foldl_putTrial_held (w : String) (as : List Trial) (st : Study)
    (has : ∀ a ∈ as, a.state = .active ∧ a.client = w ∧ ∃ y ∈ st.trials, y.id = a.id) :
    (∀ id, HeldBy w st.trials id → HeldBy w (as.foldl Study.putTrial st).trials id) ∧
    (∀ a ∈ as, HeldBy w (as.foldl Study.putTrial st).trials a.id) := by
  induction as generalizing st with
  | nil => exact ⟨fun _ h => h, fun a ha => by cases ha⟩
  | cons a as ih =>
    obtain ⟨hact, hcl, y0, hy0, hy0id⟩ := has a List.mem_cons_self
    have has' : ∀ b ∈ as, b.state = .active ∧ b.client = w ∧ ∃ y ∈ (st.putTrial a).trials, y.id = b.id := by
      intro b hb
      obtain ⟨h1, h2, y, hy, hyid⟩ := has b (List.mem_cons_of_mem _ hb)
      refine ⟨h1, h2, (if y.id == a.id then a else y), ?_, ?_⟩
      · rw [putTrial_trials]; exact List.mem_map.mpr ⟨y, hy, rfl⟩
      · by_cases e : y.id = a.id
        · simp [e]; exact e ▸ hyid
        · simp [e]; exact hyid
    obtain ⟨ih1, ih2⟩ := ih (st.putTrial a) has'
    rw [List.foldl_cons]
    constructor
    · intro id hid
      apply ih1
      rw [putTrial_trials]
      exact hid.put ⟨hact, hcl⟩
    · intro b hb
      rcases List.mem_cons.mp hb with rfl | hb'
      · apply ih1
        rw [putTrial_trials]
        exact ⟨b, List.mem_map.mpr ⟨y0, hy0, by simp [hy0id]⟩, rfl, hact, hcl⟩
      · exact ih2 b hb'

/-- **what is handed out is what is stored**: with no unfinished operation of the asking worker,
    every trial in the answer of `SuggestTrials` is, in the datastore after the call, ACTIVE and
    assigned to that worker — whatever the algorithm answered -/
theorem suggestBody_handed_stored (cfg : Cfg) (hc : cfg.shortDeliveryOk = true) (hc2 : cfg.suggestCatchesAll = true)
    (st : Study) (w : String) (n : Nat) (alg : AlgOutcome) (hdone : PendingFree st) :
    ∀ t ∈ (suggestBody cfg st w n alg).1.handed, HeldBy w (suggestBody cfg st w n alg).2.trials t.id := by
  have hown : ∀ t ∈ ownActive st w, HeldBy w st.trials t.id := by
    intro t ht
    have hm := List.mem_filter.mp ht
    have h2 : t.state = .active ∧ t.client = w := by simpa using hm.2
    exact ⟨t, hm.1, rfl, h2.1, h2.2⟩
  have hassigned : ∀ k, ∀ a ∈ assignRequested w k (pool st),
      a.state = .active ∧ a.client = w ∧ ∃ y ∈ st.trials, y.id = a.id := by
    intro k a ha
    obtain ⟨t0, ht0, rfl⟩ := assignRequested_spec w k (pool st) a ha
    exact ⟨rfl, rfl, t0, (List.mem_filter.mp ht0).1, rfl⟩
  rw [suggestBody_of_free _ _ _ _ _ (pendingFree_find st hdone w)]
  unfold suggestRest
  simp only []
  have e1 : (List.filter (fun t => t.state == TState.active && t.client == w) st.trials) = ownActive st w := rfl
  have e2 : (List.filter (fun x => x.state == TState.requested) st.trials) = pool st := rfl
  simp only [e1, e2]
  split
  · intro t ht
    exact hown t (List.mem_of_mem_take ht)
  · -- the queue stage
    have hfold := foldl_putTrial_held w (assignRequested w (n - (ownActive st w).length) (pool st))
      { st with sugOps := st.sugOps ++ [{ client := w, num := (opsOf st w).length + 1, done := false, result := .none }] }
      (hassigned _)
    have hout : ∀ t ∈ ownActive st w ++ assignRequested w (n - (ownActive st w).length) (pool st),
        HeldBy w ((assignRequested w (n - (ownActive st w).length) (pool st)).foldl Study.putTrial
          { st with sugOps := st.sugOps ++ [{ client := w, num := (opsOf st w).length + 1, done := false, result := .none }] }).trials t.id := by
      intro t ht
      rcases List.mem_append.mp ht with h | h
      · exact hfold.1 _ (hown t h)
      · exact hfold.2 t h
    split
    · exact hout
    · -- the algorithm stage
      unfold pythiaStage
      split
      · intro t ht; cases ht
      · simp only [hc2, if_true]; intro t ht; cases ht
      · rename_i sugg delta
        simp only
        split
        · intro t ht; cases ht
        · generalize hS : (List.foldl Study.putTrial
              { st with sugOps := st.sugOps ++ [{ client := w, num := (opsOf st w).length + 1, done := false, result := .none }] }
              (assignRequested w (n - (ownActive st w).length) (pool st))) = S at hout ⊢
          obtain ⟨f, hf, hmd⟩ := updateMetadata_trials cfg S delta
          rw [createStage_handed cfg hc]
          unfold createStage
          simp only [hc, Bool.not_true, Bool.and_false]
          intro t ht
          show HeldBy w (((S.updateMetadata cfg delta).2.trials ++ _) ++ _) t.id
          rcases List.mem_append.mp ht with h | h
          · apply HeldBy.append
            apply HeldBy.append
            rw [hf]
            exact (hout t h).md f hmd
          · apply HeldBy.append
            have := takeFromEnd_active w _ _ _ t h
            exact ⟨t, List.mem_append_right _ h, rfl, this.1, this.2⟩

end VizierModel.Client
