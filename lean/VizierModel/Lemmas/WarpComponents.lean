/-
C18 helper lemmas, part 2: every warper component is "context, then a pointwise map that is
order preserving on the entries of the array" — weakly for all of them, strictly (and finite
to finite) for half-rank (documented ranks), log (two distinct labels) and infeasible.
-/
import VizierModel.Lemmas.WarpBasic

set_option linter.unusedSectionVars false

namespace VizierModel.Warp

variable {α : Type} [Field α] [LinearOrder α] [IsStrictOrderedRing α]

/-- what is assumed of the library functions -/
structure FnsOK (F : Fns α) : Prop where
  /-- Φ⁻¹ is strictly increasing on (0, ½) -/
  ppf_strict : ∀ p q, 0 < p → p < q → q < 1 / 2 → F.ppf p < F.ppf q
  /-- Φ⁻¹ is negative on (0, ½) -/
  ppf_neg : ∀ q, 0 < q → q < 1 / 2 → F.ppf q < 0
  sqrt_nonneg : ∀ x, 0 ≤ x → 0 ≤ F.sqrt x
  sqrt_pos : ∀ x, 0 < x → 0 < F.sqrt x
  /-- log1p is strictly increasing on [0, ∞) -/
  log1p_strict : ∀ x y, 0 ≤ x → x < y → F.log1p x < F.log1p y
  exp_log1p : ∀ x, 0 ≤ x → F.exp (F.log1p x) = 1 + x
  /-- SoftClip then the normal quantile: (weakly) increasing -/
  gauss_mono : ∀ x y, x ≤ y → F.gauss x ≤ F.gauss y

/-- the log warper's `offset` (default 1.5): `offset > 1`, hence `log offset > 0` -/
structure OffsetOK (F : Fns α) (o : α) : Prop where
  one_lt : 1 < o
  log_pos : 0 < F.log o

/-- `out` is a pointwise image of `l` by a map that is weakly order preserving on the entries -/
def PtMono (l out : List (Option α)) : Prop :=
  ∃ g : Option α → Option α, out = l.map g ∧ MonoOn l g

/-- … strictly order preserving, finite labels stay finite -/
def PtStrict (l out : List (Option α)) : Prop :=
  ∃ g : Option α → Option α, out = l.map g ∧ StrictOn l g ∧ ∀ x, some x ∈ l → (g (some x)).isSome

theorem PtStrict.ptMono {l out : List (Option α)} (h : PtStrict l out) : PtMono l out := by
  obtain ⟨g, e, s, _⟩ := h
  exact ⟨g, e, s.mono⟩

theorem ptMono_id (l : List (Option α)) : PtMono l l :=
  ⟨id, by simp, fun _ _ _ _ h => h⟩

theorem ptStrict_id (l : List (Option α)) : PtStrict l l :=
  ⟨id, by simp, fun _ _ _ _ h => h, fun x _ => by simp⟩

theorem PtMono.comp {l m o : List (Option α)} (h1 : PtMono l m) (h2 : PtMono m o) : PtMono l o := by
  obtain ⟨g1, e1, m1⟩ := h1
  obtain ⟨g2, e2, m2⟩ := h2
  refine ⟨g2 ∘ g1, ?_, ?_⟩
  · rw [e2, e1, List.map_map]
  · intro u hu v hv huv
    rw [e1] at m2
    exact m2 (g1 u) (List.mem_map_of_mem hu) (g1 v) (List.mem_map_of_mem hv) (m1 u hu v hv huv)

theorem PtStrict.comp {l m o : List (Option α)} (h1 : PtStrict l m) (h2 : PtStrict m o) :
    PtStrict l o := by
  obtain ⟨g1, e1, m1, f1⟩ := h1
  obtain ⟨g2, e2, m2, f2⟩ := h2
  refine ⟨g2 ∘ g1, ?_, ?_, ?_⟩
  · rw [e2, e1, List.map_map]
  · intro u hu v hv huv
    rw [e1] at m2
    exact m2 (g1 u) (List.mem_map_of_mem hu) (g1 v) (List.mem_map_of_mem hv) (m1 u hu v hv huv)
  · intro x hx
    have hs := f1 x hx
    obtain ⟨a, ha⟩ := Option.isSome_iff_exists.mp hs
    have : some a ∈ m := by rw [e1, ← ha]; exact List.mem_map_of_mem hx
    simpa [Function.comp, ha] using f2 a this

/-! ### InfeasibleWarperComponent -/

theorem inf_bad_lt {l : List (Option α)} {mn mx : α} (hle : mn ≤ mx) :
    (infCtx l mn mx).bad < mn := by
  simp only [infCtx, half_eq, one_eq]
  have : 0 ≤ mx - mn := sub_nonneg.mpr hle
  linarith

theorem infeasible_strictOn {l : List (Option α)} {mn mx : α} (h1 : lmin (fins l) = some mn)
    (h2 : lmax (fins l) = some mx) : StrictOn l (infPt (infCtx l mn mx)) := by
  intro u hu v hv huv
  have hbad := inf_bad_lt (l := l) (lmin_le_lmax h1 h2)
  cases u with
  | none =>
    cases v with
    | none => simp at huv
    | some b =>
      have hb : mn ≤ b := (lmin_spec h1).2 b (mem_fins.mpr hv)
      simp only [infPt, ltO_some_some]
      linarith
  | some a =>
    cases v with
    | none => simp at huv
    | some b =>
      simp only [ltO_some_some] at huv
      simp only [infPt, ltO_some_some]
      linarith

/-- the infeasible warper: strictly order preserving, every output finite -/
theorem infeasible_ptStrict (l : List (Option α)) : PtStrict l (infeasible l) := by
  rcases lmin_lmax_cases (fins l) with ⟨he, h1, h2⟩ | ⟨mn, mx, h1, h2⟩
  · refine ⟨fun _ => some zero, by simp [infeasible, h1, h2], ?_, by simp⟩
    intro u hu v hv huv
    cases v with
    | none => simp at huv
    | some b =>
      have : b ∈ fins l := mem_fins.mpr hv
      rw [he] at this
      simp at this
  · refine ⟨infPt (infCtx l mn mx), by simp [infeasible, h1, h2], infeasible_strictOn h1 h2, ?_⟩
    intro x _
    simp [infPt]

theorem infeasible_all_some (l : List (Option α)) : ∀ o ∈ infeasible l, o.isSome := by
  rcases lmin_lmax_cases (fins l) with ⟨_, h1, h2⟩ | ⟨mn, mx, h1, h2⟩
  · simp [infeasible, h1, h2]
  · intro o ho
    simp only [infeasible, h1, h2, List.mem_map] at ho
    obtain ⟨u, _, rfl⟩ := ho
    cases u <;> simp [infPt]

/-! ### LogWarperComponent -/

theorem log_strict_pt {F : Fns α} (hF : FnsOK F) {o : α} (ho : OffsetOK F o) {mn mx x y : α}
    (hmm : mn < mx) (hy : y ≤ mx) (hxy : x < y) :
    half - F.log1p ((mx - x) / (mx - mn) * (o - one)) / F.log o
      < half - F.log1p ((mx - y) / (mx - mn) * (o - one)) / F.log o := by
  have hr : 0 < mx - mn := sub_pos.mpr hmm
  have ho1 : 0 < o - 1 := sub_pos.mpr ho.one_lt
  have h0 : 0 ≤ (mx - y) / (mx - mn) * (o - one) := by
    rw [one_eq]
    exact mul_nonneg (div_nonneg (sub_nonneg.mpr hy) (le_of_lt hr)) (le_of_lt ho1)
  have h1 : (mx - y) / (mx - mn) * (o - one) < (mx - x) / (mx - mn) * (o - one) := by
    rw [one_eq]
    apply mul_lt_mul_of_pos_right _ ho1
    apply div_lt_div_of_pos_right _ hr
    linarith
  have h2 := hF.log1p_strict _ _ h0 h1
  have h3 := div_lt_div_of_pos_right h2 ho.log_pos
  linarith

theorem log_ptStrict {F : Fns α} (hF : FnsOK F) {o : α} (ho : OffsetOK F o) {l : List (Option α)}
    {mn mx : α} (h1 : lmin (fins l) = some mn) (h2 : lmax (fins l) = some mx) (hmm : mn < mx) :
    PtStrict l (logWarp F o l) := by
  refine ⟨logPt F o mn mx, by simp [logWarp, h1, h2], ?_, ?_⟩
  · intro u hu v hv huv
    cases v with
    | none => simp at huv
    | some b =>
      cases u with
      | none => simp [logPt, hmm]
      | some a =>
        simp only [ltO_some_some] at huv
        simp only [logPt, hmm, if_true, ltO_some_some]
        exact log_strict_pt hF ho hmm ((lmax_spec h2).2 b (mem_fins.mpr hv)) huv
  · intro x _
    simp [logPt, hmm]

theorem log_ptMono {F : Fns α} (hF : FnsOK F) {o : α} (ho : OffsetOK F o) (l : List (Option α)) :
    PtMono l (logWarp F o l) := by
  rcases lmin_lmax_cases (fins l) with ⟨_, h1, h2⟩ | ⟨mn, mx, h1, h2⟩
  · simpa [logWarp, h1, h2] using ptMono_id l
  · by_cases hmm : mn < mx
    · exact (log_ptStrict hF ho h1 h2 hmm).ptMono
    · refine ⟨logPt F o mn mx, by simp [logWarp, h1, h2], ?_⟩
      intro u _ v _ huv
      cases u with
      | none => simp [logPt]
      | some a =>
        cases v with
        | none => simp at huv
        | some b => simp [logPt, hmm]

/-- all finite labels equal (max = min): every finite entry goes to the middle of the range, a missing entry stays
missing (the repaired `norm_diff = 0` branch; the pinned commit computed `0/0` here) -/
theorem log_all_const {F : Fns α} {o : α} {l : List (Option α)}
    (hall : ∀ x ∈ fins l, ∀ y ∈ fins l, x = y) :
    logWarp F o l = l.map (fun u => u.map fun _ => half) := by
  rcases lmin_lmax_cases (fins l) with ⟨he, h1, h2⟩ | ⟨mn, mx, h1, h2⟩
  · simp only [logWarp, h1, h2]
    have hn : ∀ u ∈ l, u = none := by
      intro u hu
      cases u with
      | none => rfl
      | some a =>
        have : a ∈ fins l := mem_fins.mpr hu
        rw [he] at this
        simp at this
    calc l = l.map id := by simp
      _ = l.map (fun u => u.map fun _ => half) := by
        apply List.map_congr_left
        intro u hu
        rw [hn u hu]; rfl
  · have e : mn = mx := hall mn (lmin_spec h1).1 mx (lmax_spec h2).1
    simp only [logWarp, h1, h2]
    apply List.map_congr_left
    intro v _
    cases v <;> simp [logPt, e]

/-! ### HalfRankComponent -/

theorem denseRank_le_idx {u : List α} {y med : α} (hy : y ∈ u) (hlt : y < med) :
    denseRank u y ≤ countLt u med := countLt_lt u hy hlt

theorem hr_q_bounds {u : List α} {med den y : α} (hy : y ∈ u) (hlt : y < med)
    (hden : ((countLt u med : Nat) : α) ≤ den) :
    0 < half * (((denseRank u y : Nat) : α) - half) / den ∧
      half * (((denseRank u y : Nat) : α) - half) / den < 1 / 2 := by
  have hr : ((denseRank u y : Nat) : α) ≤ ((countLt u med : Nat) : α) :=
    Nat.cast_le.mpr (denseRank_le_idx hy hlt)
  have hr1 : (1 : α) ≤ ((denseRank u y : Nat) : α) := by
    have : 1 ≤ denseRank u y := Nat.succ_le_succ (Nat.zero_le _)
    exact_mod_cast this
  have hdpos : 0 < den := by linarith
  rw [half_eq]
  constructor
  · apply div_pos _ hdpos
    apply mul_pos (by norm_num)
    linarith
  · rw [div_lt_iff₀ hdpos]
    linarith

theorem hr_q_lt {u : List α} {med den x y : α} (hx : x ∈ u) (hxy : x < y)
    (hden : 0 < den) :
    half * (((denseRank u x : Nat) : α) - half) / den
      < half * (((denseRank u y : Nat) : α) - half) / den := by
  have hr : ((denseRank u x : Nat) : α) < ((denseRank u y : Nat) : α) := by
    have : denseRank u x < denseRank u y := Nat.succ_lt_succ (countLt_lt u hx hxy)
    exact_mod_cast this
  rw [half_eq]
  apply div_lt_div_of_pos_right _ hden
  linarith

/-- what the order proofs need to know about a half-rank context -/
structure HRCtxOK (c : HRCtx α) : Prop where
  den_ge : ((countLt c.u c.med : Nat) : α) ≤ c.den
  sd_nonneg : 0 ≤ c.sd

theorem hr_below_le {F : Fns α} (hF : FnsOK F) {c : HRCtx α} (hc : HRCtxOK c) {y : α}
    (hy : y ∈ c.u) (hlt : y < c.med) :
    F.ppf (half * (((denseRank c.u y : Nat) : α) - half) / c.den) * c.sd + c.med ≤ c.med := by
  obtain ⟨q0, q1⟩ := hr_q_bounds hy hlt hc.den_ge
  have := hF.ppf_neg _ q0 q1
  have : F.ppf (half * (((denseRank c.u y : Nat) : α) - half) / c.den) * c.sd ≤ 0 :=
    mul_nonpos_of_nonpos_of_nonneg (le_of_lt this) hc.sd_nonneg
  linarith

theorem hr_below_lt {F : Fns α} (hF : FnsOK F) {c : HRCtx α} (hc : HRCtxOK c) (hsd : 0 < c.sd)
    {y : α} (hy : y ∈ c.u) (hlt : y < c.med) :
    F.ppf (half * (((denseRank c.u y : Nat) : α) - half) / c.den) * c.sd + c.med < c.med := by
  obtain ⟨q0, q1⟩ := hr_q_bounds hy hlt hc.den_ge
  have := hF.ppf_neg _ q0 q1
  have : F.ppf (half * (((denseRank c.u y : Nat) : α) - half) / c.den) * c.sd < 0 :=
    mul_neg_of_neg_of_pos this hsd
  linarith

theorem hr_below_below_lt {F : Fns α} (hF : FnsOK F) {c : HRCtx α} (hc : HRCtxOK c) {x y : α}
    (hx : x ∈ c.u) (hy : y ∈ c.u) (hxy : x < y) (hlt : y < c.med) :
    F.ppf (half * (((denseRank c.u x : Nat) : α) - half) / c.den)
      < F.ppf (half * (((denseRank c.u y : Nat) : α) - half) / c.den) := by
  obtain ⟨qx0, _⟩ := hr_q_bounds hx (lt_trans hxy hlt) hc.den_ge
  obtain ⟨qy0, qy1⟩ := hr_q_bounds hy hlt hc.den_ge
  have hdpos : 0 < c.den := by
    have hr1 : (1 : α) ≤ ((denseRank c.u y : Nat) : α) := by
      have : 1 ≤ denseRank c.u y := Nat.succ_le_succ (Nat.zero_le _)
      exact_mod_cast this
    have hr : ((denseRank c.u y : Nat) : α) ≤ ((countLt c.u c.med : Nat) : α) :=
      Nat.cast_le.mpr (denseRank_le_idx hy hlt)
    linarith [hc.den_ge]
  exact hF.ppf_strict _ _ qx0 (hr_q_lt (med := c.med) hx hxy hdpos) qy1

/-- weak monotonicity of the half-rank map on observed labels — for the documented ranks
*and* for the NaN-propagating ranks of the code as written (NaN is the bottom element) -/
theorem hrPt_monoOn {F : Fns α} (hF : FnsOK F) {c : HRCtx α} (hc : HRCtxOK c)
    {S : List (Option α)} (hS : ∀ x, some x ∈ S → x ∈ c.u) : MonoOn S (hrPt F c) := by
  intro u hu v hv huv
  cases u with
  | none => simp [hrPt]
  | some a =>
    cases v with
    | none => simp at huv
    | some b =>
      simp only [leO_some_some] at huv
      have ha := hS a hu
      have hb := hS b hv
      simp only [hrPt]
      by_cases h1 : a < c.med
      · by_cases hn : c.ranksNan = true
        · simp [h1, hn]
        · have hn' : c.ranksNan = false := by simpa using hn
          by_cases h2 : b < c.med
          · simp only [h1, h2, hn', if_true, Bool.false_eq_true, if_false, leO_some_some]
            rcases lt_or_eq_of_le huv with hlt | rfl
            · have := hr_below_below_lt hF hc ha hb hlt h2
              have := mul_le_mul_of_nonneg_right (le_of_lt this) hc.sd_nonneg
              linarith
            · exact le_refl _
          · simp only [h1, h2, hn', if_true, Bool.false_eq_true, if_false, leO_some_some]
            exact le_trans (hr_below_le hF hc ha h1) (not_lt.mp h2)
      · have h2 : ¬ b < c.med := fun h => h1 (lt_of_le_of_lt huv h)
        simp [h1, h2, huv]

/-- strict monotonicity with the documented ranks, given σ > 0 whenever a label lies below
the median -/
theorem hrPt_strictOn {F : Fns α} (hF : FnsOK F) {c : HRCtx α} (hc : HRCtxOK c)
    (hn : c.ranksNan = false) (hsd : ∀ x ∈ c.u, x < c.med → 0 < c.sd)
    {S : List (Option α)} (hS : ∀ x, some x ∈ S → x ∈ c.u) : StrictOn S (hrPt F c) := by
  intro u hu v hv huv
  cases v with
  | none => simp at huv
  | some b =>
    have hb := hS b hv
    cases u with
    | none =>
      simp only [hrPt]
      by_cases h2 : b < c.med <;> simp [h2, hn]
    | some a =>
      simp only [ltO_some_some] at huv
      have ha := hS a hu
      simp only [hrPt]
      by_cases h1 : a < c.med
      · have hpos := hsd a ha h1
        by_cases h2 : b < c.med
        · simp only [h1, h2, hn, if_true, ltO_some_some]
          have := hr_below_below_lt hF hc ha hb huv h2
          have := mul_lt_mul_of_pos_right this hpos
          simpa using this
        · simp only [h1, h2, hn, if_true, if_false, ltO_some_some]
          exact lt_of_lt_of_le (hr_below_lt hF hc hpos ha h1) (not_lt.mp h2)
      · have h2 : ¬ b < c.med := fun h => h1 (lt_trans huv h)
        simp [h1, h2, huv]

theorem hrPt_isSome {F : Fns α} {c : HRCtx α} (hn : c.ranksNan = false) (x : α) :
    (hrPt F c (some x)).isSome := by
  simp only [hrPt, hn]
  by_cases h : x < c.med <;> simp [h]

/-! the context computed by the code satisfies `HRCtxOK` -/

theorem estimateStd_nonneg {F : Fns α} (hF : FnsOK F) (u : List α) (t : α) :
    0 ≤ estimateStd F u t := by
  unfold estimateStd
  simp only
  split
  · rename_i h; rw [zero_eq] at h; exact le_of_lt h
  · apply hF.sqrt_nonneg
    apply mul_nonneg
    · apply sum_nonneg
      intro y hy
      obtain ⟨v, _, rfl⟩ := List.mem_map.mp hy
      exact sq_nonneg' _
    · rw [one_eq]; positivity

theorem estimateStd_pos {F : Fns α} (hF : FnsOK F) {u : List α} {t x : α} (hx : x ∈ u)
    (hne : x ≠ t) : 0 < estimateStd F u t := by
  unfold estimateStd
  simp only
  split
  · rename_i h; rw [zero_eq] at h; exact h
  · apply hF.sqrt_pos
    apply mul_pos (sum_sq_pos hx hne)
    rw [one_eq]
    have : 0 < u.length := List.length_pos_of_mem hx
    have : (0 : α) < ((u.length : Nat) : α) := by exact_mod_cast this
    positivity

theorem hrCtx_ok {F : Fns α} (hF : FnsOK F) (flag : Bool) (l : List (Option α)) :
    HRCtxOK (hrCtx F flag l) := by
  constructor
  · simp only [hrCtx]
    split <;> simp
  · exact estimateStd_nonneg hF _ _

theorem hrCtx_u {F : Fns α} (flag : Bool) (l : List (Option α)) :
    (hrCtx F flag l).u = unique (fins l) := rfl

theorem hrCtx_ranksNan_fix {F : Fns α} (l : List (Option α)) :
    (hrCtx F true l).ranksNan = false := by simp [hrCtx]

theorem hrCtx_ranksNan_noNan {F : Fns α} (flag : Bool) {l : List (Option α)}
    (h : ∀ u ∈ l, u ≠ none) : (hrCtx F flag l).ranksNan = false := by
  simp only [hrCtx, Bool.and_eq_false_imp, Bool.not_eq_eq_eq_not, Bool.not_true]
  intro _
  rw [List.any_eq_false]
  intro u hu
  cases u with
  | none => exact absurd rfl (h none hu)
  | some a => simp

theorem hrCtx_sd_pos {F : Fns α} (hF : FnsOK F) (flag : Bool) (l : List (Option α)) :
    ∀ x ∈ (hrCtx F flag l).u, x < (hrCtx F flag l).med → 0 < (hrCtx F flag l).sd := by
  intro x hx hlt
  exact estimateStd_pos hF hx (ne_of_lt hlt)

theorem hr_mem_u {F : Fns α} (flag : Bool) (l : List (Option α)) :
    ∀ x, some x ∈ l → x ∈ (hrCtx F flag l).u := by
  intro x hx
  rw [hrCtx_u]
  exact mem_unique.mpr (mem_fins.mpr hx)

/-- half-rank, either rank variant: weakly order preserving with NaN at the bottom -/
theorem halfRank_ptMono {F : Fns α} (hF : FnsOK F) (flag : Bool) (l : List (Option α)) :
    PtMono l (halfRank F flag l) := by
  unfold halfRank
  by_cases h1 : l.length = 1
  · simpa [h1] using ptMono_id l
  · by_cases h2 : (fins l).isEmpty = true
    · simpa [h1, h2] using ptMono_id l
    · refine ⟨hrPt F (hrCtx F flag l), by simp [h1, h2], ?_⟩
      exact hrPt_monoOn hF (hrCtx_ok hF flag l) (hr_mem_u flag l)

/-- half-rank with the documented ranks (or no NaN label at all): strictly order preserving,
finite stays finite -/
theorem halfRank_ptStrict {F : Fns α} (hF : FnsOK F) (flag : Bool) (l : List (Option α))
    (hflag : flag = true ∨ ∀ u ∈ l, u ≠ none) : PtStrict l (halfRank F flag l) := by
  have hid := ptStrict_id l
  unfold halfRank
  by_cases h1 : l.length = 1
  · simpa [h1] using hid
  · by_cases h2 : (fins l).isEmpty = true
    · simpa [h1, h2] using hid
    · have hn : (hrCtx F flag l).ranksNan = false := by
        rcases hflag with rfl | h
        · exact hrCtx_ranksNan_fix l
        · exact hrCtx_ranksNan_noNan flag h
      refine ⟨hrPt F (hrCtx F flag l), by simp [h1, h2], ?_, fun x _ => hrPt_isSome hn x⟩
      exact hrPt_strictOn hF (hrCtx_ok hF flag l) hn (hrCtx_sd_pos hF flag l) (hr_mem_u flag l)

/-! ### DetectOutliers, ZScoreLabels, NormalizeLabels, TransformToGaussian -/

theorem outPt_monoOn (t : α) (S : List (Option α)) : MonoOn S (outPt t) := by
  intro u _ v _ huv
  cases u with
  | none => simp [outPt]
  | some a =>
    cases v with
    | none => simp at huv
    | some b =>
      simp only [leO_some_some] at huv
      simp only [outPt]
      by_cases h1 : a < t
      · simp [h1]
      · have h2 : ¬ b < t := fun h => h1 (lt_of_le_of_lt huv h)
        simp [h1, h2, huv]

/-- for *any* threshold the outlier detector only removes a lower set of the labels -/
theorem detectOutliers_ptMono (F : Fns α) (z : α) (l : List (Option α)) :
    PtMono l (detectOutliers F z l) := by
  unfold detectOutliers
  cases outlierThreshold F z (fins l) with
  | none => exact ptMono_id l
  | some t => exact ⟨outPt t, rfl, outPt_monoOn t l⟩

theorem zscore_ptMono {F : Fns α} (l : List (Option α)) : PtMono l (zscore F l) := by
  unfold zscore
  simp only
  split
  · rename_i h
    rw [zero_eq] at h
    refine ⟨_, rfl, ?_⟩
    intro u _ v _ huv
    cases u with
    | none => simp [zPt]
    | some a =>
      cases v with
      | none => simp at huv
      | some b =>
        simp only [leO_some_some] at huv
        simp only [zPt, leO_some_some]
        apply div_le_div_of_nonneg_right _ (le_of_lt h)
        linarith
  · exact ptMono_id l

theorem normalize_ptMono {lo hi : α} (hlh : lo ≤ hi) (l : List (Option α)) :
    PtMono l (normalize lo hi l) := by
  unfold normalize
  rcases lmin_lmax_cases (fins l) with ⟨_, h1, h2⟩ | ⟨mn, mx, h1, h2⟩
  · simpa [h1, h2] using ptMono_id l
  · simp only [h1, h2]
    refine ⟨_, rfl, ?_⟩
    intro u _ v _ huv
    cases u with
    | none => simp [normPt]
    | some a =>
      cases v with
      | none => simp at huv
      | some b =>
        simp only [leO_some_some] at huv
        simp only [normPt]
        by_cases hmm : mn < mx
        · simp only [hmm, if_true, leO_some_some]
          have hs : 0 ≤ (hi - lo) / (mx - mn) :=
            div_nonneg (sub_nonneg.mpr hlh) (le_of_lt (sub_pos.mpr hmm))
          have : (hi - lo) / (mx - mn) * (a - mn) ≤ (hi - lo) / (mx - mn) * (b - mn) :=
            mul_le_mul_of_nonneg_left (by linarith) hs
          linarith
        · simp [hmm]

theorem transformToGaussian_ptMono {F : Fns α} (hF : FnsOK F) (l : List (Option α)) :
    PtMono l (transformToGaussian F l) := by
  unfold transformToGaussian
  rcases lmin_lmax_cases (fins l) with ⟨_, h1, h2⟩ | ⟨mn, mx, h1, h2⟩
  · simpa [h1, h2] using ptMono_id l
  · simp only [h1, h2]
    split
    · rename_i hmm
      refine ⟨_, rfl, ?_⟩
      intro u _ v _ huv
      cases u with
      | none => simp [gaussPt]
      | some a =>
        cases v with
        | none => simp at huv
        | some b =>
          simp only [leO_some_some] at huv
          simp only [gaussPt, leO_some_some]
          apply hF.gauss_mono
          apply div_le_div_of_nonneg_right _ (le_of_lt (sub_pos.mpr hmm))
          linarith
    · refine ⟨_, rfl, ?_⟩
      intro u _ v _ huv
      cases u with
      | none => simp [gaussMid]
      | some a =>
        cases v with
        | none => simp at huv
        | some b => simp [gaussMid]

end VizierModel.Warp
