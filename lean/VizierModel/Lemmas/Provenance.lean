/-
Lemmas about the provenance mini-language (`Model/Provenance.lean`): evaluation of clean
expressions ignores the ambient, of seed-free expressions ignores the seed, of unclean
expressions depends on the ambient, substitution = evaluation under the inner seed.
All by (mutual) structural induction over the expression.
-/
import VizierModel.Model.Provenance

namespace VizierModel.Prov

/-! ## clean expressions do not see the ambient -/

mutual
theorem eval_of_clean (a₁ a₂ : Ambient) (i : Inputs) (hs : i.seed.isSome = true) :
    ∀ p : Prov, p.clean = true → p.eval a₁ i = p.eval a₂ i
  | .seedArg, _ => by
    cases h : i.seed with
    | none => simp [h] at hs
    | some v => simp [Prov.eval, h]
  | .const, _ => rfl
  | .problem, _ => rfl
  | .history, _ => rfl
  | .derived ps, h => by
    have := evalList_of_clean a₁ a₂ i hs ps (by simpa [Prov.clean] using h)
    simp [Prov.eval, this]
  | .constNone, h => by simp [Prov.clean] at h
  | .globalNumpy, h => by simp [Prov.clean] at h
  | .globalPython, h => by simp [Prov.clean] at h
  | .globalJax, h => by simp [Prov.clean] at h
  | .clock, h => by simp [Prov.clean] at h
  | .pid, h => by simp [Prov.clean] at h
  | .entropy, h => by simp [Prov.clean] at h
theorem evalList_of_clean (a₁ a₂ : Ambient) (i : Inputs) (hs : i.seed.isSome = true) :
    ∀ ps : List Prov, cleanList ps = true → evalList a₁ i ps = evalList a₂ i ps
  | [], _ => rfl
  | p :: ps, h => by
    simp only [cleanList, Bool.and_eq_true] at h
    simp [evalList, eval_of_clean a₁ a₂ i hs p h.1, evalList_of_clean a₁ a₂ i hs ps h.2]
end

/-! ## expressions that do not mention the seed do not see it -/

mutual
theorem eval_of_seedfree (a : Ambient) (i j : Inputs) (hp : i.problem = j.problem)
    (hh : i.history = j.history) :
    ∀ p : Prov, p.mentionsSeed = false → p.eval a i = p.eval a j
  | .seedArg, h => by simp [Prov.mentionsSeed] at h
  | .derived ps, h => by
    have := evalList_of_seedfree a i j hp hh ps (by simpa [Prov.mentionsSeed] using h)
    simp [Prov.eval, this]
  | .constNone, _ => rfl
  | .const, _ => rfl
  | .problem, _ => by simp [Prov.eval, hp]
  | .history, _ => by simp [Prov.eval, hh]
  | .globalNumpy, _ => rfl
  | .globalPython, _ => rfl
  | .globalJax, _ => rfl
  | .clock, _ => rfl
  | .pid, _ => rfl
  | .entropy, _ => rfl
theorem evalList_of_seedfree (a : Ambient) (i j : Inputs) (hp : i.problem = j.problem)
    (hh : i.history = j.history) :
    ∀ ps : List Prov, mentionsSeedList ps = false → evalList a i ps = evalList a j ps
  | [], _ => rfl
  | p :: ps, h => by
    simp only [mentionsSeedList, Bool.or_eq_false_iff] at h
    simp [evalList, eval_of_seedfree a i j hp hh p h.1, evalList_of_seedfree a i j hp hh ps h.2]
end

/-! ## expressions that mention the seed separate different seeds -/

mutual
theorem eval_ne_of_mentions (a : Ambient) (p h v₁ v₂ : Val) (hv : v₁ ≠ v₂) :
    ∀ e : Prov, e.mentionsSeed = true →
      e.eval a ⟨some v₁, p, h⟩ ≠ e.eval a ⟨some v₂, p, h⟩
  | .seedArg, _ => by simpa [Prov.eval] using hv
  | .derived ps, hm => by
    have := evalList_ne_of_mentions a p h v₁ v₂ hv ps (by simpa [Prov.mentionsSeed] using hm)
    simpa [Prov.eval] using this
  | .constNone, hm => by simp [Prov.mentionsSeed] at hm
  | .const, hm => by simp [Prov.mentionsSeed] at hm
  | .problem, hm => by simp [Prov.mentionsSeed] at hm
  | .history, hm => by simp [Prov.mentionsSeed] at hm
  | .globalNumpy, hm => by simp [Prov.mentionsSeed] at hm
  | .globalPython, hm => by simp [Prov.mentionsSeed] at hm
  | .globalJax, hm => by simp [Prov.mentionsSeed] at hm
  | .clock, hm => by simp [Prov.mentionsSeed] at hm
  | .pid, hm => by simp [Prov.mentionsSeed] at hm
  | .entropy, hm => by simp [Prov.mentionsSeed] at hm
theorem evalList_ne_of_mentions (a : Ambient) (p h v₁ v₂ : Val) (hv : v₁ ≠ v₂) :
    ∀ es : List Prov, mentionsSeedList es = true →
      evalList a ⟨some v₁, p, h⟩ es ≠ evalList a ⟨some v₂, p, h⟩ es
  | [], hm => by simp [mentionsSeedList] at hm
  | e :: es, hm => by
    simp only [mentionsSeedList, Bool.or_eq_true] at hm
    intro heq
    simp only [evalList, List.cons.injEq] at heq
    rcases hm with hm | hm
    · exact eval_ne_of_mentions a p h v₁ v₂ hv e hm heq.1
    · exact evalList_ne_of_mentions a p h v₁ v₂ hv es hm heq.2
end

/-! ## unclean expressions do see the ambient (the criterion is tight) -/

def ambient0 : Ambient := ⟨0, 0, 0, 0, 0, 0⟩
def ambient1 : Ambient := ⟨1, 1, 1, 1, 1, 1⟩

mutual
theorem eval_ne_of_unclean (i : Inputs) :
    ∀ p : Prov, p.clean = false → p.eval ambient0 i ≠ p.eval ambient1 i
  | .seedArg, h => by simp [Prov.clean] at h
  | .const, h => by simp [Prov.clean] at h
  | .problem, h => by simp [Prov.clean] at h
  | .history, h => by simp [Prov.clean] at h
  | .derived ps, h => by
    have := evalList_ne_of_unclean i ps (by simpa [Prov.clean] using h)
    simpa [Prov.eval] using this
  | .constNone, _ => by simp [Prov.eval, noneVal, ambient0, ambient1]
  | .globalNumpy, _ => by simp [Prov.eval, ambient0, ambient1]
  | .globalPython, _ => by simp [Prov.eval, ambient0, ambient1]
  | .globalJax, _ => by simp [Prov.eval, ambient0, ambient1]
  | .clock, _ => by simp [Prov.eval, ambient0, ambient1]
  | .pid, _ => by simp [Prov.eval, ambient0, ambient1]
  | .entropy, _ => by simp [Prov.eval, ambient0, ambient1]
theorem evalList_ne_of_unclean (i : Inputs) :
    ∀ ps : List Prov, cleanList ps = false → evalList ambient0 i ps ≠ evalList ambient1 i ps
  | [], h => by simp [cleanList] at h
  | p :: ps, h => by
    simp only [cleanList, Bool.and_eq_false_iff] at h
    intro heq
    simp only [evalList, List.cons.injEq] at heq
    rcases h with h | h
    · exact eval_ne_of_unclean i p h heq.1
    · exact evalList_ne_of_unclean i ps h heq.2
end

/-! ## substitution -/

mutual
theorem subst_seedArg : ∀ p : Prov, p.subst .seedArg = p
  | .seedArg => rfl
  | .derived ps => by simp [Prov.subst, substList_seedArg ps]
  | .constNone => rfl
  | .const => rfl
  | .problem => rfl
  | .history => rfl
  | .globalNumpy => rfl
  | .globalPython => rfl
  | .globalJax => rfl
  | .clock => rfl
  | .pid => rfl
  | .entropy => rfl
theorem substList_seedArg : ∀ ps : List Prov, substList ps .seedArg = ps
  | [] => rfl
  | p :: ps => by simp [substList, subst_seedArg p, substList_seedArg ps]
end

theorem eval_seedArg_inner (a : Ambient) (i : Inputs) (q : Prov) :
    q.eval a i = Prov.seedArg.eval a (innerInputs a i q) := by
  cases q <;> simp [Prov.eval, innerInputs, innerSeed]

mutual
theorem eval_subst (a : Ambient) (i : Inputs) (q : Prov) :
    ∀ p : Prov, (p.subst q).eval a i = p.eval a (innerInputs a i q)
  | .seedArg => by simpa [Prov.subst] using eval_seedArg_inner a i q
  | .derived ps => by simp [Prov.subst, Prov.eval, evalList_subst a i q ps]
  | .constNone => rfl
  | .const => rfl
  | .problem => rfl
  | .history => rfl
  | .globalNumpy => rfl
  | .globalPython => rfl
  | .globalJax => rfl
  | .clock => rfl
  | .pid => rfl
  | .entropy => rfl
theorem evalList_subst (a : Ambient) (i : Inputs) (q : Prov) :
    ∀ ps : List Prov, evalList a i (substList ps q) = evalList a (innerInputs a i q) ps
  | [] => rfl
  | p :: ps => by simp [substList, evalList, eval_subst a i q p, evalList_subst a i q ps]
end

mutual
theorem mentionsSeed_subst (q : Prov) :
    ∀ p : Prov, (p.subst q).mentionsSeed = (p.mentionsSeed && q.mentionsSeed)
  | .seedArg => by simp [Prov.subst, Prov.mentionsSeed]
  | .derived ps => by simp [Prov.subst, Prov.mentionsSeed, mentionsSeedList_subst q ps]
  | .constNone => rfl
  | .const => rfl
  | .problem => rfl
  | .history => rfl
  | .globalNumpy => rfl
  | .globalPython => rfl
  | .globalJax => rfl
  | .clock => rfl
  | .pid => rfl
  | .entropy => rfl
theorem mentionsSeedList_subst (q : Prov) :
    ∀ ps : List Prov, mentionsSeedList (substList ps q) = (mentionsSeedList ps && q.mentionsSeed)
  | [] => by simp [substList, mentionsSeedList]
  | p :: ps => by
    simp only [substList, mentionsSeedList, mentionsSeed_subst q p, mentionsSeedList_subst q ps]
    cases p.mentionsSeed <;> cases mentionsSeedList ps <;> cases q.mentionsSeed <;> rfl
end

theorem isSeedArg_eq {p : Prov} (h : p.isSeedArg = true) : p = .seedArg := by
  cases p <;> simp [Prov.isSeedArg] at h ⊢

/-! ## guards -/

theorem Guard.holds_and (b : Bool) (g h : Guard) : (g.and h).holds b = (g.holds b && h.holds b) := by
  cases g <;> cases h <;> cases b <;> rfl

theorem Guard.holds_resolve (a : Ambient) (i : Inputs) (q : Prov) (g : Guard) :
    (g.resolve q).holds i.seed.isSome = g.holds (innerInputs a i q).seed.isSome := by
  cases g <;> cases q <;> simp [Guard.resolve, Prov.noneness, Guard.holds, innerInputs, innerSeed]

theorem Guard.resolve_seedArg (g : Guard) : g.resolve .seedArg = g := by
  cases g <;> rfl

theorem Guard.always_and (g : Guard) : Guard.always.and g = g := by
  cases g <;> rfl

/-! ## streams -/

theorem streams_congr {Out : Type} (I : Interp Out) (a₁ a₂ : Ambient) (i j : Inputs)
    (hg : i.seed.isSome = j.seed.isSome) :
    ∀ sites : List Site,
      (∀ s ∈ sites, s.active i.seed.isSome = true → s.prov.eval a₁ i = s.prov.eval a₂ j) →
      streams I a₁ i sites = streams I a₂ j sites
  | [], _ => rfl
  | s :: ss, h => by
    have ih := streams_congr I a₁ a₂ i j hg ss (fun t ht => h t (List.mem_cons_of_mem _ ht))
    by_cases hact : s.active i.seed.isSome = true
    · have e := h s List.mem_cons_self hact
      have hact' : s.active j.seed.isSome = true := hg ▸ hact
      simp [streams, hact, hact', e, ih]
    · have hact' : ¬ s.active j.seed.isSome = true := hg ▸ hact
      simp [streams, hact, hact', ih]

end VizierModel.Prov
