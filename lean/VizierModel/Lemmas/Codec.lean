/-
Lemmas about the feature codec (`Model/Codec.lean`) over an ordered field with abstract
`log` / `exp` and an abstract finiteness predicate: basic numeric helpers (clip, nearest
feasible value, argmax of a one-hot row).
-/
import VizierModel.Model.Codec
import Mathlib.Algebra.Order.Field.Basic
import Mathlib.Tactic.Ring
import Mathlib.Tactic.Linarith
import Mathlib.Tactic.FieldSimp

set_option linter.unusedSectionVars false

namespace VizierModel.Codec

variable {α : Type} [Field α] [LinearOrder α] [IsStrictOrderedRing α]

/-- The exact carrier: an ordered field, with `log`, `exp` and "is finite" left abstract.
(`cast` is the identity: no dtype rounding; `nan` is never produced for present values.) -/
def fieldOps (lg ex : α → α) (fin : α → Bool) : NumOps α where
  zero := 0
  one := 1
  half := 1 / 2
  add := (· + ·)
  sub := (· - ·)
  mul := (· * ·)
  div := (· / ·)
  neg := fun x => -x
  lt := fun a b => decide (a < b)
  le := fun a b => decide (a ≤ b)
  beq := fun a b => decide (a = b)
  log := lg
  exp := ex
  ofInt := fun i => (i : α)
  finite := fin
  cast := id
  nan := 0

/-- the laws of `log` / `exp` the theorems use: mutually inverse, `log` strictly monotone on the
positives, `exp` positive -/
structure LogExp (lg ex : α → α) : Prop where
  exp_log : ∀ x, 0 < x → ex (lg x) = x
  log_exp : ∀ y, lg (ex y) = y
  exp_pos : ∀ y, 0 < ex y
  log_lt : ∀ x y, 0 < x → x < y → lg x < lg y

section
variable (lg ex : α → α) (fin : α → Bool)

@[simp] theorem fo_zero : (fieldOps lg ex fin).zero = 0 := rfl
@[simp] theorem fo_one : (fieldOps lg ex fin).one = 1 := rfl
@[simp] theorem fo_half : (fieldOps lg ex fin).half = 1 / 2 := rfl
@[simp] theorem fo_add (a b : α) : (fieldOps lg ex fin).add a b = a + b := rfl
@[simp] theorem fo_sub (a b : α) : (fieldOps lg ex fin).sub a b = a - b := rfl
@[simp] theorem fo_mul (a b : α) : (fieldOps lg ex fin).mul a b = a * b := rfl
@[simp] theorem fo_div (a b : α) : (fieldOps lg ex fin).div a b = a / b := rfl
@[simp] theorem fo_neg (a : α) : (fieldOps lg ex fin).neg a = -a := rfl
@[simp] theorem fo_lt (a b : α) : (fieldOps lg ex fin).lt a b = decide (a < b) := rfl
@[simp] theorem fo_le (a b : α) : (fieldOps lg ex fin).le a b = decide (a ≤ b) := rfl
@[simp] theorem fo_beq (a b : α) : (fieldOps lg ex fin).beq a b = decide (a = b) := rfl
@[simp] theorem fo_log (a : α) : (fieldOps lg ex fin).log a = lg a := rfl
@[simp] theorem fo_exp (a : α) : (fieldOps lg ex fin).exp a = ex a := rfl
@[simp] theorem fo_ofInt (i : Int) : (fieldOps lg ex fin).ofInt i = (i : α) := rfl
@[simp] theorem fo_finite (a : α) : (fieldOps lg ex fin).finite a = fin a := rfl
@[simp] theorem fo_cast (a : α) : (fieldOps lg ex fin).cast a = a := rfl

/-! ### clip, abs -/

theorem clip_bounds (v lo hi : α) (h : lo ≤ hi) :
    lo ≤ clip (fieldOps lg ex fin) v lo hi ∧ clip (fieldOps lg ex fin) v lo hi ≤ hi := by
  unfold clip
  simp only [fo_lt, decide_eq_true_eq]
  by_cases h1 : v < lo
  · simp only [h1, if_true]
    by_cases h2 : hi < lo
    · exact absurd h (not_le.mpr h2)
    · simp only [h2, if_false]; exact ⟨le_refl _, h⟩
  · simp only [h1, if_false]
    by_cases h2 : hi < v
    · simp only [h2, if_true]; exact ⟨h, le_refl _⟩
    · simp only [h2, if_false]; exact ⟨not_lt.mp h1, not_lt.mp h2⟩

theorem clip_id (v lo hi : α) (h1 : lo ≤ v) (h2 : v ≤ hi) :
    clip (fieldOps lg ex fin) v lo hi = v := by
  unfold clip
  simp only [fo_lt, decide_eq_true_eq, not_lt.mpr h1, not_lt.mpr h2, if_false]

theorem nabs_eq (x : α) : nabs (fieldOps lg ex fin) x = |x| := by
  unfold nabs
  simp only [fo_lt, fo_zero, fo_neg, decide_eq_true_eq]
  by_cases h : x < 0
  · simp only [h, if_true]; exact (abs_of_neg h).symm
  · simp only [h, if_false]; exact (abs_of_nonneg (not_lt.mp h)).symm

/-! ### nearest feasible value -/

variable {β : Type}

theorem nearestAux_mem (v : α) (cs : List (α × β)) (bd : α) (bp : β) :
    nearestAux (fieldOps lg ex fin) v cs bd bp = bp ∨
      nearestAux (fieldOps lg ex fin) v cs bd bp ∈ cs.map Prod.snd := by
  induction cs generalizing bd bp with
  | nil => left; rfl
  | cons c cs ih =>
    unfold nearestAux
    simp only
    split
    · rcases ih (nabs (fieldOps lg ex fin) ((fieldOps lg ex fin).sub c.1 v)) c.2 with h | h
      · right; rw [h]; simp
      · right; simp only [List.map_cons, List.mem_cons]; right; exact h
    · rcases ih bd bp with h | h
      · left; exact h
      · right; simp only [List.map_cons, List.mem_cons]; right; exact h

/-- the nearest feasible value is one of the candidates -/
theorem nearest_mem (v : α) (cs : List (α × β)) (b : β)
    (h : nearest (fieldOps lg ex fin) v cs = some b) : b ∈ cs.map Prod.snd := by
  cases cs with
  | nil => simp [nearest] at h
  | cons c cs =>
    simp only [nearest, Option.some.injEq] at h
    rcases nearestAux_mem lg ex fin v cs (nabs (fieldOps lg ex fin) ((fieldOps lg ex fin).sub c.1 v)) c.2 with h' | h'
    · rw [h'] at h; subst h; simp
    · rw [h] at h'; simp only [List.map_cons, List.mem_cons]; right; exact h'

theorem nearest_isSome (v : α) (cs : List (α × β)) (h : cs ≠ []) :
    ∃ b, nearest (fieldOps lg ex fin) v cs = some b := by
  cases cs with
  | nil => exact absurd rfl h
  | cons c cs => exact ⟨_, rfl⟩

/-- once the best distance is 0 nothing replaces the best candidate -/
theorem nearestAux_zero (v : α) (cs : List (α × β)) (bp : β) :
    nearestAux (fieldOps lg ex fin) v cs 0 bp = bp := by
  induction cs with
  | nil => rfl
  | cons c cs ih =>
    unfold nearestAux
    simp only [nabs_eq, fo_sub, fo_lt, decide_eq_true_eq]
    rw [if_neg (not_lt.mpr (abs_nonneg _))]
    exact ih

/-- with a positive best distance, an exact match further down the list wins, provided every
exact match carries the payload `b₀` (positions determine payloads) -/
theorem nearestAux_exact (v : α) (b₀ : β) (cs : List (α × β)) (bd : α) (bp : β) (hbd : 0 < bd)
    (huniq : ∀ c ∈ cs, c.1 = v → c.2 = b₀) (hex : ∃ c ∈ cs, c.1 = v) :
    nearestAux (fieldOps lg ex fin) v cs bd bp = b₀ := by
  induction cs generalizing bd bp with
  | nil => obtain ⟨c, hc, _⟩ := hex; cases hc
  | cons c cs ih =>
    unfold nearestAux
    simp only [nabs_eq, fo_sub, fo_lt, decide_eq_true_eq]
    by_cases hcv : c.1 = v
    · have h0 : |c.1 - v| = 0 := by rw [hcv, sub_self, abs_zero]
      rw [h0, if_pos hbd, nearestAux_zero]
      exact huniq c (List.mem_cons_self) hcv
    · have hpos : 0 < |c.1 - v| := abs_pos.mpr (sub_ne_zero.mpr hcv)
      have huniq' : ∀ c' ∈ cs, c'.1 = v → c'.2 = b₀ := fun c' hc' => huniq c' (List.mem_cons_of_mem _ hc')
      have hex' : ∃ c' ∈ cs, c'.1 = v := by
        obtain ⟨c', hc', hv⟩ := hex
        rcases List.mem_cons.mp hc' with rfl | hc'
        · exact absurd hv hcv
        · exact ⟨c', hc', hv⟩
      split
      · exact ih _ _ hpos huniq' hex'
      · exact ih _ _ hbd huniq' hex'

/-- a value that is the position of a candidate is decoded to that candidate's payload -/
theorem nearest_exact (v : α) (b₀ : β) (cs : List (α × β))
    (huniq : ∀ c ∈ cs, c.1 = v → c.2 = b₀) (hex : ∃ c ∈ cs, c.1 = v) :
    nearest (fieldOps lg ex fin) v cs = some b₀ := by
  cases cs with
  | nil => obtain ⟨c, hc, _⟩ := hex; cases hc
  | cons c cs =>
    simp only [nearest, Option.some.injEq, nabs_eq, fo_sub]
    by_cases hcv : c.1 = v
    · rw [hcv, sub_self, abs_zero, nearestAux_zero]
      exact huniq c (List.mem_cons_self) hcv
    · have hpos : 0 < |c.1 - v| := abs_pos.mpr (sub_ne_zero.mpr hcv)
      apply nearestAux_exact lg ex fin v b₀ cs _ _ hpos
      · exact fun c' hc' => huniq c' (List.mem_cons_of_mem _ hc')
      · obtain ⟨c', hc', hv⟩ := hex
        rcases List.mem_cons.mp hc' with rfl | hc'
        · exact absurd hv hcv
        · exact ⟨c', hc', hv⟩

/-! ### argmax and one-hot rows -/

theorem argmaxAux_lt (ds : List α) (i bi : Nat) (bv : α) (h : bi < i) :
    argmaxAux (fieldOps lg ex fin) ds i bi bv < i + ds.length := by
  induction ds generalizing i bi bv with
  | nil => simpa [argmaxAux] using h
  | cons d ds ih =>
    unfold argmaxAux
    simp only [List.length_cons]
    split
    · have := ih (i + 1) i d (Nat.lt_succ_self i); omega
    · have := ih (i + 1) bi bv (Nat.lt_succ_of_lt h); omega

/-- `argmax` of a non-empty list is a valid position -/
theorem argmax_lt (xs : List α) (h : xs ≠ []) : argmax (fieldOps lg ex fin) xs < xs.length := by
  cases xs with
  | nil => exact absurd rfl h
  | cons d ds =>
    simp only [argmax, List.length_cons]
    have := argmaxAux_lt lg ex fin ds 1 0 d (by omega)
    omega

theorem indic_length (ops : NumOps α) (k s m : Nat) : (indic ops k s m).length = m := by
  induction m generalizing s with
  | zero => rfl
  | succ m ih => simp [indic, ih]

/-- once the 1 has been seen (best value 1) the remaining entries (0 or 1) never replace it -/
theorem argmaxAux_indic_found (k s m i bi : Nat) :
    argmaxAux (fieldOps lg ex fin) (indic (fieldOps lg ex fin) k s m) i bi 1 = bi := by
  induction m generalizing s i with
  | zero => rfl
  | succ m ih =>
    simp only [indic, argmaxAux, fo_lt, fo_one, fo_zero, decide_eq_true_eq]
    split
    · rw [if_neg (lt_irrefl _)]; exact ih _ _
    · rw [if_neg (not_lt.mpr zero_le_one)]; exact ih _ _

theorem argmaxAux_indic (k s m i bi : Nat) (hs : s ≤ k) (hk : k < s + m) :
    argmaxAux (fieldOps lg ex fin) (indic (fieldOps lg ex fin) k s m) i bi 0 = i + (k - s) := by
  induction m generalizing s i bi with
  | zero => omega
  | succ m ih =>
    simp only [indic, argmaxAux, fo_lt, fo_one, fo_zero, decide_eq_true_eq]
    by_cases hsk : s = k
    · subst hsk
      rw [if_pos rfl, if_pos zero_lt_one, argmaxAux_indic_found]
      omega
    · rw [if_neg hsk, if_neg (lt_irrefl _), ih (s + 1) (i + 1) bi (by omega) (by omega)]
      omega

/-- `argmax` over the first `n` entries of row `k` of `np.eye` is `k` -/
theorem argmax_indic (k n : Nat) (hk : k < n) :
    argmax (fieldOps lg ex fin) (indic (fieldOps lg ex fin) k 0 n) = k := by
  cases n with
  | zero => omega
  | succ n =>
    simp only [indic, argmax, fo_one, fo_zero]
    by_cases h0 : 0 = k
    · subst h0
      rw [if_pos rfl]
      exact argmaxAux_indic_found lg ex fin 0 1 n 1 0
    · rw [if_neg h0, argmaxAux_indic lg ex fin k 1 n 1 0 (by omega) (by omega)]
      omega

theorem indic_take (ops : NumOps α) (k s m n : Nat) (h : n ≤ m) :
    (indic ops k s m).take n = indic ops k s n := by
  induction n generalizing s m with
  | zero => simp [indic]
  | succ n ih =>
    cases m with
    | zero => omega
    | succ m => simp only [indic, List.take_succ_cons]; rw [ih (s + 1) m (by omega)]

end

end VizierModel.Codec
