/-
Generic lemmas about the Python-dict and `sorted` helpers of `Model/Wire.lean` (C09).
-/
import VizierModel.Model.Wire

namespace VizierModel.Wire

section
variable {κ ι α σ β : Type} [DecidableEq κ] [DecidableEq ι]

/-! ### sorted -/

theorem insSorted_le_all (lt : α → α → Bool) (a : α) (l : List α)
    (h : ∀ y ∈ l, lt y a = false) : insSorted lt a l = a :: l := by
  cases l with
  | nil => rfl
  | cons x xs => simp [insSorted, h x (by simp)]

/-- `sorted` leaves a non-decreasing list alone -/
theorem sortBy_of_sorted (lt : α → α → Bool) (l : List α)
    (h : l.Pairwise (fun a b => lt b a = false)) : sortBy lt l = l := by
  induction l with
  | nil => rfl
  | cons x xs ih =>
    rw [List.pairwise_cons] at h
    rw [sortBy, ih h.2]
    exact insSorted_le_all lt x xs h.1

theorem sortBy_singleton (lt : α → α → Bool) (a : α) : sortBy lt [a] = [a] := rfl

/-! ### `d[key a] = a` -/

theorem insBy_fresh (key : α → ι) (a : α) (l : List α) (h : ∀ x ∈ l, key x ≠ key a) :
    insBy key a l = l ++ [a] := by
  induction l with
  | nil => rfl
  | cons x xs ih =>
    have hx : key x ≠ key a := h x (by simp)
    simp only [insBy, if_neg hx, List.cons_append]
    rw [ih (fun y hy => h y (by simp [hy]))]

/-- inserting items with pairwise distinct fresh keys appends them in order -/
theorem foldl_insBy (key : α → ι) (l acc : List α)
    (hnd : ((acc ++ l).map key).Nodup) :
    l.foldl (fun acc a => insBy key a acc) acc = acc ++ l := by
  induction l generalizing acc with
  | nil => simp
  | cons a as ih =>
    have hfresh : ∀ x ∈ acc, key x ≠ key a := by
      intro x hx heq
      rw [List.map_append, List.map_cons] at hnd
      have := (List.nodup_append.mp hnd).2.2 (key x) (List.mem_map_of_mem hx) (key a) (by simp)
      exact this heq
    rw [List.foldl_cons, insBy_fresh key a acc hfresh, ih (acc ++ [a]) (by simpa using hnd)]
    simp

theorem foldl_insBy_nil (key : α → ι) (l : List α) (hnd : (l.map key).Nodup) :
    l.foldl (fun acc a => insBy key a acc) [] = l := by
  simpa using foldl_insBy key l [] (by simpa using hnd)

/-! ### `dd[k] = f(dd[k])` -/

theorem modifyD_fresh (k : κ) (f : σ → σ) (init : σ) (d : List (κ × σ))
    (h : ∀ e ∈ d, e.1 ≠ k) : modifyD k f init d = d ++ [(k, f init)] := by
  induction d with
  | nil => rfl
  | cons e es ih =>
    obtain ⟨k', s⟩ := e
    have hk : k' ≠ k := h (k', s) (by simp)
    simp only [modifyD, if_neg hk, List.cons_append]
    rw [ih (fun y hy => h y (by simp [hy]))]

theorem modifyD_last (k : κ) (f : σ → σ) (init s : σ) (d : List (κ × σ))
    (h : ∀ e ∈ d, e.1 ≠ k) : modifyD k f init (d ++ [(k, s)]) = d ++ [(k, f s)] := by
  induction d with
  | nil => simp [modifyD]
  | cons e es ih =>
    obtain ⟨k', s'⟩ := e
    have hk : k' ≠ k := h (k', s') (by simp)
    simp only [List.cons_append, modifyD, if_neg hk]
    rw [ih (fun y hy => h y (by simp [hy]))]

/-- a run of updates of one key that is last in the dict only touches that entry -/
theorem foldl_modifyD_last (k : κ) (step : σ → β → σ) (init s : σ) (d : List (κ × σ)) (bs : List β)
    (h : ∀ e ∈ d, e.1 ≠ k) :
    bs.foldl (fun acc b => modifyD k (fun s => step s b) init acc) (d ++ [(k, s)])
      = d ++ [(k, bs.foldl step s)] := by
  induction bs generalizing s with
  | nil => rfl
  | cons b bs ih => rw [List.foldl_cons, modifyD_last k _ init s d h, ih]; rfl

/-- a non-empty run of updates of a key not yet in the dict creates exactly one entry at the end -/
theorem foldl_modifyD_fresh (k : κ) (step : σ → β → σ) (init : σ) (d : List (κ × σ)) (bs : List β)
    (h : ∀ e ∈ d, e.1 ≠ k) (hne : bs ≠ []) :
    bs.foldl (fun acc b => modifyD k (fun s => step s b) init acc) d
      = d ++ [(k, bs.foldl step init)] := by
  cases bs with
  | nil => exact absurd rfl hne
  | cons b bs =>
    rw [List.foldl_cons, modifyD_fresh k _ init d h, foldl_modifyD_last k step init _ d bs h]; rfl

end
end VizierModel.Wire

namespace VizierModel.Wire
section
variable {κ ι α : Type} [DecidableEq κ] [DecidableEq ι]

omit [DecidableEq κ] in
theorem flat_cons (g : κ × List α) (cs : List (κ × List α)) :
    flat (g :: cs) = (g.2.map fun a => (g.1, a)) ++ flat cs := by
  simp [flat]

/-- filling a dict of dicts from the stream of its own items rebuilds it -/
theorem foldl_groupIns_flat (key : α → ι) (cs acc : List (κ × List α))
    (hk : ((acc ++ cs).map Prod.fst).Nodup) (hi : ∀ g ∈ cs, (g.2.map key).Nodup)
    (hne : ∀ g ∈ cs, g.2 ≠ []) :
    (flat cs).foldl (fun acc e => groupIns key e.1 e.2 acc) acc = acc ++ cs := by
  induction cs generalizing acc with
  | nil => simp [flat]
  | cons g rest ih =>
    rw [flat_cons, List.foldl_append, List.foldl_map]
    have hfresh : ∀ e ∈ acc, e.1 ≠ g.1 := by
      intro e he heq
      rw [List.map_append, List.map_cons] at hk
      exact (List.nodup_append.mp hk).2.2 e.1 (List.mem_map_of_mem he) g.1 (by simp) heq
    have := foldl_modifyD_fresh (κ := κ) (σ := List α) g.1 (fun s a => insBy key a s) [] acc g.2 hfresh
      (hne g (by simp))
    simp only [groupIns] at ih ⊢
    rw [this, foldl_insBy_nil key g.2 (hi g (by simp))]
    rw [ih (acc ++ [(g.1, g.2)]) (by simpa [List.map_append] using hk)
      (fun x hx => hi x (by simp [hx])) (fun x hx => hne x (by simp [hx]))]
    simp

theorem unflat_flat (key : α → ι) (cs : List (κ × List α))
    (hk : (cs.map Prod.fst).Nodup) (hi : ∀ g ∈ cs, (g.2.map key).Nodup) (hne : ∀ g ∈ cs, g.2 ≠ []) :
    unflat key (flat cs) = cs := by
  simpa [unflat] using foldl_groupIns_flat key cs [] (by simpa using hk) hi hne

end
end VizierModel.Wire
