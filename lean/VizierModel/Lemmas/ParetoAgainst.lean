/-
Lemmas for C11, part 3: `is_pareto_optimal_against` (naive and jax), the sharded
`is_frontier`, and the rank functions.
-/
import VizierModel.Lemmas.Pareto
namespace VizierModel.Pareto

variable {β : Type}

theorem isFront_eq_against (c : Cmp β) (ps : List (List β)) (p : List β) :
    isFront c ps p = isOptAgainst c ps true p := by
  simp [isFront, isOptAgainst]

theorem naiveAgainst_correct {c : Cmp β} (h : c.Lawful) (points against : List (List β)) (strict : Bool) :
    naiveAgainst c points against strict = points.map (isOptAgainst c against strict) := by
  unfold naiveAgainst
  apply List.map_congr_left
  intro p _
  cases strict
  · -- strict = False: only the first branch can fire
    simp only [Bool.false_and, isOptAgainst, List.all_map]
    have : (against.all (id ∘ fun a => anyGt c p a)) = !against.any (fun q => allLe c p q) := by
      rw [List.all_eq_not_any_not]
      have : (fun x => !(id ∘ fun a => anyGt c p a) x) = fun q => allLe c p q := by
        funext a; simp [h.anyGt_eq_not_allLe]
      rw [this]
    simp only [Bool.false_eq_true, ↓reduceIte, this]
    cases against.any (fun q => allLe c p q) <;> simp
  · simp only [Bool.true_and, isOptAgainst, List.all_map, ↓reduceIte]
    have e2 : (against.all (id ∘ fun a => anyGt c p a || allEq c p a)) =
        !against.any (fun q => dominates c q p) := by
      rw [List.all_eq_not_any_not]
      have : (fun x => !(id ∘ fun a => anyGt c p a || allEq c p a) x) = fun q => dominates c q p := by
        funext a; simp only [Function.comp, id]; rw [h.keep_eq]; simp
      rw [this]
    have e1 : against.all (id ∘ fun a => anyGt c p a) = true →
        against.all (id ∘ fun a => anyGt c p a || allEq c p a) = true := by
      intro h1
      rw [List.all_eq_true] at *
      intro a ha
      have := h1 a ha
      simp only [Function.comp, id] at *
      rw [this]; rfl
    rw [e2] at e1 ⊢
    cases hx : against.all (id ∘ fun a => anyGt c p a)
    · cases against.any (fun q => dominates c q p) <;> simp
    · rw [e1 hx]; simp

theorem jaxAgainst_correct (c : Cmp β) (yy baseline : List (List β)) (strict : Bool) :
    jaxAgainst c yy baseline strict = yy.map (isOptAgainst c baseline strict) := by
  unfold jaxAgainst
  apply List.map_congr_left
  intro y _
  cases strict <;> simp [isOptAgainst, jaxIsDominated, dominates]

/-! ### sharded `is_frontier` -/

/-- "nothing in the slice strictly dominates y" -/
def sliceOk (c : Cmp β) (ys : List (List β)) (y : List β) (be : Nat × Nat) : Bool :=
  !(((ys.drop be.1).take (be.2 - be.1)).any fun b => jaxIsDominated c y b true)

theorem zipWith_and_true (mask : List Bool) (ys : List (List β)) (hlen : mask.length = ys.length) :
    List.zipWith (fun m (_ : List β) => m) mask ys = mask := by
  induction mask generalizing ys with
  | nil => simp
  | cons m ms ih =>
    cases ys with
    | nil => simp at hlen
    | cons y ys => simp at hlen; simp [ih ys hlen]

theorem zipWith_zipWith_and (f g : List β → Bool) (mask : List Bool) (ys : List (List β)) :
    List.zipWith (fun m y => m && g y) (List.zipWith (fun m y => m && f y) mask ys) ys =
      List.zipWith (fun m y => m && (f y && g y)) mask ys := by
  induction mask generalizing ys with
  | nil => simp
  | cons m ms ih =>
    cases ys with
    | nil => simp
    | cons y ys => simp [ih ys, Bool.and_assoc]

theorem foldl_frontierStep (c : Cmp β) (ys : List (List β)) (pairs : List (Nat × Nat)) (mask : List Bool)
    (hlen : mask.length = ys.length) :
    pairs.foldl (frontierStep c ys) mask =
      List.zipWith (fun m y => m && pairs.all (sliceOk c ys y)) mask ys := by
  induction pairs generalizing mask with
  | nil => simp [zipWith_and_true mask ys hlen]
  | cons be rest ih =>
    rw [List.foldl_cons, ih]
    · have : frontierStep c ys mask be = List.zipWith (fun m y => m && sliceOk c ys y be) mask ys := rfl
      rw [this, zipWith_zipWith_and]
      simp [List.all_cons]
    · simp [frontierStep, List.length_zipWith, hlen]

theorem zipWith_true_map (F : List β → Bool) (ys : List (List β)) :
    List.zipWith (fun m y => m && F y) (ys.map fun _ => true) ys = ys.map F := by
  induction ys with
  | nil => rfl
  | cons y ys ih => simp [ih]

theorem isFrontier_eq (c : Cmp β) (k : Nat) (ys : List (List β)) :
    isFrontier c k ys =
      ys.map fun y => (shardPairs (shardIdx k ys.length).reverse).all (sliceOk c ys y) := by
  unfold isFrontier
  rw [foldl_frontierStep _ _ _ _ (by simp), zipWith_true_map]

/-- consecutive pairs of a list that ends in `z` and starts with `r0` cover `[z, r0)` -/
theorem shardPairs_cover (r0 : Nat) (rest : List Nat) (z : Nat) (hz : (r0 :: rest).getLast? = some z)
    (i : Nat) (h1 : z ≤ i) (h2 : i < r0) :
    ∃ be ∈ shardPairs (r0 :: rest), be.1 ≤ i ∧ i < be.2 := by
  induction rest generalizing r0 with
  | nil => simp at hz; omega
  | cons r1 rest' ih =>
    have e : shardPairs (r0 :: r1 :: rest') = (r1, r0) :: shardPairs (r1 :: rest') := by
      simp [shardPairs]
    rw [e]
    by_cases hr : r1 ≤ i
    · exact ⟨(r1, r0), by simp, hr, h2⟩
    · rw [List.getLast?_cons_cons] at hz
      obtain ⟨be, hbe, hb⟩ := ih r1 hz (by omega)
      exact ⟨be, List.mem_cons_of_mem _ hbe, hb⟩

theorem shardIdx_reverse (m n : Nat) :
    ∃ rest, (shardIdx (m + 2) n).reverse = n :: rest ∧ (n :: rest).getLast? = some 0 := by
  have hlast : (shardIdx (m + 2) n) = ((List.range (m + 1)).map fun j => j * n / (m + 1)) ++ [n] := by
    simp [shardIdx, List.range_succ (n := m + 1), Nat.mul_div_cancel_left n (Nat.succ_pos m)]
  have hfirst : ∃ tl, shardIdx (m + 2) n = 0 :: tl := by
    refine ⟨((List.range (m + 1)).map fun j => (j + 1) * n / (m + 1)), ?_⟩
    simp [shardIdx, List.range_succ_eq_map, Function.comp_def]
  obtain ⟨tl, htl⟩ := hfirst
  refine ⟨((List.range (m + 1)).map fun j => j * n / (m + 1)).reverse, ?_, ?_⟩
  · rw [hlast]; simp
  · have : n :: ((List.range (m + 1)).map fun j => j * n / (m + 1)).reverse = (shardIdx (m + 2) n).reverse := by
      rw [hlast]; simp
    rw [this, htl]; simp

theorem mem_slice (ys : List (List β)) (b e i : Nat) (hb : b ≤ i) (he : i < e) (hi : i < ys.length) :
    ys[i] ∈ (ys.drop b).take (e - b) := by
  rw [List.mem_iff_getElem]
  refine ⟨i - b, by simp; omega, ?_⟩
  simp [List.getElem_take, List.getElem_drop]
  congr 1; omega

/-- with at least two boundaries the slices cover every point, so the filter is the front -/
theorem isFrontier_correct (c : Cmp β) (k : Nat) (hk : 2 ≤ k) (ys : List (List β)) :
    isFrontier c k ys = front c ys := by
  rw [isFrontier_eq, front]
  apply List.map_congr_left
  intro y _
  obtain ⟨m, rfl⟩ : ∃ m, k = m + 2 := ⟨k - 2, by omega⟩
  obtain ⟨rest, hrev, hlast⟩ := shardIdx_reverse m ys.length
  rw [hrev]
  unfold isFront
  apply Bool.eq_iff_iff.mpr
  rw [List.all_eq_true, Bool.not_eq_true', ← Bool.not_eq_true, List.any_eq_true]
  constructor
  · rintro hall ⟨q, hq, hd⟩
    obtain ⟨i, hi, rfl⟩ := List.getElem_of_mem hq
    obtain ⟨be, hbe, hb1, hb2⟩ := shardPairs_cover ys.length rest 0 hlast i (Nat.zero_le _) hi
    have := hall be hbe
    unfold sliceOk at this
    rw [Bool.not_eq_true', ← Bool.not_eq_true, List.any_eq_true] at this
    exact this ⟨ys[i], mem_slice ys be.1 be.2 i hb1 hb2 hi, by simpa [jaxIsDominated, dominates] using hd⟩
  · intro hno be _
    unfold sliceOk
    rw [Bool.not_eq_true', ← Bool.not_eq_true, List.any_eq_true]
    rintro ⟨q, hq, hd⟩
    exact hno ⟨q, List.mem_of_mem_drop (List.mem_of_mem_take hq), by simpa [jaxIsDominated, dominates] using hd⟩

/-- one boundary (`num_shards = 1`) or none: no slice, nothing is filtered -/
theorem isFrontier_le_one (c : Cmp β) (k : Nat) (hk : k ≤ 1) (ys : List (List β)) :
    isFrontier c k ys = ys.map fun _ => true := by
  rw [isFrontier_eq]
  have : shardPairs (shardIdx k ys.length).reverse = [] := by
    rcases Nat.le_one_iff_eq_zero_or_eq_one.mp hk with rfl | rfl <;> simp [shardIdx, shardPairs]
  rw [this]; simp

/-! ### ranks -/

theorem jaxRank_zero_iff (c : Cmp β) (ys : List (List β)) (y : List β) :
    (ys.filter fun r => jaxIsDominated c y r true).length = 0 ↔ isFront c ys y = true := by
  unfold isFront
  rw [List.length_eq_zero_iff, List.filter_eq_nil_iff, Bool.not_eq_true', ← Bool.not_eq_true, List.any_eq_true]
  constructor
  · rintro h ⟨q, hq, hd⟩
    exact h q hq (by simpa [jaxIsDominated, dominates] using hd)
  · intro h q hq hd
    exact h ⟨q, hq, by simpa [jaxIsDominated, dominates] using hd⟩

theorem nsgaRank_eq_jaxRank (c : Cmp β) (ys : List (List β)) : nsgaRank c ys = jaxRank c ys := by
  unfold nsgaRank jaxRank
  cases ys with
  | nil => rfl
  | cons y ys => simp [jaxIsDominated]

end VizierModel.Pareto
