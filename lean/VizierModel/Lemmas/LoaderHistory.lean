/-
Lemmas for C12: the invariant of histories (`inc` = ids given to the current lineage; a table
trial carries a given id iff it is that trial), its preservation by every operation, exactness
of every logged update, the `Top` invariant (ids ever handed out ≤ current max) that justifies
the shortcut, and the log-level step from "every update exact" to "exactly once".
-/
import VizierModel.Lemmas.Loader

namespace VizierModel.Loader

/-! ### log-level facts -/

theorem delivered_fresh {log : List Entry} {n : Nat} (h : ∀ e ∈ log, e.inst < n) :
    delivered n log = [] := by
  induction log with
  | nil => rfl
  | cons e prev ih =>
    have h1 : e.inst ≠ n := Nat.ne_of_lt (h e List.mem_cons_self)
    simp only [delivered, if_neg h1, List.nil_append]
    exact ih fun e' he' => h e' (List.mem_cons_of_mem _ he')

theorem expected_sublist (prev : List Entry) (inst : Nat) (env : Env) :
    (expected prev inst env).Sublist env := List.filter_sublist

/-- every update exact ⇒ no lineage is given a trial twice -/
theorem deliveredOnce_of_exact : ∀ (log : List Entry), UpdateExact log → SnapshotsWF log →
    ∀ inst, ((delivered inst log).map (·.uid)).Nodup
  | [], _, _, _ => by simp [delivered]
  | e :: prev, hx, hw, inst => by
    have ih := deliveredOnce_of_exact prev hx.2 (fun e' he' => hw e' (List.mem_cons_of_mem _ he')) inst
    simp only [delivered]
    by_cases hi : e.inst = inst
    · rw [if_pos hi, List.map_append, List.nodup_append]
      refine ⟨?_, ih, ?_⟩
      · rw [hx.1]
        exact ((expected_sublist prev e.inst e.env).map _).nodup (hw e List.mem_cons_self)
      · intro a ha b hb e'
        subst e'
        rw [hx.1, hi] at ha
        obtain ⟨t, ht, rfl⟩ := List.mem_map.mp ha
        simp only [expected, List.mem_filter, Bool.and_eq_true, decide_eq_true_eq] at ht
        exact ht.2.2 hb
    · rw [if_neg hi, List.nil_append]; exact ih

/-- every update exact ⇒ whatever is completed at an update has been given by then -/
theorem covered_of_exact : ∀ (log : List Entry), UpdateExact log → Covered log
  | [], _ => trivial
  | e :: prev, hx => by
    refine ⟨?_, covered_of_exact prev hx.2⟩
    intro t ht hc
    simp only [delivered, if_true, List.map_append, List.mem_append]
    by_cases hb : t.uid ∈ (delivered e.inst prev).map (·.uid)
    · exact Or.inr hb
    · left
      rw [hx.1]
      apply List.mem_map_of_mem
      simp only [expected, List.mem_filter, Bool.and_eq_true, decide_eq_true_eq]
      exact ⟨ht, hc, hb⟩

theorem exactlyOnce_of_exact (log : List Entry) (hx : UpdateExact log) (hw : SnapshotsWF log) :
    ExactlyOnce log :=
  ⟨fun e _ => deliveredOnce_of_exact log hx hw e.inst, covered_of_exact log hx⟩

/-! ### the invariant -/

structure EnvInv (env : Env) (nextUid : Nat) (allocated : List Nat) : Prop where
  idsPos : ∀ t ∈ env, 1 ≤ t.id
  idsNodup : (env.map (·.id)).Nodup
  uidsNodup : (env.map (·.uid)).Nodup
  uidsLt : ∀ t ∈ env, t.uid < nextUid
  envAlloc : ∀ t ∈ env, t.id ∈ allocated

/-- lineage invariant: `G` = trials given to the lineage whose loader state is `inc` -/
structure LinInv (env : Env) (nextUid : Nat) (allocated : List Nat) (G : List Trial)
    (inc : List Nat) : Prop where
  incNodup : inc.Nodup
  incGiven : ∀ i, i ∈ inc ↔ ∃ g ∈ G, g.id = i
  givenOk : ∀ g ∈ G, g.id ∈ allocated ∧ g.uid < nextUid ∧ 1 ≤ g.id
  link : ∀ g ∈ G, ∀ t ∈ env, (t.id = g.id ↔ t.uid = g.uid)

structure LogInv (log : List Entry) (inst nextInst : Nat) : Prop where
  instLt : inst < nextInst
  logInst : ∀ e ∈ log, e.inst < nextInst
  snaps : SnapshotsWF log

structure Inv (s : State) : Prop where
  envInv : EnvInv s.env s.nextUid s.allocated
  linInv : LinInv s.env s.nextUid s.allocated (delivered s.inst s.log) s.inc
  logInv : LogInv s.log s.inst s.nextInst

/-- every id ever handed out is at most the current largest id -/
def Top (s : State) : Prop := ∀ i ∈ s.allocated, i ≤ maxId s.env

theorem inv_init : Inv State.init where
  envInv := ⟨by simp [State.init], by simp [State.init], by simp [State.init],
    by simp [State.init], by simp [State.init]⟩
  linInv := ⟨by simp [State.init], by simp [State.init, delivered], by simp [State.init, delivered],
    by simp [State.init, delivered]⟩
  logInv := ⟨by simp [State.init], by simp [State.init], by simp [State.init, SnapshotsWF]⟩

theorem top_init : Top State.init := by simp [Top, State.init]

/-! ### environment operations -/

theorem envInv_create {env : Env} {n : Nat} {al : List Nat} (h : EnvInv env n al) (st : Status) :
    EnvInv (env ++ [{ id := maxId env + 1, uid := n, st := st }]) (n + 1) ((maxId env + 1) :: al) where
  idsPos := by
    intro t ht
    rcases List.mem_append.mp ht with ht | ht
    · exact h.idsPos t ht
    · rw [List.mem_singleton] at ht; subst ht; simp
  idsNodup := by
    rw [List.map_append, List.nodup_append]
    refine ⟨h.idsNodup, by simp, ?_⟩
    intro a ha b hb e
    obtain ⟨t, ht, rfl⟩ := List.mem_map.mp ha
    simp only [List.map_cons, List.map_nil, List.mem_singleton] at hb
    have := le_maxId ht
    omega
  uidsNodup := by
    rw [List.map_append, List.nodup_append]
    refine ⟨h.uidsNodup, by simp, ?_⟩
    intro a ha b hb e
    obtain ⟨t, ht, rfl⟩ := List.mem_map.mp ha
    simp only [List.map_cons, List.map_nil, List.mem_singleton] at hb
    have := h.uidsLt t ht
    omega
  uidsLt := by
    intro t ht
    rcases List.mem_append.mp ht with ht | ht
    · exact Nat.lt_succ_of_lt (h.uidsLt t ht)
    · rw [List.mem_singleton] at ht; subst ht; simp
  envAlloc := by
    intro t ht
    rcases List.mem_append.mp ht with ht | ht
    · exact List.mem_cons_of_mem _ (h.envAlloc t ht)
    · rw [List.mem_singleton] at ht; subst ht; exact List.mem_cons_self

theorem linInv_create {env : Env} {n : Nat} {al : List Nat} {G : List Trial} {inc : List Nat}
    (h : LinInv env n al G inc) (st : Status) (hfresh : maxId env + 1 ∉ al) :
    LinInv (env ++ [{ id := maxId env + 1, uid := n, st := st }]) (n + 1) ((maxId env + 1) :: al) G inc where
  incNodup := h.incNodup
  incGiven := h.incGiven
  givenOk := fun g hg => ⟨List.mem_cons_of_mem _ (h.givenOk g hg).1, Nat.lt_succ_of_lt (h.givenOk g hg).2.1, (h.givenOk g hg).2.2⟩
  link := by
    intro g hg t ht
    rcases List.mem_append.mp ht with ht | ht
    · exact h.link g hg t ht
    · rw [List.mem_singleton] at ht
      subst ht
      have h1 := (h.givenOk g hg).1
      have h2 := (h.givenOk g hg).2.1
      constructor
      · intro e
        have e' : maxId env + 1 = g.id := e
        exact absurd (e' ▸ h1) hfresh
      · intro e; simp only at e; omega

def setSt (id : Nat) (st : Status) (t : Trial) : Trial := if t.id = id then { t with st := st } else t

theorem setSt_id (id : Nat) (st : Status) (t : Trial) : (setSt id st t).id = t.id := by
  unfold setSt; split <;> rfl

theorem setSt_uid (id : Nat) (st : Status) (t : Trial) : (setSt id st t).uid = t.uid := by
  unfold setSt; split <;> rfl

theorem map_setSt_ids (env : Env) (id : Nat) (st : Status) :
    (env.map (setSt id st)).map (·.id) = env.map (·.id) := by
  rw [List.map_map]; apply List.map_congr_left; intro t _; exact setSt_id id st t

theorem map_setSt_uids (env : Env) (id : Nat) (st : Status) :
    (env.map (setSt id st)).map (·.uid) = env.map (·.uid) := by
  rw [List.map_map]; apply List.map_congr_left; intro t _; exact setSt_uid id st t

theorem envInv_setStatus {env : Env} {n : Nat} {al : List Nat} (h : EnvInv env n al) (id : Nat)
    (st : Status) : EnvInv (env.map (setSt id st)) n al where
  idsPos := by
    intro t ht; obtain ⟨t0, h0, rfl⟩ := List.mem_map.mp ht
    rw [setSt_id]; exact h.idsPos t0 h0
  idsNodup := by rw [map_setSt_ids]; exact h.idsNodup
  uidsNodup := by rw [map_setSt_uids]; exact h.uidsNodup
  uidsLt := by
    intro t ht; obtain ⟨t0, h0, rfl⟩ := List.mem_map.mp ht
    rw [setSt_uid]; exact h.uidsLt t0 h0
  envAlloc := by
    intro t ht; obtain ⟨t0, h0, rfl⟩ := List.mem_map.mp ht
    rw [setSt_id]; exact h.envAlloc t0 h0

theorem linInv_setStatus {env : Env} {n : Nat} {al : List Nat} {G : List Trial} {inc : List Nat}
    (h : LinInv env n al G inc) (id : Nat) (st : Status) :
    LinInv (env.map (setSt id st)) n al G inc where
  incNodup := h.incNodup
  incGiven := h.incGiven
  givenOk := h.givenOk
  link := by
    intro g hg t ht
    obtain ⟨t0, h0, rfl⟩ := List.mem_map.mp ht
    rw [setSt_id, setSt_uid]; exact h.link g hg t0 h0

theorem envInv_delete {env : Env} {n : Nat} {al : List Nat} (h : EnvInv env n al) (p : Trial → Bool) :
    EnvInv (env.filter p) n al where
  idsPos := fun t ht => h.idsPos t (List.mem_of_mem_filter ht)
  idsNodup := (List.filter_sublist.map _).nodup h.idsNodup
  uidsNodup := (List.filter_sublist.map _).nodup h.uidsNodup
  uidsLt := fun t ht => h.uidsLt t (List.mem_of_mem_filter ht)
  envAlloc := fun t ht => h.envAlloc t (List.mem_of_mem_filter ht)

theorem linInv_delete {env : Env} {n : Nat} {al : List Nat} {G : List Trial} {inc : List Nat}
    (h : LinInv env n al G inc) (p : Trial → Bool) : LinInv (env.filter p) n al G inc where
  incNodup := h.incNodup
  incGiven := h.incGiven
  givenOk := h.givenOk
  link := fun g hg t ht => h.link g hg t (List.mem_of_mem_filter ht)

/-! ### the policy's update -/

theorem eq_of_mem_nodup_map {α β : Type} {f : α → β} {l : List α} (hn : (l.map f).Nodup) {a b : α}
    (ha : a ∈ l) (hb : b ∈ l) (e : f a = f b) : a = b :=
  List.inj_on_of_nodup_map hn ha hb e

/-- a loader call keeps the lineage invariant, with the newly given trials added to `G` -/
theorem linInv_update (cfg : Cfg) {env : Env} {n : Nat} {al : List Nat} {G : List Trial}
    {inc : List Nat} (he : EnvInv env n al) (h : LinInv env n al G inc) (m : Nat) :
    LinInv env n al ((newlyCompleted cfg env inc m).1 ++ G) (newlyCompleted cfg env inc m).2 where
  incNodup := nodup_newly_inc cfg env inc m h.incNodup
  incGiven := by
    intro i
    rw [mem_newly_inc, h.incGiven, List.mem_map]
    constructor
    · rintro (⟨g, hg, e⟩ | ⟨g, hg, e⟩)
      · exact ⟨g, List.mem_append_right _ hg, e⟩
      · exact ⟨g, List.mem_append_left _ hg, e⟩
    · rintro ⟨g, hg, e⟩
      rcases List.mem_append.mp hg with hg | hg
      · exact Or.inr ⟨g, hg, e⟩
      · exact Or.inl ⟨g, hg, e⟩
  givenOk := by
    intro g hg
    rcases List.mem_append.mp hg with hg | hg
    · have := (newly_sublist cfg env inc m).subset hg
      exact ⟨he.envAlloc g this, he.uidsLt g this, he.idsPos g this⟩
    · exact h.givenOk g hg
  link := by
    intro g hg t ht
    rcases List.mem_append.mp hg with hg | hg
    · have hge := (newly_sublist cfg env inc m).subset hg
      constructor
      · intro e; rw [eq_of_mem_nodup_map he.idsNodup ht hge e]
      · intro e; rw [eq_of_mem_nodup_map he.uidsNodup ht hge e]
    · exact h.link g hg t ht

theorem activeTrials_eq (env : Env) :
    activeTrials env = env.filter fun t => decide (t.st = .active) := by
  simp [activeTrials, getTrials]

theorem completedAll_eq (env : Env) :
    getTrials env none (some .completed) = env.filter fun t => decide (t.st = .completed) := by
  simp [getTrials]

/-- one stateful update from loader state `inc₀` of lineage `i₀` -/
theorem policyUpdate_inv (cfg : Cfg) (s : State) (inc₀ : List Nat) (i₀ : Nat)
    (he : EnvInv s.env s.nextUid s.allocated)
    (hl : LinInv s.env s.nextUid s.allocated (delivered i₀ s.log) inc₀)
    (hg : LogInv s.log i₀ s.nextInst)
    (hsc : cfg.shortcut = true → ∀ i ∈ inc₀, i ≤ maxId s.env) :
    Inv (policyUpdate cfg s inc₀ i₀) ∧
      (UpdateExact s.log → UpdateExact (policyUpdate cfg s inc₀ i₀).log) := by
  have hex : (newlyCompleted cfg s.env inc₀ (maxId s.env)).1 = expected s.log i₀ s.env := by
    apply newly_exact cfg s.env inc₀ (delivered i₀ s.log) he.idsPos hl.incGiven hl.link
    intro hs
    refine ⟨hl.incNodup, fun i hi => ⟨?_, hsc hs i hi⟩⟩
    obtain ⟨g, hgm, e⟩ := (hl.incGiven i).mp hi
    have := (hl.givenOk g hgm).2.2
    omega
  refine ⟨?_, ?_⟩
  · refine ⟨he, ?_, ?_⟩
    · show LinInv s.env s.nextUid s.allocated (delivered i₀ (_ :: s.log)) _
      simp only [delivered, eq_self, if_true]
      exact linInv_update cfg he hl _
    · refine ⟨hg.instLt, ?_, ?_⟩
      · intro e' he'
        rcases List.mem_cons.mp he' with rfl | he'
        · exact hg.instLt
        · exact hg.logInst e' he'
      · intro e' he'
        rcases List.mem_cons.mp he' with rfl | he'
        · exact he.uidsNodup
        · exact hg.snaps e' he'
  · intro hx
    exact ⟨hex, hx⟩

end VizierModel.Loader
