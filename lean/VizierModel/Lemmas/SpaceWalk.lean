/-
Lemmas for C16 (`SequentialParameterBuilder`): the worklist coroutine visits exactly the
recursively defined active parameters.
-/
import VizierModel.Lemmas.Space
import VizierModel.Lemmas.SpaceFactory
import Mathlib.Data.List.Perm.Subperm
namespace VizierModel.Space
set_option linter.unusedSimpArgs false

/-- the children of `p` under the chosen value `v` (specification side) -/
def chosenKids (p : PC) (v : PVal) : List PC :=
  p.kids.filterMap fun kc => if matchesChoice kc.1 v then some kc.2 else none

theorem activeKids_eq (choose : PC → Option PVal) (v : PVal) (kids : List (PVal × PC)) :
    activeKids choose v kids =
      activeSpace choose (kids.filterMap fun kc => if matchesChoice kc.1 v then some kc.2 else none) := by
  induction kids with
  | nil => simp [activeKids, activeSpace]
  | cons kc rest ih =>
    obtain ⟨k, c⟩ := kc
    unfold activeKids
    by_cases hm : matchesChoice k v = true
    · simp only [hm, if_true, List.filterMap_cons, activeSpace, ih]
    · simp only [hm, if_false, List.filterMap_cons, List.nil_append, ih]
      rfl

theorem activeOf_eq (choose : PC → Option PVal) (p : PC) :
    activeOf choose p = p :: match choose p with
      | none => []
      | some v => activeSpace choose (chosenKids p v) := by
  cases p with
  | mk h kids =>
    unfold activeOf
    cases choose (.mk h kids) with
    | none => rfl
    | some v => simp only [activeKids_eq]; rfl

theorem activeSpace_append (choose : PC → Option PVal) (a b : List PC) :
    activeSpace choose (a ++ b) = activeSpace choose a ++ activeSpace choose b := by
  induction a with
  | nil => rfl
  | cons p ps ih => simp only [List.cons_append, activeSpace, ih, List.append_assoc]

theorem allSpace_append (a b : List PC) : allSpace (a ++ b) = allSpace a ++ allSpace b := by
  induction a with
  | nil => rfl
  | cons p ps ih => simp only [List.cons_append, allSpace, ih, List.append_assoc]

theorem sizeSpace_append (a b : List PC) : sizeSpace (a ++ b) = sizeSpace a + sizeSpace b := by
  induction a with
  | nil => simp [sizeSpace]
  | cons p ps ih => simp only [List.cons_append, sizeSpace, ih, Nat.add_assoc]

theorem allOf_eq (p : PC) : allOf p = p :: allKids p.kids := by
  cases p; rfl

/-- the trees below the chosen children are among the trees below all children, in order -/
theorem allSpace_filterMap_sublist (f : PVal → Bool) (kids : List (PVal × PC)) :
    (allSpace (kids.filterMap fun kc => if f kc.1 then some kc.2 else none)).Sublist (allKids kids) := by
  induction kids with
  | nil => exact List.Sublist.refl _
  | cons kc rest ih =>
    obtain ⟨k, c⟩ := kc
    unfold allKids
    by_cases hm : f k = true
    · simp only [hm, if_true, List.filterMap_cons, allSpace]
      exact List.Sublist.append (List.Sublist.refl _) ih
    · simp only [hm, if_false, List.filterMap_cons, Bool.false_eq_true]
      exact ih.trans (List.sublist_append_right _ _)

theorem sizeSpace_filterMap_le (f : PVal → Bool) (kids : List (PVal × PC)) :
    sizeSpace (kids.filterMap fun kc => if f kc.1 then some kc.2 else none) ≤ sizeKids kids := by
  induction kids with
  | nil => simp [sizeSpace, sizeKids]
  | cons kc rest ih =>
    obtain ⟨k, c⟩ := kc
    unfold sizeKids
    by_cases hm : f k = true
    · simp only [hm, if_true, List.filterMap_cons, sizeSpace]; omega
    · simp only [hm, if_false, List.filterMap_cons, Bool.false_eq_true]; omega

theorem size_eq (p : PC) : p.size = 1 + sizeKids p.kids := by cases p; rfl

/-- the active parameters are among all parameters, in order -/
theorem activeSpace_sublist (choose : PC → Option PVal) :
    ∀ (n : Nat) (ss : List PC), sizeSpace ss ≤ n → (activeSpace choose ss).Sublist (allSpace ss) := by
  intro n
  induction n with
  | zero =>
    intro ss h
    cases ss with
    | nil => exact List.Sublist.refl _
    | cons p ps => simp only [sizeSpace, size_eq] at h; omega
  | succ n ih =>
    intro ss h
    cases ss with
    | nil => exact List.Sublist.refl _
    | cons p ps =>
      simp only [sizeSpace, size_eq] at h
      simp only [activeSpace, allSpace, activeOf_eq, allOf_eq]
      refine List.Sublist.append ?_ (ih ps (by omega))
      refine List.Sublist.cons_cons p ?_
      cases choose p with
      | none => exact List.nil_sublist _
      | some v =>
        have h1 := sizeSpace_filterMap_le (fun k => matchesChoice k v) p.kids
        exact (ih (chosenKids p v) (by unfold chosenKids; omega)).trans
          (allSpace_filterMap_sublist (fun k => matchesChoice k v) p.kids)

theorem filterMap_congr' {α β : Type} {l : List α} {f g : α → Option β} (h : ∀ x ∈ l, f x = g x) :
    l.filterMap f = l.filterMap g := by
  induction l with
  | nil => rfl
  | cons a as ih =>
    simp only [List.filterMap_cons, h a (List.mem_cons_self ..)]
    rw [ih (fun x hx => h x (List.mem_cons_of_mem _ hx))]

theorem str_beq (s t : String) : (PVal.str s == PVal.str t) = (s == t) := by
  by_cases h : s = t <;> simp [h]

/-- the subspace the builder descends into is the one the specification calls chosen -/
theorem getSubspace_eq (cfg : Cfg) (p : PC) (v : PVal) (sub : List PC) (hn : nodeOK p = true)
    (h : getSubspace cfg p v = .ok sub) : sub = chosenKids p v := by
  unfold nodeOK at hn
  rw [List.all_eq_true] at hn
  unfold getSubspace at h
  by_cases hc : (p.h.type == .double || p.h.type == .custom) = true
  · rw [if_pos hc] at h
    cases h
    have : p.kids = [] := by
      cases hk : p.kids with
      | nil => rfl
      | cons kc rest =>
        have := hn kc (by rw [hk]; exact List.mem_cons_self ..)
        simp only [Bool.or_eq_true, beq_iff_eq] at hc
        rcases hc with hc | hc <;> rw [hc] at this <;> simp [keyKindOK] at this
    simp [chosenKids, this]
  · rw [if_neg hc] at h
    cases hk : castInternal cfg p.h.type v with
    | error e => rw [hk] at h; cases h
    | ok k =>
      rw [hk] at h
      simp only at h
      cases hf : assertFeasible cfg p.h k with
      | error e => rw [hf] at h; cases h
      | ok u =>
        rw [hf] at h
        cases h
        unfold subspaceOf chosenKids
        apply filterMap_congr'
        intro kc hkc
        have hkind := hn kc hkc
        suffices pyEq kc.1 k = matchesChoice kc.1 v by rw [this]
        unfold castInternal at hk
        cases ht : p.h.type with
        | double => simp [ht] at hc
        | custom => simp [ht] at hc
        | discrete =>
          rw [ht] at hk hkind
          rw [act_num cfg .discrete (Or.inr rfl)] at hk
          obtain ⟨k', c⟩ := kc
          cases k' <;> simp [keyKindOK] at hkind
          cases v with
          | str s => simp at hk
          | int i => simp [asFloat] at hk; subst hk; simp [matchesChoice, pyEq, numOf, strForm]
          | bool b => simp [asFloat] at hk; subst hk; cases b <;> simp [matchesChoice, pyEq, numOf, strForm]
          | flt x => cases x <;> simp [asFloat] at hk <;> subst hk <;> simp [matchesChoice, pyEq, numOf, strForm]
        | integer =>
          rw [ht] at hk hkind
          rw [act_int cfg] at hk
          obtain ⟨k', c⟩ := kc
          cases k' <;> simp [keyKindOK] at hkind
          cases v with
          | str s => simp at hk
          | int i => simp [asInt] at hk; subst hk; simp [matchesChoice, pyEq, numOf, strForm]
          | bool b =>
            simp [asInt] at hk; subst hk
            cases b <;> simp [matchesChoice, pyEq, numOf, strForm, b2i, b2r, Flt.beq]
          | flt x =>
            cases x with
            | nan => simp at hk
            | pinf => cases hg : cfg.intInfGuard <;> simp [hg] at hk
            | ninf => cases hg : cfg.intInfGuard <;> simp [hg] at hk
            | fin q =>
              by_cases hd : q.den = 1
              · simp [hd, asInt] at hk; subst hk
                simp [matchesChoice, pyEq, numOf, strForm, Flt.beq, (intCast_truncQ_eq_iff q).mpr hd]
              · simp [hd] at hk
        | categorical =>
          rw [ht] at hk hkind
          rw [act_cat cfg] at hk
          obtain ⟨k', c⟩ := kc
          cases k' <;> simp [keyKindOK] at hkind
          cases v with
          | str s => simp [asStr] at hk; subst hk; simp [matchesChoice, pyEq, strForm, str_beq]
          | bool b =>
            simp [asStr] at hk; subst hk
            cases b <;> simp [matchesChoice, pyEq, strForm, str_beq, TRUE_VALUE, FALSE_VALUE]
          | int i => simp at hk
          | flt x => simp at hk


/-! ### the worklist invariant -/

theorem roots_sublist (ss : List PC) : ss.Sublist (allSpace ss) := by
  induction ss with
  | nil => exact List.Sublist.refl _
  | cons p ps ih =>
    simp only [allSpace, allOf_eq, List.cons_append]
    exact List.Sublist.cons_cons p (ih.trans (List.sublist_append_right _ _))

theorem spaceAddAll_ok (base extra : List PC) (h : (names (base ++ extra)).Nodup) :
    spaceAddAll base extra = .ok (base ++ extra) := by
  induction extra generalizing base with
  | nil => simp [spaceAddAll]
  | cons p ps ih =>
    unfold spaceAddAll spaceAdd
    have hnot : (base.any fun q => q.name == p.name) = false := by
      rw [List.any_eq_false]
      intro q hq
      simp only [beq_iff_eq]
      intro heq
      simp only [names, List.map_append, List.map_cons] at h
      rw [List.nodup_append] at h
      exact h.2.2 q.name (List.mem_map_of_mem hq) p.name (List.mem_cons_self ..) heq
    rw [hnot]
    simp only [Bool.false_eq_true, if_false]
    have : base ++ p :: ps = (base ++ [p]) ++ ps := by simp
    rw [this] at h ⊢
    exact ih (base ++ [p]) h

structure WalkInv (cfg : Cfg) (choose : PC → Option PVal) (work : List PC) : Prop where
  uniq : (names (allSpace work)).Nodup
  node : ∀ p ∈ allSpace work, nodeOK p = true
  choice : ∀ p ∈ allSpace work, ∀ v, choose p = some v → ∃ sub, getSubspace cfg p v = .ok sub

theorem WalkInv.mono {cfg : Cfg} {choose : PC → Option PVal} {w w' : List PC} (inv : WalkInv cfg choose w)
    (h : (allSpace w').Subperm (allSpace w)) : WalkInv cfg choose w' where
  uniq := by
    obtain ⟨l, hp, hs⟩ := h
    have : (l.map PC.name).Nodup := List.Nodup.sublist (hs.map PC.name) inv.uniq
    exact ((hp.map PC.name).nodup_iff).mp this
  node p hp := inv.node p (h.subset hp)
  choice p hp := inv.choice p (h.subset hp)

theorem mem_allSpace_head (p : PC) (rest : List PC) : p ∈ allSpace (p :: rest) := by
  simp [allSpace, allOf_eq]

/-- one step of the coroutine when a value is chosen -/
theorem step_facts {cfg : Cfg} {choose : PC → Option PVal} {p : PC} {rest : List PC} {v : PVal}
    (inv : WalkInv cfg choose (p :: rest)) (hv : choose p = some v) :
    getSubspace cfg p v = .ok (chosenKids p v) ∧
    (allSpace (chosenKids p v ++ rest)).Sublist (allKids p.kids ++ allSpace rest) ∧
    sizeSpace (chosenKids p v) ≤ sizeKids p.kids := by
  obtain ⟨sub, hs⟩ := inv.choice p (mem_allSpace_head p rest) v hv
  have := getSubspace_eq cfg p v sub (inv.node p (mem_allSpace_head p rest)) hs
  subst this
  refine ⟨hs, ?_, sizeSpace_filterMap_le (fun k => matchesChoice k v) p.kids⟩
  rw [allSpace_append]
  exact List.Sublist.append (allSpace_filterMap_sublist (fun k => matchesChoice k v) p.kids) (List.Sublist.refl _)

theorem names_nodup_of_subperm {l w : List PC} (h : (allSpace l).Subperm (allSpace w))
    (hu : (names (allSpace w)).Nodup) : (names l).Nodup := by
  obtain ⟨m, hp, hs⟩ := h
  have h1 : (m.map PC.name).Nodup := List.Nodup.sublist (hs.map PC.name) hu
  have h2 : ((allSpace l).map PC.name).Nodup := ((hp.map PC.name).nodup_iff).mp h1
  exact List.Nodup.sublist ((roots_sublist l).map PC.name) h2

theorem walk_dfs (cfg : Cfg) (choose : PC → Option PVal) :
    ∀ (n : Nat) (work : List PC), sizeSpace work ≤ n → WalkInv cfg choose work →
      walk cfg false choose n work = .ok (activeSpace choose work) := by
  intro n
  induction n with
  | zero =>
    intro work hsz _
    cases work with
    | nil => rfl
    | cons p ps => simp only [sizeSpace, size_eq] at hsz; omega
  | succ n ih =>
    intro work hsz inv
    cases work with
    | nil => rfl
    | cons p rest =>
      simp only [sizeSpace, size_eq] at hsz
      have hrest : (allSpace rest).Subperm (allSpace (p :: rest)) := by
        simp only [allSpace]
        exact (List.sublist_append_right _ _).subperm
      unfold walk
      simp only [activeSpace, activeOf_eq]
      cases hv : choose p with
      | none =>
        simp only [ih rest (by omega) (inv.mono hrest), Except.map]
        rfl
      | some v =>
        obtain ⟨hs, hsub, hsz'⟩ := step_facts inv hv
        have hsp : (allSpace (chosenKids p v ++ rest)).Subperm (allSpace (p :: rest)) := by
          simp only [allSpace, allOf_eq, List.cons_append]
          exact (hsub.trans (List.sublist_cons_self _ _)).subperm
        have hadd := spaceAddAll_ok (chosenKids p v) rest (names_nodup_of_subperm hsp inv.uniq)
        simp only [hs, hadd, Bool.false_eq_true, if_false]
        rw [ih (chosenKids p v ++ rest) (by rw [sizeSpace_append]; omega) (inv.mono hsp)]
        simp only [Except.map, activeSpace_append, List.cons_append]

theorem walk_bfs (cfg : Cfg) (choose : PC → Option PVal) :
    ∀ (n : Nat) (work : List PC), sizeSpace work ≤ n → WalkInv cfg choose work →
      ∃ l, walk cfg true choose n work = .ok l ∧ l.Perm (activeSpace choose work) := by
  intro n
  induction n with
  | zero =>
    intro work hsz _
    cases work with
    | nil => exact ⟨[], rfl, List.Perm.refl _⟩
    | cons p ps => simp only [sizeSpace, size_eq] at hsz; omega
  | succ n ih =>
    intro work hsz inv
    cases work with
    | nil => exact ⟨[], rfl, List.Perm.refl _⟩
    | cons p rest =>
      simp only [sizeSpace, size_eq] at hsz
      have hrest : (allSpace rest).Subperm (allSpace (p :: rest)) := by
        simp only [allSpace]
        exact (List.sublist_append_right _ _).subperm
      unfold walk
      simp only [activeSpace, activeOf_eq]
      cases hv : choose p with
      | none =>
        obtain ⟨l, hl, hp⟩ := ih rest (by omega) (inv.mono hrest)
        refine ⟨p :: l, by simp only [hl, Except.map], ?_⟩
        exact List.Perm.cons p hp
      | some v =>
        obtain ⟨hs, hsub, hsz'⟩ := step_facts inv hv
        have hperm : (allSpace (rest ++ chosenKids p v)).Perm (allSpace (chosenKids p v ++ rest)) := by
          simp only [allSpace_append]; exact List.perm_append_comm
        have hsp : (allSpace (rest ++ chosenKids p v)).Subperm (allSpace (p :: rest)) := by
          refine List.Subperm.trans hperm.subperm ?_
          simp only [allSpace, allOf_eq, List.cons_append]
          exact (hsub.trans (List.sublist_cons_self _ _)).subperm
        have hadd := spaceAddAll_ok rest (chosenKids p v) (names_nodup_of_subperm hsp inv.uniq)
        obtain ⟨l, hl, hp⟩ := ih (rest ++ chosenKids p v) (by rw [sizeSpace_append]; omega) (inv.mono hsp)
        refine ⟨p :: l, by simp only [hs, hadd, if_true, hl, Except.map], ?_⟩
        simp only [List.cons_append]
        refine List.Perm.cons p (hp.trans ?_)
        rw [activeSpace_append]
        exact List.perm_append_comm


/-! ### trees built by `factory` satisfy `nodeOK` everywhere -/

theorem castInternal_kind {cfg : Cfg} {t : PType} {v k : PVal} (h : castInternal cfg t v = .ok k)
    (hd : t ≠ .double) : keyKindOK t k = true := by
  unfold castInternal at h
  cases hc : assertCorrectType cfg t v with
  | error e => rw [hc] at h; cases h
  | ok u =>
    rw [hc] at h
    cases t with
    | double => exact absurd rfl hd
    | custom => cases h
    | discrete =>
      simp only at h
      cases ha : asFloat v with
      | none => rw [ha] at h; cases h
      | some f => rw [ha] at h; cases h; rfl
    | integer =>
      simp only at h
      cases ha : asInt v with
      | error e => rw [ha] at h; cases h
      | ok o => cases o with
        | none => rw [ha] at h; cases h
        | some i => rw [ha] at h; cases h; rfl
    | categorical =>
      simp only at h
      cases ha : asStr v with
      | none => rw [ha] at h; cases h
      | some s => rw [ha] at h; cases h; rfl

theorem subspaceKey_kind {cfg : Cfg} {h : Hdr} {v k : PVal} (hk : subspaceKey cfg h v = .ok k) :
    keyKindOK h.type k = true := by
  unfold subspaceKey at hk
  by_cases hc : (h.type == .double || h.type == .custom) = true
  · rw [if_pos hc] at hk; cases hk
  · rw [if_neg hc] at hk
    cases hci : castInternal cfg h.type v with
    | error e => rw [hci] at hk; cases hk
    | ok k' =>
      rw [hci] at hk
      simp only at hk
      cases hf : assertFeasible cfg h k' with
      | error e => rw [hf] at hk; cases hk
      | ok u =>
        rw [hf] at hk; cases hk
        refine castInternal_kind hci ?_
        intro hd; simp [hd] at hc

theorem mem_insGroup {k : PVal} {c : PC} {kids : List (PVal × PC)} {x : PVal × PC} :
    x ∈ insGroup k c kids ↔ x = (k, c) ∨ x ∈ kids := by
  induction kids with
  | nil => simp [insGroup]
  | cons y ys ih =>
    unfold insGroup
    by_cases hc : (pyEq y.1 k && !(ys.any fun z => pyEq z.1 k)) = true
    · rw [if_pos hc]; simp only [List.mem_cons]; tauto
    · rw [if_neg hc]; simp only [List.mem_cons, ih]; tauto

theorem addKid_kids {cfg : Cfg} {p p' : PC} {v : PVal} {c : PC} (h : addKid cfg p v c = .ok p') :
    ∀ kc ∈ p'.kids, kc ∈ p.kids ∨ (kc.2 = c ∧ keyKindOK p.h.type kc.1 = true) := by
  unfold addKid at h
  cases hk : subspaceKey cfg p.h v with
  | error e => rw [hk] at h; cases h
  | ok k =>
    rw [hk] at h
    simp only at h
    by_cases hd : ((subspaceOf p k).any fun q => q.name == c.name) = true
    · rw [if_pos hd] at h; cases h
    · rw [if_neg hd] at h; cases h
      intro kc hkc
      simp only [PC.kids] at hkc
      rcases mem_insGroup.mp hkc with rfl | hm
      · exact Or.inr ⟨rfl, subspaceKey_kind hk⟩
      · exact Or.inl hm

theorem addKidForValues_kids {cfg : Cfg} {c : PC} {vs : List PVal} {p p' : PC}
    (h : addKidForValues cfg c p vs = .ok p') :
    ∀ kc ∈ p'.kids, kc ∈ p.kids ∨ (kc.2 = c ∧ keyKindOK p.h.type kc.1 = true) := by
  induction vs generalizing p with
  | nil => unfold addKidForValues at h; cases h; exact fun kc hkc => Or.inl hkc
  | cons v vs ih =>
    unfold addKidForValues at h
    cases hk : addKid cfg p v c with
    | error e => rw [hk] at h; cases h
    | ok p1 =>
      rw [hk] at h
      intro kc hkc
      rcases ih h kc hkc with h1 | h1
      · exact addKid_kids hk kc h1
      · rw [addKid_h hk] at h1; exact Or.inr h1

theorem addChildren_kids {cfg : Cfg} {cs : List (List PVal × PC)} {p p' : PC}
    (h : addChildren cfg p cs = .ok p') :
    ∀ kc ∈ p'.kids, kc ∈ p.kids ∨ ((∃ e ∈ cs, kc.2 = e.2) ∧ keyKindOK p.h.type kc.1 = true) := by
  induction cs generalizing p with
  | nil => unfold addChildren at h; cases h; exact fun kc hkc => Or.inl hkc
  | cons vc rest ih =>
    obtain ⟨vals, c⟩ := vc
    unfold addChildren at h
    cases hs : pySorted vals with
    | error e => rw [hs] at h; cases h
    | ok sv =>
      rw [hs] at h
      simp only at h
      cases hk : addKidForValues cfg c p sv with
      | error e => rw [hk] at h; cases h
      | ok p1 =>
        rw [hk] at h
        intro kc hkc
        rcases ih h kc hkc with h1 | ⟨⟨e, he, hce⟩, h2⟩
        · rcases addKidForValues_kids hk kc h1 with h3 | ⟨h3, h4⟩
          · exact Or.inl h3
          · exact Or.inr ⟨⟨(vals, c), List.mem_cons_self .., h3⟩, h4⟩
        · rw [addKidForValues_h hk] at h2
          exact Or.inr ⟨⟨e, List.mem_cons_of_mem _ he, hce⟩, h2⟩

theorem mem_allKids {kids : List (PVal × PC)} {q : PC} (h : q ∈ allKids kids) : ∃ kc ∈ kids, q ∈ allOf kc.2 := by
  induction kids with
  | nil => simp [allKids] at h
  | cons kc rest ih =>
    obtain ⟨k, c⟩ := kc
    unfold allKids at h
    rcases List.mem_append.mp h with h1 | h1
    · exact ⟨(k, c), List.mem_cons_self .., h1⟩
    · obtain ⟨kc', hm, hq⟩ := ih h1
      exact ⟨kc', List.mem_cons_of_mem _ hm, hq⟩

end VizierModel.Space
