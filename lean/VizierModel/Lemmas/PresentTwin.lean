/-
Lemmas for C17, twin spaces: the BFS loop of `_trial_to_external_values` in the variant that
carries the parent's stored value with each child entry (`extLoopById`, `parentByName = false`)
presents exactly the active parameters that the trial carries, WITHOUT assuming that names are
unique over the whole tree.  It is enough that the names of the parameters that are active
under the trial's own values are pairwise distinct (`ActiveDistinct`): the same name may be
defined under several parent values, at most one of the definitions is active.

The invariant (`LInvTw`) does not mention the configs of the tree at all; it speaks about the
names still to be presented from the queue (`pend`): they are distinct from each other and from
the names accepted so far (`done`), and `remaining` is the trial with exactly `done` erased.
-/
import VizierModel.Lemmas.PresentLoop
namespace VizierModel.Space
set_option linter.unusedSimpArgs false

/-- names of the parameters that are active under the trial's own values are pairwise distinct
(twins under different parent values are allowed: at most one of them is active) -/
def ActiveDistinct (ss : List PC) (t : Assign) : Prop :=
  ((activeSpace (chooseOf t) ss).map PC.name).Nodup

instance (ss : List PC) (t : Assign) : Decidable (ActiveDistinct ss t) := by
  unfold ActiveDistinct; infer_instance

/-- what is actually used: the names of the active parameters that the trial CARRIES are
pairwise distinct (an active parameter the trial does not carry cannot collide with anything
that is presented) -/
def CarriedDistinct (ss : List PC) (t : Assign) : Prop :=
  ((activePresent ss t).map fun pv => pv.1.name).Nodup

theorem ActiveDistinct.carried {ss : List PC} {t : Assign} (h : ActiveDistinct ss t) : CarriedDistinct ss t :=
  List.Nodup.sublist (names_activePresent_sublist ss t) h

/-! ### `eraseKey` -/

theorem lookup_eraseKey_self (a : Assign) (n : String) : lookup (eraseKey a n) n = none := by
  unfold lookup eraseKey
  rw [List.find?_filter]
  rw [Option.map_eq_none_iff, List.find?_eq_none]
  intro e _
  by_cases h : e.1 = n <;> simp [h]

theorem lookup_eraseKey_some {a : Assign} {n m : String} {v : PVal} (h : lookup (eraseKey a n) m = some v) :
    m ≠ n ∧ lookup a m = some v := by
  have hne : m ≠ n := by
    intro heq
    subst heq
    rw [lookup_eraseKey_self] at h
    cases h
  exact ⟨hne, by rw [← lookup_eraseKey_ne a n m hne]; exact h⟩

/-! ### one iteration of the loop -/

theorem extLoopById_empty (n : Nat) (e : QE) (q : List QE) (st : LoopSt) (h : st.remaining.isEmpty = true) :
    extLoopById (n + 1) (e :: q) st = .ok st := by
  rw [extLoopById]
  simp only [h, if_true]

theorem extLoopById_skip (n : Nat) (e : QE) (q : List QE) (st : LoopSt) (hemp : ¬ st.remaining.isEmpty = true)
    (h : lookup st.remaining e.pc.name = none ∨ flagId e = false) :
    extLoopById (n + 1) (e :: q) st = extLoopById n q st := by
  rw [extLoopById]
  rw [if_neg hemp]
  rcases h with h | h
  · rw [h]
  · cases lookup st.remaining e.pc.name with
    | none => rfl
    | some v => simp only [h, Bool.false_eq_true, if_false]

theorem extLoopById_take (n : Nat) (e : QE) (q : List QE) (st : LoopSt) (v : PVal) (x : Option PVal)
    (hemp : ¬ st.remaining.isEmpty = true) (hl : lookup st.remaining e.pc.name = some v)
    (hf : flagId e = true) (hx : cast e.pc.h.ext v = .ok x) :
    extLoopById (n + 1) (e :: q) st =
      extLoopById n (q ++ childEntries e.pc (some v)) (takeParam st e.pc.name v x) := by
  rw [extLoopById]
  rw [if_neg hemp, hl]
  simp only [hf, if_true, hx]

/-! ### the invariant -/

/-- what the specification still expects from the entries of the queue -/
def pend (t : Assign) (q : List QE) : List (String × Option PVal) :=
  q.flatMap fun e => takenOf t (flagId e) e.pc

theorem pend_cons (t : Assign) (e : QE) (q : List QE) : pend t (e :: q) = takenOf t (flagId e) e.pc ++ pend t q := by
  simp [pend]

theorem pend_append (t : Assign) (a b : List QE) : pend t (a ++ b) = pend t a ++ pend t b := by
  simp [pend]

structure LInvTw (t : Assign) (q : List QE) (st : LoopSt) (done : List String) : Prop where
  /-- accepted names and the names still expected are pairwise distinct -/
  nodup : (done ++ (pend t q).map (·.1)).Nodup
  /-- `remaining` agrees with the trial off the accepted names … -/
  rem : ∀ n, n ∉ done → lookup st.remaining n = lookup t n
  /-- … and holds nothing that the trial does not hold -/
  sub : ∀ n v, lookup st.remaining n = some v → lookup t n = some v
  castok : ∀ p ∈ allSpace (q.map QE.pc), ∀ v, lookup t p.name = some v → ∃ x, cast p.h.ext v = .ok x

/-- an entry whose parent condition holds and that the trial carries has not been accepted yet -/
theorem LInvTw.fresh {t : Assign} {q : List QE} {st : LoopSt} {done : List String} (inv : LInvTw t q st done)
    {e : QE} (he : e ∈ q) (hf : flagId e = true) {v : PVal} (hl : lookup t e.pc.name = some v) :
    e.pc.name ∉ done := by
  intro hin
  have hm : e.pc.name ∈ (pend t q).map (·.1) := by
    rw [List.mem_map]
    refine ⟨(e.pc.name, castV e.pc.h.ext v), ?_, rfl⟩
    unfold pend
    rw [List.mem_flatMap]
    refine ⟨e, he, ?_⟩
    rw [hf, takenOf_true t e.pc v hl]
    exact List.mem_cons_self ..
  exact (List.nodup_append.mp inv.nodup).2.2 _ hin _ hm rfl

theorem loop_spec_tw (t : Assign) : ∀ (n : Nat) (q : List QE) (st : LoopSt) (done : List String),
    sizeSpace (q.map QE.pc) ≤ n → LInvTw t q st done →
    ∃ st', extLoopById n q st = .ok st' ∧ ∃ L, st'.ext = st.ext ++ L ∧ L.Perm (pend t q) := by
  intro n
  induction n with
  | zero =>
    intro q st done hsz _
    cases q with
    | nil => exact ⟨st, rfl, [], by simp, List.Perm.refl _⟩
    | cons e q0 => simp only [List.map_cons, sizeSpace, size_eq] at hsz; omega
  | succ n ih =>
    intro q st done hsz inv
    cases q with
    | nil => exact ⟨st, rfl, [], by simp, List.Perm.refl _⟩
    | cons e q0 =>
      simp only [List.map_cons, sizeSpace, size_eq] at hsz
      by_cases hemp : st.remaining.isEmpty = true
      · rw [extLoopById_empty n e q0 st hemp]
        refine ⟨st, rfl, [], by simp, ?_⟩
        have : pend t (e :: q0) = [] := by
          unfold pend
          apply flatMap_nil'
          intro e' he'
          cases hf : flagId e' with
          | false => exact takenOf_false t _
          | true =>
            cases hl : lookup t e'.pc.name with
            | none => exact takenOf_absent t _ _ hl
            | some v =>
              have h1 := inv.rem _ (inv.fresh he' hf hl)
              rw [lookup_isEmpty hemp, hl] at h1
              cases h1
        rw [this]
      · have hsub0 : ∀ p' ∈ allSpace (q0.map QE.pc), p' ∈ allSpace ((e :: q0).map QE.pc) := by
          intro p' hp'
          simp only [List.map_cons, allSpace, List.mem_append]
          exact Or.inr hp'
        have hp_mem : e.pc ∈ allSpace ((e :: q0).map QE.pc) := by simp [allSpace, allOf_eq]
        -- nothing is taken at this entry
        have skip : takenOf t (flagId e) e.pc = [] →
            (lookup st.remaining e.pc.name = none ∨ flagId e = false) →
            ∃ st', extLoopById (n + 1) (e :: q0) st = .ok st' ∧ ∃ L, st'.ext = st.ext ++ L ∧
              L.Perm (pend t (e :: q0)) := by
          intro hnil hcase
          have inv' : LInvTw t q0 st done :=
            { nodup := by
                have h := inv.nodup
                rw [pend_cons, hnil, List.nil_append] at h
                exact h
              rem := inv.rem
              sub := inv.sub
              castok := fun p' hp' => inv.castok p' (hsub0 p' hp') }
          obtain ⟨st', hst', L, hL, hperm⟩ := ih q0 st done (by omega) inv'
          refine ⟨st', ?_, L, hL, ?_⟩
          · rw [extLoopById_skip n e q0 st hemp hcase]; exact hst'
          · rw [pend_cons, hnil, List.nil_append]; exact hperm
        cases hf : flagId e with
        | false => exact skip (by rw [hf]; exact takenOf_false t _) (Or.inr hf)
        | true =>
          cases hl : lookup t e.pc.name with
          | none =>
            refine skip (takenOf_absent t _ _ hl) (Or.inl ?_)
            cases hr : lookup st.remaining e.pc.name with
            | none => rfl
            | some w =>
              have := inv.sub _ _ hr
              rw [hl] at this
              cases this
          | some v =>
            have hnd : e.pc.name ∉ done := inv.fresh (List.mem_cons_self ..) hf hl
            have hrem : lookup st.remaining e.pc.name = some v := by rw [inv.rem _ hnd]; exact hl
            obtain ⟨x, hx⟩ := inv.castok e.pc hp_mem v hl
            rw [extLoopById_take n e q0 st v x hemp hrem hf hx]
            have hsz' : sizeSpace ((q0 ++ childEntries e.pc (some v)).map QE.pc) ≤ n := by
              rw [List.map_append, sizeSpace_append, childEntries_pcs, sizeSpace_map_snd]; omega
            have hsub : ∀ p' ∈ allSpace ((q0 ++ childEntries e.pc (some v)).map QE.pc),
                p' ∈ allSpace ((e :: q0).map QE.pc) := by
              intro p' hp'
              simp only [List.map_append, childEntries_pcs, allSpace_append, allSpace_map_snd, List.mem_append] at hp'
              simp only [List.map_cons, allSpace, allOf_eq, List.cons_append, List.mem_cons, List.mem_append]
              rcases hp' with h | h
              · exact Or.inr (Or.inr h)
              · exact Or.inr (Or.inl h)
            have hpend' : pend t (q0 ++ childEntries e.pc (some v)) = pend t q0 ++ takenKids t v e.pc.kids := by
              rw [pend_append]
              unfold pend
              rw [children_taken_id t e.pc v]
            have htk : takenOf t (flagId e) e.pc = (e.pc.name, x) :: takenKids t v e.pc.kids := by
              rw [hf, takenOf_true t e.pc v hl]
              simp [castV, hx]
            have inv' : LInvTw t (q0 ++ childEntries e.pc (some v)) (takeParam st e.pc.name v x) (done ++ [e.pc.name]) :=
              { nodup := by
                  have h := inv.nodup
                  rw [pend_cons, htk] at h
                  rw [hpend']
                  refine (List.Perm.nodup_iff ?_).mpr h
                  simp only [List.map_append, List.map_cons, List.append_assoc, List.cons_append,
                    List.singleton_append, List.nil_append]
                  exact List.Perm.append_left _ (List.Perm.cons _ List.perm_append_comm)
                rem := by
                  intro m hm
                  have h1 : m ∉ done := fun hh => hm (List.mem_append_left _ hh)
                  have h2 : m ≠ e.pc.name := fun hh => hm (List.mem_append_right _ (by simp [hh]))
                  show lookup (eraseKey st.remaining e.pc.name) m = lookup t m
                  rw [lookup_eraseKey_ne _ _ _ h2]
                  exact inv.rem m h1
                sub := by
                  intro m w hm
                  have hm' : lookup (eraseKey st.remaining e.pc.name) m = some w := hm
                  exact inv.sub m w (lookup_eraseKey_some hm').2
                castok := fun p' hp' => inv.castok p' (hsub p' hp') }
            obtain ⟨st', hst', L, hL, hperm⟩ := ih _ (takeParam st e.pc.name v x) _ hsz' inv'
            refine ⟨st', hst', (e.pc.name, x) :: L, by rw [hL]; simp [takeParam], ?_⟩
            rw [hpend'] at hperm
            rw [pend_cons, htk]
            simp only [List.cons_append]
            exact List.Perm.cons _ (hperm.trans List.perm_append_comm)

theorem pend_rootEntries (t : Assign) (ss : List PC) : pend t (rootEntries ss) = takenSpace t ss :=
  rootEntries_taken_id t ss

/-- the names the specification presents are the names of the active parameters carried -/
theorem takenSpace_names (ss : List PC) (t : Assign) (hb : ∀ n v, lookup t n = some v → isBool v = false) :
    (takenSpace t ss).map (·.1) = (activePresent ss t).map fun pv => pv.1.name := by
  rw [takenSpace_active t hb, presentOf_eq_map, List.map_map]
  rfl

/-- the loop that carries the parent's value, started on a space in which the active parameters
that the trial carries have distinct names -/
theorem extLoopById_presents_carried (ss : List PC) (t : Assign) (hA : CarriedDistinct ss t)
    (hb : ∀ n v, lookup t n = some v → isBool v = false)
    (hc : ∀ p ∈ allSpace ss, ∀ v, lookup t p.name = some v → ∃ x, cast p.h.ext v = .ok x) :
    ∃ st, extLoopById (sizeSpace ss) (rootEntries ss) ⟨t, [], []⟩ = .ok st ∧
      st.ext.Perm ((activePresent ss t).map fun pv => (pv.1.name, castV pv.1.h.ext pv.2)) := by
  have hpcs : (rootEntries ss).map QE.pc = ss := by
    simp [rootEntries, List.map_map, Function.comp_def]
  have inv : LInvTw t (rootEntries ss) ⟨t, [], []⟩ [] :=
    { nodup := by
        rw [List.nil_append, pend_rootEntries, takenSpace_names ss t hb]
        exact hA
      rem := fun _ _ => rfl
      sub := fun _ _ h => h
      castok := by rw [hpcs]; exact hc }
  obtain ⟨st, hst, L, hL, hperm⟩ := loop_spec_tw t (sizeSpace ss) (rootEntries ss) ⟨t, [], []⟩ [] (by rw [hpcs]) inv
  refine ⟨st, hst, ?_⟩
  rw [hL, List.nil_append]
  rw [pend_rootEntries, takenSpace_active t hb, presentOf_eq_map] at hperm
  exact hperm

/-- … in particular when all parameters active under the trial's own values have distinct
names (twins under different parent values allowed) -/
theorem extLoopById_presents_active (ss : List PC) (t : Assign) (hA : ActiveDistinct ss t)
    (hb : ∀ n v, lookup t n = some v → isBool v = false)
    (hc : ∀ p ∈ allSpace ss, ∀ v, lookup t p.name = some v → ∃ x, cast p.h.ext v = .ok x) :
    ∃ st, extLoopById (sizeSpace ss) (rootEntries ss) ⟨t, [], []⟩ = .ok st ∧
      st.ext.Perm ((activePresent ss t).map fun pv => (pv.1.name, castV pv.1.h.ext pv.2)) :=
  extLoopById_presents_carried ss t hA.carried hb hc

end VizierModel.Space
