import VizierModel.Model.StoresEs

namespace VizierModel.StoresEs
open VizierModel.Svc VizierModel.Stores

/-! ### association-list facts -/

section alist
variable {κ β : Type} [BEq κ] [LawfulBEq κ]

theorem aget_nil (k : κ) : aget ([] : List (κ × β)) k = none := rfl

theorem aget_cons (e : κ × β) (l : List (κ × β)) (k : κ) :
    aget (e :: l) k = if e.1 == k then some e.2 else aget l k := by
  unfold aget
  rw [List.find?_cons]
  cases h : e.1 == k <;> simp

theorem any_eq_isSome (l : List (κ × β)) (k : κ) : l.any (·.1 == k) = (aget l k).isSome := by
  induction l with
  | nil => rfl
  | cons e l ih =>
    rw [List.any_cons, aget_cons, ih]
    cases h : e.1 == k <;> simp

theorem aget_append_single (l : List (κ × β)) (k k' : κ) (v : β) :
    aget (l ++ [(k, v)]) k' = match aget l k' with | some x => some x | none => if k == k' then some v else none := by
  induction l with
  | nil => simp [aget_cons, aget_nil]
  | cons e l ih =>
    rw [List.cons_append, aget_cons, aget_cons, ih]
    cases h : e.1 == k' <;> simp

theorem aget_map_set (l : List (κ × β)) (k k' : κ) (v : β) :
    aget (l.map fun e => if e.1 == k then (k, v) else e) k' =
      if k == k' then (if (aget l k).isSome then some v else none) else aget l k' := by
  induction l with
  | nil => simp [aget_nil]
  | cons e l ih =>
    simp only [List.map_cons, aget_cons, ih]
    by_cases hek : e.1 == k
    · have hk : e.1 = k := beq_iff_eq.mp hek
      by_cases hkk : k == k'
      · simp [hkk, hek]
      · have : (e.1 == k') = false := by rw [hk]; simpa using hkk
        simp [hkk, this, hek]
    · by_cases hkk : k == k'
      · have hk' : k = k' := beq_iff_eq.mp hkk
        have : (e.1 == k') = false := by rw [← hk']; simpa using hek
        simp [hkk, this, hek]
      · rw [if_neg hek]
        simp [hkk]

theorem aget_aset (l : List (κ × β)) (k k' : κ) (v : β) :
    aget (aset l k v) k' = if k == k' then some v else aget l k' := by
  unfold aset
  rw [any_eq_isSome]
  cases h : (aget l k).isSome with
  | true =>
    simp only [if_true]
    rw [aget_map_set, h]
    simp
  | false =>
    simp only [Bool.false_eq_true, if_false]
    rw [aget_append_single]
    by_cases hkk : k == k'
    · have hk' : k = k' := beq_iff_eq.mp hkk
      subst hk'
      have : aget l k = none := by
        cases hg : aget l k with
        | none => rfl
        | some x => rw [hg] at h; cases h
      simp [this]
    · simp only [hkk]
      cases aget l k' <;> simp

theorem aget_filter_key (p : κ → Bool) (l : List (κ × β)) (k : κ) :
    aget (l.filter fun e => p e.1) k = if p k then aget l k else none := by
  induction l with
  | nil => simp [aget_nil]
  | cons e l ih =>
    rw [List.filter_cons]
    by_cases hp : p e.1 = true
    · simp only [hp, if_true]
      rw [aget_cons, aget_cons, ih]
      by_cases hek : e.1 == k
      · have : e.1 = k := beq_iff_eq.mp hek
        simp [hek, ← this, hp]
      · simp [hek]
    · have hp' : p e.1 = false := by cases h : p e.1 <;> simp_all
      simp only [hp', Bool.false_eq_true, if_false]
      rw [ih, aget_cons]
      by_cases hek : e.1 == k
      · have : e.1 = k := beq_iff_eq.mp hek
        simp [← this, hp']
      · simp [hek]

theorem aget_adel (l : List (κ × β)) (k k' : κ) :
    aget (adel l k) k' = if k' == k then none else aget l k' := by
  unfold adel
  rw [aget_filter_key (fun x => !(x == k)) l k']
  cases h : k' == k <;> simp

end alist

/-! ### the simulation relation (observational: `get` is the only read) -/

structure Sim (r : RamE) (q : SqlE) : Prop where
  studies : ∀ k, (aget r k).isSome = q.has k
  ops : ∀ k id, (aget r k).bind (fun m => aget m id) = aget q.es (k, id)

theorem sim_empty : Sim [] SqlE.empty := ⟨fun _ => rfl, fun _ _ => rfl⟩

theorem getEs_sim {r : RamE} {q : SqlE} (h : Sim r q) (k : SKey) (id : Nat) : r.getEs k id = q.getEs k id := by
  unfold RamE.getEs SqlE.getEs
  rw [← h.ops k id]
  cases aget r k with
  | none => rfl
  | some m => rfl

theorem has_append_single (q : SqlE) (k k' : SKey) :
    SqlE.has { q with studies := q.studies ++ [k] } k' = (q.has k' || k == k') := by
  unfold SqlE.has
  rw [List.any_append]
  simp

theorem has_filter_ne (l : List SKey) (es : List ((SKey × Nat) × EsOp)) (k k' : SKey) :
    SqlE.has { studies := l.filter (fun s => !(s == k)), es := es } k' =
      (SqlE.has { studies := l, es := es } k' && !(k' == k)) := by
  unfold SqlE.has
  simp only
  induction l with
  | nil => simp
  | cons s l ih =>
    rw [List.filter_cons]
    by_cases hs : s == k
    · have : s = k := beq_iff_eq.mp hs
      subst this
      simp only [hs, Bool.not_true, Bool.false_eq_true, if_false, ih, List.any_cons]
      by_cases hk : s == k'
      · have : s = k' := beq_iff_eq.mp hk
        subst this
        simp
      · have : (k' == s) = false := by rw [Bool.beq_comm]; simpa using hk
        simp [hk, this]
    · simp only [hs, Bool.not_false, if_true, List.any_cons, ih]
      by_cases hk : s == k'
      · have : s = k' := beq_iff_eq.mp hk
        subst this
        simp [hs]
      · simp [hk]

theorem createStudy_sim {r : RamE} {q : SqlE} (h : Sim r q) (k : SKey) :
    (∀ e, r.createStudy k = .error e ↔ q.createStudy k = .error e) ∧
    (∀ r' q', r.createStudy k = .ok r' → q.createStudy k = .ok q' → Sim r' q') ∧
    ((∃ r', r.createStudy k = .ok r') ↔ (∃ q', q.createStudy k = .ok q')) := by
  have hs := h.studies k
  unfold RamE.createStudy SqlE.createStudy
  cases hg : aget r k with
  | some m =>
    rw [hg] at hs
    have hc : q.has k = true := by rw [← hs]; rfl
    simp [hc]
  | none =>
    rw [hg] at hs
    have hc : q.has k = false := by rw [← hs]; rfl
    simp only [hc, Bool.false_eq_true, if_false]
    refine ⟨by intro e; simp, ?_, by simp⟩
    intro r' q' hr hq
    cases hr; cases hq
    constructor
    · intro k'
      rw [aget_aset, has_append_single, ← h.studies k']
      by_cases hkk : k == k' <;> simp [hkk]
    · intro k' id
      rw [aget_aset]
      by_cases hkk : k == k'
      · have : k = k' := beq_iff_eq.mp hkk
        subst this
        simp only [hkk, if_true, Option.bind_some, aget_nil]
        rw [← h.ops k id, hg]; rfl
      · simp only [hkk]; exact h.ops k' id

theorem deleteStudy_sim {r : RamE} {q : SqlE} (h : Sim r q) (k : SKey) :
    (∀ e, r.deleteStudy k = .error e ↔ q.deleteStudy k = .error e) ∧
    (∀ r' q', r.deleteStudy k = .ok r' → q.deleteStudy k = .ok q' → Sim r' q') ∧
    ((∃ r', r.deleteStudy k = .ok r') ↔ (∃ q', q.deleteStudy k = .ok q')) := by
  have hs := h.studies k
  unfold RamE.deleteStudy SqlE.deleteStudy
  cases hg : aget r k with
  | none =>
    rw [hg] at hs
    have hc : q.has k = false := by rw [← hs]; rfl
    simp [hc]
  | some m =>
    rw [hg] at hs
    have hc : q.has k = true := by rw [← hs]; rfl
    simp only [hc, if_true]
    refine ⟨by intro e; simp, ?_, by simp⟩
    intro r' q' hr hq
    cases hr; cases hq
    constructor
    · intro k'
      rw [aget_adel, has_filter_ne]
      change _ = (q.has k' && !(k' == k))
      rw [← h.studies k']
      by_cases hkk : k' == k <;> simp [hkk]
    · intro k' id
      rw [aget_adel]
      have hf := aget_filter_key (β := EsOp) (fun (x : SKey × Nat) => !(x.1 == k)) q.es (k', id)
      simp only at hf
      rw [hf]
      by_cases hkk : k' == k
      · simp [hkk]
      · simp only [hkk, Bool.false_eq_true, if_false, Bool.not_false, if_true]; exact h.ops k' id

theorem pair_beq (k k' : SKey) (a b : Nat) : (((k, a) : SKey × Nat) == (k', b)) = (k == k' && a == b) := by
  rfl

/-- writing operation `o` under study `k` (which exists on the RAM side) into both stores keeps them related -/
theorem set_sim {r : RamE} {q : SqlE} (h : Sim r q) (k : SKey) (m : List (Nat × EsOp)) (hm : aget r k = some m)
    (o : EsOp) :
    Sim (aset r k (aset m o.trialId o)) { q with es := aset q.es (k, o.trialId) o } := by
  constructor
  · intro k'
    rw [aget_aset]
    by_cases hkk : k == k'
    · have : k = k' := beq_iff_eq.mp hkk
      subst this
      simp only [hkk, if_true, Option.isSome_some]
      change true = q.has k
      rw [← h.studies k, hm]; rfl
    · simp only [hkk]; exact h.studies k'
  · intro k' id
    change _ = aget (aset q.es (k, o.trialId) o) (k', id)
    rw [aget_aset, aget_aset, pair_beq]
    by_cases hkk : k == k'
    · have : k = k' := beq_iff_eq.mp hkk
      subst this
      simp only [hkk, if_true, Option.bind_some, Bool.true_and]
      rw [aget_aset]
      by_cases hid : o.trialId == id
      · simp [hid]
      · simp only [hid]
        rw [← h.ops k id, hm]; rfl
    · simp only [hkk, Bool.false_and]; exact h.ops k' id

theorem exec_sim {r : RamE} {q : SqlE} (h : Sim r q) (op : EOp) :
    (∀ e, r.exec op = .error e ↔ q.exec op = .error e) ∧
    (∀ r' q', r.exec op = .ok r' → q.exec op = .ok q' → Sim r' q') ∧
    ((∃ r', r.exec op = .ok r') ↔ (∃ q', q.exec op = .ok q')) := by
  cases op with
  | createStudy k => exact createStudy_sim h k
  | deleteStudy k => exact deleteStudy_sim h k
  | createEs k o =>
    simp only [RamE.exec, SqlE.exec]
    have hs := h.studies k
    have ho := h.ops k o.trialId
    unfold RamE.createEs SqlE.createEs
    cases hg : aget r k with
    | none =>
      rw [hg] at hs
      have hc : q.has k = false := by rw [← hs]; rfl
      simp [hc]
    | some m =>
      rw [hg] at hs ho
      have hc : q.has k = true := by rw [← hs]; rfl
      simp only [hc, if_true, Option.bind_some] at ho ⊢
      rw [← ho]
      cases hm : aget m o.trialId with
      | some x => simp
      | none =>
        refine ⟨by intro e; simp, ?_, by simp⟩
        intro r' q' hr hq
        cases hr; cases hq
        exact set_sim h k m hg o
  | updateEs k o =>
    simp only [RamE.exec, SqlE.exec]
    rw [getEs_sim h]
    have ho := h.ops k o.trialId
    cases hge : q.getEs k o.trialId with
    | error e => simp
    | ok x =>
      simp only
      have hq : ∃ y, aget q.es (k, o.trialId) = some y := by
        unfold SqlE.getEs at hge
        cases hh : aget q.es (k, o.trialId) with
        | none => rw [hh] at hge; cases hge
        | some y => exact ⟨y, rfl⟩
      obtain ⟨y, hy⟩ := hq
      rw [hy] at ho
      unfold RamE.updateEs SqlE.updateEs
      cases hg : aget r k with
      | none => rw [hg] at ho; cases ho
      | some m =>
        simp only [hy]
        refine ⟨by intro e; simp, ?_, by simp⟩
        intro r' q' hr hq'
        cases hr; cases hq'
        exact set_sim h k m hg o

theorem runE_sim (ops : List EOp) : ∀ (r : RamE) (q : SqlE), Sim r q →
    (r.runE ops).2 = (q.runE ops).2 ∧ Sim (r.runE ops).1 (q.runE ops).1 := by
  induction ops with
  | nil => intro r q h; exact ⟨rfl, h⟩
  | cons op ops ih =>
    intro r q h
    have hs := exec_sim h op
    unfold RamE.runE SqlE.runE
    cases hr : r.exec op with
    | error e =>
      have hq : q.exec op = .error e := (hs.1 e).mp hr
      have := ih r q h
      simp only [hq, this.1]
      exact ⟨trivial, this.2⟩
    | ok r' =>
      obtain ⟨q', hq⟩ := hs.2.2.mp ⟨r', hr⟩
      have := ih r' q' (hs.2.1 r' q' hr hq)
      simp only [hq, this.1]
      exact ⟨trivial, this.2⟩

end VizierModel.StoresEs
