import VizierModel.Lemmas.Meta
namespace VizierModel.Meta

variable {κ ν : Type} [DecidableEq κ]

theorem lastWrite_cons (u : Upd κ ν) (us : List (Upd κ ν)) (t : Target) (k : κ) :
    lastWrite (u :: us) t k = match lastWrite us t k with
      | some v => some v | none => if u.tgt = t ∧ u.k = k then some u.v else none := by
  unfold lastWrite
  rw [List.reverse_cons, List.find?_append]
  cases h : List.find? (fun u => decide (u.tgt = t ∧ u.k = k)) us.reverse with
  | some w => simp
  | none =>
    by_cases hu : u.tgt = t ∧ u.k = k
    · simp [List.find?, hu]
    · simp [List.find?, hu]

theorem lastWrite_nil (t : Target) (k : κ) : lastWrite ([] : List (Upd κ ν)) t k = none := rfl

theorem lastWrite_trial (us : List (Upd κ ν)) (id : Nat) (k : κ) :
    lastWrite us (.trial id) k = lookupLast (trialPart us id) k := by
  induction us with
  | nil => rfl
  | cons u us ih =>
    rw [lastWrite_cons, ih]
    unfold trialPart
    rw [List.filterMap_cons]
    cases ht : u.tgt with
    | study =>
      simp only [reduceCtorEq, false_and, if_false]
      cases lookupLast _ k <;> rfl
    | trial j =>
      by_cases hj : j = id
      · subst hj
        simp only [if_true, true_and]
        rw [lookupLast_cons]
        rfl
      · have : ¬ (Target.trial j = Target.trial id) := fun e => hj (by cases e; rfl)
        simp only [hj, if_false, this, false_and]
        cases lookupLast _ k <;> rfl

theorem lastWrite_study (us : List (Upd κ ν)) (k : κ) :
    lastWrite us .study k = lookupLast (studyPart us) k := by
  induction us with
  | nil => rfl
  | cons u us ih =>
    rw [lastWrite_cons, ih]
    unfold studyPart
    rw [List.filterMap_cons]
    cases ht : u.tgt with
    | study =>
      simp only [true_and]
      rw [lookupLast_cons]
      rfl
    | trial j =>
      simp only [reduceCtorEq, false_and, if_false]
      cases lookupLast _ k <;> rfl

theorem mem_namedIds (us : List (Upd κ ν)) (id : Nat) :
    id ∈ namedIds us ↔ ∃ u ∈ us, u.tgt = .trial id := by
  unfold namedIds
  rw [List.mem_eraseDups, List.mem_filterMap]
  constructor
  · rintro ⟨u, hu, h⟩
    refine ⟨u, hu, ?_⟩
    cases ht : u.tgt with
    | study => simp [ht] at h
    | trial j => simp [ht] at h; rw [h]
  · rintro ⟨u, hu, h⟩
    exact ⟨u, hu, by simp [h]⟩

theorem lastWrite_none_of_not_named (us : List (Upd κ ν)) (id : Nat) (k : κ)
    (h : id ∉ namedIds us) : lastWrite us (.trial id) k = none := by
  unfold lastWrite
  rw [Option.map_eq_none_iff, List.find?_eq_none]
  intro u hu
  simp only [decide_eq_true_eq, not_and]
  intro ht
  exact absurd ((mem_namedIds us id).mpr ⟨u, List.mem_reverse.mp hu, ht⟩) h

theorem lastWrite_some_named (us : List (Upd κ ν)) (id : Nat) (k : κ) (v : ν)
    (h : lastWrite us (.trial id) k = some v) : id ∈ namedIds us := by
  by_cases hm : id ∈ namedIds us
  · exact hm
  · rw [lastWrite_none_of_not_named us id k hm] at h; cases h

theorem hasTrial_eq (s : Store κ ν) (id : Nat) : hasTrial s id = (s.trials.map (·.1)).contains id := by
  unfold hasTrial
  induction s.trials with
  | nil => rfl
  | cons t ts ih =>
    simp only [List.any_cons, List.map_cons, List.contains_cons, ih]
    congr 1
    by_cases h : t.1 = id
    · simp [h]
    · have h' : ¬ id = t.1 := fun e => h e.symm
      simp [h, h']

/-- a successful update is exactly last-writer-wins on every `(target, key)` and keeps the trial set -/
theorem view_updateAtomic {lt : κ → κ → Bool} (hl : StrictTotal lt) (s s' : Store κ ν) (us : List (Upd κ ν))
    (h : updateAtomic lt s us = .ok s') (t : Target) (k : κ) :
    view s' t k = lww (lastWrite us t k) (view s t k) ∧ s'.trials.map (·.1) = s.trials.map (·.1) := by
  unfold updateAtomic at h
  by_cases hall : (namedIds us).all (hasTrial s) = true
  · rw [if_pos hall] at h
    injection h with h
    subst h
    refine ⟨?_, map_fst_foldl lt us _ _⟩
    cases t with
    | study =>
      simp only [view]
      rw [lookupLast_merge hl, lastWrite_study]; rfl
    | trial id =>
      rw [view_trial, view_trial]
      simp only
      rw [tview_foldl hl, lastWrite_trial]
      by_cases hm : id ∈ namedIds us
      · have hp : hasTrial s id = true := (List.all_eq_true.mp hall) id hm
        unfold hasTrial at hp
        simp [hm, hp]
      · have := lastWrite_none_of_not_named us id k hm
        rw [lastWrite_trial] at this
        simp [hm, this, lww]
  · rw [if_neg hall] at h; cases h

theorem ids_updateAtomic {lt : κ → κ → Bool} (s s' : Store κ ν) (us : List (Upd κ ν))
    (h : updateAtomic lt s us = .ok s') : s'.trials.map (·.1) = s.trials.map (·.1) := by
  unfold updateAtomic at h
  by_cases hall : (namedIds us).all (hasTrial s) = true
  · rw [if_pos hall] at h
    injection h with h
    subst h
    exact map_fst_foldl lt us _ _
  · rw [if_neg hall] at h; cases h

end VizierModel.Meta
