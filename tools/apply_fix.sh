#!/bin/sh
# tools/apply_fix.sh <name>   applies /verif/fixes/<name>.diff to /repo as one "fix:" commit
set -e
n="$1"
cd /repo
git apply --check "/verif/fixes/$n.diff"
git apply "/verif/fixes/$n.diff"
git add -A vizier
git commit -q -F "/verif/fixes/$n.msg"
git log --oneline | head -1
