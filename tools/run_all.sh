#!/bin/sh
# tools/run_all.sh [quick|thorough] [seed]  — runs every claimed check on /repo, 4 at a time, prints a summary
TIER=${1:-quick}; SEED=${2:-0}
cd /verif
IDS=$(python3 -c "import json; print(' '.join(c['property_id'] for c in json.load(open('MANIFEST.json'))['checks']))")
mkdir -p /tmp/run_all
for id in $IDS; do echo $id; done | xargs -P 4 -I{} sh -c "VERIF_SEED=$SEED ./check {} --tier $TIER > /tmp/run_all/{}.out 2>/tmp/run_all/{}.err; echo {} exit=\$? >> /tmp/run_all/summary.$$"
sort /tmp/run_all/summary.$$; grep -l "^VIOLATION" /tmp/run_all/*.out 2>/dev/null; rm -f /tmp/run_all/summary.$$
