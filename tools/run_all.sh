#!/bin/sh
# tools/run_all.sh [quick|thorough] [seed]  — runs every claimed check (of the checkout this script lives in) on
# /repo, 4 at a time, prints a summary; per-check output under $OUT (default /tmp/run_all)
TIER=${1:-quick}; SEED=${2:-0}
cd "$(dirname "$0")/.."
OUT=${OUT:-/tmp/run_all}
IDS=$(python3 -c "import json; print(' '.join(c['property_id'] for c in json.load(open('MANIFEST.json'))['checks']))")
mkdir -p $OUT
for id in $IDS; do echo $id; done | xargs -P 4 -I{} sh -c "VERIF_SEED=$SEED ./check {} --tier $TIER > $OUT/{}.out 2>$OUT/{}.err; echo {} exit=\$? >> $OUT/summary.$$"
sort $OUT/summary.$$; grep -l "^VIOLATION" $OUT/*.out 2>/dev/null; rm -f $OUT/summary.$$
