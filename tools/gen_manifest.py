#!/usr/bin/env python3
"""Regenerates MANIFEST.json from the table below (single source of truth)."""
import json, os
HERE = os.path.dirname(os.path.dirname(os.path.abspath(__file__)))
ALL = ['C%02d' % i for i in range(1, 21)]

CHECKS = {
 'C10': dict(
   text='Lean 4 proofs over a hand-written model of Namespace.encode/_parse, metadata_util.merge_* and the datastores\' update_metadata: round trip and injectivity of the namespace codec for every namespace without a component ending in a backslash (the full statement is refuted by a kernel-checked witness = known finding), merge is sorted last-writer-wins for all inputs, a failed update changes nothing, and every history of updates/creations/deletions refines the abstract last-writer-wins map (induction over histories, no bound). Tied to the code on every run by a correspondence check (codec on adversarial alphabets, merge functions, update histories through the real service on RAM and SQLite vs the model driver).',
   design_ref='DESIGN.md 6/C10',
   note='Trusted: Lean kernel + 3 standard axioms; the hand-written model (values opaque; proto Any packing not modelled); the correspondence harness and shims. Trial ids in updates are canonical decimals. The known finding (trailing backslash) is reported from a replay on the real code.',
   technique='Lean 4 theorem proving (induction / refinement) + model-vs-code correspondence check'),
}

NOT_YET = 'not yet built in this session (machinery in progress; see DESIGN.md section 7 build order)'

def main():
  checks = []
  for pid in ALL:
    if pid in CHECKS:
      c = CHECKS[pid]
      checks.append({
        'property_id': pid,
        'quick_cmd': './check %s --tier quick' % pid,
        'thorough_cmd': './check %s --tier thorough' % pid,
        'evidence_file': 'evidence/%s.json' % pid,
        'replay_cmd_template': './check %s --replay {path}' % pid,
        'engine': 'lean-model+correspondence',
        'level_claimed': {'category': 'proof', 'text': c['text'], 'design_ref': c['design_ref']},
        'level_note': c['note'],
        'technique': c['technique'],
      })
  m = {
    'version': 1,
    'setup_cmd': 'cd lean && lake build',
    'hooks': {
      'guard': 'VIZIER_VERIF',
      'enable': 'no source hooks in /repo: all instrumentation is injected from the harness process (./check exports VIZIER_VERIF=1 for uniformity)',
      'baseline_off_cmd': 'cd /repo && env -u VIZIER_VERIF /venv/bin/python -m pytest -ra -q -p no:cacheprovider --timeout=900 --continue-on-collection-errors',
      'source_commits': [],
      'add_only': True,
    },
    'engines': [{
      'name': 'lean-model+correspondence', 'path': 'lean/ + harness/',
      'serves_properties': sorted(CHECKS),
      'kind_free_text': 'Lean 4 models and theorems (lake project lean/, no Mathlib in models), axiom audit, JSON line-protocol drivers (lake env lean --run), Python correspondence harness driving the real code in-process',
    }],
    'checks': checks,
    'notes': 'Exit 2 = infrastructure failure (never a verdict). known_findings.json lists recorded defects; fixed defects are listed there as "fixed:" lines and suppress nothing.',
    'not_applicable': [{'property_id': p, 'reason': NOT_YET} for p in ALL if p not in CHECKS],
  }
  json.dump(m, open(os.path.join(HERE, 'MANIFEST.json'), 'w'), indent=1)

if __name__ == '__main__':
  main()
