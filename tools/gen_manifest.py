#!/usr/bin/env python3
"""Regenerates MANIFEST.json from the table below (single source of truth)."""
import json, os
HERE = os.path.dirname(os.path.dirname(os.path.abspath(__file__)))
ALL = ['C%02d' % i for i in range(1, 21)]

CHECKS = {
 'C10': dict(
   text='Lean 4 proofs over a hand-written model of Namespace.encode/_parse, metadata_util.merge_* and the datastores\' update_metadata: round trip and injectivity of the namespace codec for every namespace without a component ending in a backslash (the full statement is refuted by a kernel-checked witness = known finding), merge is sorted last-writer-wins for all inputs, a failed update changes nothing, and every history of updates/creations/deletions refines the abstract last-writer-wins map (induction over histories, no bound). Tied to the code on every run by a correspondence check (codec on adversarial alphabets, merge functions, update histories through the real service on RAM and SQLite vs the model driver).',
   design_ref='DESIGN.md 6/C10',
   note='Trusted: Lean kernel + 3 standard axioms; the hand-written model (values opaque; proto Any packing not modelled); the correspondence harness and shims. Trial ids in updates are canonical decimals. The known finding (trailing backslash) is reported from a replay on the real code.',
   technique='Lean 4 theorem proving (induction / refinement) + model-vs-code correspondence check'),
 'C01': dict(
   text='Lean 4 proofs over M1 (Model/Service.lean: every RPC body of vizier_service.py over a datastore state, the algorithm\'s outcome being a parameter of each request): for every history and every variant flag, every call evolves each study\'s trials legally (only REQUESTED->ACTIVE->(STOPPING->)SUCCEEDED|INFEASIBLE, parameters fixed, completed trials frozen up to metadata, worker fixed after hand-out, fresh unique ids) — induction over histories with a datastore invariant; a failing call leaves all stored data unchanged; the documented error class for missing/inactive studies and missing/immutable trials. M1 is the sequential reference model of the property: a correspondence check replays stateful generated histories on the real servicer (RAM + SQLite) and on the model and compares every response and per-step snapshot; the Lean predicates judge the real snapshots.',
   design_ref='DESIGN.md 6/C01',
   note='Trusted: Lean kernel + 3 standard axioms; M1 is hand-written (protobuf copy semantics, deepcopy, SQLAlchemy modelled as values; timestamps, messages, ListOptimalTrials content not modelled); harness, shims, scripted Pythia. Local-context semantics of handle_exception (raise); the gRPC path is C08.',
   technique='Lean 4 theorem proving (invariant by induction over RPC histories) + model-vs-code correspondence check'),
 'C02': dict(
   text='Lean 4 proofs over M1\'s SuggestTrials (own-active, queue, algorithm stages; algorithm answer arbitrary): hands out exactly min(N, own+queued+delivered) trials, all ACTIVE and owned by the caller, in own/queued/new order; with >= N own ACTIVE trials it returns the first N of them and creates nothing (sticky); a trial\'s worker never changes after it left REQUESTED (no double assignment, all histories); surplus suggestions are queued as REQUESTED and nothing is dropped; every new trial id exceeds every existing id. Tied to the code by suggest-heavy stateful histories on RAM and SQLite, model vs real per step, Lean predicates judging the real responses and snapshots.',
   design_ref='DESIGN.md 6/C02',
   note='Trusted as C01. The count formula is judged on real runs only when the worker has no unfinished operation and the algorithm\'s metadata delta is accepted. Client-layer suggest (clients.py) is exercised in C08.',
   technique='Lean 4 theorem proving + model-vs-code correspondence check'),
 'C06': dict(
   text='Lean 4 proofs over M1 with the algorithm outcome arbitrary (raises RpcError / any other exception / delivers 0..N+k): for every history the repaired service never leaves an unfinished suggestion operation (invariant by induction), every SuggestTrials answer is a new finished operation, an algorithm exception is reported as an operation error, a short delivery is handed out, lifecycle invariants survive the failure, an early-stopping exception finishes the trial\'s record; kernel-checked counterexamples for the pinned-commit variants (wedged operation / IndexError / early-stop record stuck ACTIVE) identify regressions. Tie: 45%-failure histories model vs real, plus fault injection through the real PythiaServicer in-process and behind a real gRPC Pythia server with eight exception types at first/k-th/every call, and the client polling loop with a poll bound.',
   design_ref='DESIGN.md 6/C06',
   note='Trusted as C01; gRPC transport (remote exception arrives as RpcError). Early-stopping decisions that omit the requested trial leave its record ACTIVE (policy contract says this does not happen; not claimed). Defects D1 and the early-stop wedge were repaired by fix: commits.',
   technique='Lean 4 theorem proving (invariant over histories with arbitrary failing oracle) + fault-injection correspondence check'),
 'C07': dict(
   text='One Lean service model serves both datastores; the theorems are: equal variant flags give equal responses and stored data for every history (the model is a function of the history), the datastore invariants hold after every history, and each pinned-commit difference between ram_datastore.py and sql_datastore.py (delete_study leaving operation rows; non-atomic RAM update_metadata) yields a kernel-checked observable divergence. That RAM, in-memory SQLite and a SQLite file all correspond to that one model — and to each other, which is the property itself — is checked on every run on stateful histories biased to delete/re-create, failing metadata updates, early-stopping checks and operation lookups, per step, responses and full snapshots.',
   design_ref='DESIGN.md 6/C07',
   note='The representation-level simulation (nested dicts vs SQL tables) is NOT modelled: proof strength is limited to the shared model + flags; the backend equivalence itself rests on the differential check (3 backends pairwise, every step). Trusted: SQLite row order, SQLAlchemy. Both divergences found were repaired by fix: commits.',
   technique='Lean 4 model shared by both backends + three-backend differential correspondence check'),
 'C08': dict(
   text='Lean 4 proofs over M4 (Model/Deploy.lean: how each servicer outcome of M1 reaches a caller through the in-process path and through gRPC, and the client layer of clients.py on top): for every servicer outcome and hence for every history the error class seen by a caller is the same in all three deployments; an algorithm failure is reported identically whether Pythia runs in-process (raw exception) or behind gRPC (RpcError); the promised exceptions (ResourceNotFoundError for a missing trial/study, [] for a finished study) are produced in every deployment; kernel-checked counterexamples for the pinned commit (UNKNOWN instead of NOT_FOUND over gRPC; handle_exception not stopping the servicer behind gRPC, so a refused CompleteTrial overwrites a completed trial). Tie/property on every run: stateful RPC histories and client-level programs replayed against the in-process servicer, a real gRPC server and a real gRPC server with a separate gRPC Pythia server, compared per step on responses (errors by class) and full datastore snapshots.',
   design_ref='DESIGN.md 6/C08',
   note='Trusted: the two gRPC transport rules (an uncaught servicer exception arrives as UNKNOWN; context.abort(code) arrives as that code), loopback only; M1/M4 hand-written. Error classes compared: FAILED_PRECONDITION, NOT_FOUND, ALREADY_EXISTS, other. Two genuine defects repaired by fix: commits (handle_exception aborts; lookup errors mapped + get_trial translation).',
   technique='Lean 4 theorem proving over a transport/client model + three-deployment differential correspondence check'),
 'C05': dict(
   text='Lean 4 proofs over the crash model M3 (Model/Crash.lean: every SQL datastore write call is one transaction, a crash keeps a prefix of the RPC\'s write calls): single-resource RPCs are all-or-nothing; the write list of SuggestTrials replays exactly to M1\'s result (acknowledged = durable); after ANY prefix of SuggestTrials\' writes the trials are a legal evolution of the pre-crash trials (unique increasing ids, legal states, completed trials untouched) and the datastore invariant holds, so C01/C02 apply from the recovered state; any worker without an unfinished operation gets a finished operation after restart and an ACTIVE trial can be completed; kernel-checked witness of the one exception (the crashed worker\'s own abandoned operation = known finding). Tie on every run: SQL statement/commit tracing shows every datastore call is a single transaction, and process death (os._exit in a forked child) is injected before EVERY SQL event of each RPC kind after several prefixes on a SQLite file; the restarted server\'s snapshot must be one of the model\'s crash states, is judged by the Lean predicates, and a continuation (suggest + complete) is run.',
   design_ref='DESIGN.md 6/C05',
   note='Trusted: SQLite rollback-journal atomicity, fsync, file system (crash = process death, not power loss); SQLAlchemy autobegin/commit semantics as traced; M1/M3 hand-written. Early-stopping records left ACTIVE by a crash are outside the property\'s continuation clause (advisory answer).',
   technique='Lean 4 theorem proving (prefix-closed invariant over the write log) + exhaustive crash-point injection on the real SQLite-backed service'),
 'C09': dict(
   text='Lean 4 model of the wire converters (Model/Wire.lean: Python-side and proto-side mirror types with proto presence semantics, message-constructor copy semantics, ordered dicts) for parameter configs of any nesting depth, search space, metric information, measurement, trial, suggestion, metadata / metadata delta (re-using the namespace codec), problem statement / study config and the Pythia request/decision wrappers; theorems fromProto(toProto x) = norm x and toProto∘fromProto∘toProto = toProto for every pair (structural induction on the parameter tree), microsecond time round trip; for the four defects of the pinned commit (nanos never read, falsy default dropped, grandchildren lost, infeasible end time) counterexample theorems plus partial theorems, full theorems for the repaired converters. Tie: 25 proto-schema obligations re-derived from the .proto files each run, variant identification by witness replay, type-directed generated objects through the real to_proto/from_proto and the model compared at all three stages via canonical JSON; property judged on the real outputs; dense real timestamp sweep.',
   design_ref='DESIGN.md 6/C09',
   note='StudyConfig is partial (metrics in name order), EarlyStopDecisions partial (prediction present), metadata excludes namespaces with a trailing backslash (C10). Numbers are exact rationals in the model; float arithmetic on elapsed seconds and timestamps is covered only by the real-code streams (tolerance 1 ns + 4 ulp, microsecond resolution). from_proto validation errors are outside the model. Four known findings (UNIFORM_DISCRETE, metric order, empty prediction, trailing backslash); four defects repaired by fix: commits.',
   technique='Lean 4 theorem proving (round-trip / idempotence by structural induction, variant flags) + differential correspondence through canonical JSON + proto-schema obligations'),
 'C11': dict(
   text='Lean 4 proofs over M7 (Model/Pareto*.lean, generic in any strict total order, any dimension/size, duplicates, ties, ±inf as extreme elements): the naive sweep, both is_pareto_optimal_against variants, the recursive divide-and-conquer against-algorithm (every threshold, every sorting permutation), the sharded jax filter and both rank functions equal the definitional front; ListOptimalTrials (SUCCEEDED / all-metrics / NaN filter, MINIMIZE as order reversal) and multi-objective GetBestTrials return exactly the definition\'s optimal trials; the as-written defects of the pinned commit carry counterexample + partial theorems, the repaired variants full theorems. A correspondence check ties the real Naive/Fast/Jax routines, both rank functions, ListOptimalTrials on RAM+SQLite(+client) and InRamPolicySupporter.GetBestTrials to the model on small-integer-grid multisets (ties the norm) and service histories, every real output judged by the Lean definitional front; exhaustive enumeration of short point sequences.',
   design_ref='DESIGN.md 6/C11',
   note='Trusted: floats order-embedded as integers (grid values float32-exact); numpy argsort abstracted as any sorting permutation; single-objective GetBestTrials is checked, not proved (one known finding: returns one of several tied trials); recursive_threshold >= 1; <= 10000 trials for GetBestTrials. Four defects repaired by fix: commits.',
   technique='Lean 4 theorem proving (sweep invariant, fuel-bounded divide and conquer, refinement to a definitional filter) + model-vs-code correspondence with witness-identified variants'),
 'C13': dict(
   text='Lean 4: restart transparency proved generically for any designer whose load∘dump is observationally the identity on reachable states (induction over steps, any subset of steps at which dump -> fresh -> load is inserted, any constructor seed); that premise and its consequences (mixed-radix bijection, every grid point exactly once then the same order again, balanced prefixes, Halton index = skip + j) proved for the grid and quasi-random designers; a phase/counter model of the evolution template with a kernel-checked counterexample for the pinned commit (trial counter not dumped) and the round trip once it is. Tie: differential runs of the REAL designers (live vs restarted at generated step subsets) through vz.Metadata, KeyValue proto bytes, a rebuilt designer policy and the real SQLite-file service with server restarts; Lean supplies the grid enumeration and the each-once / balanced judges applied to the real suggestions.',
   design_ref='DESIGN.md 6/C13',
   note='For eagle / NSGA-II / CMA-ES the premise load∘dump ≈ id is NOT proved (numeric arrays + library RNG state): it is established per run by the differential tie and lifted by the generic theorem (partial). String/float codecs and library RNG determinism are correspondence items. Two known findings (NSGA-II sampler state, CMA-ES partial population not persisted); three defects repaired by fix: commits (shuffled grid hosting, NSGA-II trial counter, CMA_ES seed=None).',
   technique='Lean 4 theorem proving (generic restart theorem + grid/Halton instances) + differential correspondence on the real designers and the real service'),
 'C04': dict(
   text='Lean 4: for every initial study, every pair of study-lock RPCs (CompleteTrial, AddTrialMeasurement, StopTrial, CreateTrial, UpdateMetadata, SetStudyState) with arbitrary arguments and every interleaving of their unguarded study checks and critical sections, what both callers observe (success / error class, trials handed out) and the final stored study equal those of one of the two serial orders (critical sections are M1\'s RPC bodies; proof by state-independence / commutation lemmas). The tie to the current source is a translator: on every run the per-RPC table of datastore calls and the service locks held around each is regenerated from the AST of vizier_service.py into Lean, and kernel-checked obligations require it to equal the model\'s table and to satisfy the lock discipline (all critical calls of those RPCs under the study lock; every study-data write under the study lock; id allocation under the study lock); kernel-checked witnesses of the two pinned-commit races (duplicate id, lost metadata update). The property itself is decided on the REAL servicer by a deterministic scheduler that runs pairs of RPCs (22 request templates of the 11 RPC kinds, three prefixes, RAM and SQLite) under EVERY interleaving of datastore calls and lock acquisitions and compares each outcome (renumbering new trials, early-stop answers exempt) with both serial orders; deadlocks are reported.',
   design_ref='DESIGN.md 6/C04',
   note='PARTIAL: theorems cover two threads, study-lock RPCs, at critical-section granularity (mutual exclusion of threading.Lock and atomicity of a datastore call under the datastore lock are trusted; the translator\'s completeness is trusted). SuggestTrials, CheckTrialEarlyStoppingState, DeleteTrial, DeleteStudy, CreateStudy pairs and all schedules at datastore-call granularity are covered by the exhaustive exploration on the real code only; three concurrent RPCs are not explored. UpdateMetadataResponse.error_details is compared as the NOT_FOUND class. Five races repaired by fix: commits.',
   technique='Lean 4 theorem proving (two-thread serialisability by commutation) + AST translator with kernel-checked shape obligations + exhaustive schedule exploration on the real servicer'),
 'C18': dict(
   text='Lean 4 + Mathlib ordered-field proofs over a model of the output warpers (NaN = bottom element; Φ⁻¹, log1p, sqrt, exp, gaussian quantile abstract and monotone; any list length): length preserved and exactly +inf arrays rejected; every component weakly order-preserving; the default pipeline (half-rank -> log -> infeasible) outputs finite labels of the same length with x<y <-> w x<w y and x=y -> w x=w y on finite entries, with or without infeasible entries, and every infeasible entry no higher than (strictly below, once two distinct labels exist) every feasible one; the outlier pipeline outputs finite labels and never reverses an order; all denominators non-zero under the branch guards; unwarp∘warp = id for log, infeasible, half-rank (intended threshold) and linear; counterexample theorems for the two as-written deviations of the pinned commit. Tie: both pipelines and seven components, real vs model, on generated arrays (ties, 24 orders of magnitude, NaN/-inf), order types compared exactly against an exact-rational model run, values to rtol 1e-9 (2e-4 on the tfp float32 path); aliasing checks; small-scope enumeration; property judged on the real outputs.',
   design_ref='DESIGN.md 6/C18',
   note='Float64/float32 behaviour is not proved (by design): three float-resolution / overflow known findings (dynamic range beyond float64 resolution, infeasible margin absorbed at large magnitude, labels near float64 max); weak monotonicity and finiteness are still enforced on those inputs. The interpolation branch of the half-rank inverse for unobserved values is not proved. Four defects repaired by fix: commits.',
   technique='Lean 4 + Mathlib ordered-field proofs (list induction, linarith/field_simp) + differential correspondence with Float and exact-rational model instances'),
 'C12': dict(
   text='Lean 4 proofs over all histories of create / forward status change / delete / update (the policy\'s two loader calls) in four policy modes (policy kept alive; rebuilt per request with the incorporated-id set restored from study metadata in any order; state lost -> clear; stateless DesignerPolicy): every update\'s active list equals the ACTIVE trials of that moment (no hypothesis); each update\'s completed list is EXACTLY the trials completed now and not given to that designer lineage before, hence every completed trial is delivered exactly once — by induction over histories with the invariant inc = delivered so far ⊆ {1..max}, under the hypothesis that no id is handed out twice (the repaired loader) / that the top trial is never deleted (the loader as written, pigeonhole argument); restore-from-metadata equals the live policy; the stateless policy delivers everything; after state loss a fresh designer gets every completed trial once; the full statement without the hypothesis is a def with two kernel-checked counterexamples. Tie: a recording designer hosted by the real PythiaServicer through a PolicyFactory (PartiallySerializable / Serializable / stateless policies; state through real study metadata; RAM + SQLite) and by InRamPolicySupporter; after every API call the trial table, the persisted id list and the full delivery log are compared with the model; the Lean predicates judge the real log.',
   design_ref='DESIGN.md 6/C12',
   note='Known finding: the service re-uses the id of a deleted max-id trial, whose successor is never delivered (needs ids that are never handed out twice = datastore design change). One defect repaired by a fix: commit (length shortcut of the loader). Designer-internal use of the delivered trials is not modelled.',
   technique='Lean 4 theorem proving (invariant by induction over operation histories, simulation restored ≃ live) + recording-designer correspondence check'),
 'C16': dict(
   text='Lean 4 proofs over an exact model of Python\'s value zoo (str | int | float as exact rational or nan/±inf | bool with ==, <=, float(), int(), round, truthiness) and of ParameterConfig.factory, the add_* builders, SearchSpace.add, contains/assert_contains and the SequentialParameterBuilder walk: the full membership biconditional (contains = true iff exactly the names of the space, each value type-compatible and inside its domain, written directly from the property text); a conditional space is refused, never answered; factory output is normalised (strictly sorted duplicate-free non-empty feasible values, finite ordered bounds, inferred type) and each invalid class (empty name, both/duplicate/mixed/non-finite feasible values, bad bounds, ill-typed default, children under a continuous parameter, duplicate name in a subspace) is rejected; the builder walk over a conditional tree of ANY depth yields exactly the recursively defined active parameters, each once (DFS = preorder, BFS = a permutation), and terminates; add_trial reaches the service only for members. Tie: real builders/factory/contains/builder walk/clients.Study.add_trial (RAM + SQLite) on type-directed definitions (valid, single-fault, malformed) and near-miss assignments, specification predicates evaluated on the real outputs.',
   design_ref='DESIGN.md 6/C16',
   note='Trusted: int<->float exactness (ints beyond double range excluded), str parsing inside float()/int() abstracted to an error, scale/fidelity not modelled. One defect (OverflowError on inf for an INTEGER parameter) repaired by a fix: commit.',
   technique='Lean 4 theorem proving (biconditional + structural induction on the conditional tree with fuel) + differential correspondence'),
 'C17': dict(
   text='Lean 4 proofs over a model of the wire (numbers become doubles, bools strings), ParameterValue.cast, the BFS of _trial_to_external_values (queue, remaining dict, parent matching) and the name[i] grouping: each presented value equals the stored one and has the declared type (bool / int / float / str); add_discrete_param auto_cast gives INTEGER iff all feasible values are integral; the presented parameters are a permutation of the active-and-carried parameters under C16\'s recursive definition (any depth); a trial carrying an unknown or inactive parameter is a ValueError, never a shorter dict; indexed names are grouped into one list in stable index order — under tree-unique names; the sibling-unique full statement is refuted by a kernel-checked witness for the code as written (a child of an inactive same-named config is presented) and proved for a by-value variant. Tie: cast grid, regex, trial_parameters and clients.Trial.parameters on a real local service (RAM + SQLite) over generated spaces and trials, every real presentation judged by the Lean predicate.',
   design_ref='DESIGN.md 6/C17',
   note='Three known findings (parent looked up by name with same-named configs under different parent values; a Python bool for a CATEGORICAL parameter stored as 1.0; a plain parameter m next to m[i] overwritten). Trusted: ASCII index digits, numeral strings not parsed, the wire model.',
   technique='Lean 4 theorem proving + differential correspondence with specification predicates on real outputs'),
}

NOT_YET = 'not yet built in this session (machinery in progress; see DESIGN.md section 7 build order)'

def main():
  checks = []
  for pid in ALL:
    if pid in CHECKS:
      c = CHECKS[pid]
      checks.append({
        'property_id': pid,
        'quick_cmd': './check %s --tier quick' % pid,
        'thorough_cmd': './check %s --tier thorough' % pid,
        'evidence_file': 'evidence/%s.json' % pid,
        'replay_cmd_template': './check %s --replay {path}' % pid,
        'engine': 'lean-model+correspondence',
        'level_claimed': {'category': 'proof', 'text': c['text'], 'design_ref': c['design_ref']},
        'level_note': c['note'],
        'technique': c['technique'],
      })
  m = {
    'version': 1,
    'setup_cmd': 'cd lean && lake build',
    'hooks': {
      'guard': 'VIZIER_VERIF',
      'enable': 'no source hooks in /repo: all instrumentation is injected from the harness process (./check exports VIZIER_VERIF=1 for uniformity)',
      'baseline_off_cmd': 'cd /repo && env -u VIZIER_VERIF /venv/bin/python -m pytest -ra -q -p no:cacheprovider --timeout=900 --continue-on-collection-errors',
      'source_commits': [],
      'add_only': True,
    },
    'engines': [{
      'name': 'lean-model+correspondence', 'path': 'lean/ + harness/',
      'serves_properties': sorted(CHECKS),
      'kind_free_text': 'Lean 4 models and theorems (lake project lean/, no Mathlib in models), axiom audit, JSON line-protocol drivers (lake env lean --run), Python correspondence harness driving the real code in-process',
    }],
    'checks': checks,
    'notes': 'Exit 2 = infrastructure failure (never a verdict). known_findings.json lists recorded defects; fixed defects are listed there as "fixed:" lines and suppress nothing.',
    'not_applicable': [{'property_id': p, 'reason': NOT_YET} for p in ALL if p not in CHECKS],
  }
  json.dump(m, open(os.path.join(HERE, 'MANIFEST.json'), 'w'), indent=1)
  # root import file of the Lean library: every Props module that is claimed
  mods = []
  for pid in sorted(CHECKS):
    tp = os.path.join(HERE, 'lean', 'theorems', pid + '.json')
    if os.path.exists(tp):
      mods += json.load(open(tp)).get('modules', [])
  extra = ['VizierModel.Driver.SvcJson', 'VizierModel.Driver.Util']
  body = '-- Root of the `VizierModel` library (generated by tools/gen_manifest.py).\n' + ''.join(
      'import %s\n' % m for m in sorted(set(mods + extra)))
  open(os.path.join(HERE, 'lean', 'VizierModel.lean'), 'w').write(body)

if __name__ == '__main__':
  main()
